package core

import (
	"crypto/sha256"
	"encoding/hex"
	"encoding/json"
	"fmt"
	"os"
	"path/filepath"
	"runtime"
	"runtime/debug"
	"sort"
	"strings"
	"sync"
	"time"
)

// Stream is one correspondence stream: it generates cases, executes them against
// the real implementation (producing protocol lines that carry the implementation's
// outcomes) and knows its own non-triviality rule.
type Stream interface {
	Name() string
	Property() string
	Rule() string
	// Cases is the number of generated cases for a tier ("quick" | "thorough").
	Cases(tier string) int
	Gen(r *Rand, tier string) any
	// Exec runs the case on a fresh implementation instance and returns the
	// protocol lines, "begin …" first, "end" last.
	Exec(c any) []string
	Len(c any) int
	// Drop returns a copy of the case without commands [lo,hi).
	Drop(c any, lo, hi int) any
	Encode(c any) ([]byte, error)
	Decode(b []byte) (any, error)
	// NonTrivial applies the stream's rule to an executed case.
	NonTrivial(lines, replies []string) bool
}

// Typed adapts typed generator/executor functions to Stream.
type Typed[C any] struct {
	StreamName, Prop, RuleText string
	NCases                     func(tier string) int
	GenF                       func(r *Rand, tier string) *C
	ExecF                      func(c *C) []string
	LenF                       func(c *C) int
	DropF                      func(c *C, lo, hi int) *C
	NonTrivialF                func(lines, replies []string) bool
}

func (t *Typed[C]) Name() string          { return t.StreamName }
func (t *Typed[C]) Property() string      { return t.Prop }
func (t *Typed[C]) Rule() string          { return t.RuleText }
func (t *Typed[C]) Cases(tier string) int { return t.NCases(tier) }
func (t *Typed[C]) Gen(r *Rand, tier string) any {
	return t.GenF(r, tier)
}
func (t *Typed[C]) Exec(c any) []string { return t.ExecF(c.(*C)) }
func (t *Typed[C]) Len(c any) int       { return t.LenF(c.(*C)) }
func (t *Typed[C]) Drop(c any, lo, hi int) any {
	return t.DropF(c.(*C), lo, hi)
}
func (t *Typed[C]) Encode(c any) ([]byte, error) { return json.Marshal(c.(*C)) }
func (t *Typed[C]) Decode(b []byte) (any, error) {
	var c C
	if err := json.Unmarshal(b, &c); err != nil {
		return nil, err
	}
	return &c, nil
}
func (t *Typed[C]) NonTrivial(lines, replies []string) bool {
	if t.NonTrivialF == nil {
		return len(lines) > 3
	}
	return t.NonTrivialF(lines, replies)
}

// Violation is one failing (shrunk) case.
type Violation struct {
	Property string `json:"property"`
	Stream   string `json:"stream"`
	Class    string `json:"class"` // SPECFAIL | PANIC | HANG | DIFF | PROTOCOL
	Summary  string `json:"summary"`
	Replay   string `json:"replay"`
	// NoFailingInput: the correspondence broke but the property-level predicate did
	// not fail on any explored input.
	NoFailingInput bool `json:"no_failing_input"`
}

// Known is a listed finding seen in this run.
type Known struct {
	ID    string `json:"id"`
	Count int    `json:"count"`
	What  string `json:"what"`
}

// Report is what cmd/corr writes for the check script.
type Report struct {
	Property           string         `json:"property"`
	Tier               string         `json:"tier"`
	Seed               uint64         `json:"seed"`
	Streams            []string       `json:"streams"`
	Evaluations        int            `json:"evaluations"`
	Cases              int            `json:"cases"`
	DistinctNontrivial int            `json:"distinct_nontrivial"`
	Rule               string         `json:"rule"`
	Samples            []any          `json:"samples"`
	Histograms         map[string]int `json:"histograms"`
	Unsupported        int            `json:"unsupported"`
	Known              []Known        `json:"known_findings_seen"`
	Violations         []Violation    `json:"violations"`
	WallS              float64        `json:"wall_s"`
}

type caseResult struct {
	lines, replies []string
	class          string // "" = pass
	summary        string
	known          map[string]int
	unsupported    int
}

// ExecSafe runs Exec with panic recovery and a timeout.
func ExecSafe(s Stream, c any, timeout time.Duration) (lines []string, class string, msg string) {
	type res struct {
		lines []string
		pan   string
	}
	ch := make(chan res, 1)
	go func() {
		defer func() {
			if r := recover(); r != nil {
				ch <- res{nil, fmt.Sprintf("%v\n%s", r, debug.Stack())}
			}
		}()
		ch <- res{s.Exec(c), ""}
	}()
	select {
	case r := <-ch:
		if r.pan != "" {
			return nil, "PANIC", r.pan
		}
		return r.lines, "", ""
	case <-time.After(timeout):
		return nil, "HANG", fmt.Sprintf("case did not finish within %s", timeout)
	}
}

func classify(replies, lines []string, known map[string]bool) (class, summary string, kn map[string]int, unsupported int) {
	kn = map[string]int{}
	rank := map[string]int{"": 0, "DIFF": 1, "PROTOCOL": 2, "SPECFAIL": 3, "PANIC": 4}
	set := func(c, s string) {
		if rank[c] > rank[class] {
			class, summary = c, s
		}
	}
	// Once an operation was outside the model's supported fragment (UNSUPPORTED: e.g. an Add of
	// an id that is still live — only a shrunk candidate contains one, the generators avoid
	// them) the model no longer follows the implementation: what comes after it in this case
	// is not judged. A failure that needs such an operation is not a failure of the property.
	tainted := false
	for i, r := range replies {
		if tainted && !strings.HasPrefix(r, "UNSUPPORTED") {
			continue
		}
		switch {
		case strings.HasPrefix(r, "ok"):
		case strings.HasPrefix(r, "KNOWN "):
			f := strings.Fields(r)
			if len(f) >= 2 && known[f[1]] {
				kn[f[1]]++
			} else {
				set("SPECFAIL", "unlisted finding: "+r+" @ "+trunc(lines[i], 200))
			}
		case strings.HasPrefix(r, "UNSUPPORTED"):
			unsupported++
			tainted = true
		case strings.HasPrefix(r, "SPECFAIL"):
			set("SPECFAIL", r+" @ "+trunc(lines[i], 200))
		case strings.HasPrefix(r, "DIFF"):
			set("DIFF", r+" @ "+trunc(lines[i], 200))
		default:
			set("PROTOCOL", r+" @ "+trunc(lines[i], 200))
		}
	}
	for _, l := range lines {
		if strings.HasPrefix(l, "op panic") {
			set("PANIC", trunc(l, 400))
		}
	}
	return
}

func trunc(s string, n int) string {
	if len(s) <= n {
		return s
	}
	return s[:n] + "…"
}

type Runner struct {
	DriverPath string
	ReplayDir  string
	Seed       uint64
	Tier       string
	Known      map[string]bool   // listed known-finding ids
	KnownWhat  map[string]string // id → description
	CorpusDir  string
	Workers    int
	Boost      int
	Timeout    time.Duration
	// InflightDir, when set, receives one file per worker holding the case that worker is
	// executing right now (removed when the case returns). A panic in a goroutine of the
	// implementation, a fatal runtime error or a kill takes the whole process down and cannot be
	// recovered in-process: the files left behind then name the candidates, which the caller
	// re-executes one by one to find the crashing case.
	InflightDir string
}

func (rn *Runner) markInflight(w int, s Stream, c any, caseNo int) string {
	if rn.InflightDir == "" {
		return ""
	}
	enc, err := s.Encode(c)
	if err != nil {
		return ""
	}
	rf := ReplayFile{Property: s.Property(), Stream: s.Name(), Seed: rn.Seed, CaseNo: caseNo,
		Class: "CRASH", Summary: "the correspondence harness process died while this case was being executed", Case: enc}
	b, _ := json.Marshal(rf)
	p := filepath.Join(rn.InflightDir, fmt.Sprintf("%d.json", w))
	if os.WriteFile(p, b, 0o644) != nil {
		return ""
	}
	return p
}

// loadFactor: how oversubscribed the machine is right now (1-minute load average per CPU, at
// least 1, at most 8). Time limits that exist to recognise a HANG are stretched by it, so that
// a slow machine is not mistaken for a hanging implementation.
func loadFactor() float64 {
	b, err := os.ReadFile("/proc/loadavg")
	if err != nil {
		return 1
	}
	var l1 float64
	if _, err := fmt.Sscan(string(b), &l1); err != nil {
		return 1
	}
	f := l1 / float64(runtime.NumCPU())
	if f < 1 {
		return 1
	}
	if f > 8 {
		return 8
	}
	return f
}

func (rn *Runner) runOne(d *Driver, s Stream, c any) caseResult {
	limit := time.Duration(float64(rn.Timeout) * loadFactor())
	lines, class, msg := ExecSafe(s, c, limit)
	if class == "HANG" {
		// one more try with four times the limit: only a case that still does not return is
		// reported as a hang (the first attempt keeps running in its goroutine meanwhile)
		lines, class, msg = ExecSafe(s, c, 4*limit)
	}
	if class != "" {
		return caseResult{class: class, summary: msg}
	}
	replies, err := d.Send(lines)
	if err != nil {
		return caseResult{lines: lines, replies: replies, class: "PROTOCOL", summary: err.Error()}
	}
	cl, sum, kn, un := classify(replies, lines, rn.Known)
	return caseResult{lines: lines, replies: replies, class: cl, summary: sum, known: kn, unsupported: un}
}

// shrink: delta debugging over the command list; keeps a candidate when it still
// fails with a class at least as severe.
func (rn *Runner) shrink(d *Driver, s Stream, c any, first caseResult) (any, caseResult) {
	rank := map[string]int{"": 0, "DIFF": 1, "PROTOCOL": 2, "SPECFAIL": 3, "PANIC": 4, "HANG": 4}
	best, bestRes := c, first
	budget := 400
	deadline := time.Now().Add(90 * time.Second)
	n := s.Len(best)
	for chunk := (n + 1) / 2; chunk >= 1 && budget > 0 && time.Now().Before(deadline); {
		progress := false
		for lo := 0; lo < s.Len(best) && budget > 0 && time.Now().Before(deadline); {
			hi := lo + chunk
			if hi > s.Len(best) {
				hi = s.Len(best)
			}
			cand := s.Drop(best, lo, hi)
			budget--
			r := rn.runOne(d, s, cand)
			// a candidate that steps outside the model's supported fragment where the original
			// did not (dropping a Remove between two Adds of one id makes an "add of a live id")
			// fails for a reason of its own: it is not a smaller witness of the same failure
			if rank[r.class] >= rank[bestRes.class] && r.class != "" && r.unsupported <= first.unsupported {
				best, bestRes = cand, r
				progress = true
			} else {
				lo = hi
			}
		}
		if chunk == 1 && !progress {
			break
		}
		if chunk > 1 {
			chunk = chunk / 2
		} else if !progress {
			break
		}
	}
	return best, bestRes
}

// ReplayFile is the on-disk form of a failing (or corpus) case.
type ReplayFile struct {
	Property string          `json:"property"`
	Stream   string          `json:"stream"`
	Seed     uint64          `json:"seed"`
	CaseNo   int             `json:"case_no"`
	Class    string          `json:"class"`
	Summary  string          `json:"summary"`
	Broken   string          `json:"broken_tie,omitempty"`
	Case     json.RawMessage `json:"case"`
	Lines    []string        `json:"lines"`
	Replies  []string        `json:"replies"`
}

func (rn *Runner) writeReplay(s Stream, c any, caseNo int, r caseResult) string {
	os.MkdirAll(rn.ReplayDir, 0o755)
	enc, _ := s.Encode(c)
	rf := ReplayFile{Property: s.Property(), Stream: s.Name(), Seed: rn.Seed, CaseNo: caseNo,
		Class: r.class, Summary: r.summary, Case: enc, Lines: r.lines, Replies: r.replies}
	if r.class == "DIFF" || r.class == "PROTOCOL" {
		rf.Broken = "correspondence:" + s.Name() + " (model and implementation disagree; property-level predicate did not fail on this input)"
	}
	b, _ := json.MarshalIndent(rf, "", " ")
	h := sha256.Sum256(b)
	p := filepath.Join(rn.ReplayDir, fmt.Sprintf("%s_%s_%s.json", s.Property(), s.Name(), hex.EncodeToString(h[:4])))
	os.WriteFile(p, b, 0o644)
	return p
}

// Run executes the corpus and the generated cases of the streams.
func (rn *Runner) Run(prop string, streams []Stream) (*Report, error) {
	start := time.Now()
	rep := &Report{Property: prop, Tier: rn.Tier, Seed: rn.Seed, Histograms: map[string]int{}}
	if rn.Workers <= 0 {
		rn.Workers = runtime.NumCPU()
		if rn.Workers > 12 {
			rn.Workers = 12
		}
	}
	if rn.Timeout == 0 {
		rn.Timeout = 60 * time.Second
	}
	var mu sync.Mutex
	distinct := map[[32]byte]bool{}
	knownSeen := map[string]int{}
	rules := []string{}
	type job struct {
		s      Stream
		c      any
		caseNo int
	}
	for _, s := range streams {
		rep.Streams = append(rep.Streams, s.Name())
		rules = append(rules, s.Name()+": "+s.Rule())
		jobs := make(chan job, 64)
		var wg sync.WaitGroup
		var firstErr error
		for w := 0; w < rn.Workers; w++ {
			wg.Add(1)
			w := w
			go func() {
				defer wg.Done()
				d, err := StartDriver(rn.DriverPath)
				if err != nil {
					mu.Lock()
					firstErr = err
					mu.Unlock()
					for range jobs {
					}
					return
				}
				defer d.Close()
				for j := range jobs {
					infl := rn.markInflight(w, j.s, j.c, j.caseNo)
					r := rn.runOne(d, j.s, j.c)
					if infl != "" && r.class != "HANG" {
						// (a case that hangs keeps running in its goroutine and may still bring the
						// process down later: its file stays)
						os.Remove(infl)
					}
					if r.class == "PROTOCOL" && strings.Contains(r.summary, "driver died") {
						d.Close()
						d, _ = StartDriver(rn.DriverPath)
					}
					var viol *Violation
					if r.class != "" {
						sc, sr := j.c, r
						if r.class != "HANG" {
							sc, sr = rn.shrink(d, j.s, j.c, r)
						}
						p := rn.writeReplay(j.s, sc, j.caseNo, sr)
						viol = &Violation{Property: prop, Stream: j.s.Name(), Class: sr.class,
							Summary: sr.summary, Replay: p,
							NoFailingInput: sr.class == "DIFF" || sr.class == "PROTOCOL"}
					}
					mu.Lock()
					rep.Cases++
					rep.Evaluations += len(r.lines)
					rep.Unsupported += r.unsupported
					for k, v := range r.known {
						knownSeen[k] += v
					}
					for i, l := range r.lines {
						f := strings.Fields(l)
						if len(f) >= 2 && f[0] == "op" {
							rep.Histograms["op:"+j.s.Name()+":"+f[1]]++
						}
						if i < len(r.replies) {
							for _, t := range strings.Fields(r.replies[i]) {
								if strings.HasSuffix(t, "=1") || t == "err" {
									rep.Histograms["flag:"+j.s.Name()+":"+t]++
								}
							}
						}
					}
					if r.class == "" && j.s.NonTrivial(r.lines, r.replies) {
						h := sha256.Sum256([]byte(strings.Join(r.lines, "\n")))
						distinct[h] = true
					}
					if len(rep.Samples) < 3*len(rep.Streams) && r.class == "" && len(r.lines) > 2 && len(r.lines) <= 40 {
						smp := []string{}
						for i, l := range r.lines {
							rp := ""
							if i < len(r.replies) {
								rp = "   ## " + r.replies[i]
							}
							smp = append(smp, trunc(l, 240)+rp)
						}
						rep.Samples = append(rep.Samples, map[string]any{"stream": j.s.Name(), "case_no": j.caseNo, "lines": smp})
					}
					if viol != nil {
						if len(rep.Violations) < 20 {
							rep.Violations = append(rep.Violations, *viol)
						} else if !viol.NoFailingInput {
							// the list is full: a violation with a failing input displaces one
							// that is only a model / implementation difference
							for i := range rep.Violations {
								if rep.Violations[i].NoFailingInput {
									rep.Violations[i] = *viol
									break
								}
							}
						}
					}
					mu.Unlock()
				}
			}()
		}
		// corpus first
		caseNo := 0
		if rn.CorpusDir != "" {
			files, _ := filepath.Glob(filepath.Join(rn.CorpusDir, prop, s.Name()+"_*.json"))
			sort.Strings(files)
			for _, f := range files {
				b, err := os.ReadFile(f)
				if err != nil {
					continue
				}
				var rf ReplayFile
				if json.Unmarshal(b, &rf) != nil {
					continue
				}
				c, err := s.Decode(rf.Case)
				if err != nil {
					continue
				}
				caseNo--
				jobs <- job{s, c, caseNo}
				mu.Lock() // the workers are already running and write the histograms too
				rep.Histograms["corpus:"+s.Name()]++
				mu.Unlock()
			}
		}
		n := s.Cases(rn.Tier)
		if rn.Boost > 1 {
			n *= rn.Boost
		}
		for i := 0; i < n; i++ {
			r := NewRand(rn.Seed, prop, s.Name(), fmt.Sprint(i))
			jobs <- job{s, s.Gen(r, rn.Tier), i}
		}
		close(jobs)
		wg.Wait()
		if firstErr != nil {
			return nil, firstErr
		}
	}
	rep.DistinctNontrivial = len(distinct)
	rep.Rule = strings.Join(rules, " | ")
	for k, v := range knownSeen {
		rep.Known = append(rep.Known, Known{ID: k, Count: v, What: rn.KnownWhat[k]})
	}
	sort.Slice(rep.Known, func(i, j int) bool { return rep.Known[i].ID < rep.Known[j].ID })
	if len(rep.Samples) == 0 {
		rep.Samples = []any{}
	}
	rep.WallS = time.Since(start).Seconds()
	return rep, nil
}

// Replay re-executes a replay file against the current implementation.
func (rn *Runner) Replay(path string, streams map[string]Stream) (bool, error) {
	b, err := os.ReadFile(path)
	if err != nil {
		return false, err
	}
	var rf ReplayFile
	if err := json.Unmarshal(b, &rf); err != nil {
		return false, err
	}
	s, ok := streams[rf.Property+"/"+rf.Stream]
	if !ok {
		return false, fmt.Errorf("unknown stream %s/%s", rf.Property, rf.Stream)
	}
	c, err := s.Decode(rf.Case)
	if err != nil {
		return false, err
	}
	d, err := StartDriver(rn.DriverPath)
	if err != nil {
		return false, err
	}
	defer d.Close()
	if rn.Timeout == 0 {
		rn.Timeout = 60 * time.Second
	}
	r := rn.runOne(d, s, c)
	for i, l := range r.lines {
		rp := ""
		if i < len(r.replies) {
			rp = r.replies[i]
		}
		fmt.Printf("%s\n    -> %s\n", trunc(l, 400), rp)
	}
	if r.class != "" {
		fmt.Printf("REPLAY FAILS class=%s %s\n", r.class, r.summary)
		return false, nil
	}
	fmt.Println("REPLAY PASSES")
	return true, nil
}
