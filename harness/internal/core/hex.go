package core

import (
	"fmt"
	"math"
	"strings"
)

func Hex32(f float32) string { return fmt.Sprintf("%08x", math.Float32bits(f)) }
func Hex64(f float64) string { return fmt.Sprintf("%016x", math.Float64bits(f)) }

// VecHex encodes a vector as 8 hex digits per component ("-" when empty).
func VecHex(v []float32) string {
	if len(v) == 0 {
		return "-"
	}
	var b strings.Builder
	for _, x := range v {
		fmt.Fprintf(&b, "%08x", math.Float32bits(x))
	}
	return b.String()
}

// IDs encodes an id list as comma separated decimals ("-" when empty).
func IDs(ids []uint32) string {
	if len(ids) == 0 {
		return "-"
	}
	s := make([]string, len(ids))
	for i, x := range ids {
		s[i] = fmt.Sprint(x)
	}
	return strings.Join(s, ",")
}

// Bits / FromBits convert vectors to JSON-safe bit patterns (NaN/Inf survive).
func Bits(v []float32) []uint32 {
	o := make([]uint32, len(v))
	for i, x := range v {
		o[i] = math.Float32bits(x)
	}
	return o
}

func FromBits(b []uint32) []float32 {
	o := make([]float32, len(b))
	for i, x := range b {
		o[i] = math.Float32frombits(x)
	}
	return o
}
