package core

import (
	"bufio"
	"fmt"
	"io"
	"os/exec"
	"strings"
)

// Driver is the Lean model process (lean/.lake/build/bin/cometdrv) behind a pipe:
// one reply line per request line.
type Driver struct {
	cmd *exec.Cmd
	in  io.WriteCloser
	out *bufio.Reader
}

func StartDriver(path string) (*Driver, error) {
	cmd := exec.Command(path)
	in, err := cmd.StdinPipe()
	if err != nil {
		return nil, err
	}
	out, err := cmd.StdoutPipe()
	if err != nil {
		return nil, err
	}
	if err := cmd.Start(); err != nil {
		return nil, err
	}
	return &Driver{cmd: cmd, in: in, out: bufio.NewReaderSize(out, 1<<20)}, nil
}

// Send writes all lines and reads one reply per line.
func (d *Driver) Send(lines []string) ([]string, error) {
	errc := make(chan error, 1)
	go func() {
		w := bufio.NewWriterSize(d.in, 1<<20)
		for _, l := range lines {
			if strings.ContainsAny(l, "\n\r") {
				errc <- fmt.Errorf("newline inside protocol line")
				return
			}
			w.WriteString(l)
			w.WriteByte('\n')
		}
		errc <- w.Flush()
	}()
	replies := make([]string, 0, len(lines))
	for range lines {
		r, err := d.out.ReadString('\n')
		if err != nil {
			return replies, fmt.Errorf("driver died: %w", err)
		}
		replies = append(replies, strings.TrimRight(r, "\n"))
	}
	if err := <-errc; err != nil {
		return replies, err
	}
	return replies, nil
}

func (d *Driver) Close() {
	d.in.Close()
	d.cmd.Wait()
}
