// Package core: PRNG, driver pipe, generic case runner, shrinker, evidence.
package core

import (
	"hash/fnv"
	"math"
)

// Rand is splitmix64. Every random choice of a run derives from
// (VERIF_SEED, property, stream, case number), so one case replays from those.
type Rand struct{ s uint64 }

func NewRand(seed uint64, labels ...string) *Rand {
	h := fnv.New64a()
	for _, l := range labels {
		h.Write([]byte(l))
		h.Write([]byte{0})
	}
	r := &Rand{s: seed ^ h.Sum64()}
	r.U64()
	return r
}

func (r *Rand) U64() uint64 {
	r.s += 0x9e3779b97f4a7c15
	z := r.s
	z = (z ^ (z >> 30)) * 0xbf58476d1ce4e5b9
	z = (z ^ (z >> 27)) * 0x94d049bb133111eb
	return z ^ (z >> 31)
}

// Intn returns a value in [0,n).
func (r *Rand) Intn(n int) int {
	if n <= 0 {
		return 0
	}
	return int(r.U64() % uint64(n))
}

// Range returns a value in [lo,hi].
func (r *Rand) Range(lo, hi int) int { return lo + r.Intn(hi-lo+1) }

func (r *Rand) Bool() bool { return r.U64()&1 == 1 }

// Chance is true with probability p.
func (r *Rand) Chance(p float64) bool { return r.Float64() < p }

func (r *Rand) Float64() float64 { return float64(r.U64()>>11) / (1 << 53) }

// Norm is a standard normal variate (Box-Muller).
func (r *Rand) Norm() float64 {
	u1 := r.Float64()
	if u1 < 1e-300 {
		u1 = 1e-300
	}
	u2 := r.Float64()
	return math.Sqrt(-2*math.Log(u1)) * math.Cos(2*math.Pi*u2)
}

// Pick returns one of the weights' indexes, proportional to weight.
func (r *Rand) Pick(weights ...int) int {
	t := 0
	for _, w := range weights {
		t += w
	}
	x := r.Intn(t)
	for i, w := range weights {
		if x < w {
			return i
		}
		x -= w
	}
	return len(weights) - 1
}

// Perm returns a permutation of 0..n-1.
func (r *Rand) Perm(n int) []int {
	p := make([]int, n)
	for i := range p {
		p[i] = i
	}
	for i := n - 1; i > 0; i-- {
		j := r.Intn(i + 1)
		p[i], p[j] = p[j], p[i]
	}
	return p
}
