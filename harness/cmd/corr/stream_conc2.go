package main

// More streams of C11 (driver: lean/Comet/Driver/Conc2.lean).
//
// "magg": read-only phase. 2..16 goroutines run multi-query searches (1..4 queries, score
// aggregation sum / max / mean) at the same time, on ONE shared index or on separate, unrelated
// instances. Every search is first answered sequentially; with no writer running, every
// concurrent answer must equal that answer (ids and score bits).
//
// "image": goroutines hammer a hybrid index with AddWithID / Remove of vector-only, text-only,
// metadata-only and all-modality documents while others call WriteTo in a loop; every image is
// reloaded into fresh templates and probed: its four parts must agree about every id, and the
// document set is judged like a search (one atomic read between WriteTo's call and return).

import (
	"bytes"
	"fmt"
	"io"
	"math"
	"os"
	"runtime"
	"sort"
	"strings"
	"sync"
	"sync/atomic"
	"time"

	comet "github.com/wizenheimer/comet"
	"verifharness/internal/core"
)

// ---------------------------------------------------------------------------------------------
// magg

type maggSearch struct {
	NQ  int    `json:"nq"`
	Agg string `json:"agg"` // sum | max | mean
	Q   int    `json:"q"`
}

type maggCase struct {
	Kind     string         `json:"kind"` // flat | hnsw | ivf | pq | ivfpq | bm25 | hybrid
	Shared   bool           `json:"shared"`
	N        int            `json:"n"` // documents per instance
	Reps     int            `json:"reps"`
	Searches [][]maggSearch `json:"searches"` // per goroutine
}

var maggKinds = []string{"flat", "hnsw", "ivf", "pq", "ivfpq", "bm25", "hybrid"}
var maggAggs = []string{"sum", "max", "mean"}

func genMagg(r *core.Rand, tier string) *maggCase {
	c := &maggCase{Kind: maggKinds[r.Pick(3, 2, 2, 2, 2, 2, 3)], Shared: r.Bool(), N: r.Range(20, 120), Reps: r.Range(3, 8)}
	g := r.Range(2, 16)
	if r.Chance(0.5) {
		g = r.Range(8, 16)
	}
	if tier == "thorough" {
		c.Reps = r.Range(4, 16)
	}
	// a case usually concentrates on one aggregation kind (state shared between searches of the
	// same kind is the thing to provoke), sometimes mixes them
	focus := maggAggs[r.Intn(3)]
	mixed := r.Chance(0.3)
	c.Searches = make([][]maggSearch, g)
	for gi := range c.Searches {
		for i := r.Range(1, 3); i > 0; i-- {
			agg := focus
			if mixed {
				agg = maggAggs[r.Intn(3)]
			}
			nq := r.Range(2, 4)
			if r.Chance(0.1) {
				nq = 1
			}
			c.Searches[gi] = append(c.Searches[gi], maggSearch{NQ: nq, Agg: agg, Q: r.Intn(1000)})
		}
	}
	return c
}

var maggTexts = []string{"common", "w1", "w2 w3", "w0 common", "w4", "w1 w2", "common w3"}

// maggInstance answers a search canonically: sorted "id:scorebits" list.
type maggInstance func(s maggSearch, g int) (string, error)

func canonHits(ids []uint32, bits []uint64, wide bool) string {
	if len(ids) == 0 {
		return "-"
	}
	hits := make([]string, len(ids))
	for i := range ids {
		if wide {
			hits[i] = fmt.Sprintf("%010d:%016x", ids[i], bits[i])
		} else {
			hits[i] = fmt.Sprintf("%010d:%08x", ids[i], bits[i])
		}
	}
	sort.Strings(hits)
	return strings.Join(hits, ",")
}

func maggQueries(s maggSearch, g int) [][]float32 {
	qs := make([][]float32, s.NQ)
	for i := range qs {
		qs[i] = concQuery(g+i*5, s.Q+i*17)
	}
	return qs
}

func newMaggInstance(kind string, base uint32, n int) (maggInstance, error) {
	agg := func(a string) comet.ScoreAggregationKind { return comet.ScoreAggregationKind(a) }
	vec := func(idx comet.VectorIndex, nprobe int) (maggInstance, error) {
		for j := 1; j <= n; j++ {
			id := base + uint32(j)
			if err := idx.Add(*comet.NewVectorNodeWithID(id, concVec(id*7+base%13))); err != nil {
				return nil, err
			}
		}
		return func(s maggSearch, g int) (string, error) {
			res, err := idx.NewSearch().WithK(bigK).WithNProbes(nprobe).WithEfSearch(4096).
				WithScoreAggregation(agg(s.Agg)).WithQuery(maggQueries(s, g)...).Execute()
			if err != nil {
				return "", err
			}
			ids := make([]uint32, len(res))
			bits := make([]uint64, len(res))
			for i, h := range res {
				ids[i], bits[i] = h.GetId(), uint64(math.Float32bits(h.GetScore()))
			}
			return canonHits(ids, bits, false), nil
		}, nil
	}
	l2 := comet.DistanceKind("l2")
	switch kind {
	case "flat":
		idx, err := comet.NewFlatIndex(4, l2)
		if err != nil {
			return nil, err
		}
		return vec(idx, 1)
	case "hnsw":
		idx, err := comet.NewHNSWIndex(4, l2, 4, 32, 4096)
		if err != nil {
			return nil, err
		}
		return vec(idx, 1)
	case "ivf":
		idx, err := comet.NewIVFIndex(4, 3, l2)
		if err != nil {
			return nil, err
		}
		if err := idx.Train(trainVecs(40)); err != nil {
			return nil, err
		}
		return vec(idx, 3)
	case "pq":
		idx, err := comet.NewPQIndex(4, l2, 2, 4)
		if err != nil {
			return nil, err
		}
		if err := idx.Train(trainVecs(40)); err != nil {
			return nil, err
		}
		return vec(idx, 1)
	case "ivfpq":
		idx, err := comet.NewIVFPQIndex(4, l2, 3, 2, 4)
		if err != nil {
			return nil, err
		}
		if err := idx.Train(trainVecs(40)); err != nil {
			return nil, err
		}
		return vec(idx, 3)
	case "bm25":
		idx := comet.NewBM25SearchIndex()
		for j := 1; j <= n; j++ {
			id := base + uint32(j)
			if err := idx.Add(id, concText(id+base%3)); err != nil {
				return nil, err
			}
		}
		return func(s maggSearch, g int) (string, error) {
			qs := make([]string, s.NQ)
			for i := range qs {
				qs[i] = maggTexts[(s.Q+g+i*3)%len(maggTexts)]
			}
			res, err := idx.NewSearch().WithK(bigK).WithScoreAggregation(agg(s.Agg)).WithQuery(qs...).Execute()
			if err != nil {
				return "", err
			}
			ids := make([]uint32, len(res))
			bits := make([]uint64, len(res))
			for i, h := range res {
				ids[i], bits[i] = h.GetId(), uint64(math.Float32bits(h.GetScore()))
			}
			return canonHits(ids, bits, false), nil
		}, nil
	case "hybrid":
		v, err := comet.NewFlatIndex(4, l2)
		if err != nil {
			return nil, err
		}
		idx := comet.NewHybridSearchIndex(v, comet.NewBM25SearchIndex(), comet.NewRoaringMetadataIndex())
		for j := 1; j <= n; j++ {
			id := base + uint32(j)
			if err := idx.AddWithID(id, concVec(id*7+base%13), concText(id+base%3), concMeta(id)); err != nil {
				return nil, err
			}
		}
		return func(s maggSearch, g int) (string, error) {
			qs := make([]string, s.NQ)
			for i := range qs {
				qs[i] = maggTexts[(s.Q+g+i*3)%len(maggTexts)]
			}
			h := idx.NewSearch().WithK(bigK).WithScoreAggregation(agg(s.Agg)).WithVector(concQuery(g, s.Q))
			if s.Q%3 != 0 {
				h = h.WithText(qs...)
			}
			res, err := h.Execute()
			if err != nil {
				return "", err
			}
			ids := make([]uint32, len(res))
			bits := make([]uint64, len(res))
			for i, r := range res {
				ids[i], bits[i] = r.ID, math.Float64bits(r.Score)
			}
			return canonHits(ids, bits, true), nil
		}, nil
	}
	return nil, fmt.Errorf("unknown kind %s", kind)
}

func execMagg(c *maggCase) []string {
	lines := []string{fmt.Sprintf("begin magg %s %v %d", c.Kind, c.Shared, len(c.Searches))}
	g := len(c.Searches)
	inst := make([]maggInstance, g)
	for gi := 0; gi < g; gi++ {
		if c.Shared && gi > 0 {
			inst[gi] = inst[0]
			continue
		}
		in, err := newMaggInstance(c.Kind, concIDBase+uint32(gi)*100000, c.N)
		if err != nil {
			return append(lines, "op panic constructor: "+err.Error(), "end")
		}
		inst[gi] = in
	}
	// sequential answers, before any concurrency
	for gi, ss := range c.Searches {
		for i, s := range ss {
			hits, err := inst[gi](s, gi)
			if err != nil {
				lines = append(lines, fmt.Sprintf("op seq %d %d %s %s %d => %s", gi, i, c.Kind, s.Agg, s.NQ, concErr(err)))
			} else {
				lines = append(lines, fmt.Sprintf("op seq %d %d %s %s %d => ok %s", gi, i, c.Kind, s.Agg, s.NQ, hits))
			}
		}
	}
	var mu sync.Mutex
	var wg sync.WaitGroup
	start := make(chan struct{})
	for gi := range c.Searches {
		wg.Add(1)
		go func(gi int) {
			defer wg.Done()
			<-start
			for rep := 0; rep < c.Reps; rep++ {
				for i, s := range c.Searches[gi] {
					var line string
					func() {
						defer func() {
							if r := recover(); r != nil {
								line = "op panic " + core_trunc(strings.ReplaceAll(fmt.Sprint(r), "\n", " "), 200)
							}
						}()
						hits, err := inst[gi](s, gi)
						if err != nil {
							line = fmt.Sprintf("op par %d %d %d => %s", gi, i, rep, concErr(err))
						} else {
							line = fmt.Sprintf("op par %d %d %d => ok %s", gi, i, rep, hits)
						}
					}()
					mu.Lock()
					lines = append(lines, line)
					mu.Unlock()
				}
				if rep%2 == 1 {
					runtime.Gosched()
				}
			}
		}(gi)
	}
	close(start)
	wg.Wait()
	return append(lines, "op judge => -", "end")
}

// ---------------------------------------------------------------------------------------------
// image

type imageOp struct {
	Op  string `json:"op"` // add | remove
	ID  uint32 `json:"id"`
	Mod string `json:"mod,omitempty"` // add: subset of "vtm"
}

type imageCase struct {
	Pre     int         `json:"pre"`     // all-modality documents added before the race
	Writers int         `json:"writers"` // goroutines calling WriteTo in a loop
	Loops   int         `json:"loops"`
	Progs   [][]imageOp `json:"progs"` // the Add / Remove goroutines
}

var imageMods = []string{"t", "m", "v", "vtm", "tm", "vt"}

func genImage(r *core.Rand, tier string) *imageCase {
	c := &imageCase{Pre: r.Range(20, 150), Writers: r.Range(1, 3), Loops: r.Range(4, 12)}
	g := r.Range(2, 13)
	maxOps := 16
	if tier == "thorough" {
		maxOps = 40
		c.Loops = r.Range(6, 24)
	}
	next := concIDBase + uint32(r.Intn(1000))*64 + 1000
	var ids []uint32
	c.Progs = make([][]imageOp, g)
	for gi := range c.Progs {
		n := r.Range(4, maxOps)
		for i := 0; i < n; i++ {
			if len(ids) == 0 || r.Chance(0.6) {
				next++
				ids = append(ids, next)
				// text-only / metadata-only documents dominate: they are not held up by the vector image
				c.Progs[gi] = append(c.Progs[gi], imageOp{Op: "add", ID: next, Mod: imageMods[r.Pick(5, 3, 2, 3, 2, 1)]})
			} else {
				var id uint32
				if r.Chance(0.8) {
					id = ids[r.Intn(len(ids))]
				} else {
					id = concIDBase + 1 + uint32(r.Intn(c.Pre))
				}
				c.Progs[gi] = append(c.Progs[gi], imageOp{Op: "remove", ID: id})
			}
		}
	}
	return c
}

func execImage(c *imageCase) []string {
	lines := []string{fmt.Sprintf("begin image %d %d", c.Writers, len(c.Progs))}
	l2 := comet.DistanceKind("l2")
	v, err := comet.NewFlatIndex(4, l2)
	if err != nil {
		return append(lines, "op panic constructor: "+err.Error(), "end")
	}
	idx := comet.NewHybridSearchIndex(v, comet.NewBM25SearchIndex(), comet.NewRoaringMetadataIndex())
	var clk atomic.Int64
	var mu sync.Mutex
	logf := func(format string, a ...any) {
		s := fmt.Sprintf(format, a...)
		mu.Lock()
		lines = append(lines, s)
		mu.Unlock()
	}
	guard := func(f func() string) (out string) {
		defer func() {
			if r := recover(); r != nil {
				out = "panic"
				logf("op panic %s", core_trunc(strings.ReplaceAll(fmt.Sprint(r), "\n", " "), 200))
			}
		}()
		return f()
	}
	add := func(g int, id uint32, mod string) {
		var vec []float32
		var text string
		var md map[string]interface{}
		if strings.Contains(mod, "v") {
			vec = concVec(id)
		}
		if strings.Contains(mod, "t") {
			text = concText(id)
		}
		if strings.Contains(mod, "m") {
			md = concMeta(id)
		}
		inv := clk.Add(1)
		out := guard(func() string { return concErr(idx.AddWithID(id, vec, text, md)) })
		logf("op add %d %d %d %d %s => %s", g, id, inv, clk.Add(1), mod, out)
	}
	for j := 1; j <= c.Pre; j++ {
		add(0, concIDBase+uint32(j), "vtm")
	}
	// one image: WriteTo into four buffers, reload into fresh templates, probe
	image := func(g int) {
		var hb, vb, tb, mb bytes.Buffer
		inv := clk.Add(1)
		out := guard(func() string { return concErr(idx.WriteTo(&hb, &vb, &tb, &mb)) })
		resp := clk.Add(1)
		if out != "ok" {
			logf("op image %d %d %d => %s", g, inv, resp, out)
			return
		}
		v2, _ := comet.NewFlatIndex(4, l2)
		t2 := comet.NewBM25SearchIndex()
		m2 := comet.NewRoaringMetadataIndex()
		h2 := comet.NewHybridSearchIndex(v2, t2, m2)
		rf, ok := h2.(io.ReaderFrom)
		if !ok {
			logf("op image %d %d %d => other:no_ReaderFrom", g, inv, resp)
			return
		}
		if out := guard(func() string {
			_, err := rf.ReadFrom(io.MultiReader(&hb, &vb, &tb, &mb))
			return concErr(err)
		}); out != "ok" {
			logf("op image %d %d %d => reload:%s", g, inv, resp, out)
			return
		}
		info, _ := comet.VerifCodecHybridDocInfo(h2)
		is := make([]string, len(info))
		for i, d := range info {
			f := ""
			if d.HasVector {
				f += "v"
			}
			if d.HasText {
				f += "t"
			}
			if d.HasMetadata {
				f += "m"
			}
			if f == "" {
				f = "0"
			}
			is[i] = fmt.Sprintf("%d:%s", d.ID, f)
		}
		infoS := "-"
		if len(is) > 0 {
			infoS = strings.Join(is, ",")
		}
		vids, _, vdel := v2.VerifFlatState()
		vids = minusIDs(vids, vdel)
		ts := t2.VerifState()
		var tids []uint32
		for id := range ts.DocLengths {
			tids = append(tids, id)
		}
		tids = minusIDs(tids, ts.Deleted)
		ms, merr := m2.VerifState()
		if merr != nil {
			logf("op image %d %d %d => other:meta_state", g, inv, resp)
			return
		}
		logf("op image %d %d %d => ok info=%s vec=%s txt=%s meta=%s", g, inv, resp, infoS, idsCSV(vids), idsCSV(tids), idsCSV(ms.AllDocs))
	}
	var wg sync.WaitGroup
	start := make(chan struct{})
	var running atomic.Int32
	running.Store(int32(len(c.Progs)))
	for w := 0; w < c.Writers; w++ {
		wg.Add(1)
		go func(w int) {
			defer wg.Done()
			<-start
			// keep serialising while the mutators run (at least Loops images)
			for i := 0; i < c.Loops || (running.Load() > 0 && i < 4*c.Loops); i++ {
				image(100 + w)
			}
		}(w)
	}
	for gi := range c.Progs {
		wg.Add(1)
		go func(gi int) {
			defer wg.Done()
			defer running.Add(-1)
			<-start
			for _, op := range c.Progs[gi] {
				if op.Op == "add" {
					add(gi, op.ID, op.Mod)
				} else {
					inv := clk.Add(1)
					out := guard(func() string { return concErr(idx.Remove(op.ID)) })
					logf("op remove %d %d %d %d => %s", gi, op.ID, inv, clk.Add(1), out)
				}
			}
		}(gi)
	}
	close(start)
	wg.Wait()
	image(999) // quiescent image
	sort.SliceStable(lines[1:], func(i, j int) bool { return imageLineInv(lines[1+i]) < imageLineInv(lines[1+j]) })
	return append(lines, "op judge => -", "end")
}

func imageLineInv(l string) int64 {
	f := strings.Fields(l)
	if len(f) < 5 {
		return 1 << 60
	}
	var n int64
	switch f[1] {
	case "add", "remove":
		fmt.Sscan(f[4], &n)
	case "image":
		fmt.Sscan(f[3], &n)
	default:
		return 1 << 60
	}
	return n
}

func minusIDs(ids, del []uint32) []uint32 {
	if len(del) == 0 {
		return ids
	}
	d := map[uint32]bool{}
	for _, x := range del {
		d[x] = true
	}
	var out []uint32
	for _, x := range ids {
		if !d[x] {
			out = append(out, x)
		}
	}
	return out
}

// ---------------------------------------------------------------------------------------------
// closerace: Close() against a compaction in flight

type closeRaceCase struct {
	Point string `json:"point"` // where the compaction worker is parked
	Docs  int    `json:"docs"`
}

var closeRacePoints = []string{"compact:load", "compact:write", "compact:swap"}

// closeRaceHung: a hang leaks goroutines and costs 10 s; cases are serialised by schedMu, so after
// the first reported hang the remaining cases of this process are not run again.
var closeRaceHung atomic.Bool

func execCloseRace(c *closeRaceCase) []string {
	schedMu.Lock() // the verifPoint handler is process-global
	defer schedMu.Unlock()
	lines := []string{"begin closerace"}
	if closeRaceHung.Load() {
		return append(lines, "# skipped: an earlier closerace case of this run hung (reported there)", "end")
	}
	dir, err := os.MkdirTemp("", "c11close")
	if err != nil {
		return append(lines, "op panic tempdir: "+err.Error(), "end")
	}
	defer os.RemoveAll(dir)
	v, _ := comet.NewFlatIndex(2, comet.DistanceKind("l2"))
	cfg := comet.DefaultStorageConfig(dir)
	cfg.MemtableSizeLimit = 100
	cfg.FlushThreshold = 1 << 40
	cfg.CompactionInterval = time.Hour
	cfg.CompactionThreshold = 2
	cfg.VectorIndexTemplate = v
	st, err := comet.OpenPersistentHybridIndex(cfg)
	if err != nil {
		return append(lines, "op panic open: "+err.Error(), "end")
	}
	// at least two segments on disk
	for i := 0; i < c.Docs; i++ {
		if err := st.AddWithID(uint32(500+i), []float32{1, float32(i)}, "", nil); err != nil {
			st.Close()
			return append(lines, "op panic add: "+err.Error(), "end")
		}
		st.VerifRotate()
		if err := st.Flush(); err != nil {
			st.Close()
			return append(lines, "op panic flush: "+err.Error(), "end")
		}
	}
	parked := make(chan struct{}, 1)
	release := make(chan struct{})
	closedFlag := make(chan struct{}, 1)
	var once, once2 sync.Once
	comet.VerifSetPointHandler(func(name string) {
		switch name {
		case c.Point:
			first := false
			once.Do(func() { first = true })
			if first {
				parked <- struct{}{}
				<-release
			}
		case "close:closed":
			once2.Do(func() { closedFlag <- struct{}{} })
		}
	})
	defer comet.VerifSetPointHandler(nil)
	st.TriggerCompaction()
	select {
	case <-parked:
	case <-time.After(3 * time.Second):
		close(release)
		st.Close()
		return append(lines, fmt.Sprintf("op closerace %s => nocompaction", c.Point), "end")
	}
	done := make(chan error, 1)
	go func() { done <- st.Close() }()
	// Close sets the closed flag (and, on the unchanged code, releases the store mutex) …
	select {
	case <-closedFlag:
	case <-time.After(2 * time.Second):
	}
	// … then the compaction goes on: it needs the store mutex for the segment swap
	close(release)
	select {
	case err := <-done:
		if err != nil {
			return append(lines, fmt.Sprintf("op closerace %s => %s", c.Point, concErr(err)), "end")
		}
		return append(lines, fmt.Sprintf("op closerace %s => ok", c.Point), "end")
	case <-time.After(10 * time.Second):
		// Close and the worker wait for each other; nothing can unblock them (the goroutines leak)
		closeRaceHung.Store(true)
		return append(lines, fmt.Sprintf("op closerace %s => hang", c.Point), "end")
	}
}

func init() {
	register(&core.Typed[maggCase]{
		StreamName: "magg", Prop: "C11",
		RuleText: "read-only phase: 2..16 goroutines run multi-query searches (1..4 queries; aggregation sum / max / mean, a case usually concentrating on one kind) concurrently on one shared index or on separate unrelated instances of flat/hnsw/ivf/pq/ivfpq/bm25/hybrid; each search is first answered sequentially and every concurrent answer must equal it (ids and score bits, canonical order); non-trivial when some search has at least two queries and a non-empty answer; distinct = distinct request streams",
		NCases: func(tier string) int {
			if tier == "thorough" {
				return 1500
			}
			return 150
		},
		GenF:  genMagg,
		ExecF: execMagg,
		LenF: func(c *maggCase) int {
			n := 0
			for _, s := range c.Searches {
				n += len(s)
			}
			return n
		},
		DropF: func(c *maggCase, lo, hi int) *maggCase {
			n := &maggCase{Kind: c.Kind, Shared: c.Shared, N: c.N, Reps: c.Reps, Searches: make([][]maggSearch, len(c.Searches))}
			k := 0
			for g, ss := range c.Searches {
				for _, s := range ss {
					if k < lo || k >= hi {
						n.Searches[g] = append(n.Searches[g], s)
					}
					k++
				}
			}
			return n
		},
		NonTrivialF: func(lines, replies []string) bool {
			for i, l := range lines {
				if strings.HasPrefix(l, "op judge") && i < len(replies) {
					m := kv(replies[i])
					return m["multi"] == 1 && m["nonempty"] == 1 && m["pars"] > 0
				}
			}
			return false
		},
	})
	register(&core.Typed[closeRaceCase]{
		StreamName: "closerace", Prop: "C11",
		RuleText: "Close() against a compaction in flight on a real store with 2..4 segments: the compaction worker is parked at a yield point outside the store mutex (compact:load / compact:write / compact:swap), Close is started, the worker is released once Close has set the closed flag; everybody must return (Close waits on a WaitGroup, which the lock-order theorem does not model); non-trivial when the compaction was really in flight",
		NCases: func(tier string) int {
			if tier == "thorough" {
				return 60
			}
			return 12
		},
		GenF: func(r *core.Rand, tier string) *closeRaceCase {
			return &closeRaceCase{Point: closeRacePoints[r.Intn(len(closeRacePoints))], Docs: r.Range(2, 4)}
		},
		ExecF: execCloseRace,
		LenF:  func(c *closeRaceCase) int { return 0 },
		DropF: func(c *closeRaceCase, lo, hi int) *closeRaceCase { return c },
		NonTrivialF: func(lines, replies []string) bool {
			for _, r := range replies {
				if strings.Contains(r, "raced=1") {
					return true
				}
			}
			return false
		},
	})
	register(&core.Typed[imageCase]{
		StreamName: "image", Prop: "C11",
		RuleText: "2..13 goroutines hammer a hybrid index (flat + BM25 + metadata) with AddWithID / Remove of text-only, metadata-only, vector-only and mixed-modality documents while 1..3 goroutines call WriteTo in a loop; every image is reloaded into fresh templates (ReadFrom) and probed: document table flags, vector / text / metadata images and the modalities the document was added with must agree for every id, and the document set is judged like a search by checkVisibility; non-trivial when an image is non-empty and a write overlapped an image in time",
		NCases: func(tier string) int {
			if tier == "thorough" {
				return 1200
			}
			return 120
		},
		GenF:  genImage,
		ExecF: execImage,
		LenF: func(c *imageCase) int {
			n := 0
			for _, p := range c.Progs {
				n += len(p)
			}
			return n
		},
		DropF: func(c *imageCase, lo, hi int) *imageCase {
			n := &imageCase{Pre: c.Pre, Writers: c.Writers, Loops: c.Loops, Progs: make([][]imageOp, len(c.Progs))}
			k := 0
			for g, p := range c.Progs {
				for _, op := range p {
					if k < lo || k >= hi {
						n.Progs[g] = append(n.Progs[g], op)
					}
					k++
				}
			}
			return n
		},
		NonTrivialF: func(lines, replies []string) bool {
			for i, l := range lines {
				if strings.HasPrefix(l, "op judge") && i < len(replies) {
					m := kv(replies[i])
					return m["overlap"] == 1 && m["nonempty"] == 1
				}
			}
			return false
		},
	})
}
