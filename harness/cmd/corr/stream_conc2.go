package main

// More streams of C11 (driver: lean/Comet/Driver/Conc2.lean).
//
// "magg": read-only phase. 2..16 goroutines run multi-query searches (1..4 queries, score
// aggregation sum / max / mean) at the same time, on ONE shared index or on separate, unrelated
// instances. Every search is first answered sequentially; with no writer running, every
// concurrent answer must equal that answer (ids and score bits).
//
// "image": goroutines hammer a hybrid index with AddWithID / Remove of vector-only, text-only,
// metadata-only and all-modality documents while others call WriteTo in a loop; every image is
// reloaded into fresh templates and probed: its four parts must agree about every id, and the
// document set is judged like a search (one atomic read between WriteTo's call and return).

import (
	"bytes"
	"fmt"
	"io"
	"math"
	"os"
	"runtime"
	"sort"
	"strings"
	"sync"
	"sync/atomic"
	"time"

	comet "github.com/wizenheimer/comet"
	"verifharness/internal/core"
)

// ---------------------------------------------------------------------------------------------
// magg

type maggSearch struct {
	NQ   int    `json:"nq"`
	Agg  string `json:"agg"` // sum | max | mean
	Q    int    `json:"q"`
	Filt int    `json:"filt,omitempty"` // 0 unrestricted | 1 a subset of the instance's ids | 2 ids the instance does not hold (matches nothing)
	Miss bool   `json:"miss,omitempty"` // text / hybrid: a query no document matches
}

type maggCase struct {
	Kind     string         `json:"kind"` // flat | hnsw | ivf | pq | ivfpq | bm25 | hybrid
	Shared   bool           `json:"shared"`
	N        int            `json:"n"` // documents per instance
	Reps     int            `json:"reps"`
	Searches [][]maggSearch `json:"searches"` // per goroutine
}

var maggKinds = []string{"flat", "hnsw", "ivf", "pq", "ivfpq", "bm25", "hybrid"}
var maggAggs = []string{"sum", "max", "mean"}

func genMagg(r *core.Rand, tier string) *maggCase {
	c := &maggCase{Kind: maggKinds[r.Pick(3, 2, 2, 2, 2, 2, 3)], Shared: r.Bool(), N: r.Range(20, 120), Reps: r.Range(3, 8)}
	g := r.Range(2, 16)
	if r.Chance(0.5) {
		g = r.Range(8, 16)
	}
	if tier == "thorough" {
		c.Reps = r.Range(4, 16)
	}
	// a case usually concentrates on one aggregation kind (state shared between searches of the
	// same kind is the thing to provoke), sometimes mixes them
	focus := maggAggs[r.Intn(3)]
	mixed := r.Chance(0.3)
	// id restrictions (WithDocumentIDs, hybrid: metadata pre-filter): every goroutine its own, incl.
	// restrictions and queries that match nothing
	filtered := r.Chance(0.5)
	c.Searches = make([][]maggSearch, g)
	for gi := range c.Searches {
		for i := r.Range(1, 3); i > 0; i-- {
			agg := focus
			if mixed {
				agg = maggAggs[r.Intn(3)]
			}
			nq := r.Range(2, 4)
			if r.Chance(0.1) {
				nq = 1
			}
			ms := maggSearch{NQ: nq, Agg: agg, Q: r.Intn(1000)}
			if filtered {
				ms.Filt = 1 + r.Pick(4, 1)
				ms.Miss = r.Chance(0.3)
			}
			c.Searches[gi] = append(c.Searches[gi], ms)
		}
	}
	return c
}

var maggTexts = []string{"common", "w1", "w2 w3", "w0 common", "w4", "w1 w2", "common w3"}

// maggInstance answers a search canonically: sorted "id:scorebits" list.
type maggInstance func(s maggSearch, g int) (hits string, filt string, err error)

func canonHits(ids []uint32, bits []uint64, wide bool) string {
	if len(ids) == 0 {
		return "-"
	}
	hits := make([]string, len(ids))
	for i := range ids {
		if wide {
			hits[i] = fmt.Sprintf("%010d:%016x", ids[i], bits[i])
		} else {
			hits[i] = fmt.Sprintf("%010d:%08x", ids[i], bits[i])
		}
	}
	sort.Strings(hits)
	return strings.Join(hits, ",")
}

func maggQueries(s maggSearch, g int) [][]float32 {
	qs := make([][]float32, s.NQ)
	for i := range qs {
		qs[i] = concQuery(g+i*5, s.Q+i*17)
	}
	return qs
}

// maggFilter: the id restriction of a search on an instance holding base+1 … base+n
func maggFilter(s maggSearch, base uint32, n int) []uint32 {
	var ids []uint32
	switch s.Filt {
	case 1:
		for j := 1; j <= n; j++ {
			if (j*7+s.Q)%3 == 0 {
				ids = append(ids, base+uint32(j))
			}
		}
		if len(ids) == 0 {
			ids = []uint32{base + 1}
		}
	case 2:
		ids = []uint32{base + 90001, base + 90002 + uint32(s.Q%5)}
	}
	return ids
}

func newMaggInstance(kind string, base uint32, n int) (maggInstance, error) {
	agg := func(a string) comet.ScoreAggregationKind { return comet.ScoreAggregationKind(a) }
	filtS := func(ids []uint32, on bool) string {
		if !on {
			return "all"
		}
		return idsCSV(ids)
	}
	vec := func(idx comet.VectorIndex, nprobe int) (maggInstance, error) {
		for j := 1; j <= n; j++ {
			id := base + uint32(j)
			if err := idx.Add(*comet.NewVectorNodeWithID(id, concVec(id*7+base%13))); err != nil {
				return nil, err
			}
		}
		return func(s maggSearch, g int) (string, string, error) {
			vs := idx.NewSearch().WithK(bigK).WithNProbes(nprobe).WithEfSearch(4096).
				WithScoreAggregation(agg(s.Agg)).WithQuery(maggQueries(s, g)...)
			f := maggFilter(s, base, n)
			if s.Filt != 0 {
				vs = vs.WithDocumentIDs(f...)
			}
			res, err := vs.Execute()
			if err != nil {
				return "", "", err
			}
			ids := make([]uint32, len(res))
			bits := make([]uint64, len(res))
			for i, h := range res {
				ids[i], bits[i] = h.GetId(), uint64(math.Float32bits(h.GetScore()))
			}
			return canonHits(ids, bits, false), filtS(f, s.Filt != 0), nil
		}, nil
	}
	l2 := comet.DistanceKind("l2")
	switch kind {
	case "flat":
		idx, err := comet.NewFlatIndex(4, l2)
		if err != nil {
			return nil, err
		}
		return vec(idx, 1)
	case "hnsw":
		idx, err := comet.NewHNSWIndex(4, l2, 4, 32, 4096)
		if err != nil {
			return nil, err
		}
		return vec(idx, 1)
	case "ivf":
		idx, err := comet.NewIVFIndex(4, 3, l2)
		if err != nil {
			return nil, err
		}
		if err := idx.Train(trainVecs(40)); err != nil {
			return nil, err
		}
		return vec(idx, 3)
	case "pq":
		idx, err := comet.NewPQIndex(4, l2, 2, 4)
		if err != nil {
			return nil, err
		}
		if err := idx.Train(trainVecs(40)); err != nil {
			return nil, err
		}
		return vec(idx, 1)
	case "ivfpq":
		idx, err := comet.NewIVFPQIndex(4, l2, 3, 2, 4)
		if err != nil {
			return nil, err
		}
		if err := idx.Train(trainVecs(40)); err != nil {
			return nil, err
		}
		return vec(idx, 3)
	case "bm25":
		idx := comet.NewBM25SearchIndex()
		for j := 1; j <= n; j++ {
			id := base + uint32(j)
			if err := idx.Add(id, concText(id+base%3)); err != nil {
				return nil, err
			}
		}
		return func(s maggSearch, g int) (string, string, error) {
			qs := make([]string, s.NQ)
			for i := range qs {
				qs[i] = maggTexts[(s.Q+g+i*3)%len(maggTexts)]
				if s.Miss {
					qs[i] = fmt.Sprintf("zzz%d", i) // no document has this term
				}
			}
			ts := idx.NewSearch().WithK(bigK).WithScoreAggregation(agg(s.Agg)).WithQuery(qs...)
			f := maggFilter(s, base, n)
			if s.Filt != 0 {
				ts = ts.WithDocumentIDs(f...)
			}
			res, err := ts.Execute()
			if err != nil {
				return "", "", err
			}
			ids := make([]uint32, len(res))
			bits := make([]uint64, len(res))
			for i, h := range res {
				ids[i], bits[i] = h.GetId(), uint64(math.Float32bits(h.GetScore()))
			}
			return canonHits(ids, bits, false), filtS(f, s.Filt != 0), nil
		}, nil
	case "hybrid":
		v, err := comet.NewFlatIndex(4, l2)
		if err != nil {
			return nil, err
		}
		idx := comet.NewHybridSearchIndex(v, comet.NewBM25SearchIndex(), comet.NewRoaringMetadataIndex())
		for j := 1; j <= n; j++ {
			id := base + uint32(j)
			if err := idx.AddWithID(id, concVec(id*7+base%13), concText(id+base%3), concMeta(id)); err != nil {
				return nil, err
			}
		}
		return func(s maggSearch, g int) (string, string, error) {
			qs := make([]string, s.NQ)
			for i := range qs {
				qs[i] = maggTexts[(s.Q+g+i*3)%len(maggTexts)]
				if s.Miss {
					qs[i] = fmt.Sprintf("zzz%d", i)
				}
			}
			h := idx.NewSearch().WithK(bigK).WithScoreAggregation(agg(s.Agg))
			// restriction = metadata pre-filter: the documents of one category (or of none)
			var f []uint32
			switch s.Filt {
			case 1:
				cat := s.Q % 3
				h = h.WithMetadata(comet.Eq("cat", fmt.Sprintf("c%d", cat)))
				for j := 1; j <= n; j++ {
					if (base+uint32(j))%3 == uint32(cat) {
						f = append(f, base+uint32(j))
					}
				}
			case 2:
				h = h.WithMetadata(comet.Eq("cat", "nothing-has-this"))
			}
			switch {
			case s.Miss: // text only, matching nothing (inside the filtered set)
				h = h.WithText(qs...)
			case s.Q%3 != 0:
				h = h.WithVector(concQuery(g, s.Q)).WithText(qs...)
			default:
				h = h.WithVector(concQuery(g, s.Q))
			}
			res, err := h.Execute()
			if err != nil {
				return "", "", err
			}
			ids := make([]uint32, len(res))
			bits := make([]uint64, len(res))
			for i, r := range res {
				ids[i], bits[i] = r.ID, math.Float64bits(r.Score)
			}
			return canonHits(ids, bits, true), filtS(f, s.Filt != 0), nil
		}, nil
	}
	return nil, fmt.Errorf("unknown kind %s", kind)
}

func execMagg(c *maggCase) []string {
	lines := []string{fmt.Sprintf("begin magg %s %v %d", c.Kind, c.Shared, len(c.Searches))}
	g := len(c.Searches)
	inst := make([]maggInstance, g)
	for gi := 0; gi < g; gi++ {
		if c.Shared && gi > 0 {
			inst[gi] = inst[0]
			continue
		}
		in, err := newMaggInstance(c.Kind, concIDBase+uint32(gi)*100000, c.N)
		if err != nil {
			return append(lines, "op panic constructor: "+err.Error(), "end")
		}
		inst[gi] = in
	}
	// sequential answers, before any concurrency
	for gi, ss := range c.Searches {
		for i, s := range ss {
			hits, filt, err := inst[gi](s, gi)
			if err != nil {
				lines = append(lines, fmt.Sprintf("op seq %d %d %s %s %d all => %s", gi, i, c.Kind, s.Agg, s.NQ, concErr(err)))
			} else {
				lines = append(lines, fmt.Sprintf("op seq %d %d %s %s %d %s => ok %s", gi, i, c.Kind, s.Agg, s.NQ, filt, hits))
			}
		}
	}
	var mu sync.Mutex
	var wg sync.WaitGroup
	start := make(chan struct{})
	for gi := range c.Searches {
		wg.Add(1)
		go func(gi int) {
			defer wg.Done()
			<-start
			for rep := 0; rep < c.Reps; rep++ {
				for i, s := range c.Searches[gi] {
					var line string
					func() {
						defer func() {
							if r := recover(); r != nil {
								line = "op panic " + core_trunc(strings.ReplaceAll(fmt.Sprint(r), "\n", " "), 200)
							}
						}()
						hits, _, err := inst[gi](s, gi)
						if err != nil {
							line = fmt.Sprintf("op par %d %d %d => %s", gi, i, rep, concErr(err))
						} else {
							line = fmt.Sprintf("op par %d %d %d => ok %s", gi, i, rep, hits)
						}
					}()
					mu.Lock()
					lines = append(lines, line)
					mu.Unlock()
				}
				if rep%2 == 1 {
					runtime.Gosched()
				}
			}
		}(gi)
	}
	close(start)
	wg.Wait()
	return append(lines, "op judge => -", "end")
}

// ---------------------------------------------------------------------------------------------
// image

type imageOp struct {
	Op  string `json:"op"` // add | remove
	ID  uint32 `json:"id"`
	Mod string `json:"mod,omitempty"` // add: subset of "vtm"
}

type imageCase struct {
	Pre     int         `json:"pre"`     // all-modality documents added before the race
	Writers int         `json:"writers"` // goroutines calling WriteTo in a loop
	Loops   int         `json:"loops"`
	Progs   [][]imageOp `json:"progs"`         // the Add / Remove goroutines
	Hot     []imageOp   `json:"hot,omitempty"` // contended ids: added before the race with a partial modality set
}

var imageMods = []string{"t", "m", "v", "vtm", "tm", "vt"}

func genImage(r *core.Rand, tier string) *imageCase {
	c := &imageCase{Pre: r.Range(20, 150), Writers: r.Range(1, 3), Loops: r.Range(4, 12)}
	g := r.Range(2, 13)
	maxOps := 16
	if tier == "thorough" {
		maxOps = 40
		c.Loops = r.Range(6, 24)
	}
	next := concIDBase + uint32(r.Intn(1000))*64 + 1000
	var ids []uint32
	c.Progs = make([][]imageOp, g)
	for gi := range c.Progs {
		n := r.Range(4, maxOps)
		for i := 0; i < n; i++ {
			if len(ids) == 0 || r.Chance(0.6) {
				next++
				ids = append(ids, next)
				// text-only / metadata-only documents dominate: they are not held up by the vector image
				c.Progs[gi] = append(c.Progs[gi], imageOp{Op: "add", ID: next, Mod: imageMods[r.Pick(5, 3, 2, 3, 2, 1)]})
			} else {
				var id uint32
				if r.Chance(0.8) {
					id = ids[r.Intn(len(ids))]
				} else {
					id = concIDBase + 1 + uint32(r.Intn(c.Pre))
				}
				c.Progs[gi] = append(c.Progs[gi], imageOp{Op: "remove", ID: id})
			}
		}
	}
	// contended ids: each exists before the race with a PARTIAL modality set; during the race one
	// goroutine re-adds it with all modalities while one or two others remove it (a Remove that
	// looked the document up before the re-add and deletes after it must not act on stale
	// knowledge); whatever the order, table and sub-indexes must agree afterwards
	if g >= 3 && r.Chance(0.8) {
		partial := []string{"v", "t", "m", "vt", "tm", "vm"}
		ins := func(gi int, op imageOp) {
			p := c.Progs[gi]
			k := r.Intn(len(p) + 1)
			p = append(p, imageOp{})
			copy(p[k+1:], p[k:])
			p[k] = op
			c.Progs[gi] = p
		}
		for j := r.Range(8, 30); j > 0; j-- {
			id := concIDBase + 200000 + uint32(j)
			c.Hot = append(c.Hot, imageOp{Op: "add", ID: id, Mod: partial[r.Intn(len(partial))]})
			perm := r.Perm(g)
			ins(perm[0], imageOp{Op: "add", ID: id, Mod: "vtm"})
			ins(perm[1], imageOp{Op: "remove", ID: id})
			if r.Chance(0.5) {
				ins(perm[2], imageOp{Op: "remove", ID: id})
			}
		}
	}
	return c
}

func execImage(c *imageCase) []string {
	lines := []string{fmt.Sprintf("begin image %d %d", c.Writers, len(c.Progs))}
	l2 := comet.DistanceKind("l2")
	v, err := comet.NewFlatIndex(4, l2)
	if err != nil {
		return append(lines, "op panic constructor: "+err.Error(), "end")
	}
	liveT := comet.NewBM25SearchIndex()
	liveM := comet.NewRoaringMetadataIndex()
	idx := comet.NewHybridSearchIndex(v, liveT, liveM)
	var clk atomic.Int64
	var mu sync.Mutex
	logf := func(format string, a ...any) {
		s := fmt.Sprintf(format, a...)
		mu.Lock()
		lines = append(lines, s)
		mu.Unlock()
	}
	guard := func(f func() string) (out string) {
		defer func() {
			if r := recover(); r != nil {
				out = "panic"
				logf("op panic %s", core_trunc(strings.ReplaceAll(fmt.Sprint(r), "\n", " "), 200))
			}
		}()
		return f()
	}
	// probe: what a hybrid index and its three sub-indexes say about every id
	probe := func(g int, inv, resp int64, h2 comet.HybridSearchIndex, v2 *comet.FlatIndex, t2 *comet.BM25SearchIndex, m2 *comet.RoaringMetadataIndex) {
		info, _ := comet.VerifCodecHybridDocInfo(h2)
		is := make([]string, len(info))
		for i, d := range info {
			f := ""
			if d.HasVector {
				f += "v"
			}
			if d.HasText {
				f += "t"
			}
			if d.HasMetadata {
				f += "m"
			}
			if f == "" {
				f = "0"
			}
			is[i] = fmt.Sprintf("%d:%s", d.ID, f)
		}
		infoS := "-"
		if len(is) > 0 {
			infoS = strings.Join(is, ",")
		}
		vids, _, vdel := v2.VerifFlatState()
		vids = dedupIDs(minusIDs(vids, vdel))
		ts := t2.VerifState()
		var tids []uint32
		for id := range ts.DocLengths {
			tids = append(tids, id)
		}
		tids = minusIDs(tids, ts.Deleted)
		ms, merr := m2.VerifState()
		if merr != nil {
			logf("op image %d %d %d => other:meta_state", g, inv, resp)
			return
		}
		logf("op image %d %d %d => ok info=%s vec=%s txt=%s meta=%s", g, inv, resp, infoS, idsCSV(vids), idsCSV(tids), idsCSV(ms.AllDocs))
	}
	add := func(g int, id uint32, mod string) {
		var vec []float32
		var text string
		var md map[string]interface{}
		if strings.Contains(mod, "v") {
			vec = concVec(id)
		}
		if strings.Contains(mod, "t") {
			text = concText(id)
		}
		if strings.Contains(mod, "m") {
			md = concMeta(id)
		}
		inv := clk.Add(1)
		out := guard(func() string { return concErr(idx.AddWithID(id, vec, text, md)) })
		logf("op add %d %d %d %d %s => %s", g, id, inv, clk.Add(1), mod, out)
	}
	for j := 1; j <= c.Pre; j++ {
		add(0, concIDBase+uint32(j), "vtm")
	}
	for _, h := range c.Hot {
		add(0, h.ID, h.Mod)
	}
	// one image: WriteTo into four buffers, reload into fresh templates, probe
	image := func(g int) {
		var hb, vb, tb, mb bytes.Buffer
		inv := clk.Add(1)
		out := guard(func() string { return concErr(idx.WriteTo(&hb, &vb, &tb, &mb)) })
		resp := clk.Add(1)
		if out != "ok" {
			logf("op image %d %d %d => %s", g, inv, resp, out)
			return
		}
		v2, _ := comet.NewFlatIndex(4, l2)
		t2 := comet.NewBM25SearchIndex()
		m2 := comet.NewRoaringMetadataIndex()
		h2 := comet.NewHybridSearchIndex(v2, t2, m2)
		rf, ok := h2.(io.ReaderFrom)
		if !ok {
			logf("op image %d %d %d => other:no_ReaderFrom", g, inv, resp)
			return
		}
		if out := guard(func() string {
			_, err := rf.ReadFrom(io.MultiReader(&hb, &vb, &tb, &mb))
			return concErr(err)
		}); out != "ok" {
			logf("op image %d %d %d => reload:%s", g, inv, resp, out)
			return
		}
		probe(g, inv, resp, h2, v2, t2, m2)
	}
	var wg sync.WaitGroup
	start := make(chan struct{})
	var running atomic.Int32
	running.Store(int32(len(c.Progs)))
	for w := 0; w < c.Writers; w++ {
		wg.Add(1)
		go func(w int) {
			defer wg.Done()
			<-start
			// keep serialising while the mutators run (at least Loops images)
			for i := 0; i < c.Loops || (running.Load() > 0 && i < 4*c.Loops); i++ {
				image(100 + w)
			}
		}(w)
	}
	for gi := range c.Progs {
		wg.Add(1)
		go func(gi int) {
			defer wg.Done()
			defer running.Add(-1)
			<-start
			for _, op := range c.Progs[gi] {
				if op.Op == "add" {
					add(gi, op.ID, op.Mod)
				} else {
					inv := clk.Add(1)
					out := guard(func() string { return concErr(idx.Remove(op.ID)) })
					logf("op remove %d %d %d %d => %s", gi, op.ID, inv, clk.Add(1), out)
				}
			}
		}(gi)
	}
	close(start)
	wg.Wait()
	image(999) // quiescent image
	// … and the LIVE index itself (Flush first: tombstoned entries are physically dropped)
	inv := clk.Add(1)
	idx.Flush()
	probe(998, inv, clk.Add(1), idx, v, liveT, liveM)
	sort.SliceStable(lines[1:], func(i, j int) bool { return imageLineInv(lines[1+i]) < imageLineInv(lines[1+j]) })
	return append(lines, "op judge => -", "end")
}

func imageLineInv(l string) int64 {
	f := strings.Fields(l)
	if len(f) < 5 {
		return 1 << 60
	}
	var n int64
	switch f[1] {
	case "add", "remove":
		fmt.Sscan(f[4], &n)
	case "image":
		fmt.Sscan(f[3], &n)
	default:
		return 1 << 60
	}
	return n
}

func dedupIDs(ids []uint32) []uint32 {
	seen := map[uint32]bool{}
	var out []uint32
	for _, x := range ids {
		if !seen[x] {
			seen[x] = true
			out = append(out, x)
		}
	}
	return out
}

func minusIDs(ids, del []uint32) []uint32 {
	if len(del) == 0 {
		return ids
	}
	d := map[uint32]bool{}
	for _, x := range del {
		d[x] = true
	}
	var out []uint32
	for _, x := range ids {
		if !d[x] {
			out = append(out, x)
		}
	}
	return out
}

// ---------------------------------------------------------------------------------------------
// closerace: Close() against a compaction in flight

type closeRaceCase struct {
	Point string `json:"point"` // where the compaction worker is parked
	Docs  int    `json:"docs"`
}

var closeRacePoints = []string{"compact:load", "compact:write", "compact:swap", "add:in-flight", "add:in-flight"}

// execCloseVsAdd: an AddWithID that has passed the closed-check (parked at the yield point inside
// memtable.addWithID) while Close() runs; the add then finishes — writes, and asks for a flush
// (FlushThreshold = 1) — against a store that is shutting down. Nobody may panic, everybody returns.
func execCloseVsAdd(c *closeRaceCase) []string {
	lines := []string{"begin closerace"}
	dir, err := os.MkdirTemp("", "c11close")
	if err != nil {
		return append(lines, "op panic tempdir: "+err.Error(), "end")
	}
	defer os.RemoveAll(dir)
	v, _ := comet.NewFlatIndex(2, comet.DistanceKind("l2"))
	cfg := comet.DefaultStorageConfig(dir)
	cfg.MemtableSizeLimit = 100
	cfg.FlushThreshold = 1 // every add asks the flush worker for a flush
	cfg.CompactionInterval = time.Hour
	cfg.CompactionThreshold = 1 << 30
	cfg.VectorIndexTemplate = v
	st, err := comet.OpenPersistentHybridIndex(cfg)
	if err != nil {
		return append(lines, "op panic open: "+err.Error(), "end")
	}
	for i := 0; i < c.Docs; i++ {
		if err := st.AddWithID(uint32(500+i), []float32{1, float32(i)}, "", nil); err != nil {
			st.Close()
			return append(lines, "op panic add: "+err.Error(), "end")
		}
	}
	parked := make(chan struct{}, 1)
	release := make(chan struct{})
	closedFlag := make(chan struct{}, 1)
	var adder atomic.Int64
	var once2 sync.Once
	comet.VerifSetPointHandler(func(name string) {
		switch name {
		case "memtable:addWithID:checked":
			if goid() == adder.Load() {
				parked <- struct{}{}
				<-release
			}
		case "close:closed":
			once2.Do(func() { closedFlag <- struct{}{} })
		}
	})
	defer comet.VerifSetPointHandler(nil)
	addDone := make(chan string, 1)
	go func() {
		adder.Store(goid())
		defer func() {
			if r := recover(); r != nil {
				addDone <- "panic:" + strings.ReplaceAll(core_trunc(fmt.Sprint(r), 80), " ", "_")
			}
		}()
		if err := st.AddWithID(900, []float32{2, 3}, "", nil); err != nil {
			addDone <- "err"
		} else {
			addDone <- "ok"
		}
	}()
	select {
	case <-parked:
	case out := <-addDone:
		close(release)
		st.Close()
		return append(lines, "# the add did not reach its yield point: "+out, fmt.Sprintf("op closerace %s => nocompaction", c.Point), "end")
	case <-time.After(3 * time.Second):
		close(release)
		st.Close()
		return append(lines, fmt.Sprintf("op closerace %s => nocompaction", c.Point), "end")
	}
	closeDone := make(chan error, 1)
	go func() { closeDone <- st.Close() }()
	select {
	case <-closedFlag:
	case <-time.After(2 * time.Second):
	}
	time.Sleep(20 * time.Millisecond) // Close signals its workers right after the flag
	close(release)
	out := "hang"
	select {
	case out = <-addDone:
	case <-time.After(10 * time.Second):
	}
	if strings.HasPrefix(out, "panic:") {
		select {
		case <-closeDone:
		case <-time.After(5 * time.Second):
		}
		return append(lines, "op panic (AddWithID in flight while Close ran) "+out[6:], fmt.Sprintf("op closerace %s => %s", c.Point, out), "end")
	}
	if out != "hang" {
		select {
		case <-closeDone:
			out = "ok"
		case <-time.After(10 * time.Second):
			out = "hang"
		}
	}
	if out == "hang" {
		closeRaceHung.Store(true)
	}
	return append(lines, fmt.Sprintf("op closerace %s => %s", c.Point, out), "end")
}

// closeRaceHung: a hang leaks goroutines and costs 10 s; cases are serialised by schedMu, so after
// the first reported hang the remaining cases of this process are not run again.
var closeRaceHung atomic.Bool

func execCloseRace(c *closeRaceCase) []string {
	schedMu.Lock() // the verifPoint handler is process-global
	defer schedMu.Unlock()
	lines := []string{"begin closerace"}
	if closeRaceHung.Load() {
		return append(lines, "# skipped: an earlier closerace case of this run hung (reported there)", "end")
	}
	if c.Point == "add:in-flight" {
		return execCloseVsAdd(c)
	}
	dir, err := os.MkdirTemp("", "c11close")
	if err != nil {
		return append(lines, "op panic tempdir: "+err.Error(), "end")
	}
	defer os.RemoveAll(dir)
	v, _ := comet.NewFlatIndex(2, comet.DistanceKind("l2"))
	cfg := comet.DefaultStorageConfig(dir)
	cfg.MemtableSizeLimit = 100
	cfg.FlushThreshold = 1 << 40
	cfg.CompactionInterval = time.Hour
	cfg.CompactionThreshold = 2
	cfg.VectorIndexTemplate = v
	st, err := comet.OpenPersistentHybridIndex(cfg)
	if err != nil {
		return append(lines, "op panic open: "+err.Error(), "end")
	}
	// at least two segments on disk
	for i := 0; i < c.Docs; i++ {
		if err := st.AddWithID(uint32(500+i), []float32{1, float32(i)}, "", nil); err != nil {
			st.Close()
			return append(lines, "op panic add: "+err.Error(), "end")
		}
		st.VerifRotate()
		if err := st.Flush(); err != nil {
			st.Close()
			return append(lines, "op panic flush: "+err.Error(), "end")
		}
	}
	parked := make(chan struct{}, 1)
	release := make(chan struct{})
	closedFlag := make(chan struct{}, 1)
	var once, once2 sync.Once
	comet.VerifSetPointHandler(func(name string) {
		switch name {
		case c.Point:
			first := false
			once.Do(func() { first = true })
			if first {
				parked <- struct{}{}
				<-release
			}
		case "close:closed":
			once2.Do(func() { closedFlag <- struct{}{} })
		}
	})
	defer comet.VerifSetPointHandler(nil)
	st.TriggerCompaction()
	select {
	case <-parked:
	case <-time.After(3 * time.Second):
		close(release)
		st.Close()
		return append(lines, fmt.Sprintf("op closerace %s => nocompaction", c.Point), "end")
	}
	done := make(chan error, 1)
	go func() { done <- st.Close() }()
	// Close sets the closed flag (and, on the unchanged code, releases the store mutex) …
	select {
	case <-closedFlag:
	case <-time.After(2 * time.Second):
	}
	// … then the compaction goes on: it needs the store mutex for the segment swap
	close(release)
	select {
	case err := <-done:
		if err != nil {
			return append(lines, fmt.Sprintf("op closerace %s => %s", c.Point, concErr(err)), "end")
		}
		return append(lines, fmt.Sprintf("op closerace %s => ok", c.Point), "end")
	case <-time.After(10 * time.Second):
		// Close and the worker wait for each other; nothing can unblock them (the goroutines leak)
		closeRaceHung.Store(true)
		return append(lines, fmt.Sprintf("op closerace %s => hang", c.Point), "end")
	}
}

// ---------------------------------------------------------------------------------------------
// fill: many goroutines start adding into an EMPTY index at the same instant

type fillCase struct {
	Kind   string `json:"kind"` // hnswfill | flat | ivf | pq | ivfpq | bm25 | meta | hybrid
	G      int    `json:"g"`
	Per    int    `json:"per"`    // adds per goroutine
	Rounds int    `json:"rounds"` // fresh index every round
}

var fillKinds = []string{"hnswfill", "flat", "ivf", "pq", "ivfpq", "bm25", "meta", "hybrid"}

// execFill speaks the `conc` protocol: one begin … judge … end block per round.
func execFill(c *fillCase) []string {
	var lines []string
	for round := 0; round < c.Rounds; round++ {
		lines = append(lines, fmt.Sprintf("begin conc %s %d", c.Kind, c.G))
		t, err := newConcTarget(c.Kind)
		if err != nil {
			return append(lines, "op panic constructor: "+err.Error(), "end")
		}
		var clk atomic.Int64
		var mu sync.Mutex
		var block []string
		logf := func(format string, a ...any) {
			s := fmt.Sprintf(format, a...)
			mu.Lock()
			block = append(block, s)
			mu.Unlock()
		}
		var ready atomic.Int32
		var wg sync.WaitGroup
		base := concIDBase + uint32(round)*1000
		for g := 0; g < c.G; g++ {
			wg.Add(1)
			go func(g int) {
				defer wg.Done()
				defer func() {
					if r := recover(); r != nil {
						logf("op panic %s", core_trunc(strings.ReplaceAll(fmt.Sprint(r), "\n", " "), 200))
					}
				}()
				// spin barrier: everybody probes the empty index within the same microsecond
				ready.Add(1)
				for ready.Load() < int32(c.G) {
				}
				for j := 0; j < c.Per; j++ {
					id := base + uint32(g*c.Per+j) + 1
					inv := clk.Add(1)
					out := concErr(t.add(id))
					resp := clk.Add(1)
					if t.vecOf != nil {
						logf("op add %d %d %d %d %s => %s", g, id, inv, resp, core.VecHex(t.vecOf(id)), out)
					} else {
						logf("op add %d %d %d %d => %s", g, id, inv, resp, out)
					}
				}
			}(g)
		}
		wg.Wait()
		// quiescence: every acknowledged add must be findable
		inv := clk.Add(1)
		ids, err := t.search(false)
		resp := clk.Add(1)
		if err != nil {
			block = append(block, fmt.Sprintf("op search 999 %d %d => %s", inv, resp, concErr(err)))
		} else {
			block = append(block, fmt.Sprintf("op search 999 %d %d => ok %s", inv, resp, idsCSV(ids)))
		}
		sort.SliceStable(block, func(i, j int) bool { return lineInv(block[i]) < lineInv(block[j]) })
		lines = append(lines, block...)
		lines = append(lines, "op judge => -", "end")
		if t.cleanup != nil {
			t.cleanup()
		}
	}
	return lines
}

// ---------------------------------------------------------------------------------------------
// badcall: calls that fail sequentially, mixed into concurrent use — they must fail AND leave the
// index usable (every later operation returns and answers correctly)

type badOp struct {
	Op string `json:"op"` // add | remove | search | flush | bad
	ID uint32 `json:"id,omitempty"`
	V  int    `json:"v,omitempty"` // bad: variant
}

type badCase struct {
	Kind   string    `json:"kind"`   // flat | hnsw | ivf | pq | ivfpq | bm25 | meta | hybrid
	Metric string    `json:"metric"` // cosine | l2
	Progs  [][]badOp `json:"progs"`
}

var badKinds = []string{"flat", "hnsw", "ivf", "pq", "ivfpq", "bm25", "meta", "hybrid"}

func genBad(r *core.Rand, tier string) *badCase {
	c := &badCase{Kind: badKinds[r.Pick(2, 2, 3, 2, 2, 1, 1, 2)], Metric: "cosine"}
	if r.Chance(0.25) {
		c.Metric = "l2"
	}
	g := r.Range(2, 6)
	next := concIDBase + uint32(r.Intn(1000))*64
	c.Progs = make([][]badOp, g)
	for gi := range c.Progs {
		var mine []uint32
		for i := r.Range(4, 12); i > 0; i-- {
			switch r.Pick(4, 2, 3, 1, 5) {
			case 0:
				next++
				mine = append(mine, next)
				c.Progs[gi] = append(c.Progs[gi], badOp{Op: "add", ID: next})
			case 1:
				if len(mine) > 0 {
					k := r.Intn(len(mine))
					c.Progs[gi] = append(c.Progs[gi], badOp{Op: "remove", ID: mine[k]})
					mine = append(mine[:k], mine[k+1:]...)
				}
			case 2:
				c.Progs[gi] = append(c.Progs[gi], badOp{Op: "search"})
			case 3:
				c.Progs[gi] = append(c.Progs[gi], badOp{Op: "flush"})
			case 4:
				c.Progs[gi] = append(c.Progs[gi], badOp{Op: "bad", V: r.Intn(1000)})
			}
		}
		// every goroutine ends with a write, so that a lock leaked by a failing call is noticed
		next++
		c.Progs[gi] = append(c.Progs[gi], badOp{Op: "add", ID: next}, badOp{Op: "flush"})
	}
	return c
}

// badTarget: the valid operations plus the failing variants of one instance.
type badTarget struct {
	add    func(id uint32) error
	remove func(id uint32) error
	search func() ([]uint32, error)
	flush  func() error
	bad    []func() (string, error) // each must return a non-nil error
}

func newBadTarget(kind, metric string) (*badTarget, error) {
	dk := comet.DistanceKind(metric)
	zero := []float32{0, 0, 0, 0}
	short := []float32{1, 2, 3}
	q := []float32{1, 2, 3, 4}
	vecBad := func(idx comet.VectorIndex, untrained comet.VectorIndex) []func() (string, error) {
		bad := []func() (string, error){
			func() (string, error) {
				return "add-wrong-dimension", idx.Add(*comet.NewVectorNodeWithID(77, append([]float32(nil), short...)))
			},
			func() (string, error) {
				_, err := idx.NewSearch().WithK(bigK).WithQuery(append([]float32(nil), short...)).Execute()
				return "search-wrong-dimension", err
			},
			func() (string, error) {
				_, err := idx.NewSearch().WithK(bigK).WithNode(4242424).Execute()
				return "search-unknown-node", err
			},
			func() (string, error) {
				_, err := idx.NewSearch().WithK(bigK).Execute()
				return "search-without-query", err
			},
		}
		if metric == "cosine" {
			bad = append(bad,
				func() (string, error) {
					return "add-zero-vector-cosine", idx.Add(*comet.NewVectorNodeWithID(78, append([]float32(nil), zero...)))
				},
				func() (string, error) {
					_, err := idx.NewSearch().WithK(bigK).WithNProbes(3).WithQuery(append([]float32(nil), zero...)).Execute()
					return "search-zero-query-cosine", err
				},
				func() (string, error) {
					_, err := idx.NewSearch().WithK(bigK).WithNProbes(3).WithQuery(q, append([]float32(nil), zero...)).Execute()
					return "search-second-query-zero-cosine", err
				})
		}
		if untrained != nil {
			bad = append(bad,
				func() (string, error) {
					_, err := untrained.NewSearch().WithK(bigK).WithQuery(q).Execute()
					return "search-untrained", err
				},
				func() (string, error) {
					return "add-untrained", untrained.Add(*comet.NewVectorNodeWithID(79, concVec(79)))
				})
		}
		return bad
	}
	vec := func(idx comet.VectorIndex, untrained comet.VectorIndex, nprobe int) *badTarget {
		return &badTarget{
			add:    func(id uint32) error { return idx.Add(*comet.NewVectorNodeWithID(id, concVec(id))) },
			remove: func(id uint32) error { return idx.Remove(*comet.NewVectorNodeWithID(id, nil)) },
			search: func() ([]uint32, error) {
				res, err := idx.NewSearch().WithK(bigK).WithNProbes(nprobe).WithEfSearch(4096).WithQuery(q).Execute()
				return vecIDs(res), err
			},
			flush: idx.Flush,
			bad:   vecBad(idx, untrained),
		}
	}
	switch kind {
	case "flat":
		idx, err := comet.NewFlatIndex(4, dk)
		if err != nil {
			return nil, err
		}
		return vec(idx, nil, 1), nil
	case "hnsw":
		idx, err := comet.NewHNSWIndex(4, dk, 4, 32, 4096)
		if err != nil {
			return nil, err
		}
		return vec(idx, nil, 1), nil
	case "ivf":
		idx, err := comet.NewIVFIndex(4, 3, dk)
		if err != nil {
			return nil, err
		}
		if err := idx.Train(trainVecs(40)); err != nil {
			return nil, err
		}
		un, _ := comet.NewIVFIndex(4, 3, dk)
		return vec(idx, un, 3), nil
	case "pq":
		idx, err := comet.NewPQIndex(4, dk, 2, 4)
		if err != nil {
			return nil, err
		}
		if err := idx.Train(trainVecs(40)); err != nil {
			return nil, err
		}
		un, _ := comet.NewPQIndex(4, dk, 2, 4)
		return vec(idx, un, 1), nil
	case "ivfpq":
		idx, err := comet.NewIVFPQIndex(4, dk, 3, 2, 4)
		if err != nil {
			return nil, err
		}
		if err := idx.Train(trainVecs(40)); err != nil {
			return nil, err
		}
		un, _ := comet.NewIVFPQIndex(4, dk, 3, 2, 4)
		return vec(idx, un, 3), nil
	case "bm25":
		idx := comet.NewBM25SearchIndex()
		return &badTarget{
			add:    func(id uint32) error { return idx.Add(id, concText(id)) },
			remove: idx.Remove,
			search: func() ([]uint32, error) {
				res, err := idx.NewSearch().WithK(bigK).WithQuery("common").Execute()
				out := make([]uint32, len(res))
				for i, h := range res {
					out[i] = h.GetId()
				}
				return out, err
			},
			flush: idx.Flush,
			bad: []func() (string, error){
				func() (string, error) {
					_, err := idx.NewSearch().WithK(bigK).Execute()
					return "text-search-without-query", err
				},
				func() (string, error) {
					_, err := idx.NewSearch().WithK(bigK).WithNode(4242424).Execute()
					return "text-search-unknown-node", err
				},
			},
		}, nil
	case "meta":
		idx := comet.NewRoaringMetadataIndex()
		return &badTarget{
			add:    func(id uint32) error { return idx.Add(*comet.NewMetadataNodeWithID(id, concMeta(id))) },
			remove: func(id uint32) error { return idx.Remove(*comet.NewMetadataNodeWithID(id, nil)) },
			search: func() ([]uint32, error) {
				res, err := idx.NewSearch().Execute()
				out := make([]uint32, len(res))
				for i, h := range res {
					out[i] = h.GetId()
				}
				return out, err
			},
			flush: idx.Flush,
			bad: []func() (string, error){
				func() (string, error) {
					// (the numeric field "n" exists: the seed document added before the race has it)
					_, err := idx.NewSearch().WithFilters(comet.Gt("n", "abc")).Execute()
					return "filter-wrong-operand-type", err
				},
				func() (string, error) {
					return "add-unsupported-value-type", idx.Add(*comet.NewMetadataNodeWithID(concIDBase-8, map[string]interface{}{"x": []int{1}}))
				},
			},
		}, nil
	case "hybrid":
		v, err := comet.NewFlatIndex(4, dk)
		if err != nil {
			return nil, err
		}
		idx := comet.NewHybridSearchIndex(v, comet.NewBM25SearchIndex(), comet.NewRoaringMetadataIndex())
		bad := []func() (string, error){
			func() (string, error) {
				return "hybrid-add-wrong-dimension", idx.AddWithID(concIDBase-7, append([]float32(nil), short...), "common x", nil)
			},
			func() (string, error) {
				_, err := idx.NewSearch().WithK(bigK).WithVector(append([]float32(nil), short...)).Execute()
				return "hybrid-search-wrong-dimension", err
			},
			func() (string, error) {
				return "hybrid-add-unsupported-metadata", idx.AddWithID(concIDBase-6, concVec(5), "common y", map[string]interface{}{"x": []int{1}})
			},
		}
		if metric == "cosine" {
			bad = append(bad, func() (string, error) {
				_, err := idx.NewSearch().WithK(bigK).WithVector(append([]float32(nil), zero...)).Execute()
				return "hybrid-search-zero-query-cosine", err
			}, func() (string, error) {
				return "hybrid-add-zero-vector-cosine", idx.AddWithID(concIDBase-5, append([]float32(nil), zero...), "", nil)
			})
		}
		return &badTarget{
			add:    func(id uint32) error { return idx.AddWithID(id, concVec(id), concText(id), concMeta(id)) },
			remove: idx.Remove,
			search: func() ([]uint32, error) {
				res, err := idx.NewSearch().WithK(bigK).WithVector(q).Execute()
				return hybIDs(res), err
			},
			flush: idx.Flush,
			bad:   bad,
		}, nil
	}
	return nil, fmt.Errorf("unknown kind %s", kind)
}

func execBad(c *badCase) []string {
	lines := []string{fmt.Sprintf("begin conc %s %d", c.Kind, len(c.Progs))}
	t, err := newBadTarget(c.Kind, c.Metric)
	if err != nil {
		return append(lines, "op panic constructor: "+err.Error(), "end")
	}
	var clk atomic.Int64
	var mu sync.Mutex
	var lastDone atomic.Int64
	lastDone.Store(time.Now().UnixNano())
	logf := func(format string, a ...any) {
		s := fmt.Sprintf(format, a...)
		mu.Lock()
		lines = append(lines, s)
		mu.Unlock()
		lastDone.Store(time.Now().UnixNano())
	}
	guard := func(f func() string) (out string) {
		defer func() {
			if r := recover(); r != nil {
				out = "panic"
				logf("op panic %s", core_trunc(strings.ReplaceAll(fmt.Sprint(r), "\n", " "), 200))
			}
		}()
		return f()
	}
	var inflight sync.Map // goroutine → what it is doing (for the hang report)
	runOp := func(g int, op badOp) {
		switch op.Op {
		case "add":
			inflight.Store(g, fmt.Sprintf("add(%d)", op.ID))
			inv := clk.Add(1)
			out := guard(func() string { return concErr(t.add(op.ID)) })
			logf("op add %d %d %d %d => %s", g, op.ID, inv, clk.Add(1), out)
		case "remove":
			inflight.Store(g, fmt.Sprintf("remove(%d)", op.ID))
			inv := clk.Add(1)
			out := guard(func() string { return concErr(t.remove(op.ID)) })
			logf("op remove %d %d %d %d => %s", g, op.ID, inv, clk.Add(1), out)
		case "search":
			inflight.Store(g, "search")
			inv := clk.Add(1)
			var ids []uint32
			out := guard(func() string {
				r, err := t.search()
				ids = r
				return concErr(err)
			})
			resp := clk.Add(1)
			if out == "ok" {
				logf("op search %d %d %d => ok %s", g, inv, resp, idsCSV(ids))
			} else {
				logf("op search %d %d %d => %s", g, inv, resp, out)
			}
		case "flush":
			inflight.Store(g, "flush")
			inv := clk.Add(1)
			out := guard(func() string { return concErr(t.flush()) })
			logf("op flush %d %d %d => %s", g, inv, clk.Add(1), out)
		case "bad":
			f := t.bad[op.V%len(t.bad)]
			inflight.Store(g, "a failing call")
			inv := clk.Add(1)
			what := "?"
			out := guard(func() string {
				w, err := f()
				what = w
				if err == nil {
					return "ok"
				}
				return "err"
			})
			logf("op bad %d %d %d %s => %s", g, inv, clk.Add(1), what, out)
		}
		inflight.Store(g, "idle")
	}
	runOp(0, badOp{Op: "add", ID: concIDBase - 9}) // seed document, never removed
	var wg sync.WaitGroup
	start := make(chan struct{})
	for g := range c.Progs {
		wg.Add(1)
		go func(g int) {
			defer wg.Done()
			<-start
			for _, op := range c.Progs[g] {
				runOp(g, op)
			}
		}(g)
	}
	close(start)
	done := make(chan struct{})
	go func() { wg.Wait(); close(done) }()
	began := time.Now()
wait:
	for {
		select {
		case <-done:
			break wait
		case <-time.After(100 * time.Millisecond):
		}
		// in-memory indexes of a few dozen documents: every operation takes microseconds
		if time.Since(time.Unix(0, lastDone.Load())) > 6*time.Second {
			var stuck []string
			inflight.Range(func(k, v any) bool {
				if v.(string) != "idle" {
					stuck = append(stuck, fmt.Sprintf("g%d:%s", k.(int), v.(string)))
				}
				return true
			})
			sort.Strings(stuck)
			mu.Lock()
			out := append(append([]string(nil), lines...),
				"op panic HANG: no operation completed for 6s — blocked for ever: "+strings.Join(stuck, " ")+
					" (a failing call left the index locked?)", "op judge => -", "end")
			mu.Unlock()
			return out
		}
		if time.Since(began) > 45*time.Second {
			mu.Lock()
			out := append(append([]string(nil), lines...), "# slow: abandoned unjudged after 45s", "end")
			mu.Unlock()
			return out
		}
	}
	inv := clk.Add(1)
	ids, serr := t.search()
	resp := clk.Add(1)
	if serr != nil {
		lines = append(lines, fmt.Sprintf("op search 999 %d %d => %s", inv, resp, concErr(serr)))
	} else {
		lines = append(lines, fmt.Sprintf("op search 999 %d %d => ok %s", inv, resp, idsCSV(ids)))
	}
	sort.SliceStable(lines[1:], func(i, j int) bool { return badLineInv(lines[1+i]) < badLineInv(lines[1+j]) })
	return append(lines, "op judge => -", "end")
}

func badLineInv(l string) int64 {
	f := strings.Fields(l)
	if len(f) >= 4 && f[1] == "bad" {
		var n int64
		fmt.Sscan(f[3], &n)
		return n
	}
	return lineInv(l)
}

func init() {
	register(&core.Typed[maggCase]{
		StreamName: "magg", Prop: "C11",
		RuleText: "read-only phase: 2..16 goroutines run multi-query searches (1..4 queries; aggregation sum / max / mean, a case usually concentrating on one kind) concurrently on one shared index or on separate unrelated instances of flat/hnsw/ivf/pq/ivfpq/bm25/hybrid; each search is first answered sequentially and every concurrent answer must equal it (ids and score bits, canonical order); non-trivial when some search has at least two queries and a non-empty answer; distinct = distinct request streams",
		NCases: func(tier string) int {
			if tier == "thorough" {
				return 1500
			}
			return 150
		},
		GenF:  genMagg,
		ExecF: execMagg,
		LenF: func(c *maggCase) int {
			n := 0
			for _, s := range c.Searches {
				n += len(s)
			}
			return n
		},
		DropF: func(c *maggCase, lo, hi int) *maggCase {
			n := &maggCase{Kind: c.Kind, Shared: c.Shared, N: c.N, Reps: c.Reps, Searches: make([][]maggSearch, len(c.Searches))}
			k := 0
			for g, ss := range c.Searches {
				for _, s := range ss {
					if k < lo || k >= hi {
						n.Searches[g] = append(n.Searches[g], s)
					}
					k++
				}
			}
			return n
		},
		NonTrivialF: func(lines, replies []string) bool {
			for i, l := range lines {
				if strings.HasPrefix(l, "op judge") && i < len(replies) {
					m := kv(replies[i])
					return m["multi"] == 1 && m["nonempty"] == 1 && m["pars"] > 0
				}
			}
			return false
		},
	})
	register(&core.Typed[closeRaceCase]{
		StreamName: "closerace", Prop: "C11",
		RuleText: "Close() against a compaction in flight on a real store with 2..4 segments: the compaction worker is parked at a yield point outside the store mutex (compact:load / compact:write / compact:swap), Close is started, the worker is released once Close has set the closed flag; everybody must return (Close waits on a WaitGroup, which the lock-order theorem does not model); non-trivial when the compaction was really in flight",
		NCases: func(tier string) int {
			if tier == "thorough" {
				return 80
			}
			return 20
		},
		GenF: func(r *core.Rand, tier string) *closeRaceCase {
			return &closeRaceCase{Point: closeRacePoints[r.Intn(len(closeRacePoints))], Docs: r.Range(2, 4)}
		},
		ExecF: execCloseRace,
		LenF:  func(c *closeRaceCase) int { return 0 },
		DropF: func(c *closeRaceCase, lo, hi int) *closeRaceCase { return c },
		NonTrivialF: func(lines, replies []string) bool {
			for _, r := range replies {
				if strings.Contains(r, "raced=1") {
					return true
				}
			}
			return false
		},
	})
	register(&core.Typed[fillCase]{
		StreamName: "fill", Prop: "C11",
		RuleText: "EMPTY start: 4..16 goroutines, released by a spin barrier, add 1..2 documents each into a fresh empty index (hnsw with M = 16 and at most 33 vertices, flat, ivf, pq, ivfpq, bm25, metadata, hybrid), 10..30 fresh indexes per case; at quiescence every acknowledged add must be returned by a search for everything (conc protocol, checkVisibility); non-trivial when at least two adds overlapped in time",
		NCases: func(tier string) int {
			if tier == "thorough" {
				return 400
			}
			return 32
		},
		GenF: func(r *core.Rand, tier string) *fillCase {
			c := &fillCase{Kind: fillKinds[r.Pick(8, 2, 2, 1, 1, 2, 1, 3)], G: r.Range(4, 16), Per: r.Range(1, 2), Rounds: r.Range(8, 20)}
			if c.Kind == "hnswfill" && c.G*c.Per > 32 {
				c.Per = 1
			}
			return c
		},
		ExecF: execFill,
		LenF:  func(c *fillCase) int { return c.Rounds },
		DropF: func(c *fillCase, lo, hi int) *fillCase {
			n := *c
			n.Rounds = c.Rounds - (hi - lo)
			if n.Rounds < 1 {
				n.Rounds = 1
			}
			return &n
		},
		NonTrivialF: func(lines, replies []string) bool {
			for _, r := range replies {
				if strings.Contains(r, "overlap_ww=1") {
					return true
				}
			}
			return false
		},
	})
	register(&core.Typed[badCase]{
		StreamName: "badcall", Prop: "C11",
		RuleText: "2..6 goroutines mix valid Add / Remove / search / Flush with calls that fail sequentially (zero vector under cosine as vector or as first / second query, wrong dimension, search without query, unknown node id, untrained IVF / PQ / IVFPQ, metadata filter with a wrong operand type, unsupported metadata value, hybrid variants) on flat/hnsw/ivf/pq/ivfpq (cosine or l2), bm25, metadata, hybrid; every failing call must fail, every later operation must return (6 s without progress = HANG with the blocked operations) and the history is judged by the conc rules; non-trivial when a failing call was followed by a write of another goroutine",
		NCases: func(tier string) int {
			if tier == "thorough" {
				return 1200
			}
			return 150
		},
		GenF:  genBad,
		ExecF: execBad,
		LenF: func(c *badCase) int {
			n := 0
			for _, p := range c.Progs {
				n += len(p)
			}
			return n
		},
		DropF: func(c *badCase, lo, hi int) *badCase {
			n := &badCase{Kind: c.Kind, Metric: c.Metric, Progs: make([][]badOp, len(c.Progs))}
			k := 0
			for g, p := range c.Progs {
				for _, op := range p {
					if k < lo || k >= hi {
						n.Progs[g] = append(n.Progs[g], op)
					}
					k++
				}
			}
			return n
		},
		NonTrivialF: func(lines, replies []string) bool {
			bad := false
			for _, l := range lines {
				if strings.HasPrefix(l, "op bad") && strings.HasSuffix(l, "=> err") {
					bad = true
				} else if bad && (strings.HasPrefix(l, "op add") || strings.HasPrefix(l, "op flush")) {
					return true
				}
			}
			return false
		},
	})
	register(&core.Typed[imageCase]{
		StreamName: "image", Prop: "C11",
		RuleText: "2..13 goroutines hammer a hybrid index (flat + BM25 + metadata) with AddWithID / Remove of text-only, metadata-only, vector-only and mixed-modality documents while 1..3 goroutines call WriteTo in a loop; every image is reloaded into fresh templates (ReadFrom) and probed: document table flags, vector / text / metadata images and the modalities the document was added with must agree for every id, and the document set is judged like a search by checkVisibility; non-trivial when an image is non-empty and a write overlapped an image in time",
		NCases: func(tier string) int {
			if tier == "thorough" {
				return 1200
			}
			return 120
		},
		GenF:  genImage,
		ExecF: execImage,
		LenF: func(c *imageCase) int {
			n := 0
			for _, p := range c.Progs {
				n += len(p)
			}
			return n
		},
		DropF: func(c *imageCase, lo, hi int) *imageCase {
			n := &imageCase{Pre: c.Pre, Writers: c.Writers, Loops: c.Loops, Hot: c.Hot, Progs: make([][]imageOp, len(c.Progs))}
			k := 0
			for g, p := range c.Progs {
				for _, op := range p {
					if k < lo || k >= hi {
						n.Progs[g] = append(n.Progs[g], op)
					}
					k++
				}
			}
			return n
		},
		NonTrivialF: func(lines, replies []string) bool {
			for i, l := range lines {
				if strings.HasPrefix(l, "op judge") && i < len(replies) {
					m := kv(replies[i])
					return m["overlap"] == 1 && m["nonempty"] == 1
				}
			}
			return false
		},
	})
}
