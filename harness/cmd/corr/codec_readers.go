package main

// Readers that deliver a byte stream in pieces. io.Reader.Read may legally return fewer
// bytes than asked for; a ReadFrom that fetches a field with a single r.Read instead of
// io.ReadFull / binary.Read works with bytes.Reader (every Read fills the buffer) and
// fails behind a pipe, a network connection or — what the store really uses — a
// gzip.Reader over a flate stream of several blocks. The codec stream reloads, and the
// trunc stream reads its prefixes, through these readers.

import (
	"bytes"
	"compress/gzip"
	"io"
	"sort"
	"testing/iotest"

	"verifharness/internal/core"
)

var cdcReaderModes = []string{"plain", "onebyte", "chunks1to7", "half", "fields", "fieldsplus1", "gzipblocks", "multi", "dataerr"}

// cdcFuncReader calls next(pos, want) to learn how many bytes the next Read may deliver.
type cdcFuncReader struct {
	data []byte
	pos  int
	next func(pos, want int) int
}

func (r *cdcFuncReader) Read(p []byte) (int, error) {
	if r.pos >= len(r.data) {
		return 0, io.EOF
	}
	if len(p) == 0 {
		return 0, nil
	}
	n := r.next(r.pos, len(p))
	if n < 1 {
		n = 1
	}
	if n > len(p) {
		n = len(p)
	}
	if n > len(r.data)-r.pos {
		n = len(r.data) - r.pos
	}
	copy(p, r.data[r.pos:r.pos+n])
	r.pos += n
	return n, nil
}

// cdcCountReader counts the bytes handed to the caller (= what ReadFrom consumed).
type cdcCountReader struct {
	r io.Reader
	n int
}

func (c *cdcCountReader) Read(p []byte) (int, error) {
	n, err := c.r.Read(p)
	c.n += n
	return n, err
}

// cdcWrapReader builds a reader of the given mode over data. bounds are the field
// boundaries (end offsets of the writes that produced data), pieces the lengths of the
// parts a MultiReader should be made of (nil: random parts).
func cdcWrapReader(mode int, seed uint64, data []byte, bounds []int, pieces []int) *cdcCountReader {
	r := core.NewRand(seed, "reader")
	var rd io.Reader
	switch cdcReaderModes[((mode%len(cdcReaderModes))+len(cdcReaderModes))%len(cdcReaderModes)] {
	case "onebyte":
		rd = iotest.OneByteReader(bytes.NewReader(data))
	case "chunks1to7":
		rd = &cdcFuncReader{data: data, next: func(pos, want int) int { return r.Range(1, 7) }}
	case "half":
		rd = iotest.HalfReader(bytes.NewReader(data))
	case "fields", "fieldsplus1":
		shift := 0
		if cdcReaderModes[mode%len(cdcReaderModes)] == "fieldsplus1" {
			shift = 1
		}
		bs := append([]int(nil), bounds...)
		sort.Ints(bs)
		rd = &cdcFuncReader{data: data, next: func(pos, want int) int {
			// the first boundary (shifted) behind pos
			i := sort.SearchInts(bs, pos-shift+1)
			if i < len(bs) {
				return bs[i] + shift - pos
			}
			return want
		}}
	case "gzipblocks":
		// a gzip stream of many flate blocks (Flush ends a block), read back through gzip.Reader
		var buf bytes.Buffer
		zw, _ := gzip.NewWriterLevel(&buf, []int{gzip.NoCompression, gzip.BestSpeed, gzip.DefaultCompression, gzip.BestCompression}[r.Intn(4)])
		for pos := 0; pos < len(data); {
			n := r.Range(1, 1+r.Intn(300))
			if n > len(data)-pos {
				n = len(data) - pos
			}
			zw.Write(data[pos : pos+n])
			zw.Flush()
			pos += n
		}
		zw.Close()
		zr, err := gzip.NewReader(&buf)
		if err != nil {
			rd = bytes.NewReader(data)
		} else {
			rd = zr
		}
	case "multi":
		var parts []io.Reader
		pos := 0
		if len(pieces) == 0 {
			for k := r.Range(1, 4); k > 0 && len(data) > 0; k-- {
				pieces = append(pieces, r.Range(0, len(data)))
			}
		}
		for _, n := range pieces {
			if n > len(data)-pos {
				n = len(data) - pos
			}
			if n < 0 {
				n = 0
			}
			parts = append(parts, bytes.NewReader(data[pos:pos+n]))
			pos += n
		}
		parts = append(parts, bytes.NewReader(data[pos:]))
		rd = io.MultiReader(parts...)
	case "dataerr":
		rd = iotest.DataErrReader(bytes.NewReader(data))
	default:
		rd = bytes.NewReader(data)
	}
	return &cdcCountReader{r: rd}
}
