package main

// Shared by the streams "codec" (C07) and "trunc" (C16): construction of a real
// index of any of the eight kinds from a case description, replay of a history
// through the public API, WriteTo / ReadFrom wrappers, and the canonical rendering
// of an index's content through the verif accessors (the Lean driver renders the
// decoded stream the same way: lean/Comet/Driver/Codec.lean).

import (
	"encoding/hex"
	"fmt"
	"io"
	"math"
	"sort"
	"strings"

	comet "github.com/wizenheimer/comet"
	"verifharness/internal/core"
)

var cdcCodecKinds = []string{"flat", "hnsw", "ivf", "pq", "ivfpq", "bm25", "meta", "hybrid"}
var cdcVecKinds = []string{"flat", "hnsw", "ivf", "pq", "ivfpq"}

// cdcCparams are the construction parameters of one index (for hybrid: of its vector
// sub-index, plus which sub-indexes exist).
type cdcCparams struct {
	Kind   string `json:"kind"`
	Dim    int    `json:"dim,omitempty"`
	Metric string `json:"metric,omitempty"`
	M      int    `json:"m,omitempty"`   // hnsw M / pq M
	EfC    int    `json:"efc,omitempty"` // hnsw
	EfS    int    `json:"efs,omitempty"`
	Nlist  int    `json:"nlist,omitempty"`
	Nbits  int    `json:"nbits,omitempty"`
	VKind  string `json:"vkind,omitempty"` // hybrid: kind of the vector sub-index or "none"
	Txt    bool   `json:"txt,omitempty"`
	Md     bool   `json:"md,omitempty"`
}

// cdcMval is one metadata value with an explicit type (JSON would turn ints into floats).
type cdcMval struct {
	Key string  `json:"k"`
	T   string  `json:"t"` // s | i | f | b
	S   string  `json:"s,omitempty"`
	I   int64   `json:"i,omitempty"`
	F   float64 `json:"f,omitempty"`
	B   bool    `json:"b,omitempty"`
}

type cdcCcmd struct {
	Op    string    `json:"op"` // train | add | remove | flush
	ID    uint32    `json:"id,omitempty"`
	Vec   []uint32  `json:"vec,omitempty"`
	Text  string    `json:"text,omitempty"`
	Meta  []cdcMval `json:"meta,omitempty"`
	Seed  uint64    `json:"seed,omitempty"`  // train: seed of the training set
	N     int       `json:"n,omitempty"`     // train: size of the training set
	Level int       `json:"level,omitempty"` // hnsw add: level of the new vertex
}

type cdcCquery struct {
	Vec  []uint32 `json:"vec,omitempty"`
	Node uint32   `json:"node,omitempty"` // node-id query (vector kinds that keep vectors)
	Text string   `json:"text,omitempty"`
	Filt *cdcMval `json:"filt,omitempty"` // Eq filter
	K    int      `json:"k"`
}

// cdcAnyIndex wraps one real index of any kind.
type cdcAnyIndex struct {
	p    cdcCparams
	vec  comet.VectorIndex
	bm   *comet.BM25SearchIndex
	md   *comet.RoaringMetadataIndex
	hyb  comet.HybridSearchIndex
	sub  *cdcAnyIndex // hybrid: wrapper of the vector sub-index
	lvls []int        // hnsw: queue of levels for the next adds
	// field boundaries and (hybrid) part lengths of the stream the last writeTo produced
	bounds []int
	pieces []int
}

func cdcNewVecIndex(p cdcCparams) (comet.VectorIndex, error) {
	mk := comet.DistanceKind(p.Metric)
	switch p.Kind {
	case "flat":
		return comet.NewFlatIndex(p.Dim, mk)
	case "hnsw":
		return comet.NewHNSWIndex(p.Dim, mk, p.M, p.EfC, p.EfS)
	case "ivf":
		return comet.NewIVFIndex(p.Dim, p.Nlist, mk)
	case "pq":
		return comet.NewPQIndex(p.Dim, mk, p.M, p.Nbits)
	case "ivfpq":
		return comet.NewIVFPQIndex(p.Dim, mk, p.Nlist, p.M, p.Nbits)
	}
	return nil, fmt.Errorf("no vector kind %q", p.Kind)
}

func cdcNewAnyIndex(p cdcCparams) (*cdcAnyIndex, error) {
	a := &cdcAnyIndex{p: p}
	switch p.Kind {
	case "bm25":
		a.bm = comet.NewBM25SearchIndex()
	case "meta":
		a.md = comet.NewRoaringMetadataIndex()
	case "hybrid":
		var v comet.VectorIndex
		var t comet.TextIndex
		var m comet.MetadataIndex
		if p.VKind != "" && p.VKind != "none" {
			sp := p
			sp.Kind = p.VKind
			s, err := cdcNewAnyIndex(sp)
			if err != nil {
				return nil, err
			}
			a.sub = s
			v = s.vec
		}
		if p.Txt {
			a.bm = comet.NewBM25SearchIndex()
			t = a.bm
		}
		if p.Md {
			a.md = comet.NewRoaringMetadataIndex()
			m = a.md
		}
		a.hyb = comet.NewHybridSearchIndex(v, t, m)
	default:
		v, err := cdcNewVecIndex(p)
		if err != nil {
			return nil, err
		}
		a.vec = v
		if h, ok := v.(*comet.HNSWIndex); ok {
			// deterministic levels so that source and reloaded index grow alike
			comet.VerifSetHNSWLevelSource(h, func() (int, bool) {
				if len(a.lvls) == 0 {
					return 0, true
				}
				l := a.lvls[0]
				a.lvls = a.lvls[1:]
				return l, true
			})
		}
	}
	return a, nil
}

func (a *cdcAnyIndex) close() {
	if h, ok := a.vec.(*comet.HNSWIndex); ok {
		comet.VerifSetHNSWLevelSource(h, nil)
	}
	if a.sub != nil {
		a.sub.close()
	}
}

func cdcTrainSet(seed uint64, n, dim int) [][]float32 {
	r := core.NewRand(seed, "train")
	out := make([][]float32, n)
	for i := range out {
		v := make([]float32, dim)
		for j := range v {
			v[j] = float32(r.Range(-8, 8)) + float32(r.Intn(4))/4
		}
		if cdcAllZero(v) {
			v[0] = 1
		}
		out[i] = v
	}
	return out
}

func cdcAllZero(v []float32) bool {
	for _, x := range v {
		if x != 0 {
			return false
		}
	}
	return true
}

func cdcMetaMap(ms []cdcMval) map[string]interface{} {
	if len(ms) == 0 {
		return nil
	}
	m := map[string]interface{}{}
	for _, v := range ms {
		switch v.T {
		case "s":
			m[v.Key] = v.S
		case "i":
			m[v.Key] = int(v.I)
		case "f":
			m[v.Key] = v.F
		case "b":
			m[v.Key] = v.B
		}
	}
	return m
}

func cdcErrClass(err error) string {
	if err == nil {
		return "ok"
	}
	return "err"
}

// apply runs one history command and returns a short outcome token.
func (a *cdcAnyIndex) apply(c cdcCcmd) string {
	switch a.p.Kind {
	case "bm25":
		switch c.Op {
		case "add":
			return cdcErrClass(a.bm.Add(c.ID, c.Text))
		case "remove":
			return cdcErrClass(a.bm.Remove(c.ID))
		case "flush":
			return cdcErrClass(a.bm.Flush())
		}
		return "skip"
	case "meta":
		switch c.Op {
		case "add":
			return cdcErrClass(a.md.Add(*comet.NewMetadataNodeWithID(c.ID, cdcMetaMap(c.Meta))))
		case "remove":
			return cdcErrClass(a.md.Remove(*comet.NewMetadataNodeWithID(c.ID, nil)))
		case "flush":
			return cdcErrClass(a.md.Flush())
		}
		return "skip"
	case "hybrid":
		switch c.Op {
		case "train":
			if a.sub == nil {
				return "skip"
			}
			return cdcErrClass(a.hyb.Train(cdcTrainSet(c.Seed, c.N, a.p.Dim)))
		case "add":
			var v []float32
			if a.sub != nil && len(c.Vec) > 0 {
				v = core.FromBits(c.Vec)
				if a.sub.p.Kind == "hnsw" {
					a.sub.lvls = append(a.sub.lvls, c.Level)
				}
			}
			err := a.hyb.AddWithID(c.ID, v, c.Text, cdcMetaMap(c.Meta))
			if a.sub != nil {
				a.sub.lvls = nil
			}
			return cdcErrClass(err)
		case "remove":
			return cdcErrClass(a.hyb.Remove(c.ID))
		case "flush":
			return cdcErrClass(a.hyb.Flush())
		}
		return "skip"
	}
	switch c.Op {
	case "train":
		ts := cdcTrainSet(c.Seed, c.N, a.p.Dim)
		nodes := make([]comet.VectorNode, len(ts))
		for i, v := range ts {
			nodes[i] = *comet.NewVectorNodeWithID(uint32(1000000+i), v)
		}
		return cdcErrClass(a.vec.Train(nodes))
	case "add":
		if a.p.Kind == "hnsw" {
			a.lvls = append(a.lvls, c.Level)
		}
		err := a.vec.Add(*comet.NewVectorNodeWithID(c.ID, core.FromBits(c.Vec)))
		a.lvls = nil
		return cdcErrClass(err)
	case "remove":
		return cdcErrClass(a.vec.Remove(*comet.NewVectorNodeWithID(c.ID, nil)))
	case "flush":
		return cdcErrClass(a.vec.Flush())
	}
	return "skip"
}

// writeTo returns the stream(s) and the reported count (-1 for hybrid, which reports none).
// For hybrid the four streams are returned separately; stream is their concatenation.
func (a *cdcAnyIndex) writeTo() (stream []byte, four [][]byte, count int64, err error) {
	// through boundary-recording writers: a.bounds are the end offsets of all writes (field
	// boundaries) of the last stream, a.pieces the lengths of the hybrid's four streams
	var w cdcBoundaryWriter
	a.bounds, a.pieces = nil, nil
	switch a.p.Kind {
	case "bm25":
		count, err = a.bm.WriteTo(&w)
	case "meta":
		count, err = a.md.WriteTo(&w)
	case "hybrid":
		var ws [4]cdcBoundaryWriter
		err = a.hyb.WriteTo(&ws[0], &ws[1], &ws[2], &ws[3])
		off := 0
		for i := range ws {
			b := append([]byte(nil), ws[i].buf.Bytes()...)
			four = append(four, b)
			stream = append(stream, b...)
			for _, e := range ws[i].ends {
				a.bounds = append(a.bounds, off+e)
			}
			off += len(b)
			a.pieces = append(a.pieces, len(b))
		}
		return stream, four, -1, err
	default:
		count, err = a.vec.WriteTo(&w)
	}
	a.bounds = w.ends
	return w.buf.Bytes(), four, count, err
}

func (a *cdcAnyIndex) readFrom(r io.Reader) (int64, error) {
	switch a.p.Kind {
	case "bm25":
		return a.bm.ReadFrom(r)
	case "meta":
		return a.md.ReadFrom(r)
	case "hybrid":
		return a.hyb.ReadFrom(r)
	}
	return a.vec.ReadFrom(r)
}

// cdcReadOutcome feeds b to a fresh index of parameters p under recover and reports
// 'e' (error), 'o' (success) or 'p' (panic), with the index that was used.
func cdcReadOutcome(p cdcCparams, b []byte) (out byte, idx *cdcAnyIndex, msg string) {
	return cdcReadOutcomeVia(p, b, 0, 0, nil, nil)
}

// cdcReadOutcomeVia does the same through a reader of the given mode (codec_readers.go).
func cdcReadOutcomeVia(p cdcCparams, b []byte, mode int, seed uint64, bounds, pieces []int) (out byte, idx *cdcAnyIndex, msg string) {
	idx, err := cdcNewAnyIndex(p)
	if err != nil {
		return 'p', nil, "constructor: " + err.Error()
	}
	defer idx.close()
	defer func() {
		if r := recover(); r != nil {
			out, msg = 'p', fmt.Sprint(r)
		}
	}()
	if _, err := idx.readFrom(cdcWrapReader(mode, seed, b, bounds, pieces)); err != nil {
		return 'e', idx, err.Error()
	}
	return 'o', idx, ""
}

/* ---------- parameters as protocol tokens ---------- */

func cdcHexB(b []byte) string {
	if len(b) == 0 {
		return "-"
	}
	return hex.EncodeToString(b)
}

func cdcVecParamTokens(pre string, v comet.VectorIndex) []string {
	t := []string{fmt.Sprintf("%sdim=%d", pre, v.Dimensions()), fmt.Sprintf("%smetric=%s", pre, cdcHexB([]byte(v.DistanceKind())))}
	switch x := v.(type) {
	case *comet.HNSWIndex:
		m, efc, efs, _ := x.VerifCodecHNSWParams()
		t = append(t, fmt.Sprintf("%sm=%d", pre, m), fmt.Sprintf("%sefc=%d", pre, efc), fmt.Sprintf("%sefs=%d", pre, efs))
	case *comet.IVFIndex:
		_, nlist := x.VerifIVFTrained()
		t = append(t, fmt.Sprintf("%snlist=%d", pre, nlist))
	case *comet.PQIndex:
		m, nbits, ksub, dsub, _ := x.VerifPQParams()
		t = append(t, fmt.Sprintf("%sm=%d", pre, m), fmt.Sprintf("%snbits=%d", pre, nbits), fmt.Sprintf("%sksub=%d", pre, ksub), fmt.Sprintf("%sdsub=%d", pre, dsub))
	case *comet.IVFPQIndex:
		nlist, m, nbits, ksub, dsub, _ := x.VerifIVFPQParams()
		t = append(t, fmt.Sprintf("%snlist=%d", pre, nlist), fmt.Sprintf("%sm=%d", pre, m), fmt.Sprintf("%snbits=%d", pre, nbits), fmt.Sprintf("%sksub=%d", pre, ksub), fmt.Sprintf("%sdsub=%d", pre, dsub))
	}
	return t
}

// paramTokens describes the receiver to the driver (what a fresh index of these
// construction parameters compares a stream with).
func (a *cdcAnyIndex) paramTokens() []string {
	switch a.p.Kind {
	case "bm25", "meta":
		return nil
	case "hybrid":
		t := []string{}
		if a.sub != nil {
			t = append(t, "vkind="+a.sub.p.Kind)
			t = append(t, cdcVecParamTokens("v", a.sub.vec)...)
		} else {
			t = append(t, "vkind=none")
		}
		t = append(t, "txt="+cdcB01(a.bm != nil), "md="+cdcB01(a.md != nil))
		return t
	}
	return cdcVecParamTokens("", a.vec)
}

func cdcB01(b bool) string {
	if b {
		return "1"
	}
	return "0"
}

/* ---------- canonical content (mirrors `render` of the Lean driver) ---------- */

func cdcRenderVec(v comet.VectorIndex) []string {
	dim, metric := v.Dimensions(), cdcHexB([]byte(v.DistanceKind()))
	switch x := v.(type) {
	case *comet.FlatIndex:
		ids, vecs, del := x.VerifFlatState()
		t := []string{"flat", fmt.Sprintf("dim=%d", dim), "metric=" + metric, fmt.Sprintf("n=%d", len(ids))}
		for i := range ids {
			t = append(t, fmt.Sprintf("v:%d:%s", ids[i], core.VecHex(vecs[i])))
		}
		return append(t, "deleted="+core.IDs(del))
	case *comet.HNSWIndex:
		m, efc, efs, lm := x.VerifCodecHNSWParams()
		entry, maxLevel, nodes := x.VerifHNSWGraph()
		t := []string{"hnsw", fmt.Sprintf("dim=%d", dim), "metric=" + metric, fmt.Sprintf("m=%d", m), fmt.Sprintf("efc=%d", efc),
			fmt.Sprintf("efs=%d", efs), "lm=" + core.Hex64(lm), fmt.Sprintf("maxlevel=%d", maxLevel), fmt.Sprintf("entry=%d", entry),
			fmt.Sprintf("n=%d", len(nodes))}
		var del []uint32
		for _, n := range nodes {
			vec, _ := x.VerifHNSWVector(n.ID)
			layers := make([]string, len(n.Edges))
			for i, e := range n.Edges {
				layers[i] = core.IDs(e)
			}
			t = append(t, fmt.Sprintf("node:%d:%d:%s:%s", n.ID, n.Level, core.VecHex(vec), strings.Join(layers, "|")))
			if n.Deleted {
				del = append(del, n.ID)
			}
		}
		return append(t, "deleted="+core.IDs(del))
	case *comet.IVFIndex:
		trained, nlist := x.VerifIVFTrained()
		cents := x.VerifIVFCentroids()
		ids, vecs := x.VerifIVFLists()
		t := []string{"ivf", fmt.Sprintf("dim=%d", dim), "metric=" + metric, fmt.Sprintf("nlist=%d", nlist), "trained=" + cdcB01(trained),
			fmt.Sprintf("nc=%d", len(cents))}
		for _, c := range cents {
			t = append(t, "c:"+core.VecHex(c))
		}
		t = append(t, fmt.Sprintf("nl=%d", len(ids)))
		for l := range ids {
			t = append(t, fmt.Sprintf("list:%d", len(ids[l])))
			for i := range ids[l] {
				t = append(t, fmt.Sprintf("e:%d:%s", ids[l][i], core.VecHex(vecs[l][i])))
			}
		}
		return append(t, "deleted="+core.IDs(x.VerifIVFDeleted()))
	case *comet.PQIndex:
		m, nbits, ksub, dsub, trained := x.VerifPQParams()
		cb := x.VerifPQCodebooks()
		ids, codes, del := x.VerifPQState()
		t := []string{"pq", fmt.Sprintf("dim=%d", dim), "metric=" + metric, fmt.Sprintf("m=%d", m), fmt.Sprintf("nbits=%d", nbits),
			fmt.Sprintf("ksub=%d", ksub), fmt.Sprintf("dsub=%d", dsub), "trained=" + cdcB01(trained), fmt.Sprintf("nc=%d", len(cb))}
		for _, c := range cb {
			t = append(t, "c:"+core.VecHex(c))
		}
		t = append(t, fmt.Sprintf("n=%d", len(ids)))
		for i := range ids {
			t = append(t, fmt.Sprintf("e:%d:%s", ids[i], cdcHexB(codes[i])))
		}
		return append(t, "deleted="+core.IDs(del))
	case *comet.IVFPQIndex:
		nlist, m, nbits, ksub, dsub, trained := x.VerifIVFPQParams()
		cents, cb := x.VerifIVFPQCentroids(), x.VerifIVFPQCodebooks()
		ids, codes, del := x.VerifIVFPQState()
		t := []string{"ivfpq", fmt.Sprintf("dim=%d", dim), "metric=" + metric, fmt.Sprintf("nlist=%d", nlist), fmt.Sprintf("m=%d", m),
			fmt.Sprintf("nbits=%d", nbits), fmt.Sprintf("ksub=%d", ksub), fmt.Sprintf("dsub=%d", dsub), "trained=" + cdcB01(trained),
			fmt.Sprintf("nc=%d", len(cents))}
		for _, c := range cents {
			t = append(t, "c:"+core.VecHex(c))
		}
		t = append(t, fmt.Sprintf("ncb=%d", len(cb)))
		for _, c := range cb {
			t = append(t, "cb:"+core.VecHex(c))
		}
		t = append(t, fmt.Sprintf("nl=%d", len(ids)))
		for l := range ids {
			t = append(t, fmt.Sprintf("list:%d", len(ids[l])))
			for i := range ids[l] {
				t = append(t, fmt.Sprintf("e:%d:%s", ids[l][i], cdcHexB(codes[l][i])))
			}
		}
		return append(t, "deleted="+core.IDs(del))
	}
	return []string{"?"}
}

func cdcSortedU32[V any](m map[uint32]V) []uint32 {
	k := make([]uint32, 0, len(m))
	for x := range m {
		k = append(k, x)
	}
	sort.Slice(k, func(i, j int) bool { return k[i] < k[j] })
	return k
}

// cdcSortedHex returns the keys of m ordered by their hex rendering (the order the driver uses).
func cdcSortedHex[V any](m map[string]V) []string {
	k := make([]string, 0, len(m))
	for x := range m {
		k = append(k, x)
	}
	sort.Slice(k, func(i, j int) bool { return cdcHexB([]byte(k[i])) < cdcHexB([]byte(k[j])) })
	return k
}

func cdcRenderBM25(ix *comet.BM25SearchIndex) []string {
	st := ix.VerifState()
	t := []string{"bm25", fmt.Sprintf("numdocs=%d", st.NumDocs), fmt.Sprintf("total=%d", st.TotalTokens), "avg=" + core.Hex64(st.AvgDocLen),
		fmt.Sprintf("ndl=%d", len(st.DocLengths))}
	for _, id := range cdcSortedU32(st.DocLengths) {
		t = append(t, fmt.Sprintf("dl:%d:%d", id, st.DocLengths[id]))
	}
	t = append(t, fmt.Sprintf("ndt=%d", len(st.DocTokens)))
	for _, id := range cdcSortedU32(st.DocTokens) {
		toks := make([]string, len(st.DocTokens[id]))
		for i, tk := range st.DocTokens[id] {
			toks[i] = cdcHexB([]byte(tk))
		}
		t = append(t, fmt.Sprintf("dt:%d:%s", id, strings.Join(toks, ".")))
	}
	t = append(t, fmt.Sprintf("np=%d", len(st.Postings)))
	for _, term := range cdcSortedHex(st.Postings) {
		t = append(t, fmt.Sprintf("p:%s:%s", cdcHexB([]byte(term)), core.IDs(st.Postings[term])))
	}
	t = append(t, fmt.Sprintf("ntf=%d", len(st.TF)))
	for _, term := range cdcSortedHex(st.TF) {
		var parts []string
		for _, id := range cdcSortedU32(st.TF[term]) {
			parts = append(parts, fmt.Sprintf("%d=%d", id, st.TF[term][id]))
		}
		t = append(t, fmt.Sprintf("tf:%s:%s", cdcHexB([]byte(term)), strings.Join(parts, ",")))
	}
	return append(t, "deleted="+core.IDs(st.Deleted))
}

func cdcRenderMeta(ix *comet.RoaringMetadataIndex) []string {
	st, err := ix.VerifState()
	if err != nil {
		return []string{"meta", "accessor-error"}
	}
	t := []string{"meta", "alldocs=" + core.IDs(st.AllDocs), fmt.Sprintf("nc=%d", len(st.Categorical))}
	for _, k := range cdcSortedHex(st.Categorical) {
		t = append(t, fmt.Sprintf("cat:%s:%s", cdcHexB([]byte(k)), core.IDs(st.Categorical[k])))
	}
	t = append(t, fmt.Sprintf("nn=%d", len(st.Numeric)))
	for _, f := range cdcSortedHex(st.Numeric) {
		b := st.Numeric[f]
		parts := []string{core.IDs(b.Existence)}
		for _, s := range b.Slices {
			parts = append(parts, core.IDs(s))
		}
		t = append(t, fmt.Sprintf("num:%s:%s", cdcHexB([]byte(f)), strings.Join(parts, "|")))
	}
	return t
}

// content renders the whole index canonically.
func (a *cdcAnyIndex) content() []string {
	switch a.p.Kind {
	case "bm25":
		return cdcRenderBM25(a.bm)
	case "meta":
		return cdcRenderMeta(a.md)
	case "hybrid":
		di, _ := comet.VerifCodecHybridDocInfo(a.hyb)
		t := []string{"hybrid", fmt.Sprintf("ndi=%d", len(di))}
		for _, d := range di {
			t = append(t, fmt.Sprintf("di:%d:%s%s%s", d.ID, cdcB01(d.HasVector), cdcB01(d.HasText), cdcB01(d.HasMetadata)))
		}
		t = append(t, "vec{")
		if a.sub != nil {
			t = append(t, cdcRenderVec(a.sub.vec)...)
		} else {
			t = append(t, "none")
		}
		t = append(t, "}", "txt{")
		if a.bm != nil {
			t = append(t, cdcRenderBM25(a.bm)...)
		} else {
			t = append(t, "none")
		}
		t = append(t, "}", "md{")
		if a.md != nil {
			t = append(t, cdcRenderMeta(a.md)...)
		} else {
			t = append(t, "none")
		}
		return append(t, "}")
	}
	return cdcRenderVec(a.vec)
}

// pendingDeletes reports whether soft-deleted entries are waiting for a flush and whether
// some of them are vertices of an HNSW graph (second result; since fix f6a780e tombstoned
// vertices are walked through by searches until the Flush inside WriteTo drops them and
// their edges without reconnecting the neighbours: known finding D21).
func (a *cdcAnyIndex) pendingDeletes() (pending bool, entryDeleted bool) {
	check := func(v comet.VectorIndex) {
		switch x := v.(type) {
		case *comet.FlatIndex:
			_, _, d := x.VerifFlatState()
			pending = pending || len(d) > 0
		case *comet.HNSWIndex:
			entry, _, nodes := x.VerifHNSWGraph()
			for _, n := range nodes {
				if n.Deleted {
					pending = true
					entryDeleted = true // any tombstoned HNSW vertex (the entry point is no longer special)
					_ = entry
				}
			}
		case *comet.IVFIndex:
			pending = pending || len(x.VerifIVFDeleted()) > 0
		case *comet.PQIndex:
			_, _, d := x.VerifPQState()
			pending = pending || len(d) > 0
		case *comet.IVFPQIndex:
			_, _, d := x.VerifIVFPQState()
			pending = pending || len(d) > 0
		}
	}
	if a.vec != nil {
		check(a.vec)
	}
	if a.sub != nil {
		check(a.sub.vec)
	}
	return
}

func (a *cdcAnyIndex) textPending() bool {
	return a.bm != nil && len(a.bm.VerifState().Deleted) > 0
}

/* ---------- queries ---------- */

func cdcFilterOf(m *cdcMval) comet.Filter {
	switch m.T {
	case "s":
		return comet.Eq(m.Key, m.S)
	case "i":
		return comet.Eq(m.Key, int(m.I))
	case "b":
		return comet.Eq(m.Key, m.B)
	}
	return comet.Exists(m.Key)
}

// query answers one query as protocol tokens: "ok id:score…" or "err".
func (a *cdcAnyIndex) query(q cdcCquery) (out string) {
	defer func() {
		if r := recover(); r != nil {
			out = "panic " + strings.ReplaceAll(fmt.Sprint(r), " ", "_")
		}
	}()
	var b strings.Builder
	b.WriteString("ok")
	switch a.p.Kind {
	case "bm25":
		res, err := a.bm.NewSearch().WithQuery(q.Text).WithK(q.K).Execute()
		if err != nil {
			return "err"
		}
		for _, h := range res {
			fmt.Fprintf(&b, " %d:%s", h.GetId(), core.Hex32(h.GetScore()))
		}
	case "meta":
		res, err := a.md.NewSearch().WithFilters(cdcFilterOf(q.Filt)).Execute()
		if err != nil {
			return "err"
		}
		for _, h := range res {
			fmt.Fprintf(&b, " %d:0", h.GetId())
		}
	case "hybrid":
		s := a.hyb.NewSearch().WithK(q.K)
		if len(q.Vec) > 0 {
			s = s.WithVector(core.FromBits(q.Vec))
		}
		if q.Text != "" {
			s = s.WithText(q.Text)
		}
		if q.Filt != nil {
			s = s.WithMetadata(cdcFilterOf(q.Filt))
		}
		res, err := s.Execute()
		if err != nil {
			return "err"
		}
		for _, h := range res {
			fmt.Fprintf(&b, " %d:%s", h.ID, core.Hex64(h.Score))
		}
	default:
		s := a.vec.NewSearch().WithK(q.K)
		if len(q.Vec) > 0 {
			s = s.WithQuery(core.FromBits(q.Vec))
		} else {
			s = s.WithNode(q.Node)
		}
		res, err := s.Execute()
		if err != nil {
			return "err"
		}
		for _, h := range res {
			fmt.Fprintf(&b, " %d:%s", h.GetId(), core.Hex32(h.GetScore()))
		}
	}
	return b.String()
}

/* ---------- generators ---------- */

var cdcCodecWords = []string{"alpha", "beta", "gamma", "delta", "eps", "zeta", "eta", "theta", "iota", "kappa", "straße", "naïve"}

func cdcGenText(r *core.Rand) string {
	n := r.Range(1, 6)
	w := make([]string, n)
	for i := range w {
		w[i] = cdcCodecWords[r.Intn(len(cdcCodecWords))]
	}
	return strings.Join(w, " ")
}

func cdcGenMeta(r *core.Rand) []cdcMval {
	var out []cdcMval
	if r.Chance(0.8) {
		out = append(out, cdcMval{Key: "c", T: "s", S: []string{"x", "y", "z", ""}[r.Intn(4)]})
	}
	if r.Chance(0.7) {
		out = append(out, cdcMval{Key: "n", T: "i", I: int64(r.Range(-5, 40))})
	}
	if r.Chance(0.3) {
		out = append(out, cdcMval{Key: "f", T: "f", F: float64(r.Range(-300, 300)) / 8})
	}
	if r.Chance(0.3) {
		out = append(out, cdcMval{Key: "b", T: "b", B: r.Bool()})
	}
	return out
}

func cdcGenCVec(r *core.Rand, dim int) []uint32 {
	v := make([]float32, dim)
	for i := range v {
		if r.Chance(0.5) {
			v[i] = float32(r.Range(-6, 6))
		} else {
			v[i] = float32(r.Norm() * 3)
		}
	}
	if cdcAllZero(v) {
		v[r.Intn(dim)] = 1
	}
	return core.Bits(v)
}

// cdcGenParams draws construction parameters of one kind.
func cdcGenParams(r *core.Rand, kind string) cdcCparams {
	p := cdcCparams{Kind: kind}
	vk := kind
	if kind == "hybrid" {
		p.VKind = []string{"none", "flat", "flat", "hnsw", "ivf", "pq", "ivfpq"}[r.Intn(7)]
		p.Txt = r.Chance(0.8)
		p.Md = r.Chance(0.8)
		vk = p.VKind
	}
	if kind == "bm25" || kind == "meta" || vk == "none" {
		return p
	}
	p.Metric = metrics[r.Intn(3)]
	switch vk {
	case "flat", "hnsw", "ivf":
		p.Dim = r.Range(1, 8)
	case "pq", "ivfpq":
		p.M = r.Range(1, 3)
		p.Dim = p.M * r.Range(1, 3)
		p.Nbits = r.Range(1, 3)
	}
	switch vk {
	case "hnsw":
		p.M = []int{0, 2, 4, 16}[r.Intn(4)]
		p.EfC = []int{0, 8, 50}[r.Intn(3)]
		p.EfS = []int{0, 6, 40}[r.Intn(3)]
	case "ivf", "ivfpq":
		p.Nlist = r.Range(1, 4)
	}
	return p
}

func (p cdcCparams) vecKind() string {
	if p.Kind == "hybrid" {
		return p.VKind
	}
	return p.Kind
}

func (p cdcCparams) hasVec() bool {
	k := p.vecKind()
	return k == "flat" || k == "hnsw" || k == "ivf" || k == "pq" || k == "ivfpq"
}

// trainSize returns a training set size that the kind accepts.
func (p cdcCparams) trainSize(r *core.Rand) int {
	need := 1
	switch p.vecKind() {
	case "ivf":
		need = p.Nlist
	case "pq":
		need = 1 << p.Nbits
	case "ivfpq":
		need = max(10*p.Nlist, 1<<p.Nbits)
	}
	return need + r.Intn(6)
}

// cdcGenHistory draws a history: shape 0 empty, 1 untrained adds (rejected by the
// trainable kinds), 2 all removed, 3 re-trained, 4 larger, 5 ordinary.
// cdcOddCorpus draws document lengths (in words) of a text corpus with an "odd" shape: n documents
// with T tokens in total where T/n is not exact — preferably a pair for which even
// float64(T)/n*n does not give T back (about 2% of small shapes, e.g. 11 documents with
// 15 tokens) — so that statistics which are stored cannot be confused with statistics
// re-derived from each other.
func cdcOddCorpus(r *core.Rand, maxDocs int) []int {
	// the tokenizer (UAX#29 segments) also yields the blanks between words: a text of w
	// words has 2w-1 tokens, so T and n have the same parity
	n, t := 0, 0
	for try := 0; try < 600; try++ {
		n = r.Range(2, max(3, maxDocs))
		t = n + 2*r.Range(0, n+10)
		if int(float64(t)/float64(n)*float64(n)) != t {
			break
		}
		if try > 500 && t%n != 0 {
			break
		}
	}
	words := make([]int, n)
	for i := range words {
		words[i] = 1
	}
	for k := (t - n) / 2; k > 0; k-- {
		words[r.Intn(n)]++
	}
	return words
}

func cdcGenTextN(r *core.Rand, n int) string {
	w := make([]string, n)
	for i := range w {
		w[i] = cdcCodecWords[r.Intn(len(cdcCodecWords))]
	}
	return strings.Join(w, " ")
}

func cdcGenHistory(r *core.Rand, p cdcCparams, shape int, maxAdds int) (cmds []cdcCcmd, ids []uint32) {
	next := uint32(r.Range(1, 5))
	// text kinds: now and then a corpus of an odd shape (document lengths fixed up front,
	// every add carries text, few or no removals)
	var oddLens []int
	hasText := p.Kind == "bm25" || (p.Kind == "hybrid" && p.Txt)
	if hasText && shape >= 4 && r.Chance(0.4) {
		oddLens = cdcOddCorpus(r, 2*maxAdds)
	}
	odd := len(oddLens) > 0
	add := func() {
		c := cdcCcmd{Op: "add", ID: next}
		next += uint32(r.Range(1, 3))
		if r.Chance(0.03) {
			c.ID = uint32(4294967295 - r.Intn(3)) // near the top of the id range
		}
		if p.hasVec() && (p.Kind != "hybrid" || r.Chance(0.85)) {
			c.Vec = cdcGenCVec(r, p.Dim)
			c.Level = []int{0, 0, 0, 1, 1, 2, 3}[r.Intn(7)]
		}
		if len(oddLens) > 0 {
			c.Text = cdcGenTextN(r, oddLens[0])
			oddLens = oddLens[1:]
		} else if p.Kind == "bm25" || (p.Kind == "hybrid" && p.Txt && r.Chance(0.85)) {
			c.Text = cdcGenText(r)
		}
		if p.Kind == "meta" || (p.Kind == "hybrid" && p.Md && r.Chance(0.85)) {
			c.Meta = cdcGenMeta(r)
		}
		ids = append(ids, c.ID)
		cmds = append(cmds, c)
	}
	train := func() {
		if p.hasVec() {
			cmds = append(cmds, cdcCcmd{Op: "train", Seed: r.U64(), N: p.trainSize(r)})
		}
	}
	remove := func() {
		if len(ids) > 0 {
			cmds = append(cmds, cdcCcmd{Op: "remove", ID: ids[r.Intn(len(ids))]})
		}
	}
	switch shape {
	case 0:
		if r.Chance(0.5) {
			train()
		}
	case 1:
		for i := r.Range(1, 4); i > 0; i-- {
			add()
		}
	case 2:
		train()
		for i := r.Range(1, 6); i > 0; i-- {
			add()
		}
		for _, id := range ids {
			cmds = append(cmds, cdcCcmd{Op: "remove", ID: id})
		}
		if r.Chance(0.3) {
			cmds = append(cmds, cdcCcmd{Op: "flush"})
		}
	case 3:
		train()
		for i := r.Range(2, 8); i > 0; i-- {
			add()
		}
		remove()
		train()
		for i := r.Range(0, 4); i > 0; i-- {
			add()
		}
	default:
		train()
		n := r.Range(3, maxAdds)
		if shape == 4 {
			n = maxAdds + r.Range(0, maxAdds)
		}
		if odd { // exactly the odd corpus, then (half of the time) a removal + flush or two
			for len(oddLens) > 0 {
				add()
			}
			for k := r.Pick(2, 1, 1); k > 0; k-- {
				remove()
				if r.Chance(0.7) {
					cmds = append(cmds, cdcCcmd{Op: "flush"})
				}
			}
			return cmds, ids
		}
		for i := 0; i < n; i++ {
			switch r.Pick(12, 3, 1, 1) {
			case 0:
				add()
			case 1:
				remove()
			case 2:
				cmds = append(cmds, cdcCcmd{Op: "flush"})
			case 3:
				if len(ids) > 0 && r.Chance(0.5) { // re-add an existing id (replace)
					old := ids[r.Intn(len(ids))]
					add()
					cmds[len(cmds)-1].ID = old
					ids[len(ids)-1] = old
				}
			}
		}
	}
	return cmds, ids
}

func cdcGenQueries(r *core.Rand, p cdcCparams, ids []uint32, n int) []cdcCquery {
	var qs []cdcCquery
	big := len(ids) + 5
	for i := 0; i < n; i++ {
		q := cdcCquery{K: big}
		if r.Chance(0.3) && p.Kind != "bm25" && p.Kind != "meta" && p.Kind != "hybrid" {
			q.K = r.Range(1, max(1, len(ids)))
		}
		switch p.Kind {
		case "bm25":
			q.Text = cdcCodecWords[r.Intn(len(cdcCodecWords))]
			if r.Chance(0.3) {
				q.Text += " " + cdcCodecWords[r.Intn(len(cdcCodecWords))]
			}
		case "meta":
			ms := cdcGenMeta(r)
			if len(ms) == 0 {
				ms = []cdcMval{{Key: "c", T: "s", S: "x"}}
			}
			q.Filt = &ms[r.Intn(len(ms))]
			if q.Filt.T == "f" {
				q.Filt = &cdcMval{Key: "f", T: "x"} // Exists
			}
		case "hybrid":
			mode := r.Intn(4)
			if (mode == 0 || mode == 3) && p.hasVec() {
				q.Vec = cdcGenCVec(r, p.Dim)
			}
			if (mode == 1 || mode == 3) && p.Txt {
				q.Text = cdcCodecWords[r.Intn(len(cdcCodecWords))]
			}
			if (mode == 2 || (mode == 3 && r.Chance(0.4))) && p.Md {
				q.Filt = &cdcMval{Key: "c", T: "s", S: []string{"x", "y"}[r.Intn(2)]}
			}
			if len(q.Vec) == 0 && q.Text == "" && q.Filt == nil {
				if p.Txt {
					q.Text = "alpha"
				} else if p.hasVec() {
					q.Vec = cdcGenCVec(r, p.Dim)
				} else if p.Md {
					q.Filt = &cdcMval{Key: "c", T: "s", S: "x"}
				} else {
					continue
				}
			}
		default:
			// node-id queries only where vectors survive a reload
			if len(ids) > 0 && r.Chance(0.2) && (p.Kind == "flat" || p.Kind == "hnsw" || p.Kind == "ivf") {
				q.Node = ids[r.Intn(len(ids))]
			} else {
				q.Vec = cdcGenCVec(r, p.Dim)
			}
		}
		qs = append(qs, q)
	}
	return qs
}

var _ = math.Pi
