package main

// Stream "store" (C08): one open store; sequential histories over Add / AddWithID /
// Remove / Flush / rotation (size-triggered and forced) / TriggerCompaction /
// EvictAllCaches / search, with memtable limits from below one document up, flush
// thresholds small enough to trigger background flushes and compaction thresholds
// 2..5. The background flush worker and the compaction worker are parked at the yield
// points and take ONE step of their lock-delimited regions per `bg` command, so every
// trace is one explicit interleaving of client operations and worker steps; the
// thorough tier adds directed patterns (a search between "segment registered" and
// "memtable dropped"; a compaction interleaved step by step with adds, evictions and
// searches; bursts that keep a signal buffered while the worker is mid-round).

import (
	"strings"

	"verifharness/internal/core"
)

func genStoreOps(r *core.Rand, c *stCase, n int) {
	nAdds := 0
	for _, x := range c.Cmds {
		if x.Op == "add" || x.Op == "addid" {
			nAdds++
		}
	}
	for i := 0; i < n; i++ {
		switch r.Pick(36, 6, 8, 6, 7, 6, 14, 9, 11, 3, 4, 2, 9, 7) {
		case 0:
			c.Cmds = append(c.Cmds, genAdd(r, c))
			nAdds++
		case 1:
			// HNSW removals run into C12's territory (entry-point removal); the vector-less
			// documents of an hnsw store are still removed
			ref := -1
			if nAdds > 0 && r.Chance(0.85) {
				ref = r.Intn(nAdds)
			}
			if c.Vec != "hnsw" {
				c.Cmds = append(c.Cmds, stCmd{Op: "remove", Ref: ref})
			}
		case 2:
			c.Cmds = append(c.Cmds, stCmd{Op: "flush"})
		case 3:
			c.Cmds = append(c.Cmds, stCmd{Op: "rotate"})
		case 4:
			c.Cmds = append(c.Cmds, stCmd{Op: "trigger"})
		case 5:
			c.Cmds = append(c.Cmds, stCmd{Op: "evict"})
		case 6:
			p := probes(c)
			switch r.Intn(4) {
			case 0:
				c.Cmds = append(c.Cmds, p...)
			case 1:
				c.Cmds = append(c.Cmds, kProbes(c)...)
			default:
				c.Cmds = append(c.Cmds, p[r.Intn(len(p))])
			}
		case 7:
			for k := r.Range(1, 3); k > 0; k-- {
				c.Cmds = append(c.Cmds, stCmd{Op: "bg", W: "f"})
			}
		case 8:
			for k := r.Range(1, 4); k > 0; k-- {
				c.Cmds = append(c.Cmds, stCmd{Op: "bg", W: "c"})
			}
		case 9:
			c.Cmds = append(c.Cmds, stCmd{Op: "state"})
		case 10:
			// an add the store must reject without leaving anything behind
			var kinds []int
			if c.Meta {
				kinds = append(kinds, 1)
			}
			if c.Vec != "none" {
				kinds = append(kinds, 2)
				if c.Cosine {
					kinds = append(kinds, 3)
				}
			}
			if len(kinds) > 0 {
				c.Cmds = append(c.Cmds, stCmd{Op: "badadd", Bad: kinds[r.Intn(len(kinds))], X: r.Bool(), N: r.Intn(3)})
			}
		case 13:
			// the same id again: Remove + AddWithID of an id acknowledged earlier (handed out by Add
			// or explicit), or AddWithID while it is still live (an update) — same modalities, new
			// content; with and without rotation / flush in between. (HNSW: see removals.)
			if nAdds > 0 && c.Vec != "hnsw" {
				ref := r.Intn(nAdds)
				if r.Chance(0.7) {
					c.Cmds = append(c.Cmds, stCmd{Op: "remove", Ref: ref})
				}
				switch r.Intn(4) {
				case 0:
					c.Cmds = append(c.Cmds, stCmd{Op: "rotate"})
				case 1:
					c.Cmds = append(c.Cmds, stCmd{Op: "flush"})
				}
				c.Cmds = append(c.Cmds, stCmd{Op: "readd", Ref: ref, N: r.Intn(3)})
				nAdds++
				if r.Chance(0.6) {
					p := probes(c)
					c.Cmds = append(c.Cmds, p[r.Intn(len(p))])
				}
			}
		case 12:
			// probes with search options, answered by the store and by the reference index
			for k := r.Range(1, 3); k > 0; k-- {
				if o := genOpt(r, c); o != nil {
					c.Cmds = append(c.Cmds, stCmd{Op: "osearch", O: o})
				}
			}
		case 11:
			// the boundary ids 0 and MaxUint32, the same id again (Remove then AddWithID of an id handed out by Add or explicit, or AddWithID while still live; same modalities, new content; with and without rotation / flush in between), base directory names with glob metacharacters / spaces / unicode / trailing slash / .. / relative / symlinked parent / very long, rarely a big case (exact vector kinds only; 1100–1500 documents, k = number of documents, default k, k = 0), option probes (positive thresholds derived from the distances the reference index reports — exactly a distance, a midpoint —, aggregation kinds, autocut, nprobes / efSearch, vector+text with every fusion kind through WithFusionKind and WithFusion, k exactly large enough) answered by the store AND by a reference in-memory hybrid index fed the same acknowledged adds and removes: id sets must be equal whenever the vector index is exact and the faithful model says the store presents exactly the live documents, size / membership sanity otherwise; IVF templates are trained through the store's own Train, once each
			sp := 1 + r.Intn(2)
			used := false
			for _, x := range c.Cmds {
				if x.Op == "addid" && x.Sp == sp {
					used = true
				}
			}
			if !used {
				a := genAdd(r, c)
				a.Op, a.Sp = "addid", sp
				c.Cmds = append(c.Cmds, a)
				nAdds++
			}
		}
	}
}

// bigProbes: each configured modality with a huge k, with k = exactly the number of answers, with
// the builder's default k and with k = 0.
func bigProbes(c *stCase) []stCmd {
	var out []stCmd
	for _, p := range probes(c) {
		if p.Q == "mdg" || p.Q == "mdgf" {
			continue
		}
		out = append(out, p, stCmd{Op: "search", Q: p.Q, K: 1}, stCmd{Op: "search", Q: p.Q, K: 3}, stCmd{Op: "search", Q: p.Q, K: 4})
	}
	return out
}

var fusionKinds = []string{"weighted_sum", "reciprocal_rank", "max", "min"}

// genOpt draws the options of one `osearch` probe (nil when the case has no vector template).
func genOpt(r *core.Rand, c *stCase) *stOpt {
	if c.Vec == "none" || c.Vec == "" {
		return nil
	}
	o := &stOpt{Mode: "vec"}
	if c.Text && r.Chance(0.35) {
		o.Mode = "vt"
		o.Fus = fusionKinds[r.Intn(len(fusionKinds))]
		o.Via = r.Bool()
		o.Tok = r.Bool()
		if r.Chance(0.15) {
			o.Fus = "" // the default fusion
		}
	}
	switch r.Pick(3, 4, 3) {
	case 1:
		o.Thr, o.R = 1, r.Intn(8)
	case 2:
		o.Thr, o.R = 2, r.Intn(8)
	}
	if r.Chance(0.3) {
		o.Agg = []string{"sum", "max", "mean"}[r.Intn(3)]
	}
	if o.Mode == "vec" && r.Chance(0.15) {
		o.Cut = r.Range(1, 3)
	}
	if c.Vec == "ivf" {
		o.Np = r.Range(1, 2)
	}
	if c.Vec == "hnsw" && r.Chance(0.6) {
		o.Ef = []int{1, 8, 64, 400}[r.Intn(4)]
	}
	o.KX = r.Chance(0.4)
	return o
}

// optProbes: a fixed battery of option probes (used at the end of histories).
func optProbes(r *core.Rand, c *stCase) []stCmd {
	var out []stCmd
	if c.Vec == "none" || c.Vec == "" {
		return out
	}
	out = append(out, stCmd{Op: "osearch", O: &stOpt{Mode: "vec", Thr: 1, R: r.Intn(6)}},
		stCmd{Op: "osearch", O: &stOpt{Mode: "vec", Thr: 2, R: r.Intn(6), KX: true}})
	for k := 0; k < 2; k++ {
		if o := genOpt(r, c); o != nil {
			out = append(out, stCmd{Op: "osearch", O: o})
		}
	}
	return out
}

func genStore(r *core.Rand, tier string) *stCase {
	c := &stCase{}
	genStoreCfg(r, c)
	if c.Limit > 5000 && r.Chance(0.7) {
		c.Limit = int64(r.Range(1, 900))
	}
	switch r.Pick(4, 3, 2) {
	case 0:
		c.FlushThr = int64(r.Range(60, 500)) // nearly every add signals the flush worker
	case 1:
		c.FlushThr = int64(r.Range(500, 2500))
	case 2:
		c.FlushThr = 200 * 1024 * 1024
	}
	c.CompThr = r.Range(2, 5)
	c.Dir = 0
	if r.Chance(0.35) {
		c.Dir = r.Intn(len(storeDirNames))
	}
	c.Cmds = append(c.Cmds, stCmd{Op: "open"})
	if r.Chance(0.012) {
		// a rare big case: more documents than any fixed bound on k one might think of. HNSW is
		// approximate at this size (recall is C12's subject): big cases use an exact vector kind
		if c.Vec == "hnsw" {
			c.Vec = "flat"
		}
		c.Limit = 100 * 1024 * 1024
		c.FlushThr = 200 * 1024 * 1024
		c.Cmds = append(c.Cmds, stCmd{Op: "addmany", Cnt: r.Range(1100, 1500), V: c.Vec != "none", T: c.Text || c.Vec == "none"})
		c.Cmds = append(c.Cmds, bigProbes(c)...)
		if r.Bool() {
			c.Cmds = append(c.Cmds, stCmd{Op: "rotate"}, stCmd{Op: "flush"}, stCmd{Op: "evict"})
			c.Cmds = append(c.Cmds, bigProbes(c)...)
		}
		c.Cmds = append(c.Cmds, stCmd{Op: "close"})
		return c
	}
	n := r.Range(5, 40)
	if tier == "thorough" {
		n = r.Range(5, 120)
	}
	if tier == "thorough" && r.Chance(0.35) {
		genDirected(r, c)
	} else {
		genStoreOps(r, c, n)
	}
	c.Cmds = append(c.Cmds, kProbes(c)...)
	c.Cmds = append(c.Cmds, optProbes(r, c)...)
	c.Cmds = append(c.Cmds, stCmd{Op: "state"}, stCmd{Op: "ls"}, stCmd{Op: "close"}, stCmd{Op: "ls"})
	return c
}

// genDirected: the schedules DESIGN §6.8 names.
func genDirected(r *core.Rand, c *stCase) {
	p := probes(c)
	one := func() stCmd { return p[r.Intn(len(p))] }
	switch r.Intn(3) {
	case 0:
		// a search between "segment registered" and "memtable dropped", and one between the
		// worker's listFrozen and its write while the client flushes the same memtables
		c.FlushThr = 64
		for k := r.Range(1, 4); k > 0; k-- {
			c.Cmds = append(c.Cmds, genAdd(r, c))
		}
		c.Cmds = append(c.Cmds, stCmd{Op: "rotate"}, genAdd(r, c))
		c.Cmds = append(c.Cmds, stCmd{Op: "bg", W: "f"}) // flist
		if r.Bool() {
			c.Cmds = append(c.Cmds, stCmd{Op: "flush"}) // the client flushes what the worker has listed
		}
		c.Cmds = append(c.Cmds, stCmd{Op: "bg", W: "f"}, one(), stCmd{Op: "state"}) // fwrite; search sees memtable AND segment
		c.Cmds = append(c.Cmds, genAdd(r, c), stCmd{Op: "bg", W: "f"}, one(), one())
		genStoreOps(r, c, r.Range(0, 15))
	case 1:
		// a compaction taken one step at a time, interleaved with adds, evictions, searches
		c.CompThr = r.Range(2, 3)
		for k := c.CompThr + r.Range(0, 2); k > 0; k-- {
			c.Cmds = append(c.Cmds, genAdd(r, c), stCmd{Op: "rotate"}, stCmd{Op: "flush"})
		}
		c.Cmds = append(c.Cmds, stCmd{Op: "trigger"})
		for k := 0; k < c.CompThr+4; k++ {
			c.Cmds = append(c.Cmds, stCmd{Op: "bg", W: "c"})
			switch r.Intn(5) {
			case 0:
				c.Cmds = append(c.Cmds, genAdd(r, c))
			case 1:
				c.Cmds = append(c.Cmds, stCmd{Op: "evict"})
			case 2:
				c.Cmds = append(c.Cmds, one())
			case 3:
				c.Cmds = append(c.Cmds, stCmd{Op: "trigger"})
			}
		}
		c.Cmds = append(c.Cmds, stCmd{Op: "evict"})
		c.Cmds = append(c.Cmds, p...)
		c.Cmds = append(c.Cmds, p...)
		genStoreOps(r, c, r.Range(0, 10))
	case 2:
		// bursts: signals arrive while the worker is mid-round (one stays buffered)
		c.FlushThr = 64
		c.Limit = int64(r.Range(1, 300))
		for k := r.Range(3, 8); k > 0; k-- {
			c.Cmds = append(c.Cmds, genAdd(r, c))
			if r.Chance(0.5) {
				c.Cmds = append(c.Cmds, stCmd{Op: "bg", W: "f"})
			}
			if r.Chance(0.3) {
				c.Cmds = append(c.Cmds, one())
			}
		}
		for k := r.Range(2, 12); k > 0; k-- {
			c.Cmds = append(c.Cmds, stCmd{Op: "bg", W: "f"})
		}
		c.Cmds = append(c.Cmds, stCmd{Op: "state"})
		genStoreOps(r, c, r.Range(0, 15))
	}
}

// nonTrivialStore: some search had to find documents (must>0) with at least one segment
// registered, and a worker step or a rotation happened before it.
func nonTrivialStore(lines, replies []string) bool {
	moved := false
	for i, l := range lines {
		if strings.HasPrefix(l, "op bg ") || strings.HasPrefix(l, "op rotate") || strings.HasPrefix(l, "op flush") {
			moved = true
		}
		if moved && strings.HasPrefix(l, "op search") && i < len(replies) {
			m := kv(replies[i])
			if m["must"] > 0 && m["segs"] > 0 {
				return true
			}
		}
	}
	return false
}

func init() {
	register(&core.Typed[stCase]{
		StreamName: "store", Prop: "C08",
		RuleText: "one open store; random sequential histories over add / addid / remove / flush / forced rotate / trigger-compaction / evict-all / vector, text and metadata probes (metadata also through filter GROUPS alone and groups + filters; every modality with a huge k, with k = exactly the size of the previous answer and with one more), rejected adds (unsupported metadata value type, wrong dimension, zero vector under cosine; through Add and AddWithID), the boundary ids 0 and MaxUint32, the same id again (Remove then AddWithID of an id handed out by Add or explicit, or AddWithID while still live; same modalities, new content; with and without rotation / flush in between), base directory names with glob metacharacters / spaces / unicode / trailing slash / .. / relative / symlinked parent / very long, rarely a big case (exact vector kinds only; 1100–1500 documents, k = number of documents, default k, k = 0), option probes (positive thresholds derived from the distances the reference index reports — exactly a distance, a midpoint —, aggregation kinds, autocut, nprobes / efSearch, vector+text with every fusion kind through WithFusionKind and WithFusion, k exactly large enough) answered by the store AND by a reference in-memory hybrid index fed the same acknowledged adds and removes: id sets must be equal whenever the vector index is exact and the faithful model says the store presents exactly the live documents, size / membership sanity otherwise; IVF templates are trained through the store's own Train, memtable limits from below one document up, flush thresholds 60 B .. default, compaction thresholds 2..5, templates flat/hnsw/trained ivf/none x text x metadata; the flush and compaction workers take exactly one lock-delimited step per `bg` command (the interleaving is part of the trace), segment goroutines of a search are serialised in the order they happened to start; after the history all modalities are probed and bookkeeping state and directory are compared with the model; thorough adds directed schedules; a case is non-trivial when a search that had to find documents (must>0) ran with at least one registered segment after a worker step / rotation / flush; distinct = distinct request streams",
		NCases: func(tier string) int {
			if tier == "thorough" {
				return 3000
			}
			return 160
		},
		GenF:        genStore,
		ExecF:       execStoreCase("store"),
		LenF:        func(c *stCase) int { return len(c.Cmds) },
		DropF:       dropCmds,
		NonTrivialF: nonTrivialStore,
	})
}
