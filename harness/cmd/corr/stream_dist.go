package main

// Stream "dist" (C18): every function of distance.go on generated pairs / triples.
// The Go results travel as bit patterns; the Lean driver re-executes the same calls on
// the Float32 instance of the scalar-generic model (bit-for-bit comparison) and
// evaluates the property's laws exactly on the implementation's outputs.

import (
	"fmt"
	"math"
	"strings"
	"sync"
	"unsafe"

	comet "github.com/wizenheimer/comet"
	"verifharness/internal/core"
)

type distCmd struct {
	Op   string     `json:"op"` // calc | calcp | tri | cos | batch | pre | helpers
	Kind string     `json:"kind,omitempty"`
	A    []uint32   `json:"a,omitempty"`
	B    []uint32   `json:"b,omitempty"`
	C    []uint32   `json:"c,omitempty"`
	S    uint32     `json:"s,omitempty"`
	T    uint32     `json:"t,omitempty"`
	Qs   [][]uint32 `json:"qs,omitempty"`
	// batch: NQ > 0 appends NQ queries of the target's dimension drawn from QSeed (keeps big batches small on disk)
	NQ    int    `json:"nq,omitempty"`
	QSeed uint64 `json:"qseed,omitempty"`
}

type distCase struct {
	Dim   int       `json:"dim"`
	Shape string    `json:"shape"`
	Cmds  []distCmd `json:"cmds"`
}

func f32s(v []float64) []float32 {
	o := make([]float32, len(v))
	for i, x := range v {
		o[i] = float32(x)
	}
	return o
}

// magnitude classes: the property's 1e-6..1e6, plus (rarely) squares that overflow / underflow
func genScale(r *core.Rand, extreme bool) float64 {
	if extreme {
		if r.Bool() {
			return math.Pow(10, 19+6*r.Float64())
		}
		return math.Pow(10, -30+5*r.Float64())
	}
	switch r.Pick(6, 2, 2) {
	case 0:
		return math.Pow(10, -6+12*r.Float64())
	case 1:
		return 1
	default:
		return []float64{1e-6, 1e6, 1e-3, 1e3}[r.Intn(4)]
	}
}

func gauss(r *core.Rand, dim int, scale float64) []float64 {
	v := make([]float64, dim)
	for i := range v {
		v[i] = r.Norm() * scale
	}
	// components across many magnitudes inside one vector
	if r.Chance(0.3) {
		for i := range v {
			v[i] *= math.Pow(10, float64(-r.Intn(5)))
		}
	}
	if r.Chance(0.15) { // sparse
		for i := range v {
			if r.Chance(0.6) {
				v[i] = 0
			}
		}
	}
	return v
}

func dot64(a, b []float64) float64 {
	s := 0.0
	for i := range a {
		s += a[i] * b[i]
	}
	return s
}

var distShapes = []string{"random", "equal", "opposite", "orthogonal", "nearpar", "ulp", "zero", "lattice", "extreme", "scaled", "axis"}

// genTriple returns a, b, c of the given dimension in the given shape class.
func genTriple(r *core.Rand, dim int, shape string) (a, b, c []float32) {
	sa := genScale(r, shape == "extreme")
	a64 := gauss(r, dim, sa)
	if shape == "lattice" {
		for i := range a64 {
			a64[i] = float64(r.Range(-4, 4))
		}
	}
	if shape == "axis" {
		for i := range a64 {
			a64[i] = 0
		}
		a64[r.Intn(dim)] = sa
	}
	a = f32s(a64)
	for i := range a64 {
		a64[i] = float64(a[i])
	}
	nrm := math.Sqrt(dot64(a64, a64))
	b64 := make([]float64, dim)
	switch shape {
	case "equal":
		copy(b64, a64)
	case "opposite":
		k := 1.0
		if r.Bool() {
			k = math.Pow(10, -3+6*r.Float64())
		}
		for i := range b64 {
			b64[i] = -k * a64[i]
		}
	case "orthogonal":
		g := gauss(r, dim, genScale(r, false))
		if nrm > 0 {
			p := dot64(g, a64) / (nrm * nrm)
			for i := range g {
				g[i] -= p * a64[i]
			}
		}
		b64 = g
	case "nearpar":
		eps := math.Pow(10, -4-3*r.Float64())
		k := math.Pow(10, -2+4*r.Float64())
		for i := range b64 {
			b64[i] = k * (a64[i] + eps*nrm*r.Norm()/math.Sqrt(float64(dim)))
		}
	case "ulp":
		copy(b64, a64)
	case "zero":
		// b stays zero (sometimes with negative zeros)
		if r.Bool() {
			for i := range b64 {
				if r.Bool() {
					b64[i] = math.Copysign(0, -1)
				}
			}
		}
	case "lattice":
		for i := range b64 {
			b64[i] = float64(r.Range(-4, 4))
		}
	case "scaled":
		k := math.Pow(2, float64(r.Range(-10, 10)))
		if r.Bool() {
			k = math.Pow(10, -3+6*r.Float64())
		}
		for i := range b64 {
			b64[i] = k * a64[i]
		}
	case "axis":
		b64[r.Intn(dim)] = genScale(r, false) * float64(1-2*r.Intn(2))
	default:
		b64 = gauss(r, dim, genScale(r, shape == "extreme"))
	}
	b = f32s(b64)
	if shape == "ulp" {
		for j := r.Range(1, 3); j > 0; j-- {
			i := r.Intn(dim)
			b[i] = math.Float32frombits(math.Float32bits(b[i]) + uint32(r.Range(1, 2)))
		}
	}
	for i := range b64 {
		b64[i] = float64(b[i])
	}
	// third point: independent | on the line through a and b (tight triangle) | copy of a | midpoint
	c64 := make([]float64, dim)
	switch r.Pick(4, 3, 1, 2) {
	case 0:
		c64 = gauss(r, dim, genScale(r, shape == "extreme"))
		if shape == "lattice" {
			for i := range c64 {
				c64[i] = float64(r.Range(-4, 4))
			}
		}
	case 1:
		k := float64(r.Range(2, 5))
		for i := range c64 {
			c64[i] = a64[i] + k*(b64[i]-a64[i])
		}
	case 2:
		copy(c64, a64)
	case 3:
		for i := range c64 {
			c64[i] = (a64[i] + b64[i]) / 2
		}
	}
	c = f32s(c64)
	if r.Bool() { // b is the middle point: d(a,c) ≈ d(a,b) + d(b,c)
		return a, b, c
	}
	return a, c, b
}

func genDim(r *core.Rand) int {
	switch r.Pick(3, 4, 2, 1) {
	case 0:
		return r.Range(1, 4)
	case 1:
		return r.Range(5, 64)
	case 2:
		return r.Range(65, 512)
	default:
		return []int{1, 2, 3, 128, 256, 384, 512}[r.Intn(7)]
	}
}

func genDist(r *core.Rand, tier string) *distCase {
	dim := genDim(r)
	shape := distShapes[r.Pick(5, 2, 2, 2, 3, 2, 1, 2, 1, 2, 1)]
	c := &distCase{Dim: dim, Shape: shape}
	a, b, cc := genTriple(r, dim, shape)
	A, B, C := core.Bits(a), core.Bits(b), core.Bits(cc)
	posScale := func() uint32 {
		switch r.Pick(3, 3, 1) {
		case 0:
			return math.Float32bits(float32(math.Pow(2, float64(r.Range(-12, 12)))))
		case 1:
			return math.Float32bits(float32(math.Pow(10, -3+6*r.Float64())))
		default:
			return math.Float32bits(1)
		}
	}
	anyScale := func() uint32 {
		switch r.Pick(4, 1, 1, 1) {
		case 0:
			return posScale()
		case 1:
			return math.Float32bits(-math.Float32frombits(posScale()))
		case 2:
			return 0
		default:
			return math.Float32bits(float32(r.Norm()))
		}
	}
	c.Cmds = append(c.Cmds, distCmd{Op: "calc", A: A, B: B})
	c.Cmds = append(c.Cmds, distCmd{Op: "tri", A: A, B: B, C: C})
	c.Cmds = append(c.Cmds, distCmd{Op: "cos", A: A, B: B, S: posScale(), T: posScale()})
	if r.Chance(0.5) {
		c.Cmds = append(c.Cmds, distCmd{Op: "calc", A: B, B: C})
	}
	if r.Chance(0.3) {
		c.Cmds = append(c.Cmds, distCmd{Op: "cos", A: C, B: A, S: posScale(), T: posScale()})
	}
	// batch: 0..6 queries drawn from the triple and fresh vectors
	{
		var qs [][]uint32
		for j := r.Pick(1, 2, 3, 3, 2, 1, 1); j > 0; j-- {
			switch r.Intn(4) {
			case 0:
				qs = append(qs, A)
			case 1:
				qs = append(qs, B)
			case 2:
				qs = append(qs, C)
			default:
				qs = append(qs, core.Bits(f32s(gauss(r, dim, genScale(r, false)))))
			}
		}
		c.Cmds = append(c.Cmds, distCmd{Op: "batch", Kind: metrics[r.Intn(3)], A: B, Qs: qs})
	}
	for _, k := range metrics {
		if k == "cosine" || r.Chance(0.4) {
			v := [][]uint32{A, B, C}[r.Intn(3)]
			c.Cmds = append(c.Cmds, distCmd{Op: "pre", Kind: k, A: v})
		}
	}
	c.Cmds = append(c.Cmds, distCmd{Op: "helpers", A: [][]uint32{A, B, C}[r.Intn(3)], S: anyScale()})
	if dim <= 4 && r.Chance(0.25) { // rare big batches around the sizes where an implementation might switch strategy
		nq := []int{255, 256, 257, 511, 512, 513, 514, 515, 1023, 1024, 1025, 1026, 2049, 4097}[r.Intn(14)]
		c.Cmds = append(c.Cmds, distCmd{Op: "batch", Kind: metrics[r.Intn(3)], A: B, NQ: nq, QSeed: r.U64()})
	}
	if r.Chance(0.35) { // one reused buffer, contents rewritten between the calls
		qs := [][]uint32{A, B, C}
		if r.Chance(0.4) {
			qs = append(qs, make([]uint32, dim)) // zeros
		}
		if r.Bool() {
			qs = append(qs, A)
		}
		perm := r.Perm(len(qs))
		var seq [][]uint32
		for _, i := range perm {
			seq = append(seq, qs[i])
		}
		c.Cmds = append(c.Cmds, distCmd{Op: "reuse", A: [][]uint32{A, B, C}[r.Intn(3)], Qs: seq})
	}
	if r.Chance(0.35) { // arguments are row views (cap > len) of one flat buffer
		c.Cmds = append(c.Cmds, distCmd{Op: "rows", Qs: [][]uint32{A, B, C}, S: posScale()})
	}
	if r.Chance(0.08) { // mismatched lengths: longer second argument is read partially, shorter panics
		short := append([]uint32(nil), B...)
		if r.Bool() || len(short) == 0 {
			short = append(short, math.Float32bits(1))
		} else {
			short = short[:len(short)-1]
		}
		c.Cmds = append(c.Cmds, distCmd{Op: "calcp", Kind: metrics[r.Intn(3)], A: A, B: short})
	}
	return c
}

var distMu sync.Mutex

func sameBits(a, b []float32) bool {
	if len(a) != len(b) {
		return false
	}
	for i := range a {
		if math.Float32bits(a[i]) != math.Float32bits(b[i]) {
			return false
		}
	}
	return true
}

func clone32(v []float32) []float32 { return append(make([]float32, 0, len(v)), v...) }

func b01(b bool) string {
	if b {
		return "1"
	}
	return "0"
}

func optVecHex(v []float32, err error) string {
	if err != nil {
		return "zero"
	}
	return core.VecHex(v)
}

func hexList(v []float32) string {
	if len(v) == 0 {
		return "-"
	}
	s := make([]string, len(v))
	for i, x := range v {
		s[i] = core.Hex32(x)
	}
	return strings.Join(s, ",")
}

func execDist(c *distCase) []string {
	lines := []string{fmt.Sprintf("begin dist %d %s", c.Dim, c.Shape)}
	dists := map[string]comet.Distance{}
	for _, k := range metrics {
		d, err := comet.NewDistance(comet.DistanceKind(k))
		if err != nil {
			return append(lines, "op panic NewDistance: "+err.Error(), "end")
		}
		dists[k] = d
	}
	cosD := dists["cosine"]
	for _, cmd := range c.Cmds {
		a0, b0, c0 := core.FromBits(cmd.A), core.FromBits(cmd.B), core.FromBits(cmd.C)
		switch cmd.Op {
		case "calc":
			a, b := clone32(a0), clone32(b0)
			var out []string
			for _, k := range metrics {
				d := dists[k]
				out = append(out, core.Hex32(d.Calculate(a, b)), core.Hex32(d.Calculate(b, a)), core.Hex32(d.Calculate(a, a)))
			}
			out = append(out, b01(sameBits(a, a0) && sameBits(b, b0)))
			lines = append(lines, fmt.Sprintf("op calc %s %s => %s", core.VecHex(a0), core.VecHex(b0), strings.Join(out, " ")))
		case "calcp":
			res := func() (s string) {
				defer func() {
					if recover() != nil {
						s = "panic"
					}
				}()
				return core.Hex32(dists[cmd.Kind].Calculate(clone32(a0), clone32(b0)))
			}()
			lines = append(lines, fmt.Sprintf("op calcp %s %s %s => %s", cmd.Kind, core.VecHex(a0), core.VecHex(b0), res))
		case "tri":
			d := dists["l2"]
			lines = append(lines, fmt.Sprintf("op tri %s %s %s => %s %s %s", core.VecHex(a0), core.VecHex(b0), core.VecHex(c0),
				core.Hex32(d.Calculate(a0, b0)), core.Hex32(d.Calculate(b0, c0)), core.Hex32(d.Calculate(a0, c0))))
		case "cos":
			a, b := clone32(a0), clone32(b0)
			s, t := math.Float32frombits(cmd.S), math.Float32frombits(cmd.T)
			sa, tb := comet.Scale(a, s), comet.Scale(b, t)
			sa0, tb0 := clone32(sa), clone32(tb)
			pa, ea := cosD.Preprocess(a)
			pb, eb := cosD.Preprocess(b)
			psa, esa := cosD.Preprocess(sa)
			ptb, etb := cosD.Preprocess(tb)
			dd := func(x []float32, ex error, y []float32, ey error) string {
				if ex != nil || ey != nil {
					return "-"
				}
				return core.Hex32(cosD.Calculate(x, y))
			}
			dab, dsab, datb, daa := dd(pa, ea, pb, eb), dd(psa, esa, pb, eb), dd(pa, ea, ptb, etb), dd(pa, ea, pa, ea)
			unch := sameBits(a, a0) && sameBits(b, b0) && sameBits(sa, sa0) && sameBits(tb, tb0)
			lines = append(lines, fmt.Sprintf("op cos %s %s %s %s => %s %s %s %s %s %s %s %s %s %s %s",
				core.VecHex(a0), core.VecHex(b0), core.Hex32(s), core.Hex32(t),
				core.VecHex(sa0), core.VecHex(tb0), optVecHex(pa, ea), optVecHex(pb, eb), optVecHex(psa, esa), optVecHex(ptb, etb),
				dab, dsab, datb, daa, b01(unch)))
		case "batch":
			t := clone32(a0)
			qbits := append([][]uint32(nil), cmd.Qs...)
			if cmd.NQ > 0 {
				qr := core.NewRand(cmd.QSeed, "dist-batch-queries")
				for i := 0; i < cmd.NQ; i++ {
					q := make([]float32, len(a0))
					for j := range q {
						q[j] = float32(qr.Norm())
					}
					qbits = append(qbits, core.Bits(q))
				}
			}
			qs := make([][]float32, len(qbits))
			var qh []string
			for i, q := range qbits {
				qs[i] = core.FromBits(q)
				qh = append(qh, core.VecHex(qs[i]))
			}
			d := dists[cmd.Kind]
			res := d.CalculateBatch(qs, t)
			el := make([]float32, len(qs))
			for i := range qs {
				el[i] = d.Calculate(qs[i], t)
			}
			unch := sameBits(t, a0)
			for i, q := range qbits {
				unch = unch && sameBits(qs[i], core.FromBits(q))
			}
			qstr := "-"
			if len(qh) > 0 {
				qstr = strings.Join(qh, ",")
			}
			lines = append(lines, fmt.Sprintf("op batch %s %s %s => %s %s %s", cmd.Kind, core.VecHex(a0), qstr, hexList(res), hexList(el), b01(unch)))
		case "reuse":
			// every function must depend only on the CURRENT contents of its arguments: one buffer,
			// rewritten in place between the calls (serialised: a process-wide cache would otherwise be
			// disturbed by the other workers and the case would not replay alone)
			func() {
				distMu.Lock()
				defer distMu.Unlock()
				w := clone32(a0)
				pw, ew := cosD.Preprocess(clone32(w))
				buf := make([]float32, len(a0))
				var steps, seq []string
				for _, qb := range cmd.Qs {
					v := core.FromBits(qb)
					if len(v) != len(buf) {
						continue
					}
					copy(buf, v)
					seq = append(seq, core.VecHex(v))
					p, ep := cosD.Preprocess(buf)
					dd := "-"
					if ep == nil && ew == nil {
						dd = core.Hex32(cosD.Calculate(p, pw))
					}
					nz := comet.Normalize(buf)
					nr := comet.Norm(buf)
					l2 := dists["l2"].Calculate(buf, w)
					bl := dists["l2"].CalculateBatch([][]float32{buf}, w)
					cb := cosD.CalculateBatch([][]float32{buf}, w)
					cc := cosD.Calculate(buf, w)
					unch := sameBits(buf, v) && sameBits(w, a0)
					steps = append(steps, strings.Join([]string{optVecHex(p, ep), dd, core.VecHex(nz), core.Hex32(nr), core.Hex32(l2), hexList(bl), core.Hex32(cc), hexList(cb), b01(unch)}, ";"))
				}
				// the same again through the in-place variants on one persistent buffer
				for _, qb := range cmd.Qs {
					v := core.FromBits(qb)
					if len(v) != len(buf) {
						continue
					}
					copy(buf, v)
					st := "ok"
					if e := cosD.PreprocessInPlace(buf); e != nil {
						st = "zero"
					}
					steps = append(steps, "inplace;"+st+";"+core.VecHex(buf))
				}
				lines = append(lines, fmt.Sprintf("op reuse %s %s => %s", core.VecHex(a0), strings.Join(seq, ","), strings.Join(steps, " ")))
			}()
		case "rows":
			// arguments are row views into one flat buffer (cap > len), sentinels before, between and
			// behind: nothing but a result may be written — not the argument, not the memory behind it
			{
				rows := from2(cmd.Qs)
				n := len(rows[0])
				const guard = 3
				sent := math.Float32frombits(0x4640e6b7) // 12345.679
				flat := make([]float32, 0, guard+len(rows)*(n+1)+2*n+guard)
				for i := 0; i < guard; i++ {
					flat = append(flat, sent)
				}
				offs := make([]int, len(rows))
				for i, rw := range rows {
					offs[i] = len(flat)
					flat = append(flat, rw...)
					flat = append(flat, sent) // one sentinel between rows
				}
				for i := 0; i < 2*n+guard; i++ { // spare capacity ≥ len behind the last row, filled with sentinels
					flat = append(flat, sent)
				}
				snap := clone32(flat)
				view := func(i int) []float32 { return flat[offs[i] : offs[i]+n] } // cap runs to the end of flat
				inside := func(x []float32) bool {
					if len(x) == 0 {
						return false
					}
					p := uintptr(unsafe.Pointer(&x[0]))
					lo := uintptr(unsafe.Pointer(&flat[0]))
					return p >= lo && p < lo+uintptr(len(flat))*4
				}
				intact, fresh := true, true
				chk := func() {
					if !sameBits(flat, snap) {
						intact = false
						copy(flat, snap)
					}
				}
				s := math.Float32frombits(cmd.S)
				var pres, nzs, scs []string
				for i := range rows {
					p, e := cosD.Preprocess(view(i))
					chk()
					pres = append(pres, optVecHex(p, e))
					if e == nil && inside(p) {
						fresh = false
					}
					nz := comet.Normalize(view(i))
					chk()
					nzs = append(nzs, core.VecHex(nz))
					sc := comet.Scale(view(i), s)
					chk()
					scs = append(scs, core.VecHex(sc))
					if inside(nz) || inside(sc) {
						fresh = false
					}
					_ = comet.Norm(view(i))
					chk()
				}
				vs := make([][]float32, len(rows))
				for i := range rows {
					vs[i] = view(i)
				}
				var bs []string
				for _, k := range metrics {
					bs = append(bs, hexList(dists[k].CalculateBatch(vs, view(0))))
					chk()
					_ = dists[k].Calculate(view(1%len(rows)), view(0))
					chk()
				}
				// in place on the middle row: only that row may change
				mid := len(rows) / 2
				st := "ok"
				if e := cosD.PreprocessInPlace(view(mid)); e != nil {
					st = "zero"
				}
				after := clone32(view(mid))
				copy(view(mid), snap[offs[mid]:offs[mid]+n])
				onlyRow := sameBits(flat, snap)
				copy(flat, snap)
				comet.NormalizeInPlace(view(mid))
				after2 := clone32(view(mid))
				copy(view(mid), snap[offs[mid]:offs[mid]+n])
				onlyRow = onlyRow && sameBits(flat, snap)
				lines = append(lines, fmt.Sprintf("op rows %s %s => %s %s %s %s %s %s %s %s %s %s", vecsHex(rows), core.Hex32(s),
					strings.Join(pres, ","), strings.Join(nzs, ","), strings.Join(scs, ","), strings.Join(bs, ";"),
					st, core.VecHex(after), core.VecHex(after2), b01(intact), b01(fresh), b01(onlyRow)))
			}
		case "pre":
			d := dists[cmd.Kind]
			a := clone32(a0)
			out, err := d.Preprocess(a)
			alias := err == nil && len(out) > 0 && len(a) > 0 && &out[0] == &a[0]
			unch := sameBits(a, a0)
			outHex := optVecHex(out, err)
			buf := clone32(a0)
			st := "ok"
			if e := d.PreprocessInPlace(buf); e != nil {
				st = "zero"
			}
			lines = append(lines, fmt.Sprintf("op pre %s %s => %s %s %s %s %s", cmd.Kind, core.VecHex(a0), outHex, b01(alias), b01(unch), st, core.VecHex(buf)))
		case "helpers":
			a := clone32(a0)
			s := math.Float32frombits(cmd.S)
			nrm := comet.Norm(a)
			sc := comet.Scale(a, s)
			nz := comet.Normalize(a)
			unch := sameBits(a, a0)
			if len(a) > 0 && ((len(sc) > 0 && &sc[0] == &a[0]) || (len(nz) > 0 && &nz[0] == &a[0])) {
				unch = false // a result aliases the argument
			}
			buf := clone32(a0)
			comet.NormalizeInPlace(buf)
			lines = append(lines, fmt.Sprintf("op helpers %s %s => %s %s %s %s %s", core.VecHex(a0), core.Hex32(s),
				core.Hex32(nrm), core.VecHex(sc), core.VecHex(nz), core.VecHex(buf), b01(unch)))
		}
	}
	return append(lines, "end")
}

func nonTrivialDist(lines, replies []string) bool {
	laws := 0
	for i, l := range lines {
		if i >= len(replies) || !strings.HasPrefix(replies[i], "ok ") {
			continue
		}
		if strings.HasPrefix(l, "op calc ") || strings.HasPrefix(l, "op cos ") || strings.HasPrefix(l, "op tri ") {
			m := kv(replies[i])
			if m["oor"] == 0 && m["n"] > 0 {
				laws++
			}
		}
	}
	return laws >= 2
}

func init() {
	register(&core.Typed[distCase]{
		StreamName: "dist", Prop: "C18",
		RuleText: "pairs/triples of dimension 1..512 (shapes: random, equal, opposite, orthogonal, nearly parallel 1e-4..1e-7, 1-2 ulp apart, zero, integer lattice, power-of-two / decimal scaled copies, axis vectors, collinear third points; magnitudes 1e-6..1e6 and components spread over 5 decades; ~5% extreme magnitudes 1e19..1e25 / 1e-30..1e-25 compared bit-for-bit only) through Calculate (3 kinds, both argument orders, self), CalculateBatch (0..6 queries), Preprocess, PreprocessInPlace, Norm, Scale, Normalize, NormalizeInPlace and mismatched lengths; rare big batches (255..4097 queries, also as a corpus case), one reused buffer rewritten in place between calls of every function, arguments passed as row views (cap > len) of a flat buffer with sentinels whose memory must stay intact; a case is non-trivial when at least two law evaluations ran on in-range vectors; distinct = distinct request streams",
		NCases: func(tier string) int {
			if tier == "thorough" {
				return 80000
			}
			return 6000
		},
		GenF:  genDist,
		ExecF: execDist,
		LenF:  func(c *distCase) int { return len(c.Cmds) },
		DropF: func(c *distCase, lo, hi int) *distCase {
			n := &distCase{Dim: c.Dim, Shape: c.Shape}
			n.Cmds = append(n.Cmds, c.Cmds[:lo]...)
			n.Cmds = append(n.Cmds, c.Cmds[hi:]...)
			return n
		},
		NonTrivialF: nonTrivialDist,
	})
}
