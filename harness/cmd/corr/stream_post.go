package main

// Stream "post" (C19): result post-processing. One case = one result list (ids with
// duplicates, float32 scores), one pair of score maps, k, cut-off, fusion parameters;
// every public post-processing function is called on them and the Lean driver judges
// each answer (Comet/Driver/Post.lean). Inputs are compared before / after every call
// (non-mutation); a panic is caught and reported as a failing input.

import (
	"fmt"
	"math"
	"sort"
	"strings"
	"sync"

	comet "github.com/wizenheimer/comet"
	"verifharness/internal/core"
)

type postHit struct {
	ID uint32 `json:"id"`
	S  uint32 `json:"s"` // float32 bits
}

type postEnt struct {
	ID uint32 `json:"id"`
	S  uint64 `json:"s"` // float64 bits
}

type postCase struct {
	Hits     []postHit `json:"hits"`
	V        []postEnt `json:"v"`
	T        []postEnt `json:"t"`
	K        int       `json:"k"`
	Cut      int       `json:"cut"`
	PermSeed uint64    `json:"perm_seed"`
	WV       uint64    `json:"wv"`
	WT       uint64    `json:"wt"`
	KK       uint64    `json:"kk"` // RRF constant, > 0
	// Len2Sweep: additionally call Autocut on every ordered pair of special float32
	// values (NaN, ±Inf, ±0, denormals, ±1e30, ±1) — the length-2 case whose
	// `diff[i-2]` read is guarded only by float arithmetic.
	Len2Sweep bool `json:"len2_sweep,omitempty"`
	// CustomCfg: first obtain DefaultFusionConfig(), set its fields to (CWV, CWT, CKK) — the
	// idiomatic way to build a customised fusion — combine with fusions built from it, and THEN
	// evaluate DefaultFusion(), NewFusion(kind, nil) and DefaultFusionConfig() again: the
	// defaults must still be 1, 1 and K = 60 (no state left over from the earlier calls).
	CustomCfg bool   `json:"custom_cfg,omitempty"`
	CWV       uint64 `json:"cwv,omitempty"`
	CWT       uint64 `json:"cwt,omitempty"`
	CKK       uint64 `json:"ckk,omitempty"`
	// Reuse: ONE fusion object per kind, built from one *FusionConfig, is kept alive over these
	// steps; before each step the caller edits that config (weights, K up and down) and the
	// input maps grow / shrink (prefixes of V and T), so ranks not seen before appear. Every
	// Combine is judged against the config values current at that call: the code reads
	// f.config on every Combine, so an edit after construction is effective.
	Reuse []postStep `json:"reuse,omitempty"`
}

type postStep struct {
	WV uint64 `json:"wv"`
	WT uint64 `json:"wt"`
	KK uint64 `json:"kk"` // > 0
	NV int    `json:"nv"` // Combine sees V[:min(NV, len(V))]
	NT int    `json:"nt"`
}

// postDefaultMu keeps the "customise a default config, then use the defaults" sequence of one
// case apart from the default-configured fusions of the cases running on other workers, so
// that a failing case is reproducible on its own (replay) even if the implementation shares
// state between configurations.
var postDefaultMu sync.RWMutex

// ---------------------------------------------------------------- generators

var special32 = []float32{float32(math.NaN()), float32(math.Inf(1)), float32(math.Inf(-1)), 0,
	float32(math.Copysign(0, -1)), 1e-45, -1e-45, 1e30, -1e30, 1, -1}

func genLen(r *core.Rand, maxN int) int {
	switch r.Pick(2, 2, 3, 6, 4, 3) {
	case 0:
		return 0
	case 1:
		return 1
	case 2:
		return 2
	case 3:
		return r.Range(3, 12)
	case 4:
		return r.Range(13, 60)
	default:
		return r.Range(61, maxN)
	}
}

func genHits(r *core.Rand, tier string) []postHit {
	maxN := 300
	n := genLen(r, maxN)
	mode := r.Pick(4, 3, 4, 2, 2)
	// id universe: small = many duplicates, large = mostly distinct
	var idRange int
	switch r.Pick(3, 2, 2) {
	case 0:
		idRange = max(1, n/4)
	case 1:
		idRange = max(1, n)
	default:
		idRange = 4*n + 1
	}
	base := uint32(r.Intn(5))
	if r.Chance(0.05) {
		base = math.MaxUint32 - uint32(idRange) - 1
	}
	scale := float32(math.Pow(10, float64(r.Range(-3, 4))))
	hits := make([]postHit, n)
	acc := float32(r.Norm()) * scale
	eq := float32(r.Range(-2, 3))
	if r.Chance(0.3) {
		eq = special32[r.Intn(len(special32))]
	}
	for i := range hits {
		var s float32
		switch mode {
		case 0: // random
			s = float32(r.Norm()) * scale
		case 1: // lattice: many exact ties
			s = float32(r.Range(-2, 3))
		case 2: // ascending with knees (what autocut looks for)
			step := float32(r.Float64()) * scale * 0.1
			if r.Chance(0.12) {
				step = float32(1+r.Float64()*5) * scale
			}
			if r.Chance(0.1) {
				step = 0
			}
			acc += step
			s = acc
		case 3: // all equal
			s = eq
		case 4: // specials mixed into random data
			if r.Chance(0.35) {
				s = special32[r.Intn(len(special32))]
			} else {
				s = float32(r.Norm()) * scale
			}
		}
		hits[i] = postHit{ID: base + uint32(r.Intn(idRange)), S: math.Float32bits(s)}
	}
	if mode == 2 && r.Chance(0.3) { // descending variant (text scores)
		for i, j := 0, len(hits)-1; i < j; i, j = i+1, j-1 {
			hits[i].S, hits[j].S = hits[j].S, hits[i].S
		}
	}
	return hits
}

func genInt(r *core.Rand, n int) int {
	switch r.Pick(3, 4, 2, 2, 1) {
	case 0:
		return r.Range(-5, 0)
	case 1:
		return r.Range(1, max(1, n))
	case 2:
		return n + r.Range(0, 3)
	case 3:
		return r.Range(1, 4)
	default:
		return []int{math.MinInt64, math.MaxInt64, -1 << 40, 1 << 40, math.MinInt32, math.MaxInt32}[r.Intn(6)]
	}
}

func genCut(r *core.Rand, n int) int {
	switch r.Pick(3, 5, 3, 2, 1) {
	case 0:
		return -1
	case 1:
		return 1
	case 2:
		return r.Range(2, 5)
	case 3:
		return r.Range(-4, 0)
	default:
		return []int{math.MinInt64, math.MaxInt64, n, n + 1, -1 << 33}[r.Intn(5)]
	}
}

var special64 = []float64{math.NaN(), math.Inf(1), math.Inf(-1), 0, math.Copysign(0, -1), 5e-324, 1e300, -1e300}

// genMaps draws a pair of score maps: key relation (disjoint / nested / equal / random
// overlap / empty) × score shape (distinct / lattice with ties / all equal / specials).
func genMaps(r *core.Rand) (v, t []postEnt) {
	shape := r.Pick(6, 3, 2, 2)
	var maxN int
	switch shape {
	case 0:
		maxN = 150
		if r.Chance(0.7) {
			maxN = 20
		}
	case 1:
		maxN = 12
	case 2:
		maxN = 8
	default:
		maxN = 6
	}
	nv, nt := r.Intn(maxN+1), r.Intn(maxN+1)
	score := func() uint64 {
		switch shape {
		case 0:
			return math.Float64bits(r.Norm() * math.Pow(10, float64(r.Range(-2, 3))))
		case 1:
			return math.Float64bits(float64(r.Range(0, 3)) * 0.5)
		case 2:
			return math.Float64bits(0.75)
		default:
			if r.Chance(0.4) {
				return math.Float64bits(special64[r.Intn(len(special64))])
			}
			return math.Float64bits(r.Norm())
		}
	}
	ids := r.Perm(nv + nt + 3)
	mk := func(keys []int) []postEnt {
		out := make([]postEnt, len(keys))
		for i, k := range keys {
			out[i] = postEnt{ID: uint32(k + 1), S: score()}
		}
		return out
	}
	switch r.Pick(2, 3, 2, 4, 1) {
	case 0: // disjoint
		v, t = mk(ids[:nv]), mk(ids[nv:nv+nt])
	case 1: // nested
		if nv < nt {
			nv, nt = nt, nv
		}
		big, small := mk(ids[:nv]), mk(ids[:nt])
		r2 := r.Perm(nv)
		for i := range small { // a random subset of the big map's keys
			small[i].ID = big[r2[i]].ID
		}
		if r.Bool() {
			v, t = big, small
		} else {
			v, t = small, big
		}
	case 2: // equal key sets
		v, t = mk(ids[:nv]), mk(ids[:nv])
		p := r.Perm(nv)
		for i := range t {
			t[i].ID = v[p[i]].ID
		}
	case 3: // random overlap
		ov := r.Intn(min(nv, nt) + 1)
		v = mk(ids[:nv])
		t = mk(append(append([]int{}, ids[:ov]...), ids[nv:nv+nt-ov]...))
	case 4: // one side empty
		if r.Bool() {
			v, t = mk(ids[:nv]), nil
		} else {
			v, t = nil, mk(ids[:nt])
		}
	}
	return
}

func genWeight(r *core.Rand) uint64 {
	switch r.Pick(4, 2, 2, 3, 1) {
	case 0:
		return math.Float64bits(1)
	case 1:
		return math.Float64bits([]float64{0, 0.5, 2, 0.3, 0.7}[r.Intn(5)])
	case 2:
		return math.Float64bits(-float64(r.Range(1, 3)))
	case 3:
		return math.Float64bits(r.Norm() * 3)
	default:
		return math.Float64bits([]float64{1e10, 1e-10, math.Inf(1), math.NaN()}[r.Intn(4)])
	}
}

func genRRFK(r *core.Rand) uint64 {
	switch r.Pick(4, 3, 2, 1) {
	case 0:
		return math.Float64bits(60)
	case 1:
		return math.Float64bits([]float64{1, 0.5, 2, 10, 1000}[r.Intn(5)])
	case 2:
		return math.Float64bits(math.Abs(r.Norm())*100 + 1e-6)
	default:
		return math.Float64bits([]float64{1e-9, 1e12, 1e18, 5e-324, math.Inf(1)}[r.Intn(5)])
	}
}

func genPost(r *core.Rand, tier string) *postCase {
	c := &postCase{Hits: genHits(r, tier)}
	c.V, c.T = genMaps(r)
	c.K = genInt(r, len(c.Hits))
	c.Cut = genCut(r, len(c.Hits))
	c.PermSeed = r.U64()
	c.WV, c.WT, c.KK = genWeight(r), genWeight(r), genRRFK(r)
	c.Len2Sweep = r.Chance(0.04)
	if r.Chance(0.25) {
		nv, nt := len(c.V), len(c.T)
		grow := r.Bool()
		steps := r.Range(2, 5)
		for i := 0; i < steps; i++ {
			st := postStep{WV: genWeight(r), WT: genWeight(r), KK: genRRFK(r)}
			if i > 0 && r.Chance(0.3) { // same K, other inputs
				st.KK = c.Reuse[i-1].KK
			}
			switch r.Pick(3, 2, 1) {
			case 0: // monotone: growing (new ranks appear) or shrinking maps
				f := float64(i+1) / float64(steps)
				if !grow {
					f = 1 - float64(i)/float64(steps)
				}
				st.NV, st.NT = int(f*float64(nv)+0.5), int(f*float64(nt)+0.5)
			case 1:
				st.NV, st.NT = r.Intn(nv+1), r.Intn(nt+1)
			default:
				st.NV, st.NT = nv, nt
			}
			c.Reuse = append(c.Reuse, st)
		}
	}
	if r.Chance(0.2) {
		c.CustomCfg = true
		c.CWV, c.CWT, c.CKK = genWeight(r), genWeight(r), genRRFK(r)
		if c.CWV == math.Float64bits(1) && c.CWT == math.Float64bits(1) {
			c.CWV = math.Float64bits(0.25)
		}
		if c.CKK == math.Float64bits(60) {
			c.CKK = math.Float64bits(1)
		}
	}
	return c
}

// ---------------------------------------------------------------- execution

func hitTok(id uint32, s float32) string { return fmt.Sprintf("%d:%s", id, core.Hex32(s)) }
func entTok(id uint32, s float64) string { return fmt.Sprintf("%d:%s", id, core.Hex64(s)) }

func join(toks []string) string {
	if len(toks) == 0 {
		return ""
	}
	return " " + strings.Join(toks, " ")
}

func vecToks(rs []comet.VectorResult) []string {
	o := make([]string, len(rs))
	for i, x := range rs {
		o[i] = hitTok(x.GetId(), x.GetScore())
	}
	return o
}

func textToks(rs []comet.TextResult) []string {
	o := make([]string, len(rs))
	for i, x := range rs {
		o[i] = hitTok(x.GetId(), x.GetScore())
	}
	return o
}

func mkVec(hs []postHit) []comet.VectorResult {
	o := make([]comet.VectorResult, len(hs))
	for i, h := range hs {
		o[i] = comet.VectorResult{Node: *comet.NewVectorNodeWithID(h.ID, nil), Score: math.Float32frombits(h.S)}
	}
	return o
}

func mkText(hs []postHit) []comet.TextResult {
	o := make([]comet.TextResult, len(hs))
	for i, h := range hs {
		o[i] = comet.TextResult{Id: h.ID, Score: math.Float32frombits(h.S)}
	}
	return o
}

func sameVec(rs []comet.VectorResult, hs []postHit) bool {
	if len(rs) != len(hs) {
		return false
	}
	for i := range rs {
		if rs[i].GetId() != hs[i].ID || math.Float32bits(rs[i].Score) != hs[i].S {
			return false
		}
	}
	return true
}

func sameText(rs []comet.TextResult, hs []postHit) bool {
	if len(rs) != len(hs) {
		return false
	}
	for i := range rs {
		if rs[i].Id != hs[i].ID || math.Float32bits(rs[i].Score) != hs[i].S {
			return false
		}
	}
	return true
}

func mkMap(es []postEnt) map[uint32]float64 {
	m := make(map[uint32]float64, len(es))
	for _, e := range es {
		m[e.ID] = math.Float64frombits(e.S)
	}
	return m
}

func sameMap(m map[uint32]float64, es []postEnt) bool {
	if len(m) != len(es) {
		return false
	}
	for _, e := range es {
		x, ok := m[e.ID]
		if !ok || math.Float64bits(x) != e.S {
			return false
		}
	}
	return true
}

func entToks(es []postEnt) []string {
	o := make([]string, len(es))
	for i, e := range es {
		o[i] = fmt.Sprintf("%d:%016x", e.ID, e.S)
	}
	return o
}

func mapToks(m map[uint32]float64) []string {
	ids := make([]uint32, 0, len(m))
	for id := range m {
		ids = append(ids, id)
	}
	sort.Slice(ids, func(i, j int) bool { return ids[i] < ids[j] })
	o := make([]string, len(ids))
	for i, id := range ids {
		o[i] = entTok(id, m[id])
	}
	return o
}

func mutTok(same bool) string {
	if same {
		return "mut=0"
	}
	return "mut=1"
}

// guarded runs f; a panic becomes an `op panic` line (class PANIC, shrunk like any failure).
func guarded(lines *[]string, what string, f func() string) {
	defer func() {
		if r := recover(); r != nil {
			*lines = append(*lines, fmt.Sprintf("op panic %s : %v", what, r))
		}
	}()
	*lines = append(*lines, f())
}

func permuted(hs []postHit, seed uint64) []postHit {
	p := core.NewRand(seed, "perm").Perm(len(hs))
	o := make([]postHit, len(hs))
	for i, j := range p {
		o[i] = hs[j]
	}
	return o
}

func hitToks(hs []postHit) []string {
	o := make([]string, len(hs))
	for i, h := range hs {
		o[i] = fmt.Sprintf("%d:%08x", h.ID, h.S)
	}
	return o
}

func execPost(c *postCase) []string {
	lines := []string{"begin post"}
	A := c.Hits
	B := permuted(A, c.PermSeed)
	aT, bT := join(hitToks(A)), join(hitToks(B))

	// --- aggregation (3 kinds × 2 modalities), each on A and on a permutation of A
	for _, kind := range []string{"sum", "max", "mean"} {
		kind := kind
		guarded(&lines, "agg vec "+kind+aT, func() string {
			agg, err := comet.NewVectorAggregation(comet.ScoreAggregationKind(kind))
			if err != nil {
				panic(err)
			}
			if kind == "sum" && c.PermSeed%4 == 1 {
				agg = comet.DefaultVectorAggregation()
			}
			if string(agg.Kind()) != kind {
				panic("aggregation kind " + string(agg.Kind()))
			}
			ia, ib := mkVec(A), mkVec(B)
			oa := agg.Aggregate(ia)
			ta := join(vecToks(oa)) // rendered before the second call (singletons, shared state)
			ob := agg.Aggregate(ib)
			return fmt.Sprintf("op agg vec %s%s /%s => %s /%s /%s", kind, aT, bT,
				mutTok(sameVec(ia, A) && sameVec(ib, B)), ta, join(vecToks(ob)))
		})
		guarded(&lines, "agg text "+kind+aT, func() string {
			agg, err := comet.NewTextAggregation(comet.ScoreAggregationKind(kind))
			if err != nil {
				panic(err)
			}
			if kind == "sum" && c.PermSeed%4 == 1 {
				agg = comet.DefaultTextAggregation()
			}
			if string(agg.Kind()) != kind {
				panic("aggregation kind " + string(agg.Kind()))
			}
			ia, ib := mkText(A), mkText(B)
			oa := agg.Aggregate(ia)
			ta := join(textToks(oa))
			ob := agg.Aggregate(ib)
			return fmt.Sprintf("op agg text %s%s /%s => %s /%s /%s", kind, aT, bT,
				mutTok(sameText(ia, A) && sameText(ib, B)), ta, join(textToks(ob)))
		})
	}

	// --- limiting
	guarded(&lines, fmt.Sprintf("limit vec %d%s", c.K, aT), func() string {
		in := mkVec(A)
		out := comet.LimitResults(in, c.K)
		return fmt.Sprintf("op limit vec %d%s => %s /%s", c.K, aT, mutTok(sameVec(in, A)), join(vecToks(out)))
	})
	guarded(&lines, fmt.Sprintf("limit text %d%s", c.K, aT), func() string {
		in := mkText(A)
		out := comet.LimitResults(in, c.K)
		return fmt.Sprintf("op limit text %d%s => %s /%s", c.K, aT, mutTok(sameText(in, A)), join(textToks(out)))
	})
	guarded(&lines, fmt.Sprintf("sanitize %d %d", c.K, len(A)), func() string {
		return fmt.Sprintf("op sanitize %d %d => %d", c.K, len(A), comet.VerifSanitizeK(c.K, len(A)))
	})

	// --- autocut
	scoreToks := make([]string, len(A))
	for i, h := range A {
		scoreToks[i] = fmt.Sprintf("%08x", h.S)
	}
	sT := join(scoreToks)
	guarded(&lines, fmt.Sprintf("autocut %d%s", c.Cut, sT), func() string {
		in := make([]float32, len(A))
		for i, h := range A {
			in[i] = math.Float32frombits(h.S)
		}
		r := comet.Autocut(in, c.Cut)
		same := true
		for i, h := range A {
			same = same && math.Float32bits(in[i]) == h.S
		}
		return fmt.Sprintf("op autocut %d%s => %s %d", c.Cut, sT, mutTok(same), r)
	})
	// every adjacent pair of the list as a length-2 input (the delicate length)
	autocutPair := func(a, b uint32, cut int) {
		guarded(&lines, fmt.Sprintf("autocut %d %08x %08x", cut, a, b), func() string {
			r := comet.Autocut([]float32{math.Float32frombits(a), math.Float32frombits(b)}, cut)
			return fmt.Sprintf("op autocut %d %08x %08x => mut=0 %d", cut, a, b, r)
		})
	}
	for j := 0; j+1 < len(A) && j < 4; j++ {
		autocutPair(A[j].S, A[j+1].S, c.Cut)
	}
	if c.Len2Sweep {
		for _, x := range special32 {
			for _, y := range special32 {
				autocutPair(math.Float32bits(x), math.Float32bits(y), []int{1, 0, 2, -1}[(len(lines))%4])
			}
		}
	}
	guarded(&lines, fmt.Sprintf("autocutres vec %d%s", c.Cut, aT), func() string {
		in := mkVec(A)
		out := comet.AutocutResults(in, c.Cut)
		return fmt.Sprintf("op autocutres vec %d%s => %s /%s", c.Cut, aT, mutTok(sameVec(in, A)), join(vecToks(out)))
	})
	guarded(&lines, fmt.Sprintf("autocutres text %d%s", c.Cut, aT), func() string {
		in := mkText(A)
		out := comet.AutocutResults(in, c.Cut)
		return fmt.Sprintf("op autocutres text %d%s => %s /%s", c.Cut, aT, mutTok(sameText(in, A)), join(textToks(out)))
	})

	// --- merging store results (scores widened to float64)
	H := make([]postEnt, len(A))
	for i, h := range A {
		H[i] = postEnt{ID: h.ID, S: math.Float64bits(float64(math.Float32frombits(h.S)))}
	}
	hT := join(entToks(H))
	for _, sorted := range []int{0, 1} {
		sorted := sorted
		guarded(&lines, fmt.Sprintf("merge %d%s", sorted, hT), func() string {
			in := make([]comet.HybridSearchResult, len(H))
			for i, e := range H {
				in[i] = comet.HybridSearchResult{ID: e.ID, Score: math.Float64frombits(e.S)}
			}
			out := comet.VerifMergeResults(in, sorted == 1)
			same := true
			for i, e := range H {
				same = same && in[i].ID == e.ID && math.Float64bits(in[i].Score) == e.S
			}
			toks := make([]string, len(out))
			for i, x := range out {
				toks[i] = entTok(x.ID, x.Score)
			}
			nilTok := "ok"
			if out == nil {
				nilTok = "nil"
			}
			return fmt.Sprintf("op merge %d%s => %s %s /%s", sorted, hT, mutTok(same), nilTok, join(toks))
		})
	}

	// --- fusion
	vT, tT := join(entToks(c.V)), join(entToks(c.T))
	one, sixty := math.Float64bits(1), math.Float64bits(60)
	combineLine := func(name string, wv, wt, kk uint64, mk func() (comet.Fusion, error)) {
		head := fmt.Sprintf("fuse %s %016x %016x %016x%s /%s", name, wv, wt, kk, vT, tT)
		guarded(&lines, head, func() string {
			f, err := mk()
			if err != nil {
				panic(err)
			}
			vm, tm := mkMap(c.V), mkMap(c.T)
			out := f.Combine(vm, tm)
			return fmt.Sprintf("op %s => %s /%s", head, mutTok(sameMap(vm, c.V) && sameMap(tm, c.T)), join(mapToks(out)))
		})
	}
	defaultsLine := func(when string) {
		guarded(&lines, "defaults "+when, func() string {
			d := comet.DefaultFusionConfig()
			return fmt.Sprintf("op defaults %s => %016x %016x %016x", when,
				math.Float64bits(d.VectorWeight), math.Float64bits(d.TextWeight), math.Float64bits(d.K))
		})
	}
	if c.CustomCfg {
		postDefaultMu.Lock()
		func() {
			defer postDefaultMu.Unlock()
			defaultsLine("before")
			// step 1: customise a config obtained from DefaultFusionConfig() and use it
			custom := comet.DefaultFusionConfig()
			custom.VectorWeight = math.Float64frombits(c.CWV)
			custom.TextWeight = math.Float64frombits(c.CWT)
			custom.K = math.Float64frombits(c.CKK)
			// a tidy caller's reset; on a private struct (the code as it is) it changes nothing else
			defer func() { custom.VectorWeight, custom.TextWeight, custom.K = 1, 1, 60 }()
			combineLine("wsum", c.CWV, c.CWT, c.CKK, func() (comet.Fusion, error) { return comet.NewFusion(comet.WeightedSumFusion, custom) })
			combineLine("rrf", c.CWV, c.CWT, c.CKK, func() (comet.Fusion, error) { return comet.NewFusion(comet.ReciprocalRankFusion, custom) })
			// step 2: every default-configured fusion still uses 1, 1 and K = 60
			combineLine("wsum", one, one, sixty, func() (comet.Fusion, error) { return comet.DefaultFusion(), nil })
			combineLine("wsum", one, one, sixty, func() (comet.Fusion, error) { return comet.NewFusion(comet.WeightedSumFusion, nil) })
			combineLine("rrf", one, one, sixty, func() (comet.Fusion, error) { return comet.NewFusion(comet.ReciprocalRankFusion, nil) })
			defaultsLine("after")
		}()
	}
	if len(c.Reuse) > 0 {
		// one config, one fusion object per kind, alive over all steps of the case
		shared := &comet.FusionConfig{VectorWeight: 1, TextWeight: 1, K: 60}
		kinds := [][2]string{{"wsum", "weighted_sum"}, {"rrf", "reciprocal_rank"}, {"max", "max"}, {"min", "min"}}
		objs := make([]comet.Fusion, len(kinds))
		guarded(&lines, "reuse constructors", func() string {
			for i, fk := range kinds {
				f, err := comet.NewFusion(comet.FusionKind(fk[1]), shared)
				if err != nil {
					panic(err)
				}
				objs[i] = f
			}
			return "op glue reuse => ok"
		})
		for _, st := range c.Reuse {
			st := st
			// the caller edits the config the fusions were built from …
			shared.VectorWeight = math.Float64frombits(st.WV)
			shared.TextWeight = math.Float64frombits(st.WT)
			shared.K = math.Float64frombits(st.KK)
			V, T := c.V[:min(max(st.NV, 0), len(c.V))], c.T[:min(max(st.NT, 0), len(c.T))]
			svT, stT := join(entToks(V)), join(entToks(T))
			for i, fk := range kinds {
				i, fk := i, fk
				if objs[i] == nil {
					continue
				}
				// … and every call is judged against the values current at that call
				head := fmt.Sprintf("fuse %s %016x %016x %016x%s /%s", fk[0], st.WV, st.WT, st.KK, svT, stT)
				guarded(&lines, head, func() string {
					vm, tm := mkMap(V), mkMap(T)
					out := objs[i].Combine(vm, tm)
					return fmt.Sprintf("op %s => %s /%s", head, mutTok(sameMap(vm, V) && sameMap(tm, T)), join(mapToks(out)))
				})
			}
		}
	}
	postDefaultMu.RLock()
	defer postDefaultMu.RUnlock()
	defaults := c.WV == one && c.WT == one && c.KK == sixty
	cfg := func() *comet.FusionConfig {
		if defaults && c.PermSeed%2 == 0 {
			return nil // NewFusion substitutes DefaultFusionConfig: weights 1, 1 and K = 60
		}
		return &comet.FusionConfig{VectorWeight: math.Float64frombits(c.WV), TextWeight: math.Float64frombits(c.WT),
			K: math.Float64frombits(c.KK)}
	}
	for _, fk := range [][2]string{{"wsum", "weighted_sum"}, {"max", "max"}, {"min", "min"}, {"rrf", "reciprocal_rank"}} {
		fk := fk
		head := fmt.Sprintf("fuse %s %016x %016x %016x%s /%s", fk[0], c.WV, c.WT, c.KK, vT, tT)
		guarded(&lines, head, func() string {
			f, err := comet.NewFusion(comet.FusionKind(fk[1]), cfg())
			if err != nil {
				panic(err)
			}
			if fk[0] == "wsum" && defaults && c.PermSeed%4 == 1 {
				f = comet.DefaultFusion()
			}
			if string(f.Kind()) != fk[1] {
				panic("fusion kind " + string(f.Kind()))
			}
			vm, tm := mkMap(c.V), mkMap(c.T)
			out := f.Combine(vm, tm)
			return fmt.Sprintf("op %s => %s /%s", head, mutTok(sameMap(vm, c.V) && sameMap(tm, c.T)), join(mapToks(out)))
		})
	}

	// --- score map → ranks: on both fusion maps and on the (deduplicated) result list,
	//     which brings long maps with large tie blocks, NaN and ±Inf
	var HM []postEnt
	seen := map[uint32]bool{}
	for _, e := range H {
		if !seen[e.ID] {
			seen[e.ID] = true
			HM = append(HM, e)
		}
	}
	for _, rk := range []struct {
		dir string
		m   []postEnt
	}{{"asc", c.V}, {"desc", c.T}, {"asc", HM}, {"desc", HM}} {
		rk := rk
		mT := join(entToks(rk.m))
		guarded(&lines, fmt.Sprintf("ranks %s%s", rk.dir, mT), func() string {
			in := mkMap(rk.m)
			ranks := comet.VerifScoreMapToRanks(in, rk.dir == "asc")
			ids := make([]uint32, 0, len(ranks))
			for id := range ranks {
				ids = append(ids, id)
			}
			sort.Slice(ids, func(i, j int) bool { return ids[i] < ids[j] })
			toks := make([]string, len(ids))
			for i, id := range ids {
				toks[i] = fmt.Sprintf("%d:%d", id, ranks[id])
			}
			return fmt.Sprintf("op ranks %s%s => %s /%s", rk.dir, mT, mutTok(sameMap(in, rk.m)), join(toks))
		})
	}
	// --- error paths of the constructors
	guarded(&lines, "glue", func() string {
		e := func(err error) string {
			if err != nil {
				return "err"
			}
			return "ok"
		}
		_, e1 := comet.NewVectorAggregation("bogus")
		_, e2 := comet.NewTextAggregation("")
		_, e3 := comet.NewFusion("bogus", nil)
		d := comet.DefaultFusionConfig()
		return fmt.Sprintf("op glue => %s %s %s %016x %016x %016x", e(e1), e(e2), e(e3),
			math.Float64bits(d.VectorWeight), math.Float64bits(d.TextWeight), math.Float64bits(d.K))
	})
	return append(lines, "end")
}

func nonTrivialPost(lines, replies []string) bool {
	dups, overlap, cut, trunc := false, false, false, false
	for i, l := range lines {
		if i >= len(replies) || !strings.HasPrefix(replies[i], "ok") {
			continue
		}
		m := kv(replies[i])
		switch {
		case strings.HasPrefix(l, "op agg"), strings.HasPrefix(l, "op merge"):
			dups = dups || (m["dups"] == 1 && m["many"] == 1)
		case strings.HasPrefix(l, "op fuse"):
			overlap = overlap || (m["overlap"] == 1 && m["onlyone"] == 1)
		case strings.HasPrefix(l, "op autocut"):
			cut = cut || m["cut"] == 1
		case strings.HasPrefix(l, "op limit"):
			trunc = trunc || m["trunc"] == 1
		}
	}
	n := 0
	for _, b := range []bool{dups, overlap, cut, trunc} {
		if b {
			n++
		}
	}
	return n >= 2
}

func init() {
	register(&core.Typed[postCase]{
		StreamName: "post", Prop: "C19",
		RuleText: "one case = a result list (0..300 entries; duplicate ids; random / lattice-with-ties / ascending-with-knees / all-equal / NaN,±Inf,±0,denormal,1e30 scores) + a pair of score maps (disjoint / nested / equal keys / random overlap / empty; distinct / tied / all-equal / special scores) + k, cut-off in Z (incl. ±2^63) + weights + K>0; in 1 case of 5 a config obtained from DefaultFusionConfig() is customised and used first, then DefaultFusion(), NewFusion(kind, nil) and DefaultFusionConfig() are evaluated and must still be (1, 1, 60); in 1 case of 4 one fusion object per kind is kept alive over 2-5 Combine calls while the *FusionConfig it was built from is edited between the calls (weights, K up and down) and the input maps grow / shrink, each call judged against the config current at that call; all 6 aggregations on the list and on a permutation of it, LimitResults, sanitizeK, Autocut, AutocutResults, mergeResults(+sort), 4 fusions, scoreMapToRanks are called; a case is non-trivial when at least two of {an aggregation/merge saw duplicate ids and returned >= 2 ids; a fusion saw overlapping but unequal key sets; autocut cut strictly inside the list; k truncated the list} hold; distinct = distinct request streams",
		NCases: func(tier string) int {
			if tier == "thorough" {
				return 60000
			}
			return 4000
		},
		GenF:  genPost,
		ExecF: execPost,
		LenF:  func(c *postCase) int { return len(c.Hits) + len(c.V) + len(c.T) + len(c.Reuse) },
		DropF: func(c *postCase, lo, hi int) *postCase {
			n := *c
			n.Hits, n.V, n.T = nil, nil, nil
			i := 0
			for _, h := range c.Hits {
				if i < lo || i >= hi {
					n.Hits = append(n.Hits, h)
				}
				i++
			}
			for _, e := range c.V {
				if i < lo || i >= hi {
					n.V = append(n.V, e)
				}
				i++
			}
			for _, e := range c.T {
				if i < lo || i >= hi {
					n.T = append(n.T, e)
				}
				i++
			}
			n.Reuse = nil
			for _, st := range c.Reuse {
				if i < lo || i >= hi {
					n.Reuse = append(n.Reuse, st)
				}
				i++
			}
			return &n
		},
		NonTrivialF: nonTrivialPost,
	})
}
