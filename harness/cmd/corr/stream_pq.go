package main

// Stream "pq" (C14): constructor / Train / Add / Remove / Flush histories on a real
// PQIndex or IVFPQIndex with searches after every few ops. Trained codebooks and coarse
// centroids, stored codes and list membership are read through the verif accessors of
// /repo/verif_export_pq.go and sent along; the Lean driver recomputes every code and every
// score bit-exactly and judges each answer with the verified top-k checker.

import (
	"fmt"
	"math"
	"sort"
	"strings"

	comet "github.com/wizenheimer/comet"
	"verifharness/internal/core"
)

type pqCmd struct {
	Op string `json:"op"` // train | add | remove | flush | search | state
	// add / remove
	ID  uint32   `json:"id,omitempty"`
	Vec []uint32 `json:"vec,omitempty"` // float32 bits (add: the vector; search: the first query)
	// search
	K       int        `json:"k,omitempty"`
	KDef    bool       `json:"k_def,omitempty"` // do not call WithK (default 10)
	ThrMode int        `json:"thr_mode,omitempty"`
	Thr     uint32     `json:"thr,omitempty"`
	R       int        `json:"r,omitempty"`
	Filter  []uint32   `json:"filter,omitempty"`
	Agg     string     `json:"agg,omitempty"` // "" = do not call WithScoreAggregation
	NProbes int        `json:"nprobes,omitempty"`
	NPDef   bool       `json:"np_def,omitempty"` // do not call WithNProbes (default int(sqrt(nlist)))
	Extra   [][]uint32 `json:"extra,omitempty"`  // further queries (k <= 0 only)
	Nodes   []uint32   `json:"nodes,omitempty"`  // WithNode ids (k <= 0 only)
	// train: N vectors generated from (TSeed, TMode); BadDim appends a component to one of them
	N      int    `json:"n,omitempty"`
	TSeed  uint64 `json:"tseed,omitempty"`
	TMode  int    `json:"tmode,omitempty"`
	BadDim bool   `json:"bad_dim,omitempty"`
}

type pqCase struct {
	Kind   string  `json:"kind"` // pq | ivfpq
	Dim    int     `json:"dim"`
	M      int     `json:"m"`
	Nbits  int     `json:"nbits"`
	Nlist  int     `json:"nlist"`
	Metric string  `json:"metric"`
	Cmds   []pqCmd `json:"cmds"`
}

// trainSet regenerates the training vectors of a train command.
// modes: 0 Gaussian (one scale), 1 small-integer lattice (many duplicates, empty clusters),
// 2 clustered (few centres + small noise), 3 ramp (vector i has every component = i).
func trainSet(seed uint64, mode, n, dim int) [][]float32 {
	r := core.NewRand(seed, "pq-train")
	scale := math.Pow(10, float64(r.Range(-2, 2)))
	nc := r.Range(1, 6)
	centres := make([][]float32, nc)
	for i := range centres {
		centres[i] = make([]float32, dim)
		for j := range centres[i] {
			centres[i][j] = float32(r.Norm() * scale * 4)
		}
	}
	out := make([][]float32, n)
	for i := range out {
		v := make([]float32, dim)
		switch mode {
		case 0:
			for j := range v {
				v[j] = float32(r.Norm() * scale)
			}
		case 1:
			for j := range v {
				v[j] = float32(r.Range(-2, 2))
			}
		case 2:
			c := centres[r.Intn(nc)]
			for j := range v {
				v[j] = c[j] + float32(r.Norm()*scale*0.1)
			}
		case 3:
			for j := range v {
				v[j] = float32(i)
			}
		}
		out[i] = v
	}
	return out
}

func pqMinTrain(kind string, nbits, nlist int) int {
	ksub := 1 << nbits
	if kind == "ivfpq" && 10*nlist > ksub {
		return 10 * nlist
	}
	return ksub
}

func genPQ(r *core.Rand, tier string) *pqCase {
	maxDsub, maxOps := 4, 50
	if tier == "thorough" {
		maxDsub, maxOps = 8, 160
	}
	c := &pqCase{Kind: []string{"pq", "ivfpq"}[r.Intn(2)], Metric: metrics[r.Intn(3)]}
	c.M = r.Range(1, 8)
	dsub := r.Range(1, maxDsub)
	if r.Chance(0.3) {
		dsub = 1
	}
	c.Dim = c.M * dsub
	c.Nbits = 1 + r.Pick(3, 4, 4, 3, 2, 2, 1, 1)
	c.Nlist = 1
	if c.Kind == "ivfpq" {
		c.Nlist = r.Range(1, 16)
		if r.Chance(0.3) {
			c.Nlist = r.Range(1, 4)
		}
	}
	// constructor calls the implementation must reject (the rest of the case is only
	// executed if it does not)
	if r.Chance(0.06) {
		switch r.Pick(2, 1, 1, 6, 1, 1) {
		case 0:
			if c.M > 1 {
				c.Dim = c.M*dsub + r.Range(1, c.M-1) // not divisible
			} else {
				c.M = 0
			}
		case 1:
			c.M = -r.Intn(2)
		case 2:
			c.Nbits = -r.Intn(2)
		case 3:
			c.Nbits = r.Range(9, 16) // one-byte codes cannot represent these
			if c.Nbits > 10 && r.Chance(0.8) {
				c.Nbits = r.Range(9, 10)
			}
			if c.Kind == "ivfpq" {
				c.Nlist = r.Range(1, 3)
			}
			if c.M > 2 {
				c.M, c.Dim = 2, 2*dsub
			}
		case 4:
			c.Dim = -r.Intn(2) * c.M
		case 5:
			if c.Kind == "ivfpq" {
				c.Nlist = -r.Intn(2)
			} else {
				c.Nbits = 17
			}
		}
	}
	if c.M <= 0 || c.Dim <= 0 || c.Nbits <= 0 || c.Nbits > 16 || c.Nlist <= 0 || c.Dim%c.M != 0 {
		return c
	}
	dim := c.Dim
	minN := pqMinTrain(c.Kind, c.Nbits, c.Nlist)
	lattice := r.Chance(0.35)
	var pool [][]float32
	var ids []uint32
	var removed []uint32 // ids with a Remove issued after their last Add: certainly not live
	next := uint32(1)

	// before training: everything must be refused
	if r.Chance(0.12) {
		c.Cmds = append(c.Cmds, pqCmd{Op: "add", ID: next, Vec: core.Bits(genVec(r, dim, nil, lattice))})
		ids = append(ids, next)
		next++
		c.Cmds = append(c.Cmds, genPQSearch(r, c, pool, ids, next, lattice))
	}
	// trainings the gate must refuse: too few vectors (incl. 10*nlist <= n < Ksub), wrong dimension
	if r.Chance(0.25) {
		t := pqCmd{Op: "train", TSeed: r.U64(), TMode: r.Pick(3, 2, 2, 1)}
		switch r.Pick(3, 2, 2, 2) {
		case 0:
			t.N = minN - 1
		case 1:
			t.N = r.Intn(minN)
		case 2: // IVFPQ: enough for the coarse quantiser, too few for the codebooks (or vice versa)
			ksub := 1 << c.Nbits
			if c.Kind == "ivfpq" && 10*c.Nlist < ksub {
				t.N = r.Range(10*c.Nlist, ksub-1)
			} else if c.Kind == "ivfpq" && ksub < 10*c.Nlist {
				t.N = r.Range(ksub, 10*c.Nlist-1)
			} else {
				t.N = minN - 1
			}
		case 3:
			t.N, t.BadDim = minN+r.Intn(3), true
		}
		c.Cmds = append(c.Cmds, t)
	}
	// the training that succeeds: from the minimum accepted size up
	t := pqCmd{Op: "train", TSeed: r.U64(), TMode: r.Pick(4, 2, 3, 1)}
	switch r.Pick(4, 3, 3) {
	case 0:
		t.N = minN
	case 1:
		t.N = minN + r.Range(1, 5)
	case 2:
		t.N = minN + r.Intn(minN+1)
	}
	c.Cmds = append(c.Cmds, t)
	train := trainSet(t.TSeed, t.TMode, t.N, dim)

	genAddVec := func() []float32 {
		// a training vector (with n = Ksub distinct vectors it is its own codeword),
		// or one of the flat stream's sub-generators
		if r.Chance(0.25) {
			return append([]float32(nil), train[r.Intn(len(train))]...)
		}
		if r.Chance(0.3) { // near the training distribution
			v := append([]float32(nil), train[r.Intn(len(train))]...)
			for j := range v {
				v[j] += float32(r.Norm()) * (float32(math.Abs(float64(v[j])))*0.05 + 0.01)
			}
			return v
		}
		return genVec(r, dim, pool, lattice)
	}

	nops := r.Range(1, maxOps)
	for i := 0; i < nops; i++ {
		switch r.Pick(10, 4, 1, 6, 1) {
		case 0:
			v := genAddVec()
			if r.Chance(0.02) {
				v = append(v, 1)
			}
			if r.Chance(0.03) {
				for j := range v {
					v[j] = 0
				}
			}
			id := next
			if len(removed) > 0 && r.Chance(0.2) {
				// re-add a removed id (before or after the Flush that purges its tombstone)
				j := r.Intn(len(removed))
				id = removed[j]
				removed = append(removed[:j], removed[j+1:]...)
			} else {
				next += uint32(r.Range(1, 3))
				ids = append(ids, id)
			}
			if len(v) == dim {
				pool = append(pool, v)
			}
			c.Cmds = append(c.Cmds, pqCmd{Op: "add", ID: id, Vec: core.Bits(v)})
		case 1:
			var id uint32
			if len(ids) > 0 && r.Chance(0.85) {
				id = ids[r.Intn(len(ids))]
				known := false
				for _, x := range removed {
					known = known || x == id
				}
				if !known {
					removed = append(removed, id)
				}
			} else {
				id = next + uint32(r.Intn(5))
			}
			c.Cmds = append(c.Cmds, pqCmd{Op: "remove", ID: id})
		case 2:
			c.Cmds = append(c.Cmds, pqCmd{Op: "flush"})
		case 3:
			c.Cmds = append(c.Cmds, genPQSearch(r, c, pool, ids, next, lattice))
		case 4:
			c.Cmds = append(c.Cmds, pqCmd{Op: "state"})
		}
	}
	for j := r.Range(1, 4); j > 0; j-- {
		c.Cmds = append(c.Cmds, genPQSearch(r, c, pool, ids, next, lattice))
	}
	c.Cmds = append(c.Cmds, pqCmd{Op: "state"})
	return c
}

func genPQSearch(r *core.Rand, c *pqCase, pool [][]float32, ids []uint32, next uint32, lattice bool) pqCmd {
	f := genFlatSearch(r, c.Dim, pool, ids, next, lattice)
	cmd := pqCmd{Op: "search", Vec: f.Vec, K: f.K, ThrMode: f.ThrMode, Thr: f.Thr, R: f.R, Filter: f.Filter, Agg: f.Agg}
	if r.Chance(0.1) {
		cmd.Agg = ""
	}
	if r.Chance(0.05) {
		cmd.KDef, cmd.K = true, 10
	}
	// nprobes: default, "all" in its various spellings, partial
	switch r.Pick(2, 1, 1, 5, 1, 2) {
	case 0:
		cmd.NPDef = true
	case 1:
		cmd.NProbes = 0
	case 2:
		cmd.NProbes = -r.Range(1, 3)
	case 3:
		cmd.NProbes = r.Range(1, c.Nlist)
	case 4:
		cmd.NProbes = c.Nlist + r.Range(1, 3)
	case 5:
		cmd.NProbes = c.Nlist
	}
	// several queries and / or node ids: only with k <= 0 (no tie ambiguity in the
	// per-query answers) and, for IVFPQ, with every list probed
	if r.Chance(0.1) {
		cmd.KDef, cmd.K = false, -r.Intn(2)
		for j := r.Intn(3); j > 0; j-- {
			cmd.Extra = append(cmd.Extra, core.Bits(genVec(r, c.Dim, pool, lattice)))
		}
		for j := r.Intn(3); j > 0; j-- {
			if len(ids) > 0 && r.Chance(0.9) {
				cmd.Nodes = append(cmd.Nodes, ids[r.Intn(len(ids))])
			} else {
				cmd.Nodes = append(cmd.Nodes, next+9)
			}
		}
		if r.Chance(0.1) && len(cmd.Nodes) > 0 {
			cmd.Vec = nil // node ids only
		}
		cmd.NPDef = false
		cmd.NProbes = []int{0, -1, c.Nlist, c.Nlist + 2}[r.Intn(4)]
	}
	return cmd
}

// safely runs f; a panic becomes the outcome "panic".
func safely(f func() string) (out string) {
	defer func() {
		if r := recover(); r != nil {
			out = "panic"
		}
	}()
	return f()
}

type pqImpl struct {
	kind string
	pq   *comet.PQIndex
	iv   *comet.IVFPQIndex
}

func (p *pqImpl) index() comet.VectorIndex {
	if p.kind == "pq" {
		return p.pq
	}
	return p.iv
}

// find returns the list and code of the (last) stored entry with this id.
func (p *pqImpl) find(id uint32) (int, []uint8, bool) {
	if p.kind == "pq" {
		ids, codes, _ := p.pq.VerifPQState()
		for i := len(ids) - 1; i >= 0; i-- {
			if ids[i] == id {
				return 0, codes[i], true
			}
		}
		return 0, nil, false
	}
	ids, codes, _ := p.iv.VerifIVFPQState()
	for l := range ids {
		for i := len(ids[l]) - 1; i >= 0; i-- {
			if ids[l][i] == id {
				return l, codes[l][i], true
			}
		}
	}
	return 0, nil, false
}

func codeHex(c []uint8) string {
	if len(c) == 0 {
		return "-"
	}
	var b strings.Builder
	for _, x := range c {
		fmt.Fprintf(&b, "%02x", x)
	}
	return b.String()
}

func (p *pqImpl) stateLine() string {
	var b strings.Builder
	b.WriteString("op state =>")
	var lists [][]uint32
	var codes [][][]uint8
	var del []uint32
	if p.kind == "pq" {
		i, c, d := p.pq.VerifPQState()
		lists, codes, del = [][]uint32{i}, [][][]uint8{c}, d
	} else {
		lists, codes, del = p.iv.VerifIVFPQState()
	}
	for l := range lists {
		for i := range lists[l] {
			fmt.Fprintf(&b, " %d:%s", lists[l][i], codeHex(codes[l][i]))
		}
		b.WriteString(" ;")
	}
	b.WriteString(" D " + core.IDs(del))
	return b.String()
}

func (p *pqImpl) oracle() string {
	var cents, cbs [][]float32
	if p.kind == "pq" {
		cbs = p.pq.VerifPQCodebooks()
	} else {
		cents, cbs = p.iv.VerifIVFPQCentroids(), p.iv.VerifIVFPQCodebooks()
	}
	var b strings.Builder
	fmt.Fprintf(&b, "%d", len(cents))
	for _, c := range cents {
		b.WriteString(" " + core.VecHex(c))
	}
	fmt.Fprintf(&b, " %d", len(cbs))
	for _, c := range cbs {
		b.WriteString(" " + core.VecHex(c))
	}
	return b.String()
}

// probeOrder reproduces the centroid ordering of ivfpqIndexSearch.searchSingleQuery: the
// same distances, the same (deterministic) sort.Slice call. The driver checks that the
// order is a legitimate choice of the nearest lists before using it.
func (p *pqImpl) probeOrder(metric string, q []float32) string {
	if p.kind != "ivfpq" {
		return "-"
	}
	dist, err := comet.NewDistance(comet.DistanceKind(metric))
	if err != nil {
		return "-"
	}
	pre, err := dist.Preprocess(append([]float32(nil), q...))
	if err != nil {
		return "-"
	}
	cents := p.iv.VerifIVFPQCentroids()
	if len(cents) == 0 || len(pre) != len(cents[0]) {
		return "-"
	}
	type centroidDist struct {
		index    int
		distance float32
	}
	cds := make([]centroidDist, len(cents))
	for i, c := range cents {
		cds[i] = centroidDist{index: i, distance: dist.Calculate(pre, c)}
	}
	sort.Slice(cds, func(i, j int) bool { return cds[i].distance < cds[j].distance })
	o := make([]uint32, len(cds))
	for i, cd := range cds {
		o[i] = uint32(cd.index)
	}
	return core.IDs(o)
}

func execPQ(c *pqCase) []string {
	lines := []string{fmt.Sprintf("begin pq %s %d %d %d %d %s", c.Kind, c.Dim, c.M, c.Nbits, c.Nlist, c.Metric)}
	p := &pqImpl{kind: c.Kind}
	var err error
	if c.Kind == "pq" {
		p.pq, err = comet.NewPQIndex(c.Dim, comet.DistanceKind(c.Metric), c.M, c.Nbits)
	} else {
		p.iv, err = comet.NewIVFPQIndex(c.Dim, comet.DistanceKind(c.Metric), c.Nlist, c.M, c.Nbits)
	}
	if err != nil {
		return append(lines, "op new => err", "end")
	}
	lines = append(lines, "op new => ok")
	idx := p.index()
	// search objects are executed at once, at once and again after the next Train / Add / Remove /
	// Flush, or only after it (rexec.go); the search line is emitted where the Execute happens
	var rex rexQueue
	for _, cmd := range c.Cmds {
		cmd := cmd
		switch cmd.Op {
		case "train":
			vs := trainSet(cmd.TSeed, cmd.TMode, cmd.N, c.Dim)
			dimsOK := 1
			if cmd.BadDim && len(vs) > 0 {
				i := int(cmd.TSeed % uint64(len(vs)))
				vs[i] = append(vs[i], 1)
				dimsOK = 0
			}
			nodes := make([]comet.VectorNode, len(vs))
			for i, v := range vs {
				nodes[i] = *comet.NewVectorNodeWithID(uint32(1000000+i), v)
			}
			out := safely(func() string {
				if err := idx.Train(nodes); err != nil {
					return "err " + vecErr(err)
				}
				return "ok " + p.oracle()
			})
			lines = append(lines, fmt.Sprintf("op train %d %d => %s", cmd.N, dimsOK, out))
			rex.run()
		case "add":
			raw := core.FromBits(cmd.Vec)
			arg := append([]float32(nil), raw...)
			out := safely(func() string {
				if err := idx.Add(*comet.NewVectorNodeWithID(cmd.ID, arg)); err != nil {
					return "err " + vecErr(err)
				}
				l, code, ok := p.find(cmd.ID)
				if !ok {
					return "ok ? ?"
				}
				return fmt.Sprintf("ok %d %s", l, codeHex(code))
			})
			lines = append(lines, fmt.Sprintf("op add %d %s => %s", cmd.ID, core.VecHex(raw), out))
			rex.run()
		case "remove":
			out := safely(func() string { return vecErrOut(idx.Remove(*comet.NewVectorNodeWithID(cmd.ID, nil))) })
			lines = append(lines, fmt.Sprintf("op remove %d => %s", cmd.ID, out))
			rex.run()
		case "flush":
			out := safely(func() string { return vecErrOut(idx.Flush()) })
			lines = append(lines, "op flush => "+out)
			rex.run()
		case "state":
			lines = append(lines, p.stateLine())
		case "search":
			var qs [][]float32
			if cmd.Vec != nil {
				qs = append(qs, core.FromBits(cmd.Vec))
			}
			for _, e := range cmd.Extra {
				qs = append(qs, core.FromBits(e))
			}
			thr := math.Float32frombits(cmd.Thr)
			if cmd.ThrMode != 0 && len(qs) > 0 {
				thr = 0
				probe := safely(func() string {
					res, err := idx.NewSearch().WithQuery(append([]float32(nil), qs[0]...)).WithK(0).WithNProbes(0).Execute()
					if err == nil && len(res) > 0 {
						i := cmd.R % len(res)
						thr = res[i].GetScore()
						if cmd.ThrMode == 2 && i+1 < len(res) {
							thr = (res[i].GetScore() + res[i+1].GetScore()) / 2
						}
					}
					return ""
				})
				_ = probe
			}
			kTok, aggTok, npTok := fmt.Sprint(cmd.K), cmd.Agg, fmt.Sprint(cmd.NProbes)
			var qb strings.Builder
			for _, q := range qs {
				qb.WriteString(" " + core.VecHex(q))
			}
			// emit: the search line for one execution; the centroid ordering that travels along is
			// computed from the centroids as they are at that moment
			emit := func(out string) {
				order := "-"
				if len(qs) == 1 && len(cmd.Nodes) == 0 {
					order = p.probeOrder(c.Metric, qs[0])
				}
				lines = append(lines, fmt.Sprintf("op search %s %s %s %s %s %s %s%s => %s", kTok, core.Hex32(thr),
					core.IDs(cmd.Filter), aggTok, npTok, order, core.IDs(cmd.Nodes), qb.String(), out))
			}
			var s comet.VectorSearch
			if built := safely(func() string {
				s = idx.NewSearch().WithThreshold(thr)
				if len(qs) > 0 {
					cp := make([][]float32, len(qs))
					for i := range qs {
						cp[i] = append([]float32(nil), qs[i]...)
					}
					s = s.WithQuery(cp...)
				}
				if len(cmd.Nodes) > 0 {
					s = s.WithNode(cmd.Nodes...)
				}
				if cmd.KDef {
					kTok = "def"
				} else {
					s = s.WithK(cmd.K)
				}
				if cmd.Agg == "" {
					aggTok = "def"
				} else {
					s = s.WithScoreAggregation(comet.ScoreAggregationKind(cmd.Agg))
				}
				if cmd.NPDef {
					npTok = "def"
				} else {
					s = s.WithNProbes(cmd.NProbes)
				}
				if len(cmd.Filter) > 0 {
					s = s.WithDocumentIDs(cmd.Filter...)
				}
				return ""
			}); built != "" {
				emit(built) // building the search object panicked
				continue
			}
			rex.next(func() {
				emit(safely(func() string {
					res, err := s.Execute()
					if err != nil {
						return "err " + vecErr(err)
					}
					return hitsLine(res)
				}))
			})
		}
	}
	rex.run()
	return append(lines, "end")
}

func vecErrOut(err error) string {
	if err == nil {
		return "ok"
	}
	return "err " + vecErr(err)
}

func nonTrivialPQ(lines, replies []string) bool {
	removed, trained := false, false
	for i, l := range lines {
		if i >= len(replies) {
			break
		}
		if strings.HasPrefix(l, "op train") && strings.HasPrefix(replies[i], "ok trained=1") {
			trained = true
		}
		if strings.HasPrefix(l, "op remove") && strings.HasSuffix(l, "=> ok") {
			removed = true
		}
		if trained && strings.HasPrefix(l, "op search") && strings.HasPrefix(replies[i], "ok n=") {
			m := kv(replies[i])
			if m["n"] > 0 && (removed || m["cands"] < m["live"] || m["n"] < m["cands"] || m["partial"] == 1) {
				return true
			}
		}
	}
	return false
}

func init() {
	register(&core.Typed[pqCase]{
		StreamName: "pq", Prop: "C14",
		RuleText: "PQIndex / IVFPQIndex: dims = M*dsub (M 1..8), every accepted Nbits (1..8) plus rejected constructor calls (Nbits 9..16, M not dividing dim, non-positive parameters), nlist 1..16, 3 metrics; refused trainings (too few vectors incl. 10*nlist <= n < Ksub, wrong dimension) then one training from the minimum accepted size up (Gaussian, lattice, clustered, ramp sets); random Add/Remove/Flush histories (fresh ids and re-adds of removed ids, before and after the Flush; training vectors, perturbed training vectors, Gaussian, lattice, duplicate and near-tie vectors) with searches over k in Z (and default), thresholds incl. exactly-a-reported-distance and midpoints, id restrictions incl. absent ids, nprobes (default, <=0, 1..nlist, >nlist), multi-query / node-id searches with k<=0; a case is non-trivial when training succeeded and some search returned a non-empty answer AND (a successful removal preceded it OR the filter/threshold excluded a live vector OR k truncated the candidates OR fewer than nlist lists were probed); distinct = distinct request streams",
		NCases: func(tier string) int {
			if tier == "thorough" {
				return 30000
			}
			return 2000
		},
		GenF:  genPQ,
		ExecF: execPQ,
		LenF:  func(c *pqCase) int { return len(c.Cmds) },
		DropF: func(c *pqCase, lo, hi int) *pqCase {
			n := *c
			n.Cmds = nil
			n.Cmds = append(n.Cmds, c.Cmds[:lo]...)
			n.Cmds = append(n.Cmds, c.Cmds[hi:]...)
			return &n
		},
		NonTrivialF: nonTrivialPQ,
	})
}
