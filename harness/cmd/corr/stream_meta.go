package main

// Stream "meta" (C04): random Add / Remove histories on a real RoaringMetadataIndex over
// a small schema (3–6 field names with a fixed type each: int, float, string, bool) with
// searches — simple filter lists, filter groups (AND / OR inside, OR across), the query
// builder, Not(·) — after every few ops. The Lean driver replays the history on the
// faithful model (incl. the transcribed roaring BSI) and on the specification and judges
// every answer (error class and id set). Floats are converted to two-decimal fixed point
// HERE (exact big-float replica of Go's int64(v*100)), independently of comet.

import (
	"encoding/hex"
	"fmt"
	"math"
	"math/big"
	"sort"
	"strings"

	comet "github.com/wizenheimer/comet"
	"verifharness/internal/core"
)

type metaVal struct {
	T string `json:"t"` // int | int64 | float | string | bool | bad32 | badlist
	I int64  `json:"i,omitempty"`
	F uint64 `json:"f,omitempty"` // float64 bits
	S string `json:"s,omitempty"`
	B bool   `json:"b,omitempty"`
}

type metaKV struct {
	K string  `json:"k"`
	V metaVal `json:"v"`
}

type metaLeaf struct {
	Not      bool      `json:"not,omitempty"`
	Op       string    `json:"op"`
	Field    string    `json:"field"`
	Vals     []metaVal `json:"vals,omitempty"`
	NoList   bool      `json:"nolist,omitempty"`   // in / not_in with a Value that is not a list
	StrSlice bool      `json:"strslice,omitempty"` // in / not_in with a []string Value
}

type metaGroup struct {
	Logic  string     `json:"logic"` // AND | OR | NONE (the zero value "")
	Leaves []metaLeaf `json:"leaves"`
}

type metaCmd struct {
	Op      string      `json:"op"` // add | remove | search | state
	ID      uint32      `json:"id,omitempty"`
	KVs     []metaKV    `json:"kvs,omitempty"`
	Filters []metaLeaf  `json:"filters,omitempty"`
	Groups  []metaGroup `json:"groups,omitempty"`
	Builder bool        `json:"builder,omitempty"` // groups through NewMetadataFilterQuery().Where().Or()
}

type metaCase struct {
	Cmds []metaCmd `json:"cmds"`
}

// fix100 replicates Go's int64(v*100) without using Go's float multiplication or comet:
// v*100 is the exact product rounded to nearest-even at 53 bits (IEEE-754 binary64
// multiplication), the conversion to int64 truncates toward zero.
func fix100(v float64) int64 {
	p := new(big.Float).SetPrec(53).SetMode(big.ToNearestEven)
	p.Mul(new(big.Float).SetPrec(53).SetFloat64(v), new(big.Float).SetPrec(53).SetInt64(100))
	i, _ := p.Int64() // truncates toward zero
	return i
}

func (v metaVal) float() float64 { return math.Float64frombits(v.F) }

// goVal is the interface{} handed to comet.
func (v metaVal) goVal() interface{} {
	switch v.T {
	case "int":
		return int(v.I)
	case "int64":
		return v.I
	case "float":
		return v.float()
	case "string":
		return v.S
	case "bool":
		return v.B
	case "bad32":
		return float32(1.5)
	default:
		return []string{"a"}
	}
}

func hx(s string) string { return hex.EncodeToString([]byte(s)) }

// wire value of a stored metadata value: i<int> | s<hex> | x
func (v metaVal) wire() string {
	switch v.T {
	case "int", "int64":
		return fmt.Sprintf("i%d", v.I)
	case "float":
		return fmt.Sprintf("i%d", fix100(v.float()))
	case "string":
		return "s" + hx(v.S)
	case "bool":
		return "s" + hx(fmt.Sprint(v.B))
	default:
		return "x"
	}
}

// wire operand: i<int>~<hex of the %v rendering> | s<hex>
func (v metaVal) operand() string {
	switch v.T {
	case "int", "int64":
		return fmt.Sprintf("i%d~%s", v.I, hx(fmt.Sprint(v.I)))
	case "float":
		return fmt.Sprintf("i%d~%s", fix100(v.float()), hx(fmt.Sprintf("%v", v.float())))
	case "string":
		return "s" + hx(v.S)
	default:
		return "s" + hx(fmt.Sprint(v.B))
	}
}

func kvsWire(kvs []metaKV) string {
	if len(kvs) == 0 {
		return "-"
	}
	p := make([]string, len(kvs))
	for i, kv := range kvs {
		p[i] = "h" + hx(kv.K) + "=" + kv.V.wire()
	}
	return strings.Join(p, ",")
}

func (l metaLeaf) filter() comet.Filter {
	var f comet.Filter
	v := func(i int) interface{} {
		if i < len(l.Vals) {
			return l.Vals[i].goVal()
		}
		return nil
	}
	// the documented alias constructors (Between, AnyOf, NoneOf, IsNull, IsNotNull) are used for
	// about half of the leaves; the choice is a function of the leaf, so replays are unchanged
	alias := (len(l.Field)+len(l.Vals))%2 == 1
	switch l.Op {
	case "eq":
		f = comet.Eq(l.Field, v(0))
	case "ne":
		f = comet.Ne(l.Field, v(0))
	case "gt":
		f = comet.Gt(l.Field, v(0))
	case "gte":
		f = comet.Gte(l.Field, v(0))
	case "lt":
		f = comet.Lt(l.Field, v(0))
	case "lte":
		f = comet.Lte(l.Field, v(0))
	case "range":
		if alias {
			f = comet.Between(l.Field, v(0), v(1))
		} else {
			f = comet.Range(l.Field, v(0), v(1))
		}
	case "in", "not_in":
		op := comet.OpIn
		if l.Op == "not_in" {
			op = comet.OpNotIn
		}
		switch {
		case l.NoList:
			f = comet.Filter{Field: l.Field, Operator: op, Value: "not-a-list"}
		case l.StrSlice:
			ss := make([]string, len(l.Vals))
			for i, x := range l.Vals {
				ss[i] = x.S
			}
			f = comet.Filter{Field: l.Field, Operator: op, Value: ss}
		default:
			vs := make([]interface{}, len(l.Vals))
			for i, x := range l.Vals {
				vs[i] = x.goVal()
			}
			switch {
			case l.Op == "in" && alias:
				f = comet.AnyOf(l.Field, vs...)
			case l.Op == "in":
				f = comet.In(l.Field, vs...)
			case alias:
				f = comet.NoneOf(l.Field, vs...)
			default:
				f = comet.NotIn(l.Field, vs...)
			}
		}
	case "exists":
		if alias {
			f = comet.IsNotNull(l.Field)
		} else {
			f = comet.Exists(l.Field)
		}
	default:
		if alias {
			f = comet.IsNull(l.Field)
		} else {
			f = comet.NotExists(l.Field)
		}
	}
	if l.Not {
		f = comet.Not(f)
	}
	return f
}

func (l metaLeaf) wire(f comet.Filter) string {
	ops := "-"
	if l.NoList {
		ops = "*"
	} else if len(l.Vals) > 0 {
		p := make([]string, len(l.Vals))
		for i, x := range l.Vals {
			p[i] = x.operand()
		}
		ops = strings.Join(p, ",")
	}
	neg := ""
	if l.Not {
		neg = "!"
	}
	return fmt.Sprintf("%s%s;h%s;%s;%s", neg, l.Op, hx(l.Field), ops, string(f.Operator))
}

// metaErrClass names the class of a search error for the evidence histogram. It is guessed from
// the message text, which no property constrains: the driver only compares "answer" against
// "error" (Proto.lean, sameOutcome) and shows the class as a flag.
func metaErrClass(err error) string {
	s := err.Error()
	pre := ""
	if strings.HasPrefix(s, "error executing group ") {
		var i int
		fmt.Sscanf(s, "error executing group %d:", &i)
		pre = fmt.Sprintf("g%d:", i)
	}
	switch {
	case strings.Contains(s, "unsupported operator for categorical field"):
		return pre + "cat"
	case strings.Contains(s, "unsupported operator for numeric field"):
		return pre + "num"
	case strings.Contains(s, "cannot convert"):
		return pre + "convert"
	case strings.Contains(s, "operator requires []string or []interface{}"):
		return pre + "inlist"
	default:
		return pre + "other"
	}
}

func metaStateLine(idx *comet.RoaringMetadataIndex) string {
	st, err := idx.VerifState()
	if err != nil {
		return "op panic VerifState: " + err.Error()
	}
	var b strings.Builder
	b.WriteString("op state => A=" + core.IDs(st.AllDocs))
	keys := make([]string, 0, len(st.Categorical))
	for k := range st.Categorical {
		keys = append(keys, k)
	}
	sort.Strings(keys)
	for _, k := range keys {
		fmt.Fprintf(&b, " C:h%s=%s", hx(k), core.IDs(st.Categorical[k]))
	}
	fields := make([]string, 0, len(st.Numeric))
	for f := range st.Numeric {
		fields = append(fields, f)
	}
	sort.Strings(fields)
	for _, f := range fields {
		d := st.Numeric[f]
		mask := map[uint32]uint64{}
		ex := map[uint32]bool{}
		for _, id := range d.Existence {
			ex[id] = true
			mask[id] |= 0
		}
		for j, sl := range d.Slices {
			for _, id := range sl {
				mask[id] |= 1 << uint(j)
			}
		}
		ids := make([]uint32, 0, len(mask))
		for id := range mask {
			ids = append(ids, id)
		}
		sort.Slice(ids, func(i, j int) bool { return ids[i] < ids[j] })
		es := make([]string, len(ids))
		for i, id := range ids {
			e := 0
			if ex[id] {
				e = 1
			}
			es[i] = fmt.Sprintf("%d:%x:%d", id, mask[id], e)
		}
		body := "-"
		if len(es) > 0 {
			body = strings.Join(es, ",")
		}
		fmt.Fprintf(&b, " N:h%s=%s", hx(f), body)
		if d.BitCount != 64 {
			fmt.Fprintf(&b, " BITCOUNT=%d", d.BitCount)
		}
	}
	return b.String()
}

func execMeta(c *metaCase) []string {
	lines := []string{"begin meta"}
	idx := comet.NewRoaringMetadataIndex()
	emptyForms := 0
	// search objects (and query builders) are executed at once, at once and again after the next
	// Add / Remove, or only after it (rexec.go); the search line is emitted where the Execute happens
	var rex rexQueue
	for _, cmd := range c.Cmds {
		switch cmd.Op {
		case "add":
			md := make(map[string]interface{}, len(cmd.KVs))
			for _, kv := range cmd.KVs {
				md[kv.K] = kv.V.goVal()
			}
			err := idx.Add(*comet.NewMetadataNodeWithID(cmd.ID, md))
			out := "ok"
			if err != nil {
				// any error is a rejection; the class behind it is informational (message text)
				out = "err unsupported"
				if !strings.Contains(err.Error(), "unsupported type for key") {
					out = "err other"
				}
			}
			lines = append(lines, fmt.Sprintf("op add %d %s => %s", cmd.ID, kvsWire(cmd.KVs), out))
			if err != nil {
				// a rejected Add must leave no trace: compare the whole state right away
				lines = append(lines, metaStateLine(idx))
			}
			rex.run()
		case "remove":
			err := idx.Remove(*comet.NewMetadataNodeWithID(cmd.ID, nil))
			out := "ok"
			if err != nil {
				out = "err"
			}
			lines = append(lines, fmt.Sprintf("op remove %d => %s", cmd.ID, out))
			rex.run()
		case "state":
			lines = append(lines, metaStateLine(idx))
		case "search":
			var q strings.Builder
			q.WriteString("S")
			var fs []comet.Filter
			for _, l := range cmd.Filters {
				f := l.filter()
				fs = append(fs, f)
				q.WriteString(" " + l.wire(f))
			}
			var gs []*comet.FilterGroup
			for _, g := range cmd.Groups {
				grp := &comet.FilterGroup{}
				switch g.Logic {
				case "AND":
					grp.Logic = comet.AND
				case "OR":
					grp.Logic = comet.OR
				}
				q.WriteString(" G:" + g.Logic)
				for _, l := range g.Leaves {
					f := l.filter()
					grp.Filters = append(grp.Filters, f)
					q.WriteString(" " + l.wire(f))
				}
				gs = append(gs, grp)
			}
			// run executes the search object (or query builder) built below
			var run func() ([]comet.MetadataResult, error)
			if cmd.Builder && len(gs) > 0 && len(fs) == 0 {
				// Where / And / Or / Build / Execute of the query builder: the first filter of a group
				// opens it, the others are appended with And
				open := func(qb *comet.MetadataFilterQueryBuilder, first bool, fs []comet.Filter) *comet.MetadataFilterQueryBuilder {
					if len(fs) == 0 {
						return qb
					}
					if first {
						qb = qb.Where(fs[0])
					} else {
						qb = qb.Or(fs[0])
					}
					if len(fs) > 1 {
						qb = qb.And(fs[1:]...)
					}
					return qb
				}
				qb := open(comet.NewMetadataFilterQuery(), true, gs[0].Filters)
				for _, g := range gs[1:] {
					qb = open(qb, false, g.Filters)
				}
				if len(gs)%2 == 0 {
					run = idx.NewSearch().WithFilterGroups(qb.Build()...).Execute
				} else {
					run = func() ([]comet.MetadataResult, error) { return qb.Execute(idx) }
				}
			} else if len(fs) == 0 && len(gs) == 0 {
				// "an empty filter list returns all live documents", however the emptiness is
				// spelled: nothing set, empty non-nil slices, a query builder without a clause
				emptyForms++
				switch emptyForms % 4 {
				case 0:
					run = idx.NewSearch().Execute
				case 1:
					run = idx.NewSearch().WithFilterGroups([]*comet.FilterGroup{}...).Execute
				case 2:
					run = idx.NewSearch().WithFilters([]comet.Filter{}...).WithFilterGroups([]*comet.FilterGroup{}...).Execute
				default:
					qb := comet.NewMetadataFilterQuery()
					run = func() ([]comet.MetadataResult, error) { return qb.Execute(idx) }
				}
			} else {
				s := idx.NewSearch()
				if len(fs) > 0 {
					s = s.WithFilters(fs...)
				}
				if len(gs) > 0 {
					s = s.WithFilterGroups(gs...)
				}
				run = s.Execute
			}
			args := q.String()
			rex.next(func() {
				res, err := run()
				out := ""
				if err != nil {
					out = "err " + metaErrClass(err)
				} else {
					ids := make([]uint32, len(res))
					for i, r := range res {
						ids[i] = r.GetId()
					}
					out = "ok " + core.IDs(ids)
				}
				lines = append(lines, "op search "+args+" => "+out)
			})
		}
	}
	rex.run()
	return append(lines, "end")
}

// ---------------------------------------------------------------- generation

type metaField struct{ name, typ string }

var metaFieldPool = []metaField{
	{"n", "int"}, {"m", "int"}, {"qty", "int"}, {"p", "float"}, {"price", "float"},
	{"s", "string"}, {"t", "string"}, {"tag", "string"}, {"b", "bool"}, {"ok", "bool"},
}
var metaAbsent = []string{"zz", "absent", "n2", "pricee"}

var metaStrings = []string{"", "a", "b", "c", "a:b", ":", "x:", ":y", "s:a", "true", "false", "5", "19.99", "hello world", "é", "日本", "A"}
var metaPosInts = []int64{0, 0, 1, 1, 2, 3, 5, 5, 10, 100, 1 << 62, math.MaxInt64, math.MaxInt64 - 1, 4611686018427387905}
var metaNegInts = []int64{-1, -1, -2, -5, -5, -10, -100, -(1 << 62), math.MinInt64, math.MinInt64 + 1, -4611686018427387905}
var metaPosFloats = []float64{0, 19.99, 19.98, 0.29, 1.005, 2.675, 1234.5678, 3.14159, 0.001, 99.999, 4.35, 1.15, 0.3, 100, 1000000.125, 12345678.9876}

type metaGen struct {
	r      *core.Rand
	fields []metaField
	sign   int // 0 non-negative numbers only, 1 negative only, 2 mixed
	seen   map[string][]metaVal
}

func (g *metaGen) neg() bool {
	switch g.sign {
	case 0:
		return false
	case 1:
		return true
	}
	return g.r.Chance(0.45)
}

func (g *metaGen) intVal() metaVal {
	r := g.r
	var x int64
	neg := g.neg()
	switch r.Pick(6, 3, 1) {
	case 0:
		if neg {
			x = metaNegInts[r.Intn(len(metaNegInts))]
		} else {
			x = metaPosInts[r.Intn(len(metaPosInts))]
		}
	case 1:
		x = int64(r.Intn(21))
		if neg {
			x = -x - 1
		}
	case 2:
		x = int64(r.U64() >> 1)
		if neg {
			x = -x - 1
		}
	}
	t := "int"
	if r.Bool() {
		t = "int64"
	}
	return metaVal{T: t, I: x}
}

func (g *metaGen) floatVal() metaVal {
	r := g.r
	var v float64
	switch r.Pick(5, 3, 2) {
	case 0:
		v = metaPosFloats[r.Intn(len(metaPosFloats))]
	case 1:
		v = float64(r.Intn(100000)) / 1000
	case 2:
		v = float64(r.Intn(10000000)) / 10000
	}
	if g.neg() {
		v = -v
	}
	return metaVal{T: "float", F: math.Float64bits(v)}
}

func (g *metaGen) strVal() metaVal {
	r := g.r
	if r.Chance(0.15) {
		return metaVal{T: "string", S: string(rune('a' + r.Intn(6)))}
	}
	return metaVal{T: "string", S: metaStrings[r.Intn(len(metaStrings))]}
}

func (g *metaGen) valOf(typ string) metaVal {
	switch typ {
	case "int":
		return g.intVal()
	case "float":
		return g.floatVal()
	case "string":
		return g.strVal()
	default:
		return metaVal{T: "bool", B: g.r.Bool()}
	}
}

// operand: a value some document carried under the field (60%) or a fresh one
func (g *metaGen) operand(f metaField) metaVal {
	if vs := g.seen[f.name]; len(vs) > 0 && g.r.Chance(0.6) {
		v := vs[g.r.Intn(len(vs))]
		if (v.T == "int" || v.T == "int64") && g.r.Chance(0.3) { // neighbours of a stored value
			d := int64(g.r.Range(-1, 1))
			if (d > 0 && v.I < math.MaxInt64) || (d < 0 && v.I > math.MinInt64) {
				v.I += d
			}
		}
		return v
	}
	return g.valOf(f.typ)
}

func (g *metaGen) leaf(illTyped bool) metaLeaf {
	r := g.r
	var f metaField
	if r.Chance(0.10) {
		f = metaField{metaAbsent[r.Intn(len(metaAbsent))], []string{"int", "string", "string", "string", "float", "bool", "bool"}[r.Intn(7)]}
	} else {
		f = g.fields[r.Intn(len(g.fields))]
	}
	l := metaLeaf{Field: f.name, Not: r.Chance(0.25)}
	num := f.typ == "int" || f.typ == "float"
	if illTyped {
		// any operator with any operand type
		l.Op = []string{"eq", "ne", "gt", "gte", "lt", "lte", "range", "in", "not_in"}[r.Intn(9)]
		ot := []string{"int", "float", "string", "bool"}[r.Intn(4)]
		n := 1
		if l.Op == "range" {
			n = 2
		} else if l.Op == "in" || l.Op == "not_in" {
			n = r.Intn(4)
			l.NoList = r.Chance(0.2)
		}
		for i := 0; i < n; i++ {
			l.Vals = append(l.Vals, g.operand(metaField{f.name, ot}))
		}
		// an operand taken from the data may have the field's own type: fine, still a legal call
		return l
	}
	if num {
		switch r.Pick(3, 2, 2, 2, 2, 2, 3, 1, 1) {
		case 0:
			l.Op = "eq"
		case 1:
			l.Op = "ne"
		case 2:
			l.Op = "gt"
		case 3:
			l.Op = "gte"
		case 4:
			l.Op = "lt"
		case 5:
			l.Op = "lte"
		case 6:
			l.Op = "range"
		case 7:
			l.Op = "exists"
		case 8:
			l.Op = "not_exists"
		}
	} else {
		switch r.Pick(4, 3, 3, 3, 1, 1) {
		case 0:
			l.Op = "eq"
		case 1:
			l.Op = "ne"
		case 2:
			l.Op = "in"
		case 3:
			l.Op = "not_in"
		case 4:
			l.Op = "exists"
		case 5:
			l.Op = "not_exists"
		}
	}
	switch l.Op {
	case "exists", "not_exists":
	case "range":
		a, b := g.operand(f), g.operand(f)
		// mostly lo <= hi
		less := func(x, y metaVal) bool {
			if x.T == "float" {
				return x.float() < y.float()
			}
			return x.I < y.I
		}
		if less(b, a) && r.Chance(0.85) {
			a, b = b, a
		}
		l.Vals = []metaVal{a, b}
	case "in", "not_in":
		n := r.Pick(1, 3, 3, 2, 1)
		allStr := true
		for i := 0; i < n; i++ {
			v := g.operand(f)
			l.Vals = append(l.Vals, v)
			if v.T != "string" {
				allStr = false
			}
		}
		l.StrSlice = allStr && r.Chance(0.3)
	default:
		l.Vals = []metaVal{g.operand(f)}
	}
	return l
}

func (g *metaGen) leaves(max int, min int) []metaLeaf {
	n := g.r.Range(min, max)
	var ls []metaLeaf
	for i := 0; i < n; i++ {
		ls = append(ls, g.leaf(g.r.Chance(0.035)))
	}
	return ls
}

func (g *metaGen) search() metaCmd {
	r := g.r
	cmd := metaCmd{Op: "search"}
	switch r.Pick(2, 9, 8, 1) {
	case 0: // no filter at all
	case 1:
		cmd.Filters = g.leaves(4, 1)
	case 2:
		ng := r.Range(1, 3)
		allAnd := true
		for i := 0; i < ng; i++ {
			grp := metaGroup{Logic: "AND"}
			switch r.Pick(14, 5, 1) {
			case 1:
				grp.Logic = "OR"
			case 2:
				grp.Logic = "NONE"
			}
			grp.Leaves = g.leaves(4, r.Pick(1, 12))
			if grp.Logic != "AND" || len(grp.Leaves) == 0 {
				allAnd = false
			}
			cmd.Groups = append(cmd.Groups, grp)
		}
		cmd.Builder = allAnd && r.Chance(0.4)
	case 3: // both: the groups win
		cmd.Filters = g.leaves(2, 1)
		cmd.Groups = []metaGroup{{Logic: "AND", Leaves: g.leaves(2, 1)}}
	}
	return cmd
}

func genMeta(r *core.Rand, tier string) *metaCase {
	maxOps := 30
	if tier == "thorough" {
		maxOps = 80
	}
	g := &metaGen{r: r, seen: map[string][]metaVal{}}
	perm := r.Perm(len(metaFieldPool))
	nf := r.Range(3, 6)
	names := map[string]bool{}
	for _, i := range perm {
		if len(g.fields) == nf {
			break
		}
		g.fields = append(g.fields, metaFieldPool[i])
		names[metaFieldPool[i].name] = true
	}
	g.sign = r.Pick(7, 2, 11)
	allowBad := r.Chance(0.04)
	allowReadd := r.Chance(0.03)
	allowClash := r.Chance(0.02)
	c := &metaCase{}
	var live, removed []uint32
	next := uint32(1)
	nops := r.Range(1, maxOps)
	addCmd := func() metaCmd {
		id := next
		next += uint32(r.Range(1, 3))
		if len(removed) > 0 && r.Chance(0.1) { // re-add of a removed id (legal: the id is not live)
			j := r.Intn(len(removed))
			id = removed[j]
			removed = append(removed[:j], removed[j+1:]...)
		} else if allowReadd && len(live) > 0 && r.Chance(0.2) { // update without remove (outside the quantifier)
			id = live[r.Intn(len(live))]
		}
		cmd := metaCmd{Op: "add", ID: id}
		for _, f := range g.fields {
			if !r.Chance(0.7) {
				continue
			}
			typ := f.typ
			if allowClash && r.Chance(0.15) {
				typ = []string{"int", "string"}[r.Intn(2)]
			}
			v := g.valOf(typ)
			if allowBad && r.Chance(0.12) {
				v = metaVal{T: []string{"bad32", "badlist"}[r.Intn(2)]}
			}
			cmd.KVs = append(cmd.KVs, metaKV{f.name, v})
			if v.T != "bad32" && v.T != "badlist" {
				g.seen[f.name] = append(g.seen[f.name], v)
			}
		}
		if allowBad && r.Chance(0.1) {
			cmd.KVs = append(cmd.KVs, metaKV{"junk", metaVal{T: "bad32"}})
		}
		found := false
		for _, x := range live {
			if x == id {
				found = true
			}
		}
		if !found {
			live = append(live, id)
		}
		return cmd
	}
	for i := 0; i < nops; i++ {
		w := r.Pick(10, 3, 8, 1)
		if i < 3 && r.Chance(0.8) {
			w = 0 // most histories start with a few documents
		}
		switch w {
		case 0:
			c.Cmds = append(c.Cmds, addCmd())
		case 1:
			var id uint32
			if len(live) > 0 && r.Chance(0.85) {
				j := r.Intn(len(live))
				id = live[j]
				live = append(live[:j], live[j+1:]...)
				removed = append(removed, id)
			} else {
				id = next + uint32(r.Intn(4))
			}
			c.Cmds = append(c.Cmds, metaCmd{Op: "remove", ID: id})
		case 2:
			c.Cmds = append(c.Cmds, g.search())
		case 3:
			c.Cmds = append(c.Cmds, metaCmd{Op: "state"})
		}
	}
	for j := r.Range(2, 5); j > 0; j-- {
		c.Cmds = append(c.Cmds, g.search())
	}
	c.Cmds = append(c.Cmds, metaCmd{Op: "state"})
	return c
}

func nonTrivialMeta(lines, replies []string) bool {
	good := false
	for i, l := range lines {
		if i >= len(replies) {
			break
		}
		if strings.HasPrefix(replies[i], "KNOWN") {
			return false // cases attributed to a known finding do not count
		}
		if strings.HasPrefix(l, "op search") && strings.HasPrefix(replies[i], "ok judged=1") {
			if strings.Contains(replies[i], " proper=1 ") && !strings.Contains(replies[i], " leaves:0 ") {
				good = true
			}
		}
	}
	return good
}

func init() {
	register(&core.Typed[metaCase]{
		StreamName: "meta", Prop: "C04",
		RuleText: "random Add/Remove histories (ids not live at Add; 3-6 fields of fixed type int/float/string/bool; values incl. 0, negatives, +-2^62, MinInt64/MaxInt64, floats with 3-4 decimals and 19.99, empty strings, strings containing ':') with searches: simple filter lists, up to 3 groups x 4 filters (AND/OR), query builder, Not(.) of each operator, operands absent from the data, fields absent from the index, ill-typed operands (model comparison only); a case is non-trivial when some search that was judged against the specification had at least one filter and returned a non-empty answer that excludes at least one live document, and no answer of the case was attributed to a known finding; distinct = distinct request streams",
		NCases: func(tier string) int {
			if tier == "thorough" {
				return 100000
			}
			return 5000
		},
		GenF:  genMeta,
		ExecF: execMeta,
		LenF:  func(c *metaCase) int { return len(c.Cmds) },
		DropF: func(c *metaCase, lo, hi int) *metaCase {
			n := &metaCase{}
			n.Cmds = append(n.Cmds, c.Cmds[:lo]...)
			n.Cmds = append(n.Cmds, c.Cmds[hi:]...)
			return n
		},
		NonTrivialF: nonTrivialMeta,
	})
}
