package main

// Stream "bm25" (C03): random Add (fresh id) / Add (existing id = replace) / Remove /
// Flush / Remove-absent histories on a real BM25SearchIndex over a small vocabulary
// with repeated tokens, empty texts, whitespace / punctuation tokens, non-ASCII and
// compatibility characters; searches with repeated and unknown query tokens, k in
// {-1,0,1,…,n+1}, id restrictions, 1..3 queries x 3 aggregations.
//
// The implementation receives RAW TEXT. The Lean driver receives TOKEN LISTS that
// this harness computes independently of comet (NFKC → ToLower → UAX#29 words,
// calling the three libraries directly), so a change in comet's normalize/tokenize
// glue shows as a disagreement. After every mutation the exported index state
// (numDocs, totalTokens, avgDocLen, docLengths, df, tf, deleted, docTokens) is sent
// for comparison with the model's.

import (
	"fmt"
	"sort"
	"strings"

	"github.com/clipperhouse/uax29/v2/words"
	comet "github.com/wizenheimer/comet"
	"golang.org/x/text/unicode/norm"
	"verifharness/internal/core"
)

type bmCmd struct {
	Op      string   `json:"op"` // add | remove | flush | search
	ID      uint32   `json:"id,omitempty"`
	Text    string   `json:"text,omitempty"`
	K       int      `json:"k,omitempty"`
	NoK     bool     `json:"no_k,omitempty"` // do not call WithK (default k = 10)
	Filter  []uint32 `json:"filter,omitempty"`
	Agg     string   `json:"agg,omitempty"` // sum | max | mean | default | bad
	Queries []string `json:"queries,omitempty"`
}

type bmCase struct {
	Cmds []bmCmd `json:"cmds"`
}

// bmTokenize is the harness' own pipeline (NOT comet's functions).
func bmTokenize(text string) []string {
	n := strings.ToLower(norm.NFKC.String(text))
	var out []string
	it := words.FromString(n)
	for it.Next() {
		out = append(out, it.Value())
	}
	return out
}

var bmPlain = []string{"apple", "bravo", "cedar", "delta", "ember", "fjord", "grape", "hotel", "igloo", "joker",
	"kilo", "lemon", "mango", "north", "ocean", "piano", "quark", "river", "stone", "tiger", "umbra", "vivid",
	"whale", "xenon", "yacht", "zebra", "42", "3.14", "can't", "a", "i"}

// compatibility / non-ASCII / case material: several raw spellings of one token.
var bmSpecial = []string{"É", "é", "É", "ﬁ", "fi", "FI", "K", "k", "K", "㎏", "kg", "①", "1", "ｆｕｌｌ", "full",
	"Straße", "STRASSE", "İ", "中文", "中", "👍🏽", "Ω", "Ω", "ω", "ǅ", "Apple", "APPLE",
	// compatibility characters whose NFKC decomposition contains capitals (lower-casing must come AFTER NFKC)
	"㎒", "mhz", "MHz", "℡", "tel", "№", "no", "Ⅳ", "iv", "㏃", "bq", "ℌ", "h", "㎩", "pa", "㏔", "mb"}

var bmSeps = []string{" ", " ", " ", " ", " ", ",", ", ", "  ", ".", "\t", "-", "", " ", "\n", "; "}

type bmVocab struct {
	words []string
	seps  []string
}

func genBMVocab(r *core.Rand) *bmVocab {
	v := &bmVocab{}
	// the four mandatory specials + " " and "," are always present
	v.words = append(v.words, "É", "ﬁ", "K")
	if r.Chance(0.5) {
		caps := [][2]string{{"㎒", "mhz"}, {"℡", "tel"}, {"№", "no"}, {"Ⅳ", "iv"}, {"㎩", "pa"}}
		c := caps[r.Intn(len(caps))]
		v.words = append(v.words, c[0], c[1])
	}
	n := r.Range(6, 30)
	pp := r.Perm(len(bmPlain))
	for i := 0; i < n && i < len(pp); i++ {
		v.words = append(v.words, bmPlain[pp[i]])
	}
	m := r.Range(0, 8)
	sp := r.Perm(len(bmSpecial))
	for i := 0; i < m; i++ {
		v.words = append(v.words, bmSpecial[sp[i]])
	}
	v.seps = []string{" ", ","}
	for i := r.Range(0, 4); i > 0; i-- {
		v.seps = append(v.seps, bmSeps[r.Intn(len(bmSeps))])
	}
	return v
}

// text of up to maxWords words; zipf-like word choice so that tokens repeat.
func (v *bmVocab) text(r *core.Rand, maxWords int, spaced bool) string {
	if r.Chance(0.06) {
		return ""
	}
	if r.Chance(0.03) {
		return v.seps[r.Intn(len(v.seps))] // only whitespace / punctuation
	}
	n := r.Range(1, maxWords)
	var b strings.Builder
	hot := r.Range(2, 6)
	for i := 0; i < n; i++ {
		var w string
		if r.Chance(0.6) {
			w = v.words[r.Intn(min(hot, len(v.words)))]
		} else {
			w = v.words[r.Intn(len(v.words))]
		}
		b.WriteString(w)
		if i+1 < n || r.Chance(0.15) {
			if spaced && r.Chance(0.8) {
				b.WriteString(" ")
			} else {
				b.WriteString(v.seps[r.Intn(len(v.seps))])
			}
		}
	}
	return b.String()
}

func (v *bmVocab) query(r *core.Rand, texts []string) string {
	switch r.Pick(5, 4, 2, 1, 1, 2, 1) {
	case 0: // one word (mostly one of the frequent ones)
		if r.Chance(0.6) {
			return v.words[r.Intn(min(6, len(v.words)))]
		}
		return v.words[r.Intn(len(v.words))]
	case 1: // a few words joined by a separator that is (mostly) not the ubiquitous " "
		n := r.Range(2, 4)
		sep := ","
		if r.Chance(0.3) {
			sep = v.seps[r.Intn(len(v.seps))]
		}
		ws := make([]string, n)
		for i := range ws {
			if r.Chance(0.5) {
				ws[i] = v.words[r.Intn(min(6, len(v.words)))]
			} else {
				ws[i] = v.words[r.Intn(len(v.words))]
			}
		}
		if r.Chance(0.4) { // repeated query token
			ws[n-1] = ws[0]
		}
		return strings.Join(ws, sep)
	case 2: // unknown token(s), possibly mixed with a known one
		if r.Chance(0.5) {
			return "zzunknown" + fmt.Sprint(r.Intn(3))
		}
		return "zzunknown," + v.words[r.Intn(len(v.words))]
	case 3:
		return ""
	case 4: // only a separator
		return v.seps[r.Intn(len(v.seps))]
	case 5: // the text of some document (all of its tokens, with multiplicity)
		if len(texts) > 0 {
			return texts[r.Intn(len(texts))]
		}
		return v.words[0]
	default: // free text
		return v.text(r, 5, true)
	}
}

func genBM(r *core.Rand, tier string) *bmCase {
	maxOps, maxWords := 40, 8
	if tier == "thorough" {
		maxOps, maxWords = 120, 14
	}
	v := genBMVocab(r)
	c := &bmCase{}
	spaced := r.Chance(0.5) // half of the corpora use " " between words, the others the random separators
	nops := r.Range(1, maxOps)
	var ids []uint32
	var texts []string
	next := uint32(1)
	// dense corpora: a burst of short documents over two or three frequent words, so that
	// more than 10 (the builder's default k) documents match one query
	dense := r.Chance(0.2)
	if dense {
		for i := r.Range(11, 26); i > 0; i-- {
			id := next
			next += uint32(r.Range(1, 2))
			ids = append(ids, id)
			var b strings.Builder
			for j := r.Range(1, 3); j > 0; j-- {
				b.WriteString(v.words[r.Intn(3)])
				if j > 1 {
					b.WriteString(v.seps[r.Intn(2)])
				}
			}
			texts = append(texts, b.String())
			c.Cmds = append(c.Cmds, bmCmd{Op: "add", ID: id, Text: b.String()})
		}
		nops = r.Range(1, maxOps/2)
	}
	for i := 0; i < nops; i++ {
		switch r.Pick(8, 4, 4, 2, 9) {
		case 0: // add fresh
			id := next
			next += uint32(r.Range(1, 3))
			ids = append(ids, id)
			t := v.text(r, maxWords, spaced)
			if len(texts) > 0 && r.Chance(0.25) {
				t = texts[r.Intn(len(texts))] // duplicate text → exact score ties
			}
			texts = append(texts, t)
			c.Cmds = append(c.Cmds, bmCmd{Op: "add", ID: id, Text: t})
		case 1: // add existing (replace; sometimes an id that is currently tombstoned)
			if len(ids) == 0 {
				continue
			}
			id := ids[r.Intn(len(ids))]
			t := v.text(r, maxWords, spaced)
			if r.Chance(0.2) && len(texts) > 0 {
				t = texts[r.Intn(len(texts))]
			}
			texts = append(texts, t)
			c.Cmds = append(c.Cmds, bmCmd{Op: "add", ID: id, Text: t})
		case 2: // remove: mostly known ids, sometimes absent / repeated
			var id uint32
			if len(ids) > 0 && r.Chance(0.8) {
				id = ids[r.Intn(len(ids))]
			} else {
				id = next + uint32(r.Intn(5))
			}
			c.Cmds = append(c.Cmds, bmCmd{Op: "remove", ID: id})
		case 3:
			c.Cmds = append(c.Cmds, bmCmd{Op: "flush"})
		case 4:
			c.Cmds = append(c.Cmds, genBMSearch(r, v, ids, texts, next))
		}
	}
	for j := r.Range(1, 4); j > 0; j-- {
		c.Cmds = append(c.Cmds, genBMSearch(r, v, ids, texts, next))
	}
	if dense { // every way of asking for "many": all, default k, around 10, around n
		n := len(ids)
		for _, k := range []int{0, -1, 10, 9, 11, n - 1, n, n + 1} {
			cmd := genBMSearch(r, v, ids, texts, next)
			cmd.K, cmd.NoK = k, k == 10 && r.Bool()
			if len(cmd.Queries) == 0 {
				cmd.Queries = []string{""}
			}
			cmd.Queries[0] = v.words[r.Intn(3)]
			if r.Chance(0.7) {
				cmd.Filter = nil
			}
			c.Cmds = append(c.Cmds, cmd)
		}
	}
	return c
}

func genBMSearch(r *core.Rand, v *bmVocab, ids []uint32, texts []string, next uint32) bmCmd {
	n := len(ids)
	cmd := bmCmd{Op: "search"}
	nq := 1 + r.Pick(6, 2, 2)
	if r.Chance(0.02) {
		nq = 0
	}
	for i := 0; i < nq; i++ {
		cmd.Queries = append(cmd.Queries, v.query(r, texts))
	}
	if nq > 1 && r.Chance(0.3) { // the same query twice: every per-query score doubles / stays / stays
		cmd.Queries[nq-1] = cmd.Queries[0]
	}
	cmd.Agg = []string{"sum", "max", "mean", "default"}[r.Intn(4)]
	if r.Chance(0.02) {
		cmd.Agg = "bad"
	}
	switch r.Pick(1, 2, 4, 5, 1) {
	case 0:
		cmd.K = -1
	case 1:
		cmd.K = 0
	case 2: // 1 … n+1
		cmd.K = r.Range(1, n+1)
	case 3: // small k: heap path with many candidates
		cmd.K = r.Range(1, 3)
	case 4:
		cmd.K, cmd.NoK = 10, true
	}
	switch r.Pick(6, 3, 2, 1, 1) {
	case 0:
	case 1:
		for _, id := range ids {
			if r.Chance(0.5) {
				cmd.Filter = append(cmd.Filter, id)
			}
		}
	case 2:
		for _, id := range ids {
			if r.Chance(0.4) {
				cmd.Filter = append(cmd.Filter, id)
			}
		}
		cmd.Filter = append(cmd.Filter, next+7, next+8)
	case 3:
		if n > 0 {
			cmd.Filter = []uint32{ids[r.Intn(n)]}
		} else {
			cmd.Filter = []uint32{next + 3}
		}
	case 4:
		cmd.Filter = append(cmd.Filter, ids...)
	}
	return cmd
}

// bmDict numbers normalised token strings in order of first appearance.
type bmDict struct {
	id map[string]int
}

func (d *bmDict) of(tok string) int {
	if i, ok := d.id[tok]; ok {
		return i
	}
	i := len(d.id)
	d.id[tok] = i
	return i
}

func (d *bmDict) list(toks []string) string {
	if len(toks) == 0 {
		return "-"
	}
	s := make([]string, len(toks))
	for i, t := range toks {
		s[i] = fmt.Sprint(d.of(t))
	}
	return strings.Join(s, ",")
}

func joinOrDash(items []string, sep string) string {
	if len(items) == 0 {
		return "-"
	}
	return strings.Join(items, sep)
}

func bmStateLine(idx *comet.BM25SearchIndex, d *bmDict) string {
	st := idx.VerifState()
	var lens, dfs, tfs, dels, dts []string
	ids := make([]uint32, 0, len(st.DocLengths))
	for id := range st.DocLengths {
		ids = append(ids, id)
	}
	sort.Slice(ids, func(i, j int) bool { return ids[i] < ids[j] })
	for _, id := range ids {
		lens = append(lens, fmt.Sprintf("%d:%d", id, st.DocLengths[id]))
	}
	// terms in sorted string order so that dictionary numbers are reproducible
	terms := make([]string, 0, len(st.DF))
	for t := range st.DF {
		terms = append(terms, t)
	}
	sort.Strings(terms)
	for _, t := range terms {
		dfs = append(dfs, fmt.Sprintf("%d:%d", d.of(t), st.DF[t]))
	}
	tterms := make([]string, 0, len(st.TF))
	for t := range st.TF {
		tterms = append(tterms, t)
	}
	sort.Strings(tterms)
	for _, t := range tterms {
		m := st.TF[t]
		dids := make([]uint32, 0, len(m))
		for id := range m {
			dids = append(dids, id)
		}
		sort.Slice(dids, func(i, j int) bool { return dids[i] < dids[j] })
		for _, id := range dids {
			tfs = append(tfs, fmt.Sprintf("%d:%d:%d", d.of(t), id, m[id]))
		}
	}
	for _, id := range st.Deleted {
		dels = append(dels, fmt.Sprint(id))
	}
	tids := make([]uint32, 0, len(st.DocTokens))
	for id := range st.DocTokens {
		tids = append(tids, id)
	}
	sort.Slice(tids, func(i, j int) bool { return tids[i] < tids[j] })
	for _, id := range tids {
		ts := make([]string, len(st.DocTokens[id]))
		for i, t := range st.DocTokens[id] {
			ts[i] = fmt.Sprint(d.of(t))
		}
		dts = append(dts, fmt.Sprintf("%d:%s", id, strings.Join(ts, ".")))
	}
	return fmt.Sprintf("op state => n=%d tot=%d avg=%s len=%s df=%s tf=%s del=%s dt=%s",
		st.NumDocs, st.TotalTokens, core.Hex64(st.AvgDocLen), joinOrDash(lens, ","), joinOrDash(dfs, ","),
		joinOrDash(tfs, ","), joinOrDash(dels, ","), joinOrDash(dts, ";"))
}

// bmErr: "ok", or the CLASS of the error — informational only (guessed from the message text,
// which no property constrains); the driver compares success against failure (Proto.lean, sameOutcome).
func bmErr(err error) string {
	switch {
	case err == nil:
		return "ok"
	case strings.Contains(err.Error(), "must specify either"):
		return "noquery"
	case strings.Contains(err.Error(), "unknown aggregation kind"):
		return "badagg"
	default:
		return "other"
	}
}

func execBM(c *bmCase) []string {
	lines := []string{"begin bm25"}
	idx := comet.NewBM25SearchIndex()
	d := &bmDict{id: map[string]int{}}
	// search objects are executed at once, at once and again after the next Add / Remove / Flush,
	// or only after it (rexec.go); the search line is emitted where the Execute happens
	var rex rexQueue
	for _, cmd := range c.Cmds {
		switch cmd.Op {
		case "add":
			toks := bmTokenize(cmd.Text)
			err := idx.Add(cmd.ID, cmd.Text)
			lines = append(lines, fmt.Sprintf("op add %d %s => %s", cmd.ID, d.list(toks), bmErr(err)))
			lines = append(lines, bmStateLine(idx, d))
			rex.run()
		case "remove":
			err := idx.Remove(cmd.ID)
			lines = append(lines, fmt.Sprintf("op remove %d => %s", cmd.ID, bmErr(err)))
			lines = append(lines, bmStateLine(idx, d))
			rex.run()
		case "flush":
			err := idx.Flush()
			lines = append(lines, "op flush => "+bmErr(err))
			lines = append(lines, bmStateLine(idx, d))
			rex.run()
		case "search":
			cmd := cmd
			s := idx.NewSearch().WithQuery(cmd.Queries...)
			if !cmd.NoK {
				s = s.WithK(cmd.K)
			}
			switch cmd.Agg {
			case "default":
			case "bad":
				s = s.WithScoreAggregation(comet.ScoreAggregationKind("median"))
			default:
				s = s.WithScoreAggregation(comet.ScoreAggregationKind(cmd.Agg))
			}
			if len(cmd.Filter) > 0 {
				s = s.WithDocumentIDs(cmd.Filter...)
			}
			rex.next(func() {
				res, err := s.Execute()
				var b strings.Builder
				if err != nil {
					b.WriteString("err " + bmErr(err))
				} else {
					b.WriteString("ok")
					for _, h := range res {
						fmt.Fprintf(&b, " %d:%s", h.GetId(), core.Hex32(h.GetScore()))
					}
				}
				qs := make([]string, len(cmd.Queries))
				for i, q := range cmd.Queries {
					qs[i] = d.list(bmTokenize(q))
				}
				k := cmd.K
				if cmd.NoK {
					k = 10
				}
				lines = append(lines, strings.TrimRight(fmt.Sprintf("op search %d %s %s %s", k, core.IDs(cmd.Filter), cmd.Agg,
					strings.Join(qs, " ")), " ")+" => "+b.String())
			})
		}
	}
	rex.run()
	return append(lines, "end")
}

// bmKV extracts key=value integers from an "ok …" reply.
func bmKV(reply string) map[string]int {
	m := map[string]int{}
	for _, t := range strings.Fields(reply) {
		if i := strings.IndexByte(t, '='); i > 0 {
			var v int
			if _, err := fmt.Sscan(t[i+1:], &v); err == nil {
				m[t[:i]] = v
			}
		}
	}
	return m
}

func nonTrivialBM(lines, replies []string) bool {
	for i, l := range lines {
		if strings.HasPrefix(l, "op search") && i < len(replies) && strings.HasPrefix(replies[i], "ok n=") {
			m := bmKV(replies[i])
			if m["n"] > 0 && (m["tomb"] == 1 || m["repl"] == 1 || m["filt"] == 1 || m["trunc"] == 1 || m["multi"] == 1 || m["dupq"] == 1) {
				return true
			}
		}
	}
	return false
}

func init() {
	register(&core.Typed[bmCase]{
		StreamName: "bm25", Prop: "C03",
		RuleText: "random Add-fresh / Add-existing (replace, incl. re-add of a removed id) / Remove / Remove-absent / Flush histories over a vocabulary of 12-40 raw words (always incl. \"É\", \"ﬁ\", Kelvin sign, \" \", \",\"; plus other compatibility / case / CJK / emoji spellings), empty and separator-only texts, duplicate texts (exact ties), repeated tokens; the implementation gets raw text, the model gets the harness' own tokenisation; after every mutation the exported state is compared field by field; searches with repeated / unknown query tokens, k in {-1,0,1..n+1,default}, id restrictions incl. absent ids, 0..3 queries x sum/max/mean/default/unknown aggregation; a case is non-trivial when some search returned a non-empty answer AND (a removed-but-unflushed document was counted in the statistics OR a replace preceded it OR the id restriction excluded a matching document OR k truncated the matches OR several queries were aggregated OR a query repeated a token); distinct = distinct request streams",
		NCases: func(tier string) int {
			if tier == "thorough" {
				return 24000
			}
			return 800
		},
		GenF:  genBM,
		ExecF: execBM,
		LenF:  func(c *bmCase) int { return len(c.Cmds) },
		DropF: func(c *bmCase, lo, hi int) *bmCase {
			n := &bmCase{}
			n.Cmds = append(n.Cmds, c.Cmds[:lo]...)
			n.Cmds = append(n.Cmds, c.Cmds[hi:]...)
			return n
		},
		NonTrivialF: nonTrivialBM,
	})
}
