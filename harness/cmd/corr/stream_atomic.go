package main

// Stream "atomic" (C06): histories of Add / AddWithID / Remove / Flush on a hybrid index
// (every combination of configured sub-indexes, exhaustive vector kinds) with adds that
// fail in the 1st sub-index (wrong dimension, zero vector under cosine) or the 3rd
// (unsupported metadata value type), removal of unknown ids and id reuse after removal
// with a flush before / between / after. After EVERY op the harness probes all three
// modalities through the hybrid search and through each sub-index directly; the Lean
// driver compares what is found with the model's `observe` (Comet/Hybrid.lean).

import (
	"fmt"
	"math"
	"strings"

	comet "github.com/wizenheimer/comet"
	"verifharness/internal/core"
)

type atomicKV struct {
	K    string `json:"k"`
	V    string `json:"v"`
	Kind string `json:"kind"` // int | str | bool | bad
}

type atomicCmd struct {
	Op   string     `json:"op"` // add | addid | remove | flush | pvec | ptxt | pmeta
	Slot int        `json:"slot,omitempty"`
	Vec  []uint32   `json:"vec,omitempty"`
	Text string     `json:"text,omitempty"`
	Meta []atomicKV `json:"meta,omitempty"`
	Word string     `json:"word,omitempty"`
	K    string     `json:"k,omitempty"`
	V    string     `json:"v,omitempty"`
	Kind string     `json:"kind,omitempty"`
}

type atomicCase struct {
	HasV, HasT, HasM bool
	VKind            string     `json:"vkind"`
	Dim              int        `json:"dim"`
	Metric           string     `json:"metric"`
	NList            int        `json:"nlist"`
	Train            [][]uint32 `json:"train,omitempty"`
	FixedIDs         []uint32   `json:"fixed_ids"` // slot i < len(FixedIDs) uses AddWithID with this id
	Cmds             []atomicCmd
}

func genAtomic(r *core.Rand, tier string) *atomicCase {
	c := &atomicCase{HasV: r.Chance(0.8), HasT: r.Chance(0.8), HasM: r.Chance(0.8)}
	c.VKind = []string{"flat", "flat", "ivf", "pq", "ivfpq", "hnsw"}[r.Intn(6)] // hnsw: at most 9 resident vertices with M=8, the exact regime of C12
	c.Metric = metrics[r.Intn(3)]
	c.Dim = 2 * r.Range(1, 4)
	c.NList = r.Range(1, 3)
	if c.VKind != "flat" {
		n := 40 + r.Intn(30)
		for i := 0; i < n; i++ {
			v := make([]float32, c.Dim)
			for j := range v {
				v[j] = float32(r.Norm()*3) + float32(i%5)
			}
			c.Train = append(c.Train, core.Bits(v))
		}
	}
	nfixed := r.Range(2, 5)
	for i := 0; i < nfixed; i++ {
		c.FixedIDs = append(c.FixedIDs, 3_000_000_000+uint32(r.Intn(1000))*7+uint32(i))
	}
	nslots := nfixed + r.Range(1, 4) // the rest are auto-id slots
	live := make([]bool, nslots)
	tomb := make([]bool, nslots) // removed and (as far as the generator knows) not yet purged
	version := make([]int, nslots)
	everAdded := make([]bool, nslots)
	maxOps := 25
	if tier == "thorough" {
		maxOps = 70
	}
	nops := r.Range(3, maxOps)
	lastDoc := map[int]atomicCmd{}
	mkDoc := func(slot int, fail int) (cmd atomicCmd) {
		if prev, ok := lastDoc[slot]; ok && fail == 0 && r.Chance(0.2) {
			// update with unchanged content (same vector, text and metadata as before)
			return atomicCmd{Slot: slot, Vec: prev.Vec, Text: prev.Text, Meta: prev.Meta}
		}
		version[slot]++
		ver := version[slot]
		cmd = atomicCmd{Slot: slot}
		defer func() {
			if fail == 0 {
				lastDoc[slot] = cmd
			}
		}()
		if r.Chance(0.85) || fail == 1 {
			v := make([]float32, c.Dim)
			for j := range v {
				v[j] = float32(r.Range(-4, 4)) + float32(r.Norm())*0.25
			}
			if v[0] == 0 {
				v[0] = 1
			}
			if fail == 1 {
				if c.Metric == "cosine" && r.Chance(0.7) {
					for j := range v {
						v[j] = 0
					}
				} else {
					v = append(v, 1)
				}
			}
			cmd.Vec = core.Bits(v)
		}
		if r.Chance(0.85) {
			cmd.Text = fmt.Sprintf("w%dx%d+common", slot, ver)
			if r.Chance(0.3) {
				cmd.Text += fmt.Sprintf("+w%dx%d", slot, ver) // repeated token
			}
		}
		if r.Chance(0.85) || fail == 3 {
			cmd.Meta = []atomicKV{{K: "n", V: fmt.Sprint(slot*100 + ver), Kind: "int"},
				{K: "tag", V: fmt.Sprintf("t%d", ver%3), Kind: "str"}}
			if r.Chance(0.3) {
				cmd.Meta = append(cmd.Meta, atomicKV{K: "flag", V: fmt.Sprint(ver%2 == 0), Kind: "bool"})
			}
			if fail == 3 {
				bad := atomicKV{K: "zbad", V: "!", Kind: []string{"bad", "bad_f32", "bad_i32", "bad_u", "bad_nil", "bad_map"}[r.Intn(6)]}
				i := r.Intn(len(cmd.Meta) + 1)
				cmd.Meta = append(cmd.Meta[:i], append([]atomicKV{bad}, cmd.Meta[i:]...)...)
			}
		}
		return cmd
	}
	probes := func(slot int) {
		q := make([]float32, c.Dim)
		for j := range q {
			q[j] = float32(r.Range(-4, 4)) + 0.5
		}
		c.Cmds = append(c.Cmds, atomicCmd{Op: "pvec", Vec: core.Bits(q)})
		c.Cmds = append(c.Cmds, atomicCmd{Op: "ptxt", Word: "common"})
		if slot >= 0 {
			for ver := version[slot]; ver >= 1 && ver >= version[slot]-1; ver-- {
				c.Cmds = append(c.Cmds, atomicCmd{Op: "ptxt", Word: fmt.Sprintf("w%dx%d", slot, ver)})
				c.Cmds = append(c.Cmds, atomicCmd{Op: "pmeta", K: "n", V: fmt.Sprint(slot*100 + ver), Kind: "int"})
			}
		}
		c.Cmds = append(c.Cmds, atomicCmd{Op: "pmeta", K: "tag", V: fmt.Sprintf("t%d", r.Intn(3)), Kind: "str"})
	}
	for i := 0; i < nops; i++ {
		switch r.Pick(8, 5, 2) {
		case 0: // add into a free slot (fresh, or reuse after removal)
			var free []int
			for s := range live {
				if !live[s] {
					free = append(free, s)
				}
			}
			if len(free) == 0 {
				continue
			}
			slot := free[r.Intn(len(free))]
			fail := 0
			switch r.Pick(11, 3, 2) {
			case 1:
				if c.HasV {
					fail = 1
				}
			case 2:
				if c.HasM {
					fail = 3
				}
			}
			if fail != 0 {
				// a failing add is most dangerous on an id that is still tombstoned (removed, not yet purged)
				var ts []int
				for s := range live {
					if !live[s] && tomb[s] {
						ts = append(ts, s)
					}
				}
				if len(ts) > 0 && r.Chance(0.7) {
					slot = ts[r.Intn(len(ts))]
				}
			}
			cmd := mkDoc(slot, fail)
			if fail == 0 {
				tomb[slot] = false
			}
			if slot < len(c.FixedIDs) || everAdded[slot] {
				cmd.Op = "addid"
			} else {
				cmd.Op = "add"
			}
			c.Cmds = append(c.Cmds, cmd)
			if fail == 0 {
				live[slot] = true
				everAdded[slot] = true
			} else if cmd.Op == "add" {
				everAdded[slot] = true // the auto id was drawn; reuse it with AddWithID
			}
			probes(slot)
		case 1: // remove: mostly live slots, sometimes unknown / already removed
			slot := r.Intn(nslots)
			if r.Chance(0.7) {
				var ls []int
				for s := range live {
					if live[s] {
						ls = append(ls, s)
					}
				}
				if len(ls) > 0 {
					slot = ls[r.Intn(len(ls))]
				}
			}
			c.Cmds = append(c.Cmds, atomicCmd{Op: "remove", Slot: slot})
			if live[slot] {
				tomb[slot] = true
			}
			live[slot] = false
			probes(slot)
		case 2:
			c.Cmds = append(c.Cmds, atomicCmd{Op: "flush"})
			for s := range tomb {
				tomb[s] = false
			}
			probes(-1)
		}
	}
	return c
}

func textArg(t string) string {
	if t == "" {
		return "-"
	}
	return t
}

func metaArg(m []atomicKV) string {
	if len(m) == 0 {
		return "-"
	}
	parts := make([]string, len(m))
	for i, kv := range m {
		parts[i] = kv.K + "=" + kv.V
	}
	return strings.Join(parts, ",")
}

func metaValue(kv atomicKV) interface{} {
	switch kv.Kind {
	case "int":
		var n int
		fmt.Sscan(kv.V, &n)
		return n
	case "bool":
		return kv.V == "true"
	case "bad":
		return []int{1, 2}
	case "bad_f32":
		return float32(1.5)
	case "bad_i32":
		return int32(7)
	case "bad_u":
		return uint(7)
	case "bad_nil":
		return nil
	case "bad_map":
		return map[string]int{"a": 1}
	default:
		return kv.V
	}
}

func buildVector(kind string, dim int, metric string, nlist int) (comet.VectorIndex, error) {
	dk := comet.DistanceKind(metric)
	switch kind {
	case "flat":
		return comet.NewFlatIndex(dim, dk)
	case "ivf":
		return comet.NewIVFIndex(dim, nlist, dk)
	case "pq":
		return comet.NewPQIndex(dim, dk, 2, 3)
	case "ivfpq":
		return comet.NewIVFPQIndex(dim, dk, nlist, 2, 3)
	case "hnsw":
		return comet.NewHNSWIndex(dim, dk, 8, 64, 64)
	}
	return nil, fmt.Errorf("unknown kind %s", kind)
}

func idsLine(prefix string, ids []uint32) string {
	var b strings.Builder
	b.WriteString(prefix)
	for _, id := range ids {
		fmt.Fprintf(&b, " %d", id)
	}
	return b.String()
}

func execAtomic(c *atomicCase) []string {
	b2s := func(b bool) string {
		if b {
			return "1"
		}
		return "0"
	}
	lines := []string{fmt.Sprintf("begin atomic %s %s %s %d %s %s", b2s(c.HasV), b2s(c.HasT), b2s(c.HasM), c.Dim, c.Metric, c.VKind)}
	var vec comet.VectorIndex
	var txt comet.TextIndex
	var meta comet.MetadataIndex
	if c.HasV {
		v, err := buildVector(c.VKind, c.Dim, c.Metric, c.NList)
		if err != nil {
			return append(lines, "op panic constructor: "+err.Error(), "end")
		}
		vec = v
	}
	if c.HasT {
		txt = comet.NewBM25SearchIndex()
	}
	if c.HasM {
		meta = comet.NewRoaringMetadataIndex()
	}
	idx := comet.NewHybridSearchIndex(vec, txt, meta)
	if c.HasV && len(c.Train) > 0 {
		tr := make([][]float32, len(c.Train))
		for i, t := range c.Train {
			tr[i] = core.FromBits(t)
		}
		if err := idx.Train(tr); err != nil {
			return append(lines, "op panic train: "+err.Error(), "end")
		}
	}
	slotID := map[int]uint32{}
	for i, id := range c.FixedIDs {
		slotID[i] = id
	}
	const bigK = 100000
	// the search objects of a probe (hybrid and per sub-index) are executed at once, at once and
	// again after the next Add / AddWithID / Remove / Flush, or only after it (rexec.go); the probe
	// lines are emitted where the Execute happens
	var rex rexQueue
	for _, cmd := range c.Cmds {
		switch cmd.Op {
		case "add", "addid":
			var v []float32
			if cmd.Vec != nil {
				v = core.FromBits(cmd.Vec)
			}
			var m map[string]interface{}
			if len(cmd.Meta) > 0 {
				m = map[string]interface{}{}
				for _, kv := range cmd.Meta {
					m[kv.K] = metaValue(kv)
				}
			}
			arg := append([]float32(nil), v...)
			if cmd.Vec == nil {
				arg = nil
			}
			// what the API receives may carry, after the words the model knows, bytes no probe ever
			// asks for: ill-formed UTF-8, a NUL, a long tail (any text is a legal text)
			apiText := cmd.Text
			if cmd.Text != "" {
				switch (len(cmd.Text) + cmd.Slot) % 7 {
				case 0:
					apiText += " caf\xe9 latte"
				case 1:
					apiText += " \xff\xfe"
				case 2:
					apiText += " \x00"
				case 3:
					apiText += strings.Repeat(" zz", 3000)
				}
			}
			id, known := slotID[cmd.Slot]
			if cmd.Op == "add" && !known {
				nid, err := idx.Add(arg, apiText, m)
				slotID[cmd.Slot] = nid
				res := "ok"
				if err != nil {
					res = "err"
				}
				lines = append(lines, fmt.Sprintf("op add %s %s %s => %s %d", core.VecHex(v), textArg(cmd.Text), metaArg(cmd.Meta), res, nid))
			} else {
				err := idx.AddWithID(id, arg, apiText, m)
				res := "ok"
				if err != nil {
					res = "err"
				}
				lines = append(lines, fmt.Sprintf("op addid %d %s %s %s => %s", id, core.VecHex(v), textArg(cmd.Text), metaArg(cmd.Meta), res))
			}
			rex.run()
		case "remove":
			id, known := slotID[cmd.Slot]
			if !known {
				id = 2_900_000_000 + uint32(cmd.Slot) // an id that was never added
			}
			err := idx.Remove(id)
			res := "ok"
			if err != nil {
				res = "err"
			}
			lines = append(lines, fmt.Sprintf("op remove %d => %s", id, res))
			rex.run()
		case "flush":
			res := "ok"
			if err := idx.Flush(); err != nil {
				res = "err"
			}
			lines = append(lines, "op flush => "+res)
			rex.run()
		case "pvec":
			q := core.FromBits(cmd.Vec)
			// through the hybrid search
			hs := idx.NewSearch().WithVector(append([]float32(nil), q...)).WithK(bigK).WithNProbes(c.NList + 5)
			// through the vector index directly; an id stored twice shows as sum != max aggregation
			// of its per-entry scores
			var ss, ms comet.VectorSearch
			if vec != nil {
				ss = vec.NewSearch().WithQuery(append([]float32(nil), q...)).WithK(bigK).WithNProbes(c.NList + 5)
				ms = vec.NewSearch().WithQuery(append([]float32(nil), q...)).WithK(bigK).WithNProbes(c.NList + 5).
					WithScoreAggregation(comet.MaxAggregation)
			}
			rex.next(func() {
				hres, err := hs.Execute()
				out := "err"
				if err == nil {
					var b strings.Builder
					b.WriteString("ok")
					for _, h := range hres {
						fmt.Fprintf(&b, " %d:%s", h.ID, core.Hex32(float32(h.Score)))
					}
					out = b.String()
				}
				lines = append(lines, fmt.Sprintf("op probevec h %s => %s", core.VecHex(q), out))
				if vec != nil {
					sres, err := ss.Execute()
					out = "err"
					if err == nil {
						out = hitsLine(sres)
					}
					lines = append(lines, fmt.Sprintf("op probevec s %s => %s", core.VecHex(q), out))
					mres, err2 := ms.Execute()
					if err == nil && err2 == nil {
						lines = append(lines, fmt.Sprintf("op probedup %s | %s => ok", strings.TrimPrefix(hitsLine(sres), "ok"), strings.TrimPrefix(hitsLine(mres), "ok")))
					}
				}
			})
		case "ptxt":
			hs := idx.NewSearch().WithText(cmd.Word).WithK(bigK)
			var ss comet.TextSearch
			if txt != nil {
				ss = txt.NewSearch().WithQuery(cmd.Word).WithK(bigK)
			}
			rex.next(func() {
				hres, err := hs.Execute()
				out := "err"
				if err == nil {
					ids := make([]uint32, len(hres))
					for i, h := range hres {
						ids[i] = h.ID
					}
					out = idsLine("ok", ids)
				}
				lines = append(lines, fmt.Sprintf("op probetxt h %s => %s", cmd.Word, out))
				if txt != nil {
					sres, err := ss.Execute()
					out = "err"
					if err == nil {
						ids := make([]uint32, len(sres))
						for i, h := range sres {
							ids[i] = h.GetId()
						}
						out = idsLine("ok", ids)
					}
					lines = append(lines, fmt.Sprintf("op probetxt s %s => %s", cmd.Word, out))
				}
			})
		case "pmeta":
			f := comet.Eq(cmd.K, metaValue(atomicKV{K: cmd.K, V: cmd.V, Kind: cmd.Kind}))
			// the same field through Exists (its own code path and caches)
			fe := comet.Exists(cmd.K)
			hs, hse := idx.NewSearch().WithMetadata(f).WithK(bigK), idx.NewSearch().WithMetadata(fe).WithK(bigK)
			var ss, sse comet.MetadataSearch
			if meta != nil {
				ss, sse = meta.NewSearch().WithFilters(f), meta.NewSearch().WithFilters(fe)
			}
			hIDs := func(hres []comet.HybridSearchResult, err error) string {
				if err != nil {
					return "err"
				}
				ids := make([]uint32, len(hres))
				for i, h := range hres {
					ids[i] = h.ID
				}
				return idsLine("ok", ids)
			}
			sIDs := func(sres []comet.MetadataResult, err error) string {
				if err != nil {
					return "err"
				}
				ids := make([]uint32, len(sres))
				for i, h := range sres {
					ids[i] = h.GetId()
				}
				return idsLine("ok", ids)
			}
			rex.next(func() {
				lines = append(lines, fmt.Sprintf("op probemeta h %s %s => %s", cmd.K, cmd.V, hIDs(hs.Execute())))
				if meta != nil {
					lines = append(lines, fmt.Sprintf("op probemeta s %s %s => %s", cmd.K, cmd.V, sIDs(ss.Execute())))
				}
				lines = append(lines, fmt.Sprintf("op probeex h %s => %s", cmd.K, hIDs(hse.Execute())))
				if meta != nil {
					lines = append(lines, fmt.Sprintf("op probeex s %s => %s", cmd.K, sIDs(sse.Execute())))
				}
			})
		}
	}
	rex.run()
	_ = math.Pi
	return append(lines, "end")
}

func nonTrivialAtomic(lines, replies []string) bool {
	rejected, removed, readd, found := false, false, false, false
	removedIDs := map[string]bool{}
	for i, l := range lines {
		f := strings.Fields(l)
		if len(f) < 3 || i >= len(replies) {
			continue
		}
		switch f[1] {
		case "add", "addid":
			if strings.Contains(replies[i], "rejected=1") {
				rejected = true
			}
			if f[1] == "addid" && removedIDs[f[2]] && strings.HasSuffix(l, "=> ok") {
				readd = true
			}
		case "remove":
			if strings.HasSuffix(l, "=> ok") {
				removed = true
				removedIDs[f[2]] = true
			}
		case "probevec", "probetxt", "probemeta":
			if strings.HasPrefix(replies[i], "ok n=") && !strings.HasPrefix(replies[i], "ok n=0") {
				found = true
			}
		}
	}
	return found && (rejected || removed || readd)
}

func init() {
	register(&core.Typed[atomicCase]{
		StreamName: "atomic", Prop: "C06",
		RuleText: "hybrid index over every combination of configured sub-indexes (vector kinds flat/ivf/pq/ivfpq at full probe and hnsw in its exact small regime, 3 metrics); histories of Add/AddWithID/Remove/Flush with adds failing in the 1st (wrong dimension, zero vector under cosine) or 3rd (unsupported metadata type) sub-index, removal of unknown ids, id reuse after removal with flushes anywhere; after every op vector/text/metadata probes through the hybrid search and each sub-index directly; non-trivial = some probe found a document AND (an add was rejected OR a removal succeeded OR a removed id was re-added); distinct = distinct request streams",
		NCases: func(tier string) int {
			if tier == "thorough" {
				return 30000
			}
			return 300
		},
		GenF:  genAtomic,
		ExecF: execAtomic,
		LenF:  func(c *atomicCase) int { return len(c.Cmds) },
		DropF: func(c *atomicCase, lo, hi int) *atomicCase {
			n := *c
			n.Cmds = append(append([]atomicCmd(nil), c.Cmds[:lo]...), c.Cmds[hi:]...)
			return &n
		},
		NonTrivialF: nonTrivialAtomic,
	})
}
