package main

// Guarded reads. Every ReadFrom of a truncated, foreign or mismatched stream — and every
// search over a store with a damaged segment — runs in a child process (this same binary,
// first argument "-readchild"), for two reasons:
//   * a ReadFrom that (wrongly) goes on after a bad header interprets arbitrary bytes as
//     counts and may ask for gigabytes: the child runs under an address-space limit and
//     its death is an outcome of the implementation ("crashed"), not of the harness;
//   * a ReadFrom that does not RETURN (C16: "never hangs") must cost a few seconds, not
//     the run: every answer line has a deadline; on expiry the child is killed (so the
//     spinning read stops burning CPU) and the outcome of that job is "hang".
// The child answers one line per job item and flushes it, so the parent always knows on
// which item the child died or stalled.

import (
	"bufio"
	"encoding/hex"
	"encoding/json"
	"fmt"
	"os"
	"os/exec"
	"runtime/debug"
	"sync/atomic"
	"syscall"
	"time"
)

// cdcReadJob is one job for the child:
//
//	T = "read" (default): ReadFrom(B) into a fresh index of parameters P        → 1 line
//	T = "prefixes":       ReadFrom(B[:n]) for every n in Lens                    → len(Lens) lines
//	T = "probe":          reopen the store in Dir and probe it per modality      → 1 line (JSON)
type cdcReadJob struct {
	T    string      `json:"t,omitempty"`
	P    cdcCparams  `json:"p"`
	B    string      `json:"b,omitempty"` // hex
	Lens []int       `json:"lens,omitempty"`
	Dir  string      `json:"dir,omitempty"`
	Pr   cdcSegProbe `json:"pr,omitempty"`
}

type cdcProbeAnswer struct {
	V, T, M, Cached, Err string
}

func init() {
	if len(os.Args) > 1 && os.Args[1] == "-readchild" {
		lim := uint64(6) << 30
		syscall.Setrlimit(syscall.RLIMIT_AS, &syscall.Rlimit{Cur: lim, Max: lim})
		debug.SetGCPercent(50)
		in := bufio.NewReaderSize(os.Stdin, 1<<20)
		out := bufio.NewWriter(os.Stdout)
		for {
			line, err := in.ReadBytes('\n')
			if len(line) > 1 {
				var j cdcReadJob
				if json.Unmarshal(line, &j) != nil {
					fmt.Fprintln(out, "p bad job")
					out.Flush()
				} else {
					switch j.T {
					case "prefixes":
						b, _ := hex.DecodeString(j.B)
						for _, n := range j.Lens {
							if n > len(b) {
								n = len(b)
							}
							o, _, msg := cdcReadOutcome(j.P, b[:n])
							fmt.Fprintf(out, "%c %s\n", o, msg)
							out.Flush()
						}
					case "probe":
						var a cdcProbeAnswer
						a.V, a.T, a.M, a.Cached, a.Err = cdcProbeStore(j.Dir, j.P, j.Pr)
						enc, _ := json.Marshal(a)
						out.Write(enc)
						out.WriteByte('\n')
						out.Flush()
					default:
						b, _ := hex.DecodeString(j.B)
						o, _, msg := cdcReadOutcome(j.P, b)
						fmt.Fprintf(out, "%c %s\n", o, msg)
						out.Flush()
					}
				}
			}
			if err != nil {
				os.Exit(0)
			}
		}
	}
}

// the deadline of one answer: generous against the largest legitimate read (milliseconds);
// once a hang has been seen in this run the later ones are given less
var cdcHangSeen atomic.Bool

func cdcDeadline() time.Duration {
	if cdcHangSeen.Load() {
		return 3 * time.Second
	}
	return 10 * time.Second
}

// cdcChild is one guarded child process.
type cdcChild struct {
	cmd   *exec.Cmd
	in    *bufio.Writer
	lines chan string // answer lines; closed when the child's stdout ends
}

func cdcStartChild() *cdcChild {
	cmd := exec.Command(os.Args[0], "-readchild")
	stdin, err1 := cmd.StdinPipe()
	stdout, err2 := cmd.StdoutPipe()
	if err1 != nil || err2 != nil || cmd.Start() != nil {
		return nil
	}
	c := &cdcChild{cmd: cmd, in: bufio.NewWriterSize(stdin, 1<<16), lines: make(chan string, 4096)}
	go func() {
		rd := bufio.NewReaderSize(stdout, 1<<16)
		for {
			l, err := rd.ReadString('\n')
			if len(l) > 0 && l[len(l)-1] == '\n' {
				c.lines <- l[:len(l)-1]
			}
			if err != nil {
				close(c.lines)
				return
			}
		}
	}()
	return c
}

func (c *cdcChild) kill() {
	if c == nil || c.cmd == nil {
		return
	}
	c.cmd.Process.Kill()
	c.cmd.Wait()
	c.cmd = nil
}

// cdcGuard runs jobs in a child that is restarted whenever it dies or stalls.
type cdcGuard struct{ c *cdcChild }

func (g *cdcGuard) close() {
	g.c.kill()
	g.c = nil
}

// ask sends one job and collects its n answer lines. status: "" = all answered,
// "crashed" = the child died before answer number len(answers), "hang" = that answer did
// not arrive before the deadline (the child is killed either way), "nochild" = no child
// process could be started.
func (g *cdcGuard) ask(j cdcReadJob, n int) (answers []string, status string) {
	if g.c == nil {
		g.c = cdcStartChild()
		if g.c == nil {
			return nil, "nochild"
		}
	}
	enc, _ := json.Marshal(j)
	g.c.in.Write(enc)
	g.c.in.WriteByte('\n')
	if g.c.in.Flush() != nil {
		g.close()
		return nil, "crashed"
	}
	for len(answers) < n {
		timer := time.NewTimer(cdcDeadline())
		select {
		case l, ok := <-g.c.lines:
			timer.Stop()
			if !ok {
				g.close()
				return answers, "crashed"
			}
			answers = append(answers, l)
		case <-timer.C:
			cdcHangSeen.Store(true)
			g.close()
			return answers, "hang"
		}
	}
	return answers, ""
}

const cdcCrashMsg = "crashed (child process died: out of memory or fatal error)"
const cdcHangMsg = "did not return (no answer before the deadline; the reading process was killed)"

// read runs one ReadFrom; outcomes 'e' / 'o' / 'p' (panic or crash) / 'h' (hang).
func (g *cdcGuard) read(p cdcCparams, b []byte) (byte, string) {
	a, st := g.ask(cdcReadJob{P: p, B: cdcHexStr(b)}, 1)
	switch st {
	case "crashed":
		return 'p', cdcCrashMsg
	case "hang":
		return 'h', cdcHangMsg
	case "nochild":
		o, _, msg := cdcReadOutcome(p, b)
		return o, msg
	}
	return cdcParseOutcome(a[0])
}

func cdcParseOutcome(l string) (byte, string) {
	if len(l) == 0 {
		return 'p', "empty answer"
	}
	if len(l) > 2 {
		return l[0], l[2:]
	}
	return l[0], ""
}

// prefixes reads b[:n] for every n of lens, in order, and stops at the first length on
// which ReadFrom crashed or did not return (outs is then shorter than lens + that one).
func (g *cdcGuard) prefixes(p cdcCparams, b []byte, lens []int) (outs []byte, msgs []string) {
	for len(outs) < len(lens) {
		rest := lens[len(outs):]
		if len(rest) > 1024 {
			rest = rest[:1024]
		}
		a, st := g.ask(cdcReadJob{T: "prefixes", P: p, B: cdcHexStr(b), Lens: rest}, len(rest))
		for _, l := range a {
			o, m := cdcParseOutcome(l)
			outs, msgs = append(outs, o), append(msgs, m)
		}
		switch st {
		case "crashed":
			return append(outs, 'p'), append(msgs, cdcCrashMsg)
		case "hang":
			return append(outs, 'h'), append(msgs, cdcHangMsg)
		case "nochild":
			for _, n := range rest {
				o, _, m := cdcReadOutcome(p, b[:n])
				outs, msgs = append(outs, o), append(msgs, m)
			}
		}
	}
	return
}

// probe reopens the store in dir in the child and probes it; status as in ask.
func (g *cdcGuard) probe(dir string, p cdcCparams, pr cdcSegProbe) (v, t, m, cached, perr, status string) {
	a, st := g.ask(cdcReadJob{T: "probe", P: p, Dir: dir, Pr: pr}, 1)
	if st == "nochild" {
		v, t, m, cached, perr = cdcProbeStore(dir, p, pr)
		return v, t, m, cached, perr, ""
	}
	if st != "" {
		return "-", "-", "-", "0", "", st
	}
	var ans cdcProbeAnswer
	if json.Unmarshal([]byte(a[0]), &ans) != nil {
		return "-", "-", "-", "0", "bad probe answer", ""
	}
	return ans.V, ans.T, ans.M, ans.Cached, ans.Err, ""
}
