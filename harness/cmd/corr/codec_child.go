package main

// Guarded reads. Every ReadFrom of a truncated, foreign or mismatched stream — and every
// search over a store with a damaged segment — runs in a child process (this same binary,
// first argument "-readchild"), for two reasons:
//   * a ReadFrom that (wrongly) goes on after a bad header interprets arbitrary bytes as
//     counts and may ask for gigabytes: the child runs under an address-space limit and
//     its death is an outcome of the implementation ("crashed"), not of the harness;
//   * a ReadFrom that does not RETURN (C16: "never hangs") must cost a few seconds, not
//     the run: every answer line has a deadline; on expiry the child is killed (so the
//     spinning read stops burning CPU) and the outcome of that job is "hang".
// The child answers one line per job item and flushes it, so the parent always knows on
// which item the child died or stalled.

import (
	"bufio"
	"encoding/hex"
	"encoding/json"
	"fmt"
	"os"
	"os/exec"
	"runtime"
	"runtime/debug"
	"strings"
	"sync"
	"sync/atomic"
	"syscall"
	"time"
)

// cdcReadJob is one job for the child:
//
//	T = "read" (default): ReadFrom(B) into a fresh index of parameters P        → 1 line
//	T = "prefixes":       ReadFrom(B[:n]) for every n in Lens                    → len(Lens) lines
//	T = "probe":          reopen the store in Dir and probe it per modality      → 1 line (JSON)
type cdcReadJob struct {
	T      string      `json:"t,omitempty"`
	P      cdcCparams  `json:"p"`
	B      string      `json:"b,omitempty"` // hex
	Lens   []int       `json:"lens,omitempty"`
	Mode   int         `json:"mode,omitempty"` // reader the bytes are delivered through (codec_readers.go)
	Seed   uint64      `json:"seed,omitempty"`
	Bounds []int       `json:"bounds,omitempty"`
	Pieces []int       `json:"pieces,omitempty"`
	Dir    string      `json:"dir,omitempty"`
	Pr     cdcSegProbe `json:"pr,omitempty"`
}

type cdcProbeAnswer struct {
	V, T, M, Cached, Err string
}

func init() {
	if len(os.Args) > 1 && os.Args[1] == "-readchild" {
		lim := uint64(3) << 30
		syscall.Setrlimit(syscall.RLIMIT_AS, &syscall.Rlimit{Cur: lim, Max: lim})
		debug.SetGCPercent(50)
		in := bufio.NewReaderSize(os.Stdin, 1<<20)
		out := bufio.NewWriter(os.Stdout)
		for {
			line, err := in.ReadBytes('\n')
			if len(line) > 1 {
				var j cdcReadJob
				if json.Unmarshal(line, &j) != nil {
					fmt.Fprintln(out, "p bad job")
					out.Flush()
				} else {
					switch j.T {
					case "prefixes":
						b, _ := hex.DecodeString(j.B)
						for k, n := range j.Lens {
							if n > len(b) {
								n = len(b)
							}
							// every prefix length through another reader (Mode < 0: all plain)
							mode := 0
							if j.Mode >= 0 {
								mode = (n + j.Mode) % len(cdcReaderModes)
							}
							if n > 8192 {
								// long prefixes: only the readers that cost O(1) calls per field
								switch cdcReaderModes[mode] {
								case "onebyte", "chunks1to7":
									mode = 3 // half
								case "gzipblocks":
									mode = 7 // multi
								}
							}
							var bs []int
							for _, x := range j.Bounds {
								if x <= n {
									bs = append(bs, x)
								}
							}
							o, _, msg := cdcReadOutcomeVia(j.P, b[:n], mode, j.Seed+uint64(n), bs, nil)
							fat := ""
							if k%64 == 63 || k == len(j.Lens)-1 {
								fat = cdcFatMark()
							}
							fmt.Fprintf(out, "%c %s%s\n", o, cdcOneLine(msg), fat)
							out.Flush()
						}
					case "probe":
						var a cdcProbeAnswer
						a.V, a.T, a.M, a.Cached, a.Err = cdcProbeStore(j.Dir, j.P, j.Pr)
						enc, _ := json.Marshal(a)
						out.Write(enc)
						out.WriteByte('\n')
						out.Flush()
					default:
						b, _ := hex.DecodeString(j.B)
						var m0, m1 runtime.MemStats
						runtime.ReadMemStats(&m0)
						o, idx, msg := cdcReadOutcomeVia(j.P, b, j.Mode, j.Seed, j.Bounds, j.Pieces)
						runtime.ReadMemStats(&m1)
						// a read that allocated hundreds of megabytes for a stream of a few KB took
						// garbage for a length, and an index that exports far more state than its stream
						// can hold was mis-read: the parent must not repeat either in its own process
						if o == 'o' && m1.TotalAlloc-m0.TotalAlloc > 512<<20 {
							o, msg = 'p', fmt.Sprintf("ReadFrom succeeded after allocating %d MB for a stream of %d bytes", (m1.TotalAlloc-m0.TotalAlloc)>>20, len(b))
						}
						if o == 'o' && idx != nil {
							func() {
								defer func() {
									if r := recover(); r != nil {
										o, msg = 'p', "exporting the state of the reloaded index panicked: "+fmt.Sprint(r)
									}
								}()
								size := 0
								for _, t := range idx.content() {
									size += len(t) + 1
								}
								if size > 256*(len(b)+1024) {
									o, msg = 'p', fmt.Sprintf("the reloaded index exports %d bytes of state for a stream of %d bytes", size, len(b))
								}
							}()
						}
						fmt.Fprintf(out, "%c %s%s\n", o, cdcOneLine(msg), cdcFatMark())
						out.Flush()
					}
				}
			}
			if err != nil {
				os.Exit(0)
			}
		}
	}
}

// cdcOneLine keeps an answer on one line (error texts quote bytes of the stream).
func cdcOneLine(s string) string {
	return strings.Map(func(r rune) rune {
		if r < 0x20 || r == 0x7f {
			return ' '
		}
		return r
	}, s)
}

// cdcFatMark is appended to an answer when the child's memory has grown large (a mis-read
// length made it allocate): the parent then does not reuse this child.
const cdcFat = "\x01fat"

func cdcFatMark() string {
	var m runtime.MemStats
	runtime.ReadMemStats(&m)
	if m.Sys > 768<<20 {
		return cdcFat
	}
	return ""
}

// the deadline of one answer: generous against the largest legitimate read (milliseconds);
// once a hang has been seen in this run the later ones are given less
var cdcHangSeen atomic.Bool

func cdcDeadline() time.Duration {
	if cdcHangSeen.Load() {
		return 3 * time.Second
	}
	return 10 * time.Second
}

// cdcChild is one guarded child process.
type cdcChild struct {
	served int  // jobs sent so far
	fat    bool // its memory has grown large: not reused
	cmd    *exec.Cmd
	in     *bufio.Writer
	lines  chan string // answer lines; closed when the child's stdout ends
}

func cdcStartChild() *cdcChild {
	cmd := exec.Command(os.Args[0], "-readchild")
	stdin, err1 := cmd.StdinPipe()
	stdout, err2 := cmd.StdoutPipe()
	if err1 != nil || err2 != nil || cmd.Start() != nil {
		return nil
	}
	c := &cdcChild{cmd: cmd, in: bufio.NewWriterSize(stdin, 1<<16), lines: make(chan string, 4096)}
	go func() {
		rd := bufio.NewReaderSize(stdout, 1<<16)
		for {
			l, err := rd.ReadString('\n')
			if len(l) > 0 && l[len(l)-1] == '\n' {
				c.lines <- l[:len(l)-1]
			}
			if err != nil {
				close(c.lines)
				return
			}
		}
	}()
	return c
}

func (c *cdcChild) kill() {
	if c == nil || c.cmd == nil {
		return
	}
	c.cmd.Process.Kill()
	c.cmd.Wait()
	c.cmd = nil
}

// idle children, reused by later guards (starting a process per read costs more than the
// read; only a child that answered everything it was asked goes back)
var cdcPoolMu sync.Mutex
var cdcPool []*cdcChild

func cdcPoolGet() *cdcChild {
	cdcPoolMu.Lock()
	defer cdcPoolMu.Unlock()
	if n := len(cdcPool); n > 0 {
		c := cdcPool[n-1]
		cdcPool = cdcPool[:n-1]
		return c
	}
	return nil
}

func cdcPoolPut(c *cdcChild) {
	cdcPoolMu.Lock()
	if len(cdcPool) < 24 && c.served < 4000 {
		cdcPool = append(cdcPool, c)
		c = nil
	}
	cdcPoolMu.Unlock()
	if c != nil {
		c.kill()
	}
}

// cdcGuard runs jobs in a child that is replaced whenever it dies or stalls.
type cdcGuard struct{ c *cdcChild }

// close hands a healthy child back to the pool.
func (g *cdcGuard) close() {
	if g.c != nil && g.c.cmd != nil {
		if g.c.fat {
			g.c.kill()
		} else {
			cdcPoolPut(g.c)
		}
	}
	g.c = nil
}

// drop kills the child (it died, stalled or is in an unknown state).
func (g *cdcGuard) drop() {
	g.c.kill()
	g.c = nil
}

// ask sends one job and collects its n answer lines. status: "" = all answered,
// "crashed" = the child died before answer number len(answers), "hang" = that answer did
// not arrive before the deadline (the child is killed either way), "nochild" = no child
// process could be started.
func (g *cdcGuard) ask(j cdcReadJob, n int) (answers []string, status string) {
	if g.c == nil {
		if g.c = cdcPoolGet(); g.c == nil {
			g.c = cdcStartChild()
		}
		if g.c == nil {
			return nil, "nochild"
		}
	}
	g.c.served++
	enc, _ := json.Marshal(j)
	g.c.in.Write(enc)
	g.c.in.WriteByte('\n')
	if g.c.in.Flush() != nil {
		// a pooled child may have died meanwhile: once more with a fresh one
		g.drop()
		if g.c = cdcStartChild(); g.c == nil {
			return nil, "nochild"
		}
		g.c.in.Write(enc)
		g.c.in.WriteByte('\n')
		if g.c.in.Flush() != nil {
			g.drop()
			return nil, "crashed"
		}
	}
	for len(answers) < n {
		timer := time.NewTimer(cdcDeadline())
		select {
		case l, ok := <-g.c.lines:
			timer.Stop()
			if !ok {
				g.drop()
				return answers, "crashed"
			}
			if strings.HasSuffix(l, cdcFat) {
				l = strings.TrimSuffix(l, cdcFat)
				g.c.fat = true
			}
			answers = append(answers, l)
		case <-timer.C:
			cdcHangSeen.Store(true)
			g.drop()
			return answers, "hang"
		}
	}
	return answers, ""
}

const cdcCrashMsg = "crashed (child process died: out of memory or fatal error)"
const cdcHangMsg = "did not return (no answer before the deadline; the reading process was killed)"

// read runs one ReadFrom; outcomes 'e' / 'o' / 'p' (panic or crash) / 'h' (hang).
func (g *cdcGuard) read(p cdcCparams, b []byte) (byte, string) {
	return g.readVia(p, b, 0, 0, nil, nil)
}

// readVia runs one ReadFrom through a reader of the given mode.
func (g *cdcGuard) readVia(p cdcCparams, b []byte, mode int, seed uint64, bounds, pieces []int) (byte, string) {
	a, st := g.ask(cdcReadJob{P: p, B: cdcHexStr(b), Mode: mode, Seed: seed, Bounds: bounds, Pieces: pieces}, 1)
	switch st {
	case "crashed":
		return 'p', cdcCrashMsg
	case "hang":
		return 'h', cdcHangMsg
	case "nochild":
		o, _, msg := cdcReadOutcomeVia(p, b, mode, seed, bounds, pieces)
		return o, msg
	}
	return cdcParseOutcome(a[0])
}

func cdcParseOutcome(l string) (byte, string) {
	if len(l) == 0 {
		return 'p', "empty answer"
	}
	if len(l) > 2 {
		return l[0], l[2:]
	}
	return l[0], ""
}

// prefixes reads b[:n] for every n of lens, in order, and stops at the first length on
// which ReadFrom crashed or did not return (outs is then shorter than lens + that one).
func (g *cdcGuard) prefixes(p cdcCparams, b []byte, lens []int, mode int, seed uint64, bounds []int) (outs []byte, msgs []string) {
	for len(outs) < len(lens) {
		rest := lens[len(outs):]
		if len(rest) > 1024 {
			rest = rest[:1024]
		}
		a, st := g.ask(cdcReadJob{T: "prefixes", P: p, B: cdcHexStr(b), Lens: rest, Mode: mode, Seed: seed, Bounds: bounds}, len(rest))
		for _, l := range a {
			o, m := cdcParseOutcome(l)
			outs, msgs = append(outs, o), append(msgs, m)
		}
		switch st {
		case "crashed":
			return append(outs, 'p'), append(msgs, cdcCrashMsg)
		case "hang":
			return append(outs, 'h'), append(msgs, cdcHangMsg)
		case "nochild":
			for _, n := range rest {
				o, _, m := cdcReadOutcomeVia(p, b[:n], 0, 0, nil, nil)
				outs, msgs = append(outs, o), append(msgs, m)
			}
		}
	}
	return
}

// probe reopens the store in dir in the child and probes it; status as in ask.
func (g *cdcGuard) probe(dir string, p cdcCparams, pr cdcSegProbe) (v, t, m, cached, perr, status string) {
	a, st := g.ask(cdcReadJob{T: "probe", P: p, Dir: dir, Pr: pr}, 1)
	if st == "nochild" {
		v, t, m, cached, perr = cdcProbeStore(dir, p, pr)
		return v, t, m, cached, perr, ""
	}
	if st != "" {
		return "-", "-", "-", "0", "", st
	}
	var ans cdcProbeAnswer
	if json.Unmarshal([]byte(a[0]), &ans) != nil {
		return "-", "-", "-", "0", "bad probe answer", ""
	}
	return ans.V, ans.T, ans.M, ans.Cached, ans.Err, ""
}
