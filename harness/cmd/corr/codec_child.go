package main

// Guarded reads. A ReadFrom that (wrongly) accepts a foreign or mismatched header goes
// on to interpret arbitrary bytes as counts and may ask for gigabytes: that must show as
// an outcome of the implementation ("crashed"), not take the harness down. Such reads
// run in a child process (this same binary, first argument "-readchild") under an
// address-space limit; the child answers one outcome line per job, so when it dies the
// parent knows on which job.

import (
	"bufio"
	"encoding/hex"
	"encoding/json"
	"fmt"
	"os"
	"os/exec"
	"runtime/debug"
	"syscall"
)

type cdcReadJob struct {
	P cdcCparams `json:"p"`
	B string     `json:"b"` // hex
}

func init() {
	if len(os.Args) > 1 && os.Args[1] == "-readchild" {
		lim := uint64(6) << 30
		syscall.Setrlimit(syscall.RLIMIT_AS, &syscall.Rlimit{Cur: lim, Max: lim})
		debug.SetGCPercent(50)
		in := bufio.NewReaderSize(os.Stdin, 1<<20)
		out := bufio.NewWriter(os.Stdout)
		for {
			line, err := in.ReadBytes('\n')
			if len(line) > 1 {
				var j cdcReadJob
				if json.Unmarshal(line, &j) != nil {
					fmt.Fprintln(out, "p bad job")
				} else {
					b, _ := hex.DecodeString(j.B)
					o, _, msg := cdcReadOutcome(j.P, b)
					fmt.Fprintf(out, "%c %s\n", o, msg)
				}
				out.Flush()
			}
			if err != nil {
				os.Exit(0)
			}
		}
	}
}

// cdcGuardedReads runs the jobs in child processes; outcome 'p' with the message
// "crashed" stands for a child that died on that job.
func cdcGuardedReads(jobs []cdcReadJob) (outs []byte, msgs []string) {
	outs, msgs = make([]byte, len(jobs)), make([]string, len(jobs))
	i := 0
	for i < len(jobs) {
		cmd := exec.Command(os.Args[0], "-readchild")
		stdin, err1 := cmd.StdinPipe()
		stdout, err2 := cmd.StdoutPipe()
		if err1 != nil || err2 != nil || cmd.Start() != nil {
			// cannot guard: fall back to in-process reads
			for ; i < len(jobs); i++ {
				b, _ := hex.DecodeString(jobs[i].B)
				outs[i], _, msgs[i] = cdcReadOutcome(jobs[i].P, b)
			}
			return
		}
		go func(from int) {
			w := bufio.NewWriter(stdin)
			for k := from; k < len(jobs); k++ {
				enc, _ := json.Marshal(jobs[k])
				w.Write(enc)
				w.WriteByte('\n')
			}
			w.Flush()
			stdin.Close()
		}(i)
		rd := bufio.NewReaderSize(stdout, 1<<16)
		for i < len(jobs) {
			line, err := rd.ReadString('\n')
			if err != nil || len(line) < 1 {
				outs[i], msgs[i] = 'p', "crashed (child process died: out of memory or fatal error)"
				i++
				break
			}
			outs[i] = line[0]
			if len(line) > 2 {
				msgs[i] = line[2 : len(line)-1]
			}
			i++
		}
		cmd.Process.Kill()
		cmd.Wait()
	}
	return
}
