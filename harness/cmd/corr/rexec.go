package main

// Search objects are not only executed where they are built.
//
// A search object (the builder returned by NewSearch()) must answer from the index as it is
// when Execute runs, however long ago the object was built and however often it has been
// executed before: nothing an index hands out at NewSearch() (is anything tombstoned? which
// memtables exist?) and nothing an earlier Execute left on the object (resolved node vectors,
// ranking buffers, a pooled object that was recycled meanwhile) may show in a later answer.
// Every stream therefore puts each of its search objects through one of three schedules,
//
//	rexNow    build + Execute at once
//	rexAgain  Execute at once, keep the object, Execute it AGAIN after the next mutating
//	          operation of the history: a second search line with the same arguments
//	rexLater  build now, Execute only after the next mutating operation of the history
//
// and emits the search line WHERE THE EXECUTE HAPPENS: the Lean drivers judge a search line
// against the model state at its position in the line sequence, so both answers of rexAgain
// and the late answer of rexLater are judged against the state they have to reflect. Values
// derived from probing the index while building (thresholds taken from reported distances,
// queries taken from stored vectors or centroids, k = size of an earlier answer) stay as
// computed at build time — they are just numbers.
//
// The schedule is a function of a per-case counter of search objects; nothing is drawn from the
// PRNG, so a replay file still generates the commands it was written for.

const (
	rexNow = iota
	rexAgain
	rexLater
)

// rexMode: the schedule of the n-th search object of a case (n = 1, 2, …).
func rexMode(n int) int {
	switch n % 3 {
	case 1:
		return rexNow
	case 2:
		return rexAgain
	}
	return rexLater
}

// rexQueue holds the executions that wait for the next mutating operation.
type rexQueue struct {
	n       int // search objects seen so far
	pending []func()
}

// put schedules exec — which runs Execute on an already built search object and emits the
// search line(s) for the answer — according to mode.
func (q *rexQueue) put(mode int, exec func()) {
	switch mode {
	case rexNow:
		exec()
	case rexAgain:
		exec()
		q.pending = append(q.pending, exec)
	default:
		q.pending = append(q.pending, exec)
	}
}

// next schedules exec for the next search object of the case.
func (q *rexQueue) next(exec func()) {
	q.n++
	q.put(rexMode(q.n), exec)
}

// run executes what is waiting, in the order it was built: called after every mutating
// operation of the history (whatever its outcome) and once more before "end".
func (q *rexQueue) run() {
	p := q.pending
	q.pending = nil
	for _, f := range p {
		f()
	}
}
