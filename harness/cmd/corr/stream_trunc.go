package main

// Stream "trunc" (C16): for a reachable state of each index kind the real WriteTo
// stream is cut at EVERY prefix length (streams up to 4 KB; beyond: every write
// boundary +-1, the first and last 600 lengths and a random sample) and fed to a fresh
// real index under recover: it must return an error. The full kind x kind matrix, every
// single-parameter mismatch of the receiver and patched version fields must be rejected
// as well. The Lean driver runs the model decoder on the same bytes. For hybrid cases a
// real persistent store segment is written, each of its four gzip component files is
// truncated / emptied / deleted, the store is reopened and searched: the damaged segment
// must contribute nothing.

import (
	"bytes"
	"compress/gzip"
	"encoding/hex"
	"fmt"
	"io"
	"os"
	"path/filepath"
	"sort"
	"strings"
	"sync/atomic"

	comet "github.com/wizenheimer/comet"
	"verifharness/internal/core"
)

type cdcTruncCase struct {
	P        cdcCparams     `json:"p"`
	Shape    int            `json:"shape"`
	Cmds     []cdcCcmd      `json:"cmds"`
	Others   []cdcCodecCase `json:"others"` // one small case per other kind (cross matrix)
	Seed     uint64         `json:"seed"`
	Segment  bool           `json:"segment"`
	Hung     bool           `json:"hung,omitempty"`     // set by Exec when a read did not return: the case is not shrunk (every re-run costs the deadline)
	NoShrink bool           `json:"noshrink,omitempty"` // set by Exec on the later ones of many visibly failing cases
	Thor     bool           `json:"thor"`
}

func cdcGenTrunc(r *core.Rand, tier string) *cdcTruncCase {
	kind := cdcCodecKinds[r.Intn(len(cdcCodecKinds))]
	c := &cdcTruncCase{P: cdcGenParams(r, kind), Shape: r.Pick(1, 1, 1, 1, 1, 5), Seed: r.U64(), Thor: tier == "thorough"}
	maxAdds := 10
	if tier == "thorough" {
		maxAdds = 30
	}
	if r.Chance(0.04) {
		maxAdds = 160 // a stream beyond 4 KB now and then
		c.Shape = 4
	}
	c.Cmds, _ = cdcGenHistory(r, c.P, c.Shape, maxAdds)
	for _, k := range cdcCodecKinds {
		if k == kind {
			continue
		}
		o := cdcCodecCase{P: cdcGenParams(r, k), Shape: 5}
		o.Cmds, _ = cdcGenHistory(r, o.P, 5, 4)
		c.Others = append(c.Others, o)
	}
	if kind == "hybrid" && (c.P.VKind == "none" || c.P.VKind == "flat" || c.P.VKind == "hnsw") {
		c.Segment = true
	}
	return c
}

// cdcBoundaryWriter records the end offset of every Write call (= every field boundary).
type cdcBoundaryWriter struct {
	buf  bytes.Buffer
	ends []int
}

func (w *cdcBoundaryWriter) Write(p []byte) (int, error) {
	n, err := w.buf.Write(p)
	w.ends = append(w.ends, w.buf.Len())
	return n, err
}

// cdcPrefixLengths chooses the prefix lengths to test for a stream of length n.
func cdcPrefixLengths(r *core.Rand, n int, bounds []int, thorough bool) []int {
	if n <= 4096 {
		out := make([]int, n+1)
		for i := range out {
			out[i] = i
		}
		return out
	}
	set := map[int]bool{n: true}
	for i := 0; i < 600 && i <= n; i++ {
		set[i] = true
		set[n-i] = true
	}
	for _, b := range bounds {
		for _, d := range []int{-1, 0, 1} {
			if b+d >= 0 && b+d <= n {
				set[b+d] = true
			}
		}
	}
	extra := 1500
	if thorough {
		extra = 6000
	}
	for i := 0; i < extra; i++ {
		set[r.Intn(n)] = true
	}
	out := make([]int, 0, len(set))
	for x := range set {
		out = append(out, x)
	}
	sort.Ints(out)
	return out
}

// cdcMismatches lists receivers that differ from p in exactly one construction parameter.
func cdcMismatches(p cdcCparams) (names []string, ps []cdcCparams) {
	add := func(name string, q cdcCparams) {
		names = append(names, name)
		ps = append(ps, q)
	}
	otherMetric := func(m string) string {
		for _, x := range metrics {
			if x != m {
				return x
			}
		}
		return m
	}
	vecMis := func(base cdcCparams, set func(q *cdcCparams, v cdcCparams)) {
		v := base
		v.Kind = base.vecKind()
		step := 1
		if v.Kind == "pq" || v.Kind == "ivfpq" {
			step = v.M // keep dim divisible by M
		}
		q := v
		q.Dim = v.Dim + step
		w := base
		set(&w, q)
		add("dim", w)
		q = v
		q.Metric = otherMetric(v.Metric)
		w = base
		set(&w, q)
		add("metric", w)
		switch v.Kind {
		case "hnsw":
			for _, f := range []string{"m", "efc", "efs"} {
				q = v
				// 0 means "default" (16 / 200 / efConstruction): use explicit other values
				switch f {
				case "m":
					q.M = map[bool]int{true: 5, false: 3}[v.M != 5]
				case "efc":
					q.EfC = map[bool]int{true: 9, false: 7}[v.EfC != 9]
					if v.EfS == 0 { // efSearch defaults to efConstruction: pin it so only efC differs
						q.EfS = map[bool]int{true: 200, false: v.EfC}[v.EfC == 0]
					}
				case "efs":
					q.EfS = map[bool]int{true: 11, false: 13}[v.EfS != 11]
				}
				w = base
				set(&w, q)
				add(f, w)
			}
			// a receiver constructed with efSearch = 0 (or = efConstruction: "no efSearch of its
			// own", what the documented default produces) reading a stream whose efSearch differs
			efc := v.EfC
			if efc <= 0 {
				efc = 200
			}
			if v.EfS > 0 && v.EfS != efc {
				q = v
				q.EfS = 0
				w = base
				set(&w, q)
				add("efs-default", w)
				q = v
				q.EfS = efc
				w = base
				set(&w, q)
				add("efs-equals-efc", w)
			}
		case "ivf", "ivfpq":
			q = v
			q.Nlist = v.Nlist + 1
			w = base
			set(&w, q)
			add("nlist", w)
		}
		if v.Kind == "pq" || v.Kind == "ivfpq" {
			q = v
			q.Nbits = v.Nbits%3 + 1
			w = base
			set(&w, q)
			add("nbits", w)
			for m2 := 1; m2 <= v.Dim; m2++ { // another M that divides dim
				if m2 != v.M && v.Dim%m2 == 0 {
					q = v
					q.M = m2
					w = base
					set(&w, q)
					add("M", w)
					break
				}
			}
		}
	}
	switch p.Kind {
	case "bm25", "meta":
	case "hybrid":
		q := p
		q.Txt = !p.Txt
		add("hasText", q)
		q = p
		q.Md = !p.Md
		add("hasMetadata", q)
		q = p
		if p.hasVec() {
			q.VKind = "none"
			add("hasVector", q)
			vecMis(p, func(w *cdcCparams, v cdcCparams) {
				k, vk := w.Kind, w.VKind
				*w = v
				w.Kind, w.VKind, w.Txt, w.Md = k, vk, p.Txt, p.Md
			})
			q = p
			q.VKind = map[bool]string{true: "hnsw", false: "flat"}[p.VKind == "flat"]
			if p.VKind == "pq" || p.VKind == "ivfpq" || p.VKind == "ivf" {
				q.VKind = "flat"
			}
			add("vkind", q)
		} else {
			q.VKind, q.Dim, q.Metric = "flat", 3, "l2"
			add("hasVector", q)
		}
	default:
		vecMis(p, func(w *cdcCparams, v cdcCparams) { *w = v })
	}
	return
}

func cdcHexStr(b []byte) string { return fmt.Sprintf("%x", b) }

func cdcBuildState(p cdcCparams, cmds []cdcCcmd) (*cdcAnyIndex, error) {
	a, err := cdcNewAnyIndex(p)
	if err != nil {
		return nil, err
	}
	for _, cmd := range cmds {
		a.apply(cmd)
	}
	return a, nil
}

// see cdcFailSeen (stream_codec.go): from the 25th visibly failing execution on the cases are
// reported unshrunk
var cdcTruncFailSeen atomic.Int64

func cdcTruncVisiblyFailing(lines []string) bool {
	for _, l := range lines {
		switch {
		case strings.HasPrefix(l, "op panic"), strings.HasSuffix(l, "=> hang"), strings.Contains(l, " => hang "):
			return true
		case strings.HasPrefix(l, "op prefixes "):
			// an accepted strict prefix: an 'o' that is not the last outcome of the last line
			i := strings.LastIndex(l, "=> ")
			if i > 0 && strings.ContainsAny(l[i+3:len(l)-1], "oh") {
				return true
			}
		case strings.HasPrefix(l, "op cross "), strings.HasPrefix(l, "op mismatch "), strings.HasPrefix(l, "op version "):
			if strings.HasSuffix(l, "=> o") || strings.HasSuffix(l, "=> h") {
				return true
			}
		case strings.HasPrefix(l, "op segment ") && strings.Contains(l, " cached=1 "):
			return true
		}
	}
	return false
}

func cdcExecTrunc(c *cdcTruncCase) []string {
	lines := cdcExecTruncInner(c)
	if cdcTruncVisiblyFailing(lines) && cdcTruncFailSeen.Add(1) > 25 {
		c.NoShrink = true
	}
	return lines
}

func cdcExecTruncInner(c *cdcTruncCase) []string {
	src, err := cdcBuildState(c.P, c.Cmds)
	if err != nil {
		return []string{"begin trunc " + c.P.Kind, "op panic constructor: " + err.Error(), "end"}
	}
	defer src.close()
	lines := []string{"begin trunc " + c.P.Kind + " " + strings.Join(src.paramTokens(), " ")}
	// the stream, written through a boundary-recording writer
	var stream []byte
	var bounds []int
	var four [][]byte
	if c.P.Kind == "hybrid" {
		var ws [4]cdcBoundaryWriter
		if err := src.hyb.WriteTo(&ws[0], &ws[1], &ws[2], &ws[3]); err != nil {
			return append(lines, "op panic WriteTo: "+err.Error(), "end")
		}
		off := 0
		for i := range ws {
			four = append(four, ws[i].buf.Bytes())
			stream = append(stream, ws[i].buf.Bytes()...)
			for _, e := range ws[i].ends {
				bounds = append(bounds, off+e)
			}
			off += ws[i].buf.Len()
		}
	} else {
		var w cdcBoundaryWriter
		var werr error
		switch c.P.Kind {
		case "bm25":
			_, werr = src.bm.WriteTo(&w)
		case "meta":
			_, werr = src.md.WriteTo(&w)
		default:
			_, werr = src.vec.WriteTo(&w)
		}
		if werr != nil {
			return append(lines, "op panic WriteTo: "+werr.Error(), "end")
		}
		stream, bounds = w.buf.Bytes(), w.ends
	}
	lines = append(lines, "op stream "+cdcHexB(stream))

	// every prefix
	r := core.NewRand(c.Seed, "trunc")
	lens := cdcPrefixLengths(r, len(stream), bounds, c.Thor)
	guard := &cdcGuard{}
	defer guard.close()
	// every prefix length through another reader (one byte at a time, chunks, half reads,
	// field-aligned pieces, gzip blocks, MultiReader, data+EOF: codec_readers.go)
	pouts, pmsgs := guard.prefixes(c.P, stream, lens, int(c.Seed%7), c.Seed, bounds)
	stopped := false
	for i := 0; i < len(pouts); {
		j := i
		var out []byte
		for j < len(pouts) && j-i < 256 && lens[j] == lens[i]+(j-i) {
			o := pouts[j]
			if o == 'p' {
				lines = append(lines, fmt.Sprintf("op panic ReadFrom of prefix %d/%d: %s", lens[j], len(stream), pmsgs[j]))
				if pmsgs[j] == cdcCrashMsg {
					stopped = true
				}
				o = 'e'
			}
			if o == 'h' {
				stopped = true
				c.Hung = true
			}
			out = append(out, o)
			j++
		}
		lines = append(lines, fmt.Sprintf("op prefixes %d %d => %s", lens[i], lens[i]+(j-i), out))
		i = j
	}
	if stopped {
		// a read crashed the process or did not return: the case ends here (every further
		// read of this stream would cost the deadline again)
		return append(lines, "end")
	}

	// kind x kind, one construction parameter differs, another format version: a reader
	// that wrongly goes on reads arbitrary bytes as counts, so these run guarded
	var jobs []cdcReadJob
	var fmts []string
	for _, o := range c.Others {
		oi, err := cdcBuildState(o.P, o.Cmds)
		if err != nil {
			continue
		}
		os, _, _, err := oi.writeTo()
		oi.close()
		if err != nil {
			continue
		}
		jobs = append(jobs, cdcReadJob{P: c.P, B: cdcHexStr(os)})
		fmts = append(fmts, fmt.Sprintf("op cross %s %s", o.P.Kind, cdcHexB(os)))
	}
	names, ps := cdcMismatches(c.P)
	for i, q := range ps {
		ri, err := cdcNewAnyIndex(q)
		if err != nil {
			continue // such a receiver cannot be constructed
		}
		toks := strings.Join(ri.paramTokens(), " ")
		ri.close()
		jobs = append(jobs, cdcReadJob{P: q, B: cdcHexStr(stream)})
		fmts = append(fmts, fmt.Sprintf("op mismatch %s %s", names[i], toks))
	}
	if len(stream) >= 8 {
		for _, v := range []uint32{0, 2, 0x01000000, uint32(r.U64()) | 2} {
			b := append([]byte(nil), stream...)
			b[4], b[5], b[6], b[7] = byte(v), byte(v>>8), byte(v>>16), byte(v>>24)
			jobs = append(jobs, cdcReadJob{P: c.P, B: cdcHexStr(b)})
			fmts = append(fmts, fmt.Sprintf("op version %d %s", v, cdcHexB(b)))
		}
	}
	for i := range jobs {
		b, _ := hex.DecodeString(jobs[i].B)
		o, msg := guard.read(jobs[i].P, b)
		if o == 'p' {
			lines = append(lines, "op panic ReadFrom ("+strings.Join(strings.Fields(fmts[i])[1:3], " ")+"): "+msg)
			continue
		}
		lines = append(lines, fmt.Sprintf("%s => %c", fmts[i], o))
		if o == 'h' {
			c.Hung = true
			return append(lines, "end")
		}
	}

	if c.Segment {
		lines = append(lines, cdcSegmentOps(c, r, guard, stream, four)...)
	}
	return append(lines, "end")
}

/* ---------- segment clause ---------- */

func cdcStoreConfig(dir string, p cdcCparams) (*comet.StorageConfig, error) {
	cfg := comet.DefaultStorageConfig(dir)
	t, err := cdcNewAnyIndex(p) // fresh template instances
	if err != nil {
		return nil, err
	}
	if t.sub != nil {
		cfg.VectorIndexTemplate = t.sub.vec
	}
	if t.bm != nil {
		cfg.TextIndexTemplate = t.bm
	}
	if t.md != nil {
		cfg.MetadataIndexTemplate = t.md
	}
	return cfg, nil
}

func cdcIdSet(res []comet.HybridSearchResult, err error) string {
	if err != nil {
		return "ERR"
	}
	ids := make([]uint32, 0, len(res))
	seen := map[uint32]bool{}
	for _, x := range res {
		if !seen[x.ID] {
			seen[x.ID] = true
			ids = append(ids, x.ID)
		}
	}
	sort.Slice(ids, func(i, j int) bool { return ids[i] < ids[j] })
	return core.IDs(ids)
}

type cdcSegProbe struct {
	Vec  []float32 `json:"vec,omitempty"`
	Text string    `json:"text,omitempty"`
}

// cdcProbeStore reopens the store with fresh templates and asks, after a warm-up search, a
// vector-only, a text-only and a metadata-only query.
func cdcProbeStore(dir string, p cdcCparams, pr cdcSegProbe) (v, t, m, cached string, perr string) {
	defer func() {
		if r := recover(); r != nil {
			perr = fmt.Sprint(r)
		}
	}()
	v, t, m, cached = "-", "-", "-", "0"
	cfg, err := cdcStoreConfig(dir, p)
	if err != nil {
		return v, t, m, cached, err.Error()
	}
	s, err := comet.OpenPersistentHybridIndex(cfg)
	if err != nil {
		return v, t, m, cached, "open: " + err.Error()
	}
	defer s.Close()
	// warm-up: the first search is what triggers the segment load
	if p.Txt {
		s.NewSearch().WithText(pr.Text).WithK(1000).Execute()
	} else if p.hasVec() {
		s.NewSearch().WithVector(pr.Vec).WithK(1000).Execute()
	} else if p.Md {
		s.NewSearch().WithMetadata(comet.Exists("c")).WithK(1000).Execute()
	}
	if p.hasVec() {
		v = cdcIdSet(s.NewSearch().WithVector(pr.Vec).WithK(1000).Execute())
	}
	if p.Txt {
		t = cdcIdSet(s.NewSearch().WithText(pr.Text).WithK(1000).Execute())
	}
	if p.Md {
		m = cdcIdSet(s.NewSearch().WithMetadata(comet.Exists("c")).WithK(1000).Execute())
	}
	if v == "ERR" || t == "ERR" || m == "ERR" {
		perr = "a search over the store returned an error"
	}
	// was the segment accepted (loaded and cached) by one of the searches?
	for _, seg := range s.VerifState().Segments {
		if seg.Cached {
			cached = "1"
		}
	}
	return
}

// cdcDelivered reports whether a gzip reader can be opened on b and how many bytes it
// yields before it fails.
func cdcDelivered(b []byte) (hdr bool, n int) {
	zr, err := gzip.NewReader(bytes.NewReader(b))
	if err != nil {
		return false, 0
	}
	k, _ := io.Copy(io.Discard, zr)
	return true, int(k)
}

func cdcSegmentOps(c *cdcTruncCase, r *core.Rand, guard *cdcGuard, stream []byte, four [][]byte) (lines []string) {
	base, err := os.MkdirTemp("", "verif_seg")
	if err != nil {
		return []string{"op panic tempdir: " + err.Error()}
	}
	defer os.RemoveAll(base)
	dir := filepath.Join(base, "store")
	cfg, err := cdcStoreConfig(dir, c.P)
	if err != nil {
		return nil
	}
	s, err := comet.OpenPersistentHybridIndex(cfg)
	if err != nil {
		return []string{"op panic open store: " + err.Error()}
	}
	var pr cdcSegProbe
	words := map[string]int{}
	for _, cmd := range c.Cmds {
		switch cmd.Op {
		case "add":
			var v []float32
			if c.P.hasVec() && len(cmd.Vec) > 0 {
				v = core.FromBits(cmd.Vec)
				if pr.Vec == nil {
					pr.Vec = append([]float32(nil), v...)
				}
			}
			text := ""
			if c.P.Txt {
				text = cmd.Text
				for _, w := range strings.Fields(text) {
					words[w]++
				}
			}
			var md map[string]interface{}
			if c.P.Md {
				md = cdcMetaMap(cmd.Meta)
			}
			s.AddWithID(cmd.ID, v, text, md)
		case "remove":
			s.Remove(cmd.ID)
		}
	}
	pr.Text = "alpha"
	best := 0
	for w, n := range words {
		if n > best || (n == best && w < pr.Text) {
			pr.Text, best = w, n
		}
	}
	if pr.Vec == nil && c.P.hasVec() {
		pr.Vec = make([]float32, c.P.Dim)
		pr.Vec[0] = 1
	}
	s.VerifRotate()
	if err := s.Flush(); err != nil {
		s.Close()
		return []string{"op panic store flush: " + err.Error()}
	}
	s.Close()
	names := []string{"hybrid", "vector", "text", "metadata"}
	present := []bool{true, c.P.hasVec(), c.P.Txt, c.P.Md}
	paths := make([]string, 4)
	orig := make([][]byte, 4)
	lens := make([]int, 4)
	var segStream []byte
	for i, n := range names {
		paths[i] = filepath.Join(dir, n+"_000001.bin.gz")
		if !present[i] {
			continue
		}
		b, err := os.ReadFile(paths[i])
		if err != nil {
			return []string{"op panic segment file missing after flush: " + n}
		}
		orig[i] = b
		_, lens[i] = cdcDelivered(b)
		zr, _ := gzip.NewReader(bytes.NewReader(b))
		plain, _ := io.ReadAll(zr)
		segStream = append(segStream, plain...)
	}
	// the segment's own (concatenated, gunzipped) stream is what the driver decodes
	lines = append(lines, "op stream "+cdcHexB(segStream))
	av, at, am, _, perr, pst := guard.probe(dir, c.P, pr)
	if pst != "" {
		return append(lines, "op panic intact store: searching it "+pst)
	}
	if perr != "" {
		return append(lines, "op panic intact store: "+perr)
	}
	all := av + "/" + at + "/" + am
	for i := range names {
		if !present[i] {
			continue
		}
		n := len(orig[i])
		cuts := map[int]bool{0: true}
		for k := 1; k <= 14 && k <= n; k++ {
			cuts[n-k] = true // the gzip tail
		}
		for k := 0; k < 12 && k < n; k++ {
			cuts[k] = true // the gzip header
		}
		budget := 24
		if c.Thor {
			budget = 120
		}
		if n <= budget*2 {
			for k := 0; k < n; k++ {
				cuts[k] = true
			}
		} else {
			for k := 0; k < budget; k++ {
				cuts[r.Intn(n)] = true
			}
		}
		ks := make([]int, 0, len(cuts))
		for k := range cuts {
			ks = append(ks, k)
		}
		sort.Ints(ks)
		for _, k := range append(ks, -1) { // -1: the file is deleted
			hdr, d := false, 0
			if k < 0 {
				os.Remove(paths[i])
			} else {
				os.WriteFile(paths[i], orig[i][:k], 0o644)
				hdr, d = cdcDelivered(orig[i][:k])
			}
			v, t, m, cached, perr, pst := guard.probe(dir, c.P, pr)
			if pst == "hang" {
				// opening / searching the store with the damaged segment did not return
				c.Hung = true
				lines = append(lines, fmt.Sprintf("op segment %d %s %d %d %d %d %d => hang cut=%d/%d", i, cdcB01(hdr), d, lens[0], lens[1], lens[2], lens[3], k, n))
				os.WriteFile(paths[i], orig[i], 0o644)
				return lines
			} else if pst != "" {
				lines = append(lines, fmt.Sprintf("op panic store with %s file cut at %d/%d: the searching process %s", names[i], k, n, pst))
			} else if perr != "" {
				lines = append(lines, fmt.Sprintf("op panic store with %s file cut at %d/%d: %s", names[i], k, n, perr))
			} else {
				lines = append(lines, fmt.Sprintf("op segment %d %s %d %d %d %d %d => vec=%s txt=%s md=%s all=%s cached=%s cut=%d/%d",
					i, cdcB01(hdr), d, lens[0], lens[1], lens[2], lens[3], v, t, m, all, cached, k, n))
			}
		}
		os.WriteFile(paths[i], orig[i], 0o644)
	}
	return lines
}

func cdcNonTrivialTrunc(lines, replies []string) bool {
	n := 0
	for i, l := range lines {
		if i < len(replies) && strings.HasPrefix(l, "op prefixes") && strings.HasPrefix(replies[i], "ok prefixes=") {
			n += kv(replies[i])["prefixes"]
		}
	}
	return n > 40
}

func init() {
	register(&core.Typed[cdcTruncCase]{
		StreamName: "trunc", Prop: "C16",
		RuleText: "eight kinds x construction parameters x histories (empty, untrained, all removed, re-trained, larger, ordinary): every prefix length 0..len of the real stream (<= 4 KB; beyond: all write boundaries +-1, first/last 600, random sample) read by a fresh real index; 7 foreign-kind streams; every single-parameter mismatch; 4 patched versions; hybrid kinds with flat/hnsw/no vector index: a real store segment with each gzip component cut (header, tail, sample or all lengths), emptied, deleted. Non-trivial: more than 40 strict prefixes were judged; distinct = distinct request streams",
		NCases: func(tier string) int {
			if tier == "thorough" {
				return 2400
			}
			return 240
		},
		GenF:  cdcGenTrunc,
		ExecF: cdcExecTrunc,
		LenF: func(c *cdcTruncCase) int {
			if c.Hung || c.NoShrink { // not shrunk: every re-run would wait for the deadline again
				return 0
			}
			return len(c.Cmds)
		},
		DropF: func(c *cdcTruncCase, lo, hi int) *cdcTruncCase {
			n := *c
			n.Cmds = append(append([]cdcCcmd(nil), c.Cmds[:lo]...), c.Cmds[hi:]...)
			return &n
		},
		NonTrivialF: cdcNonTrivialTrunc,
	})
}
