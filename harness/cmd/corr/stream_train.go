package main

// Stream "train" (C20): KMeans / KMeansSubspace / FindNearestCentroidIndex on generated
// training sets, the training of IVF / PQ / IVFPQ (twice, on the same data, then the same
// adds and queries on both copies), and the three scalar quantisers. The Lean driver
// re-executes k-means, the training glue and the quantisers on the Float32 instance of
// the models and evaluates the property's clauses on the implementation's outputs.

import (
	"fmt"
	"math"
	"strings"
	"sync"

	comet "github.com/wizenheimer/comet"
	"verifharness/internal/core"
)

type trainCmd struct {
	Op      string     `json:"op"` // kmeans | itrain | iadd | isearch | qfull | qhalf | qint8 | qmulti | qnew | pqparams
	Via     string     `json:"via,omitempty"`   // factory (NewQuantizer) | direct (struct literal)
	Count   int        `json:"count,omitempty"` // qmulti: number of quantizers of the same kind
	Mode    string     `json:"mode,omitempty"`  // qmulti: train | set (SetAbsMax)
	Set     uint32     `json:"set,omitempty"`   // qmulti: SetAbsMax argument (float32 bits)
	Vecs2   [][]uint32 `json:"vecs2,omitempty"` // qmulti: training data of the second quantizer
	Kind    string     `json:"kind,omitempty"`  // qnew: quantizer type string
	Fn      string     `json:"fn,omitempty"`
	Metric  string     `json:"metric,omitempty"`
	K       int        `json:"k,omitempty"`
	MaxIter int        `json:"max_iter,omitempty"`
	Vecs    [][]uint32 `json:"vecs,omitempty"`
	Typ     string     `json:"typ,omitempty"`
	P1      int        `json:"p1,omitempty"`
	P2      int        `json:"p2,omitempty"`
	P3      int        `json:"p3,omitempty"`
	ID      uint32     `json:"id,omitempty"`
	Vec     []uint32   `json:"vec,omitempty"`
	NProbe  int        `json:"nprobe,omitempty"`
}

type trainCase struct {
	Theme string     `json:"theme"`
	Cmds  []trainCmd `json:"cmds"`
}

func bits2(vs [][]float32) [][]uint32 {
	o := make([][]uint32, len(vs))
	for i, v := range vs {
		o[i] = core.Bits(v)
	}
	return o
}

func from2(b [][]uint32) [][]float32 {
	o := make([][]float32, len(b))
	for i, v := range b {
		o[i] = core.FromBits(v)
	}
	return o
}

func same2(a, b [][]float32) bool {
	if len(a) != len(b) {
		return false
	}
	for i := range a {
		if !sameBits(a[i], b[i]) {
			return false
		}
	}
	return true
}

func vecsHex(vs [][]float32) string {
	if len(vs) == 0 {
		return "-"
	}
	s := make([]string, len(vs))
	for i, v := range vs {
		s[i] = core.VecHex(v)
	}
	return strings.Join(s, ",")
}

func intsStr(a []int) string {
	if len(a) == 0 {
		return "-"
	}
	s := make([]string, len(a))
	for i, x := range a {
		s[i] = fmt.Sprint(x)
	}
	return strings.Join(s, ",")
}

// genTrainSet: n vectors of dimension dim in one of the shapes the property names.
func genTrainSet(r *core.Rand, n, dim int) ([][]float32, string) {
	scale := math.Pow(10, -3+6*r.Float64())
	if r.Chance(0.3) {
		scale = 1
	}
	vs := make([][]float32, n)
	shape := []string{"blobs", "gauss", "dups", "allequal", "collinear", "lattice", "axis"}[r.Pick(5, 3, 3, 1, 3, 3, 1)]
	switch shape {
	case "blobs":
		nc := r.Range(1, 6)
		centers := make([][]float64, nc)
		for i := range centers {
			centers[i] = gauss(r, dim, 10*scale)
		}
		spread := scale * math.Pow(10, -2+2*r.Float64())
		for i := range vs {
			c := centers[r.Intn(nc)]
			v := make([]float32, dim)
			for d := range v {
				v[d] = float32(c[d] + spread*r.Norm())
			}
			vs[i] = v
		}
	case "gauss":
		for i := range vs {
			vs[i] = f32s(gauss(r, dim, scale))
		}
	case "dups":
		nd := r.Range(1, 4)
		pool := make([][]float32, nd)
		for i := range pool {
			pool[i] = f32s(gauss(r, dim, scale))
		}
		for i := range vs {
			vs[i] = clone32(pool[r.Intn(nd)])
		}
	case "allequal":
		p := f32s(gauss(r, dim, scale))
		for i := range vs {
			vs[i] = clone32(p)
		}
	case "collinear":
		u := gauss(r, dim, scale)
		o := gauss(r, dim, scale)
		if r.Bool() {
			for d := range o {
				o[d] = 0
			}
		}
		for i := range vs {
			t := float64(r.Range(-5, 5))
			if r.Bool() {
				t = r.Norm() * 3
			}
			v := make([]float32, dim)
			for d := range v {
				v[d] = float32(o[d] + t*u[d])
			}
			vs[i] = v
		}
	case "lattice":
		for i := range vs {
			v := make([]float32, dim)
			for d := range v {
				v[d] = float32(r.Range(-3, 3))
			}
			vs[i] = v
		}
	case "axis":
		for i := range vs {
			v := make([]float32, dim)
			v[r.Intn(dim)] = float32(scale * float64(r.Range(1, 3)))
			vs[i] = v
		}
	}
	return vs, shape
}

func genKMeansCmd(r *core.Rand, tier string) trainCmd {
	var n int
	switch r.Pick(3, 4, 3, 1) {
	case 0:
		n = r.Range(1, 6)
	case 1:
		n = r.Range(7, 60)
	case 2:
		n = r.Range(61, 200)
	default:
		n = r.Range(201, 500)
	}
	dim := r.Range(1, 32)
	if r.Chance(0.3) {
		dim = r.Range(1, 3)
	}
	vs, _ := genTrainSet(r, n, dim)
	var k int
	switch r.Pick(3, 3, 2, 2, 1, 1) {
	case 0:
		k = r.Range(1, 4)
	case 1:
		k = r.Range(1, n)
		if k > 64 {
			k = r.Range(1, 64)
		}
	case 2:
		k = n // k = n
		if n > 150 && tier != "thorough" {
			k = r.Range(1, 32)
		}
	case 3:
		k = n + r.Range(1, 10) // k > n
		if n > 150 && tier != "thorough" {
			k = r.Range(1, 32)
		}
	case 4:
		k = -r.Range(0, 3) // k <= 0
	default:
		k = r.Range(2, 16)
	}
	mi := []int{-1, 0, 1, 2, 3, 5, 20, 50}[r.Pick(1, 2, 2, 2, 1, 1, 3, 1)]
	fn := "kmeans"
	metric := metrics[r.Intn(3)]
	if r.Chance(0.25) {
		fn, metric = "sub", "l2_squared"
	}
	if metric == "cosine" && r.Bool() {
		// unit vectors, as the cosine indexes would feed them (zero vectors stay as they are)
		for i, v := range vs {
			vs[i] = comet.Normalize(v)
		}
	}
	if r.Chance(0.03) {
		vs = nil // no training vector at all
	}
	return trainCmd{Op: "kmeans", Fn: fn, Metric: metric, K: k, MaxIter: mi, Vecs: bits2(vs)}
}

func genIndexCmds(r *core.Rand, tier string) []trainCmd {
	typ := []string{"ivf", "pq", "ivfpq"}[r.Intn(3)]
	metric := metrics[r.Intn(3)]
	var dim, nlist, m, nbits, n int
	switch typ {
	case "ivf":
		dim = r.Range(1, 16)
		nlist = r.Range(1, 8)
		n = r.Range(nlist, 120)
		if r.Chance(0.05) {
			n = r.Range(0, nlist) // possibly too few
		}
	case "pq":
		m = []int{1, 2, 4}[r.Intn(3)]
		dim = m * r.Range(1, 4)
		nbits = r.Range(1, 4)
		n = r.Range(1<<nbits, 100)
		if r.Chance(0.05) {
			n = r.Range(0, 1<<nbits)
		}
	default:
		m = []int{1, 2, 4}[r.Intn(3)]
		dim = m * r.Range(1, 4)
		nbits = r.Range(1, 3)
		nlist = r.Range(1, 4)
		lo := nlist * 10
		if 1<<nbits > lo {
			lo = 1 << nbits
		}
		n = r.Range(lo, lo+80)
		if r.Chance(0.05) {
			n = r.Range(0, lo)
		}
	}
	// the property's whole range of training-set sizes (up to 500): large sets relative to the number of
	// centroids (hundreds of vectors per centroid with Nbits 1..2 / few lists) in a sixth of the cases
	if r.Chance(0.17) {
		switch typ {
		case "ivf":
			nlist = r.Range(1, 3)
		case "pq":
			nbits = r.Range(1, 2)
		default:
			nbits, nlist = r.Range(1, 2), r.Range(1, 2)
		}
		if dim > 4 {
			dim = max(m, 1) * r.Range(1, 2)
		}
		n = []int{r.Range(129, 140), r.Range(257, 270), r.Range(129, 500), 500}[r.Intn(4)]
	}
	vs, _ := genTrainSet(r, max(n, 1), dim)
	vs = vs[:n]
	cmds := []trainCmd{{Op: "itrain", Typ: typ, Metric: metric, P1: nlist, P2: m, P3: nbits, Vecs: bits2(vs)}}
	// re-train the same index on other data (mostly fewer vectors): training is a function of
	// its argument, so it must then equal a fresh index trained on the second set only
	for r.Chance(0.35) {
		n2 := r.Range(0, n)
		if r.Chance(0.7) && n > 1 {
			n2 = r.Range(n/2, n-1)
		}
		if r.Chance(0.15) {
			n2 = n + r.Range(0, 10)
		}
		var vs2 [][]float32
		if r.Bool() || len(vs) == 0 {
			vs2, _ = genTrainSet(r, max(n2, 1), dim)
			vs2 = vs2[:n2]
		} else { // a prefix / suffix of the first set
			src := vs
			for len(src) < n2 {
				src = append(src, vs...)
			}
			if len(src) == 0 || n2 == 0 {
				vs2 = nil
			} else if r.Bool() {
				vs2 = src[:n2]
			} else {
				vs2 = src[len(src)-n2:]
			}
		}
		cmds = append(cmds, trainCmd{Op: "iretrain", Typ: typ, Metric: metric, P1: nlist, P2: m, P3: nbits, Vecs: bits2(vs2)})
		vs, n = vs2, len(vs2)
	}
	// add the training vectors (and a few fresh ones) to both copies, then query
	id := uint32(1)
	pAdd := 0.7
	if len(vs) > 80 {
		pAdd = 56.0 / float64(len(vs))
	}
	for _, v := range vs {
		if r.Chance(pAdd) {
			cmds = append(cmds, trainCmd{Op: "iadd", ID: id, Vec: core.Bits(v)})
			id++
		}
	}
	fresh, _ := genTrainSet(r, r.Range(1, 8), dim)
	for _, v := range fresh {
		cmds = append(cmds, trainCmd{Op: "iadd", ID: id, Vec: core.Bits(v)})
		id++
	}
	for j := r.Range(2, 6); j > 0; j-- {
		var q []float32
		if len(vs) > 0 && r.Bool() {
			q = clone32(vs[r.Intn(len(vs))])
		} else {
			q = f32s(gauss(r, dim, 1))
		}
		k := []int{0, -1, 1, 3, 10, 1000}[r.Intn(6)]
		np := []int{0, 1, 2, max(nlist, 1), 100}[r.Intn(5)]
		cmds = append(cmds, trainCmd{Op: "isearch", K: k, NProbe: np, Vec: core.Bits(q)})
	}
	return cmds
}

// half-precision probes: normal range, ties between neighbouring binary16 values,
// subnormal range, underflow, overflow boundary, zeros.
func genHalfVec(r *core.Rand) []float32 {
	n := r.Range(1, 24)
	v := make([]float32, n)
	for i := range v {
		var x float64
		switch r.Pick(6, 3, 2, 1, 2, 1, 1) {
		case 0: // anywhere in the normal range
			x = math.Pow(2, -14+30*r.Float64())
		case 1: // exactly half-way between two neighbouring binary16 values (ties to even)
			e := r.Range(-14, 15)
			m := r.Range(1024, 2047)
			x = (float64(m) + 0.5) * math.Pow(2, float64(e-10))
		case 2: // subnormal range of binary16
			x = math.Pow(2, -25+11*r.Float64())
		case 3: // far below: underflow to zero
			x = math.Pow(2, -40+14*r.Float64())
		case 4: // overflow boundary 65504 / 65520
			x = []float64{65504, 65519.996, 65520, 65536, 70000, 1e6, 65503.9}[r.Intn(7)]
		case 5:
			x = 0
		default: // a binary16 value ± 1 ulp of float32
			e := r.Range(-14, 15)
			m := r.Range(1024, 2047)
			f := float32(float64(m) * math.Pow(2, float64(e-10)))
			x = float64(math.Float32frombits(math.Float32bits(f) + uint32(r.Range(0, 2)) - 1))
		}
		if r.Bool() {
			x = -x
		}
		v[i] = float32(x)
	}
	return v
}

func genInt8Cmd(r *core.Rand) trainCmd {
	dim := r.Range(1, 24)
	nt := r.Range(0, 6)
	scale := math.Pow(10, -3+6*r.Float64())
	tv := make([][]float32, nt)
	for i := range tv {
		tv[i] = f32s(gauss(r, dim, scale))
	}
	if r.Chance(0.08) { // all-zero training data: stays untrained
		for i := range tv {
			for d := range tv[i] {
				tv[i][d] = 0
			}
		}
	}
	var amax float32
	for _, t := range tv {
		for _, x := range t {
			if a := float32(math.Abs(float64(x))); a > amax {
				amax = a
			}
		}
	}
	v := make([]float32, dim)
	for i := range v {
		switch r.Pick(5, 2, 3, 1, 1) {
		case 0: // inside the trained range
			v[i] = float32((2*r.Float64() - 1) * float64(amax))
		case 1: // the ends of the range
			v[i] = amax * float32(1-2*r.Intn(2))
		case 2: // half-way between two quantisation levels
			q := r.Range(-127, 126)
			v[i] = float32((float64(q) + 0.5) / 127 * float64(amax))
		case 3: // outside the trained range (wraps; no bound claimed)
			v[i] = float32(float64(amax) * (1 + 9*r.Float64()) * float64(1-2*r.Intn(2)))
		default: // a training value itself
			if nt > 0 {
				v[i] = tv[r.Intn(nt)][r.Intn(dim)]
			}
		}
	}
	return trainCmd{Op: "qint8", Via: genVia(r), Vecs: bits2(tv), Vec: core.Bits(v)}
}

func genVia(r *core.Rand) string {
	if r.Chance(0.6) {
		return "factory"
	}
	return "direct"
}

// several int8 quantizers of the same kind in one process: one is trained (or SetAbsMax),
// the others must stay untrained and refuse; then a second one is trained with a
// different range and both must reconstruct within their OWN absMax/254.
func genMultiCmd(r *core.Rand) trainCmd {
	dim := r.Range(1, 12)
	mk := func(scale float64, zero bool) [][]float32 {
		tv := make([][]float32, r.Range(1, 4))
		for i := range tv {
			tv[i] = f32s(gauss(r, dim, scale))
			if zero {
				for d := range tv[i] {
					tv[i][d] = 0
				}
			}
		}
		return tv
	}
	sa := math.Pow(10, -2+4*r.Float64())
	sb := sa * math.Pow(10, []float64{-2, -1, 1, 2, 3}[r.Intn(5)]) // a clearly different range
	tvA, tvB := mk(sa, r.Chance(0.05)), mk(sb, r.Chance(0.05))
	cmd := trainCmd{Op: "qmulti", Via: genVia(r), Count: r.Range(2, 3), Mode: "train", Vecs: bits2(tvA), Vecs2: bits2(tvB)}
	if r.Chance(0.3) {
		cmd.Mode = "set"
		switch r.Pick(6, 1, 1) {
		case 0:
			cmd.Set = math.Float32bits(float32(sa * (0.5 + r.Float64())))
		case 1:
			cmd.Set = 0
		default:
			cmd.Set = math.Float32bits(float32(-sa))
		}
	}
	// probe: inside A's range, inside B's range, the ends, half-way points of either
	v := make([]float32, dim)
	for i := range v {
		s := sa
		if r.Bool() {
			s = sb
		}
		switch r.Pick(4, 1, 2) {
		case 0:
			v[i] = float32((2*r.Float64() - 1) * s)
		case 1:
			v[i] = float32(s * float64(1-2*r.Intn(2)))
		default:
			v[i] = float32((float64(r.Range(-127, 126)) + 0.5) / 127 * s)
		}
	}
	cmd.Vec = core.Bits(v)
	return cmd
}

func genTrain(r *core.Rand, tier string) *trainCase {
	switch r.Pick(6, 2, 2) {
	case 0:
		c := &trainCase{Theme: "kmeans"}
		for j := r.Range(1, 2); j > 0; j-- {
			c.Cmds = append(c.Cmds, genKMeansCmd(r, tier))
		}
		return c
	case 1:
		return &trainCase{Theme: "index", Cmds: genIndexCmds(r, tier)}
	default:
		c := &trainCase{Theme: "quant"}
		for j := r.Range(3, 10); j > 0; j-- {
			switch r.Pick(2, 6, 6, 5, 1, 1) {
			case 0:
				c.Cmds = append(c.Cmds, trainCmd{Op: "qfull", Via: genVia(r), Vec: core.Bits(f32s(gauss(r, r.Range(1, 16), 1)))})
			case 1:
				c.Cmds = append(c.Cmds, trainCmd{Op: "qhalf", Via: genVia(r), Vec: core.Bits(genHalfVec(r))})
			case 2:
				c.Cmds = append(c.Cmds, genInt8Cmd(r))
			case 3:
				c.Cmds = append(c.Cmds, genMultiCmd(r))
			case 4:
				c.Cmds = append(c.Cmds, trainCmd{Op: "qnew", Kind: []string{"float32", "float16", "int8", "float64", "", "INT8", "int4", "bfloat16"}[r.Intn(8)]})
			default:
				d := []int{r.Range(-16, 0), r.Range(1, 64), r.Range(65, 2048), 8 * r.Range(1, 64), 33 * r.Range(1, 5), 7, 1}[r.Intn(7)]
				c.Cmds = append(c.Cmds, trainCmd{Op: "pqparams", K: d})
			}
		}
		return c
	}
}

var quantMu sync.Mutex

func viaTok(v string) string {
	if v == "factory" {
		return "factory"
	}
	return "direct"
}

// newQ obtains a quantizer through the public factory or through the struct literal.
func newQ(via string, kind comet.QuantizerType) (comet.Quantizer, error) {
	if via == "factory" {
		return comet.NewQuantizer(kind)
	}
	switch kind {
	case comet.FullPrecision:
		return &comet.FullPrecisionQuantizer{}, nil
	case comet.HalfPrecision:
		return &comet.HalfPrecisionQuantizer{}, nil
	default:
		return &comet.Int8Quantizer{}, nil
	}
}

func int8sStr(q []int8) string {
	qi := make([]int, len(q))
	for i, x := range q {
		qi[i] = int(x)
	}
	return intsStr(qi)
}

type trainedIndex interface {
	Train([]comet.VectorNode) error
	Add(comet.VectorNode) error
	NewSearch() comet.VectorSearch
}

func nodesOf(vs [][]float32) []comet.VectorNode {
	ns := make([]comet.VectorNode, len(vs))
	for i, v := range vs {
		ns[i] = *comet.NewVectorNodeWithID(uint32(i+1), v)
	}
	return ns
}

func exportState(ix trainedIndex) (cs, cb [][]float32) {
	switch t := ix.(type) {
	case *comet.IVFIndex:
		return t.VerifIVFCentroids(), nil
	case *comet.PQIndex:
		return nil, t.VerifPQCodebooks()
	case *comet.IVFPQIndex:
		return t.VerifIVFPQCentroids(), t.VerifIVFPQCodebooks()
	}
	return nil, nil
}

func execTrain(c *trainCase) []string {
	lines := []string{"begin train " + c.Theme}
	var ixA, ixB trainedIndex
	added := 0
	step := func(cmd trainCmd) {
		switch cmd.Op {
		case "kmeans":
			vs := from2(cmd.Vecs)
			dist, err := comet.NewDistance(comet.DistanceKind(cmd.Metric))
			if err != nil {
				lines = append(lines, "op panic NewDistance "+err.Error())
				return
			}
			run := func(in [][]float32) ([][]float32, []int) {
				if cmd.Fn == "sub" {
					return comet.KMeansSubspace(in, cmd.K, cmd.MaxIter)
				}
				return comet.KMeans(in, cmd.K, dist, cmd.MaxIter)
			}
			in1 := from2(cmd.Vecs)
			c1, a1 := run(in1)
			unch := same2(in1, vs)
			c1snap := from2(bits2(c1))
			c2, a2 := run(from2(cmd.Vecs))
			det := same2(c1, c2) && intsStr(a1) == intsStr(a2) && same2(c1, c1snap) && (c1 == nil) == (c2 == nil) && (a1 == nil) == (a2 == nil)
			head := fmt.Sprintf("op kmeans %s %s %d %d %s =>", cmd.Fn, cmd.Metric, cmd.K, cmd.MaxIter, vecsHex(vs))
			if c1 == nil && a1 == nil {
				lines = append(lines, fmt.Sprintf("%s nil %s %s", head, b01(det), b01(unch)))
				return
			}
			d := dist
			if cmd.Fn == "sub" {
				d, _ = comet.NewDistance(comet.L2Squared)
			}
			nidx := make([]int, len(vs))
			for i, v := range vs {
				nidx[i] = comet.FindNearestCentroidIndex(v, c1, d)
			}
			lines = append(lines, fmt.Sprintf("%s %s %s %s %s %s", head, vecsHex(c1), intsStr(a1), intsStr(nidx), b01(det), b01(unch)))
		case "itrain", "iretrain":
			vs := from2(cmd.Vecs)
			mk := func() (trainedIndex, error) {
				switch cmd.Typ {
				case "ivf":
					return comet.NewIVFIndex(len0(vs, cmd), cmd.P1, comet.DistanceKind(cmd.Metric))
				case "pq":
					return comet.NewPQIndex(len0(vs, cmd), comet.DistanceKind(cmd.Metric), cmd.P2, cmd.P3)
				default:
					return comet.NewIVFPQIndex(len0(vs, cmd), comet.DistanceKind(cmd.Metric), cmd.P1, cmd.P2, cmd.P3)
				}
			}
			a, errA := mk()
			if cmd.Op == "iretrain" {
				// the first copy is the index of this case, trained before on other data; the
				// second copy is a fresh index that sees only the new data
				if ixA == nil {
					return
				}
				a, errA = ixA, nil
			}
			b, errB := mk()
			head := fmt.Sprintf("op %s %s %s %d %d %d %s =>", cmd.Op, cmd.Typ, cmd.Metric, cmd.P1, cmd.P2, cmd.P3, vecsHex(vs))
			if errA != nil || errB != nil {
				lines = append(lines, "op panic constructor "+fmt.Sprint(errA, errB))
				return
			}
			inA, inB := from2(cmd.Vecs), from2(cmd.Vecs)
			eA := a.Train(nodesOf(inA))
			eB := b.Train(nodesOf(inB))
			unch := same2(inA, vs) && same2(inB, vs)
			ixA, ixB, added = a, b, 0
			if eA != nil || eB != nil {
				lines = append(lines, fmt.Sprintf("%s err %s %s", head, b01(eA != nil && eB != nil), b01(unch)))
				if eA != nil || cmd.Op == "iretrain" {
					ixA, ixB = nil, nil // (a failed re-training keeps the old training: nothing to compare with)
				}
				return
			}
			csA, cbA := exportState(a)
			csB, cbB := exportState(b)
			lines = append(lines, fmt.Sprintf("%s ok %s %s %s %s", head, vecsHex(csA), vecsHex(cbA), b01(same2(csA, csB) && same2(cbA, cbB)), b01(unch)))
		case "iadd":
			if ixA == nil {
				return
			}
			v := core.FromBits(cmd.Vec)
			eA := ixA.Add(*comet.NewVectorNodeWithID(cmd.ID, clone32(v)))
			eB := ixB.Add(*comet.NewVectorNodeWithID(cmd.ID, clone32(v)))
			if eA == nil {
				added++
			}
			lines = append(lines, fmt.Sprintf("op iadd %d %s => %s %s", cmd.ID, core.VecHex(v), vecErr(eA), vecErr(eB)))
		case "isearch":
			if ixA == nil {
				return
			}
			q := core.FromBits(cmd.Vec)
			run := func(ix trainedIndex) string {
				res, err := ix.NewSearch().WithQuery(clone32(q)).WithK(cmd.K).WithNProbes(cmd.NProbe).Execute()
				if err != nil {
					return "err " + vecErr(err)
				}
				return hitsLine(res)
			}
			lines = append(lines, fmt.Sprintf("op isearch %d %d %d %s => %s | %s", cmd.K, cmd.NProbe, added, core.VecHex(q), run(ixA), run(ixB)))
		case "qfull":
			v0 := core.FromBits(cmd.Vec)
			v := clone32(v0)
			qz, err := newQ(cmd.Via, comet.FullPrecision)
			if err != nil {
				lines = append(lines, "op panic qfull "+err.Error())
				return
			}
			qz.Train([][]float32{v}) // documented no-op
			st, err := qz.Quantize(v)
			if err != nil {
				lines = append(lines, "op panic qfull "+err.Error())
				return
			}
			q := st.([]float32)
			d, err := qz.Dequantize(st)
			if err != nil {
				lines = append(lines, "op panic qfull "+err.Error())
				return
			}
			_, werr := qz.Dequantize([]int8{1}) // wrong stored type must be refused
			fresh := len(v) == 0 || (&q[0] != &v[0] && &d[0] != &q[0])
			lines = append(lines, fmt.Sprintf("op qfull %s %s => %s %s %s %s %s %s %s", viaTok(cmd.Via), core.VecHex(v0), core.VecHex(q), core.VecHex(d),
				b01(sameBits(v, v0)), b01(fresh), string(qz.Type()), b01(qz.IsTrained()), b01(werr != nil)))
		case "qhalf":
			v0 := core.FromBits(cmd.Vec)
			v := clone32(v0)
			qz, err := newQ(cmd.Via, comet.HalfPrecision)
			if err != nil {
				lines = append(lines, "op panic qhalf "+err.Error())
				return
			}
			qz.Train([][]float32{v}) // documented no-op
			st, err := qz.Quantize(v)
			if err != nil {
				lines = append(lines, "op panic qhalf "+err.Error())
				return
			}
			q := st.([]uint16)
			d, err := qz.Dequantize(st)
			if err != nil {
				lines = append(lines, "op panic qhalf "+err.Error())
				return
			}
			_, werr := qz.Dequantize([]float32{1})
			hs := make([]string, len(q))
			for i, x := range q {
				hs[i] = fmt.Sprintf("%04x", x)
			}
			qs := "-"
			if len(hs) > 0 {
				qs = strings.Join(hs, ",")
			}
			lines = append(lines, fmt.Sprintf("op qhalf %s %s => %s %s %s %s %s %s", viaTok(cmd.Via), core.VecHex(v0), qs, core.VecHex(d), b01(sameBits(v, v0)),
				string(qz.Type()), b01(qz.IsTrained()), b01(werr != nil)))
		case "qint8":
			tv := from2(cmd.Vecs)
			v0 := core.FromBits(cmd.Vec)
			v := clone32(v0)
			qq, err := newQ(cmd.Via, comet.Int8Precision)
			qz, isInt8 := qq.(*comet.Int8Quantizer)
			if err != nil || !isInt8 {
				lines = append(lines, fmt.Sprintf("op panic qint8 constructor %v %T", err, qq))
				return
			}
			tin := from2(cmd.Vecs)
			qz.Train(tin)
			unch := same2(tin, tv)
			head := fmt.Sprintf("op qint8 %s %s %s =>", viaTok(cmd.Via), vecsHex(tv), core.VecHex(v0))
			st, err := qz.Quantize(v)
			unch = unch && sameBits(v, v0)
			if err != nil {
				_, derr := qz.Dequantize(make([]int8, len(v)))
				if qz.IsTrained() {
					lines = append(lines, "op panic qint8 error although trained: "+err.Error())
					return
				}
				lines = append(lines, fmt.Sprintf("%s untrained %s %s %s %s", head, core.Hex32(qz.GetAbsMax()), b01(derr != nil), b01(unch), string(qz.Type())))
				return
			}
			q := st.([]int8)
			d, derr := qz.Dequantize(st)
			if derr != nil {
				lines = append(lines, "op panic qint8 dequantize "+derr.Error())
				return
			}
			lines = append(lines, fmt.Sprintf("%s %s %s %s %s %s", head, core.Hex32(qz.GetAbsMax()), int8sStr(q), core.VecHex(d), b01(unch), string(qz.Type())))
		case "qmulti":
			tvA, tvB := from2(cmd.Vecs), from2(cmd.Vecs2)
			v0 := core.FromBits(cmd.Vec)
			n := cmd.Count
			if n < 2 {
				n = 2
			}
			qs := make([]*comet.Int8Quantizer, n)
			for i := range qs {
				qq, err := newQ(cmd.Via, comet.Int8Precision)
				z, ok := qq.(*comet.Int8Quantizer)
				if err != nil || !ok {
					lines = append(lines, fmt.Sprintf("op panic qmulti constructor %v %T", err, qq))
					return
				}
				qs[i] = z
			}
			distinct := true
			for i := range qs {
				for j := 0; j < i; j++ {
					if qs[i] == qs[j] {
						distinct = false
					}
				}
			}
			// "t<trained><quantize refuses><dequantize refuses>"
			probe := func(z *comet.Int8Quantizer) string {
				_, qe := z.Quantize(clone32(v0))
				_, de := z.Dequantize(make([]int8, len(v0)))
				return b01(z.IsTrained()) + b01(qe != nil) + b01(de != nil)
			}
			amaxes := func() string {
				out := make([]float32, n)
				for i, z := range qs {
					out[i] = z.GetAbsMax()
				}
				return hexList(out)
			}
			types := make([]string, n)
			pre := make([]string, n)
			for i, z := range qs {
				types[i] = string(z.Type())
				pre[i] = probe(z)
			}
			inA := from2(cmd.Vecs)
			arg := vecsHex(tvA)
			if cmd.Mode == "set" {
				qs[0].SetAbsMax(math.Float32frombits(cmd.Set))
				arg = core.Hex32(math.Float32frombits(cmd.Set))
			} else {
				qs[0].Train(inA)
			}
			amax1 := amaxes()
			mid := make([]string, 0, n)
			for _, z := range qs[1:] {
				mid = append(mid, probe(z))
			}
			inB := from2(cmd.Vecs2)
			qs[1].Train(inB)
			amax2 := amaxes()
			use := func(z *comet.Int8Quantizer) string {
				st, err := z.Quantize(clone32(v0))
				if err != nil {
					return "untrained"
				}
				d, err := z.Dequantize(st)
				if err != nil {
					return "untrained"
				}
				return int8sStr(st.([]int8)) + ";" + core.VecHex(d)
			}
			r0, r1 := use(qs[0]), use(qs[1])
			last := "-"
			if n > 2 {
				last = probe(qs[2])
			}
			unch := same2(inA, tvA) && same2(inB, tvB)
			// re-train the first (which holds range A) on the second's data: Train determines the range from
			// its argument alone, so it must now equal the second quantizer in range and output
			inB2 := from2(cmd.Vecs2)
			qs[0].Train(inB2)
			amaxR, r0b := amaxes(), use(qs[0])
			unch = unch && same2(inB2, tvB)
			// last independence probe, whatever the training data were: SetAbsMax(3.25) on the first only
			qs[0].SetAbsMax(3.25)
			amax3 := amaxes()
			lines = append(lines, fmt.Sprintf("op qmulti %s %d %s %s %s %s => %s %s %s | %s %s | %s | %s | %s | %s %s | %s | %s %s", viaTok(cmd.Via), n, cmd.Mode, arg, vecsHex(tvB), core.VecHex(v0),
				b01(distinct), strings.Join(types, ","), strings.Join(pre, ","), amax1, strings.Join(mid, ","), amax2, r0, r1, last, b01(unch), amax3, amaxR, r0b))
		case "qnew":
			qq, err := comet.NewQuantizer(comet.QuantizerType(cmd.Kind))
			k := cmd.Kind
			if k == "" {
				k = "-"
			}
			if err != nil {
				lines = append(lines, fmt.Sprintf("op qnew %s => err %s", k, b01(qq == nil)))
				return
			}
			lines = append(lines, fmt.Sprintf("op qnew %s => ok %s", k, string(qq.Type())))
		case "pqparams":
			m, nb := comet.CalculatePQParams(cmd.K)
			ctor := "err"
			if cmd.K > 0 {
				if _, err := comet.NewPQIndex(cmd.K, comet.Euclidean, m, nb); err == nil {
					ctor = "ok"
				}
			}
			lines = append(lines, fmt.Sprintf("op pqparams %d => %d %d %s", cmd.K, m, nb, ctor))
		}
	}
	for _, cmd := range c.Cmds {
		func() {
			// every op that goes through the NewQuantizer factory runs alone: if the factory handed out
			// shared instances, concurrent workers of this process would make a failing case unreplayable
			if cmd.Via == "factory" || cmd.Op == "qnew" {
				quantMu.Lock()
				defer quantMu.Unlock()
			}
			step(cmd)
		}()
	}
	return append(lines, "end")
}

// len0: dimension of the training set (constructor argument); generated sets are never empty
// unless n = 0 was drawn, in which case the dimension is recovered from the parameters.
func len0(vs [][]float32, cmd trainCmd) int {
	if len(vs) > 0 {
		return len(vs[0])
	}
	if cmd.P2 > 0 {
		return cmd.P2
	}
	return 1
}

func nonTrivialTrain(lines, replies []string) bool {
	for i, l := range lines {
		if i >= len(replies) || !strings.HasPrefix(replies[i], "ok ") {
			continue
		}
		m := kv(replies[i])
		switch {
		case strings.HasPrefix(l, "op kmeans "):
			if m["n"] >= 2 && m["k"] >= 2 {
				return true
			}
		case strings.HasPrefix(l, "op isearch "):
			if m["nonempty"] == 1 {
				return true
			}
		case strings.HasPrefix(l, "op qhalf "):
			if m["normal"] > 0 {
				return true
			}
		case strings.HasPrefix(l, "op qint8 "):
			if m["inside"] > 0 {
				return true
			}
		}
	}
	return false
}

func init() {
	register(&core.Typed[trainCase]{
		StreamName: "train", Prop: "C20",
		RuleText: "three themes — kmeans: 0..500 training vectors in 1..32 dims (blobs, Gaussian, duplicates, all-equal, collinear, integer lattice, axis; unit vectors for cosine), k in Z (k<=0, small, =n, >n), maxIter in {-1,0,1,2,3,5,20,50}, KMeans with 3 metrics and KMeansSubspace; index: IVF / PQ / IVFPQ trained twice on the same data (also too few vectors; a sixth of the cases with 129..500 training vectors for 2..4 centroids / 1..3 lists), in 35% of the cases re-trained on other data (mostly fewer vectors) and compared with a fresh index that saw only the second set, same adds and queries (k<=0, small, huge; nprobe 0..all) on both copies; quant: quantizers obtained through NewQuantizer (60%) or the struct literals; float32 copy, float16 over normal range / exact ties / subnormals / underflow / overflow boundary, int8 with training data, range ends, half-way points, out-of-range values, untrained; 2-3 int8 quantizers in one process (one trained or SetAbsMax first, the others must stay untrained and refuse, a second trained with a range 0.01x..1000x different, both used on the same probe); NewQuantizer on known and unknown kinds; Type / IsTrained / no-op Train / wrong stored type; CalculatePQParams on dims -16..2048. Non-trivial: a k-means run with n>=2 and >=2 centroids, or a twice-trained search with a non-empty answer, or a float16 op with a normal-range component, or an int8 op with an in-range component; distinct = distinct request streams",
		NCases: func(tier string) int {
			if tier == "thorough" {
				return 25000
			}
			return 2500
		},
		GenF:  genTrain,
		ExecF: execTrain,
		LenF:  func(c *trainCase) int { return len(c.Cmds) },
		DropF: func(c *trainCase, lo, hi int) *trainCase {
			n := &trainCase{Theme: c.Theme}
			n.Cmds = append(n.Cmds, c.Cmds[:lo]...)
			n.Cmds = append(n.Cmds, c.Cmds[hi:]...)
			return n
		},
		NonTrivialF: nonTrivialTrain,
	})
}
