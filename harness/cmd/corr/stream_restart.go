package main

// Stream "restart" (C09): 1..4 sessions (open with FRESHLY constructed templates;
// add* [Flush])* ; Close), memtable limits from "smaller than one document" up,
// vector templates flat / hnsw / trained ivf (re-created and re-trained from the same
// training set for every session), with and without text and metadata templates.
// After every open and before every close the three modalities are probed; after
// every Close the directory listing is compared with the model's file system.

import (
	"strings"

	"verifharness/internal/core"
)

func genStoreCfg(r *core.Rand, c *stCase) {
	c.Vec = []string{"flat", "flat", "hnsw", "ivf", "none"}[r.Intn(5)]
	c.Text, c.Meta = r.Chance(0.6), r.Chance(0.6)
	c.Cosine = c.Vec != "none" && r.Chance(0.3)
	if c.Vec == "none" && !c.Text && !c.Meta {
		c.Text = true
	}
	c.Dim = r.Range(2, 5)
	// a document costs 64 + 4*dim + 2*len(text) + 96*fields bytes: ~64 … ~400
	switch r.Pick(3, 2, 3, 2, 2) {
	case 0:
		c.Limit = 1 // smaller than any document: every add rotates first
	case 1:
		c.Limit = int64(r.Range(64, 420)) // about one document
	case 2:
		c.Limit = int64(r.Range(400, 1200)) // two to four documents
	case 3:
		c.Limit = int64(r.Range(1200, 5000))
	case 4:
		c.Limit = 100 * 1024 * 1024 // the default: nothing is ever frozen
	}
	c.FlushThr = 200 * 1024 * 1024
	c.CompThr = 5
}

func genAdd(r *core.Rand, c *stCase) stCmd {
	cmd := stCmd{Op: "add", V: c.Vec != "none" && r.Chance(0.8), T: r.Chance(0.7), M: r.Chance(0.6), N: r.Intn(3)}
	if r.Chance(0.3) {
		cmd.Op = "addid"
	}
	if !cmd.V && !cmd.T && !cmd.M {
		cmd.T = true
	}
	if cmd.V && c.Vec != "hnsw" {
		// distances in up to three well separated groups (what autocut reacts to). Not for HNSW
		// templates: clustered data is where its nearest-M pruning disconnects the graph (C12, D3);
		// the store streams keep HNSW in the small unclustered regime where it is exact
		cmd.Far = r.Pick(6, 2, 1)
	}
	return cmd
}

func probes(c *stCase) []stCmd {
	var out []stCmd
	if c.Vec != "none" {
		out = append(out, stCmd{Op: "search", Q: "vec"})
	}
	if c.Text {
		out = append(out, stCmd{Op: "search", Q: "txt"})
	}
	if c.Meta {
		out = append(out, stCmd{Op: "search", Q: "md"}, stCmd{Op: "search", Q: "mdg"}, stCmd{Op: "search", Q: "mdgf"})
	}
	return out
}

// kProbes: every modality with a huge k, then with k = exactly the size of that answer ("large
// enough" in the property's sense) and with one more.
func kProbes(c *stCase) []stCmd {
	var out []stCmd
	for _, p := range probes(c) {
		out = append(out, p)
		if p.Q == "mdg" || p.Q == "mdgf" {
			continue
		}
		out = append(out, stCmd{Op: "search", Q: p.Q, K: 1}, stCmd{Op: "search", Q: p.Q, K: 2})
	}
	return out
}

func genRestart(r *core.Rand, tier string) *stCase {
	c := &stCase{}
	genStoreCfg(r, c)
	if r.Chance(0.15) {
		c.FlushThr = int64(r.Range(100, 900)) // background flushes happen too
	}
	compacting := r.Chance(0.25)
	if compacting {
		c.CompThr = r.Range(2, 3)
	}
	c.Dir = r.Intn(len(storeDirNames))
	if r.Chance(0.4) {
		c.Dir = 0
	}
	sessions := r.Range(1, 4)
	maxAdds := 5
	if tier == "thorough" {
		maxAdds = 9
	}
	nAdds := 0
	for s := 0; s < sessions; s++ {
		c.Cmds = append(c.Cmds, stCmd{Op: "open"})
		if s > 0 && r.Chance(0.7) {
			c.Cmds = append(c.Cmds, probes(c)...)
		}
		rounds := r.Range(1, 3)
		for k := 0; k < rounds; k++ {
			for n := r.Range(0, maxAdds); n > 0; n-- {
				c.Cmds = append(c.Cmds, genAdd(r, c))
				nAdds++
				if c.Vec != "hnsw" && r.Chance(0.06) {
					// the same id again, possibly acknowledged in an earlier session
					ref := r.Intn(nAdds)
					if r.Bool() {
						c.Cmds = append(c.Cmds, stCmd{Op: "remove", Ref: ref})
					}
					c.Cmds = append(c.Cmds, stCmd{Op: "readd", Ref: ref, N: r.Intn(3)})
					nAdds++
				}
				if r.Chance(0.15) {
					c.Cmds = append(c.Cmds, stCmd{Op: "bg", W: "f"})
				}
			}
			if r.Chance(0.08) {
				c.Cmds = append(c.Cmds, stCmd{Op: "rotate"})
			}
			if r.Chance(0.6) {
				c.Cmds = append(c.Cmds, stCmd{Op: "flush"})
				if compacting && r.Chance(0.4) {
					// a compaction run to completion: deleted sources leave gaps in the id sequence
					c.Cmds = append(c.Cmds, stCmd{Op: "trigger"})
					for k := 0; k < c.CompThr+4; k++ {
						c.Cmds = append(c.Cmds, stCmd{Op: "bg", W: "c"})
					}
				}
			}
			if r.Chance(0.3) {
				c.Cmds = append(c.Cmds, probes(c)...)
			}
		}
		if r.Chance(0.5) {
			c.Cmds = append(c.Cmds, stCmd{Op: "state"})
		}
		c.Cmds = append(c.Cmds, stCmd{Op: "close"}, stCmd{Op: "ls"})
	}
	// the final reopen: everything acknowledged before the last Close must be found
	c.Cmds = append(c.Cmds, stCmd{Op: "open"})
	c.Cmds = append(c.Cmds, probes(c)...)
	c.Cmds = append(c.Cmds, kProbes(c)...)
	c.Cmds = append(c.Cmds, optProbes(r, c)...)
	c.Cmds = append(c.Cmds, stCmd{Op: "state"}, stCmd{Op: "close"}, stCmd{Op: "ls"})
	return c
}

func execStoreCase(stream string) func(c *stCase) []string {
	return func(c *stCase) []string {
		return withStoreEnv(c, stream, func(e *stExec) {
			for _, cmd := range c.Cmds {
				e.do(cmd)
			}
			e.closeStore()
		})
	}
}

// nonTrivialRestart: at least two sessions, and a probe in a later session that had to
// find documents of an earlier one (must>0) and returned something.
func nonTrivialRestart(lines, replies []string) bool {
	opens := 0
	for i, l := range lines {
		if strings.HasPrefix(l, "op open") {
			opens++
		}
		if opens >= 2 && strings.HasPrefix(l, "op search") && i < len(replies) {
			m := kv(replies[i])
			if m["must"] > 0 && (m["nonempty"] == 1 || strings.HasPrefix(replies[i], "KNOWN")) {
				return true
			}
		}
	}
	return false
}

func init() {
	register(&core.Typed[stCase]{
		StreamName: "restart", Prop: "C09",
		RuleText: "1..4 sessions of (open with freshly constructed templates; (add* [Flush])*; Close) plus a final reopen, memtable limits from below one document to the 100 MB default, base directory names with glob metacharacters, spaces, unicode, a trailing slash, a dot-dot component, relative, a symlinked parent, very long, occasionally the same id removed and added again (also across sessions), templates flat/hnsw (small unclustered cases only, where it is exact)/trained ivf/none x text x metadata, occasional background flush steps and (a quarter of the cases) compactions run to completion; vector, text and metadata probes after opens and before closes (metadata also through filter GROUPS alone and groups + filters; after the final reopen every modality also with k = exactly the size of the previous answer and with one more, and option probes — threshold, aggregation, nprobes / efSearch, fusion — compared with a reference in-memory hybrid index fed every acknowledged add of all sessions); directory listing after every Close; a case is non-trivial when a probe in a session >= 2 had to find documents acknowledged in an earlier session (must>0) and the implementation returned a non-empty answer or the known defect was reproduced; distinct = distinct request streams",
		NCases: func(tier string) int {
			if tier == "thorough" {
				return 1500
			}
			return 120
		},
		GenF:        genRestart,
		ExecF:       execStoreCase("restart"),
		LenF:        func(c *stCase) int { return len(c.Cmds) },
		DropF:       dropCmds,
		NonTrivialF: nonTrivialRestart,
	})
}
