package main

// Streams of C11.
//
// "conc": 2..16 goroutines issue random Add / AddWithID / Remove / search / Flush / WriteTo
// (store: also rotation by tiny memtables, background flush, TriggerCompaction, Close) against
// ONE shared instance of one of the nine kinds; every op is logged with invocation / response
// numbers from one atomic clock and the Lean driver judges the history (checkVisibility, the
// allowed-error rule, id uniqueness). A panic (recovered per op) or goroutines that do not
// finish (watchdog) are failing inputs.
//
// "sched": directed schedules of memtableQueue.addWithID against Rotate / Flush, realised at the
// verifPoint yield points "memtableQueue:addWithID:unlocked" and "memtable:addWithID:checked",
// replayed step by step on the Lean rotation model (known finding D15).

import (
	"bytes"
	"fmt"
	"io"
	"os"
	"runtime"
	"sort"
	"strconv"
	"strings"
	"sync"
	"sync/atomic"
	"time"

	comet "github.com/wizenheimer/comet"
	"verifharness/internal/core"
)

type concOp struct {
	Op string `json:"op"` // add | autoadd | remove | search | search2 | flush | write | autoid | compact | rotate | close
	ID uint32 `json:"id,omitempty"`
	Q  int    `json:"q,omitempty"` // search: which query (every goroutine of a storm asks its own)
}

type concCase struct {
	Kind  string     `json:"kind"`
	Progs [][]concOp `json:"progs"`
	Spin  bool       `json:"spin,omitempty"`  // runtime.Gosched between ops
	Pre   int        `json:"pre,omitempty"`   // search storm: documents added before the race starts
	Empty bool       `json:"empty,omitempty"` // the race starts on an EMPTY index: every goroutine begins with an add, released by one barrier
}

var concKinds = []string{"flat", "hnsw", "ivf", "pq", "ivfpq", "bm25", "meta", "hybrid", "store"}

const concIDBase = uint32(1) << 30

func genConc(r *core.Rand, tier string) *concCase {
	c := &concCase{Kind: concKinds[r.Pick(3, 2, 2, 3, 2, 2, 3, 3, 3)], Spin: r.Chance(0.5)}
	g := r.Range(2, 16)
	if r.Chance(0.4) {
		g = r.Range(2, 4)
	}
	maxOps := 10
	if tier == "thorough" {
		maxOps = 24
	}
	// search storm (kinds whose score is the metric distance): a few hundred documents, 16
	// goroutines, mostly searches, every search with its own query — answers that leak from one
	// search into another (shared scratch memory) carry scores that are not the distance
	storm := false
	switch c.Kind {
	case "flat", "hnsw", "ivf", "hybrid":
		storm = r.Chance(0.4)
		if c.Kind == "hnsw" {
			storm = r.Chance(0.7)
		}
	case "meta", "bm25":
		// big id sets read by many searches while a few writers mutate them
		storm = r.Chance(0.5)
	}
	if storm {
		g = 16
		c.Pre = r.Range(150, 400)
		c.Spin = false
	}
	// empty start: nothing is added before the race; all goroutines (usually many) start with an
	// add at the same instant — "who creates the first entry" races.  For HNSW such a case stays
	// within 2M+1 = 33 vertices with M = 16 and issues no removal, so that every vertex must be
	// findable afterwards (begin … hnswfill)
	if !storm && c.Kind != "store" && r.Chance(0.3) {
		c.Empty = true
		if r.Chance(0.7) {
			g = r.Range(6, 16)
		}
	}
	hnswFill := c.Empty && c.Kind == "hnsw"
	next := concIDBase + uint32(r.Intn(1000))*64
	var ids []uint32
	// a few ids exist before the race starts (goroutine 0 adds them first)
	c.Progs = make([][]concOp, g)
	hot := r.Range(1, 4)
	if c.Empty {
		hot = 1
		for gi := 0; gi < g; gi++ {
			next++
			ids = append(ids, next)
			c.Progs[gi] = append(c.Progs[gi], concOp{Op: "add", ID: next})
		}
	} else {
		for i := 0; i < hot; i++ {
			next++
			ids = append(ids, next)
			c.Progs[0] = append(c.Progs[0], concOp{Op: "add", ID: next})
		}
	}
	for gi := 0; gi < g; gi++ {
		n := r.Range(2, maxOps)
		if storm {
			n = r.Range(6, 12)
		}
		if hnswFill {
			n = r.Range(0, 3)
		}
		for i := 0; i < n; i++ {
			w := []int{6, 1, 5, 5, 2, 1, 1, 1}
			if storm {
				w = []int{2, 0, 2, 14, 1, 0, 0, 6}
			}
			if hnswFill {
				w = []int{3, 0, 0, 5, 0, 1, 0, 2}
				if len(ids) >= 30 {
					w[0] = 0
				}
			}
			switch r.Pick(w...) {
			case 0:
				next++
				ids = append(ids, next)
				c.Progs[gi] = append(c.Progs[gi], concOp{Op: "add", ID: next})
			case 1:
				if c.Kind == "hybrid" || c.Kind == "store" {
					c.Progs[gi] = append(c.Progs[gi], concOp{Op: "autoadd"})
				} else {
					c.Progs[gi] = append(c.Progs[gi], concOp{Op: "autoid", ID: uint32(r.Intn(2))})
				}
			case 2: // remove: mostly a hot id (races between removers), sometimes any / absent
				var id uint32
				switch {
				case r.Chance(0.6):
					id = ids[r.Intn(min(len(ids), hot+2))]
				case r.Chance(0.9):
					id = ids[r.Intn(len(ids))]
				default:
					id = concIDBase - 5 + uint32(r.Intn(3))
				}
				c.Progs[gi] = append(c.Progs[gi], concOp{Op: "remove", ID: id})
			case 3:
				op := "search"
				if r.Chance(0.2) {
					op = "search2"
				}
				c.Progs[gi] = append(c.Progs[gi], concOp{Op: op, Q: r.Intn(1000)})
			case 4:
				c.Progs[gi] = append(c.Progs[gi], concOp{Op: "flush"})
			case 5:
				c.Progs[gi] = append(c.Progs[gi], concOp{Op: "write"})
			case 6:
				if c.Kind == "store" {
					c.Progs[gi] = append(c.Progs[gi], concOp{Op: []string{"compact", "rotate"}[r.Intn(2)]})
				} else {
					c.Progs[gi] = append(c.Progs[gi], concOp{Op: "autoid"})
				}
			case 7:
				c.Progs[gi] = append(c.Progs[gi], concOp{Op: "search", Q: r.Intn(1000)})
			}
		}
	}
	if c.Kind == "store" && r.Chance(0.3) {
		gi := r.Intn(g)
		c.Progs[gi] = append(c.Progs[gi], concOp{Op: "close"})
	}
	return c
}

func concVec(id uint32) []float32 {
	return []float32{float32(id%7) + 1, float32(id%5) + 1, float32(id%3) + 1, float32(id%11) + 1}
}

// concQuery: the query of search number k of goroutine g (far apart, so that distance profiles differ)
func concQuery(g, k int) []float32 {
	return []float32{float32((g+1)*3) + float32(k%4), float32(k%9) - 4, float32((g*7+k)%13) - 6, float32(g%5) + 0.5}
}
func concText(id uint32) string { return fmt.Sprintf("common w%d", id%5) }
func concMeta(id uint32) map[string]interface{} {
	return map[string]interface{}{"cat": fmt.Sprintf("c%d", id%3), "n": int(id % 10)}
}

func concErr(err error) string {
	if err == nil {
		return "ok"
	}
	m := err.Error()
	switch {
	case strings.Contains(m, "memtable is frozen"):
		return "frozen"
	case strings.Contains(m, "storage is closed"), strings.Contains(m, "already closed"):
		return "closed"
	case strings.Contains(m, "already deleted"):
		return "deleted"
	case strings.Contains(m, "not found"):
		return "notfound"
	default:
		return "other:" + strings.ReplaceAll(core_trunc(m, 80), " ", "_")
	}
}

func core_trunc(s string, n int) string {
	if len(s) > n {
		return s[:n]
	}
	return s
}

// concTarget is one shared instance behind closures.
type concTarget struct {
	add     func(id uint32) error
	autoadd func() (uint32, error)
	remove  func(id uint32) error
	search  func(two bool) ([]uint32, error)
	// multi-query variant (vector kinds, bm25): nq queries, aggregation kind; nil = not offered
	searchMulti func(nq int, agg string, g, k int) ([]uint32, error)
	// scored kinds (score = true metric distance: flat, hnsw, ivf, hybrid over flat in vector mode):
	// the search with its queries and (id, score) pairs; vecOf = the vector added under an id
	searchScored func(two bool, q []float32) (qs [][]float32, ids []uint32, scores []float32, err error)
	// scored multi-query variant: the queries, aggregation kind and scored hits
	searchScoredMulti func(nq int, agg string, g, k int) (qs [][]float32, ids []uint32, scores []float32, err error)
	vecOf             func(id uint32) []float32
	flush             func() error
	write             func() error
	compact           func()
	rotate            func()
	close             func() error
	cleanup           func()
}

func trainVecs(n int) []comet.VectorNode {
	r := core.NewRand(7, "c11-train")
	out := make([]comet.VectorNode, n)
	for i := range out {
		v := []float32{float32(r.Range(1, 9)), float32(r.Range(1, 9)), float32(r.Range(1, 9)), float32(r.Range(1, 9))}
		out[i] = *comet.NewVectorNodeWithID(uint32(900000+i), v)
	}
	return out
}

func vecIDs(res []comet.VectorResult) []uint32 {
	out := make([]uint32, len(res))
	for i, h := range res {
		out[i] = h.GetId()
	}
	return out
}

func hybIDs(res []comet.HybridSearchResult) []uint32 {
	out := make([]uint32, len(res))
	for i, h := range res {
		out[i] = h.ID
	}
	return out
}

const bigK = 1 << 20

func vectorTarget(idx comet.VectorIndex, nprobe int, scored bool) *concTarget {
	q := []float32{1, 2, 3, 4}
	t := &concTarget{
		add:    func(id uint32) error { return idx.Add(*comet.NewVectorNodeWithID(id, concVec(id))) },
		remove: func(id uint32) error { return idx.Remove(*comet.NewVectorNodeWithID(id, nil)) },
		search: func(two bool) ([]uint32, error) {
			s := idx.NewSearch().WithK(bigK).WithNProbes(nprobe).WithEfSearch(4096)
			if two {
				s = s.WithQuery(q, []float32{4, 3, 2, 1})
			} else {
				s = s.WithQuery(q)
			}
			res, err := s.Execute()
			return vecIDs(res), err
		},
		flush: idx.Flush,
		write: func() error {
			w, ok := idx.(io.WriterTo)
			if !ok {
				return fmt.Errorf("no WriterTo")
			}
			_, err := w.WriteTo(io.Discard)
			return err
		},
	}
	multiQs := func(nq, g, k int) [][]float32 {
		qs := make([][]float32, nq)
		for i := range qs {
			qs[i] = concQuery(g+3*i, k+11*i)
		}
		return qs
	}
	t.searchMulti = func(nq int, agg string, g, k int) ([]uint32, error) {
		res, err := idx.NewSearch().WithK(bigK).WithNProbes(nprobe).WithEfSearch(4096).
			WithScoreAggregation(comet.ScoreAggregationKind(agg)).WithQuery(multiQs(nq, g, k)...).Execute()
		return vecIDs(res), err
	}
	if scored {
		t.searchScoredMulti = func(nq int, agg string, g, k int) ([][]float32, []uint32, []float32, error) {
			qs := multiQs(nq, g, k)
			res, err := idx.NewSearch().WithK(bigK).WithNProbes(nprobe).WithEfSearch(4096).
				WithScoreAggregation(comet.ScoreAggregationKind(agg)).WithQuery(qs...).Execute()
			sc := make([]float32, len(res))
			for i, h := range res {
				sc[i] = h.GetScore()
			}
			return qs, vecIDs(res), sc, err
		}
		t.vecOf = concVec
		t.searchScored = func(two bool, q []float32) ([][]float32, []uint32, []float32, error) {
			qs := [][]float32{q}
			if two {
				qs = append(qs, []float32{4, 3, 2, 1})
			}
			res, err := idx.NewSearch().WithK(bigK).WithNProbes(nprobe).WithEfSearch(4096).WithQuery(qs...).Execute()
			sc := make([]float32, len(res))
			for i, h := range res {
				sc[i] = h.GetScore()
			}
			return qs, vecIDs(res), sc, err
		}
	}
	return t
}

func newConcTarget(kind string) (*concTarget, error) {
	switch kind {
	case "flat":
		idx, err := comet.NewFlatIndex(4, comet.DistanceKind("l2"))
		if err != nil {
			return nil, err
		}
		return vectorTarget(idx, 1, true), nil
	case "hnswfill":
		idx, err := comet.NewHNSWIndex(4, comet.DistanceKind("l2"), 16, 64, 4096)
		if err != nil {
			return nil, err
		}
		return vectorTarget(idx, 1, true), nil
	case "hnsw":
		idx, err := comet.NewHNSWIndex(4, comet.DistanceKind("l2"), 4, 32, 4096)
		if err != nil {
			return nil, err
		}
		return vectorTarget(idx, 1, true), nil
	case "ivf":
		idx, err := comet.NewIVFIndex(4, 3, comet.DistanceKind("l2"))
		if err != nil {
			return nil, err
		}
		if err := idx.Train(trainVecs(40)); err != nil {
			return nil, err
		}
		return vectorTarget(idx, 3, true), nil
	case "pq":
		idx, err := comet.NewPQIndex(4, comet.DistanceKind("l2"), 2, 4)
		if err != nil {
			return nil, err
		}
		if err := idx.Train(trainVecs(40)); err != nil {
			return nil, err
		}
		return vectorTarget(idx, 1, false), nil
	case "ivfpq":
		idx, err := comet.NewIVFPQIndex(4, comet.DistanceKind("l2"), 3, 2, 4)
		if err != nil {
			return nil, err
		}
		if err := idx.Train(trainVecs(40)); err != nil {
			return nil, err
		}
		return vectorTarget(idx, 3, false), nil
	case "bm25":
		idx := comet.NewBM25SearchIndex()
		return &concTarget{
			add:    func(id uint32) error { return idx.Add(id, concText(id)) },
			remove: idx.Remove,
			search: func(two bool) ([]uint32, error) {
				s := idx.NewSearch().WithK(bigK)
				if two {
					s = s.WithQuery("common", "w1 w2")
				} else {
					s = s.WithQuery("common")
				}
				res, err := s.Execute()
				out := make([]uint32, len(res))
				for i, h := range res {
					out[i] = h.GetId()
				}
				return out, err
			},
			searchMulti: func(nq int, agg string, g, k int) ([]uint32, error) {
				qs := []string{"common", "w1 w2", "w3", "w0 w4"}[:nq]
				res, err := idx.NewSearch().WithK(bigK).WithScoreAggregation(comet.ScoreAggregationKind(agg)).WithQuery(qs...).Execute()
				out := make([]uint32, len(res))
				for i, h := range res {
					out[i] = h.GetId()
				}
				return out, err
			},
			flush: idx.Flush,
			write: func() error { _, err := idx.WriteTo(io.Discard); return err },
		}, nil
	case "meta":
		idx := comet.NewRoaringMetadataIndex()
		return &concTarget{
			add:    func(id uint32) error { return idx.Add(*comet.NewMetadataNodeWithID(id, concMeta(id))) },
			remove: func(id uint32) error { return idx.Remove(*comet.NewMetadataNodeWithID(id, nil)) },
			search: func(two bool) ([]uint32, error) {
				s := idx.NewSearch()
				if two {
					s = s.WithFilters(comet.Exists("cat"))
				}
				res, err := s.Execute()
				out := make([]uint32, len(res))
				for i, h := range res {
					out[i] = h.GetId()
				}
				return out, err
			},
			flush: idx.Flush,
			write: func() error { _, err := idx.WriteTo(io.Discard); return err },
		}, nil
	case "hybrid":
		v, err := comet.NewFlatIndex(4, comet.DistanceKind("l2"))
		if err != nil {
			return nil, err
		}
		idx := comet.NewHybridSearchIndex(v, comet.NewBM25SearchIndex(), comet.NewRoaringMetadataIndex())
		var n atomic.Uint32
		var autoVec sync.Map // auto-assigned id → the vector added under it
		return &concTarget{
			add: func(id uint32) error { return idx.AddWithID(id, concVec(id), concText(id), concMeta(id)) },
			autoadd: func() (uint32, error) {
				k := n.Add(1)
				id, err := idx.Add(concVec(k), concText(k), concMeta(k))
				if err == nil {
					autoVec.Store(id, concVec(k))
				}
				return id, err
			},
			vecOf: func(id uint32) []float32 {
				if v, ok := autoVec.Load(id); ok {
					return v.([]float32)
				}
				return concVec(id)
			},
			searchScored: func(two bool, q []float32) ([][]float32, []uint32, []float32, error) {
				if two { // text mode: BM25 scores, not judged here
					return nil, nil, nil, nil
				}
				res, err := idx.NewSearch().WithK(bigK).WithVector(q).Execute()
				sc := make([]float32, len(res))
				for i, h := range res {
					sc[i] = float32(h.Score) // the hybrid score of a vector-only search is float64(distance)
				}
				return [][]float32{q}, hybIDs(res), sc, err
			},
			remove: idx.Remove,
			search: func(two bool) ([]uint32, error) {
				s := idx.NewSearch().WithK(bigK)
				if two {
					s = s.WithText("common")
				} else {
					s = s.WithVector([]float32{1, 2, 3, 4})
				}
				res, err := s.Execute()
				return hybIDs(res), err
			},
			flush: idx.Flush,
			write: func() error { return idx.WriteTo(io.Discard, io.Discard, io.Discard, io.Discard) },
		}, nil
	case "store":
		dir, err := os.MkdirTemp("", "c11store")
		if err != nil {
			return nil, err
		}
		v, err := comet.NewFlatIndex(4, comet.DistanceKind("l2"))
		if err != nil {
			return nil, err
		}
		cfg := comet.DefaultStorageConfig(dir)
		cfg.MemtableSizeLimit = 400 // two or three documents per memtable
		cfg.FlushThreshold = 900    // background flush after a handful of documents
		cfg.CompactionInterval = time.Hour
		cfg.CompactionThreshold = 2
		cfg.VectorIndexTemplate = v
		cfg.TextIndexTemplate = comet.NewBM25SearchIndex()
		cfg.MetadataIndexTemplate = comet.NewRoaringMetadataIndex()
		st, err := comet.OpenPersistentHybridIndex(cfg)
		if err != nil {
			os.RemoveAll(dir)
			return nil, err
		}
		var n atomic.Uint32
		return &concTarget{
			add: func(id uint32) error { return st.AddWithID(id, concVec(id), concText(id), concMeta(id)) },
			autoadd: func() (uint32, error) {
				k := n.Add(1)
				return st.Add(concVec(k), concText(k), concMeta(k))
			},
			remove: st.Remove,
			search: func(two bool) ([]uint32, error) {
				s := st.NewSearch().WithK(bigK)
				if two {
					s = s.WithText("common")
				} else {
					s = s.WithVector([]float32{1, 2, 3, 4})
				}
				res, err := s.Execute()
				return hybIDs(res), err
			},
			flush:   st.Flush,
			write:   st.Flush,
			compact: st.TriggerCompaction,
			rotate:  st.VerifRotate,
			close:   st.Close,
			cleanup: func() { st.Close(); os.RemoveAll(dir) },
		}, nil
	}
	return nil, fmt.Errorf("unknown kind %s", kind)
}

func idsCSV(ids []uint32) string {
	if len(ids) == 0 {
		return "-"
	}
	s := append([]uint32(nil), ids...)
	sort.Slice(s, func(i, j int) bool { return s[i] < s[j] })
	var b strings.Builder
	for i, id := range s {
		if i > 0 {
			b.WriteByte(',')
		}
		b.WriteString(strconv.FormatUint(uint64(id), 10))
	}
	return b.String()
}

func execConc(c *concCase) []string {
	kind := c.Kind
	if c.Empty && c.Kind == "hnsw" {
		kind = "hnswfill"
	}
	lines := []string{fmt.Sprintf("begin conc %s %d", kind, len(c.Progs))}
	t, err := newConcTarget(kind)
	if err != nil {
		return append(lines, "op panic constructor: "+err.Error(), "end")
	}
	if t.cleanup != nil {
		defer t.cleanup()
	}
	var clk atomic.Int64
	var mu sync.Mutex
	var lastDone atomic.Int64 // time of the last completed operation (watchdog: progress)
	lastDone.Store(time.Now().UnixNano())
	logf := func(format string, a ...any) {
		s := fmt.Sprintf(format, a...)
		mu.Lock()
		lines = append(lines, s)
		mu.Unlock()
		lastDone.Store(time.Now().UnixNano())
	}
	// one op, with recovery: returns the outcome class
	guard := func(f func() string) (out string) {
		defer func() {
			if r := recover(); r != nil {
				out = "panic"
				logf("op panic %s", core_trunc(strings.ReplaceAll(fmt.Sprint(r), "\n", " "), 200))
			}
		}()
		return f()
	}
	runOp := func(g int, op concOp) {
		switch op.Op {
		case "add":
			inv := clk.Add(1)
			out := guard(func() string { return concErr(t.add(op.ID)) })
			if t.vecOf != nil {
				logf("op add %d %d %d %d %s => %s", g, op.ID, inv, clk.Add(1), core.VecHex(t.vecOf(op.ID)), out)
			} else {
				logf("op add %d %d %d %d => %s", g, op.ID, inv, clk.Add(1), out)
			}
		case "autoadd":
			if t.autoadd == nil {
				return
			}
			inv := clk.Add(1)
			var id uint32
			out := guard(func() string {
				i, err := t.autoadd()
				id = i
				return concErr(err)
			})
			resp := clk.Add(1)
			if out == "ok" {
				logf("op autoid %d %d => -", g, id)
			}
			if t.vecOf != nil && out == "ok" {
				logf("op add %d %d %d %d %s => %s", g, id, inv, resp, core.VecHex(t.vecOf(id)), out)
			} else {
				logf("op add %d %d %d %d => %s", g, id, inv, resp, out)
			}
		case "autoid":
			var id uint32
			if op.ID%2 == 0 {
				id = comet.NewVectorNode(nil).ID()
			} else {
				id = comet.NewMetadataNode(nil).ID()
			}
			logf("op autoid %d %d => -", g, id)
		case "remove":
			inv := clk.Add(1)
			out := guard(func() string { return concErr(t.remove(op.ID)) })
			logf("op remove %d %d %d %d => %s", g, op.ID, inv, clk.Add(1), out)
		case "search", "search2":
			if op.Op == "search2" && (t.searchScoredMulti != nil || t.searchMulti != nil) {
				// 2..4 queries, aggregation sum / max / mean (derived from the op's query number)
				nq, agg := 2+(op.Q/3)%3, []string{"sum", "max", "mean"}[op.Q%3]
				inv := clk.Add(1)
				var qs [][]float32
				var ids []uint32
				var scs []float32
				out := guard(func() string {
					var err error
					if t.searchScoredMulti != nil {
						qs, ids, scs, err = t.searchScoredMulti(nq, agg, g, op.Q)
					} else {
						ids, err = t.searchMulti(nq, agg, g, op.Q)
					}
					return concErr(err)
				})
				resp := clk.Add(1)
				if out != "ok" {
					logf("op search %d %d %d => %s", g, inv, resp, out)
					return
				}
				if scs == nil {
					// unscored: keep duplicates visible to the driver (no sorting away)
					hs := make([]string, len(ids))
					for i, id := range ids {
						hs[i] = fmt.Sprint(id)
					}
					sort.Strings(hs)
					h := "-"
					if len(hs) > 0 {
						h = strings.Join(hs, ",")
					}
					logf("op search %d %d %d => ok %s", g, inv, resp, h)
					return
				}
				qh := make([]string, len(qs))
				for i, q := range qs {
					qh[i] = core.VecHex(q)
				}
				hits := make([]string, len(ids))
				for i := range ids {
					hits[i] = fmt.Sprintf("%d:%s", ids[i], core.Hex32(scs[i]))
				}
				sort.Strings(hits)
				hs := "-"
				if len(hits) > 0 {
					hs = strings.Join(hits, ",")
				}
				logf("op search %d %d %d %s %s => ok %s", g, inv, resp, strings.Join(qh, ";"), agg, hs)
				return
			}
			if t.searchScored != nil && !(c.Kind == "hybrid" && op.Op == "search2") {
				inv := clk.Add(1)
				var qs [][]float32
				var ids []uint32
				var scs []float32
				out := guard(func() string {
					q, i, s, err := t.searchScored(op.Op == "search2", concQuery(g, op.Q))
					qs, ids, scs = q, i, s
					return concErr(err)
				})
				resp := clk.Add(1)
				qh := make([]string, len(qs))
				for i, q := range qs {
					qh[i] = core.VecHex(q)
				}
				if out == "ok" {
					hits := make([]string, len(ids))
					for i := range ids {
						hits[i] = fmt.Sprintf("%d:%s", ids[i], core.Hex32(scs[i]))
					}
					sort.Strings(hits)
					hs := "-"
					if len(hits) > 0 {
						hs = strings.Join(hits, ",")
					}
					logf("op search %d %d %d %s => ok %s", g, inv, resp, strings.Join(qh, ";"), hs)
				} else {
					logf("op search %d %d %d %s => %s", g, inv, resp, strings.Join(qh, ";"), out)
				}
				return
			}
			inv := clk.Add(1)
			var ids []uint32
			out := guard(func() string {
				r, err := t.search(op.Op == "search2")
				ids = r
				return concErr(err)
			})
			resp := clk.Add(1)
			if out == "ok" {
				logf("op search %d %d %d => ok %s", g, inv, resp, idsCSV(ids))
			} else {
				logf("op search %d %d %d => %s", g, inv, resp, out)
			}
		case "flush", "write":
			f := t.flush
			if op.Op == "write" {
				f = t.write
			}
			inv := clk.Add(1)
			out := guard(func() string { return concErr(f()) })
			logf("op %s %d %d %d => %s", op.Op, g, inv, clk.Add(1), out)
		case "compact", "rotate":
			f := t.compact
			if op.Op == "rotate" {
				f = t.rotate
			}
			if f == nil {
				return
			}
			inv := clk.Add(1)
			out := guard(func() string { f(); return "ok" })
			logf("op %s %d %d %d => %s", op.Op, g, inv, clk.Add(1), out)
		case "close":
			if t.close == nil {
				return
			}
			inv := clk.Add(1)
			out := guard(func() string { return concErr(t.close()) })
			logf("op close %d %d %d => %s", g, inv, clk.Add(1), out)
		}
	}
	// search storm: bulk documents first
	for j := 0; j < c.Pre; j++ {
		runOp(0, concOp{Op: "add", ID: concIDBase + 500000 + uint32(j)})
	}
	// the ids that exist before the race (leading adds of goroutine 0) are added first
	pre := 0
	for !c.Empty && pre < len(c.Progs[0]) && c.Progs[0][pre].Op == "add" {
		runOp(0, c.Progs[0][pre])
		pre++
	}
	var wg sync.WaitGroup
	start := make(chan struct{})
	for g := range c.Progs {
		prog := c.Progs[g]
		if g == 0 {
			prog = prog[pre:]
		}
		wg.Add(1)
		go func(g int, prog []concOp) {
			defer wg.Done()
			<-start
			for _, op := range prog {
				runOp(g, op)
				if c.Spin {
					runtime.Gosched()
				}
			}
		}(g, prog)
	}
	close(start)
	done := make(chan struct{})
	go func() { wg.Wait(); close(done) }()
	// watchdog: a HANG is "no operation completed for 25 s" (deadlock); a case that is merely slow
	// (loaded machine) is abandoned unjudged after 50 s — its history is incomplete.
	began := time.Now()
wait:
	for {
		select {
		case <-done:
			break wait
		case <-time.After(250 * time.Millisecond):
		}
		idle := time.Since(time.Unix(0, lastDone.Load()))
		if idle > 25*time.Second {
			buf := make([]byte, 1<<20)
			buf = buf[:runtime.Stack(buf, true)]
			var stacks []string
			for _, g := range strings.Split(string(buf), "\n\n") {
				if strings.Contains(g, "wizenheimer/comet.") && !strings.Contains(g, "execConc(") {
					stacks = append(stacks, strings.ReplaceAll(core_trunc(g, 1200), "\n", " | "))
				}
			}
			mu.Lock()
			out := append(append([]string(nil), lines...),
				"op panic HANG: no operation completed for 25s (deadlock?) — goroutines inside comet: "+
					core_trunc(strings.Join(stacks, " ## "), 12000), "op judge => -", "end")
			mu.Unlock()
			return out
		}
		if time.Since(began) > 50*time.Second {
			mu.Lock()
			out := append(append([]string(nil), lines...),
				"# slow: operations still completing after 50s; case abandoned unjudged (incomplete history)", "end")
			mu.Unlock()
			return out
		}
	}
	// quiescence: one more search after everything completed
	closed := false
	for _, l := range lines {
		if strings.HasPrefix(l, "op close") {
			closed = true
		}
	}
	if !closed {
		runOp(999, concOp{Op: "search"})
	}
	sort.SliceStable(lines[1:], func(i, j int) bool { return lineInv(lines[1+i]) < lineInv(lines[1+j]) })
	return append(lines, "op judge => -", "end")
}

// lineInv orders logged lines by invocation number (readability of replays only).
func lineInv(l string) int64 {
	f := strings.Fields(l)
	idx := -1
	if len(f) >= 2 {
		switch f[1] {
		case "add", "remove":
			idx = 4
		case "search", "flush", "write", "compact", "rotate", "close":
			idx = 3
		}
	}
	if idx < 0 || idx >= len(f) {
		return 1 << 60
	}
	n, _ := strconv.ParseInt(f[idx], 10, 64)
	return n
}

func concLen(c *concCase) int {
	n := 0
	for _, p := range c.Progs {
		n += len(p)
	}
	return n
}

func concDrop(c *concCase, lo, hi int) *concCase {
	n := &concCase{Kind: c.Kind, Spin: c.Spin, Pre: c.Pre, Empty: c.Empty, Progs: make([][]concOp, len(c.Progs))}
	k := 0
	for g, p := range c.Progs {
		for _, op := range p {
			if k < lo || k >= hi {
				n.Progs[g] = append(n.Progs[g], op)
			}
			k++
		}
	}
	return n
}

func nonTrivialConc(lines, replies []string) bool {
	for i, l := range lines {
		if strings.HasPrefix(l, "op judge") && i < len(replies) {
			m := kv(replies[i])
			return m["nonempty"] == 1 && (m["overlap_sw"] == 1 || m["overlap_ww"] == 1)
		}
	}
	return false
}

// ---------------------------------------------------------------------------------------
// directed schedules of the add / rotate / flush protocol of the store

type schedAct struct {
	A string `json:"a"` // add | hold | spawn | release | rotate | flush | fsnap | fwrite | fdrop | state
	T int    `json:"t,omitempty"`
	D uint32 `json:"d,omitempty"`
	W string `json:"w,omitempty"` // spawn: rotate | flush | add
}

type schedCase struct {
	Acts []schedAct `json:"acts"`
}

func genSched(r *core.Rand, tier string) *schedCase {
	c := &schedCase{}
	n := r.Range(4, 16)
	if tier == "thorough" {
		n = r.Range(4, 36)
	}
	doc := uint32(100)
	holding := false
	nsp := 0
	fl := map[int]int{} // flusher → 0 idle, 1 parked at :next, 2 parked at :flushed
	for i := 0; i < n; i++ {
		if holding {
			if nsp < 2 && r.Chance(0.6) {
				w := []string{"rotate", "flush", "add"}[r.Intn(3)]
				a := schedAct{A: "spawn", W: w}
				if w == "add" {
					doc++
					a.D = doc
				}
				c.Acts = append(c.Acts, a)
				nsp++
			} else {
				c.Acts = append(c.Acts, schedAct{A: "release", T: 1})
				holding = false
			}
			continue
		}
		switch r.Pick(5, 3, 2, 2, 5, 2) {
		case 0:
			doc++
			c.Acts = append(c.Acts, schedAct{A: "add", T: r.Range(1, 3), D: doc})
		case 1:
			doc++
			c.Acts = append(c.Acts, schedAct{A: "hold", T: 1, D: doc})
			holding, nsp = true, 0
		case 2:
			c.Acts = append(c.Acts, schedAct{A: "rotate"})
		case 3:
			c.Acts = append(c.Acts, schedAct{A: "flush"})
		case 4:
			f := r.Range(1, 2)
			switch fl[f] {
			case 0:
				c.Acts = append(c.Acts, schedAct{A: "fsnap", T: f})
				fl[f] = 1 // may turn out empty; the executor skips what does not apply
			case 1:
				c.Acts = append(c.Acts, schedAct{A: "fwrite", T: f})
				fl[f] = 2
			case 2:
				c.Acts = append(c.Acts, schedAct{A: "fdrop", T: f})
				fl[f] = 1
			}
		case 5:
			c.Acts = append(c.Acts, schedAct{A: "state"})
		}
	}
	return c
}

// schedThread is a goroutine the schedule controls: it reports every yield point it reaches
// (or "" when its operation returned) on arrive and continues when rel is signalled.
type schedThread struct {
	arrive chan string
	rel    chan struct{}
	err    error
	stops  map[string]bool
	free   atomic.Bool // set at cleanup: pass every yield point
}

var (
	schedMu      sync.Mutex // the verifPoint handler is process-global: one schedule at a time
	schedThreads sync.Map   // goroutine id → *schedThread
)

func goid() int64 {
	var buf [64]byte
	n := runtime.Stack(buf[:], false)
	f := strings.Fields(string(buf[:n]))
	if len(f) < 2 {
		return -1
	}
	id, _ := strconv.ParseInt(f[1], 10, 64)
	return id
}

func execSched(c *schedCase) []string {
	schedMu.Lock()
	defer schedMu.Unlock()
	lines := []string{"begin sched rotation"}
	dir, err := os.MkdirTemp("", "c11sched")
	if err != nil {
		return append(lines, "op panic tempdir: "+err.Error(), "end")
	}
	defer os.RemoveAll(dir)
	v, _ := comet.NewFlatIndex(2, comet.DistanceKind("l2"))
	cfg := comet.DefaultStorageConfig(dir)
	cfg.MemtableSizeLimit = 100 // one 72-byte document per memtable
	cfg.FlushThreshold = 1 << 40
	cfg.CompactionInterval = time.Hour
	cfg.CompactionThreshold = 1 << 30
	cfg.VectorIndexTemplate = v
	st, err := comet.OpenPersistentHybridIndex(cfg)
	if err != nil {
		return append(lines, "op panic open: "+err.Error(), "end")
	}
	comet.VerifSetPointHandler(func(name string) {
		if th, ok := schedThreads.Load(goid()); ok {
			t := th.(*schedThread)
			if t.stops[name] && !t.free.Load() {
				t.arrive <- name
				<-t.rel
			}
		}
	})
	// start runs f on a controlled goroutine
	start := func(stops []string, f func() error) *schedThread {
		th := &schedThread{arrive: make(chan string, 1), rel: make(chan struct{}), stops: map[string]bool{}}
		for _, s := range stops {
			th.stops[s] = true
		}
		ready := make(chan struct{})
		go func() {
			id := goid()
			schedThreads.Store(id, th)
			close(ready)
			defer schedThreads.Delete(id)
			defer func() {
				if r := recover(); r != nil {
					th.err = fmt.Errorf("panic: %v", r)
				}
				th.arrive <- ""
			}()
			th.err = f()
		}()
		<-ready
		return th
	}
	wait := func(t *schedThread, d time.Duration) string {
		select {
		case n := <-t.arrive:
			return n
		case <-time.After(d):
			return "TIMEOUT"
		}
	}
	var holder *schedThread
	type spawnedOp struct {
		th  *schedThread
		w   string
		d   uint32
		fin bool
	}
	var spawned []*spawnedOp
	flushers := map[int]*schedThread{}
	flPhase := map[int]int{}
	defer func() {
		// never leave a goroutine blocked behind
		if holder != nil {
			holder.free.Store(true)
			close(holder.rel)
		}
		for _, f := range flushers {
			f.free.Store(true)
			close(f.rel)
		}
		comet.VerifSetPointHandler(nil)
		time.Sleep(5 * time.Millisecond)
		st.Close()
	}()
	state := func() string {
		s := st.VerifState()
		var q []string
		for i, m := range s.Memtables {
			if i == len(s.Memtables)-1 {
				break
			}
			q = append(q, idsCSV(m.DocIDs))
		}
		qs := "-"
		if len(q) > 0 {
			qs = strings.Join(q, ";")
		}
		seg := 0
		for _, sg := range s.Segments {
			seg += int(sg.NumDocs)
		}
		mut := "-"
		if len(s.Memtables) > 0 {
			mut = idsCSV(s.Memtables[len(s.Memtables)-1].DocIDs)
		}
		return fmt.Sprintf("q=%s|mut=%s|seg=%d", qs, mut, seg)
	}
	addDoc := func(d uint32) error { return st.AddWithID(d, []float32{1, 2}, "", nil) }
	const adderStop = "memtable:addWithID:checked"
	step := func(a schedAct) bool {
		switch a.A {
		case "add":
			if holder != nil {
				return true
			}
			lines = append(lines, fmt.Sprintf("op add %d %d => %s", a.T, a.D, concErr(addDoc(a.D))))
		case "hold":
			if holder != nil {
				return true
			}
			th := start([]string{adderStop}, func() error { return addDoc(a.D) })
			switch n := wait(th, 20*time.Second); n {
			case adderStop:
				holder = th
				spawned = nil
				lines = append(lines, fmt.Sprintf("op hold %d %d => held", a.T, a.D))
			case "":
				lines = append(lines, fmt.Sprintf("op hold %d %d => done:%s", a.T, a.D, concErr(th.err)))
			default:
				lines = append(lines, "op panic HANG: the held add neither reached its yield point nor returned")
				return false
			}
		case "spawn":
			if holder == nil || len(spawned) >= 2 {
				return true
			}
			sp := &spawnedOp{w: a.W, d: a.D}
			switch a.W {
			case "rotate":
				sp.th = start(nil, func() error { st.VerifRotate(); return nil })
			case "flush":
				sp.th = start(nil, st.Flush)
			case "add":
				sp.th = start(nil, func() error { return addDoc(a.D) })
			default:
				return true
			}
			spawned = append(spawned, sp)
			what := a.W
			if a.W == "add" {
				what = fmt.Sprintf("add %d", a.D)
			}
			// the queue lock is held by the stopped adder: the operation must not get through
			if wait(sp.th, 60*time.Millisecond) == "" {
				sp.fin = true
				lines = append(lines, fmt.Sprintf("op spawn %s => completed", what))
			} else {
				lines = append(lines, fmt.Sprintf("op spawn %s => blocked", what))
			}
		case "release":
			if holder == nil {
				return true
			}
			holder.rel <- struct{}{}
			n := wait(holder, 20*time.Second)
			h := holder
			holder = nil
			if n != "" {
				lines = append(lines, "op panic HANG: the released add did not return")
				return false
			}
			lines = append(lines, fmt.Sprintf("op release %d => %s", a.T, concErr(h.err)))
			for _, sp := range spawned {
				if !sp.fin {
					if wait(sp.th, 20*time.Second) != "" {
						lines = append(lines, "op panic HANG: "+sp.w+" started during an add never finished")
						return false
					}
				}
				if sp.w == "add" {
					lines = append(lines, fmt.Sprintf("op spawned add %d => %s", sp.d, concErr(sp.th.err)))
				} else if sp.th.err != nil {
					lines = append(lines, fmt.Sprintf("op panic spawned %s failed: %v", sp.w, sp.th.err))
				}
			}
			spawned = nil
			// collapse the model's candidate orders right away
			lines = append(lines, "op state => "+state())
		case "rotate":
			if holder != nil {
				return true
			}
			st.VerifRotate()
			lines = append(lines, "op rotate => ok")
		case "flush":
			if holder != nil {
				return true
			}
			lines = append(lines, "op flush => "+concErr(st.Flush()))
		case "fsnap":
			if holder != nil || flPhase[a.T] != 0 {
				return true
			}
			th := start([]string{"flushMemtables:next", "flushMemtables:flushed"}, st.Flush)
			switch n := wait(th, 20*time.Second); n {
			case "flushMemtables:next":
				flushers[a.T], flPhase[a.T] = th, 1
				lines = append(lines, fmt.Sprintf("op fsnap %d => parked", a.T))
			case "":
				lines = append(lines, fmt.Sprintf("op fsnap %d => empty", a.T))
			default:
				lines = append(lines, "op panic HANG in fsnap: "+n)
				return false
			}
		case "fwrite":
			if holder != nil || flPhase[a.T] != 1 {
				return true
			}
			th := flushers[a.T]
			th.rel <- struct{}{}
			if n := wait(th, 20*time.Second); n != "flushMemtables:flushed" {
				lines = append(lines, fmt.Sprintf("op panic flusher did not reach flushMemtables:flushed: %q %v", n, th.err))
				delete(flushers, a.T)
				flPhase[a.T] = 0
				return false
			}
			flPhase[a.T] = 2
			lines = append(lines, fmt.Sprintf("op fwrite %d => parked", a.T))
		case "fdrop":
			if holder != nil || flPhase[a.T] != 2 {
				return true
			}
			th := flushers[a.T]
			th.rel <- struct{}{}
			switch n := wait(th, 20*time.Second); n {
			case "flushMemtables:next":
				flPhase[a.T] = 1
				lines = append(lines, fmt.Sprintf("op fdrop %d => parked", a.T))
			case "":
				delete(flushers, a.T)
				flPhase[a.T] = 0
				if th.err != nil {
					lines = append(lines, fmt.Sprintf("op panic directed Flush failed: %v", th.err))
					return false
				}
				lines = append(lines, fmt.Sprintf("op fdrop %d => done", a.T))
			default:
				lines = append(lines, "op panic HANG in fdrop: "+n)
				return false
			}
		case "state":
			if holder != nil {
				return true
			}
			lines = append(lines, "op state => "+state())
		}
		return true
	}
	ok := true
	for _, a := range c.Acts {
		if ok = step(a); !ok {
			break
		}
	}
	if ok {
		// drain: finish the held add and every parked flusher, then compare the final bookkeeping
		if holder != nil {
			ok = step(schedAct{A: "release", T: 1})
		}
		var fs []int
		for f := range flushers {
			fs = append(fs, f)
		}
		sort.Ints(fs)
		for _, f := range fs {
			for ok && flPhase[f] != 0 {
				if flPhase[f] == 1 {
					ok = step(schedAct{A: "fwrite", T: f})
				} else {
					ok = step(schedAct{A: "fdrop", T: f})
				}
			}
		}
		if ok {
			step(schedAct{A: "state"})
		}
	}
	lines = append(lines, "end")
	if lf := os.Getenv("C11_SCHED_LOG"); lf != "" { // debugging aid: the request stream of every schedule
		if f, err := os.OpenFile(lf, os.O_APPEND|os.O_CREATE|os.O_WRONLY, 0o644); err == nil {
			f.WriteString(strings.Join(lines, "\n") + "\n")
			f.Close()
		}
	}
	return lines
}

func nonTrivialSched(lines, replies []string) bool {
	// some operation was started while an add was stopped inside its region, or an add / rotation
	// ran while a flusher was parked between its regions
	parked := 0
	for _, l := range lines {
		f := strings.Fields(l)
		if len(f) < 2 {
			continue
		}
		switch f[1] {
		case "spawn":
			return true
		case "fsnap":
			if strings.HasSuffix(l, "parked") {
				parked++
			}
		case "fdrop":
			if strings.HasSuffix(l, "done") {
				parked--
			}
		case "add", "rotate", "hold":
			if parked > 0 {
				return true
			}
		}
	}
	return false
}

var _ = bytes.MinRead

func init() {
	register(&core.Typed[concCase]{
		StreamName: "conc", Prop: "C11",
		RuleText: "2..16 goroutines run random programs (Add with unique explicit ids, auto-id draws, Remove concentrated on a few hot ids, single- and two-query searches returning everything, Flush, WriteTo; store: rotation by 400-byte memtables, background flush, TriggerCompaction, forced Rotate, Close) against ONE shared instance of flat/hnsw/ivf/pq/ivfpq/bm25/metadata/hybrid/store; a case is non-trivial when some search returned a non-empty answer AND two operations of different goroutines overlapped in time (search/write or write/write, by the logged clock); distinct = distinct logged histories",
		NCases: func(tier string) int {
			if tier == "thorough" {
				return 4000
			}
			return 300
		},
		GenF:        genConc,
		ExecF:       execConc,
		LenF:        concLen,
		DropF:       concDrop,
		NonTrivialF: nonTrivialConc,
	})
	register(&core.Typed[schedCase]{
		StreamName: "sched", Prop: "C11",
		RuleText: "directed schedules on a real store with one-document memtables: an adder stopped at the yield point after memtable.addWithID's frozen check (inside the queue-locked region) while Rotate / Flush / another add are started (they must stay blocked), flushers stepped through flushMemtables:next / :flushed while adds and rotations run, complete adds / rotations / flushes; replayed on the Lean rotation model (every order of the blocked operations is a candidate) and compared on every `state` (document ids per queue memtable, documents counted in segments); non-trivial when an operation was started against a stopped adder or an add / rotation ran while a flusher was parked between its regions",
		NCases: func(tier string) int {
			if tier == "thorough" {
				return 600
			}
			return 120
		},
		GenF:  genSched,
		ExecF: execSched,
		LenF:  func(c *schedCase) int { return len(c.Acts) },
		DropF: func(c *schedCase, lo, hi int) *schedCase {
			n := &schedCase{}
			n.Acts = append(n.Acts, c.Acts[:lo]...)
			n.Acts = append(n.Acts, c.Acts[hi:]...)
			return n
		},
		NonTrivialF: nonTrivialSched,
	})
}
