package main

// Stream "ivf" (C13): constructor, (failed) operations before training, Train on a
// generated training set (duplicates → identical centroids / empty clusters), then
// random Add / Remove / Flush histories on a real IVFIndex with searches for every
// number of probes. The trained centroids are read back through the verif accessors
// and sent to the Lean driver (k-means replication is C20's job); the driver replays
// everything on the model, compares list assignment and stored lists, and judges each
// answer with the verified top-k checker against the specification's candidates.
// A real FlatIndex is driven with the same post-training history: at full probe its
// answer to the same search travels along ("returns exactly what exact search returns"),
// and every lists dump carries its stored entries and soft-delete set (the IVF lists,
// flattened, must be the same multiset).

import (
	"fmt"
	"math"
	"strings"

	comet "github.com/wizenheimer/comet"
	"verifharness/internal/core"
)

type ivfCmd struct {
	Op string `json:"op"` // train | add | remove | flush | search | sweep | lists
	// train: number of vectors of the case's training set that are passed
	N   int      `json:"n,omitempty"`
	ID  uint32   `json:"id,omitempty"`
	Vec []uint32 `json:"vec,omitempty"` // float32 bits
	// query mode (resolved at execution time when the index is trained):
	// 0 literal; 1 = centroid R; 2 = midpoint of centroids R and R2
	VecMode int `json:"vec_mode,omitempty"`
	R       int `json:"r,omitempty"`
	R2      int `json:"r2,omitempty"`
	// search: number of probes (PDefault: builder default, WithNProbes not called)
	P        int  `json:"p,omitempty"`
	PDefault bool `json:"p_default,omitempty"`
	K        int  `json:"k,omitempty"`
	// 0 literal; 1 = score of hit TR of an unrestricted full-probe search; 2 = midpoint of hits TR, TR+1
	ThrMode int      `json:"thr_mode,omitempty"`
	Thr     uint32   `json:"thr,omitempty"`
	TR      int      `json:"tr,omitempty"`
	Filter  []uint32 `json:"filter,omitempty"`
	Agg     string   `json:"agg,omitempty"`
}

type ivfCase struct {
	Dim    int        `json:"dim"`
	Nlist  int        `json:"nlist"`
	Metric string     `json:"metric"`
	Train  [][]uint32 `json:"train"`
	Cmds   []ivfCmd   `json:"cmds"`
}

// ivfGenTrainSet draws a training set in one of five styles.
func ivfGenTrainSet(r *core.Rand, dim, nlist, n int) [][]float32 {
	out := make([][]float32, 0, n)
	switch r.Pick(3, 3, 4, 3, 2) {
	case 0: // Gaussian
		for i := 0; i < n; i++ {
			out = append(out, genVec(r, dim, nil, false))
		}
	case 1: // small-integer lattice: many duplicates in low dimensions
		for i := 0; i < n; i++ {
			out = append(out, genVec(r, dim, out, true))
		}
	case 2: // heavy duplicates: u distinct vectors (often fewer than nlist)
		u := r.Range(1, max(1, nlist))
		if r.Chance(0.3) {
			u = r.Range(1, max(1, nlist/2))
		}
		pool := make([][]float32, u)
		lat := r.Bool()
		for i := range pool {
			pool[i] = genVec(r, dim, nil, lat)
		}
		blocks := r.Bool() // duplicates in runs (the initial centroids are sampled at a fixed stride)
		for i := 0; i < n; i++ {
			j := r.Intn(u)
			if blocks {
				j = i * u / n
			}
			out = append(out, append([]float32(nil), pool[j]...))
		}
	case 3: // mixture of g well separated centres
		g := r.Range(1, max(1, min(nlist+2, 12)))
		centres := make([][]float32, g)
		for i := range centres {
			centres[i] = make([]float32, dim)
			for j := range centres[i] {
				centres[i][j] = float32(r.Range(-8, 8))
			}
		}
		for i := 0; i < n; i++ {
			c := centres[r.Intn(g)]
			v := make([]float32, dim)
			for j := range v {
				v[j] = c[j] + float32(r.Norm()*0.05)
			}
			out = append(out, v)
		}
	case 4: // everything mixed, with duplicates and near-ties of earlier vectors
		lat := r.Bool()
		for i := 0; i < n; i++ {
			out = append(out, genVec(r, dim, out, lat))
		}
	}
	return out
}

func genIVF(r *core.Rand, tier string) *ivfCase {
	maxTrain, maxOps, maxData := 160, 40, 120
	if tier == "thorough" {
		maxTrain, maxOps, maxData = 500, 110, 300
	}
	dim := 1 + r.Intn(32)
	if r.Chance(0.3) {
		dim = 1 + r.Intn(3)
	}
	var nlist int
	switch r.Pick(3, 5, 2) {
	case 0:
		nlist = r.Range(1, 4)
	case 1:
		nlist = r.Range(2, 16)
	case 2:
		nlist = r.Range(17, 32)
	}
	small := r.Chance(0.15) // short cases (also the ones that fit into the evidence samples)
	if small {
		nlist = r.Range(1, 4)
		dim = r.Range(1, 3)
		maxOps = 8
	}
	c := &ivfCase{Dim: dim, Nlist: nlist, Metric: metrics[r.Intn(3)]}
	if r.Chance(0.015) { // constructor must reject these
		if r.Bool() {
			c.Dim = -r.Intn(2)
		} else {
			c.Nlist = -r.Intn(3)
		}
		return c
	}
	var n int
	switch r.Pick(2, 3, 5) {
	case 0:
		n = nlist
	case 1:
		n = r.Range(nlist, 2*nlist)
	case 2:
		n = r.Range(nlist, max(nlist, maxTrain))
	}
	if small {
		n = r.Range(nlist, nlist+4)
	}
	train := ivfGenTrainSet(r, dim, nlist, n)
	for _, v := range train {
		c.Train = append(c.Train, core.Bits(v))
	}
	lattice := r.Chance(0.4)
	var pool [][]float32
	var ids []uint32
	var removed []uint32 // ids with a remove issued after their last add: safe to re-add
	next := uint32(1)
	pendingDup := uint32(0) // an id added twice while live whose removal is still to be generated
	// live re-adds end the judgement against the specification for the rest of the case, so only
	// some cases contain them
	dupCase := r.Chance(0.12)
	liveIDs := func() []uint32 {
		var out []uint32
		for _, x := range ids {
			rm := false
			for _, y := range removed {
				if y == x {
					rm = true
					break
				}
			}
			if !rm {
				out = append(out, x)
			}
		}
		return out
	}
	newAdd := func() ivfCmd {
		var v []float32
		if r.Chance(0.35) {
			v = append([]float32(nil), train[r.Intn(len(train))]...)
		} else if r.Chance(0.3) {
			v = genVec(r, dim, train, lattice) // duplicates / near-ties of training vectors
		} else {
			v = genVec(r, dim, pool, lattice)
		}
		if r.Chance(0.02) {
			v = append(v, 1)
		}
		if r.Chance(0.03) {
			for j := range v {
				v[j] = 0
			}
		}
		id := next
		if live := liveIDs(); dupCase && len(live) > 0 && r.Chance(0.06) {
			// add an id that is still live a second time (Add never looks at stored ids):
			// two entries under one id; a Remove + Flush must then drop both
			id = live[r.Intn(len(live))]
			pendingDup = id
		} else if len(removed) > 0 && r.Chance(0.12) {
			// re-add a removed id (soft-deleted or already flushed): Add purges the tombstones first
			j := r.Intn(len(removed))
			id = removed[j]
			removed = append(removed[:j], removed[j+1:]...)
		} else {
			next += uint32(r.Range(1, 3))
			ids = append(ids, id)
		}
		if len(v) == dim {
			pool = append(pool, v)
		}
		return ivfCmd{Op: "add", ID: id, Vec: core.Bits(v)}
	}
	noteRemove := func(id uint32) {
		for _, x := range removed {
			if x == id {
				return
			}
		}
		for _, x := range ids {
			if x == id {
				removed = append(removed, id)
				return
			}
		}
	}
	// before training: everything must fail (or be a no-op) and leave the index untouched
	if r.Chance(0.3) {
		for j := r.Range(1, 4); j > 0; j-- {
			switch r.Pick(4, 3, 3, 1, 1) {
			case 0:
				c.Cmds = append(c.Cmds, newAdd())
			case 1:
				c.Cmds = append(c.Cmds, genIVFSearch(r, c, pool, ids, next, lattice))
			case 2: // too few training vectors
				if nlist > 0 {
					c.Cmds = append(c.Cmds, ivfCmd{Op: "train", N: r.Intn(nlist)})
				}
			case 3:
				c.Cmds = append(c.Cmds, ivfCmd{Op: "remove", ID: next + 100 + uint32(r.Intn(3))})
			case 4:
				c.Cmds = append(c.Cmds, ivfCmd{Op: "flush"})
			}
		}
	}
	c.Cmds = append(c.Cmds, ivfCmd{Op: "train", N: n})
	// bulk load first in most cases so that searches see populated lists
	bulk := r.Range(0, min(maxData, 3*nlist+10))
	if small {
		bulk = r.Range(0, 5)
	}
	for j := 0; j < bulk; j++ {
		c.Cmds = append(c.Cmds, newAdd())
	}
	nops := r.Range(1, maxOps)
	for i := 0; i < nops; i++ {
		if pendingDup != 0 && r.Chance(0.35) {
			// remove the doubly stored id, then purge: explicit Flush, or implicitly by re-adding a removed id
			noteRemove(pendingDup)
			c.Cmds = append(c.Cmds, ivfCmd{Op: "remove", ID: pendingDup})
			pendingDup = 0
			switch r.Pick(5, 3, 2) {
			case 0:
				c.Cmds = append(c.Cmds, ivfCmd{Op: "flush"})
			case 1:
				c.Cmds = append(c.Cmds, newAdd(), ivfCmd{Op: "flush"})
			case 2:
			}
			continue
		}
		switch r.Pick(8, 4, 1, 5, 2, 1) {
		case 0:
			if len(ids) < maxData {
				c.Cmds = append(c.Cmds, newAdd())
			}
		case 1:
			var id uint32
			if len(ids) > 0 && r.Chance(0.85) {
				id = ids[r.Intn(len(ids))]
			} else {
				id = next + uint32(r.Intn(5))
			}
			noteRemove(id)
			c.Cmds = append(c.Cmds, ivfCmd{Op: "remove", ID: id})
		case 2:
			c.Cmds = append(c.Cmds, ivfCmd{Op: "flush"})
		case 3:
			c.Cmds = append(c.Cmds, genIVFSearch(r, c, pool, ids, next, lattice))
		case 4:
			s := genIVFSearch(r, c, pool, ids, next, lattice)
			s.Op = "sweep"
			c.Cmds = append(c.Cmds, s)
		case 5:
			c.Cmds = append(c.Cmds, ivfCmd{Op: "lists"})
		}
	}
	s := genIVFSearch(r, c, pool, ids, next, lattice)
	s.Op = "sweep"
	c.Cmds = append(c.Cmds, s, ivfCmd{Op: "lists"})
	return c
}

func genIVFSearch(r *core.Rand, c *ivfCase, pool [][]float32, ids []uint32, next uint32, lattice bool) ivfCmd {
	f := genFlatSearch(r, c.Dim, pool, ids, next, lattice) // k, threshold, filter, aggregation, query as for C01
	cmd := ivfCmd{Op: "search", Vec: f.Vec, K: f.K, ThrMode: f.ThrMode, Thr: f.Thr, TR: f.R, Filter: f.Filter, Agg: f.Agg}
	switch r.Pick(5, 2, 2) {
	case 0:
	case 1:
		cmd.VecMode, cmd.R = 1, r.Intn(c.Nlist)
	case 2:
		cmd.VecMode, cmd.R, cmd.R2 = 2, r.Intn(c.Nlist), r.Intn(c.Nlist)
	}
	switch r.Pick(6, 1, 1, 1) {
	case 0:
		cmd.P = r.Range(1, max(1, c.Nlist))
	case 1:
		cmd.P = r.Range(-3, 0)
	case 2:
		cmd.P = c.Nlist + r.Range(0, 3)
	case 3:
		cmd.PDefault = true
	}
	return cmd
}

func ivfEntries(ids []uint32, vecs [][]float32) string {
	var b strings.Builder
	for i := range ids {
		fmt.Fprintf(&b, " %d:%s", ids[i], core.VecHex(vecs[i]))
	}
	return b.String()
}

func execIVF(c *ivfCase) []string {
	lines := []string{fmt.Sprintf("begin ivf %d %d %s", c.Dim, c.Nlist, c.Metric)}
	idx, err := comet.NewIVFIndex(c.Dim, c.Nlist, comet.DistanceKind(c.Metric))
	if err != nil {
		return append(lines, "op new => err", "end")
	}
	lines = append(lines, "op new => ok")
	flat, ferr := comet.NewFlatIndex(c.Dim, comet.DistanceKind(c.Metric))
	if ferr != nil {
		return append(lines, "op panic flat constructor: "+ferr.Error(), "end")
	}
	trained := func() bool { t, _ := idx.VerifIVFTrained(); return t }
	// dup mode: an id was added while still live. From then on, after every state-changing op,
	// the IVF index is compared with the real flat index (full probe, k = 0) and the lists are dumped.
	dupMode := false
	var dupQ []float32
	nCmp := 0
	listsLine := func() string {
		ids, vecs := idx.VerifIVFLists()
		var b strings.Builder
		b.WriteString("op lists =>")
		for l := range ids {
			b.WriteString(" /")
			b.WriteString(ivfEntries(ids[l], vecs[l]))
		}
		b.WriteString(" ; " + core.IDs(idx.VerifIVFDeleted()))
		fids, fvecs, fdel := flat.VerifFlatState()
		b.WriteString(" ;;" + ivfEntries(fids, fvecs) + " ; " + core.IDs(fdel))
		return b.String()
	}
	cmpLine := func() string {
		agg := []string{"sum", "max", "mean"}[nCmp%3]
		nCmp++
		one := func(s comet.VectorSearch) string {
			res, err := s.WithQuery(append([]float32(nil), dupQ...)).WithK(0).
				WithScoreAggregation(comet.ScoreAggregationKind(agg)).Execute()
			if err != nil {
				return "err " + vecErr(err)
			}
			return hitsLine(res)
		}
		return fmt.Sprintf("op cmp %s %s => %s | %s", agg, core.VecHex(dupQ),
			one(idx.NewSearch().WithNProbes(0)), one(flat.NewSearch()))
	}
	afterOp := func(lines []string) []string {
		if !dupMode {
			return lines
		}
		return append(lines, cmpLine(), listsLine())
	}

	// search objects are executed at once, at once and again after the next Train / Add / Remove /
	// Flush, or only after it (rexec.go); the search line is emitted where the Execute happens (the
	// flat index's answer that travels along is asked for at that moment too)
	var rex rexQueue
	var trainSlices [][]float32 // the slices handed to the last Train (the caller keeps using them)
	search := func(cmd ivfCmd, q []float32, thr float32, p int, pDefault bool) {
		build := func(s comet.VectorSearch) comet.VectorSearch {
			s = s.WithQuery(append([]float32(nil), q...)).WithK(cmd.K).WithThreshold(thr).
				WithScoreAggregation(comet.ScoreAggregationKind(cmd.Agg))
			if len(cmd.Filter) > 0 {
				s = s.WithDocumentIDs(cmd.Filter...)
			}
			return s
		}
		s := build(idx.NewSearch())
		ptok := "default"
		if !pDefault {
			s = s.WithNProbes(p)
			ptok = fmt.Sprint(p)
		}
		if (cmd.K+len(cmd.Filter)+p)%2 == 0 && len(q) == c.Dim {
			// the builder is used before: an earlier Execute of the same search object with another
			// query (the negated, reversed one) must leave nothing behind that changes this answer
			w := make([]float32, len(q))
			for i := range q {
				w[i] = -q[len(q)-1-i]
			}
			_, _ = s.WithQuery(w).Execute()
			s = s.WithQuery(append([]float32(nil), q...))
		}
		rex.next(func() {
			res, err := s.Execute()
			out := ""
			if err != nil {
				out = "err " + vecErr(err)
			} else {
				out = hitsLine(res)
				if !pDefault && (p <= 0 || p >= c.Nlist) {
					// the flat index holds the same data: its answer to the same search
					fres, ferr := build(flat.NewSearch()).Execute()
					if ferr != nil {
						out += " | err " + vecErr(ferr)
					} else {
						out += " | " + hitsLine(fres)
					}
				}
			}
			lines = append(lines, fmt.Sprintf("op search %s %d %s %s %s %s => %s", ptok, cmd.K, core.Hex32(thr),
				core.IDs(cmd.Filter), cmd.Agg, core.VecHex(q), out))
		})
	}

	for _, cmd := range c.Cmds {
		switch cmd.Op {
		case "train":
			n := min(cmd.N, len(c.Train))
			nodes := make([]comet.VectorNode, n)
			var b strings.Builder
			b.WriteString("op train")
			trainSlices = trainSlices[:0]
			for i := 0; i < n; i++ {
				v := core.FromBits(c.Train[i])
				// ids of the training nodes: far away from the documents' ids, or — as the hybrid
				// index's Train numbers them — 0..n-1 / 1..n, colliding with document ids (a
				// training node's id means nothing once Train has returned)
				tid := uint32(1000000 + i)
				switch len(c.Train) % 3 {
				case 1:
					tid = uint32(i)
				case 2:
					tid = uint32(i + 1)
				}
				sl := append([]float32(nil), v...)
				trainSlices = append(trainSlices, sl)
				nodes[i] = *comet.NewVectorNodeWithID(tid, sl)
				b.WriteByte(' ')
				b.WriteString(core.VecHex(v))
			}
			err := idx.Train(nodes)
			if err != nil {
				b.WriteString(" => " + vecErr(err))
			} else {
				b.WriteString(" => ok")
				for _, ce := range idx.VerifIVFCentroids() {
					b.WriteByte(' ')
					b.WriteString(core.VecHex(ce))
				}
			}
			lines = append(lines, b.String())
			rex.run()
		case "add":
			raw := core.FromBits(cmd.Vec)
			wasTrained := trained()
			wasLive := false
			if len(idx.VerifIVFListsOf(cmd.ID)) > 0 {
				wasLive = true
				for _, d := range idx.VerifIVFDeleted() {
					if d == cmd.ID {
						wasLive = false
					}
				}
			}
			arg := append([]float32(nil), raw...)
			if cmd.ID%4 == 0 && len(trainSlices) > 0 {
				// the caller goes on using the slices it trained with: the same backing array is
				// handed to Add (which may normalise it in place) — the index's centroids must be
				// its own copies
				// (each slice once: the index keeps the slice it is given)
				ti := len(trainSlices) - 1
				if len(trainSlices[ti]) == len(raw) {
					copy(trainSlices[ti], raw)
					arg = trainSlices[ti]
				}
				trainSlices = trainSlices[:ti]
			}
			err := idx.Add(*comet.NewVectorNodeWithID(cmd.ID, arg))
			if err == nil && wasLive && !dupMode {
				dupMode, dupQ = true, append([]float32(nil), raw...)
			}
			out := vecErr(err)
			if err == nil {
				ls := idx.VerifIVFListsOf(cmd.ID)
				u := make([]uint32, len(ls))
				for i, l := range ls {
					u[i] = uint32(l)
				}
				out = "ok " + core.IDs(u)
			}
			if wasTrained {
				flat.Add(*comet.NewVectorNodeWithID(cmd.ID, append([]float32(nil), raw...)))
			}
			lines = afterOp(append(lines, fmt.Sprintf("op add %d %s => %s", cmd.ID, core.VecHex(raw), out)))
			rex.run()
		case "remove":
			// Remove goes by id: whatever vector the node carries (none, a far-away one, another
			// document's) must not matter
			var rmVec []float32
			switch cmd.ID % 3 {
			case 1:
				rmVec = make([]float32, c.Dim)
				for i := range rmVec {
					rmVec[i] = float32(1000 * (i%2*2 - 1))
				}
			case 2:
				if len(trainSlices) > 0 {
					rmVec = append([]float32(nil), trainSlices[int(cmd.ID)%len(trainSlices)]...)
				}
			}
			err := idx.Remove(*comet.NewVectorNodeWithID(cmd.ID, rmVec))
			flat.Remove(*comet.NewVectorNodeWithID(cmd.ID, nil))
			lines = afterOp(append(lines, fmt.Sprintf("op remove %d => %s", cmd.ID, vecErr(err))))
			rex.run()
		case "flush":
			err := idx.Flush()
			flat.Flush()
			lines = afterOp(append(lines, "op flush => "+vecErr(err)))
			rex.run()
		case "lists":
			lines = append(lines, listsLine())
		case "search", "sweep":
			q := core.FromBits(cmd.Vec)
			if cents := idx.VerifIVFCentroids(); len(cents) > 0 && cmd.VecMode != 0 && len(q) == c.Dim {
				a := cents[cmd.R%len(cents)]
				switch cmd.VecMode {
				case 1:
					q = append([]float32(nil), a...)
				case 2:
					b := cents[cmd.R2%len(cents)]
					q = make([]float32, len(a))
					for i := range q {
						q[i] = (a[i] + b[i]) / 2
					}
				}
			}
			thr := math.Float32frombits(cmd.Thr)
			if cmd.ThrMode != 0 {
				probe, err := idx.NewSearch().WithQuery(append([]float32(nil), q...)).WithK(0).WithNProbes(0).Execute()
				thr = 0
				if err == nil && len(probe) > 0 {
					i := cmd.TR % len(probe)
					thr = probe[i].GetScore()
					if cmd.ThrMode == 2 && i+1 < len(probe) {
						thr = (probe[i].GetScore() + probe[i+1].GetScore()) / 2
					}
				}
			}
			if cmd.Op == "search" {
				search(cmd, q, thr, cmd.P, cmd.PDefault)
			} else {
				for p := -1; p <= c.Nlist+1; p++ {
					search(cmd, q, thr, p, false)
				}
				search(cmd, q, thr, 0, true)
			}
		}
	}
	rex.run()
	return append(lines, "end")
}

func nonTrivialIVF(lines, replies []string) bool {
	trained, partialHit, fullHit, shaped := false, false, false, false
	removed := false
	for i, l := range lines {
		if i >= len(replies) {
			break
		}
		rp := replies[i]
		if strings.HasPrefix(l, "op train") && strings.Contains(rp, "trained=1") {
			trained = true
		}
		if strings.HasPrefix(l, "op remove") && strings.HasSuffix(l, "=> ok") {
			removed = true
		}
		if strings.HasPrefix(l, "op search") && strings.HasPrefix(rp, "ok n=") {
			m := kv(rp)
			if m["n"] > 0 && m["partial"] == 1 {
				partialHit = true
			}
			if m["n"] > 0 && m["full"] == 1 {
				fullHit = true
			}
			if m["n"] > 0 && (removed || m["cands"] < m["live"] || m["n"] < m["cands"]) {
				shaped = true
			}
		}
	}
	return trained && partialHit && fullHit && shaped
}

func init() {
	register(&core.Typed[ivfCase]{
		StreamName: "ivf", Prop: "C13",
		RuleText: "IVF index: nlist 1..32, dims 1..32, 3 metrics, training sets of nlist..500 vectors (quick: ..160) in five styles (Gaussian, lattice, heavy duplicates with fewer distinct vectors than nlist, separated mixture, mixed with near-ties; identical centroids / empty clusters are counted as flag:ivf:dupcent=1 / emptycl=1), failing operations before training, then Add/Remove/Flush histories (distinct ids, re-adds of removed ids, and in a few percent of cases an id added again while still live: from then on answers are compared with the real flat index on the same history after every op instead of the specification); searches for single p and sweeps over every p in {-1,0,1,…,nlist+1,default} with k in Z, thresholds incl. exactly-a-reported-distance, id restrictions, queries incl. centroids and centroid midpoints; a case is non-trivial when training succeeded AND some search with 1<=nprobes<nlist returned hits AND some full-probe search returned hits AND some non-empty answer came after a removal or with candidates excluded by probe set/filter/threshold or truncated by k; distinct = distinct request streams",
		NCases: func(tier string) int {
			if tier == "thorough" {
				return 30000
			}
			return 4000
		},
		GenF:  genIVF,
		ExecF: execIVF,
		LenF:  func(c *ivfCase) int { return len(c.Cmds) },
		DropF: func(c *ivfCase, lo, hi int) *ivfCase {
			n := &ivfCase{Dim: c.Dim, Nlist: c.Nlist, Metric: c.Metric, Train: c.Train}
			n.Cmds = append(n.Cmds, c.Cmds[:lo]...)
			n.Cmds = append(n.Cmds, c.Cmds[hi:]...)
			return n
		},
		NonTrivialF: nonTrivialIVF,
	})
}
