package main

// Stream "flat" (C01): random Add / Remove / Flush histories on a real FlatIndex with
// searches after every few ops; the Lean driver replays the history on the model and
// judges each answer with the verified top-k checker.

import (
	"errors"
	"fmt"
	"math"
	"strings"

	comet "github.com/wizenheimer/comet"
	"verifharness/internal/core"
)

type flatCmd struct {
	Op      string   `json:"op"` // add | remove | flush | search | vecs
	ID      uint32   `json:"id,omitempty"`
	Vec     []uint32 `json:"vec,omitempty"` // float32 bits
	K       int      `json:"k,omitempty"`
	ThrMode int      `json:"thr_mode,omitempty"` // 0 literal; 1 = score of hit R of an unrestricted search; 2 = midpoint of hits R, R+1
	Thr     uint32   `json:"thr,omitempty"`
	R       int      `json:"r,omitempty"`
	Filter  []uint32 `json:"filter,omitempty"`
	Agg     string   `json:"agg,omitempty"`
}

type flatCase struct {
	Dim    int       `json:"dim"`
	Metric string    `json:"metric"`
	Cmds   []flatCmd `json:"cmds"`
}

var metrics = []string{"l2", "l2_squared", "cosine"}

// genVec draws from four sub-generators: Gaussian, small-integer lattice (many exact
// ties), duplicate of an earlier vector, near-tie (last bits differ).
func genVec(r *core.Rand, dim int, pool [][]float32, lattice bool) []float32 {
	mode := r.Pick(4, 3, 2, 2)
	if lattice {
		mode = r.Pick(0, 6, 2, 1)
	}
	if (mode == 2 || mode == 3) && len(pool) == 0 {
		mode = 1
	}
	v := make([]float32, dim)
	switch mode {
	case 0:
		scale := math.Pow(10, float64(r.Range(-3, 3)))
		if r.Chance(0.1) {
			// very short / very long vectors: legal, non-zero (3e-7 .. 1e12; the squares stay
			// inside float32's normal range)
			scale = []float64{3e-7, 1e-6, 1e-8, 1e-12, 1e6, 1e12}[r.Intn(6)]
		}
		for i := range v {
			v[i] = float32(r.Norm() * scale)
		}
	case 1:
		for i := range v {
			v[i] = float32(r.Range(-3, 3))
		}
	case 2:
		copy(v, pool[r.Intn(len(pool))])
	case 3:
		copy(v, pool[r.Intn(len(pool))])
		i := r.Intn(dim)
		v[i] = math.Float32frombits(math.Float32bits(v[i]) + uint32(r.Range(1, 3)))
	}
	return v
}

func genFlat(r *core.Rand, tier string) *flatCase {
	maxDim, maxOps := 16, 60
	if tier == "thorough" {
		maxDim, maxOps = 64, 300
	}
	dim := 1 + r.Intn(maxDim)
	if r.Chance(0.3) {
		dim = 1 + r.Intn(3)
	}
	c := &flatCase{Dim: dim, Metric: metrics[r.Intn(3)]}
	if r.Chance(0.01) {
		return genFlatBig(r, c)
	}
	lattice := r.Chance(0.4)
	nops := r.Range(1, maxOps)
	var pool [][]float32
	var ids []uint32 // added so far (successful or not — never reused)
	next := uint32(1)
	denseIDs := r.Chance(0.5)    // consecutive ids (contiguous id ranges occur)
	liveSet := map[uint32]bool{} // ids the generator knows to be live
	var gone []uint32            // ids removed (or whose add failed) and not re-added since
	for i := 0; i < nops; i++ {
		switch r.Pick(10, 4, 1, 6, 1) {
		case 0: // add
			v := genVec(r, dim, pool, lattice)
			if r.Chance(0.02) { // wrong dimension
				v = append(v, 1)
			}
			if r.Chance(0.03) { // zero vector
				for j := range v {
					v[j] = 0
				}
			}
			id := next
			if len(gone) > 0 && r.Chance(0.12) {
				// re-add an id that was removed earlier (with or without a flush since)
				j := r.Intn(len(gone))
				id = gone[j]
				gone = append(gone[:j], gone[j+1:]...)
			} else {
				if denseIDs {
					next++
				} else {
					next += uint32(r.Range(1, 3))
				}
				ids = append(ids, id)
			}
			ok := len(v) == dim
			if ok && c.Metric == "cosine" {
				ok = false
				for _, x := range v {
					if x != 0 {
						ok = true
					}
				}
			}
			if ok {
				liveSet[id] = true
			} else if !liveSet[id] {
				gone = append(gone, id) // a failed add leaves the id free
			}
			if len(v) == dim {
				pool = append(pool, v)
			}
			c.Cmds = append(c.Cmds, flatCmd{Op: "add", ID: id, Vec: core.Bits(v)})
		case 1: // remove: mostly known ids, sometimes absent / repeated
			var id uint32
			if len(ids) > 0 && r.Chance(0.85) {
				id = ids[r.Intn(len(ids))]
			} else {
				id = next + uint32(r.Intn(5))
			}
			if liveSet[id] {
				delete(liveSet, id)
				gone = append(gone, id)
			}
			c.Cmds = append(c.Cmds, flatCmd{Op: "remove", ID: id})
		case 2:
			c.Cmds = append(c.Cmds, flatCmd{Op: "flush"})
		case 3:
			c.Cmds = append(c.Cmds, genFlatSearch(r, dim, pool, ids, next, lattice))
		case 4:
			c.Cmds = append(c.Cmds, flatCmd{Op: "vecs"})
		}
	}
	// always end with a batch of searches and a state comparison
	for j := r.Range(1, 4); j > 0; j-- {
		c.Cmds = append(c.Cmds, genFlatSearch(r, dim, pool, ids, next, lattice))
	}
	c.Cmds = append(c.Cmds, flatCmd{Op: "vecs"})
	return c
}

// genFlatBig: a few thousand vectors in low dimension (block-wise or parallel scans, pooled
// buffers and size thresholds only matter there), a few removals, then searches aimed at the
// first and the most recently added vectors, with k = 1, a small k and k <= 0 (a count).
func genFlatBig(r *core.Rand, c *flatCase) *flatCase {
	c.Dim = 1 + r.Intn(3)
	n := []int{1023, 1025, 1026, 1027, 2049, 4097, 4098, 4099, 8195}[r.Intn(9)]
	var pool [][]float32
	for i := 1; i <= n; i++ {
		v := make([]float32, c.Dim)
		for j := range v {
			v[j] = float32(r.Norm() * 10)
		}
		v[0] += float32(i) // distinct, non-zero
		pool = append(pool, v)
		c.Cmds = append(c.Cmds, flatCmd{Op: "add", ID: uint32(i), Vec: core.Bits(v)})
	}
	for j := r.Range(0, 3); j > 0; j-- {
		c.Cmds = append(c.Cmds, flatCmd{Op: "remove", ID: uint32(r.Range(1, n))})
	}
	if r.Chance(0.3) {
		c.Cmds = append(c.Cmds, flatCmd{Op: "flush"})
	}
	for _, i := range []int{n - 1, n - 2, n - 3, n - 4, 0, n / 2, n/4 - 1, n / 4, 3 * (n / 4), r.Intn(n)} {
		k := []int{1, 1, 3, 0, -1}[r.Intn(5)]
		c.Cmds = append(c.Cmds, flatCmd{Op: "search", Vec: core.Bits(pool[i]), K: k, Agg: "sum"})
	}
	return c
}

func genFlatSearch(r *core.Rand, dim int, pool [][]float32, ids []uint32, next uint32, lattice bool) flatCmd {
	q := genVec(r, dim, pool, lattice)
	if r.Chance(0.02) {
		q = q[:len(q)-1] // wrong dimension
	}
	n := len(ids)
	cmd := flatCmd{Op: "search", Vec: core.Bits(q), Agg: []string{"sum", "max", "mean"}[r.Intn(3)]}
	switch r.Pick(3, 2, 4, 2) {
	case 0:
		cmd.K = r.Range(-3, 0)
	case 1:
		cmd.K = n + r.Range(-1, 3)
	case 2:
		cmd.K = r.Range(1, max(1, n))
	case 3:
		cmd.K = r.Range(1, 3)
	}
	switch r.Pick(4, 1, 4, 2, 1, 1) {
	case 0:
		cmd.Thr = 0
	case 1:
		cmd.Thr = math.Float32bits(-1)
	case 2: // exactly a distance the implementation reports
		cmd.ThrMode, cmd.R = 1, r.Intn(max(1, n))
	case 3: // midpoint between two reported distances
		cmd.ThrMode, cmd.R = 2, r.Intn(max(1, n))
	case 4:
		cmd.Thr = math.Float32bits(1e-30)
	case 5:
		cmd.Thr = math.Float32bits(1e30)
	}
	switch r.Pick(5, 3, 2, 1, 1, 3, 1) {
	case 5: // contiguous id range [a,b] (may include ids that are absent or removed)
		a := uint32(r.Range(1, int(next)))
		b := a + uint32(r.Range(0, 14))
		for id := a; id <= b; id++ {
			cmd.Filter = append(cmd.Filter, id)
		}
	case 6: // two contiguous blocks
		a := uint32(r.Range(1, int(next)))
		for id := a; id < a+uint32(r.Range(1, 9)); id++ {
			cmd.Filter = append(cmd.Filter, id)
		}
		b := a + uint32(r.Range(12, 20))
		for id := b; id < b+uint32(r.Range(1, 9)); id++ {
			cmd.Filter = append(cmd.Filter, id)
		}
	case 0:
	case 1: // random subset
		for _, id := range ids {
			if r.Chance(0.5) {
				cmd.Filter = append(cmd.Filter, id)
			}
		}
	case 2: // subset with absent ids
		for _, id := range ids {
			if r.Chance(0.4) {
				cmd.Filter = append(cmd.Filter, id)
			}
		}
		cmd.Filter = append(cmd.Filter, next+7, next+8)
	case 3: // singleton
		if n > 0 {
			cmd.Filter = []uint32{ids[r.Intn(n)]}
		} else {
			cmd.Filter = []uint32{next + 3}
		}
	case 4: // all
		cmd.Filter = append(cmd.Filter, ids...)
	}
	return cmd
}

// vecErr names the outcome of a call: "ok", or the CLASS of the error it returned. The class is
// informational only (it is histogrammed into the evidence): apart from the exported sentinel
// ErrZeroVector it is guessed from the message text, which no property constrains, so the drivers
// compare outcomes as success / failure only (Proto.lean, sameOutcome). Every class but "ok"
// means "the call failed"; a reworded message merely lands in "other".
func vecErr(err error) string {
	switch {
	case err == nil:
		return "ok"
	case errors.Is(err, comet.ErrZeroVector):
		return "zero"
	case strings.Contains(err.Error(), "dimension mismatch"):
		return "dim"
	case strings.Contains(err.Error(), "already deleted"), strings.Contains(err.Error(), "(deleted)"):
		return "deleted"
	case strings.Contains(err.Error(), "not found"):
		return "notfound"
	case strings.Contains(err.Error(), "not trained"), strings.Contains(err.Error(), "must be trained"):
		return "untrained"
	case strings.Contains(err.Error(), "must specify either"):
		return "noquery"
	default:
		return "other"
	}
}

func hitsLine(res []comet.VectorResult) string {
	var b strings.Builder
	b.WriteString("ok")
	for _, h := range res {
		fmt.Fprintf(&b, " %d:%s", h.GetId(), core.Hex32(h.GetScore()))
	}
	return b.String()
}

func execFlat(c *flatCase) []string {
	lines := []string{fmt.Sprintf("begin flat %d %s", c.Dim, c.Metric)}
	idx, err := comet.NewFlatIndex(c.Dim, comet.DistanceKind(c.Metric))
	if err != nil {
		return append(lines, "op panic constructor: "+err.Error(), "end")
	}
	// search objects are executed at once, at once and again after the next Add / Remove / Flush,
	// or only after it (rexec.go); the search line is emitted where the Execute happens
	var rex rexQueue
	for _, cmd := range c.Cmds {
		switch cmd.Op {
		case "add":
			raw := core.FromBits(cmd.Vec)
			arg := append([]float32(nil), raw...)
			err := idx.Add(*comet.NewVectorNodeWithID(cmd.ID, arg))
			lines = append(lines, fmt.Sprintf("op add %d %s => %s", cmd.ID, core.VecHex(raw), vecErr(err)))
			rex.run()
		case "remove":
			err := idx.Remove(*comet.NewVectorNodeWithID(cmd.ID, nil))
			lines = append(lines, fmt.Sprintf("op remove %d => %s", cmd.ID, vecErr(err)))
			rex.run()
		case "flush":
			err := idx.Flush()
			lines = append(lines, "op flush => "+vecErr(err))
			rex.run()
		case "vecs":
			ids, vecs, _ := idx.VerifFlatState()
			var b strings.Builder
			b.WriteString("op vecs =>")
			for i := range ids {
				fmt.Fprintf(&b, " %d:%s", ids[i], core.VecHex(vecs[i]))
			}
			lines = append(lines, b.String())
		case "search":
			q := core.FromBits(cmd.Vec)
			thr := math.Float32frombits(cmd.Thr)
			if cmd.ThrMode != 0 {
				// derive the threshold from distances the implementation itself reports
				probe, err := idx.NewSearch().WithQuery(append([]float32(nil), q...)).WithK(0).Execute()
				thr = 0
				if err == nil && len(probe) > 0 {
					i := cmd.R % len(probe)
					thr = probe[i].GetScore()
					if cmd.ThrMode == 2 && i+1 < len(probe) {
						thr = (probe[i].GetScore() + probe[i+1].GetScore()) / 2
					}
				}
			}
			s := idx.NewSearch().WithQuery(append([]float32(nil), q...)).WithK(cmd.K).WithThreshold(thr).
				WithScoreAggregation(comet.ScoreAggregationKind(cmd.Agg))
			if len(cmd.Filter) > 0 {
				s = s.WithDocumentIDs(cmd.Filter...)
			}
			cmd := cmd
			rex.next(func() {
				res, err := s.Execute()
				out := ""
				if err != nil {
					out = "err " + vecErr(err)
				} else {
					out = hitsLine(res)
				}
				lines = append(lines, fmt.Sprintf("op search %d %s %s %s %s => %s", cmd.K, core.Hex32(thr),
					core.IDs(cmd.Filter), cmd.Agg, core.VecHex(q), out))
			})
		}
	}
	rex.run()
	return append(lines, "end")
}

// kv extracts key=value integers from an "ok …" reply.
func kv(reply string) map[string]int {
	m := map[string]int{}
	for _, t := range strings.Fields(reply) {
		if i := strings.IndexByte(t, '='); i > 0 {
			var v int
			if _, err := fmt.Sscan(t[i+1:], &v); err == nil {
				m[t[:i]] = v
			}
		}
	}
	return m
}

func nonTrivialFlat(lines, replies []string) bool {
	removed := false
	for i, l := range lines {
		if strings.HasPrefix(l, "op remove") && strings.HasSuffix(l, "=> ok") {
			removed = true
		}
		if strings.HasPrefix(l, "op search") && i < len(replies) && strings.HasPrefix(replies[i], "ok n=") {
			m := kv(replies[i])
			if m["n"] > 0 && (removed || m["cands"] < m["live"] || m["n"] < m["cands"]) {
				return true
			}
		}
	}
	return false
}

func init() {
	register(&core.Typed[flatCase]{
		StreamName: "flat", Prop: "C01",
		RuleText: "random Add/Remove/Flush histories (distinct ids; Gaussian, lattice, duplicate and near-tie vectors; 3 metrics) with searches over k in Z, thresholds incl. exactly-a-reported-distance and midpoints, id restrictions incl. absent ids; a case is non-trivial when some search returned a non-empty answer AND (a successful removal preceded it OR the filter/threshold excluded a live vector OR k truncated the candidates); distinct = distinct request streams",
		NCases: func(tier string) int {
			if tier == "thorough" {
				return 40000
			}
			return 400
		},
		GenF:  genFlat,
		ExecF: execFlat,
		LenF:  func(c *flatCase) int { return len(c.Cmds) },
		DropF: func(c *flatCase, lo, hi int) *flatCase {
			n := &flatCase{Dim: c.Dim, Metric: c.Metric}
			n.Cmds = append(n.Cmds, c.Cmds[:lo]...)
			n.Cmds = append(n.Cmds, c.Cmds[hi:]...)
			return n
		},
		NonTrivialF: nonTrivialFlat,
	})
}
