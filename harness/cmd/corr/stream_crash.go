package main

// Stream "crash" (C10). A history with 0..3 completed flushes and optionally a
// compaction is run on the real store; then ONE victim operation (a client Flush, a
// background flush write, the compaction's write of the merged segment, or its
// swap-and-delete) runs with a yield-point handler that copies the directory at every
// file-operation boundary of flushMemtable / writeIndexToSegment / compactSegments /
// deleteSegment. From every copy crash images are derived: the copy itself, and — the
// code never fsyncs — every file created by the unfinished operation cut to byte
// prefixes (all of them up to 4 KB, stratified beyond; always 0, 1, len-1, the gzip
// header and trailer boundaries), singly and in random combinations. Every image is
// reopened by the real code with fresh templates after deleting LOCK, probed twice in
// all modalities, every third also through a compaction of the recovered segments, all forced through one more rotation + Flush (which shows the next
// segment id), listed, probed again and closed; the Lean driver recomputes all of it
// from the model's `recover` on the image described by (file names, gzip cut classes).

import (
	"fmt"
	"os"
	"path/filepath"
	"sort"
	"strings"

	"verifharness/internal/core"
)

func genCrash(r *core.Rand, tier string) *stCase {
	c := &stCase{}
	genStoreCfg(r, c)
	if c.Vec == "hnsw" || c.Vec == "ivf" {
		if r.Chance(0.5) {
			c.Vec = "flat"
		}
	}
	c.Limit = []int64{1, int64(r.Range(64, 420)), int64(r.Range(400, 1200)), 100 * 1024 * 1024}[r.Pick(3, 2, 2, 1)]
	c.CompThr = r.Range(2, 3)
	c.Cmds = append(c.Cmds, stCmd{Op: "open"})
	nFlush := r.Range(0, 3)
	for i := 0; i < nFlush; i++ {
		for k := r.Range(1, 3); k > 0; k-- {
			c.Cmds = append(c.Cmds, genAdd(r, c))
		}
		if r.Chance(0.8) {
			c.Cmds = append(c.Cmds, stCmd{Op: "rotate"})
		}
		c.Cmds = append(c.Cmds, stCmd{Op: "flush"})
		if r.Chance(0.25) {
			c.Cmds = append(c.Cmds, probes(c)...)
		}
	}
	if nFlush > 0 && r.Chance(0.4) {
		// a restart: what follows (compaction included) works on segments found on disk
		c.Cmds = append(c.Cmds, stCmd{Op: "close"}, stCmd{Op: "open"})
		if r.Chance(0.5) {
			c.Cmds = append(c.Cmds, genAdd(r, c), stCmd{Op: "rotate"}, stCmd{Op: "flush"})
		}
	}
	if r.Chance(0.35) { // an earlier, completed compaction
		c.Cmds = append(c.Cmds, stCmd{Op: "trigger"})
		for k := 0; k < 8; k++ {
			c.Cmds = append(c.Cmds, stCmd{Op: "bg", W: "c"})
		}
	}
	for k := r.Range(0, 3); k > 0; k-- {
		c.Cmds = append(c.Cmds, genAdd(r, c))
	}
	if r.Chance(0.8) {
		c.Cmds = append(c.Cmds, stCmd{Op: "rotate"})
	}
	if r.Chance(0.3) {
		c.Cmds = append(c.Cmds, genAdd(r, c))
	}
	c.Dir = r.Intn(len(crashDirNames))
	if r.Chance(0.5) {
		c.Dir = 0
	}
	c.Cmds = append(c.Cmds, stCmd{Op: "state"})
	switch r.Pick(4, 2, 3, 3, 3, 3) {
	case 4:
		// the process dies between two calls
		if r.Bool() {
			c.Cmds = append(c.Cmds, stCmd{Op: "flush"})
		}
		c.Cmds = append(c.Cmds, stCmd{Op: "imagenow"})
		c.Victim = -1
	case 5:
		// Flush() called while the background flush worker is in the middle of writing the same
		// frozen memtable (id taken, files created, nothing written): it returns nil; the process
		// dies before the worker goes on
		c.FlushThr = 64
		c.Cmds = append(c.Cmds, genAdd(r, c))
		if r.Bool() {
			c.Cmds = append(c.Cmds, stCmd{Op: "rotate"}, genAdd(r, c))
		}
		c.Cmds = append(c.Cmds, stCmd{Op: "bg", W: "f"}, stCmd{Op: "bg", W: "fi"}, stCmd{Op: "state"}, stCmd{Op: "flush"}, stCmd{Op: "imagenow"})
		c.Victim = -1
	case 0: // client Flush
		c.Victim = len(c.Cmds)
		c.Cmds = append(c.Cmds, stCmd{Op: "flush"})
	case 1: // background flush write
		c.FlushThr = 64
		c.Cmds = append(c.Cmds, genAdd(r, c), stCmd{Op: "bg", W: "f"})
		c.Victim = len(c.Cmds)
		c.Cmds = append(c.Cmds, stCmd{Op: "bg", W: "f"})
	case 2, 3: // compaction: the write (2) or the swap-and-delete (3)
		c.Cmds = append(c.Cmds, stCmd{Op: "trigger"}, stCmd{Op: "bg", W: "c"})
		for k := 0; k < c.CompThr; k++ {
			c.Cmds = append(c.Cmds, stCmd{Op: "bg", W: "c"})
		}
		c.Victim = len(c.Cmds)
		c.Cmds = append(c.Cmds, stCmd{Op: "bg", W: "c"})
		if r.Bool() {
			c.Victim = len(c.Cmds)
			c.Cmds = append(c.Cmds, stCmd{Op: "bg", W: "c"})
		}
	}
	c.MaxImages = 50
	if tier == "thorough" {
		c.MaxImages = 150
	}
	return c
}

func copyDir(src, dst string) error {
	if err := os.MkdirAll(dst, 0o755); err != nil {
		return err
	}
	ents, err := os.ReadDir(src)
	if err != nil {
		return err
	}
	for _, en := range ents {
		b, err := os.ReadFile(filepath.Join(src, en.Name()))
		if err != nil {
			continue // removed meanwhile by the very operation we are snapshotting
		}
		if err := os.WriteFile(filepath.Join(dst, en.Name()), b, 0o644); err != nil {
			return err
		}
	}
	return nil
}

// linkImage materialises a crash image: files cut short are written as prefixes, all
// others are hard links to the snapshot (the store never rewrites an existing file:
// segment ids are fresh — and if they were not, that is a violation anyway).
func linkImage(src, dst string, cut map[string]int) error {
	if err := os.MkdirAll(dst, 0o755); err != nil {
		return err
	}
	ents, err := os.ReadDir(src)
	if err != nil {
		return err
	}
	for _, en := range ents {
		from, to := filepath.Join(src, en.Name()), filepath.Join(dst, en.Name())
		if j, ok := cut[en.Name()]; ok {
			b, err := os.ReadFile(from)
			if err != nil {
				return err
			}
			if j > len(b) {
				j = len(b)
			}
			if err := os.WriteFile(to, b[:j], 0o644); err != nil {
				return err
			}
			continue
		}
		if en.Name() == "LOCK" {
			if err := os.WriteFile(to, []byte("0\n"), 0o644); err != nil {
				return err
			}
			continue
		}
		if err := os.Link(from, to); err != nil {
			b, err2 := os.ReadFile(from)
			if err2 != nil {
				return err
			}
			if err := os.WriteFile(to, b, 0o644); err != nil {
				return err
			}
		}
	}
	return nil
}

// prefixLens: all prefixes up to 4 KB; beyond that 0,1,…,31, the last 32, and a stratified sample.
func prefixLens(n int, r *core.Rand) []int {
	var out []int
	if n <= 4096 {
		for j := 0; j < n; j++ {
			out = append(out, j)
		}
		return out
	}
	seen := map[int]bool{}
	add := func(j int) {
		if j >= 0 && j < n && !seen[j] {
			seen[j] = true
			out = append(out, j)
		}
	}
	for j := 0; j < 32; j++ {
		add(j)
		add(n - 1 - j)
	}
	for j := 32; j < n; j += 1 + n/512 {
		add(j + r.Intn(1+n/1024))
	}
	sort.Ints(out)
	return out
}

type crashImage struct {
	snap int            // index of the directory copy it derives from
	cut  map[string]int // file name → prefix length
}

func execCrash(c *stCase) []string {
	return withStoreEnv(c, "crash", func(e *stExec) {
		// a crash between two calls: everything up to the `imagenow` command, then the image
		for i, cmd := range c.Cmds {
			if cmd.Op == "imagenow" && (c.Victim <= 0 || c.Victim >= len(c.Cmds) || i < c.Victim) {
				for _, x := range c.Cmds[:i] {
					e.do(x)
				}
				e.imageNow(c)
				return
			}
		}
		if c.Victim <= 0 || c.Victim >= len(c.Cmds) {
			// shrunk away: plain history
			for _, cmd := range c.Cmds {
				e.do(cmd)
			}
			e.closeStore()
			return
		}
		for _, cmd := range c.Cmds[:c.Victim] {
			e.do(cmd)
		}
		if e.store == nil {
			return
		}
		root := e.root
		leaf := filepath.Base(e.dir)
		pre := map[string]bool{}
		if ents, err := os.ReadDir(e.dir); err == nil {
			for _, en := range ents {
				pre[en.Name()] = true
			}
		}
		var snaps []string
		take := func(point string) {
			d := filepath.Join(root, fmt.Sprintf("snap%03d", len(snaps)))
			if copyDir(e.dir, d) == nil {
				snaps = append(snaps, d)
			}
		}
		e.emit("op victim")
		take("before")
		e.h.mu.Lock()
		e.h.snap = take
		e.h.mu.Unlock()
		nBefore := len(e.lines)
		e.do(c.Cmds[c.Victim])
		e.h.mu.Lock()
		e.h.snap = nil
		e.h.mu.Unlock()
		take("after")
		if len(e.lines) == nBefore {
			// the victim command did nothing (worker idle): nothing to crash in
			e.closeStore()
			return
		}
		// stop the real store; its directory is not looked at any more
		mark := len(e.lines)
		e.closeStore()
		e.lines = e.lines[:mark]

		// plaintext lengths of the complete versions of the files the victim created
		final := snaps[len(snaps)-1]
		e.fullLen = map[string]int{}
		var created []string
		if ents, err := os.ReadDir(final); err == nil {
			for _, en := range ents {
				if !pre[en.Name()] {
					created = append(created, en.Name())
					b, _ := os.ReadFile(filepath.Join(final, en.Name()))
					e.fullLen[shortName(en.Name())] = plainLen(b)
				}
			}
		}
		isCreated := map[string]bool{}
		for _, n := range created {
			isCreated[n] = true
		}
		// derive images
		r := core.NewRand(uint64(len(c.Cmds))*1315423911+uint64(c.Limit), "crash-images")
		var images []crashImage
		seen := map[string]bool{}
		// file names and sizes of every snapshot, read once
		type fent struct {
			name string
			size int
		}
		snapFiles := make([][]fent, len(snaps))
		for i := range snaps {
			ents, _ := os.ReadDir(snaps[i])
			for _, en := range ents {
				info, err := en.Info()
				if err == nil {
					snapFiles[i] = append(snapFiles[i], fent{en.Name(), int(info.Size())})
				}
			}
		}
		sig := func(snap int, cut map[string]int) string {
			var parts []string
			for _, f := range snapFiles[snap] {
				l := f.size
				if v, ok := cut[f.name]; ok {
					l = v
				}
				if isCreated[f.name] {
					parts = append(parts, fmt.Sprintf("%s:%d", f.name, l))
				} else {
					parts = append(parts, f.name)
				}
			}
			return strings.Join(parts, ",")
		}
		push := func(snap int, cut map[string]int) {
			s := sig(snap, cut)
			if !seen[s] {
				seen[s] = true
				images = append(images, crashImage{snap, cut})
			}
		}
		var base []crashImage
		for i := range snaps {
			n := len(images)
			push(i, nil)
			if len(images) > n {
				base = append(base, images[len(images)-1])
			}
		}
		images = nil
		for i := range snaps {
			var present []fent
			for _, f := range snapFiles[i] {
				if isCreated[f.name] {
					present = append(present, f)
				}
			}
			for _, f := range present {
				for _, j := range prefixLens(f.size, r) {
					push(i, map[string]int{f.name: j})
				}
			}
			// un-synced: several files of the unfinished operation short at once
			for k := 0; k < 6 && len(present) >= 2; k++ {
				cut := map[string]int{}
				for _, f := range present {
					if r.Chance(0.6) && f.size > 0 {
						cut[f.name] = r.Intn(f.size)
					}
				}
				if len(cut) >= 2 {
					push(i, cut)
				}
			}
		}
		// budget: all base images, the rest sampled evenly
		budget := c.MaxImages
		if budget <= 0 {
			budget = 60
		}
		chosen := append([]crashImage(nil), base...)
		if rest := budget - len(chosen); rest > 0 && len(images) > 0 {
			if len(images) <= rest {
				chosen = append(chosen, images...)
			} else {
				for _, k := range r.Perm(len(images))[:rest] {
					chosen = append(chosen, images[k])
				}
			}
		}
		e.ref, e.noRef = nil, true // the reference index plays no role in the image runs
		for n, im := range chosen {
			imgRoot := filepath.Join(root, fmt.Sprintf("img%05d", n))
			img := filepath.Join(imgRoot, leaf)
			if err := linkImage(snaps[im.snap], img, im.cut); err != nil {
				e.emit("op panic copy image: %v", err)
				return
			}
			e.dir = img
			listing := e.listing(img)
			os.Remove(filepath.Join(img, "LOCK"))
			// recover
			e.openImage("image", listing)
			e.afterRecovery(c, n)
			os.RemoveAll(imgRoot)
		}
	})
}

// afterRecovery: what every recovered store is put through: all probes twice, one more document,
// rotation and Flush (shows the next segment id), listing, all probes; every third image also a
// compaction of the recovered segments (the first one after a restart) and the probes again.
func (e *stExec) afterRecovery(c *stCase, n int) {
	if e.store == nil {
		return
	}
	p := probes(c)
	for _, q := range p {
		e.do(q)
	}
	for _, q := range p {
		e.do(q)
	}
	if n%3 == 1 {
		e.do(stCmd{Op: "trigger"})
		for k := 0; k < c.CompThr+4; k++ {
			e.do(stCmd{Op: "bg", W: "c"})
		}
		e.do(stCmd{Op: "ls"})
		for _, q := range p {
			e.do(q)
		}
	}
	e.nextExp = 500000
	e.do(stCmd{Op: "addid", V: c.Vec != "none", T: true, M: true})
	e.do(stCmd{Op: "rotate"})
	e.do(stCmd{Op: "flush"})
	e.do(stCmd{Op: "ls"})
	for _, q := range p {
		e.do(q)
	}
	e.closeStore()
}

// imageNow: the process dies HERE — between two client calls, the last one completed, a worker
// possibly parked inside a write. The directory is copied as it is; the real store is then shut
// down unobserved; the copy is recovered like every other crash image.
func (e *stExec) imageNow(c *stCase) {
	if e.store == nil {
		return
	}
	snap := filepath.Join(e.root, "now", filepath.Base(e.dir))
	if err := copyDir(e.dir, snap); err != nil {
		e.emit("op panic copy image: %v", err)
		return
	}
	mark := len(e.lines)
	e.closeStore()
	e.lines = e.lines[:mark]
	e.ref, e.noRef = nil, true
	e.fullLen = map[string]int{}
	e.dir = snap
	listing := e.listing(snap)
	os.Remove(filepath.Join(snap, "LOCK"))
	e.openImage("imagenow", listing)
	e.afterRecovery(c, 1)
}

// openImage: like open(), but reported as `op image|imagenow <listing> => …`.
func (e *stExec) openImage(verb, listing string) {
	n := len(e.lines)
	e.open()
	if len(e.lines) > n {
		last := e.lines[len(e.lines)-1]
		out := last[strings.Index(last, "=>")+3:]
		if strings.HasPrefix(last, "op open =>") {
			if out != "ok" && out != "locked" {
				out = "err"
			}
			e.lines[len(e.lines)-1] = fmt.Sprintf("op %s %s => %s", verb, listing, out)
		}
	}
}

func nonTrivialCrash(lines, replies []string) bool {
	for i, l := range lines {
		if strings.HasPrefix(l, "op image") && i < len(replies) {
			m := kv(replies[i])
			if m["k"] > 0 && m["intact"] > 0 {
				return true
			}
		}
	}
	return false
}

func init() {
	register(&core.Typed[stCase]{
		StreamName: "crash", Prop: "C10",
		RuleText: "histories with 0..3 completed flushes, optionally a restart and optionally a completed compaction, base directory names with glob metacharacters / spaces / unicode, then one victim operation (client Flush / background flush write / compaction write / compaction swap-and-delete) snapshotted at every file-operation boundary, or a crash BETWEEN two calls (`imagenow`) — in particular right after a Flush() that returned while the background flush worker was parked in the middle of writing the same memtable; crash images = every snapshot, plus every byte prefix (all up to 4 KB, stratified beyond) of every file created by the victim, singly and in random combinations; each image is reopened by the real code with fresh templates after deleting LOCK, probed twice in every modality (metadata also through filter groups), every third also through a compaction of the recovered segments, all forced through one more rotation + Flush, listed, probed, closed; compared with the model's recover on the image (file names + gzip cut class per file); a case is non-trivial when some image was taken after at least one FS step of the victim (k>0) and contains at least one intact segment; distinct = distinct request streams",
		NCases: func(tier string) int {
			if tier == "thorough" {
				return 400
			}
			return 24
		},
		GenF:        genCrash,
		ExecF:       execCrash,
		LenF:        func(c *stCase) int { return len(c.Cmds) },
		DropF:       dropCmds,
		NonTrivialF: nonTrivialCrash,
	})
}
