package main

// Stream "hsearch" (C05): what hybridSearch.Execute composes. For every generated query the
// harness runs the hybrid search and, separately, the metadata / vector / text sub-searches
// with exactly the options the hybrid search passes on; the Lean driver runs the model
// composition (Comet/HybridSearch.lean) over those answers and judges the hybrid answer with
// the verified top-k checker, scores as float64 bit patterns.

import (
	"fmt"
	"math"
	"sort"
	"strings"
	"sync"

	comet "github.com/wizenheimer/comet"
	"verifharness/internal/core"
)

type hsFilter struct {
	Op   string   `json:"op"` // eq | ne | gte | lt | in | exists
	K    string   `json:"k"`
	V    string   `json:"v,omitempty"`
	Vs   []string `json:"vs,omitempty"`
	Kind string   `json:"kind"`
}

type hsCmd struct {
	Op   string     `json:"op"` // add | remove | flush | search
	ID   uint32     `json:"id,omitempty"`
	Vec  []uint32   `json:"vec,omitempty"`
	Text string     `json:"text,omitempty"`
	Meta []atomicKV `json:"meta,omitempty"`
	// search
	QV      []uint32   `json:"qv,omitempty"`
	QT      []string   `json:"qt,omitempty"`
	Filters []hsFilter `json:"filters,omitempty"`
	Groups  [][]hsFilter
	GroupOr []bool
	K       int     `json:"k,omitempty"`
	Fusion  string  `json:"fusion,omitempty"`
	VW, TW  float64 `json:"-"`
	VWb     uint64  `json:"vw,omitempty"`
	TWb     uint64  `json:"tw,omitempty"`
	RRFKb   uint64  `json:"rrfk,omitempty"`
	Agg     string  `json:"agg,omitempty"`
	NProbes int     `json:"nprobes,omitempty"`
	Ef      int     `json:"ef,omitempty"`
	ThrMode int     `json:"thr_mode,omitempty"`
	Cutoff  int     `json:"cutoff,omitempty"`
	SetCut  bool    `json:"set_cut,omitempty"`
}

type hsCase struct {
	HasV, HasT, HasM bool
	VKind            string     `json:"vkind"`
	Dim              int        `json:"dim"`
	Metric           string     `json:"metric"`
	NList            int        `json:"nlist"`
	Train            [][]uint32 `json:"train,omitempty"`
	Cmds             []hsCmd
}

// hsCapture holds what hybridSearch.Execute computed internally (verifCapture hook), keyed by
// the search object, so that concurrent workers do not mix their captures.
type hsCapture struct {
	cands     []uint32
	vec, text map[uint32]float64
	haveV     bool
	haveT     bool
}

var (
	hsCaptures   sync.Map // owner (any) -> *hsCapture
	hsCaptureSet sync.Once
)

func hsInstallCapture() {
	hsCaptureSet.Do(func() {
		comet.VerifSetCaptureHandler(func(name string, owner any, value any) {
			v, _ := hsCaptures.LoadOrStore(owner, &hsCapture{})
			c := v.(*hsCapture)
			switch name {
			case "hybrid:candidates":
				c.cands = append([]uint32(nil), value.([]uint32)...)
			case "hybrid:vector":
				if m, ok := value.(map[uint32]float64); ok && m != nil {
					c.vec, c.haveV = m, true
				}
			case "hybrid:text":
				if m, ok := value.(map[uint32]float64); ok && m != nil {
					c.text, c.haveT = m, true
				}
			}
		})
	})
}

func hsMapTok(m map[uint32]float64) string {
	if len(m) == 0 {
		return "ok:-"
	}
	ids := make([]uint32, 0, len(m))
	for id := range m {
		ids = append(ids, id)
	}
	sort.Slice(ids, func(i, j int) bool { return ids[i] < ids[j] })
	parts := make([]string, len(ids))
	for i, id := range ids {
		parts[i] = fmt.Sprintf("%d:%s", id, core.Hex32(float32(m[id])))
	}
	return "ok:" + strings.Join(parts, ",")
}

var hsVocab = []string{"alpha", "beta", "gamma", "delta", "eps", "zeta", "eta", "theta"}

func genHSearch(r *core.Rand, tier string) *hsCase {
	c := &hsCase{HasV: r.Chance(0.85), HasT: r.Chance(0.85), HasM: r.Chance(0.85)}
	c.VKind = []string{"flat", "flat", "ivf", "pq", "ivfpq", "hnsw"}[r.Intn(6)]
	c.Metric = metrics[r.Intn(3)]
	c.Dim = 2 * r.Range(1, 4)
	c.NList = r.Range(1, 4)
	if c.VKind == "ivf" || c.VKind == "pq" || c.VKind == "ivfpq" {
		n := 50 + r.Intn(30)
		for i := 0; i < n; i++ {
			v := make([]float32, c.Dim)
			for j := range v {
				v[j] = float32(r.Norm()*3) + float32(i%5)
			}
			c.Train = append(c.Train, core.Bits(v))
		}
	}
	maxDocs, nq := 25, 8
	if tier == "thorough" {
		maxDocs, nq = 80, 16
	}
	ndocs := r.Range(1, maxDocs)
	var live []uint32
	var vpool [][]float32 // vectors added so far
	lastText := ""
	next := uint32(3_100_000_000)
	search := func() hsCmd {
		cmd := hsCmd{Op: "search", K: r.Range(1, len(live)+2)}
		if r.Chance(0.7) {
			q := make([]float32, c.Dim)
			for j := range q {
				q[j] = float32(r.Range(-4, 4)) + float32(r.Norm())*0.3
			}
			q[0] += 0.5
			if len(vpool) > 0 && r.Chance(0.25) {
				// exactly a stored vector: a distance of exactly 0 (the zero value of a missing
				// map entry) must not be mistaken for "no vector match"
				q = append([]float32(nil), vpool[r.Intn(len(vpool))]...)
			}
			cmd.QV = core.Bits(q)
		}
		if r.Chance(0.6) {
			for i := r.Range(1, 3); i > 0; i-- {
				w := hsVocab[r.Intn(len(hsVocab))]
				if r.Chance(0.1) {
					w = "nomatch"
				}
				if r.Chance(0.08) {
					// blank queries are queries: "" matches nothing, " " is an indexed token
					// (the blank between two words)
					w = []string{"", " ", "  ", "\t"}[r.Intn(4)]
					cmd.QT = append(cmd.QT, w)
					continue
				}
				if r.Chance(0.3) {
					w += " " + hsVocab[r.Intn(len(hsVocab))]
				}
				cmd.QT = append(cmd.QT, w)
			}
			if r.Chance(0.15) {
				// the same query string twice: two queries, both count in the aggregation
				cmd.QT = append(cmd.QT, cmd.QT[r.Intn(len(cmd.QT))])
			}
		}
		mkf := func() hsFilter {
			switch r.Pick(3, 1, 2, 2, 2, 1) {
			case 0:
				return hsFilter{Op: "eq", K: "tag", V: fmt.Sprintf("t%d", r.Intn(4)), Kind: "str"}
			case 1:
				return hsFilter{Op: "ne", K: "tag", V: fmt.Sprintf("t%d", r.Intn(4)), Kind: "str"}
			case 2:
				return hsFilter{Op: "gte", K: "n", V: fmt.Sprint(r.Range(0, 12)), Kind: "int"}
			case 3:
				return hsFilter{Op: "lt", K: "n", V: fmt.Sprint(r.Range(0, 12)), Kind: "int"}
			case 4:
				return hsFilter{Op: "in", K: "tag", Vs: []string{fmt.Sprintf("t%d", r.Intn(4)), fmt.Sprintf("t%d", r.Intn(4))}, Kind: "str"}
			default:
				return hsFilter{Op: "exists", K: []string{"n", "tag", "flag", "absent"}[r.Intn(4)]}
			}
		}
		if r.Chance(0.5) {
			for i := r.Range(1, 2); i > 0; i-- {
				cmd.Filters = append(cmd.Filters, mkf())
			}
		}
		if r.Chance(0.2) {
			for g := r.Range(1, 2); g > 0; g-- {
				var fs []hsFilter
				for i := r.Range(1, 2); i > 0; i-- {
					fs = append(fs, mkf())
				}
				cmd.Groups = append(cmd.Groups, fs)
				cmd.GroupOr = append(cmd.GroupOr, r.Bool())
			}
		}
		cmd.Fusion = []string{"weighted_sum", "reciprocal_rank", "max", "min", ""}[r.Intn(5)]
		cmd.VWb = math.Float64bits(float64(r.Range(-2, 4)) * 0.5)
		cmd.TWb = math.Float64bits(float64(r.Range(-2, 4)) * 0.5)
		cmd.RRFKb = math.Float64bits(float64(r.Range(1, 80)))
		cmd.Agg = []string{"sum", "max", "mean"}[r.Intn(3)]
		cmd.NProbes = []int{0, 1, c.NList, c.NList + 2}[r.Intn(4)]
		cmd.Ef = []int{0, 0, 10, 200}[r.Intn(4)]
		cmd.ThrMode = r.Pick(5, 2)
		if r.Chance(0.15) {
			cmd.SetCut, cmd.Cutoff = true, r.Range(1, 3)
		}
		return cmd
	}
	for i := 0; i < ndocs; i++ {
		switch r.Pick(10, 2, 1, 4) {
		case 0:
			id := next
			next++
			cmd := hsCmd{Op: "add", ID: id}
			if r.Chance(0.85) {
				v := make([]float32, c.Dim)
				for j := range v {
					v[j] = float32(r.Range(-4, 4))
					if r.Chance(0.7) {
						v[j] += float32(r.Norm()) * 0.3
					}
				}
				if v[0] == 0 {
					v[0] = 1
				}
				dup := len(vpool) > 0 && r.Chance(0.2)
				if dup {
					// a near-duplicate of an earlier document: same text, a vector that differs in
					// the last bits of one component — fused scores that differ only beyond float32
					copy(v, vpool[len(vpool)-1])
					j := r.Intn(len(v))
					v[j] = math.Float32frombits(math.Float32bits(v[j]) + uint32(r.Range(1, 2)))
				}
				cmd.Vec = core.Bits(v)
				vpool = append(vpool, v)
				if dup && lastText != "" {
					cmd.Text = lastText
				}
			}
			if cmd.Text == "" && r.Chance(0.85) {
				var ws []string
				for k := r.Range(1, 5); k > 0; k-- {
					ws = append(ws, hsVocab[r.Intn(len(hsVocab))])
				}
				cmd.Text = strings.Join(ws, " ")
			}
			lastText = cmd.Text
			if r.Chance(0.85) {
				cmd.Meta = []atomicKV{{K: "n", V: fmt.Sprint(r.Range(0, 12)), Kind: "int"}, {K: "tag", V: fmt.Sprintf("t%d", r.Intn(3)), Kind: "str"}}
				if r.Chance(0.3) {
					cmd.Meta = append(cmd.Meta, atomicKV{K: "flag", V: fmt.Sprint(r.Bool()), Kind: "bool"})
				}
			}
			c.Cmds = append(c.Cmds, cmd)
			live = append(live, id)
		case 1:
			if len(live) > 0 {
				j := r.Intn(len(live))
				c.Cmds = append(c.Cmds, hsCmd{Op: "remove", ID: live[j]})
				live = append(live[:j], live[j+1:]...)
			}
		case 2:
			c.Cmds = append(c.Cmds, hsCmd{Op: "flush"})
		case 3:
			c.Cmds = append(c.Cmds, search())
		}
	}
	for i := 0; i < nq; i++ {
		c.Cmds = append(c.Cmds, search())
	}
	return c
}

func hsValue(kind, v string) interface{} {
	return metaValue(atomicKV{V: v, Kind: kind})
}

func hsBuildFilter(f hsFilter) comet.Filter {
	switch f.Op {
	case "eq":
		return comet.Eq(f.K, hsValue(f.Kind, f.V))
	case "ne":
		return comet.Ne(f.K, hsValue(f.Kind, f.V))
	case "gte":
		return comet.Gte(f.K, hsValue(f.Kind, f.V))
	case "lt":
		return comet.Lt(f.K, hsValue(f.Kind, f.V))
	case "in":
		vs := make([]interface{}, len(f.Vs))
		for i, v := range f.Vs {
			vs[i] = hsValue(f.Kind, v)
		}
		return comet.In(f.K, vs...)
	default:
		return comet.Exists(f.K)
	}
}

func execHSearch(c *hsCase) []string {
	hsInstallCapture()
	lines := []string{fmt.Sprintf("begin hsearch %d %s %s", c.Dim, c.Metric, c.VKind)}
	var vec comet.VectorIndex
	var txt comet.TextIndex
	var meta comet.MetadataIndex
	if c.HasV {
		v, err := buildVector(c.VKind, c.Dim, c.Metric, c.NList)
		if err != nil {
			return append(lines, "op panic constructor: "+err.Error(), "end")
		}
		vec = v
	}
	if c.HasT {
		txt = comet.NewBM25SearchIndex()
	}
	if c.HasM {
		meta = comet.NewRoaringMetadataIndex()
	}
	idx := comet.NewHybridSearchIndex(vec, txt, meta)
	if c.HasV && len(c.Train) > 0 {
		tr := make([][]float32, len(c.Train))
		for i, t := range c.Train {
			tr[i] = core.FromBits(t)
		}
		if err := idx.Train(tr); err != nil {
			return append(lines, "op panic train: "+err.Error(), "end")
		}
	}
	// hybrid search objects are executed at once, at once and again after the next Add / Remove /
	// Flush, or only after it (rexec.go); the search line — the hybrid answer, what Execute obtained
	// from the sub-indexes and the separately issued sub-searches — is made where the Execute happens
	var rex rexQueue
	for _, cmd := range c.Cmds {
		switch cmd.Op {
		case "add":
			var v []float32
			if cmd.Vec != nil {
				v = core.FromBits(cmd.Vec)
			}
			var m map[string]interface{}
			if len(cmd.Meta) > 0 {
				m = map[string]interface{}{}
				for _, kv := range cmd.Meta {
					m[kv.K] = metaValue(kv)
				}
			}
			var arg []float32
			if v != nil {
				arg = append([]float32(nil), v...)
			}
			if err := idx.AddWithID(cmd.ID, arg, cmd.Text, m); err != nil {
				lines = append(lines, "op panic add failed: "+err.Error())
			} else if c.HasV && v != nil {
				lines = append(lines, fmt.Sprintf("op doc %d %s => ok", cmd.ID, core.VecHex(v)))
			}
			rex.run()
		case "remove":
			if err := idx.Remove(cmd.ID); err == nil { // (a shrunk case may remove an id whose add was dropped)
				lines = append(lines, fmt.Sprintf("op undoc %d => ok", cmd.ID))
			}
			rex.run()
		case "flush":
			idx.Flush()
			rex.run()
		case "search":
			run, bad := hsSearch(c, idx, vec, txt, meta, cmd)
			if run == nil {
				lines = append(lines, bad)
				continue
			}
			rex.next(func() { lines = append(lines, run()) })
		}
	}
	rex.run()
	return append(lines, "end")
}

// hsSearch builds the hybrid search object of a search command and returns the function that
// executes it (every call: Execute on that same object, fresh sub-searches, one search line);
// (nil, line) when the object cannot be built.
func hsSearch(c *hsCase, idx comet.HybridSearchIndex, vec comet.VectorIndex, txt comet.TextIndex, meta comet.MetadataIndex, cmd hsCmd) (func() string, string) {
	var filters []comet.Filter
	for _, f := range cmd.Filters {
		filters = append(filters, hsBuildFilter(f))
	}
	var groups []*comet.FilterGroup
	for gi, g := range cmd.Groups {
		var fs []comet.Filter
		for _, f := range g {
			fs = append(fs, hsBuildFilter(f))
		}
		logic := comet.AND
		if cmd.GroupOr[gi] {
			logic = comet.OR
		}
		groups = append(groups, &comet.FilterGroup{Filters: fs, Logic: logic})
	}
	q := core.FromBits(cmd.QV)
	agg := comet.ScoreAggregationKind(cmd.Agg)
	cutoff := -1
	if cmd.SetCut {
		cutoff = cmd.Cutoff
	}
	vw, tw, rk := math.Float64frombits(cmd.VWb), math.Float64frombits(cmd.TWb), math.Float64frombits(cmd.RRFKb)
	// threshold derived from the data (only meaningful with a vector query and index)
	var thr float32
	if cmd.ThrMode == 1 && vec != nil && len(q) > 0 {
		if probe, err := vec.NewSearch().WithQuery(append([]float32(nil), q...)).WithK(0).WithNProbes(c.NList + 5).Execute(); err == nil && len(probe) > 0 {
			thr = probe[len(probe)/2].GetScore()
		}
	}
	// ---- the hybrid search itself
	hs := idx.NewSearch().WithK(cmd.K).WithScoreAggregation(agg)
	if len(q) > 0 {
		hs = hs.WithVector(append([]float32(nil), q...))
	}
	if len(cmd.QT) > 0 {
		hs = hs.WithText(cmd.QT...)
	}
	if len(filters) > 0 {
		hs = hs.WithMetadata(filters...)
	}
	if len(groups) > 0 {
		hs = hs.WithMetadataGroups(groups...)
	}
	nprobes := 1 // NewSearch default
	if cmd.NProbes > 0 {
		hs = hs.WithNProbes(cmd.NProbes)
		nprobes = cmd.NProbes
	}
	if cmd.Ef > 0 {
		hs = hs.WithEfSearch(cmd.Ef)
	}
	if thr > 0 {
		hs = hs.WithThreshold(thr)
	}
	if cmd.SetCut {
		hs = hs.WithCutoff(cutoff)
	}
	if cmd.Fusion != "" && (cmd.K+len(cmd.QT))%4 == 0 {
		// WithFusionKind = that kind with the default configuration (weights 1, 1, K = 60);
		// chosen as a function of the command, so replays are unchanged
		hs = hs.WithFusionKind(comet.FusionKind(cmd.Fusion))
		vw, tw, rk = 1, 1, 60
	} else if cmd.Fusion != "" {
		fc := &comet.FusionConfig{VectorWeight: vw, TextWeight: tw, K: rk}
		if (cmd.K+len(cmd.QT))%4 == 1 {
			// the documented way to customise: take the default configuration and edit it (the
			// library-wide defaults must not change with it)
			fc = comet.DefaultFusionConfig()
			fc.VectorWeight, fc.TextWeight, fc.K = vw, tw, rk
		}
		f, err := comet.NewFusion(comet.FusionKind(cmd.Fusion), fc)
		if err != nil {
			return nil, "op panic fusion: " + err.Error()
		}
		hs = hs.WithFusion(f)
	} else {
		vw, tw = 1, 1 // DefaultFusion = weighted sum with weights 1, 1
	}
	return func() string { return hsExecute(hs, vec, txt, meta, cmd, filters, groups, q, thr, nprobes, vw, tw, rk) }, ""
}

// hsExecute executes the hybrid search object hs (built by hsSearch for cmd) and the sub-searches
// on the indexes as they are now, and renders the search line.
func hsExecute(hs comet.HybridSearch, vec comet.VectorIndex, txt comet.TextIndex, meta comet.MetadataIndex, cmd hsCmd,
	filters []comet.Filter, groups []*comet.FilterGroup, q []float32, thr float32, nprobes int, vw, tw, rk float64) string {
	hasFilt := len(filters) > 0 || len(groups) > 0
	agg := comet.ScoreAggregationKind(cmd.Agg)
	cutoff := -1
	if cmd.SetCut {
		cutoff = cmd.Cutoff
	}
	// what Execute computes internally is captured under the search object: a capture left by an
	// earlier Execute of the same object was taken out then, this one is taken out now
	hsCaptures.Delete(any(hs))
	hres, herr := hs.Execute()
	var cap *hsCapture
	if v, ok := hsCaptures.LoadAndDelete(any(hs)); ok {
		cap = v.(*hsCapture)
	}

	// ---- the sub-searches, with the options Execute is documented to pass on
	metaTok := "ok:-"
	var cands []uint32
	if hasFilt {
		if meta == nil {
			metaTok = "noindex"
		} else {
			ms := meta.NewSearch()
			if len(filters) > 0 {
				ms = ms.WithFilters(filters...)
			}
			if len(groups) > 0 {
				ms = ms.WithFilterGroups(groups...)
			}
			mres, err := ms.Execute()
			if err != nil {
				metaTok = "err"
			} else {
				for _, m := range mres {
					cands = append(cands, m.GetId())
				}
				metaTok = "ok:" + core.IDs(cands)
			}
		}
	}
	sub := func(ids []uint32, scores []float32) string {
		if len(ids) == 0 {
			return "ok:-"
		}
		parts := make([]string, len(ids))
		for i := range ids {
			parts[i] = fmt.Sprintf("%d:%s", ids[i], core.Hex32(scores[i]))
		}
		return "ok:" + strings.Join(parts, ",")
	}
	vresTok := "ok:-"
	if len(q) > 0 {
		if vec == nil {
			vresTok = "noindex"
		} else {
			vs := vec.NewSearch().WithQuery(append([]float32(nil), q...)).WithK(cmd.K).WithScoreAggregation(agg).WithCutoff(cutoff)
			vs = vs.WithNProbes(nprobes)
			if cmd.Ef > 0 {
				vs = vs.WithEfSearch(cmd.Ef)
			}
			if thr > 0 {
				vs = vs.WithThreshold(thr)
			}
			if len(cands) > 0 {
				vs = vs.WithDocumentIDs(cands...)
			}
			r, err := vs.Execute()
			if err != nil {
				vresTok = "err"
			} else {
				ids := make([]uint32, len(r))
				sc := make([]float32, len(r))
				for i, h := range r {
					ids[i], sc[i] = h.GetId(), h.GetScore()
				}
				vresTok = sub(ids, sc)
			}
		}
	}
	tresTok := "ok:-"
	if len(cmd.QT) > 0 {
		if txt == nil {
			tresTok = "noindex"
		} else {
			ts := txt.NewSearch().WithQuery(cmd.QT...).WithK(cmd.K).WithScoreAggregation(agg).WithCutoff(cutoff)
			if len(cands) > 0 {
				ts = ts.WithDocumentIDs(cands...)
			}
			r, err := ts.Execute()
			if err != nil {
				tresTok = "err"
			} else {
				ids := make([]uint32, len(r))
				sc := make([]float32, len(r))
				for i, h := range r {
					ids[i], sc[i] = h.GetId(), h.GetScore()
				}
				tresTok = sub(ids, sc)
			}
		}
	}
	out := "err"
	if herr == nil {
		var b strings.Builder
		b.WriteString("ok")
		for _, h := range hres {
			fmt.Fprintf(&b, " %d:%s", h.ID, core.Hex64(h.Score))
		}
		out = b.String()
	}
	b2s := func(b bool) string {
		if b {
			return "1"
		}
		return "0"
	}
	fusion := cmd.Fusion
	if fusion == "" {
		fusion = "weighted_sum"
	}
	// what Execute used internally (captured); the separately issued sub-searches travel as
	// vext / text for the option-plumbing comparison
	vint, tint := vresTok, tresTok
	if cap != nil {
		if cap.haveV {
			vint = hsMapTok(cap.vec)
		}
		if cap.haveT {
			tint = hsMapTok(cap.text)
		}
	}
	return fmt.Sprintf("op search k=%d fusion=%s vw=%s tw=%s K=%s filt=%s meta=%s vq=%s qv=%s thr=%s cut=%d ntq=%d vres=%s vext=%s tq=%s tres=%s text=%s => %s",
		cmd.K, fusion, core.Hex64(vw), core.Hex64(tw), core.Hex64(rk), b2s(hasFilt), metaTok,
		b2s(len(q) > 0), core.VecHex(q), core.Hex32(thr), cutoff, len(cmd.QT), vint, vresTok, b2s(len(cmd.QT) > 0), tint, tresTok, out)
}

func nonTrivialHSearch(lines, replies []string) bool {
	for i, l := range lines {
		if strings.HasPrefix(l, "op search") && i < len(replies) && strings.HasPrefix(replies[i], "ok n=") {
			m := kv(replies[i])
			if m["n"] > 0 && (m["both"] == 1 || strings.Contains(l, "filt=1")) {
				return true
			}
		}
	}
	return false
}

func init() {
	register(&core.Typed[hsCase]{
		StreamName: "hsearch", Prop: "C05",
		RuleText: "hybrid index over all 8 combinations of configured sub-indexes (vector kind flat/ivf/pq/ivfpq/hnsw, 3 metrics), documents with any subset of modalities, add/remove/flush histories; queries combining vector / 1-3 texts / filters / filter groups, k>=1, 4 fusions with random weights and K, 3 aggregations, nprobes, efSearch, data-derived thresholds, cutoffs; the hybrid answer is judged against the model composition of the sub-search answers Execute obtained (captured) and those are compared with separately issued sub-searches (option plumbing); non-trivial = a search returned results AND (both modalities contributed OR a metadata filter was active); distinct = distinct request streams",
		NCases: func(tier string) int {
			if tier == "thorough" {
				return 30000
			}
			return 300
		},
		GenF:  genHSearch,
		ExecF: execHSearch,
		LenF:  func(c *hsCase) int { return len(c.Cmds) },
		DropF: func(c *hsCase, lo, hi int) *hsCase {
			n := *c
			n.Cmds = append(append([]hsCmd(nil), c.Cmds[:lo]...), c.Cmds[hi:]...)
			return &n
		},
		NonTrivialF: nonTrivialHSearch,
	})
}
