// corr — the correspondence harness: drives the real comet code (built from /repo's
// working tree with -tags verif) and the Lean model driver on the same generated
// operation sequences.
package main

import (
	"bufio"
	"encoding/json"
	"flag"
	"fmt"
	"os"
	"strings"

	"verifharness/internal/core"
)

// registry: property id → streams. Each stream file appends in init().
var registry = map[string][]core.Stream{}

func register(s core.Stream) { registry[s.Property()] = append(registry[s.Property()], s) }

func loadKnown(path string) (map[string]bool, map[string]string) {
	ids, what := map[string]bool{}, map[string]string{}
	f, err := os.Open(path)
	if err != nil {
		return ids, what
	}
	defer f.Close()
	sc := bufio.NewScanner(f)
	sc.Buffer(make([]byte, 1<<20), 1<<20)
	for sc.Scan() {
		line := strings.TrimSpace(sc.Text())
		if line == "" || strings.HasPrefix(line, "#") {
			continue
		}
		var e struct {
			Kind, ID, Property, What string
		}
		if json.Unmarshal([]byte(line), &e) != nil {
			continue
		}
		if e.Kind == "known" {
			ids[e.ID] = true
			what[e.ID] = e.What
		}
	}
	return ids, what
}

func main() {
	prop := flag.String("prop", "", "property id (C01…)")
	seed := flag.Uint64("seed", 1, "VERIF_SEED")
	tier := flag.String("tier", "quick", "quick|thorough")
	driver := flag.String("driver", "/verif/lean/.lake/build/bin/cometdrv", "model driver executable")
	out := flag.String("out", "", "report JSON path")
	replayDir := flag.String("replays", "/verif/replays", "where replay files are written")
	corpus := flag.String("corpus", "/verif/corpus", "corpus directory")
	knownPath := flag.String("known", "/verif/known_findings.jsonl", "known findings file")
	replay := flag.String("replay", "", "re-execute one replay file")
	only := flag.String("stream", "", "restrict to one stream")
	list := flag.Bool("list", false, "list streams")
	boost := flag.Int("boost", 1, "multiply the number of generated cases (used when a tie is broken)")
	inflight := flag.String("inflight", "", "directory for the per-worker files naming the case in execution (crash isolation)")
	flag.Parse()

	if *list {
		for p, ss := range registry {
			for _, s := range ss {
				fmt.Println(p, s.Name())
			}
		}
		return
	}
	known, what := loadKnown(*knownPath)
	rn := &core.Runner{DriverPath: *driver, ReplayDir: *replayDir, Seed: *seed, Tier: *tier,
		Known: known, KnownWhat: what, CorpusDir: *corpus, Boost: *boost, InflightDir: *inflight}
	if *inflight != "" {
		os.MkdirAll(*inflight, 0o755)
	}
	if *replay != "" {
		all := map[string]core.Stream{}
		for p, ss := range registry {
			for _, s := range ss {
				all[p+"/"+s.Name()] = s
			}
		}
		ok, err := rn.Replay(*replay, all)
		if err != nil {
			fmt.Fprintln(os.Stderr, "replay:", err)
			os.Exit(2)
		}
		if !ok {
			os.Exit(1)
		}
		return
	}
	streams := registry[*prop]
	if *only != "" {
		var f []core.Stream
		for _, s := range streams {
			if s.Name() == *only {
				f = append(f, s)
			}
		}
		streams = f
	}
	if len(streams) == 0 {
		fmt.Fprintln(os.Stderr, "no stream for property", *prop)
		os.Exit(2)
	}
	rep, err := rn.Run(*prop, streams)
	if err != nil {
		fmt.Fprintln(os.Stderr, "run:", err)
		os.Exit(2)
	}
	b, _ := json.MarshalIndent(rep, "", " ")
	if *out != "" {
		os.WriteFile(*out, b, 0o644)
	} else {
		os.Stdout.Write(b)
	}
	if len(rep.Violations) > 0 {
		os.Exit(1)
	}
}
