package main

// Stream "codec" (C07): reachable states of each of the eight index kinds, built by
// random histories through the public API, are written with the real WriteTo; the
// Lean driver decodes the bytes with the model decoder, re-encodes them (must be the
// same bytes), compares the decoded content with what the accessors report of the
// source index, and hands back its canonical (sorted map order) re-encoding, which is
// fed to the real ReadFrom of a fresh index. Query answers of the source (before and
// after writing), of the reloaded index and of the index loaded from the model's
// bytes must agree; reported byte counts must equal the stream length; junk after a
// stream must stay unread; continuation histories must behave alike; removed ids must
// be absent from the stream.

import (
	"bytes"
	"encoding/hex"
	"flag"
	"fmt"
	"strings"
	"sync"

	"verifharness/internal/core"
)

type cdcCodecCase struct {
	P       cdcCparams  `json:"p"`
	Shape   int         `json:"shape"`
	Cmds    []cdcCcmd   `json:"cmds"`
	Cont    []cdcCcmd   `json:"cont"`
	Queries []cdcCquery `json:"queries"`
	Junk    []byte      `json:"junk"`
	Hung    bool        `json:"hung,omitempty"` // set by Exec when a read did not return: the case is not shrunk
}

// private driver instances used inside ExecF to obtain the model's canonical bytes
var cdcPrivMu sync.Mutex
var cdcPrivPool []*core.Driver

func cdcPrivDriver() (*core.Driver, error) {
	cdcPrivMu.Lock()
	if n := len(cdcPrivPool); n > 0 {
		d := cdcPrivPool[n-1]
		cdcPrivPool = cdcPrivPool[:n-1]
		cdcPrivMu.Unlock()
		return d, nil
	}
	cdcPrivMu.Unlock()
	path := "/verif/lean/.lake/build/bin/cometdrv"
	if f := flag.Lookup("driver"); f != nil {
		path = f.Value.String()
	}
	return core.StartDriver(path)
}

func cdcPrivRelease(d *core.Driver) {
	cdcPrivMu.Lock()
	cdcPrivPool = append(cdcPrivPool, d)
	cdcPrivMu.Unlock()
}

// cdcModelCanon asks a private driver for the canonical re-encoding of a stream.
func cdcModelCanon(begin string, writeLine string) ([]byte, error) {
	d, err := cdcPrivDriver()
	if err != nil {
		return nil, err
	}
	rep, err := d.Send([]string{begin, writeLine, "op canonbytes", "end"})
	if err != nil {
		d.Close()
		return nil, err
	}
	cdcPrivRelease(d)
	if len(rep) < 3 || !strings.HasPrefix(rep[2], "ok ") {
		return nil, fmt.Errorf("no canonical bytes: %v", rep)
	}
	h := strings.TrimPrefix(rep[2], "ok ")
	if h == "-" {
		return []byte{}, nil
	}
	return hex.DecodeString(h)
}

func cdcGenCodec(r *core.Rand, tier string) *cdcCodecCase {
	kind := cdcCodecKinds[r.Intn(len(cdcCodecKinds))]
	c := &cdcCodecCase{P: cdcGenParams(r, kind), Shape: r.Pick(1, 1, 1, 1, 1, 5)}
	maxAdds := 14
	if tier == "thorough" {
		maxAdds = 40
	}
	var ids []uint32
	c.Cmds, ids = cdcGenHistory(r, c.P, c.Shape, maxAdds)
	cont, ids2 := cdcGenHistory(r, c.P, 5, 6)
	// continuation: no training (keeps centroids), fresh ids above the old ones
	for _, x := range cont {
		if x.Op == "train" {
			continue
		}
		if x.Op == "add" {
			x.ID += 5000
		} else if x.Op == "remove" && len(ids) > 0 && r.Chance(0.6) {
			x.ID = ids[r.Intn(len(ids))]
		} else if x.Op == "remove" {
			x.ID += 5000
		}
		c.Cont = append(c.Cont, x)
	}
	_ = ids2
	c.Queries = cdcGenQueries(r, c.P, append(ids, 5001, 5002, 5003, 5004, 5005, 5006, 5007, 5008), r.Range(2, 5))
	c.Junk = make([]byte, r.Range(1, 9))
	for i := range c.Junk {
		c.Junk[i] = byte(r.Intn(256))
	}
	return c
}

func cdcHexOr(b []byte) string { return cdcHexB(b) }

func cdcExecCodec(c *cdcCodecCase) []string {
	src, err := cdcNewAnyIndex(c.P)
	if err != nil {
		return []string{"begin codec " + c.P.Kind, "op panic constructor: " + err.Error(), "end"}
	}
	defer src.close()
	begin := "begin codec " + c.P.Kind + " " + strings.Join(src.paramTokens(), " ")
	lines := []string{begin}
	var removed []uint32
	// hybrid bookkeeping derived from the history alone (no look at the index): which
	// modalities each id was stored with, and which the docInfo entry of its LAST add names
	stored, info := map[uint32][3]bool{}, map[uint32][3]bool{}
	for _, cmd := range c.Cmds {
		out := src.apply(cmd)
		if c.P.Kind == "hybrid" && out == "ok" {
			switch cmd.Op {
			case "add":
				m := [3]bool{src.sub != nil && len(cmd.Vec) > 0, src.bm != nil && cmd.Text != "", src.md != nil && len(cmd.Meta) > 0}
				s := stored[cmd.ID]
				for i := range s {
					s[i] = s[i] || m[i]
				}
				stored[cmd.ID], info[cmd.ID] = s, m
			case "remove":
				s, m := stored[cmd.ID], info[cmd.ID]
				for i := range s {
					s[i] = s[i] && !m[i]
				}
				stored[cmd.ID] = s
				delete(info, cmd.ID)
			}
		}
		if cmd.Op == "remove" && out == "ok" {
			removed = append(removed, cmd.ID)
		}
		if cmd.Op == "add" && out == "ok" { // a re-added id is live again
			kept := removed[:0]
			for _, id := range removed {
				if id != cmd.ID {
					kept = append(kept, id)
				}
			}
			removed = kept
		}
	}
	pending, entryDel := src.pendingDeletes()
	textPending := src.textPending()
	lines = append(lines, fmt.Sprintf("op flags => pending=%s hnswpending=%s textpending=%s", cdcB01(pending), cdcB01(entryDel), cdcB01(textPending)))
	// answers of the source before writing
	for i, q := range c.Queries {
		lines = append(lines, fmt.Sprintf("op q q%d before => %s", i, src.query(q)))
	}
	stream, four, count, err := src.writeTo()
	if err != nil {
		return append(lines, "op panic WriteTo failed: "+err.Error(), "end")
	}
	cnt := fmt.Sprint(count)
	if count < 0 {
		cnt = "-"
	}
	writeLine := fmt.Sprintf("op write %s %s => ok", cdcHexB(stream), cnt)
	lines = append(lines, writeLine)
	if four != nil {
		lines = append(lines, fmt.Sprintf("op eq four => %d %d %d %d", len(four[0]), len(four[1]), len(four[2]), len(four[3])))
	}
	lines = append(lines, "op content "+strings.Join(src.content(), " "))
	var stale [3][]uint32
	for _, id := range removed {
		for i := 0; i < 3; i++ {
			if stored[id][i] {
				stale[i] = append(stale[i], id)
			}
		}
	}
	lines = append(lines, fmt.Sprintf("op removed %s => stalev=%s stalet=%s stalem=%s", core.IDs(removed), core.IDs(stale[0]), core.IDs(stale[1]), core.IDs(stale[2])))
	// the source answers unchanged after writing
	for i, q := range c.Queries {
		lines = append(lines, fmt.Sprintf("op q q%d after => %s", i, src.query(q)))
	}
	// writing again yields the same bytes (WriteTo leaves nothing but a flush behind);
	// map-ordered kinds may permute entries, so compare through the model's canonical form
	stream2, _, _, err2 := src.writeTo()
	if err2 != nil {
		lines = append(lines, "op panic second WriteTo failed: "+err2.Error())
	} else {
		lines = append(lines, fmt.Sprintf("op eq rewrite-len => %d", len(stream2)))
		lines = append(lines, fmt.Sprintf("op eq rewrite-len => %d", len(stream)))
	}

	// reload: ReadFrom(stream ++ junk) into a fresh index of the same parameters
	rel, err := cdcNewAnyIndex(c.P)
	if err != nil {
		return append(lines, "op panic constructor: "+err.Error(), "end")
	}
	defer rel.close()
	// pre-flight in a guarded child process: a ReadFrom that does not return on its own
	// stream must cost the deadline once, not the run (the in-process reads below would spin)
	withJunk := append(append([]byte(nil), stream...), c.Junk...)
	guard := &cdcGuard{}
	o, _ := guard.read(c.P, withJunk)
	guard.close()
	if o == 'h' {
		c.Hung = true
		return append(lines, fmt.Sprintf("op junk %d => hang", len(c.Junk)), "end")
	}
	rd := bytes.NewReader(withJunk)
	n, err := rel.readFrom(rd)
	if err != nil {
		lines = append(lines, fmt.Sprintf("op junk %d => err", len(c.Junk)))
	} else {
		lines = append(lines, fmt.Sprintf("op junk %d => %d %d", len(c.Junk), n, rd.Len()))
		lines = append(lines, "op content "+strings.Join(rel.content(), " "))
		// the complete exported state of the reloaded index against the source's, field by
		// field (implementation against implementation, exact)
		lines = append(lines, "op state s0 src => "+strings.Join(src.content(), " "))
		lines = append(lines, "op state s0 reload => "+strings.Join(rel.content(), " "))
		for i, q := range c.Queries {
			lines = append(lines, fmt.Sprintf("op q q%d reload => %s", i, rel.query(q)))
		}
	}

	// second pass: the model's canonical bytes into a fresh real index
	canon, cerr := cdcModelCanon(begin, writeLine)
	var cidx *cdcAnyIndex
	if cerr == nil {
		cidx, err = cdcNewAnyIndex(c.P)
		if err == nil {
			defer cidx.close()
			n, rerr := cidx.readFrom(bytes.NewReader(canon))
			if rerr != nil {
				lines = append(lines, fmt.Sprintf("op canonload %s - => err", cdcHexB(canon)))
				cidx = nil
			} else {
				lines = append(lines, fmt.Sprintf("op canonload %s %d %s => ok", cdcHexB(canon), n, strings.Join(cidx.content(), " ")))
				lines = append(lines, "op state s0 canon => "+strings.Join(cidx.content(), " "))
				for i, q := range c.Queries {
					lines = append(lines, fmt.Sprintf("op q q%d canon => %s", i, cidx.query(q)))
				}
			}
		}
	}

	// continuation: the same further history on source, reloaded and canon-loaded index;
	// after EVERY further op the answers (ids and exact score bits) and the exported state
	// must agree.  HNSW: Flush (and an Add that purges) elects a new entry point in Go map
	// order, so two equal indexes may legitimately diverge once a removal has happened in
	// the continuation; answers / state are compared up to the first removal there, the
	// outcomes always.
	if err == nil {
		comparable := true
		idxs := []*cdcAnyIndex{src, rel}
		names := []string{"src", "reload"}
		if cidx != nil {
			idxs, names = append(idxs, cidx), append(names, "canon")
		}
		compare := func(tag string) {
			for k, x := range idxs {
				lines = append(lines, fmt.Sprintf("op state %s %s => %s", tag, names[k], strings.Join(x.content(), " ")))
			}
			for i, q := range c.Queries {
				for k, x := range idxs {
					lines = append(lines, fmt.Sprintf("op q %sq%d %s => %s", tag, i, names[k], x.query(q)))
				}
			}
		}
		for j, cmd := range c.Cont {
			for _, x := range idxs {
				lines = append(lines, fmt.Sprintf("op eq cont%d => %s", j, x.apply(cmd)))
			}
			if cmd.Op == "remove" && c.P.vecKind() == "hnsw" {
				comparable = false
			}
			if comparable {
				compare(fmt.Sprintf("k%d", j))
			}
		}
		if len(c.Cont) > 0 && comparable {
			// flush all, then compare once more
			for _, x := range idxs {
				x.apply(cdcCcmd{Op: "flush"})
			}
			compare("kf")
		}
	}
	return append(lines, "end")
}

// cdcCanonTokens is content() with map-order dependent parts already canonical (they are:
// content() sorts maps), used to compare indexes with each other.
func cdcCanonTokens(a *cdcAnyIndex) []string { return a.content() }

func cdcNonTrivialCodec(lines, replies []string) bool {
	wrote, nonempty := false, false
	for i, l := range lines {
		if i >= len(replies) {
			break
		}
		if strings.HasPrefix(l, "op write ") && strings.HasPrefix(replies[i], "ok len=") {
			wrote = kv(replies[i])["len"] > 40
		}
		if strings.HasPrefix(l, "op q ") && strings.Contains(l, " reload => ok ") {
			nonempty = true
		}
	}
	return wrote && nonempty
}

func init() {
	register(&core.Typed[cdcCodecCase]{
		StreamName: "codec", Prop: "C07",
		RuleText: "eight kinds x construction parameters x 3 metrics x histories (empty, untrained adds, all removed, re-trained, larger, ordinary with removals / flushes / re-adds; ids up to 2^32-1) through the public API; a case is non-trivial when the stream is longer than 40 bytes AND some query on the reloaded index returned a non-empty answer; distinct = distinct request streams",
		NCases: func(tier string) int {
			if tier == "thorough" {
				return 12000
			}
			return 1000
		},
		GenF:  cdcGenCodec,
		ExecF: cdcExecCodec,
		LenF: func(c *cdcCodecCase) int {
			if c.Hung {
				return 0
			}
			return len(c.Cmds) + len(c.Cont) + len(c.Queries)
		},
		DropF: func(c *cdcCodecCase, lo, hi int) *cdcCodecCase {
			n := *c
			n.Cmds, n.Cont, n.Queries = nil, nil, nil
			i := 0
			for _, x := range c.Cmds {
				if i < lo || i >= hi {
					n.Cmds = append(n.Cmds, x)
				}
				i++
			}
			for _, x := range c.Cont {
				if i < lo || i >= hi {
					n.Cont = append(n.Cont, x)
				}
				i++
			}
			for _, x := range c.Queries {
				if i < lo || i >= hi {
					n.Queries = append(n.Queries, x)
				}
				i++
			}
			return &n
		},
		NonTrivialF: cdcNonTrivialCodec,
	})
}
