package main

// Stream "codec" (C07): reachable states of each of the eight index kinds, built by
// random histories through the public API, are written with the real WriteTo; the
// Lean driver decodes the bytes with the model decoder, re-encodes them (must be the
// same bytes), compares the decoded content with what the accessors report of the
// source index, and hands back its canonical (sorted map order) re-encoding, which is
// fed to the real ReadFrom of a fresh index. Query answers of the source (before and
// after writing), of the reloaded index and of the index loaded from the model's
// bytes must agree; reported byte counts must equal the stream length; junk after a
// stream must stay unread; continuation histories must behave alike; removed ids must
// be absent from the stream.

import (
	"bytes"
	"encoding/hex"
	"flag"
	"fmt"
	"strings"
	"sync"
	"sync/atomic"

	"verifharness/internal/core"
)

type cdcCodecCase struct {
	P        cdcCparams  `json:"p"`
	Shape    int         `json:"shape"`
	Cmds     []cdcCcmd   `json:"cmds"`
	Cont     []cdcCcmd   `json:"cont"`
	Queries  []cdcCquery `json:"queries"`
	Junk     []byte      `json:"junk"`
	RSeed    uint64      `json:"rseed,omitempty"` // chooses the readers (codec_readers.go) the reloads go through
	Hung     bool        `json:"hung,omitempty"`
	NoShrink bool        `json:"noshrink,omitempty"` // set by Exec on the later ones of many visibly failing cases  // set by Exec when a read did not return: the case is not shrunk
}

// private driver instances used inside ExecF to obtain the model's canonical bytes
var cdcPrivMu sync.Mutex
var cdcPrivPool []*core.Driver

func cdcPrivDriver() (*core.Driver, error) {
	cdcPrivMu.Lock()
	if n := len(cdcPrivPool); n > 0 {
		d := cdcPrivPool[n-1]
		cdcPrivPool = cdcPrivPool[:n-1]
		cdcPrivMu.Unlock()
		return d, nil
	}
	cdcPrivMu.Unlock()
	path := "/verif/lean/.lake/build/bin/cometdrv"
	if f := flag.Lookup("driver"); f != nil {
		path = f.Value.String()
	}
	return core.StartDriver(path)
}

func cdcPrivRelease(d *core.Driver) {
	cdcPrivMu.Lock()
	cdcPrivPool = append(cdcPrivPool, d)
	cdcPrivMu.Unlock()
}

// cdcModelCanon asks a private driver for the canonical re-encoding of a stream.
func cdcModelCanon(begin string, writeLine string) ([]byte, error) {
	d, err := cdcPrivDriver()
	if err != nil {
		return nil, err
	}
	rep, err := d.Send([]string{begin, writeLine, "op canonbytes", "end"})
	if err != nil {
		d.Close()
		return nil, err
	}
	cdcPrivRelease(d)
	if len(rep) < 3 || !strings.HasPrefix(rep[2], "ok ") {
		return nil, fmt.Errorf("no canonical bytes: %v", rep)
	}
	h := strings.TrimPrefix(rep[2], "ok ")
	if h == "-" {
		return []byte{}, nil
	}
	return hex.DecodeString(h)
}

func cdcGenCodec(r *core.Rand, tier string) *cdcCodecCase {
	kind := cdcCodecKinds[r.Intn(len(cdcCodecKinds))]
	c := &cdcCodecCase{P: cdcGenParams(r, kind), Shape: r.Pick(1, 1, 1, 1, 1, 5)}
	maxAdds := 14
	if tier == "thorough" {
		maxAdds = 40
	}
	var ids []uint32
	c.Cmds, ids = cdcGenHistory(r, c.P, c.Shape, maxAdds)
	hasText := c.P.Kind == "bm25" || (c.P.Kind == "hybrid" && c.P.Txt)
	if hasText && r.Chance(0.012) {
		// one document in which a term occurs more than 65535 times (counts beyond 16 bits)
		w := cdcCodecWords[r.Intn(len(cdcCodecWords))]
		c.Cmds = append(c.Cmds, cdcCcmd{Op: "add", ID: 7777, Text: strings.TrimSpace(strings.Repeat(w+" ", 65536+r.Range(1, 40)))})
		ids = append(ids, 7777)
	}
	snap := cdcCcmd{Op: "snap"}
	// intermediate snapshots: WriteTo in the middle of a history (then the history goes on:
	// WriteTo -> mutate -> WriteTo), now and then twice in a row
	if len(c.Cmds) > 0 && r.Chance(0.35) {
		for k := r.Range(1, 2); k > 0; k-- {
			at := r.Intn(len(c.Cmds) + 1)
			ins := []cdcCcmd{snap}
			if r.Chance(0.25) {
				ins = append(ins, snap)
			}
			c.Cmds = append(c.Cmds[:at], append(ins, c.Cmds[at:]...)...)
		}
	}
	// trainable kinds: a second (and third) Train on other data, WriteTo before and after each
	if vk := c.P.vecKind(); (vk == "ivf" || vk == "pq" || vk == "ivfpq") && r.Chance(0.45) {
		base := uint32(9000)
		for k := r.Range(1, 2); k > 0; k-- {
			if r.Chance(0.85) {
				c.Cmds = append(c.Cmds, snap)
			}
			c.Cmds = append(c.Cmds, cdcCcmd{Op: "train", Seed: r.U64(), N: c.P.trainSize(r)})
			if r.Chance(0.3) {
				c.Cmds = append(c.Cmds, snap)
			}
			more, _ := cdcGenHistory(r, c.P, 1, 4)
			for _, x := range more {
				if x.Op == "add" {
					x.ID = base
					base++
					ids = append(ids, x.ID)
					c.Cmds = append(c.Cmds, x)
				}
			}
			if len(ids) > 0 && r.Chance(0.4) {
				c.Cmds = append(c.Cmds, cdcCcmd{Op: "remove", ID: ids[r.Intn(len(ids))]})
			}
		}
	}
	cont, ids2 := cdcGenHistory(r, c.P, 5, 6)
	// continuation: no training (keeps centroids), fresh ids above the old ones
	for _, x := range cont {
		if x.Op == "train" {
			continue
		}
		if x.Op == "add" {
			x.ID += 5000
		} else if x.Op == "remove" && len(ids) > 0 && r.Chance(0.6) {
			x.ID = ids[r.Intn(len(ids))]
		} else if x.Op == "remove" {
			x.ID += 5000
		}
		c.Cont = append(c.Cont, x)
	}
	_ = ids2
	c.Queries = cdcGenQueries(r, c.P, append(ids, 5001, 5002, 5003, 5004, 5005, 5006, 5007, 5008), r.Range(2, 5))
	c.RSeed = r.U64()
	c.Junk = make([]byte, r.Range(1, 9))
	for i := range c.Junk {
		c.Junk[i] = byte(r.Intn(256))
	}
	return c
}

func cdcHexOr(b []byte) string { return cdcHexB(b) }

// cdcFailSeen counts the executions in which the harness itself saw a failure (a reload
// that was rejected, crashed or hung, a reloaded state that differs from its source). When
// a change of the code makes most cases fail, shrinking every one of them — hundreds of
// re-executions each — costs the run its time limit although only the first 20 violations
// are kept: from the 25th visibly failing execution on the cases are reported unshrunk.
var cdcFailSeen atomic.Int64

func cdcVisiblyFailing(lines []string) bool {
	var ref = map[string]string{}
	for _, l := range lines {
		switch {
		case strings.HasPrefix(l, "op panic"), strings.HasSuffix(l, "=> err"), strings.HasSuffix(l, "=> hang"):
			return true
		case strings.HasPrefix(l, "op state "):
			f := strings.SplitN(l, " ", 5) // op state <label> <phase> => …
			if len(f) == 5 {
				if r, ok := ref[f[2]]; ok && r != f[4] {
					return true
				} else if !ok {
					ref[f[2]] = f[4]
				}
			}
		}
	}
	return false
}

func cdcExecCodec(c *cdcCodecCase) []string {
	lines := cdcExecCodecInner(c)
	if cdcVisiblyFailing(lines) && cdcFailSeen.Add(1) > 25 {
		c.NoShrink = true
	}
	return lines
}

func cdcExecCodecInner(c *cdcCodecCase) []string {
	src, err := cdcNewAnyIndex(c.P)
	if err != nil {
		return []string{"begin codec " + c.P.Kind, "op panic constructor: " + err.Error(), "end"}
	}
	defer src.close()
	begin := "begin codec " + c.P.Kind + " " + strings.Join(src.paramTokens(), " ")
	lines := []string{begin}
	var removed []uint32
	// hybrid bookkeeping derived from the history alone (no look at the index): which
	// modalities each id was stored with, and which the docInfo entry of its LAST add names
	stored, info := map[uint32][3]bool{}, map[uint32][3]bool{}
	nread := 0 // number of reloads so far: each goes through another reader
	nsnap := 0
	for _, cmd := range c.Cmds {
		if cmd.Op == "snap" {
			// an intermediate WriteTo (it flushes the source, like any WriteTo): the stream is
			// judged like the final one, reloaded through a chunking reader and the reloaded
			// index compared (exported state, answers) with its source AT THIS MOMENT
			if nsnap < 6 {
				sl, ok := cdcSnapshot(c, src, nsnap, &nread)
				lines = append(lines, sl...)
				if !ok {
					return append(lines, "end")
				}
				nsnap++
			}
			continue
		}
		out := src.apply(cmd)
		if c.P.Kind == "hybrid" && out == "ok" {
			switch cmd.Op {
			case "add":
				m := [3]bool{src.sub != nil && len(cmd.Vec) > 0, src.bm != nil && cmd.Text != "", src.md != nil && len(cmd.Meta) > 0}
				s := stored[cmd.ID]
				for i := range s {
					s[i] = s[i] || m[i]
				}
				stored[cmd.ID], info[cmd.ID] = s, m
			case "remove":
				s, m := stored[cmd.ID], info[cmd.ID]
				for i := range s {
					s[i] = s[i] && !m[i]
				}
				stored[cmd.ID] = s
				delete(info, cmd.ID)
			}
		}
		if cmd.Op == "remove" && out == "ok" {
			removed = append(removed, cmd.ID)
		}
		if cmd.Op == "add" && out == "ok" { // a re-added id is live again
			kept := removed[:0]
			for _, id := range removed {
				if id != cmd.ID {
					kept = append(kept, id)
				}
			}
			removed = kept
		}
	}
	pending, entryDel := src.pendingDeletes()
	textPending := src.textPending()
	lines = append(lines, fmt.Sprintf("op flags => pending=%s hnswpending=%s textpending=%s", cdcB01(pending), cdcB01(entryDel), cdcB01(textPending)))
	// answers of the source before writing
	for i, q := range c.Queries {
		lines = append(lines, fmt.Sprintf("op q q%d before => %s", i, src.query(q)))
	}
	stream, four, count, err := src.writeTo()
	if err != nil {
		return append(lines, "op panic WriteTo failed: "+err.Error(), "end")
	}
	cnt := fmt.Sprint(count)
	if count < 0 {
		cnt = "-"
	}
	writeLine := fmt.Sprintf("op write %s %s => ok", cdcHexB(stream), cnt)
	lines = append(lines, writeLine)
	if four != nil {
		lines = append(lines, fmt.Sprintf("op eq four => %d %d %d %d", len(four[0]), len(four[1]), len(four[2]), len(four[3])))
	}
	lines = append(lines, "op content "+strings.Join(src.content(), " "))
	var stale [3][]uint32
	for _, id := range removed {
		for i := 0; i < 3; i++ {
			if stored[id][i] {
				stale[i] = append(stale[i], id)
			}
		}
	}
	lines = append(lines, fmt.Sprintf("op removed %s => stalev=%s stalet=%s stalem=%s", core.IDs(removed), core.IDs(stale[0]), core.IDs(stale[1]), core.IDs(stale[2])))
	// the source answers unchanged after writing
	for i, q := range c.Queries {
		lines = append(lines, fmt.Sprintf("op q q%d after => %s", i, src.query(q)))
	}
	// writing again, with no change in between, yields the same stream: byte-identical for
	// the kinds without Go maps, equal up to map order (judged by the driver through the
	// model's canonical form) for the others
	stream2, _, _, err2 := src.writeTo()
	if err2 != nil {
		lines = append(lines, "op panic second WriteTo failed: "+err2.Error())
	} else {
		lines = append(lines, fmt.Sprintf("op rewrite %s => identical=%s", cdcHexB(stream2), cdcB01(bytes.Equal(stream, stream2))))
	}
	bounds, pieces := src.bounds, src.pieces

	// reload: ReadFrom(stream ++ junk) into a fresh index of the same parameters
	rel, err := cdcNewAnyIndex(c.P)
	if err != nil {
		return append(lines, "op panic constructor: "+err.Error(), "end")
	}
	defer rel.close()
	// pre-flight in a guarded child process: a ReadFrom that does not return on its own
	// stream must cost the deadline once, not the run (the in-process reads below would spin)
	withJunk := append(append([]byte(nil), stream...), c.Junk...)
	mode := int((c.RSeed + uint64(nread)) % uint64(len(cdcReaderModes)))
	nread++
	guard := &cdcGuard{}
	o, omsg := guard.readVia(c.P, withJunk, mode, c.RSeed, bounds, pieces)
	guard.close()
	if o == 'h' {
		c.Hung = true
		return append(lines, fmt.Sprintf("op junk %d => hang", len(c.Junk)), "end")
	}
	if o == 'p' {
		// panic or crash (e.g. out of memory) of ReadFrom on its own stream: do not repeat it in-process
		return append(lines, fmt.Sprintf("op panic ReadFrom of its own stream through reader %s: %s", cdcReaderModes[mode], omsg), "end")
	}
	rd := cdcWrapReader(mode, c.RSeed, withJunk, bounds, pieces)
	var n int64
	err = fmt.Errorf("rejected in the pre-flight")
	if o == 'o' { // a rejected read is not repeated in-process (it may have mis-read lengths)
		n, err = rel.readFrom(rd)
	}
	if err != nil {
		lines = append(lines, fmt.Sprintf("op junk %d %s => err", len(c.Junk), cdcReaderModes[mode]))
	} else {
		lines = append(lines, fmt.Sprintf("op junk %d %s => %d %d", len(c.Junk), cdcReaderModes[mode], n, len(withJunk)-rd.n))
		lines = append(lines, "op content "+strings.Join(rel.content(), " "))
		// the complete exported state of the reloaded index against the source's, field by
		// field (implementation against implementation, exact)
		lines = append(lines, "op state s0 src => "+strings.Join(src.content(), " "))
		lines = append(lines, "op state s0 reload => "+strings.Join(rel.content(), " "))
		for i, q := range c.Queries {
			lines = append(lines, fmt.Sprintf("op q q%d reload => %s", i, rel.query(q)))
		}
	}

	// second pass: the model's canonical bytes into a fresh real index
	canon, cerr := cdcModelCanon(begin, writeLine)
	var cidx *cdcAnyIndex
	if cerr == nil {
		cidx, err = cdcNewAnyIndex(c.P)
		if err == nil {
			defer cidx.close()
			cmode := int((c.RSeed + uint64(nread)) % uint64(len(cdcReaderModes)))
			nread++
			// pre-flight in the guarded child (a ReadFrom that mis-reads lengths may ask for gigabytes)
			g2 := &cdcGuard{}
			o2, o2msg := g2.readVia(c.P, canon, cmode, c.RSeed+1, nil, nil)
			g2.close()
			if o2 == 'h' {
				c.Hung = true
				return append(lines, "op junk 0 => hang", "end")
			}
			if o2 == 'p' {
				return append(lines, fmt.Sprintf("op panic ReadFrom of the model's canonical stream through reader %s: %s", cdcReaderModes[cmode], o2msg), "end")
			}
			var n int64
			rerr := fmt.Errorf("rejected in the pre-flight")
			if o2 == 'o' {
				n, rerr = cidx.readFrom(cdcWrapReader(cmode, c.RSeed+1, canon, nil, nil))
			}
			if rerr != nil {
				lines = append(lines, fmt.Sprintf("op canonload %s - => err", cdcHexB(canon)))
				cidx = nil
			} else {
				lines = append(lines, fmt.Sprintf("op canonload %s %d %s => ok", cdcHexB(canon), n, strings.Join(cidx.content(), " ")))
				lines = append(lines, "op state s0 canon => "+strings.Join(cidx.content(), " "))
				for i, q := range c.Queries {
					lines = append(lines, fmt.Sprintf("op q q%d canon => %s", i, cidx.query(q)))
				}
			}
		}
	}

	// continuation: the same further history on source, reloaded and canon-loaded index;
	// after EVERY further op the answers (ids and exact score bits) and the exported state
	// must agree.  HNSW: Flush (and an Add that purges) elects a new entry point in Go map
	// order, so two equal indexes may legitimately diverge once a removal has happened in
	// the continuation; answers / state are compared up to the first removal there, the
	// outcomes always.
	if err == nil {
		comparable := true
		idxs := []*cdcAnyIndex{src, rel}
		names := []string{"src", "reload"}
		if cidx != nil {
			idxs, names = append(idxs, cidx), append(names, "canon")
		}
		compare := func(tag string) {
			for k, x := range idxs {
				lines = append(lines, fmt.Sprintf("op state %s %s => %s", tag, names[k], strings.Join(x.content(), " ")))
			}
			for i, q := range c.Queries {
				for k, x := range idxs {
					lines = append(lines, fmt.Sprintf("op q %sq%d %s => %s", tag, i, names[k], x.query(q)))
				}
			}
		}
		for j, cmd := range c.Cont {
			for _, x := range idxs {
				lines = append(lines, fmt.Sprintf("op eq cont%d => %s", j, x.apply(cmd)))
			}
			if cmd.Op == "remove" && c.P.vecKind() == "hnsw" {
				comparable = false
			}
			if comparable {
				compare(fmt.Sprintf("k%d", j))
			}
		}
		if len(c.Cont) > 0 && comparable {
			// flush all, then compare once more
			for _, x := range idxs {
				x.apply(cdcCcmd{Op: "flush"})
			}
			compare("kf")
		}
	}
	return append(lines, "end")
}

// cdcSnapshot performs an intermediate WriteTo of src and checks it like the final one
// (without the model-bytes pass): stream judged by the driver, second WriteTo in a row,
// reload through a chunking reader with junk behind, exported state and answers of the
// reloaded index against the source at this moment.  ok=false ends the case.
func cdcSnapshot(c *cdcCodecCase, src *cdcAnyIndex, k int, nread *int) (lines []string, ok bool) {
	stream, _, count, err := src.writeTo()
	if err != nil {
		return []string{"op panic WriteTo failed: " + err.Error()}, false
	}
	bounds, pieces := src.bounds, src.pieces
	cnt := fmt.Sprint(count)
	if count < 0 {
		cnt = "-"
	}
	lines = append(lines, fmt.Sprintf("op write %s %s => ok", cdcHexB(stream), cnt))
	lines = append(lines, "op content "+strings.Join(src.content(), " "))
	if stream2, _, _, err2 := src.writeTo(); err2 != nil {
		lines = append(lines, "op panic second WriteTo failed: "+err2.Error())
	} else {
		lines = append(lines, fmt.Sprintf("op rewrite %s => identical=%s", cdcHexB(stream2), cdcB01(bytes.Equal(stream, stream2))))
	}
	withJunk := append(append([]byte(nil), stream...), c.Junk...)
	mode := int((c.RSeed + uint64(*nread)) % uint64(len(cdcReaderModes)))
	*nread++
	guard := &cdcGuard{}
	o, omsg := guard.readVia(c.P, withJunk, mode, c.RSeed+uint64(k), bounds, pieces)
	guard.close()
	if o == 'h' {
		c.Hung = true
		return append(lines, fmt.Sprintf("op junk %d => hang", len(c.Junk))), false
	}
	if o == 'p' {
		return append(lines, fmt.Sprintf("op panic ReadFrom of its own stream through reader %s: %s", cdcReaderModes[mode], omsg)), false
	}
	rel, err := cdcNewAnyIndex(c.P)
	if err != nil {
		return append(lines, "op panic constructor: "+err.Error()), false
	}
	defer rel.close()
	rd := cdcWrapReader(mode, c.RSeed+uint64(k), withJunk, bounds, pieces)
	var n int64
	err = fmt.Errorf("rejected in the pre-flight")
	if o == 'o' {
		n, err = rel.readFrom(rd)
	}
	if err != nil {
		return append(lines, fmt.Sprintf("op junk %d %s => err", len(c.Junk), cdcReaderModes[mode])), true
	}
	lines = append(lines, fmt.Sprintf("op junk %d %s => %d %d", len(c.Junk), cdcReaderModes[mode], n, len(withJunk)-rd.n))
	tag := fmt.Sprintf("snap%d", k)
	lines = append(lines, "op state "+tag+" src => "+strings.Join(src.content(), " "))
	lines = append(lines, "op state "+tag+" reload => "+strings.Join(rel.content(), " "))
	for i, q := range c.Queries {
		lines = append(lines, fmt.Sprintf("op q %sq%d src => %s", tag, i, src.query(q)))
		lines = append(lines, fmt.Sprintf("op q %sq%d reload => %s", tag, i, rel.query(q)))
	}
	return lines, true
}

// cdcCanonTokens is content() with map-order dependent parts already canonical (they are:
// content() sorts maps), used to compare indexes with each other.
func cdcCanonTokens(a *cdcAnyIndex) []string { return a.content() }

func cdcNonTrivialCodec(lines, replies []string) bool {
	wrote, nonempty := false, false
	for i, l := range lines {
		if i >= len(replies) {
			break
		}
		if strings.HasPrefix(l, "op write ") && strings.HasPrefix(replies[i], "ok len=") {
			wrote = kv(replies[i])["len"] > 40
		}
		if strings.HasPrefix(l, "op q ") && strings.Contains(l, " reload => ok ") {
			nonempty = true
		}
	}
	return wrote && nonempty
}

func init() {
	register(&core.Typed[cdcCodecCase]{
		StreamName: "codec", Prop: "C07",
		RuleText: "eight kinds x construction parameters x 3 metrics x histories (empty, untrained adds, all removed, re-trained, larger, ordinary with removals / flushes / re-adds; ids up to 2^32-1) through the public API; a case is non-trivial when the stream is longer than 40 bytes AND some query on the reloaded index returned a non-empty answer; distinct = distinct request streams",
		NCases: func(tier string) int {
			if tier == "thorough" {
				return 12000
			}
			return 1000
		},
		GenF:  cdcGenCodec,
		ExecF: cdcExecCodec,
		LenF: func(c *cdcCodecCase) int {
			if c.Hung || c.NoShrink {
				return 0
			}
			return len(c.Cmds) + len(c.Cont) + len(c.Queries)
		},
		DropF: func(c *cdcCodecCase, lo, hi int) *cdcCodecCase {
			n := *c
			n.Cmds, n.Cont, n.Queries = nil, nil, nil
			i := 0
			for _, x := range c.Cmds {
				if i < lo || i >= hi {
					n.Cmds = append(n.Cmds, x)
				}
				i++
			}
			for _, x := range c.Cont {
				if i < lo || i >= hi {
					n.Cont = append(n.Cont, x)
				}
				i++
			}
			for _, x := range c.Queries {
				if i < lo || i >= hi {
					n.Queries = append(n.Queries, x)
				}
				i++
			}
			return &n
		},
		NonTrivialF: cdcNonTrivialCodec,
	})
}
