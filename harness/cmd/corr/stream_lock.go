package main

// Stream "lock" (C17): histories of Open / Close / public operations on ONE storage
// directory, from up to 8 goroutines of this process plus a second OS process (this
// binary re-executed with the hidden first argument -lock-child), including
//   - racing rounds (all goroutines released by a barrier),
//   - directed schedules through the verifPoint yield points of /repo
//     (newStorageProvider:locked, newStorageProvider:ready, close:closed),
//   - opens that fail at every reachable position: a regular file in place of the
//     directory or of a parent (mkdir), and — in the child process, where resource
//     limits can be set without disturbing the other cases — RLIMIT_NOFILE lowered so
//     that the O_EXCL create / the first / the second ReadDir fails with EMFILE, and
//     RLIMIT_FSIZE=0 so that writing the pid fails with EFBIG.  (chmod is useless here:
//     the harness may run as root.  No file name can make initSegmentCounter fail: parse
//     errors are ignored there; tricky names are still planted as "junk".)
//   - foreign LOCK entries (stale file, a directory named LOCK).
// Every invocation and return is logged in its observed real-time order, together with
// the directory listing at every quiescent point and the LOCK presence seen from the
// background flush / compaction workers; the Lean monitor (Comet/Driver/Lock.lean)
// decides whether SOME interleaving of the model's atomic steps explains the log.

import (
	"bufio"
	"bytes"
	"fmt"
	"io"
	"math"
	"os"
	"os/exec"
	"os/signal"
	"path/filepath"
	"runtime"
	"sort"
	"strconv"
	"strings"
	"sync"
	"sync/atomic"
	"syscall"
	"time"

	comet "github.com/wizenheimer/comet"
	"verifharness/internal/core"
)

const (
	lkChildThread = 8 // logical thread id of the second OS process
	lkThreads     = 9
)

type lkCall struct {
	T    int    `json:"t"`
	Op   string `json:"op"`             // open | close | use
	H    int    `json:"h,omitempty"`    // handle reference: k = the k-th most recently opened handle (mod count); negative = the handle this goroutine opened last in this round
	Kind string `json:"kind,omitempty"` // use: add|addid|remove|train|search|flush
	Inj  string `json:"inj,omitempty"`  // open by the child process: create|writepid|readdir1|readdir2
}

type lkCmd struct {
	Kind  string     `json:"kind"` // seq | race | park | env | misc
	Call  *lkCall    `json:"call,omitempty"`
	Progs [][]lkCall `json:"progs,omitempty"`
	Point string     `json:"point,omitempty"`
	Inner []lkCall   `json:"inner,omitempty"`
	Env   string     `json:"env,omitempty"` // stale-file | stale-dir | unstale | junk | asdir
	Name  string     `json:"name,omitempty"`
	H     int        `json:"h,omitempty"` // misc
}

type lkCase struct {
	Layout string  `json:"layout"` // fresh | existing | nested | file | parentfile
	Small  bool    `json:"small"`  // tiny memtables: Adds rotate, Close's final flush writes segments
	Bg     bool    `json:"bg"`     // tiny flush threshold: the flush worker writes while the store is open
	Cmds   []lkCmd `json:"cmds"`
}

// ---------------------------------------------------------------------------------
// goroutine identity (own id and the id of the goroutine that created this one)

func lkGoids() (self, creator uint64) {
	buf := make([]byte, 1<<16)
	n := runtime.Stack(buf, false)
	b := buf[:n]
	// "goroutine 123 [running]:"
	if bytes.HasPrefix(b, []byte("goroutine ")) {
		rest := b[len("goroutine "):]
		if i := bytes.IndexByte(rest, ' '); i > 0 {
			self, _ = strconv.ParseUint(string(rest[:i]), 10, 64)
		}
	}
	// "created by pkg.fn in goroutine 45"
	if i := bytes.LastIndex(b, []byte(" in goroutine ")); i >= 0 {
		rest := b[i+len(" in goroutine "):]
		j := 0
		for j < len(rest) && rest[j] >= '0' && rest[j] <= '9' {
			j++
		}
		creator, _ = strconv.ParseUint(string(rest[:j]), 10, 64)
	}
	return
}

// ---------------------------------------------------------------------------------
// the process-wide verifPoint handler: dispatches on goroutine identity

type lkHooks struct {
	parkAt  string
	parked  chan struct{}
	resume  chan struct{}
	onPoint map[string]func()
}

type lkWorkerCtx struct {
	base   string
	report func(lockPresent bool)
}

var lkReg = struct {
	sync.Mutex
	byGid     map[uint64]*lkHooks
	byCreator map[uint64]*lkWorkerCtx
}{byGid: map[uint64]*lkHooks{}, byCreator: map[uint64]*lkWorkerCtx{}}

// points passed by the background workers at which LOCK must still be present
var lkWorkerPoints = map[string]bool{
	"flushWorker:final": true, "flushWorker:exit": true, "compactionWorker:exit": true,
	"flush:begin": true, "flush:registered": true, "flushWorker:wake": true, "flushWorker:done": true,
}

var lkHandlerOnce sync.Once

func lkInstallHandler() {
	lkHandlerOnce.Do(func() {
		comet.VerifSetPointHandler(func(name string) {
			isWorkerPoint := lkWorkerPoints[name]
			if !isWorkerPoint && !strings.HasPrefix(name, "newStorageProvider:") && name != "close:closed" {
				return
			}
			self, creator := lkGoids()
			lkReg.Lock()
			hk := lkReg.byGid[self]
			wc := lkReg.byCreator[creator]
			lkReg.Unlock()
			if hk != nil {
				if f := hk.onPoint[name]; f != nil {
					f()
				}
				if hk.parkAt == name {
					close(hk.parked)
					<-hk.resume
				}
				return
			}
			if wc != nil && isWorkerPoint {
				wc.report(lkLockPresent(wc.base))
			}
		})
	})
}

func lkLockPresent(base string) bool {
	_, err := os.Lstat(filepath.Join(base, "LOCK"))
	return err == nil
}

// ---------------------------------------------------------------------------------
// performing calls on the real code (shared by parent and child)

func lkConfig(base string, small, bg bool) *comet.StorageConfig {
	cfg := comet.DefaultStorageConfig(base)
	v, _ := comet.NewFlatIndex(4, comet.Euclidean)
	cfg.VectorIndexTemplate = v
	cfg.TextIndexTemplate = comet.NewBM25SearchIndex()
	cfg.MetadataIndexTemplate = comet.NewRoaringMetadataIndex()
	cfg.FlushThreshold = math.MaxInt64
	cfg.CompactionInterval = time.Hour
	cfg.CompactionThreshold = 1 << 30
	if small {
		cfg.MemtableSizeLimit = 300
	}
	if bg {
		cfg.MemtableSizeLimit = 300
		cfg.FlushThreshold = 500
	}
	return cfg
}

// Results of calls as the monitor sees them: WHAT was called and WHETHER it failed —
//
//	opened | open-err:<class>     closed-ok | close-err:<class>     op-ok | op-err:<class> | op-err-any:<class>
//
// C17 says that certain calls fail, never which error they report, so the monitor (Lock.lean)
// looks at the part before the colon only. <class> is informational: it is guessed from the
// message text (no property constrains it; a reworded message lands in "other") and is shown as
// a flag in the evidence.

func lkOpenClass(err error) string {
	m := err.Error()
	switch {
	case strings.Contains(m, "locked by another process"):
		return "locked"
	case strings.Contains(m, "failed to create base directory"):
		return "e-mkdir"
	case strings.Contains(m, "failed to create lock file"):
		return "e-create"
	case strings.Contains(m, "failed to write lock file"):
		return "e-writepid"
	case strings.Contains(m, "failed to initialize segment counter"):
		return "e-readdir1"
	case strings.Contains(m, "failed to list segments"):
		return "e-readdir2"
	}
	return "other"
}

func lkOpenRes(err error) string {
	if err == nil {
		return "opened"
	}
	return "open-err:" + lkOpenClass(err)
}

func lkCloseRes(err error) string {
	switch {
	case err == nil:
		return "closed-ok"
	case strings.Contains(err.Error(), "already closed"):
		return "close-err:already-closed"
	}
	return "close-err:other"
}

// lkUseRes: an operation on a handle either got past the `closed` test or was refused by it.
// Which of the two a FAILED call was is read off the situation, not off the error's wording:
// every call lkUse makes is valid on an open handle (a well-formed document under a fresh id, a
// flat index that needs no training, a well-formed query, a Flush) and its body cannot fail
// there — measured on every run: a failure on a handle the model says is open is reported —, so a
// failure is the refusal (op-err). The one exception is Remove, whose body fails on an open handle
// whenever the id is not in the active memtable: a failed Remove says nothing about which of the
// two happened (op-err-any; a Remove that succeeds on a closed handle is still caught).
func lkUseRes(kind string, err error) string {
	if err == nil {
		return "op-ok"
	}
	cls := "other"
	if strings.Contains(err.Error(), "storage is closed") {
		cls = "closed"
	}
	if kind == "remove" {
		return "op-err-any:" + cls
	}
	return "op-err:" + cls
}

var lkDocSeq atomic.Uint32

func lkUse(s *comet.PersistentHybridIndex, kind string) (res string, added bool) {
	n := lkDocSeq.Add(1)
	vec := []float32{float32(n%7) + 1, float32(n%5) + 1, float32(n%3) + 1, 1}
	var err error
	switch kind {
	case "add":
		_, err = s.Add(vec, fmt.Sprintf("quick brown fox %d", n), map[string]interface{}{"k": "v"})
		added = err == nil
	case "addid":
		err = s.AddWithID(1000000+n, vec, fmt.Sprintf("lazy dog %d", n), map[string]interface{}{"k": "w"})
		added = err == nil
	case "remove":
		err = s.Remove(1000000 + n - 1)
	case "train":
		err = s.Train([][]float32{vec})
	case "search":
		_, err = s.NewSearch().WithVector(vec).WithK(3).Execute()
	case "flush":
		err = s.Flush()
	default:
		return "other:unknown-kind", false
	}
	return lkUseRes(kind, err), added
}

// lkMisc calls the exported methods that have no closed test, on a closed handle.
func lkMisc(s *comet.PersistentHybridIndex) []string {
	var out []string
	try := func(name string, f func() error) {
		r := "ok"
		func() {
			defer func() {
				if p := recover(); p != nil {
					r = "panic"
				}
			}()
			if err := f(); err != nil {
				r = "err"
			}
		}()
		out = append(out, fmt.Sprintf("op misc %s => %s", name, r))
	}
	try("newsearch", func() error { _ = s.NewSearch().WithK(1).WithText("x"); return nil })
	try("vectorindex", func() error { _ = s.VectorIndex(); return nil })
	try("textindex", func() error { _ = s.TextIndex(); return nil })
	try("metadataindex", func() error { _ = s.MetadataIndex(); return nil })
	try("writeto", func() error { return s.WriteTo(io.Discard, io.Discard, io.Discard, io.Discard) })
	try("readfrom", func() error { _, err := s.ReadFrom(strings.NewReader("")); return err })
	try("triggercompaction", func() error { s.TriggerCompaction(); return nil })
	return out
}

// resource-limit failure injection (child process only)

func lkLowestFreeFd() uint64 {
	fd, err := syscall.Dup(0)
	if err != nil {
		return 3
	}
	syscall.Close(fd)
	return uint64(fd)
}

func lkSetNoFile(cur uint64) (restore func()) {
	var old syscall.Rlimit
	syscall.Getrlimit(syscall.RLIMIT_NOFILE, &old)
	syscall.Setrlimit(syscall.RLIMIT_NOFILE, &syscall.Rlimit{Cur: cur, Max: old.Max})
	return func() { syscall.Setrlimit(syscall.RLIMIT_NOFILE, &old) }
}

func lkSetFsizeZero() (restore func()) {
	var old syscall.Rlimit
	syscall.Getrlimit(syscall.RLIMIT_FSIZE, &old)
	signal.Ignore(syscall.SIGXFSZ)
	syscall.Setrlimit(syscall.RLIMIT_FSIZE, &syscall.Rlimit{Cur: 0, Max: old.Max})
	return func() { syscall.Setrlimit(syscall.RLIMIT_FSIZE, &old) }
}

// lkStartCall runs f on a fresh goroutine whose verifPoints are controlled by hk.
// It returns when f has finished (done closed) or is parked (parked closed).
func lkStartCall(hk *lkHooks, wc *lkWorkerCtx, onPanic func(string), f func()) (done chan struct{}) {
	done = make(chan struct{})
	ready := make(chan struct{})
	go func() {
		self, _ := lkGoids()
		lkReg.Lock()
		lkReg.byGid[self] = hk
		if wc != nil {
			lkReg.byCreator[self] = wc
		}
		lkReg.Unlock()
		close(ready)
		defer func() {
			if p := recover(); p != nil && onPanic != nil {
				onPanic(fmt.Sprint(p))
			}
			lkReg.Lock()
			delete(lkReg.byGid, self)
			lkReg.Unlock()
			close(done)
		}()
		f()
	}()
	<-ready
	return done
}

func lkNewHooks(parkAt string) *lkHooks {
	return &lkHooks{parkAt: parkAt, parked: make(chan struct{}), resume: make(chan struct{}), onPoint: map[string]func(){}}
}

// ---------------------------------------------------------------------------------
// the second OS process

type lkChild struct {
	cmd *exec.Cmd
	in  io.WriteCloser
	out *bufio.Reader
	mu  sync.Mutex
}

func lkStartChild(base string, small, bg bool) (*lkChild, error) {
	cmd := exec.Command(os.Args[0], "-lock-child")
	in, err := cmd.StdinPipe()
	if err != nil {
		return nil, err
	}
	out, err := cmd.StdoutPipe()
	if err != nil {
		return nil, err
	}
	cmd.Stderr = os.Stderr
	if err := cmd.Start(); err != nil {
		return nil, err
	}
	c := &lkChild{cmd: cmd, in: in, out: bufio.NewReader(out)}
	b2s := func(b bool) string {
		if b {
			return "1"
		}
		return "0"
	}
	if _, err := c.roundTrip("cfg "+b2s(small)+" "+b2s(bg)+" "+base, nil); err != nil {
		c.kill()
		return nil, err
	}
	return c, nil
}

// roundTrip sends one command and reads lines until a final one ("ret …" | "parked");
// "ev …" lines are passed to onEv as they arrive.
func (c *lkChild) roundTrip(cmd string, onEv func(string)) (string, error) {
	c.mu.Lock()
	defer c.mu.Unlock()
	if _, err := io.WriteString(c.in, cmd+"\n"); err != nil {
		return "", err
	}
	for {
		line, err := c.out.ReadString('\n')
		if err != nil {
			return "", fmt.Errorf("child died: %w", err)
		}
		line = strings.TrimSpace(line)
		if strings.HasPrefix(line, "ev ") {
			if onEv != nil {
				onEv(line[3:])
			}
			continue
		}
		return line, nil
	}
}

func (c *lkChild) kill() {
	c.in.Close()
	done := make(chan struct{})
	go func() { c.cmd.Wait(); close(done) }()
	select {
	case <-done:
	case <-time.After(5 * time.Second):
		c.cmd.Process.Kill()
		<-done
	}
}

// lkChildMain is the command loop of the re-executed binary.
func lkChildMain() {
	lkInstallHandler()
	in := bufio.NewReader(os.Stdin)
	// comet prints diagnostics with fmt.Printf: keep them out of the protocol channel
	protoFd, err := syscall.Dup(1)
	if err != nil {
		os.Exit(3)
	}
	syscall.Dup2(2, 1)
	out := bufio.NewWriter(os.NewFile(uintptr(protoFd), "proto"))
	var outMu sync.Mutex
	say := func(s string) {
		outMu.Lock()
		out.WriteString(s + "\n")
		out.Flush()
		outMu.Unlock()
	}
	var base string
	var small, bg bool
	var slots []*comet.PersistentHybridIndex
	var pendingDone chan struct{}
	var pendingHk *lkHooks
	var pendingRes *string
	finish := func(done chan struct{}, hk *lkHooks, res *string) {
		select {
		case <-done:
			say("ret " + *res)
		case <-hk.parked:
			pendingDone, pendingHk, pendingRes = done, hk, res
			say("parked")
		}
	}
	for {
		line, err := in.ReadString('\n')
		if err != nil {
			break
		}
		f := strings.Fields(line)
		if len(f) == 0 {
			continue
		}
		switch f[0] {
		case "cfg":
			small, bg = f[1] == "1", f[2] == "1"
			base = strings.TrimSpace(strings.SplitN(line, " ", 4)[3])
			say("ret ok")
		case "open": // open <inj|none> <point|->
			inj, point := f[1], f[2]
			if point == "-" {
				point = ""
			}
			hk := lkNewHooks(point)
			slot := len(slots)
			slots = append(slots, nil)
			wc := &lkWorkerCtx{base: base, report: func(p bool) {
				say(fmt.Sprintf("ev wflush %d %v %d", slot, p, time.Now().UnixNano()))
			}}
			res := new(string)
			var restores []func()
			switch inj {
			case "readdir1":
				hk.onPoint["newStorageProvider:locked"] = func() { restores = append(restores, lkSetNoFile(lkLowestFreeFd())) }
			case "readdir2":
				hk.onPoint["newStorageProvider:ready"] = func() { restores = append(restores, lkSetNoFile(lkLowestFreeFd())) }
			}
			done := lkStartCall(hk, wc, func(p string) { *res = "other:panic:" + strings.ReplaceAll(p, " ", "_") }, func() {
				switch inj {
				case "create":
					restores = append(restores, lkSetNoFile(lkLowestFreeFd()))
				case "writepid":
					restores = append(restores, lkSetFsizeZero())
				}
				s, err := comet.OpenPersistentHybridIndex(lkConfig(base, small, bg))
				for _, r := range restores {
					r()
				}
				if err == nil {
					slots[slot] = s
				}
				*res = lkOpenRes(err) + " " + strconv.Itoa(slot)
			})
			finish(done, hk, res)
		case "close": // close <slot> <point|->
			slot, _ := strconv.Atoi(f[1])
			point := f[2]
			if point == "-" {
				point = ""
			}
			hk := lkNewHooks(point)
			res := new(string)
			done := lkStartCall(hk, nil, func(p string) { *res = "other:panic:" + strings.ReplaceAll(p, " ", "_") },
				func() { *res = lkCloseRes(slots[slot].Close()) })
			finish(done, hk, res)
		case "use": // use <slot> <kind>
			slot, _ := strconv.Atoi(f[1])
			hk := lkNewHooks("")
			res := new(string)
			done := lkStartCall(hk, nil, func(p string) { *res = "other:panic:" + strings.ReplaceAll(p, " ", "_") }, func() {
				r, added := lkUse(slots[slot], f[2])
				*res = r + " " + fmt.Sprint(added)
			})
			finish(done, hk, res)
		case "misc":
			slot, _ := strconv.Atoi(f[1])
			for _, l := range lkMisc(slots[slot]) {
				say("ev " + l)
			}
			say("ret ok")
		case "resume":
			if pendingHk == nil {
				say("ret other:nothing-parked")
				continue
			}
			close(pendingHk.resume)
			<-pendingDone
			say("ret " + *pendingRes)
			pendingDone, pendingHk, pendingRes = nil, nil, nil
		case "quit":
			for _, s := range slots {
				if s != nil {
					s.Close()
				}
			}
			say("ret bye")
			return
		}
	}
}

func init() {
	if len(os.Args) > 1 && os.Args[1] == "-lock-child" {
		lkChildMain()
		os.Exit(0)
	}
}

// ---------------------------------------------------------------------------------
// executing one case

type lkHandle struct {
	owner  [2]int
	local  *comet.PersistentHybridIndex
	slot   int // in the child, when local == nil
	adds   int
	closed bool // a Close on it has returned closed-ok (harness bookkeeping only)
}

type lkRun struct {
	mu        sync.Mutex
	lines     []string
	stamps    []int64 // wall-clock ns of every line (observations made in the child carry the child's own stamp)
	lastStamp int64
	c         *lkCase
	root      string
	base      string
	blocker   string // path of the regular file that makes MkdirAll fail ("" = none)
	handles   []*lkHandle
	invoked   [lkThreads]int
	child     *lkChild
	stale     bool
	failed    string
	noChild   bool
}

func (r *lkRun) emit(s string) int64 {
	r.mu.Lock()
	defer r.mu.Unlock()
	ts := time.Now().UnixNano()
	if ts <= r.lastStamp { // local lines never change their order, whatever the clock does
		ts = r.lastStamp + 1
	}
	r.lastStamp = ts
	r.lines = append(r.lines, s)
	r.stamps = append(r.stamps, ts)
	return ts
}

// emitAt logs an observation made at wall-clock time ts in the other process: it is
// placed where it happened, not where the pipe delivered it.
func (r *lkRun) emitAt(s string, ts int64) {
	r.mu.Lock()
	r.lines = append(r.lines, s)
	r.stamps = append(r.stamps, ts)
	r.mu.Unlock()
}

// ordered returns the lines in the order of their time stamps (stable).
func (r *lkRun) ordered() []string {
	idx := make([]int, len(r.lines))
	for i := range idx {
		idx[i] = i
	}
	sort.SliceStable(idx, func(a, b int) bool { return r.stamps[idx[a]] < r.stamps[idx[b]] })
	out := make([]string, len(idx))
	for i, j := range idx {
		out[i] = r.lines[j]
	}
	return out
}

func (r *lkRun) snapshot() []*lkHandle {
	r.mu.Lock()
	defer r.mu.Unlock()
	return append([]*lkHandle(nil), r.handles...)
}

func (r *lkRun) listing() {
	ents, err := os.ReadDir(r.base)
	if err != nil {
		r.emit("op list => absent")
		return
	}
	lock := "0"
	var names []string
	for _, e := range ents {
		if e.Name() == "LOCK" {
			lock = "1"
			continue
		}
		names = append(names, e.Name())
	}
	sort.Strings(names)
	ns := "-"
	if len(names) > 0 {
		ns = strings.Join(names, ",")
	}
	r.emit("op list => " + lock + " " + ns)
}

func (r *lkRun) ensureChild() *lkChild {
	r.mu.Lock()
	defer r.mu.Unlock()
	if r.child == nil && !r.noChild {
		var c *lkChild
		var err error
		for attempt := 0; attempt < 3 && c == nil; attempt++ {
			if c, err = lkStartChild(r.base, r.c.Small, r.c.Bg); err != nil {
				c = nil
				time.Sleep(time.Duration(100*(attempt+1)) * time.Millisecond)
			}
		}
		if c == nil {
			// not a verdict about /repo: the calls of the second process are left out of this case
			r.noChild = true
			r.lines = append(r.lines, "# second process unavailable: "+strings.ReplaceAll(err.Error(), "\n", " "))
			r.stamps = append(r.stamps, r.lastStamp)
			return nil
		}
		r.child = c
	}
	return r.child
}

// childEvent logs something the other process reported while a command was in flight:
// "wflush <slot> <lockPresent> <ts>" (a background worker's observation, stamped by the
// child's clock, never older than the invocation that delivered it) or an "op misc …" line.
func (r *lkRun) childEvent(ev string, notBefore int64) {
	f := strings.Fields(ev)
	switch {
	case len(f) == 4 && f[0] == "wflush":
		slot, _ := strconv.Atoi(f[1])
		ts, _ := strconv.ParseInt(f[3], 10, 64)
		if ts <= notBefore {
			ts = notBefore + 1
		}
		for _, hh := range r.snapshot() {
			if hh.local == nil && hh.slot == slot {
				flag := "0"
				if f[2] == "true" {
					flag = "1"
				}
				r.emitAt(fmt.Sprintf("op wflush %s => %s", lkOwnerStr(hh.owner), flag), ts)
			}
		}
	case len(f) >= 2 && f[0] == "op" && f[1] == "misc":
		r.emit(ev)
	}
}

func lkOwnerStr(o [2]int) string { return fmt.Sprintf("%d.%d", o[0], o[1]) }

// pick resolves a handle reference against a snapshot; own = handle opened last by this goroutine in this round
func lkPick(ref int, snap []*lkHandle, own *lkHandle) *lkHandle {
	if ref < 0 {
		if own != nil {
			return own
		}
		ref = -ref
	}
	if len(snap) == 0 {
		return own
	}
	return snap[len(snap)-1-ref%len(snap)] // 0 = the handle opened most recently
}

type lkPending struct {
	done   chan struct{}
	hk     *lkHooks // local calls
	t      int
	remote bool
	result func() // emits the ret line (remote parked calls: after resume)
}

// call performs one call of thread t; it returns when the call has returned (nil) or is
// parked at `point` (a pending call that must be resumed).
func (r *lkRun) call(c lkCall, snap []*lkHandle, own **lkHandle, point string, strict bool, busy int) *lkPending {
	t := c.T
	remote := t == lkChildThread
	var h *lkHandle
	if c.Op != "open" {
		var o *lkHandle
		if own != nil {
			o = *own
		}
		h = lkPick(c.H, snap, o)
		if h == nil {
			return nil // no handle to act on: the call is skipped
		}
		if (h.local == nil) != remote {
			// a handle lives in the process that opened it: the call is made there
			if strict {
				return nil // racing round: every goroutine keeps its own identity; the call is skipped
			}
			remote = h.local == nil
			if remote {
				t = lkChildThread
			} else if t == lkChildThread {
				t = h.owner[0]
			}
		}
	}
	if t == busy {
		return nil // that goroutine is parked inside another call
	}
	var ch *lkChild
	if remote {
		if ch = r.ensureChild(); ch == nil {
			return nil
		}
	}
	r.mu.Lock()
	idx := r.invoked[t]
	r.invoked[t]++
	r.mu.Unlock()
	owner := [2]int{t, idx}

	var invLine string
	ptTok := "" // the yield point this goroutine is going to park at is announced with the invocation
	if point != "" {
		ptTok = " " + point
	}
	switch c.Op {
	case "open":
		inj := "none"
		if r.blocker != "" {
			inj = "mkdir"
		} else if remote && c.Inj != "" {
			inj = c.Inj
		}
		invLine = fmt.Sprintf("op inv %d open %s%s => -", t, inj, ptTok)
	case "close":
		invLine = fmt.Sprintf("op inv %d close %s%s => -", t, lkOwnerStr(h.owner), ptTok)
	case "use":
		w := 0
		if c.Kind == "flush" && (r.c.Small || r.c.Bg) {
			w = 1
		}
		invLine = fmt.Sprintf("op inv %d use %s %s %d => -", t, c.Kind, lkOwnerStr(h.owner), w)
	}
	retLine := func(res string) { r.emit(fmt.Sprintf("op ret %d => %s", t, res)) }

	if remote {
		pt := "-"
		if point != "" {
			pt = point
		}
		var cmd string
		switch c.Op {
		case "open":
			inj := "none"
			if r.blocker == "" && c.Inj != "" {
				inj = c.Inj
			}
			cmd = fmt.Sprintf("open %s %s", inj, pt)
		case "close":
			cmd = fmt.Sprintf("close %d %s", h.slot, pt)
		case "use":
			cmd = fmt.Sprintf("use %d %s", h.slot, c.Kind)
		}
		var invStamp int64
		onEv := func(ev string) { r.childEvent(ev, invStamp) }
		var pendingOpen *lkHandle
		if c.Op == "open" {
			pendingOpen = &lkHandle{owner: owner, slot: -1}
		}
		finish := func(reply string) {
			f := strings.Fields(reply)
			if len(f) < 2 || f[0] != "ret" {
				retLine("other:child-protocol:" + strings.ReplaceAll(reply, " ", "_"))
				return
			}
			res := f[1]
			switch c.Op {
			case "open":
				if res == "opened" && len(f) >= 3 {
					pendingOpen.slot, _ = strconv.Atoi(f[2])
					r.mu.Lock()
					r.handles = append(r.handles, pendingOpen)
					r.mu.Unlock()
					if own != nil {
						*own = pendingOpen
					}
				}
			case "close":
				if res == "closed-ok" {
					h.closed = true
				}
			case "use":
				if len(f) >= 3 && f[2] == "true" {
					h.adds++
				}
			}
			retLine(res)
		}
		// worker events of a child open need the slot → owner mapping before the open returns:
		// register the handle record early (slot = index the child will use)
		invStamp = r.emit(invLine)
		reply, err := ch.roundTrip(cmd, onEv)
		if err != nil {
			retLine("other:" + strings.ReplaceAll(err.Error(), " ", "_"))
			return nil
		}
		if reply == "parked" {
			r.emit(fmt.Sprintf("op at %d %s => -", t, point))
			return &lkPending{t: t, remote: true, result: func() {
				r.emit(fmt.Sprintf("op go %d => -", t))
				reply, err := ch.roundTrip("resume", onEv)
				if err != nil {
					retLine("other:" + strings.ReplaceAll(err.Error(), " ", "_"))
					return
				}
				finish(reply)
			}}
		}
		finish(reply)
		return nil
	}

	// local call
	hk := lkNewHooks(point)
	var wc *lkWorkerCtx
	if c.Op == "open" {
		wc = &lkWorkerCtx{base: r.base, report: func(p bool) {
			flag := "0"
			if p {
				flag = "1"
			}
			r.emit(fmt.Sprintf("op wflush %s => %s", lkOwnerStr(owner), flag))
		}}
	}
	done := lkStartCall(hk, wc, func(p string) {
		r.mu.Lock()
		r.failed = fmt.Sprintf("%s by goroutine %d panicked: %s", c.Op, t, p)
		r.mu.Unlock()
	}, func() {
		r.emit(invLine)
		switch c.Op {
		case "open":
			s, err := comet.OpenPersistentHybridIndex(lkConfig(r.base, r.c.Small, r.c.Bg))
			if err == nil {
				nh := &lkHandle{owner: owner, local: s}
				r.mu.Lock()
				r.handles = append(r.handles, nh)
				r.mu.Unlock()
				if own != nil {
					*own = nh
				}
			}
			retLine(lkOpenRes(err))
		case "close":
			res := lkCloseRes(h.local.Close())
			if res == "closed-ok" {
				h.closed = true
			}
			retLine(res)
		case "use":
			res, added := lkUse(h.local, c.Kind)
			if added {
				r.mu.Lock()
				h.adds++
				r.mu.Unlock()
			}
			retLine(res)
		}
	})
	select {
	case <-done:
		return nil
	case <-hk.parked:
		r.emit(fmt.Sprintf("op at %d %s => -", t, point))
		return &lkPending{done: done, hk: hk, t: t, result: func() {
			r.emit(fmt.Sprintf("op go %d => -", t))
			close(hk.resume)
			<-done
		}}
	}
}

func (r *lkRun) env(cmd lkCmd) {
	lockPath := filepath.Join(r.base, "LOCK")
	switch cmd.Env {
	case "stale-file", "stale-dir":
		if r.stale || r.blocker != "" {
			return
		}
		if _, err := os.Lstat(lockPath); err == nil {
			return // a LOCK is present (a store is open): nothing to plant
		}
		if _, err := os.Stat(r.base); err != nil {
			return
		}
		var err error
		if cmd.Env == "stale-file" {
			err = os.WriteFile(lockPath, []byte("99999999\n"), 0o644)
		} else {
			err = os.Mkdir(lockPath, 0o755)
		}
		if err == nil {
			r.stale = true
			r.emit("op env stale => -")
		}
	case "unstale":
		if !r.stale {
			return
		}
		os.RemoveAll(lockPath)
		r.stale = false
		r.emit("op env unstale => -")
	case "junk":
		if r.blocker != "" {
			return
		}
		if _, err := os.Stat(r.base); err != nil {
			return
		}
		p := filepath.Join(r.base, cmd.Name)
		if _, err := os.Lstat(p); err == nil {
			return
		}
		var err error
		if strings.HasSuffix(cmd.Name, ".d") {
			err = os.Mkdir(p, 0o755)
		} else {
			err = os.WriteFile(p, []byte("junk"), 0o644)
		}
		if err == nil {
			r.emit("op env junk " + cmd.Name + " => -")
		}
	case "asdir":
		if r.blocker != "" {
			os.Remove(r.blocker)
			r.blocker = ""
		}
	}
}

// execLock runs the case under a watchdog: a case that is stuck for 45 s is reported as
// such, with a dump of all goroutines for diagnosis, instead of blocking the runner.
func execLock(c *lkCase) []string {
	lkInstallHandler()
	r := &lkRun{c: c}
	finished := make(chan []string, 1)
	go func() {
		defer func() {
			if p := recover(); p != nil {
				r.emit(fmt.Sprintf("op panic harness: %v", p))
				finished <- append(r.ordered(), "end")
			}
		}()
		finished <- execLockBody(r, c)
	}()
	select {
	case lines := <-finished:
		return lines
	case <-time.After(45 * time.Second):
		buf := make([]byte, 1<<22)
		n := runtime.Stack(buf, true)
		dump := filepath.Join(os.TempDir(), fmt.Sprintf("verif-c17-stuck-%d.txt", time.Now().UnixNano()))
		r.mu.Lock()
		lines := append([]string(nil), r.lines...)
		child := r.child
		r.mu.Unlock()
		os.WriteFile(dump, []byte(strings.Join(lines, "\n")+"\n\n"+string(buf[:n])), 0o644)
		if child != nil {
			child.cmd.Process.Kill()
		}
		return append(lines, "op panic hang: a call did not return within 45s (goroutine dump: "+dump+")", "end")
	}
}

func execLockBody(r *lkRun, c *lkCase) []string {
	root, err := os.MkdirTemp("", "verif-c17-")
	if err != nil {
		return []string{"begin lock 9 0 0", "# cannot create a scratch directory: " + err.Error(), "end"}
	}
	r.root = root
	defer os.RemoveAll(root)
	present := "0"
	switch c.Layout {
	case "existing":
		r.base = filepath.Join(root, "store")
		os.Mkdir(r.base, 0o755)
		present = "1"
	case "nested":
		r.base = filepath.Join(root, "a", "b", "store")
	case "file":
		r.base = filepath.Join(root, "store")
		os.WriteFile(r.base, []byte("not a directory"), 0o644)
		r.blocker = r.base
	case "parentfile":
		r.base = filepath.Join(root, "p", "store")
		os.WriteFile(filepath.Join(root, "p"), []byte("not a directory"), 0o644)
		r.blocker = filepath.Join(root, "p")
	default:
		r.base = filepath.Join(root, "store")
	}
	bg := "0"
	if c.Bg {
		bg = "1"
	}
	r.emit(fmt.Sprintf("begin lock %d %s %s", lkThreads, present, bg))
	r.listing()

	for _, cmd := range c.Cmds {
		if r.failed != "" {
			break
		}
		switch cmd.Kind {
		case "seq":
			if cmd.Call != nil {
				r.call(*cmd.Call, r.snapshot(), nil, "", false, -1)
			}
		case "race":
			snap := r.snapshot()
			var wg sync.WaitGroup
			start := make(chan struct{})
			for _, prog := range cmd.Progs {
				wg.Add(1)
				go func(prog []lkCall) {
					defer wg.Done()
					var own *lkHandle
					<-start
					for _, cl := range prog {
						r.call(cl, snap, &own, "", true, -1)
					}
				}(prog)
			}
			close(start)
			wg.Wait()
		case "park":
			if cmd.Call == nil {
				break
			}
			snap := r.snapshot()
			p := r.call(*cmd.Call, snap, nil, cmd.Point, false, -1)
			busy := -1
			if p != nil {
				busy = p.t // the parked goroutine cannot make another call
				r.listing()
			}
			for _, in := range cmd.Inner {
				r.call(in, snap, nil, "", false, busy)
			}
			if p != nil {
				p.result()
			}
		case "env":
			r.env(cmd)
		case "misc":
			snap := r.snapshot()
			if h := lkPick(cmd.H, snap, nil); h != nil && h.closed {
				if h.local != nil {
					for _, l := range lkMisc(h.local) {
						r.emit(l)
					}
				} else if ch := r.ensureChild(); ch != nil {
					ch.roundTrip(fmt.Sprintf("misc %d", h.slot), func(ev string) { r.childEvent(ev, 0) })
				}
			}
		}
		r.listing()
	}
	// epilogue: every handle is closed (checked like any other Close); the LOCK must be gone
	for _, h := range r.snapshot() {
		if !h.closed {
			r.call(lkCall{T: h.owner[0], Op: "close", H: 0}, []*lkHandle{h}, nil, "", false, -1)
		}
	}
	r.listing()
	if r.child != nil {
		r.child.roundTrip("quit", nil)
		r.child.kill()
	}
	if r.failed != "" {
		r.emit("op panic " + r.failed)
	}
	return append(r.ordered(), "end")
}

// ---------------------------------------------------------------------------------
// generation

var lkUseKinds = []string{"add", "addid", "remove", "train", "search", "flush"}
var lkJunk = []string{"hybrid_abc.bin.gz", "x_99999999999999999999.bin", "_", "a_", "hybrid_000007.bin.gz",
	"hybrid_000009.bin.gz.d", "vector_-1.bin", "notes.txt", "hybrid_", "text_000003.bin.gz"}

// lkRef draws a handle reference: mostly the most recent handle
func lkRef(r *core.Rand) int {
	switch r.Pick(6, 2, 1, 1) {
	case 0:
		return 0
	case 1:
		return 1
	case 2:
		return 2
	}
	return r.Intn(6)
}

func genLkCall(r *core.Rand, t int, own bool, addBias bool) lkCall {
	c := lkCall{T: t}
	switch r.Pick(5, 4, 4) {
	case 0:
		c.Op = "open"
		if t == lkChildThread && r.Chance(0.6) {
			c.Inj = []string{"create", "writepid", "readdir1", "readdir2"}[r.Intn(4)]
		}
	case 1:
		c.Op = "close"
		c.H = lkRef(r)
		if own && r.Chance(0.6) {
			c.H = -1 - r.Intn(3)
		}
	case 2:
		c.Op = "use"
		c.Kind = lkUseKinds[r.Intn(len(lkUseKinds))]
		if addBias && r.Chance(0.6) {
			c.Kind = "add"
		}
		c.H = lkRef(r)
		if own && r.Chance(0.5) {
			c.H = -1 - r.Intn(3)
		}
	}
	return c
}

func lkThread(r *core.Rand, nThreads int, childP float64) int {
	if r.Chance(childP) {
		return lkChildThread
	}
	return r.Intn(nThreads)
}

func lkSeq(c lkCall) lkCmd { return lkCmd{Kind: "seq", Call: &c} }

// genLkTemplate: structured openings that make the interesting situations frequent
func genLkTemplate(r *core.Rand, c *lkCase, nThreads int) {
	a, b := r.Intn(nThreads), r.Intn(8)
	switch r.Intn(7) {
	case 6: // close storms: all goroutines close the same handle at once, several times over
		for m := r.Range(2, 6); m > 0; m-- {
			c.Cmds = append(c.Cmds, lkSeq(lkCall{T: a, Op: "open"}))
			var progs [][]lkCall
			for j := 0; j < 8; j++ {
				progs = append(progs, []lkCall{{T: j, Op: "close", H: 0}})
			}
			c.Cmds = append(c.Cmds, lkCmd{Kind: "race", Progs: progs})
		}
	case 0: // open, second open refused, close, reopen, double close, use after close
		c.Cmds = append(c.Cmds, lkSeq(lkCall{T: a, Op: "open"}), lkSeq(lkCall{T: b, Op: "open"}),
			lkSeq(lkCall{T: b, Op: "use", Kind: "add", H: 0}), lkSeq(lkCall{T: a, Op: "close", H: 0}),
			lkSeq(lkCall{T: b, Op: "open"}), lkSeq(lkCall{T: a, Op: "close", H: 1}),
			lkSeq(lkCall{T: a, Op: "use", Kind: lkUseKinds[r.Intn(6)], H: 1}), lkCmd{Kind: "misc", H: 1})
	case 1: // every failure position in the second process, each followed by a successful open + close
		for _, inj := range []string{"create", "writepid", "readdir1", "readdir2"} {
			if r.Chance(0.8) {
				c.Cmds = append(c.Cmds, lkSeq(lkCall{T: lkChildThread, Op: "open", Inj: inj}))
			}
			if r.Chance(0.5) {
				c.Cmds = append(c.Cmds, lkSeq(lkCall{T: a, Op: "open"}), lkSeq(lkCall{T: a, Op: "close", H: 0}))
			}
		}
	case 2: // operations and opens while a Close is between its test-and-set and its release
		c.Cmds = append(c.Cmds, lkSeq(lkCall{T: a, Op: "open"}))
		for m := r.Range(0, 4); m > 0; m-- {
			c.Cmds = append(c.Cmds, lkSeq(lkCall{T: b, Op: "use", Kind: "add", H: 0}))
		}
		inner := []lkCall{{T: (a + 1) % 8, Op: "use", Kind: lkUseKinds[r.Intn(6)], H: 0}, {T: (a + 2) % 8, Op: "open"},
			{T: (a + 3) % 8, Op: "close", H: 0}, {T: lkChildThread, Op: "open"}}
		c.Cmds = append(c.Cmds, lkCmd{Kind: "park", Call: &lkCall{T: a, Op: "close", H: 0}, Point: "close:closed", Inner: inner[:r.Range(1, 4)]},
			lkSeq(lkCall{T: b, Op: "open"}))
	case 3: // a goroutine holds the LOCK inside Open while others try
		pt := []string{"newStorageProvider:locked", "newStorageProvider:ready"}[r.Intn(2)]
		who := a
		if r.Chance(0.3) {
			who = lkChildThread
		}
		c.Cmds = append(c.Cmds, lkCmd{Kind: "park", Call: &lkCall{T: who, Op: "open"}, Point: pt,
			Inner: []lkCall{{T: (a + 1) % 8, Op: "open"}, {T: lkChildThread, Op: "open", Inj: "readdir1"}}[:r.Range(1, 2)]},
			lkSeq(lkCall{T: b, Op: "open"}), lkSeq(lkCall{T: b, Op: "close", H: 0}), lkSeq(lkCall{T: b, Op: "open"}))
	case 4: // racing opens from all goroutines and the second process, twice
		for round := 0; round < 2; round++ {
			var progs [][]lkCall
			k := r.Range(2, 8)
			for j := 0; j < k; j++ {
				progs = append(progs, []lkCall{{T: j, Op: "open"}})
			}
			if r.Chance(0.6) {
				progs = append(progs, []lkCall{{T: lkChildThread, Op: "open"}})
			}
			c.Cmds = append(c.Cmds, lkCmd{Kind: "race", Progs: progs})
			if round == 0 {
				c.Cmds = append(c.Cmds, lkSeq(lkCall{T: a, Op: "close", H: 0}))
			}
		}
	case 5: // operations racing with Close, and two racing Closes
		c.Cmds = append(c.Cmds, lkSeq(lkCall{T: a, Op: "open"}))
		var progs [][]lkCall
		k := r.Range(2, 7)
		for j := 0; j < k; j++ {
			kind := lkUseKinds[r.Intn(6)]
			progs = append(progs, []lkCall{{T: j, Op: "use", Kind: kind, H: 0}, {T: j, Op: "use", Kind: "add", H: 0}})
		}
		progs = append(progs, []lkCall{{T: 7, Op: "close", H: 0}})
		if r.Chance(0.5) {
			progs[0] = []lkCall{{T: 0, Op: "close", H: 0}, {T: 0, Op: "open"}}
		}
		c.Cmds = append(c.Cmds, lkCmd{Kind: "race", Progs: progs})
	}
}

func genLock(r *core.Rand, tier string) *lkCase {
	c := &lkCase{}
	c.Layout = []string{"fresh", "fresh", "fresh", "existing", "existing", "nested", "file", "parentfile"}[r.Intn(8)]
	c.Small = r.Chance(0.4)
	c.Bg = r.Chance(0.15)
	nThreads := r.Range(1, 8)
	childP := 0.0
	if r.Chance(0.5) {
		childP = 0.35
	}
	if (c.Layout == "file" || c.Layout == "parentfile") && r.Chance(0.7) {
		// some opens fail at mkdir, then the obstacle disappears
		for m := r.Range(1, 3); m > 0; m-- {
			c.Cmds = append(c.Cmds, lkSeq(lkCall{T: lkThread(r, nThreads, childP), Op: "open"}))
		}
		c.Cmds = append(c.Cmds, lkCmd{Kind: "env", Env: "asdir"})
	}
	if r.Chance(0.45) {
		genLkTemplate(r, c, nThreads)
	}
	maxCmds := 12
	if tier == "thorough" {
		maxCmds = 30
	}
	n := r.Range(1, maxCmds)
	for i := 0; i < n; i++ {
		switch r.Pick(10, 3, 3, 2, 1) {
		case 0:
			c.Cmds = append(c.Cmds, lkSeq(genLkCall(r, lkThread(r, nThreads, childP), false, c.Small)))
		case 1: // racing round: distinct threads, short programs
			k := r.Range(2, 8)
			perm := r.Perm(8)
			var progs [][]lkCall
			allOpen := r.Chance(0.4)
			for j := 0; j < k; j++ {
				t := perm[j]
				if j == 0 && childP > 0 && r.Chance(0.5) {
					t = lkChildThread
				}
				var prog []lkCall
				if allOpen {
					prog = append(prog, lkCall{T: t, Op: "open"})
					if r.Chance(0.4) {
						prog = append(prog, lkCall{T: t, Op: "close", H: -1})
					}
				} else {
					for m := r.Range(1, 3); m > 0; m-- {
						prog = append(prog, genLkCall(r, t, true, c.Small))
					}
				}
				progs = append(progs, prog)
			}
			c.Cmds = append(c.Cmds, lkCmd{Kind: "race", Progs: progs})
		case 2: // directed schedule
			t := lkThread(r, nThreads, childP)
			cmd := lkCmd{Kind: "park"}
			if r.Chance(0.5) {
				cmd.Call = &lkCall{T: t, Op: "close", H: lkRef(r)}
				cmd.Point = "close:closed"
			} else {
				cmd.Call = &lkCall{T: t, Op: "open"}
				if t == lkChildThread && r.Chance(0.4) {
					cmd.Call.Inj = []string{"readdir1", "readdir2"}[r.Intn(2)]
				}
				cmd.Point = []string{"newStorageProvider:locked", "newStorageProvider:ready"}[r.Intn(2)]
			}
			for m := r.Range(1, 4); m > 0; m-- {
				in := genLkCall(r, lkThread(r, 8, childP), false, false)
				if cmd.Point == "close:closed" && in.Op != "open" {
					in.H = cmd.Call.H // aim at the handle being closed
				}
				cmd.Inner = append(cmd.Inner, in)
			}
			c.Cmds = append(c.Cmds, cmd)
		case 3:
			e := lkCmd{Kind: "env"}
			switch r.Pick(2, 2, 3, 3, 2) {
			case 0:
				e.Env = "stale-file"
			case 1:
				e.Env = "stale-dir"
			case 2:
				e.Env = "unstale"
			case 3:
				e.Env = "junk"
				e.Name = lkJunk[r.Intn(len(lkJunk))]
			case 4:
				e.Env = "asdir"
			}
			c.Cmds = append(c.Cmds, e)
		case 4:
			c.Cmds = append(c.Cmds, lkCmd{Kind: "misc", H: lkRef(r)})
		}
	}
	return c
}

func nonTrivialLock(lines, replies []string) bool {
	opened, interesting := false, false
	for i, rp := range replies {
		if i >= len(lines) || !strings.HasPrefix(rp, "ok") {
			continue
		}
		if strings.Contains(rp, " opened=1") {
			opened = true
		}
		for _, k := range []string{" locked=1", " injfail=1", " reopen=1", " uac=1", " dblclose=1"} {
			if strings.Contains(rp, k) {
				interesting = true
			}
		}
	}
	return opened && interesting
}

func init() {
	register(&core.Typed[lkCase]{
		StreamName: "lock", Prop: "C17",
		RuleText: "histories of Open / Close / Add / AddWithID / Remove / Train / Search / Flush on one directory from 1..8 goroutines plus a second OS process (fresh, existing, nested directory; a regular file in place of the directory or of a parent; foreign LOCK file / LOCK directory; junk file names; child-process opens failing at create / pid write / first / second ReadDir via RLIMIT_NOFILE / RLIMIT_FSIZE), racing rounds behind a barrier, goroutines parked at newStorageProvider:locked / :ready / close:closed while others call, LOCK presence observed from the background workers, the listing after every command; a case is non-trivial when some open succeeded AND (some open got the locked error OR an injected failure was hit OR a directory was reopened after a Close OR an operation hit a closed handle OR a second Close was made); distinct = distinct request streams",
		NCases: func(tier string) int {
			if tier == "thorough" {
				return 60000
			}
			return 2000
		},
		GenF:  genLock,
		ExecF: execLock,
		LenF:  func(c *lkCase) int { return len(c.Cmds) },
		DropF: func(c *lkCase, lo, hi int) *lkCase {
			n := &lkCase{Layout: c.Layout, Small: c.Small, Bg: c.Bg}
			n.Cmds = append(n.Cmds, c.Cmds[:lo]...)
			n.Cmds = append(n.Cmds, c.Cmds[hi:]...)
			return n
		},
		NonTrivialF: nonTrivialLock,
	})
}
