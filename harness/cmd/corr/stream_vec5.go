package main

// Stream "vec5" (C02): one Add / Remove / Flush history applied to a flat, an HNSW, an IVF,
// a PQ and an IVFPQ index side by side, with single-query searches (k, threshold, id
// restriction, nprobes / efSearch overrides), node-id queries next to the equivalent
// stored-vector query, multi-query searches next to their per-query answers, and searches
// before / after Flush for the exhaustive kinds.

import (
	"fmt"
	"math"
	"strings"

	comet "github.com/wizenheimer/comet"
	"verifharness/internal/core"
)

type v5Cmd struct {
	Op      string     `json:"op"` // add | remove | flush | search | node | multi | flushinv
	ID      uint32     `json:"id,omitempty"`
	IDs     []uint32   `json:"ids,omitempty"`
	Vec     []uint32   `json:"vec,omitempty"`
	Qs      [][]uint32 `json:"qs,omitempty"`
	K       int        `json:"k,omitempty"`
	ThrMode int        `json:"thr_mode,omitempty"`
	R       int        `json:"r,omitempty"`
	Filter  []uint32   `json:"filter,omitempty"`
	NProbes int        `json:"nprobes,omitempty"`
	Ef      int        `json:"ef,omitempty"`
	Agg     string     `json:"agg,omitempty"`
}

type v5Case struct {
	Dim    int        `json:"dim"`
	Metric string     `json:"metric"`
	NList  int        `json:"nlist"`
	PQM    int        `json:"pqm"`
	NBits  int        `json:"nbits"`
	HM     int        `json:"hm"`
	Train  [][]uint32 `json:"train"`
	Cmds   []v5Cmd
}

var v5Kinds = []string{"flat", "hnsw", "ivf", "pq", "ivfpq"}

func genVec5(r *core.Rand, tier string) *v5Case {
	c := &v5Case{Metric: metrics[r.Intn(3)]}
	c.PQM = r.Range(1, 2)
	c.Dim = c.PQM * r.Range(1, 4)
	c.NBits = r.Range(1, 4)
	c.NList = r.Range(1, 5)
	c.HM = r.Range(2, 8)
	ntrain := max(10*c.NList, 1<<c.NBits) + r.Intn(30)
	lattice := r.Chance(0.35)
	var pool [][]float32
	for i := 0; i < ntrain; i++ {
		v := genVec(r, c.Dim, pool, lattice)
		nz := false
		for _, x := range v {
			if x != 0 {
				nz = true
			}
		}
		if !nz {
			v[0] = 1
		}
		pool = append(pool, v)
		c.Train = append(c.Train, core.Bits(v))
	}
	pool = nil
	maxOps := 40
	if tier == "thorough" {
		maxOps = 150
	}
	nops := r.Range(2, maxOps)
	var ids []uint32
	liveSet := map[uint32]bool{}
	var gone []uint32
	next := uint32(1)
	searchArgs := func(cmd *v5Cmd) {
		n := len(ids)
		cmd.K = []int{r.Range(-2, 0), r.Range(1, max(1, n)), n + r.Range(0, 2), r.Range(1, 3)}[r.Intn(4)]
		cmd.ThrMode = r.Pick(5, 3, 2)
		cmd.R = r.Intn(max(1, n))
		switch r.Pick(5, 3, 2) {
		case 1:
			for _, id := range ids {
				if r.Chance(0.5) {
					cmd.Filter = append(cmd.Filter, id)
				}
			}
		case 2:
			for _, id := range ids {
				if r.Chance(0.4) {
					cmd.Filter = append(cmd.Filter, id)
				}
			}
			cmd.Filter = append(cmd.Filter, next+9)
		}
		cmd.NProbes = []int{-1, 0, 1, c.NList, c.NList + 1}[r.Intn(5)]
		cmd.Ef = []int{0, c.HM, 4*n + 1}[r.Intn(3)]
	}
	for i := 0; i < nops; i++ {
		switch r.Pick(10, 4, 1, 5, 2, 2, 1, 2) {
		case 0:
			v := genVec(r, c.Dim, pool, lattice)
			if r.Chance(0.02) {
				v = append(v, 1)
			}
			if r.Chance(0.03) {
				for j := range v {
					v[j] = 0
				}
			}
			id := next
			if len(gone) > 0 && r.Chance(0.12) {
				j := r.Intn(len(gone))
				id = gone[j]
				gone = append(gone[:j], gone[j+1:]...)
			} else {
				next++
				ids = append(ids, id)
			}
			ok := len(v) == c.Dim
			if ok && c.Metric == "cosine" {
				ok = false
				for _, x := range v {
					if x != 0 {
						ok = true
					}
				}
			}
			if ok {
				liveSet[id] = true
				pool = append(pool, v)
			} else if !liveSet[id] {
				gone = append(gone, id)
			}
			c.Cmds = append(c.Cmds, v5Cmd{Op: "add", ID: id, Vec: core.Bits(v)})
		case 1:
			var id uint32
			if len(ids) > 0 && r.Chance(0.85) {
				id = ids[r.Intn(len(ids))]
			} else {
				id = next + uint32(r.Intn(5))
			}
			if liveSet[id] {
				delete(liveSet, id)
				gone = append(gone, id)
			}
			c.Cmds = append(c.Cmds, v5Cmd{Op: "remove", ID: id})
		case 2:
			c.Cmds = append(c.Cmds, v5Cmd{Op: "flush"})
		case 3:
			cmd := v5Cmd{Op: "search", Qs: [][]uint32{core.Bits(genVec(r, c.Dim, pool, lattice))}}
			if r.Chance(0.02) {
				cmd.Qs[0] = append(cmd.Qs[0], math.Float32bits(1))
			}
			searchArgs(&cmd)
			c.Cmds = append(c.Cmds, cmd)
		case 4:
			cmd := v5Cmd{Op: "node"}
			if len(ids) > 0 && r.Chance(0.9) {
				cmd.ID = ids[r.Intn(len(ids))]
			} else {
				cmd.ID = next + 3
			}
			searchArgs(&cmd)
			c.Cmds = append(c.Cmds, cmd)
		case 5:
			cmd := v5Cmd{Op: "multi", Agg: []string{"sum", "max", "mean"}[r.Intn(3)]}
			for j := r.Range(2, 4); j > 0; j-- {
				cmd.Qs = append(cmd.Qs, core.Bits(genVec(r, c.Dim, pool, lattice)))
			}
			searchArgs(&cmd)
			cmd.ThrMode = 0
			c.Cmds = append(c.Cmds, cmd)
		case 7:
			// several node ids in one search: repeats and non-insertion order included
			cmd := v5Cmd{Op: "mnode", Agg: []string{"sum", "max", "mean"}[r.Intn(3)]}
			for j := r.Range(2, 4); j > 0 && len(ids) > 0; j-- {
				cmd.IDs = append(cmd.IDs, ids[r.Intn(len(ids))])
			}
			if len(cmd.IDs) > 1 && r.Chance(0.4) {
				cmd.IDs[len(cmd.IDs)-1] = cmd.IDs[0]
			}
			if r.Chance(0.4) {
				cmd.Qs = append(cmd.Qs, core.Bits(genVec(r, c.Dim, pool, lattice)))
			}
			searchArgs(&cmd)
			cmd.ThrMode = 0
			if len(cmd.IDs) > 0 {
				c.Cmds = append(c.Cmds, cmd)
			}
		case 6:
			cmd := v5Cmd{Op: "flushinv", Qs: [][]uint32{core.Bits(genVec(r, c.Dim, pool, lattice))}}
			searchArgs(&cmd)
			c.Cmds = append(c.Cmds, cmd)
		}
	}
	return c
}

func zeroSafe(v []float32) []float32 { return append([]float32(nil), v...) }

func execVec5(c *v5Case) []string {
	lines := []string{fmt.Sprintf("begin vec5 %d %s", c.Dim, c.Metric)}
	dk := comet.DistanceKind(c.Metric)
	flat, e1 := comet.NewFlatIndex(c.Dim, dk)
	hnsw, e2 := comet.NewHNSWIndex(c.Dim, dk, c.HM, 4*c.HM+8, 4*c.HM+8)
	ivf, e3 := comet.NewIVFIndex(c.Dim, c.NList, dk)
	pq, e4 := comet.NewPQIndex(c.Dim, dk, c.PQM, c.NBits)
	ivfpq, e5 := comet.NewIVFPQIndex(c.Dim, dk, c.NList, c.PQM, c.NBits)
	for _, e := range []error{e1, e2, e3, e4, e5} {
		if e != nil {
			return append(lines, "op panic constructor: "+e.Error(), "end")
		}
	}
	idx := map[string]comet.VectorIndex{"flat": flat, "hnsw": hnsw, "ivf": ivf, "pq": pq, "ivfpq": ivfpq}
	for _, kind := range v5Kinds {
		tr := make([]comet.VectorNode, len(c.Train))
		for i, t := range c.Train {
			// training nodes numbered far from the documents, or 0..n-1 / 1..n like documents
			tid := uint32(900000 + i)
			switch len(c.Train) % 3 {
			case 1:
				tid = uint32(i)
			case 2:
				tid = uint32(i + 1)
			}
			tr[i] = *comet.NewVectorNodeWithID(tid, core.FromBits(t))
		}
		if err := idx[kind].Train(tr); err != nil {
			return append(lines, fmt.Sprintf("op panic train %s: %v", kind, err), "end")
		}
	}
	dist, _ := comet.NewDistance(dk)
	raw := map[uint32][]float32{} // the raw vector last added successfully under an id
	outcomes := func(f func(kind string) error) string {
		parts := make([]string, len(v5Kinds))
		for i, k := range v5Kinds {
			parts[i] = k + ":" + vecErr(f(k))
		}
		return strings.Join(parts, " ")
	}
	build := func(kind string, cmd v5Cmd, thr float32, queries [][]float32, nodes []uint32, agg string) comet.VectorSearch {
		s := idx[kind].NewSearch().WithK(cmd.K).WithThreshold(thr)
		if len(queries) > 0 {
			qs := make([][]float32, len(queries))
			for i, q := range queries {
				qs[i] = zeroSafe(q)
			}
			s = s.WithQuery(qs...)
		}
		if len(nodes) > 0 {
			s = s.WithNode(nodes...)
		}
		if len(cmd.Filter) > 0 {
			s = s.WithDocumentIDs(cmd.Filter...)
		}
		if cmd.NProbes != -1 {
			s = s.WithNProbes(cmd.NProbes)
		}
		if cmd.Ef != 0 {
			s = s.WithEfSearch(cmd.Ef)
		}
		if agg != "" {
			s = s.WithScoreAggregation(comet.ScoreAggregationKind(agg))
		}
		return s
	}
	search := func(kind string, cmd v5Cmd, thr float32, queries [][]float32, nodes []uint32, agg string) ([]comet.VectorResult, error) {
		return build(kind, cmd, thr, queries, nodes, agg).Execute()
	}
	outTok := func(res []comet.VectorResult, err error) string {
		if err != nil {
			return "err " + vecErr(err)
		}
		return hitsLine(res)
	}
	threshold := func(cmd v5Cmd, q []float32) float32 {
		if cmd.ThrMode == 0 || len(q) != c.Dim {
			return 0
		}
		probe, err := flat.NewSearch().WithQuery(zeroSafe(q)).WithK(0).Execute()
		if err != nil || len(probe) == 0 {
			return 0
		}
		i := cmd.R % len(probe)
		thr := probe[i].GetScore()
		if cmd.ThrMode == 2 && i+1 < len(probe) {
			thr = (probe[i].GetScore() + probe[i+1].GetScore()) / 2
		}
		return thr
	}
	// search objects that were built with WithNode(id) and executed once are kept and executed
	// AGAIN after the next Remove / re-Add of that id: a search object must not remember what
	// an earlier Execute resolved (the vector of a node id, its liveness)
	type staleNode struct {
		s   map[string]comet.VectorSearch
		cmd v5Cmd
	}
	stale := map[uint32]*staleNode{}
	nodeVTok := func(kind string, cmd v5Cmd, id uint32) string {
		vtok := "ok"
		if rv, ok := raw[id]; ok {
			stored, perr := dist.Preprocess(zeroSafe(rv))
			if perr == nil {
				vres, verr := search(kind, cmd, 0, [][]float32{stored}, nil, "")
				vtok = outTok(vres, verr)
			}
		}
		return vtok
	}
	replayStale := func(id uint32) {
		st := stale[id]
		if st == nil {
			return
		}
		for _, kind := range v5Kinds {
			nres, nerr := st.s[kind].Execute()
			lines = append(lines, fmt.Sprintf("op node %s %d %s %s %d ; %s ; %s => ok", kind, st.cmd.K, core.Hex32(0), core.IDs(st.cmd.Filter), id, outTok(nres, nerr), nodeVTok(kind, st.cmd, id)))
		}
	}
	var deferred []func()
	nsearch := 0
	runDeferred := func() {
		d := deferred
		deferred = nil
		for _, f := range d {
			f()
		}
	}
	for _, cmd := range c.Cmds {
		switch cmd.Op {
		case "add":
			v := core.FromBits(cmd.Vec)
			var firstErr error
			first := true
			out := outcomes(func(kind string) error {
				err := idx[kind].Add(*comet.NewVectorNodeWithID(cmd.ID, zeroSafe(v)))
				if first {
					firstErr, first = err, false
				}
				return err
			})
			if firstErr == nil {
				raw[cmd.ID] = v
			}
			lines = append(lines, fmt.Sprintf("op add %d %s => %s", cmd.ID, core.VecHex(v), out))
			replayStale(cmd.ID)
			runDeferred()
		case "remove":
			// Remove goes by id: the node may carry no vector, a far-away one, or the stored one
			var rmVec []float32
			switch cmd.ID % 3 {
			case 1:
				rmVec = make([]float32, c.Dim)
				for i := range rmVec {
					rmVec[i] = float32(1000 * (i%2*2 - 1))
				}
			case 2:
				if rv, ok := raw[cmd.ID]; ok {
					rmVec = append([]float32(nil), rv...)
				}
			}
			out := outcomes(func(kind string) error {
				return idx[kind].Remove(*comet.NewVectorNodeWithID(cmd.ID, append([]float32(nil), rmVec...)))
			})
			lines = append(lines, fmt.Sprintf("op remove %d => %s", cmd.ID, out))
			replayStale(cmd.ID)
			runDeferred()
		case "flush":
			out := outcomes(func(kind string) error { return idx[kind].Flush() })
			lines = append(lines, "op flush => "+out)
			runDeferred()
		case "search":
			q := core.FromBits(cmd.Qs[0])
			thr := threshold(cmd, q)
			nsearch++
			for _, kind := range v5Kinds {
				if nsearch%3 == 0 {
					// the search object is built now and executed only after the next Add / Remove /
					// Flush: it must answer from the index as it is when Execute runs
					sb, cmd, thr, q, kind := build(kind, cmd, thr, [][]float32{q}, nil, ""), cmd, thr, q, kind
					deferred = append(deferred, func() {
						res, err := sb.Execute()
						lines = append(lines, fmt.Sprintf("op search %s %d %s %s q %s => %s", kind, cmd.K, core.Hex32(thr), core.IDs(cmd.Filter), core.VecHex(q), outTok(res, err)))
					})
					continue
				}
				res, err := search(kind, cmd, thr, [][]float32{q}, nil, "")
				lines = append(lines, fmt.Sprintf("op search %s %d %s %s q %s => %s", kind, cmd.K, core.Hex32(thr), core.IDs(cmd.Filter), core.VecHex(q), outTok(res, err)))
			}
		case "node":
			for _, kind := range v5Kinds {
				nres, nerr := search(kind, cmd, 0, nil, []uint32{cmd.ID}, "")
				vtok := "ok"
				if rv, ok := raw[cmd.ID]; ok {
					stored, perr := dist.Preprocess(zeroSafe(rv))
					if perr == nil {
						vres, verr := search(kind, cmd, 0, [][]float32{stored}, nil, "")
						vtok = outTok(vres, verr)
					}
				}
				lines = append(lines, fmt.Sprintf("op node %s %d %s %s %d ; %s ; %s => ok", kind, cmd.K, core.Hex32(0), core.IDs(cmd.Filter), cmd.ID, outTok(nres, nerr), vtok))
			}
			if stale[cmd.ID] == nil {
				st := &staleNode{s: map[string]comet.VectorSearch{}, cmd: cmd}
				for _, kind := range v5Kinds {
					st.s[kind] = build(kind, cmd, 0, nil, []uint32{cmd.ID}, "")
					_, _ = st.s[kind].Execute()
				}
				stale[cmd.ID] = st
			} else {
				replayStale(cmd.ID)
			}
		case "mnode":
			var extra [][]float32
			for _, q := range cmd.Qs {
				extra = append(extra, core.FromBits(q))
			}
			for _, kind := range v5Kinds {
				nres, nerr := search(kind, cmd, 0, extra, cmd.IDs, cmd.Agg)
				vtok := "ok"
				all := true
				qs := append([][]float32(nil), extra...) // Execute puts direct queries first, then the nodes' vectors in request order
				for _, id := range cmd.IDs {
					rv, ok := raw[id]
					if !ok {
						all = false
						break
					}
					stored, perr := dist.Preprocess(zeroSafe(rv))
					if perr != nil {
						all = false
						break
					}
					qs = append(qs, stored)
				}
				if all {
					vres, verr := search(kind, cmd, 0, qs, nil, cmd.Agg)
					vtok = outTok(vres, verr)
				}
				lines = append(lines, fmt.Sprintf("op node %s %d %s %s %s ; %s ; %s => ok", kind, cmd.K, core.Hex32(0), core.IDs(cmd.Filter), core.IDs(cmd.IDs), outTok(nres, nerr), vtok))
			}
		case "multi":
			qs := make([][]float32, len(cmd.Qs))
			for i, q := range cmd.Qs {
				qs[i] = core.FromBits(q)
			}
			for _, kind := range v5Kinds {
				res, err := search(kind, cmd, 0, qs, nil, cmd.Agg)
				if err != nil {
					continue // e.g. a zero query vector under cosine: covered by the single-query searches
				}
				var per []string
				bad := false
				for _, q := range qs {
					r1, e1 := search(kind, cmd, 0, [][]float32{q}, nil, "")
					if e1 != nil {
						bad = true
						break
					}
					per = append(per, hitsLine(r1))
				}
				if bad {
					continue
				}
				lines = append(lines, fmt.Sprintf("op multi %s %d %s ; %s => %s", kind, cmd.K, cmd.Agg, strings.Join(per, " ; "), hitsLine(res)))
			}
		case "flushinv":
			q := core.FromBits(cmd.Qs[0])
			thr := threshold(cmd, q)
			full := cmd
			full.NProbes = c.NList // exhaustive: probe every cluster
			before := map[string]string{}
			for _, kind := range []string{"flat", "ivf", "pq", "ivfpq"} {
				res, err := search(kind, full, thr, [][]float32{q}, nil, "")
				if err == nil {
					before[kind] = hitsLine(res)
				}
			}
			out := outcomes(func(kind string) error { return idx[kind].Flush() })
			lines = append(lines, "op flush => "+out)
			for _, kind := range []string{"flat", "ivf", "pq", "ivfpq"} {
				res, err := search(kind, full, thr, [][]float32{q}, nil, "")
				if b, ok := before[kind]; ok && err == nil {
					lines = append(lines, fmt.Sprintf("op flushinv %s ; %s ; %s => ok", kind, b, hitsLine(res)))
				}
			}
		}
	}
	runDeferred()
	return append(lines, "end")
}

func nonTrivialVec5(lines, replies []string) bool {
	removed, found := false, false
	for i, r := range replies {
		if strings.Contains(r, "removed=1") {
			removed = true
		}
		if i < len(lines) && strings.HasPrefix(r, "ok n=") && !strings.HasPrefix(r, "ok n=0") {
			found = true
		}
	}
	return removed && found
}

func init() {
	register(&core.Typed[v5Case]{
		StreamName: "vec5", Prop: "C02",
		RuleText: "one Add/Remove/Flush history (distinct ids, re-adds after removal, Gaussian / lattice / duplicate / near-tie vectors, 3 metrics, random M / ef / nlist / PQ M / nbits<=4) applied to flat, HNSW, IVF, PQ, IVFPQ side by side; single-query searches over k in Z, data-derived thresholds, id restrictions, nprobes and efSearch overrides; node-id queries next to the stored-vector query; multi-query searches (2-4 queries x sum/max/mean) next to their per-query answers; searches before/after Flush for the exhaustive kinds; non-trivial = a removal succeeded AND some search returned hits; distinct = distinct request streams",
		NCases: func(tier string) int {
			if tier == "thorough" {
				return 15000
			}
			return 250
		},
		GenF:  genVec5,
		ExecF: execVec5,
		LenF:  func(c *v5Case) int { return len(c.Cmds) },
		DropF: func(c *v5Case, lo, hi int) *v5Case {
			n := *c
			n.Cmds = append(append([]v5Cmd(nil), c.Cmds[:lo]...), c.Cmds[hi:]...)
			return &n
		},
		NonTrivialF: nonTrivialVec5,
	})
}
