package main

// Shared executor of the persistent-store streams "restart" (C09), "store" (C08) and
// "crash" (C10): interprets a command list against the real PersistentHybridIndex.
//
// Background work is made deterministic through the verifPoint yield points of
// storage*.go: the flush worker and the compaction worker are parked at the
// boundaries of their lock-delimited regions and take a step only when a `bg` command
// says so; the segment goroutines of a search are serialised (one at a time) and what
// each of them did (cache hit / loaded segment N / getIndex failed) is recorded, so
// that the Lean driver can replay exactly the same interleaving on the model.
//
// The yield-point handler of comet is process-global while cases run in parallel: the
// installed handler dispatches on the calling goroutine — the executor goroutine of a
// case registers itself, and a goroutine not seen before (a worker started by Open, a
// segment goroutine started by Execute) is attributed to the case whose executor
// goroutine created it ("created by … in goroutine N" of its own stack trace).

import (
	"bytes"
	"compress/gzip"
	"fmt"
	"io"
	"os"
	"path/filepath"
	"runtime"
	"sort"
	"strconv"
	"strings"
	"sync"
	"time"

	comet "github.com/wizenheimer/comet"
)

type stCmd struct {
	Op string `json:"op"` // open add addid remove flush rotate evict trigger search bg close state ls
	// add/addid: which modalities the document carries; N varies the payload sizes
	V bool `json:"v,omitempty"`
	T bool `json:"t,omitempty"`
	M bool `json:"m,omitempty"`
	N int  `json:"n,omitempty"`
	// remove: Ref = ordinal of the add command whose document is removed (-1 = an id never added)
	Ref int `json:"ref,omitempty"`
	// search: vec | txt | md | mdg (metadata filter GROUPS only) | mdgf (groups + filters)
	Q string `json:"q,omitempty"`
	// search: 0 = k far larger than the store; 1 = k = size of the last answer of this
	// modality (exactly "large enough"); 2 = that + 1
	K int `json:"k,omitempty"`
	// badadd: 1 = unsupported metadata value type, 2 = wrong vector dimension, 3 = zero vector
	// under cosine; X = through AddWithID
	Bad int  `json:"bad,omitempty"`
	X   bool `json:"x,omitempty"`
	// addid: 1 = the boundary id 0, 2 = math.MaxUint32
	Sp int `json:"sp,omitempty"`
	// osearch: a probe with search options, answered by the store AND by the reference
	// in-memory hybrid index
	O *stOpt `json:"o,omitempty"`
	// add/addid: Far > 0 scales the vector by 10^Far — distances to the probe vector then fall into
	// well separated groups (what autocut reacts to)
	Far int `json:"far,omitempty"`
	// addmany: Cnt documents through Add, one after the other (big cases)
	Cnt int `json:"cnt,omitempty"`
	// readd: AddWithID of the id acknowledged by add command Ref (an id handed out by Add, or an
	// explicit one), with the same modalities and new content — after a Remove of it, or while live
	// imagenow (crash stream): the process dies here, between two calls; bg with W = "fi": the flush
	// worker runs the first half of flushMemtable (id, os.Create ×n) and stays parked there
	// bg: which worker takes one step: "f" | "c"
	W string `json:"w,omitempty"`
}

// stOpt: the options of an `osearch` probe.
type stOpt struct {
	Mode string `json:"mode"`          // vec | vt (vector + text)
	Thr  int    `json:"thr,omitempty"` // 0 none; 1 = exactly the distance of the reference's hit R; 2 = midpoint of hits R, R+1
	R    int    `json:"r,omitempty"`
	Agg  string `json:"agg,omitempty"` // sum | max | mean
	Cut  int    `json:"cut,omitempty"` // autocut parameter (> 0)
	Np   int    `json:"np,omitempty"`  // ivf: 1 = all lists, 2 = one list
	Ef   int    `json:"ef,omitempty"`  // hnsw: efSearch
	Fus  string `json:"fus,omitempty"` // fusion kind for vt
	Via  bool   `json:"via,omitempty"` // true: WithFusion(NewFusion(kind, nil)); false: WithFusionKind(kind)
	KX   bool   `json:"kx,omitempty"`  // k = exactly the size of the reference's answer
	Tok  bool   `json:"tok,omitempty"` // vt: query a document-specific token too
}

type stCase struct {
	Vec      string  `json:"vec"` // none | flat | hnsw | ivf
	Dir      int     `json:"dir,omitempty"` // index into storeDirNames: how the base directory is called
	Cosine   bool    `json:"cosine,omitempty"`
	Text     bool    `json:"text"`
	Meta     bool    `json:"meta"`
	Dim      int     `json:"dim"`
	Limit    int64   `json:"limit"`
	FlushThr int64   `json:"flush_thr"`
	CompThr  int     `json:"comp_thr"`
	Cmds     []stCmd `json:"cmds"`
	// crash stream: index of the victim command and the image budget
	Victim    int `json:"victim,omitempty"`
	MaxImages int `json:"max_images,omitempty"`
}

var (
	schedReg     sync.Map // goroutine id → *hookSched
	dispatchOnce sync.Once
)

func curGoid() uint64 {
	var buf [64]byte
	n := runtime.Stack(buf[:], false)
	// "goroutine 123 [running]:"
	f := strings.Fields(string(buf[:n]))
	if len(f) >= 2 {
		if id, err := strconv.ParseUint(f[1], 10, 64); err == nil {
			return id
		}
	}
	return 0
}

func parentGoid() uint64 {
	buf := make([]byte, 1<<16)
	n := runtime.Stack(buf, false)
	s := string(buf[:n])
	i := strings.LastIndex(s, " in goroutine ")
	if i < 0 {
		return 0
	}
	rest := s[i+len(" in goroutine "):]
	j := 0
	for j < len(rest) && rest[j] >= '0' && rest[j] <= '9' {
		j++
	}
	id, _ := strconv.ParseUint(rest[:j], 10, 64)
	return id
}

func dispatchPoint(name string) {
	g := curGoid()
	if h, ok := schedReg.Load(g); ok {
		h.(*hookSched).handle(name)
		return
	}
	if h, ok := schedReg.Load(parentGoid()); ok {
		schedReg.Store(g, h)
		h.(*hookSched).handle(name)
	}
}

const explicitIDBase = uint32(4000000000)

// ---------------------------------------------------------------- scheduler

type workerSt struct {
	where   string // "" = idle in its select; "running"; otherwise the point it is parked at
	resume  chan struct{}
	ev      chan string
	pending bool // a signal is buffered in the worker's channel
}

type turnRec struct {
	loading   bool
	loadingID string // id of the segment whose ReadFrom was entered in this turn
	before    map[uint64]bool
}

type hookSched struct {
	mu      sync.Mutex
	free    bool
	fw, cw  workerSt
	segTok  chan struct{}
	cur     *turnRec
	turns   []string
	loads   int
	freeLog []string
	snap    func(point string)
	fwInner string // when set: the released flush worker parks at this point inside flushMemtable
	store   *comet.PersistentHybridIndex
	problem string
}

func newSched() *hookSched {
	h := &hookSched{segTok: make(chan struct{}, 1)}
	h.segTok <- struct{}{}
	h.fw.ev = make(chan string, 16)
	h.cw.ev = make(chan string, 16)
	return h
}

func (h *hookSched) park(w *workerSt, where string) {
	h.mu.Lock()
	if h.free {
		h.freeLog = append(h.freeLog, where)
		h.mu.Unlock()
		return
	}
	w.where = where
	ch := make(chan struct{})
	w.resume = ch
	h.mu.Unlock()
	w.ev <- where
	<-ch
}

func (h *hookSched) cachedSet() map[uint64]bool {
	m := map[uint64]bool{}
	if h.store == nil {
		return m
	}
	for _, s := range h.store.VerifState().Segments {
		if s.Cached {
			m[s.ID] = true
		}
	}
	return m
}

func (h *hookSched) endTurn(kind string) {
	h.mu.Lock()
	cur := h.cur
	h.cur = nil
	h.mu.Unlock()
	t := kind
	if kind == "f" && cur != nil && cur.loading {
		t = "f" + cur.loadingID
	}
	if kind == "end" {
		t = "h"
		if cur != nil {
			for id := range h.cachedSet() {
				if !cur.before[id] {
					t = fmt.Sprintf("l%d", id)
				}
			}
		}
	}
	h.mu.Lock()
	h.turns = append(h.turns, t)
	h.mu.Unlock()
	h.segTok <- struct{}{}
}

func (h *hookSched) handle(name string) {
	if strings.HasPrefix(name, "flush:") {
		h.mu.Lock()
		hit := h.fw.where == "running" && h.fwInner != "" && name == h.fwInner && !h.free
		if hit {
			h.fwInner = ""
		}
		h.mu.Unlock()
		if hit {
			h.park(&h.fw, "inner")
			return
		}
	}
	switch name {
	case "flushWorker:wake":
		h.park(&h.fw, "wake")
	case "flushWorker:done":
		h.mu.Lock()
		free := h.free
		h.fw.where = ""
		h.mu.Unlock()
		if !free {
			h.fw.ev <- "done"
		}
	case "flushWorker:final", "flushWorker:exit":
		h.mu.Lock()
		h.freeLog = append(h.freeLog, name)
		h.mu.Unlock()
	case "flushMemtables:next", "flushMemtables:flushed":
		h.mu.Lock()
		byWorker := h.fw.where == "running"
		inFinal := h.free
		ctr := uint64(0)
		h.mu.Unlock()
		if byWorker {
			h.park(&h.fw, strings.TrimPrefix(name, "flushMemtables:"))
		} else if inFinal {
			if h.store != nil {
				ctr = h.store.VerifState().SegmentCounter
			}
			h.mu.Lock()
			h.freeLog = append(h.freeLog, fmt.Sprintf("%s=%d", name, ctr))
			h.mu.Unlock()
		}
	case "compactionWorker:wake", "compactionWorker:tick":
		h.park(&h.cw, "wake")
	case "compactionWorker:done":
		h.mu.Lock()
		free := h.free
		h.cw.where = ""
		h.mu.Unlock()
		if !free {
			h.cw.ev <- "done"
		}
	case "compactionWorker:exit":
		h.mu.Lock()
		h.freeLog = append(h.freeLog, name)
		h.mu.Unlock()
	case "compact:load", "compact:write", "compact:swap":
		h.park(&h.cw, strings.TrimPrefix(name, "compact:"))
	case "search:segment:begin":
		<-h.segTok
		before := h.cachedSet()
		h.mu.Lock()
		h.cur = &turnRec{before: before}
		h.mu.Unlock()
	case "search:segment:end":
		h.endTurn("end")
	case "search:segment:loadfail":
		h.endTurn("f")
	case "search:segment:searchfail":
		h.endTurn("e")
	case "getIndex:before-ReadFrom":
		id := ""
		if h.store != nil {
			if l := h.store.VerifLoadingSegments(); len(l) == 1 {
				id = fmt.Sprint(l[0])
			}
		}
		h.mu.Lock()
		h.loads++
		if h.cur != nil {
			h.cur.loading = true
			h.cur.loadingID = id
		}
		h.mu.Unlock()
	default:
		if h.snap != nil && (strings.HasPrefix(name, "flush:") || strings.HasPrefix(name, "segwrite:") ||
			strings.HasPrefix(name, "compact:swap:") || strings.HasPrefix(name, "deleteSegment:") || name == "compact:done") {
			h.snap(name)
		}
	}
}

// waitEv waits for the next notification of a worker.
func waitEv(w *workerSt) (string, bool) {
	select {
	case e := <-w.ev:
		return e, true
	case <-time.After(20 * time.Second):
		return "", false
	}
}

// ---------------------------------------------------------------- executor

type stExec struct {
	c       *stCase
	stream  string
	lines   []string
	dir     string
	h       *hookSched
	store   *comet.PersistentHybridIndex
	adds    []uint32 // ids acknowledged, by ordinal of the add command
	addOK   []bool
	addCmd  []stCmd // the modalities of each add command (for readd)
	root    string  // the case's scratch directory
	lastN   map[string]int // size of the last answer per modality
	ref     comet.HybridSearchIndex // reference: one in-memory hybrid index fed the same acknowledged adds / removes
	lastTok string
	noRef   bool
	nAdd    int
	nlist   int
	fullLen map[string]int // crash: plaintext length of the complete version of a file
	nextExp uint32
	// streams "store" and "restart": the store's search objects are executed at once, at once and
	// again after the next operation that changes the store (add, remove, flush, rotation, eviction,
	// compaction trigger, a worker step), or only after it (rexec.go); what is still waiting when
	// the store is closed is executed before the Close
	rexOn bool
	rex   rexQueue
}

// schedule puts the execution of an already built search object on the case's schedule.
func (e *stExec) schedule(exec func()) {
	if e.rexOn {
		e.rex.next(exec)
	} else {
		exec()
	}
}

func (e *stExec) emit(format string, a ...any) { e.lines = append(e.lines, fmt.Sprintf(format, a...)) }

func stB01(b bool) int {
	if b {
		return 1
	}
	return 0
}

func (e *stExec) docVector(n int) []float32 {
	v := make([]float32, e.c.Dim)
	for i := range v {
		v[i] = float32((n*7+i*3)%11 + 1)
	}
	return v
}

func docText(n int) string {
	return fmt.Sprintf("w tok%d", n) + strings.Repeat(" pad", n%3)
}

func docMeta(n int) map[string]interface{} {
	m := map[string]interface{}{"c": "y", "n": n}
	if n%2 == 1 {
		m["odd"] = true
	}
	return m
}

func (e *stExec) trainingSet() [][]float32 {
	var out [][]float32
	for i := 0; i < 24; i++ {
		out = append(out, e.docVector(i*5+1))
	}
	return out
}

// templates builds fresh index instances of the case's kinds. An IVF template is returned
// UNTRAINED when viaStore is set: the store's own Train is called after Open.
func (e *stExec) templates(viaStore bool) (comet.VectorIndex, comet.TextIndex, comet.MetadataIndex, error) {
	var v comet.VectorIndex
	var t comet.TextIndex
	var m comet.MetadataIndex
	metric := comet.Euclidean
	if e.c.Cosine {
		metric = comet.Cosine
	}
	switch e.c.Vec {
	case "flat":
		x, err := comet.NewFlatIndex(e.c.Dim, metric)
		if err != nil {
			return nil, nil, nil, err
		}
		v = x
	case "hnsw":
		mm, efc, efs := comet.DefaultHNSWConfig()
		x, err := comet.NewHNSWIndex(e.c.Dim, metric, mm, efc, efs)
		if err != nil {
			return nil, nil, nil, err
		}
		v = x
	case "ivf":
		e.nlist = 2
		x, err := comet.NewIVFIndex(e.c.Dim, e.nlist, metric)
		if err != nil {
			return nil, nil, nil, err
		}
		// the same training set for every session (and for the reference index)
		if !viaStore {
			var train []comet.VectorNode
			for i, tv := range e.trainingSet() {
				train = append(train, *comet.NewVectorNodeWithID(uint32(i), tv))
			}
			if err := x.Train(train); err != nil {
				return nil, nil, nil, err
			}
		}
		v = x
	}
	if e.c.Text {
		t = comet.NewBM25SearchIndex()
	}
	if e.c.Meta {
		m = comet.NewRoaringMetadataIndex()
	}
	return v, t, m, nil
}

// storeErr names the outcome of a store call: "ok", or the CLASS of the error. The class is
// guessed from the message text, which no property constrains, and is informational only: the
// driver compares success against failure (Proto.lean, sameOutcome) and shows the class as a
// histogrammed flag. A reworded message lands in "other" and is still "the call failed".
func storeErr(err error) string {
	switch {
	case err == nil:
		return "ok"
	case strings.Contains(err.Error(), "already closed"):
		return "already"
	case strings.Contains(err.Error(), "storage is closed"):
		return "closed"
	case strings.Contains(err.Error(), "locked by another process"):
		return "locked"
	case strings.Contains(err.Error(), "failed to remove from vector index") && strings.Contains(err.Error(), "already deleted"):
		return "vecdeleted"
	case strings.Contains(err.Error(), "failed to remove from vector index"):
		return "vecnotfound"
	case strings.Contains(err.Error(), "not found"):
		return "notfound"
	case strings.Contains(err.Error(), "no vector index configured"), strings.Contains(err.Error(), "no text index configured"),
		strings.Contains(err.Error(), "no metadata index configured"):
		return "noindex"
	default:
		return "other"
	}
}

func (e *stExec) open() {
	v, t, m, err := e.templates(true)
	if err != nil {
		e.emit("op panic templates: %v", err)
		return
	}
	if e.ref == nil && !e.noRef {
		rv, rt, rm, err := e.templates(false)
		if err != nil {
			e.emit("op panic reference templates: %v", err)
			return
		}
		e.ref = comet.NewHybridSearchIndex(rv, rt, rm)
	}
	cfg := comet.DefaultStorageConfig(e.dir)
	cfg.MemtableSizeLimit = e.c.Limit
	cfg.FlushThreshold = e.c.FlushThr
	cfg.CompactionThreshold = e.c.CompThr
	cfg.CompactionInterval = 100 * time.Hour
	cfg.VectorIndexTemplate, cfg.TextIndexTemplate, cfg.MetadataIndexTemplate = v, t, m
	st, err := comet.OpenPersistentHybridIndex(cfg)
	if err != nil {
		e.emit("op open => %s", storeErr(err))
		return
	}
	if e.store != nil {
		// a second successful open of the same directory while the first is open: C17's business;
		// report it, close the intruder
		e.emit("op open => ok")
		st.Close()
		return
	}
	// IVF: trained through the store's own Train (same training set as the reference), before
	// anything is added or searched; the accessors must hand back the configured templates
	if e.c.Vec == "ivf" {
		if err := st.Train(e.trainingSet()); err != nil {
			e.emit("op panic store.Train: %v", err)
		}
	}
	if (v != nil && st.VectorIndex() != v) || (t != nil && st.TextIndex() != t) || (m != nil && st.MetadataIndex() != m) {
		e.emit("op panic store accessors do not return the configured templates")
	}
	e.store = st
	e.h.mu.Lock()
	e.h.store = st
	e.h.free = false
	e.h.freeLog = nil
	e.h.fw.where, e.h.fw.pending = "", false
	e.h.cw.where, e.h.cw.pending = "", false
	e.h.mu.Unlock()
	e.emit("op open => ok")
}

// isIdle must be sampled BEFORE the operation that may signal the worker.
func (e *stExec) isIdle(w *workerSt) bool {
	e.h.mu.Lock()
	defer e.h.mu.Unlock()
	return w.where == ""
}

// signalled: a signal was sent to worker w, which was idle (blocked in its select) or not
// when the signal was sent.
func (e *stExec) signalled(w *workerSt, wasIdle bool, wakeName string) {
	if !wasIdle {
		w.pending = true
		return
	}
	e.awaitWake(w, wakeName)
}

func (e *stExec) awaitWake(w *workerSt, wakeName string) {
	ev, ok := waitEv(w)
	if !ok || ev != "wake" {
		e.emit("op panic worker did not wake (%s, got %q)", wakeName, ev)
		return
	}
	e.emit("op bg %s => woken", wakeName)
}

// stepWorker releases a parked worker until its next yield point.
func (e *stExec) stepWorker(flush bool) bool {
	w := &e.h.cw
	if flush {
		w = &e.h.fw
	}
	e.h.mu.Lock()
	where := w.where
	if where == "" || where == "running" {
		e.h.mu.Unlock()
		return false
	}
	w.where = "running"
	ch := w.resume
	e.h.mu.Unlock()
	var step string
	switch {
	case flush && where == "wake":
		step = "flist"
	case flush && where == "next":
		step = "fwrite"
	case flush && where == "flushed":
		step = "fremove"
	case flush && where == "inner":
		step = "ffill" // the second half of flushMemtable (only reached in muted clean-up)
	case !flush && where == "wake":
		step = "clist"
	case !flush && where == "load":
		step = "cload"
	case !flush && where == "write":
		step = "cwrite"
	case !flush && where == "swap":
		step = "cswap"
	}
	close(ch)
	ev, ok := waitEv(w)
	if !ok {
		e.emit("op panic worker stuck after %s", step)
		return false
	}
	now := ev
	if ev == "done" {
		now = "idle"
	}
	extra := ""
	if step == "fwrite" || step == "cwrite" {
		if now != "idle" {
			extra = fmt.Sprintf(" seg=%d", e.store.VerifState().SegmentCounter)
		}
	}
	e.emit("op bg %s => %s%s", step, now, extra)
	if ev == "done" && w.pending {
		w.pending = false
		if flush {
			e.awaitWake(w, "fwake")
		} else {
			e.awaitWake(w, "cwake")
		}
	}
	return true
}

// innerPoint: the yield point of flushMemtable right after its last os.Create, before WriteTo.
func (e *stExec) innerPoint() string {
	switch {
	case e.c.Meta:
		return "flush:created:metadata"
	case e.c.Text:
		return "flush:created:text"
	case e.c.Vec != "none" && e.c.Vec != "":
		return "flush:created:vector"
	}
	return "flush:created:hybrid"
}

// stepWorkerInner releases the flush worker, parked before flushMemtable, only as far as the
// point after the os.Create calls: segment id taken, files created and empty, nothing written.
func (e *stExec) stepWorkerInner() bool {
	w := &e.h.fw
	e.h.mu.Lock()
	if w.where != "next" {
		e.h.mu.Unlock()
		return false
	}
	w.where = "running"
	e.h.fwInner = e.innerPoint()
	ch := w.resume
	e.h.mu.Unlock()
	close(ch)
	ev, ok := waitEv(w)
	if !ok || ev != "inner" {
		e.emit("op panic flush worker did not reach %s (got %q)", e.innerPoint(), ev)
		return false
	}
	e.emit("op bg fcreate => inner seg=%d", e.store.VerifState().SegmentCounter)
	return true
}

func (e *stExec) quiesce() {
	for i := 0; i < 10000; i++ {
		a := e.stepWorker(true)
		b := e.stepWorker(false)
		if !a && !b {
			return
		}
	}
}

func (e *stExec) closeStore() {
	if e.store == nil {
		return
	}
	e.rex.run()
	e.quiesce()
	e.h.mu.Lock()
	e.h.free = true
	e.h.freeLog = nil
	e.h.mu.Unlock()
	err := e.store.Close()
	e.emit("op close => %s", storeErr(err))
	e.h.mu.Lock()
	log := append([]string(nil), e.h.freeLog...)
	e.h.store = nil
	e.h.mu.Unlock()
	// compaction worker first (it touches nothing), then the flush worker's final round
	for _, p := range log {
		if p == "compactionWorker:exit" {
			e.emit("op bg cexit => exited")
		}
	}
	last := ""
	for _, p := range log {
		switch {
		case p == "flushWorker:final":
			e.emit("op bg ffinal => woken")
			last = "final"
		case strings.HasPrefix(p, "flushMemtables:next"):
			if last == "final" {
				e.emit("op bg flist => next")
			} else {
				e.emit("op bg fremove => next")
			}
			last = "next"
		case strings.HasPrefix(p, "flushMemtables:flushed"):
			e.emit("op bg fwrite => flushed seg=%s", p[strings.IndexByte(p, '=')+1:])
			last = "flushed"
		case p == "flushWorker:exit":
			if last == "final" {
				e.emit("op bg flist => exited")
			} else {
				e.emit("op bg fremove => exited")
			}
			last = "exit"
		}
	}
	e.emit("op closedone => %s", storeErr(err))
	e.store = nil
}

func (e *stExec) stateLine() string {
	st := e.store.VerifState()
	var mts []string
	for _, m := range st.Memtables {
		ids := "-"
		if len(m.DocIDs) > 0 {
			s := make([]string, len(m.DocIDs))
			for i, id := range m.DocIDs {
				s[i] = fmt.Sprint(id)
			}
			ids = strings.Join(s, "+")
		}
		mts = append(mts, fmt.Sprintf("%d:%d:%d:%s", m.Size, m.Count, stB01(m.Frozen), ids))
	}
	var segs []string
	for _, s := range st.Segments {
		segs = append(segs, fmt.Sprintf("%d:%d", s.ID, stB01(s.Cached)))
	}
	ms, ss := "-", "-"
	if len(mts) > 0 {
		ms = strings.Join(mts, ";")
	}
	if len(segs) > 0 {
		ss = strings.Join(segs, ",")
	}
	return fmt.Sprintf("mts=%s segs=%s ctr=%d fsig=%d csig=%d", ms, ss, st.SegmentCounter, st.FlushPending, st.CompactionPending)
}

// classifyGz maps the bytes of a (possibly truncated) gzip file to the model's Cut:
// H = gzip.NewReader fails, F = complete, T = whole plaintext readable then an error,
// D = a strict plaintext prefix then an error.
func classifyGz(b []byte, fullLen int) string {
	zr, err := gzip.NewReader(bytes.NewReader(b))
	if err != nil {
		return "H"
	}
	n, err := io.Copy(io.Discard, zr)
	if err == nil {
		return "F"
	}
	if fullLen >= 0 && int(n) >= fullLen {
		return "T"
	}
	return "D"
}

func plainLen(b []byte) int {
	zr, err := gzip.NewReader(bytes.NewReader(b))
	if err != nil {
		return -1
	}
	n, err := io.Copy(io.Discard, zr)
	if err != nil {
		return -1
	}
	return int(n)
}

var kindLetter = map[string]string{"hybrid": "h", "vector": "v", "text": "t", "metadata": "m"}

// shortName: hybrid_000003.bin.gz → h3 ; LOCK → L ; anything else → "?<name>"
func shortName(name string) string {
	if name == "LOCK" {
		return "L"
	}
	i := strings.IndexByte(name, '_')
	if i < 0 || !strings.HasSuffix(name, ".bin.gz") {
		return "?" + name
	}
	k, ok := kindLetter[name[:i]]
	if !ok {
		return "?" + name
	}
	var id int
	if _, err := fmt.Sscanf(strings.TrimSuffix(name[i+1:], ".bin.gz"), "%d", &id); err != nil {
		return "?" + name
	}
	return fmt.Sprintf("%s%d", k, id)
}

func (e *stExec) listing(dir string) string {
	ents, err := os.ReadDir(dir)
	if err != nil {
		if os.IsNotExist(err) {
			return "-"
		}
		return "?" + err.Error()
	}
	var out []string
	for _, en := range ents {
		sn := shortName(en.Name())
		if sn == "L" {
			out = append(out, "L:F")
			continue
		}
		b, _ := os.ReadFile(filepath.Join(dir, en.Name()))
		fl := -1
		if e.fullLen != nil {
			if v, ok := e.fullLen[sn]; ok {
				fl = v
			}
		}
		out = append(out, sn+":"+classifyGz(b, fl))
	}
	if len(out) == 0 {
		return "-"
	}
	sort.Strings(out)
	return strings.Join(out, ",")
}

func stIdsLine(res []comet.HybridSearchResult) string {
	ids := make([]int, len(res))
	for i, r := range res {
		ids[i] = int(r.ID)
	}
	sort.Ints(ids)
	if len(ids) == 0 {
		return "-"
	}
	s := make([]string, len(ids))
	for i, x := range ids {
		s[i] = fmt.Sprint(x)
	}
	return strings.Join(s, ",")
}

func (e *stExec) search(q string, kmode int) {
	if e.lastN == nil {
		e.lastN = map[string]int{}
	}
	k := 100000
	base := q
	if strings.HasPrefix(q, "md") {
		base = "md"
	}
	if kmode == 1 || kmode == 2 {
		k = e.lastN[base] + kmode - 1
		if k <= 0 {
			k = 1
		}
	}
	s := e.store.NewSearch()
	switch kmode {
	case 3: // the builder's default k
		k = 10
	case 4:
		k = 0
		s = s.WithK(0)
	default:
		s = s.WithK(k)
	}
	grp := &comet.FilterGroup{Filters: []comet.Filter{comet.Eq("c", "y")}, Logic: comet.AND}
	switch q {
	case "mdg":
		s = s.WithMetadataGroups(grp)
	case "mdgf":
		s = s.WithMetadataGroups(grp).WithMetadata(comet.Eq("c", "y"))
	case "vec":
		s = s.WithVector(e.docVector(1))
		if e.c.Vec == "ivf" {
			s = s.WithNProbes(e.nlist)
		}
	case "txt":
		s = s.WithText("w")
	case "md":
		s = s.WithMetadata(comet.Eq("c", "y"))
	}
	e.schedule(func() {
		e.h.mu.Lock()
		e.h.turns, e.h.loads = nil, 0
		e.h.mu.Unlock()
		res, err := s.Execute()
		e.h.mu.Lock()
		turns := strings.Join(e.h.turns, ",")
		loads := e.h.loads
		e.h.mu.Unlock()
		if turns == "" {
			turns = "-"
		}
		if err != nil {
			kk := storeErr(err)
			if strings.Contains(err.Error(), "specified but no") {
				kk = "noindex"
			}
			e.emit("op search %s k=%d turns=%s loads=%d => err %s", q, k, turns, loads, kk)
			return
		}
		if kmode == 0 {
			e.lastN[base] = len(res)
		}
		e.emit("op search %s k=%d turns=%s loads=%d => ok %s", q, k, turns, loads, stIdsLine(res))
	})
}

func (e *stExec) add(cmd stCmd, explicit bool) { e.addAs(cmd, explicit, nil) }

// addAs: forced != nil → AddWithID under exactly that id (a re-add).
func (e *stExec) addAs(cmd stCmd, explicit bool, forced *uint32) {
	var vec []float32
	var text string
	var meta map[string]interface{}
	vd, tl, mc := 0, 0, 0
	n := e.nAdd*3 + cmd.N
	scale := func(v []float32) []float32 {
		for f := 0; f < cmd.Far && f < 3; f++ {
			for i := range v {
				v[i] *= 10
			}
		}
		return v
	}
	if cmd.V {
		vec = scale(e.docVector(n))
		vd = len(vec)
	}
	if cmd.T {
		text = docText(n)
		tl = len(text)
	}
	if cmd.M {
		meta = docMeta(n)
		mc = len(meta)
	}
	e.nAdd++
	var id uint32
	var err error
	fwIdle := e.isIdle(&e.h.fw)
	if forced != nil {
		id = *forced
		err = e.store.AddWithID(id, vec, text, meta)
	} else if explicit {
		switch cmd.Sp {
		case 1:
			id = 0
		case 2:
			id = ^uint32(0)
		default:
			id = explicitIDBase + e.nextExp
			e.nextExp++
		}
		err = e.store.AddWithID(id, vec, text, meta)
	} else {
		id, err = e.store.Add(vec, text, meta)
	}
	if err != nil {
		e.adds = append(e.adds, 0)
		e.addOK = append(e.addOK, false)
		e.addCmd = append(e.addCmd, cmd)
		e.emit("op add %d %d %d %d => %s", id, vd, tl, mc, storeErr(err))
		return
	}
	e.adds = append(e.adds, id)
	e.addOK = append(e.addOK, true)
	e.addCmd = append(e.addCmd, cmd)
	if e.ref != nil {
		var rvec []float32
		if cmd.V {
			rvec = scale(e.docVector(n))
		}
		if rerr := e.ref.AddWithID(id, rvec, text, meta); rerr != nil {
			e.emit("op panic reference add: %v", rerr)
		}
	}
	if cmd.T {
		e.lastTok = fmt.Sprintf("tok%d", n)
	}
	e.emit("op add %d %d %d %d => ok", id, vd, tl, mc)
	if e.store.VerifTotalMemtableSize() >= e.c.FlushThr {
		e.signalled(&e.h.fw, fwIdle, "fwake")
	}
}

// applyOpts configures one search builder (the store's or the reference's) identically.
func (e *stExec) applyOpts(s comet.HybridSearch, o *stOpt, k int, thr float32) (comet.HybridSearch, string) {
	desc := ""
	s = s.WithK(k).WithVector(e.docVector(2))
	if o.Mode == "vt" {
		if o.Tok && e.lastTok != "" {
			// only the latest text document matches the text side: the answer then depends on
			// what the vector side (threshold, nprobes …) lets through
			s = s.WithText(e.lastTok)
		} else {
			s = s.WithText("w")
		}
	}
	if thr > 0 {
		s = s.WithThreshold(thr)
		desc += " thr=1"
	}
	if o.Agg != "" {
		s = s.WithScoreAggregation(comet.ScoreAggregationKind(o.Agg))
		desc += " agg=" + o.Agg
	}
	if o.Cut > 0 {
		s = s.WithCutoff(o.Cut)
		desc += fmt.Sprintf(" cut=%d", o.Cut)
	}
	if e.c.Vec == "ivf" {
		np := e.nlist
		if o.Np == 2 {
			np = 1
		}
		s = s.WithNProbes(np)
		desc += fmt.Sprintf(" np=%d", np)
	}
	if e.c.Vec == "hnsw" && o.Ef > 0 {
		s = s.WithEfSearch(o.Ef)
		desc += fmt.Sprintf(" ef=%d", o.Ef)
	}
	if o.Mode == "vt" && o.Fus != "" {
		if o.Via {
			if f, err := comet.NewFusion(comet.FusionKind(o.Fus), nil); err == nil {
				s = s.WithFusion(f)
			}
			desc += " fusion=" + o.Fus
		} else {
			s = s.WithFusionKind(comet.FusionKind(o.Fus))
			desc += " fusionkind=" + o.Fus
		}
	}
	return s, desc
}

// osearch: a probe with search options, put to the reference in-memory index (which also
// supplies the threshold and the "exactly large enough" k) and to the store.
func (e *stExec) osearch(o *stOpt) {
	if e.ref == nil || e.c.Vec == "none" || e.c.Vec == "" || (o.Mode == "vt" && !e.c.Text) {
		return
	}
	// threshold from the distances the reference reports for the plain vector query
	var thr float32
	if o.Thr > 0 {
		q := e.ref.NewSearch().WithVector(e.docVector(2)).WithK(100000)
		if e.c.Vec == "ivf" {
			q = q.WithNProbes(e.nlist)
		}
		if hits, err := q.Execute(); err == nil && len(hits) > 0 {
			sc := make([]float64, len(hits))
			for i, h := range hits {
				sc[i] = h.Score
			}
			sort.Float64s(sc)
			i := o.R % len(sc)
			thr = float32(sc[i])
			if o.Thr == 2 && i+1 < len(sc) {
				thr = float32((sc[i] + sc[i+1]) / 2)
			}
		}
	}
	k := 100000
	if o.KX {
		rs, _ := e.applyOpts(e.ref.NewSearch(), o, 100000, thr)
		if hits, err := rs.Execute(); err == nil && len(hits) > 0 {
			k = len(hits)
		}
	}
	// the reference's and the store's search object, configured identically; each execution puts
	// the probe to both as they are then
	rs, desc := e.applyOpts(e.ref.NewSearch(), o, k, thr)
	ss, _ := e.applyOpts(e.store.NewSearch(), o, k, thr)
	e.schedule(func() {
		refRes, refErr := rs.Execute()
		e.h.mu.Lock()
		e.h.turns, e.h.loads = nil, 0
		e.h.mu.Unlock()
		res, err := ss.Execute()
		e.h.mu.Lock()
		turns := strings.Join(e.h.turns, ",")
		loads := e.h.loads
		e.h.mu.Unlock()
		if turns == "" {
			turns = "-"
		}
		// is the vector side exact? flat always; ivf when every list is probed
		exact := e.c.Vec == "flat" || (e.c.Vec == "ivf" && o.Np != 2)
		commute := o.Mode == "vec" && o.Cut == 0
		head := fmt.Sprintf("op osearch %s k=%d turns=%s loads=%d exactix=%d commute=%d%s", o.Mode, k, turns, loads, stB01(exact), stB01(commute), desc)
		refS := "err"
		if refErr == nil {
			refS = stIdsLine(refRes)
		}
		if err != nil {
			e.emit("%s => err %s ref %s", head, storeErr(err), refS)
			return
		}
		e.emit("%s => ok %s ref %s", head, stIdsLine(res), refS)
	})
}

// badAdd issues an Add / AddWithID that the store must reject — and that must leave nothing
// behind (a rotation may still happen first: the queue makes room before it tries).
func (e *stExec) badAdd(cmd stCmd) {
	n := e.nAdd*3 + cmd.N
	e.nAdd++
	var vec []float32
	var text string
	var meta map[string]interface{}
	if e.c.Vec != "none" && e.c.Vec != "" {
		vec = e.docVector(n)
	}
	text = docText(n)
	if e.c.Meta {
		meta = docMeta(n)
	}
	switch cmd.Bad {
	case 1:
		if meta == nil {
			meta = map[string]interface{}{}
		}
		meta["tags"] = []string{"a", "b"}
	case 2:
		vec = append(e.docVector(n), 1)
	case 3:
		vec = make([]float32, e.c.Dim)
	}
	vd, tl, mc := len(vec), len(text), len(meta)
	var err error
	if cmd.X {
		err = e.store.AddWithID(explicitIDBase+800000+uint32(e.nAdd), vec, text, meta)
	} else {
		_, err = e.store.Add(vec, text, meta)
	}
	out := "ok"
	if err != nil {
		out = "err " + storeErr(err) // any error is a refusal; the class is informational
	}
	e.emit("op badadd %d %d %d => %s", vd, tl, mc, out)
}

func (e *stExec) segIDs() map[uint64]bool {
	m := map[uint64]bool{}
	for _, s := range e.store.VerifState().Segments {
		m[s.ID] = true
	}
	return m
}

func (e *stExec) flush() {
	before := e.segIDs()
	err := e.store.Flush()
	if err != nil {
		e.emit("op flush => %s", storeErr(err))
		return
	}
	var ids []int
	for id := range e.segIDs() {
		if !before[id] {
			ids = append(ids, int(id))
		}
	}
	sort.Ints(ids)
	s := "-"
	if len(ids) > 0 {
		t := make([]string, len(ids))
		for i, x := range ids {
			t[i] = fmt.Sprint(x)
		}
		s = strings.Join(t, ",")
	}
	e.emit("op flush => ok segs=%s", s)
}

// do executes one command (the store must be open for everything but "open").
func (e *stExec) do(cmd stCmd) {
	if cmd.Op == "open" {
		e.open()
		return
	}
	if cmd.Op == "ls" {
		e.emit("op ls => %s", e.listing(e.dir))
		return
	}
	if e.store == nil {
		return
	}
	switch cmd.Op {
	case "add", "addid", "remove", "flush", "rotate", "evict", "trigger", "badadd", "bg":
		// search objects waiting for the next change of the store (a `bg` command for an idle
		// worker does nothing and emits nothing)
		n := len(e.lines)
		defer func() {
			if len(e.lines) > n {
				e.rex.run()
			}
		}()
	}
	switch cmd.Op {
	case "add":
		e.add(cmd, false)
	case "addid":
		e.add(cmd, true)
	case "remove":
		id := explicitIDBase + 900000 + uint32(len(e.adds))
		if cmd.Ref >= 0 && cmd.Ref < len(e.adds) && e.addOK[cmd.Ref] {
			id = e.adds[cmd.Ref]
		}
		err := e.store.Remove(id)
		if err == nil && e.ref != nil {
			e.ref.Remove(id)
		}
		e.emit("op remove %d => %s", id, storeErr(err))
	case "flush":
		e.flush()
	case "rotate":
		e.store.VerifRotate()
		e.emit("op rotate => ok")
	case "evict":
		e.store.VerifEvictAllCaches()
		e.emit("op evict => ok")
	case "trigger":
		cwIdle := e.isIdle(&e.h.cw)
		e.store.TriggerCompaction()
		e.emit("op trigger => ok")
		e.signalled(&e.h.cw, cwIdle, "cwake")
	case "search":
		e.search(cmd.Q, cmd.K)
	case "badadd":
		e.badAdd(cmd)
	case "addmany":
		for i := 0; i < cmd.Cnt && e.store != nil; i++ {
			e.add(stCmd{Op: "add", V: cmd.V, T: cmd.T, M: cmd.M, N: i % 3}, false)
		}
	case "readd":
		if cmd.Ref >= 0 && cmd.Ref < len(e.adds) && e.addOK[cmd.Ref] {
			id := e.adds[cmd.Ref]
			orig := e.addCmd[cmd.Ref]
			e.addAs(stCmd{Op: "addid", V: orig.V, T: orig.T, M: orig.M, N: cmd.N, Far: orig.Far}, true, &id)
		}
	case "osearch":
		if cmd.O != nil {
			e.osearch(cmd.O)
		}
	case "bg":
		if cmd.W == "fi" {
			e.stepWorkerInner()
		} else {
			e.stepWorker(cmd.W == "f")
		}
	case "close":
		e.closeStore()
	case "state":
		e.emit("op state => %s", e.stateLine())
	}
}

func (e *stExec) begin() {
	e.lines = append(e.lines, fmt.Sprintf("begin %s %d %d %d %d %d %d", e.stream,
		stB01(e.c.Vec != "none" && e.c.Vec != ""), stB01(e.c.Text), stB01(e.c.Meta), e.c.Limit, e.c.FlushThr, e.c.CompThr))
}

// withStoreEnv runs f with the global handler installed and a scratch directory.
// storeDirNames: what the base directory may be called. Entry 0 is the plain one; "@…" entries are
// built specially (see storeDir).
var storeDirNames = []string{
	"db", "store[v2]", "data[1]", "a[b", "q?x*y", "back\\slash", "sp ace  two", "дб-数据-ñ", "@trailing", "@dotdot",
	"@relative", "@symlink", "@long", "nested[0]/in ner/db", "]odd[", "{a,b}", "~tilde", "%25pct", "-dash", "a;b&c",
}

// crashDirNames: the subset usable as a single path component (crash images are built beside each other).
var crashDirNames = []string{"db", "store[v2]", "a[b", "sp ace", "дб-数据", "q?x*y", "back\\slash"}

// storeDir turns the case's Dir index into the BaseDir handed to the store (created lazily by the
// store itself, except for the parents the special forms need).
func storeDir(root string, idx int) string {
	name := storeDirNames[((idx%len(storeDirNames))+len(storeDirNames))%len(storeDirNames)]
	switch name {
	case "@trailing":
		return filepath.Join(root, "db") + string(filepath.Separator)
	case "@dotdot":
		os.MkdirAll(filepath.Join(root, "x"), 0o755)
		return root + "/x/../db"
	case "@relative":
		if wd, err := os.Getwd(); err == nil {
			if rel, err := filepath.Rel(wd, filepath.Join(root, "rel db")); err == nil {
				return rel
			}
		}
		return filepath.Join(root, "rel db")
	case "@symlink":
		real := filepath.Join(root, "real[1]")
		os.MkdirAll(real, 0o755)
		if os.Symlink(real, filepath.Join(root, "link")) == nil {
			return filepath.Join(root, "link", "db")
		}
		return filepath.Join(real, "db")
	case "@long":
		return filepath.Join(root, strings.Repeat("long-name-", 20)+"[x]")
	}
	return filepath.Join(root, name)
}

func withStoreEnv(c *stCase, stream string, f func(e *stExec)) []string {
	dir, err := os.MkdirTemp("", "verif_"+stream+"_")
	if err != nil {
		return []string{"begin " + stream + " 0 0 0 1 1 1", "op panic mkdtemp: " + err.Error(), "end"}
	}
	defer os.RemoveAll(dir)
	e := &stExec{c: c, stream: stream, root: dir, dir: storeDir(dir, c.Dir), h: newSched(), rexOn: stream == "store" || stream == "restart"}
	if stream == "crash" {
		e.dir = filepath.Join(dir, crashDirNames[((c.Dir%len(crashDirNames))+len(crashDirNames))%len(crashDirNames)])
	}
	dispatchOnce.Do(func() { comet.VerifSetPointHandler(dispatchPoint) })
	schedReg.Store(curGoid(), e.h)
	defer func() {
		h := e.h
		schedReg.Range(func(k, v any) bool {
			if v.(*hookSched) == h {
				schedReg.Delete(k)
			}
			return true
		})
	}()
	e.begin()
	func() {
		defer func() {
			if r := recover(); r != nil {
				e.emit("op panic %v", r)
			}
			// never leave a store (and its goroutines) behind
			if e.store != nil {
				e.h.mu.Lock()
				e.h.free = true
				fw, cw := e.h.fw, e.h.cw
				e.h.mu.Unlock()
				if fw.where != "" && fw.where != "running" && fw.resume != nil {
					close(fw.resume)
				}
				if cw.where != "" && cw.where != "running" && cw.resume != nil {
					close(cw.resume)
				}
				e.store.Close()
				e.store = nil
			}
		}()
		f(e)
	}()
	e.lines = append(e.lines, "end")
	return e.lines
}

func dropCmds(c *stCase, lo, hi int) *stCase {
	n := *c
	n.Cmds = append(append([]stCmd(nil), c.Cmds[:lo]...), c.Cmds[hi:]...)
	if c.Victim >= hi {
		n.Victim = c.Victim - (hi - lo)
	} else if c.Victim >= lo {
		n.Victim = -1
	}
	return &n
}
