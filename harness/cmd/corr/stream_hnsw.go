package main

// Stream "hnsw" (C12): Add / Remove / Flush histories on a real HNSWIndex.
//
// After EVERY op the harness exports what changed in the implementation's graph
// (ordered neighbour lists per layer, entry point, maxLevel; through
// /repo/verif_export_hnsw.go) and the level the implementation drew for a new vertex.
// The Lean driver replays the op on the faithful model and demands graph equality
// (tie-free data), and judges the observational clauses of C12 (non-emptiness,
// small-index exactness, reachability over the exported layer-0 graph) with verified
// checkers on the implementation's answers.  Removal targets are resolved against the
// live implementation state: current entry point, highest level, highest in-degree.

import (
	"fmt"
	"math"
	"sort"
	"strings"

	comet "github.com/wizenheimer/comet"
	"verifharness/internal/core"
)

type hnswCmd struct {
	Op      string   `json:"op"` // add | remove | removehood | removeall | flush | search | graph | reach
	ID      uint32   `json:"id,omitempty"`
	Vec     []uint32 `json:"vec,omitempty"`
	Level   int      `json:"level"`            // add: the level handed to randomLevel's hook (-1: the implementation draws)
	Target  string   `json:"target,omitempty"` // remove: id | entry | toplevel | indegree | nth ; add: readd (a tombstoned id) ; search: entryvec (query = the entry point's stored vector)
	Depth   int      `json:"depth,omitempty"`  // removehood: the entry point plus its layer-0 neighbours (1) plus theirs (2)
	R       int      `json:"r,omitempty"`
	K       int      `json:"k,omitempty"`
	ThrMode int      `json:"thr_mode,omitempty"`
	Thr     uint32   `json:"thr,omitempty"`
	Filter  []uint32 `json:"filter,omitempty"`
	Ef      int      `json:"ef,omitempty"`
}

type hnswCase struct {
	Dim    int    `json:"dim"`
	Metric string `json:"metric"`
	M      int    `json:"m"`
	EfC    int    `json:"efc"`
	EfS    int    `json:"efs"`
	Data   string `json:"data"` // gauss | dup | cluster (documentation of the generator used)
	// NoEntry: removals never aim at the current entry point (keeps the case outside known finding D2)
	NoEntry bool      `json:"no_entry,omitempty"`
	Cmds    []hnswCmd `json:"cmds"`
}

type hnswGen struct {
	r       *core.Rand
	dim     int
	data    string
	scale   float64
	pool    [][]float32
	centers [][]float32
	cur     int // current cluster (sequential cluster insertion)
}

func (g *hnswGen) vec() []float32 {
	r := g.r
	v := make([]float32, g.dim)
	switch g.data {
	case "gauss":
		for i := range v {
			v[i] = float32(r.Norm() * g.scale)
		}
	case "line":
		// points along a line in low dimension (sparse graphs: few long-range links)
		g.cur++
		pos := float64(g.cur)
		if g.r.Chance(0.3) {
			pos = float64(g.r.Range(0, 4*g.cur+4))
		}
		for i := range v {
			v[i] = float32((pos*float64(i+1) + r.Norm()*0.01) * g.scale)
		}
		if g.r.Chance(0.5) {
			v[0] = float32(pos * g.scale) // exactly on the lattice in the first coordinate
		}
	case "cluster":
		if len(g.centers) == 0 {
			for c := r.Range(2, 5); c > 0; c-- {
				ctr := make([]float32, g.dim)
				for i := range ctr {
					ctr[i] = float32(r.Norm() * 100 * g.scale)
				}
				g.centers = append(g.centers, ctr)
			}
		}
		if r.Chance(0.08) {
			g.cur = (g.cur + 1) % len(g.centers)
		}
		for i := range v {
			v[i] = g.centers[g.cur][i] + float32(r.Norm()*g.scale)
		}
	default: // dup: lattice points, duplicates and near-duplicates of earlier vectors
		mode := r.Pick(1, 5, 4, 1)
		if len(g.pool) == 0 && mode >= 2 {
			mode = 1
		}
		switch mode {
		case 0:
			for i := range v {
				v[i] = float32(r.Norm())
			}
		case 1:
			for i := range v {
				v[i] = float32(r.Range(-2, 2))
			}
		case 2:
			copy(v, g.pool[r.Intn(len(g.pool))])
		case 3:
			copy(v, g.pool[r.Intn(len(g.pool))])
			i := r.Intn(g.dim)
			v[i] = math.Float32frombits(math.Float32bits(v[i]) + uint32(r.Range(1, 3)))
		}
	}
	return v
}

func (g *hnswGen) query() []float32 {
	r := g.r
	if len(g.pool) > 0 && r.Chance(0.5) {
		q := append([]float32(nil), g.pool[r.Intn(len(g.pool))]...)
		if g.data != "dup" && r.Chance(0.7) {
			for i := range q {
				q[i] += float32(r.Norm() * 0.1 * g.scale)
			}
		}
		return q
	}
	return g.vec()
}

func genHNSW(r *core.Rand, tier string) *hnswCase {
	maxDim := 32
	dim := 1 + r.Intn(maxDim)
	if r.Chance(0.35) {
		dim = 1 + r.Intn(4)
	}
	M := []int{2, 2, 3, 4, 5, 8, 12, 16, 24, 32}[r.Intn(10)]
	if r.Chance(0.2) {
		M = r.Range(2, 32)
	}
	c := &hnswCase{Dim: dim, Metric: metrics[r.Intn(3)], M: M}
	c.Data = []string{"gauss", "gauss", "gauss", "dup", "cluster", "line"}[r.Intn(6)]
	if c.Data == "line" {
		dim = 1 + r.Intn(3)
		c.Dim = dim
		if c.Metric == "cosine" && dim == 1 {
			c.Metric = "l2"
		}
		if r.Chance(0.7) {
			M = r.Range(2, 4)
			c.M = M
		}
	}
	g := &hnswGen{r: r, dim: dim, data: c.Data, scale: math.Pow(10, float64(r.Range(-2, 2)))}

	// size class: "small" keeps at most 2M+1 (sometimes a few more) resident vertices
	small := r.Chance(0.45)
	maxN := 300
	if tier == "thorough" {
		maxN = 600
		if r.Chance(0.04) {
			maxN = r.Range(1500, 4000)
		}
	}
	var target int // number of adds
	if small {
		target = r.Range(1, 2*M+1)
		if r.Chance(0.15) {
			target = 2*M + r.Range(2, 4)
		}
	} else {
		target = r.Range(2*M+2, max(2*M+3, maxN))
		if r.Chance(0.5) {
			target = r.Range(2*M+2, max(2*M+3, min(maxN, 12*M)))
		}
	}
	if target > maxN {
		target = maxN
	}
	// ef between M and 4n (small cases: mostly >= the peak so that the exactness clause applies)
	pickEf := func() int {
		lo, hi := M, 4*target
		if hi < lo {
			hi = lo
		}
		switch r.Pick(3, 3, 2) {
		case 0:
			return r.Range(lo, hi)
		case 1:
			return r.Range(lo, min(hi, 4*M+4))
		default:
			return max(lo, target+r.Range(0, 3))
		}
	}
	c.EfC, c.EfS = pickEf(), pickEf()
	if target > 600 { // thousands of vertices: keep one case within the per-case time limit
		c.EfC, c.EfS = min(c.EfC, 512), min(c.EfS, 512)
	}
	if small && r.Chance(0.8) {
		c.EfC, c.EfS = max(c.EfC, target+r.Range(0, 2)), max(c.EfS, target+r.Range(0, 2))
	}
	big := target > 600
	c.NoEntry = r.Chance(0.65)
	ownLevels := r.Chance(0.08)
	pLevel := 1.0 / float64(M)
	if r.Chance(0.2) {
		pLevel = 0.5 // tall graphs whatever M is
	}
	drawLevel := func() int {
		if ownLevels {
			return -1
		}
		l := 0
		for l < 16 && r.Float64() < pLevel {
			l++
		}
		return l
	}

	// id 0 is a legal id (the index stores the first vector whose own id is 0 under key 0, and
	// 0 is also its "no entry point" sentinel): a good share of the cases start their ids at 0,
	// so that the first inserted vertex — the entry point — is vertex 0
	next := uint32(1)
	zeroFirst := r.Chance(0.4)
	if zeroFirst {
		next = 0
	}
	var ids []uint32
	resident := 0
	pendingRemoved := 0
	adds := 0
	pRemove, pFlush, pSearch := 3, 1, 5
	if r.Chance(0.3) {
		pRemove = 0 // pure insertion histories too
		pFlush = 0
	}
	if big {
		pSearch = 1
	}
	search := func() hnswCmd {
		q := g.query()
		if r.Chance(0.02) && len(q) > 1 {
			q = q[:len(q)-1]
		}
		if r.Chance(0.01) {
			for i := range q {
				q[i] = 0
			}
		}
		n := len(ids)
		cmd := hnswCmd{Op: "search", Vec: core.Bits(q)}
		switch r.Pick(2, 2, 4, 3) {
		case 0:
			cmd.K = r.Range(-2, 0)
		case 1:
			cmd.K = n + r.Range(-1, 3)
		case 2:
			cmd.K = r.Range(1, max(1, n))
		case 3:
			cmd.K = r.Range(1, 10)
		}
		switch r.Pick(10, 1, 2, 1, 1) {
		case 1:
			cmd.Thr = math.Float32bits(-1)
		case 2:
			cmd.ThrMode, cmd.R = 1, r.Intn(max(1, n))
		case 3:
			cmd.ThrMode, cmd.R = 2, r.Intn(max(1, n))
		case 4:
			cmd.Thr = math.Float32bits(1e30)
		}
		switch r.Pick(12, 2, 1, 1) {
		case 1:
			for _, id := range ids {
				if r.Chance(0.5) {
					cmd.Filter = append(cmd.Filter, id)
				}
			}
		case 2:
			if n > 0 {
				cmd.Filter = []uint32{ids[r.Intn(n)], next + 7}
			}
		case 3:
			cmd.Filter = append(cmd.Filter, ids...)
		}
		switch r.Pick(6, 2, 1, 1) {
		case 1:
			cmd.Ef = r.Range(M, max(M, 4*max(1, n)))
		case 2:
			cmd.Ef = r.Range(1, 3)
		case 3:
			cmd.Ef = -1
		}
		return cmd
	}
	for adds < target {
		switch r.Pick(12, pRemove, pFlush, pSearch, 1) {
		case 0:
			v := g.vec()
			if r.Chance(0.015) {
				v = append(v, 1)
			}
			if r.Chance(0.015) {
				for j := range v {
					v[j] = 0
				}
			}
			id := next
			next += uint32(r.Range(1, 2))
			if len(v) == dim {
				g.pool = append(g.pool, v)
			}
			ids = append(ids, id)
			adds++
			resident++
			cmd := hnswCmd{Op: "add", ID: id, Vec: core.Bits(v), Level: drawLevel()}
			if pendingRemoved > 0 && r.Chance(0.04) {
				cmd.Target, cmd.R = "readd", r.Intn(1<<20) // re-add an id that is still tombstoned
			}
			c.Cmds = append(c.Cmds, cmd)
		case 1:
			cmd := hnswCmd{Op: "remove"}
			switch r.Pick(4, 3, 2, 2, 1) {
			case 0:
				cmd.Target, cmd.R = "nth", r.Intn(1<<20)
			case 1:
				cmd.Target = "entry"
			case 2:
				cmd.Target = "toplevel"
			case 3:
				cmd.Target = "indegree"
			case 4:
				cmd.Target, cmd.ID = "id", next+uint32(r.Intn(4)) // absent
			}
			pendingRemoved++
			c.Cmds = append(c.Cmds, cmd)
			if r.Chance(0.5) {
				c.Cmds = append(c.Cmds, search())
			}
			if r.Chance(0.15) {
				c.Cmds = append(c.Cmds, hnswCmd{Op: "reach"})
			}
		case 2:
			c.Cmds = append(c.Cmds, hnswCmd{Op: "flush"})
			resident -= min(resident, pendingRemoved)
			pendingRemoved = 0
			if r.Chance(0.5) {
				c.Cmds = append(c.Cmds, hnswCmd{Op: "reach"})
			}
			if r.Chance(0.5) {
				c.Cmds = append(c.Cmds, search())
			}
		case 3:
			c.Cmds = append(c.Cmds, search())
		case 4:
			if !big {
				c.Cmds = append(c.Cmds, hnswCmd{Op: []string{"graph", "reach"}[r.Intn(2)]})
			}
		}
	}
	// adversarial pattern: the current entry point plus ALL its layer-0 neighbours (small M:
	// plus theirs), resolved against the implementation's exported graph, no Flush, then
	// searches (one from the entry point's own position) and a reachability check
	hood := func() {
		depth := 1
		if M <= 4 && r.Chance(0.5) {
			depth = 2
		}
		c.Cmds = append(c.Cmds, hnswCmd{Op: "removehood", Depth: depth})
		es := search()
		es.Target, es.Filter, es.Thr, es.ThrMode = "entryvec", nil, 0, 0
		c.Cmds = append(c.Cmds, es, search(), hnswCmd{Op: "reach"})
		if r.Chance(0.5) {
			es2 := search()
			es2.Target, es2.Filter, es2.Thr, es2.ThrMode, es2.K = "entryvec", nil, 0, 0, 1
			c.Cmds = append(c.Cmds, es2)
		}
	}
	if !c.NoEntry && !small && (r.Chance(0.5) || c.Data == "line") {
		hood()
		if r.Chance(0.3) {
			hood() // a second ring: the tombstoned entry point stays, its live neighbourhood is gone
		}
	}
	// adversarial pattern: EVERY resident vector is removed (the entry point first), no Flush,
	// then new vectors are added and searched before any Flush (the Add has to purge the
	// tombstoned entry point, whatever its id)
	if !c.NoEntry && !big && r.Chance(map[bool]float64{true: 0.45, false: 0.2}[zeroFirst]) {
		c.Cmds = append(c.Cmds, hnswCmd{Op: "removeall"}, search(), hnswCmd{Op: "reach"})
		for j := r.Range(1, 3); j > 0; j-- {
			v := g.vec()
			c.Cmds = append(c.Cmds, hnswCmd{Op: "add", ID: next, Vec: core.Bits(v), Level: drawLevel()})
			g.pool = append(g.pool, v)
			ids = append(ids, next)
			next++
			es := search()
			es.Filter, es.Thr, es.ThrMode = nil, 0, 0
			c.Cmds = append(c.Cmds, es)
		}
		c.Cmds = append(c.Cmds, search(), hnswCmd{Op: "reach"})
	}
	// tail: removals of adversarial targets with searches, a flush, final checks
	if r.Chance(0.5) {
		for j := r.Range(1, 3); j > 0; j-- {
			c.Cmds = append(c.Cmds, hnswCmd{Op: "remove", Target: []string{"entry", "toplevel", "indegree", "nth"}[r.Intn(4)], R: r.Intn(1 << 20)})
			c.Cmds = append(c.Cmds, search())
		}
		c.Cmds = append(c.Cmds, hnswCmd{Op: "reach"})
		if r.Chance(0.6) {
			c.Cmds = append(c.Cmds, hnswCmd{Op: "flush"}, search(), hnswCmd{Op: "reach"})
			if r.Chance(0.5) {
				v := g.vec()
				c.Cmds = append(c.Cmds, hnswCmd{Op: "add", ID: next, Vec: core.Bits(v), Level: drawLevel()})
				g.pool = append(g.pool, v)
				ids = append(ids, next)
				next++
			}
		}
	}
	for j := r.Range(1, 4); j > 0; j-- {
		c.Cmds = append(c.Cmds, search())
	}
	c.Cmds = append(c.Cmds, hnswCmd{Op: "reach"}, hnswCmd{Op: "graph"})
	return c
}

// hnswSnap mirrors the exported graph between ops so that only changes are sent.
type hnswSnap struct {
	edges map[uint32][][]uint32
	tomb  []uint32 // ids soft-deleted right now (recomputed from the export after every op)
}

func idList(l []uint32) string {
	if len(l) == 0 {
		return "-"
	}
	var b strings.Builder
	for i, x := range l {
		if i > 0 {
			b.WriteByte(',')
		}
		fmt.Fprint(&b, x)
	}
	return b.String()
}

func sameIDs(a, b []uint32) bool {
	if len(a) != len(b) {
		return false
	}
	for i := range a {
		if a[i] != b[i] {
			return false
		}
	}
	return true
}

// tail returns " ; <entry> <maxLevel> <changes…>" and updates the snapshot.
func (sn *hnswSnap) tail(idx *comet.HNSWIndex) string {
	var b strings.Builder
	entry, maxLevel, _, _ := idx.VerifHNSWMeta()
	fmt.Fprintf(&b, " ; %d %d", entry, maxLevel)
	seen := make(map[uint32]bool, len(sn.edges))
	sn.tomb = sn.tomb[:0]
	idx.VerifHNSWVisit(func(key, id uint32, level int, deleted bool, edges [][]uint32) {
		seen[key] = true
		if deleted {
			sn.tomb = append(sn.tomb, key)
		}
		old, ok := sn.edges[key]
		if !ok || len(old) != len(edges) {
			cp := make([][]uint32, len(edges))
			for lc, e := range edges {
				cp[lc] = append([]uint32(nil), e...)
				fmt.Fprintf(&b, " %d/%d=%s", key, lc, idList(e))
			}
			sn.edges[key] = cp
			return
		}
		for lc, e := range edges {
			if !sameIDs(old[lc], e) {
				fmt.Fprintf(&b, " %d/%d=%s", key, lc, idList(e))
				old[lc] = append(old[lc][:0], e...)
			}
		}
	})
	if len(seen) != len(sn.edges) {
		var gone []uint32
		for k := range sn.edges {
			if !seen[k] {
				gone = append(gone, k)
			}
		}
		sort.Slice(gone, func(i, j int) bool { return gone[i] < gone[j] })
		for _, k := range gone {
			fmt.Fprintf(&b, " x%d", k)
			delete(sn.edges, k)
		}
	}
	return b.String()
}

func hnswGraphLine(idx *comet.HNSWIndex) string {
	entry, maxLevel, nodes := idx.VerifHNSWGraph()
	var b strings.Builder
	fmt.Fprintf(&b, "op graph => %d %d", entry, maxLevel)
	for _, n := range nodes {
		d := 0
		if n.Deleted {
			d = 1
		}
		fmt.Fprintf(&b, " %d:%d:%d:", n.ID, n.Level, d)
		for lc, e := range n.Edges {
			if lc > 0 {
				b.WriteByte('|')
			}
			b.WriteString(idList(e))
		}
	}
	return b.String()
}

// resolveTarget picks the vertex an adversarial removal aims at. With avoidEntry the
// current entry point is never chosen (the next best candidate is).
func resolveTarget(idx *comet.HNSWIndex, cmd hnswCmd, added []uint32, avoidEntry bool) uint32 {
	entry, _, resident, _ := idx.VerifHNSWMeta()
	skip := func(k uint32) bool { return avoidEntry && resident > 0 && k == entry }
	switch cmd.Target {
	case "entry":
		if resident > 0 && !avoidEntry {
			return entry
		}
	case "toplevel":
		best, bestL := uint32(0), -1
		idx.VerifHNSWVisit(func(key, id uint32, level int, deleted bool, edges [][]uint32) {
			if !deleted && !skip(key) && level > bestL {
				best, bestL = key, level
			}
		})
		if bestL >= 0 {
			return best
		}
	case "indegree":
		deg := map[uint32]int{}
		var keys []uint32
		idx.VerifHNSWVisit(func(key, id uint32, level int, deleted bool, edges [][]uint32) {
			if deleted {
				return
			}
			keys = append(keys, key)
			if len(edges) > 0 {
				for _, t := range edges[0] {
					deg[t]++
				}
			}
		})
		best, bestD := uint32(0), -1
		for _, k := range keys {
			if !skip(k) && deg[k] > bestD {
				best, bestD = k, deg[k]
			}
		}
		if bestD >= 0 {
			return best
		}
	case "id":
		return cmd.ID
	}
	for j := 0; j < len(added); j++ {
		k := added[(cmd.R+j)%len(added)]
		if !skip(k) {
			return k
		}
	}
	return cmd.ID + 1000000
}

// hnswHood returns the current entry point and the not yet soft-deleted vertices within
// `depth` layer-0 hops of it (the entry point first), read from the exported graph.
func hnswHood(idx *comet.HNSWIndex, depth int) []uint32 {
	entry, _, resident, _ := idx.VerifHNSWMeta()
	if resident == 0 {
		return nil
	}
	adj := map[uint32][]uint32{}
	dead := map[uint32]bool{}
	idx.VerifHNSWVisit(func(key, id uint32, level int, deleted bool, edges [][]uint32) {
		if len(edges) > 0 {
			adj[key] = append([]uint32(nil), edges[0]...)
		}
		dead[key] = deleted
	})
	seen := map[uint32]bool{entry: true}
	order := []uint32{entry}
	frontier := []uint32{entry}
	for d := 0; d < depth; d++ {
		var next []uint32
		for _, u := range frontier {
			for _, w := range adj[u] {
				if !seen[w] {
					seen[w] = true
					order = append(order, w)
					next = append(next, w)
				}
			}
		}
		frontier = next
	}
	var out []uint32
	for _, id := range order {
		if !dead[id] {
			out = append(out, id)
		}
	}
	return out
}

func execHNSW(c *hnswCase) []string {
	lines := []string{fmt.Sprintf("begin hnsw %d %s %d %d %d", c.Dim, c.Metric, c.M, c.EfC, c.EfS)}
	idx, err := comet.NewHNSWIndex(c.Dim, comet.DistanceKind(c.Metric), c.M, c.EfC, c.EfS)
	if err != nil {
		return append(lines, "op panic constructor: "+err.Error(), "end")
	}
	sn := &hnswSnap{edges: map[uint32][][]uint32{}}
	var added []uint32
	nextLevel := -1
	comet.VerifSetHNSWLevelSource(idx, func() (int, bool) { return nextLevel, nextLevel >= 0 })
	defer comet.VerifSetHNSWLevelSource(idx, nil)
	// search objects are executed at once, at once and again after the next Add / Remove / Flush,
	// or only after it (rexec.go); the search line is emitted where the Execute happens. A search
	// from the entry point's own position belongs to the removal pattern before it: it is never
	// only executed later.
	var rex rexQueue
	for _, cmd := range c.Cmds {
		switch cmd.Op {
		case "add":
			raw := core.FromBits(cmd.Vec)
			arg := append([]float32(nil), raw...)
			id := cmd.ID
			if cmd.Target == "readd" && len(sn.tomb) > 0 {
				// (never id 0: a second vector whose own id is 0 is stored under another key)
				if t := sn.tomb[cmd.R%len(sn.tomb)]; t != 0 {
					id = t
				}
			}
			nextLevel = cmd.Level
			err := idx.Add(*comet.NewVectorNodeWithID(id, arg))
			out := vecErr(err)
			if err == nil {
				lv, _ := idx.VerifHNSWLevel(id)
				out = fmt.Sprintf("ok %d", lv)
				if id != cmd.ID {
					delete(sn.edges, id) // a re-added id: report the new vertex in full
				} else {
					added = append(added, id)
				}
			}
			lines = append(lines, fmt.Sprintf("op add %d %s => %s%s", id, core.VecHex(raw), out, sn.tail(idx)))
			rex.run()
		case "remove":
			id := resolveTarget(idx, cmd, added, c.NoEntry)
			err := idx.Remove(*comet.NewVectorNodeWithID(id, nil))
			lines = append(lines, fmt.Sprintf("op remove %d => %s%s", id, vecErr(err), sn.tail(idx)))
			rex.run()
		case "removeall":
			var live []uint32
			entry, _, _, _ := idx.VerifHNSWMeta()
			idx.VerifHNSWVisit(func(key, id uint32, level int, deleted bool, edges [][]uint32) {
				if !deleted && key != entry {
					live = append(live, key)
				}
			})
			for _, id := range append([]uint32{entry}, live...) {
				err := idx.Remove(*comet.NewVectorNodeWithID(id, nil))
				lines = append(lines, fmt.Sprintf("op remove %d => %s%s", id, vecErr(err), sn.tail(idx)))
			}
		case "removehood":
			for _, id := range hnswHood(idx, cmd.Depth) {
				err := idx.Remove(*comet.NewVectorNodeWithID(id, nil))
				lines = append(lines, fmt.Sprintf("op remove %d => %s%s", id, vecErr(err), sn.tail(idx)))
			}
			rex.run()
		case "flush":
			err := idx.Flush()
			lines = append(lines, "op flush => "+vecErr(err)+sn.tail(idx))
			rex.run()
		case "graph":
			lines = append(lines, hnswGraphLine(idx))
		case "reach":
			lines = append(lines, "op reach =>")
		case "search":
			q := core.FromBits(cmd.Vec)
			if cmd.Target == "entryvec" {
				if e, _, n, _ := idx.VerifHNSWMeta(); n > 0 {
					if ev, ok := idx.VerifHNSWVector(e); ok && len(ev) == len(q) {
						q = ev
					}
				}
			}
			thr := math.Float32frombits(cmd.Thr)
			if cmd.ThrMode != 0 {
				probe, err := idx.NewSearch().WithQuery(append([]float32(nil), q...)).WithK(0).Execute()
				thr = 0
				if err == nil && len(probe) > 0 {
					i := cmd.R % len(probe)
					thr = probe[i].GetScore()
					if cmd.ThrMode == 2 && i+1 < len(probe) {
						thr = (probe[i].GetScore() + probe[i+1].GetScore()) / 2
					}
				}
			}
			s := idx.NewSearch().WithQuery(append([]float32(nil), q...)).WithK(cmd.K).WithThreshold(thr).WithEfSearch(cmd.Ef)
			if len(cmd.Filter) > 0 {
				s = s.WithDocumentIDs(cmd.Filter...)
			}
			exec := func() {
				res, err := s.Execute()
				out := ""
				if err != nil {
					out = "err " + vecErr(err)
				} else {
					out = hitsLine(res)
				}
				lines = append(lines, fmt.Sprintf("op search %d %s %s %d %s => %s%s", cmd.K, core.Hex32(thr),
					core.IDs(cmd.Filter), cmd.Ef, core.VecHex(q), out, sn.tail(idx)))
			}
			rex.n++
			mode := rexMode(rex.n)
			if mode == rexLater && cmd.Target == "entryvec" {
				mode = rexAgain
			}
			rex.put(mode, exec)
		}
	}
	rex.run()
	return append(lines, "end")
}

func nonTrivialHNSW(lines, replies []string) bool {
	syncAdds, goodSearch := 0, false
	for i := range lines {
		if i >= len(replies) {
			break
		}
		rp := replies[i]
		if strings.HasPrefix(rp, "KNOWN") {
			return false // cases that hit a known finding do not count
		}
		if strings.HasPrefix(rp, "ok add") && strings.Contains(rp, "sync=1") && kv(rp)["n"] >= 3 {
			syncAdds++
		}
		if strings.HasPrefix(rp, "ok search") && kv(rp)["n"] > 0 && !strings.Contains(rp, "tie=1") {
			goodSearch = true
		}
	}
	return syncAdds >= 3 && goodSearch
}

func init() {
	register(&core.Typed[hnswCase]{
		StreamName: "hnsw", Prop: "C12",
		RuleText: "Add/Remove/Flush histories on a real HNSWIndex (M 2..32, efConstruction/efSearch from M to 4n (capped at 512 in the cases with more than 600 vertices), dims 1..32, 3 metrics; Gaussian, clustered, duplicate-heavy and line-like low-dimensional data; distinct ids (0 included); removal targets resolved against the implementation: current entry point, highest level, highest layer-0 in-degree, random, absent; the pattern 'entry point plus all its layer-0 neighbours (small M: plus theirs), no Flush, then searches from the entry point's own position' and the pattern 'every resident vector removed, no Flush, then new vectors added and searched'; 40% of the cases start their ids at 0, so that vertex 0 is the first entry point); after every op the exported graph must equal the model's; a case is non-trivial when at least 3 additions with >= 3 resident vertices matched the model's graph exactly AND some search returned a non-empty answer that the model reproduced (and, in the small regime, the flat specification confirmed as exact) AND no known finding was hit; distinct = distinct request streams",
		NCases: func(tier string) int {
			if tier == "thorough" {
				return 2500
			}
			return 600
		},
		GenF:  genHNSW,
		ExecF: execHNSW,
		LenF:  func(c *hnswCase) int { return len(c.Cmds) },
		DropF: func(c *hnswCase, lo, hi int) *hnswCase {
			n := *c
			n.Cmds = append(append([]hnswCmd(nil), c.Cmds[:lo]...), c.Cmds[hi:]...)
			return &n
		},
		NonTrivialF: nonTrivialHNSW,
	})
}
