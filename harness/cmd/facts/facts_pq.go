package main

import "fmt"

// Anchored sites of C14 (pq_index.go, pq_index_search.go, ivfpq_index.go,
// ivfpq_index_search.go, clustering.go): constructor and Train gates, the arg-min
// comparisons, the code conversion, the search tail.
func init() {
	registerExtractor(Extractor{Name: "PQ", Run: func(p *Pkg) (string, error) {
		need := func(recv, name string) (string, error) {
			if p.Func(recv, name) == nil {
				return "", fmt.Errorf("%s.%s not found", recv, name)
			}
			return "", nil
		}
		for _, fn := range [][2]string{{"", "NewPQIndex"}, {"", "NewIVFPQIndex"}, {"PQIndex", "Train"},
			{"IVFPQIndex", "Train"}, {"PQIndex", "encode"}, {"IVFPQIndex", "encodeResidual"},
			{"", "FindNearestCentroidIndex"}, {"pqIndexSearch", "searchSingleQuery"},
			{"ivfpqIndexSearch", "searchSingleQuery"}, {"ivfpqIndexSearch", "asymmetricDistance"},
			{"PQIndex", "Add"}, {"IVFPQIndex", "Add"}} {
			if _, err := need(fn[0], fn[1]); err != nil {
				return "", err
			}
		}
		newPQ, newIV := p.Func("", "NewPQIndex"), p.Func("", "NewIVFPQIndex")
		trPQ, trIV := p.Func("PQIndex", "Train"), p.Func("IVFPQIndex", "Train")
		enc, encR := p.Func("PQIndex", "encode"), p.Func("IVFPQIndex", "encodeResidual")
		fnc := p.Func("", "FindNearestCentroidIndex")
		sPQ, sIV := p.Func("pqIndexSearch", "searchSingleQuery"), p.Func("ivfpqIndexSearch", "searchSingleQuery")
		adc := p.Func("ivfpqIndexSearch", "asymmetricDistance")
		b := ""
		b += "/-- the `Nbits` checks of the two constructors -/\n"
		b += "def nbitsConds : List String := " + LeanStrList(append(p.IfConds(newPQ, "Nbits"), p.IfConds(newIV, "nbits")...)) + "\n\n"
		b += "/-- the training-set size gates of PQIndex.Train and IVFPQIndex.Train, in source order -/\n"
		b += "def trainGates : List String := " + LeanStrList(append(p.IfConds(trPQ, "len(vectors)"), p.IfConds(trIV, "len(vectors)")...)) + "\n\n"
		b += "/-- the comparisons of the three arg-min loops -/\n"
		b += "def argminConds : List String := " + LeanStrList(append(append(p.IfConds(enc, "minDist"), p.IfConds(encR, "minDist")...), p.IfConds(fnc, "minDist")...)) + "\n\n"
		b += "/-- the conversions of the arg-min index into a code entry -/\n"
		b += "def codeCasts : List String := " + LeanStrList(append(p.Calls(enc, "uint8"), p.Calls(encR, "uint8")...)) + "\n\n"
		b += "/-- the threshold tests of the two searches -/\n"
		b += "def thresholdConds : List String := " + LeanStrList(append(p.IfConds(sPQ, "threshold"), p.IfConds(sIV, "threshold")...)) + "\n\n"
		b += "/-- the sanitizeK calls of the two searches -/\n"
		b += "def sanitizeCalls : List String := " + LeanStrList(append(p.Calls(sPQ, "sanitizeK"), p.Calls(sIV, "sanitizeK")...)) + "\n\n"
		b += "/-- the nprobes clamp -/\n"
		b += "def probeConds : List String := " + LeanStrList(p.IfConds(sIV, "nprobes")) + "\n\n"
		b += "/-- the square roots taken on the ADC sums -/\n"
		b += "def sqrtCalls : List String := " + LeanStrList(append(p.Calls(sPQ, "math.Sqrt"), p.Calls(adc, "math.Sqrt")...)) + "\n\n"
		b += "/-- the re-add purge of the two Add methods -/\n"
		b += "def readdConds : List String := " + LeanStrList(append(p.IfConds(p.Func("PQIndex", "Add"), "deletedNodes"), p.IfConds(p.Func("IVFPQIndex", "Add"), "deletedNodes")...)) + "\n"
		return b, nil
	}})
}
