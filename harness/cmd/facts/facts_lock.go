package main

// Anchored sites of C17 (storage_provider.go, storage.go): the flag set of the O_EXCL
// create, the clean-up before every error return that follows a successful lock
// acquisition, the order of the steps of Close / releaseLock / newStorageProvider /
// the flush worker's shutdown branch (incl. the yield points the harness parks at),
// and the `closed` guard of every exported method of PersistentHybridIndex.

import (
	"fmt"
	"go/ast"
	"go/token"
	"sort"
	"strings"
)

func init() {
	registerExtractor(Extractor{Name: "Lock", Run: lockFacts})
}

// orFlags flattens `a | b | c`.
func orFlags(p *Pkg, e ast.Expr) []string {
	if b, ok := e.(*ast.BinaryExpr); ok && b.Op == token.OR {
		return append(orFlags(p, b.X), orFlags(p, b.Y)...)
	}
	return []string{p.Src(e)}
}

// actions lists, in source order, the printed form of every statement-level action of fn
// that `keep` selects: call statements (incl. defer / go), assignments, if conditions
// (as "if <cond>") and returns.
func actions(p *Pkg, fn *ast.FuncDecl, keep func(kind, text string) bool) []string {
	var out []string
	add := func(kind, text string) {
		if keep(kind, text) {
			out = append(out, text)
		}
	}
	var stmt func(st ast.Stmt)
	block := func(b *ast.BlockStmt) {
		if b != nil {
			for _, st := range b.List {
				stmt(st)
			}
		}
	}
	stmt = func(st ast.Stmt) {
		switch s := st.(type) {
		case *ast.ExprStmt:
			add("call", p.Src(s.X))
		case *ast.AssignStmt:
			add("assign", p.Src(s))
		case *ast.IfStmt:
			if s.Init != nil {
				stmt(s.Init)
			}
			add("if", "if "+p.Src(s.Cond))
			block(s.Body)
			if s.Else != nil {
				stmt(s.Else)
			}
		case *ast.BlockStmt:
			block(s)
		case *ast.ForStmt:
			block(s.Body)
		case *ast.RangeStmt:
			block(s.Body)
		case *ast.SelectStmt:
			block(s.Body)
		case *ast.CommClause:
			for _, x := range s.Body {
				stmt(x)
			}
		case *ast.SwitchStmt:
			block(s.Body)
		case *ast.CaseClause:
			for _, x := range s.Body {
				stmt(x)
			}
		case *ast.ReturnStmt:
			add("return", p.Src(s))
		case *ast.GoStmt:
			add("call", "go "+p.Src(s.Call))
		case *ast.DeferStmt:
			add("call", "defer "+p.Src(s.Call))
		}
	}
	block(fn.Body)
	return out
}

type errReturn struct {
	text    string
	cleaned bool
}

// errorReturnsAfter finds every return of a non-nil error that follows (in source order)
// the first statement whose text contains `after`, and tells whether, inside the same
// block, all of the `cleanup` calls precede it.
func errorReturnsAfter(p *Pkg, fn *ast.FuncDecl, after string, cleanup [][]string) []errReturn {
	var out []errReturn
	var afterPos token.Pos = token.NoPos
	ast.Inspect(fn.Body, func(n ast.Node) bool {
		if afterPos != token.NoPos {
			return false
		}
		if c, ok := n.(*ast.CallExpr); ok && strings.Contains(p.Src(c.Fun), after) {
			afterPos = c.End()
		}
		return true
	})
	if afterPos == token.NoPos {
		return out
	}
	var visit func(b *ast.BlockStmt)
	visit = func(b *ast.BlockStmt) {
		for i, st := range b.List {
			switch s := st.(type) {
			case *ast.ReturnStmt:
				if s.Pos() < afterPos || len(s.Results) == 0 {
					continue
				}
				last := s.Results[len(s.Results)-1]
				if id, ok := last.(*ast.Ident); ok && id.Name == "nil" {
					continue
				}
				ok := true
				for _, alts := range cleanup {
					found := false
					for _, prev := range b.List[:i] {
						if es, isExpr := prev.(*ast.ExprStmt); isExpr {
							t := p.Src(es.X)
							for _, a := range alts {
								if t == a {
									found = true
								}
							}
						}
					}
					ok = ok && found
				}
				out = append(out, errReturn{srcNoText(p, s), ok})
			case *ast.IfStmt:
				// the `if err := X(); err != nil { return … }` that contains the call itself
				// is the failure of X, not a failure after X
				if s.Init != nil && s.Init.Pos() < afterPos && s.Init.End() >= afterPos {
					if s.Else != nil {
						if eb, ok := s.Else.(*ast.BlockStmt); ok {
							visit(eb)
						}
					}
					continue
				}
				visit(s.Body)
				if eb, ok := s.Else.(*ast.BlockStmt); ok {
					visit(eb)
				}
			case *ast.BlockStmt:
				visit(s)
			case *ast.ForStmt:
				visit(s.Body)
			case *ast.RangeStmt:
				visit(s.Body)
			}
		}
	}
	visit(fn.Body)
	return out
}

// srcNoText prints n with every string literal replaced by "…": what an error return SAYS is
// not a fact any property depends on (rewording a message preserves behaviour); which returns
// exist, in which order, what they wrap and what precedes them is.
func srcNoText(p *Pkg, n ast.Node) string {
	type saved struct {
		lit *ast.BasicLit
		val string
	}
	var lits []saved
	ast.Inspect(n, func(x ast.Node) bool {
		if l, ok := x.(*ast.BasicLit); ok && l.Kind == token.STRING {
			lits = append(lits, saved{l, l.Value})
			l.Value = "\"…\""
		}
		return true
	})
	out := p.Src(n)
	for _, sv := range lits {
		sv.lit.Value = sv.val
	}
	return out
}

func leanErrReturns(rs []errReturn) string {
	var q []string
	for _, r := range rs {
		q = append(q, fmt.Sprintf("(%s, %v)", LeanStr(r.text), r.cleaned))
	}
	return "[" + strings.Join(q, ", ") + "]"
}

// guardOf classifies the first statements of a method body.
func guardOf(p *Pkg, fn *ast.FuncDecl, mu, closed string) string {
	l := fn.Body.List
	src := func(i int) string {
		if i >= len(l) {
			return ""
		}
		return p.Src(l[i])
	}
	// `mu.RLock(); if closed { mu.RUnlock(); return …, <an error> }; mu.RUnlock()` — recognised by its
	// shape: the refusal returns a freshly made error (fmt.Errorf / errors.New) as its last result,
	// whatever that error says
	if src(0) == mu+".RLock()" && len(l) > 2 && src(2) == mu+".RUnlock()" {
		if is, ok := l[1].(*ast.IfStmt); ok && is.Init == nil && is.Else == nil && p.Src(is.Cond) == closed &&
			len(is.Body.List) == 2 && p.Src(is.Body.List[0]) == mu+".RUnlock()" {
			if rs, ok := is.Body.List[1].(*ast.ReturnStmt); ok && len(rs.Results) > 0 {
				if c, ok := rs.Results[len(rs.Results)-1].(*ast.CallExpr); ok {
					if f := p.Src(c.Fun); f == "fmt.Errorf" || f == "errors.New" {
						return "rlock-closed-test"
					}
				}
			}
		}
	}
	wguard := "if " + closed + " { " + mu + ".Unlock() return "
	if src(0) == mu+".Lock()" && strings.HasPrefix(src(1), wguard) && src(2) == closed+" = true" && src(3) == mu+".Unlock()" {
		return "lock-test-and-set"
	}
	return "none"
}

// fieldsUsed lists the fields of the receiver a method touches.
func fieldsUsed(fn *ast.FuncDecl) string {
	recv := ""
	if fn.Recv != nil && len(fn.Recv.List) == 1 && len(fn.Recv.List[0].Names) == 1 {
		recv = fn.Recv.List[0].Names[0].Name
	}
	set := map[string]bool{}
	ast.Inspect(fn.Body, func(n ast.Node) bool {
		if se, ok := n.(*ast.SelectorExpr); ok {
			if id, ok := se.X.(*ast.Ident); ok && id.Name == recv {
				set[se.Sel.Name] = true
			}
		}
		return true
	})
	var fs []string
	for f := range set {
		fs = append(fs, f)
	}
	sort.Strings(fs)
	return strings.Join(fs, ",")
}

func lockFacts(p *Pkg) (string, error) {
	need := func(recv, name string) (*ast.FuncDecl, error) {
		fn := p.Func(recv, name)
		if fn == nil || fn.Body == nil {
			return nil, fmt.Errorf("%s.%s not found", recv, name)
		}
		return fn, nil
	}
	acq, err := need("storageProvider", "acquireLock")
	if err != nil {
		return "", err
	}
	rel, err := need("storageProvider", "releaseLock")
	if err != nil {
		return "", err
	}
	pclose, err := need("storageProvider", "close")
	if err != nil {
		return "", err
	}
	nsp, err := need("", "newStorageProvider")
	if err != nil {
		return "", err
	}
	open, err := need("", "OpenPersistentHybridIndex")
	if err != nil {
		return "", err
	}
	cl, err := need("PersistentHybridIndex", "Close")
	if err != nil {
		return "", err
	}
	fw, err := need("PersistentHybridIndex", "flushWorker")
	if err != nil {
		return "", err
	}
	exe, err := need("persistentHybridSearch", "Execute")
	if err != nil {
		return "", err
	}

	b := ""
	// 1. the O_EXCL create
	var flags []string
	var lockPathExpr string
	ast.Inspect(acq.Body, func(n ast.Node) bool {
		if c, ok := n.(*ast.CallExpr); ok && p.Src(c.Fun) == "os.OpenFile" && len(c.Args) >= 2 {
			flags = orFlags(p, c.Args[1])
		}
		if a, ok := n.(*ast.AssignStmt); ok && len(a.Lhs) == 1 && p.Src(a.Lhs[0]) == "lockPath" {
			lockPathExpr = p.Src(a.Rhs[0])
		}
		return true
	})
	b += "/-- the flags or-ed together in the os.OpenFile call of acquireLock -/\n"
	b += "def acquireLockFlags : List String := " + LeanStrList(flags) + "\n\n"
	b += "/-- the path acquireLock creates -/\n"
	b += "def lockPathExpr : String := " + LeanStr(lockPathExpr) + "\n\n"
	b += "/-- the error tests of acquireLock, in source order -/\n"
	b += "def acquireLockIfs : List String := " + LeanStrList(actions(p, acq, func(k, t string) bool { return k == "if" })) + "\n\n"

	// 2. clean-up before every error return after the lock was taken
	b += "/-- acquireLock: error returns after the OpenFile call; true = lockFile.Close() and os.Remove(lockPath) precede it in its block\n    (the returns of OpenFile's own failure have nothing to clean up) -/\n"
	b += "def acquireLockErrorReturns : List (String × Bool) := " + leanErrReturns(errorReturnsAfter(p, acq, "os.OpenFile", [][]string{{"lockFile.Close()"}, {"os.Remove(lockPath)"}})) + "\n\n"
	b += "/-- newStorageProvider: error returns after acquireLock succeeded; true = provider.releaseLock() / provider.close() precedes it -/\n"
	b += "def newProviderErrorReturns : List (String × Bool) := " + leanErrReturns(errorReturnsAfter(p, nsp, "acquireLock", [][]string{{"provider.releaseLock()", "provider.close()"}})) + "\n\n"
	b += "/-- OpenPersistentHybridIndex: error returns after newStorageProvider succeeded; true = provider.close() / provider.releaseLock() precedes it -/\n"
	b += "def openErrorReturns : List (String × Bool) := " + leanErrReturns(errorReturnsAfter(p, open, "newStorageProvider", [][]string{{"provider.close()", "provider.releaseLock()"}})) + "\n\n"

	// 3. step order
	keepCalls := func(names ...string) func(k, t string) bool {
		return func(k, t string) bool {
			for _, n := range names {
				if strings.Contains(t, n) {
					return true
				}
			}
			return false
		}
	}
	b += "/-- newStorageProvider: the steps, in source order -/\n"
	b += "def newProviderSteps : List String := " + LeanStrList(actions(p, nsp, keepCalls("MkdirAll", "acquireLock", "initSegmentCounter", "releaseLock", "verifPoint", "return provider"))) + "\n\n"
	b += "/-- OpenPersistentHybridIndex: the steps that touch the directory or start the workers -/\n"
	b += "def openSteps : List String := " + LeanStrList(actions(p, open, keepCalls("newStorageProvider", "listSegments", "provider.close", "go storage.", "wg.Add", "return storage"))) + "\n\n"
	b += "/-- releaseLock: the steps, in source order -/\n"
	b += "def releaseLockSteps : List String := " + LeanStrList(actions(p, rel, func(k, t string) bool { return k != "return" || t == "return nil" })) + "\n\n"
	b += "/-- storageProvider.close -/\n"
	b += "def providerCloseSteps : List String := " + LeanStrList(actions(p, pclose, func(k, t string) bool { return true })) + "\n\n"
	b += "/-- Close: the steps, in source order -/\n"
	b += "def closeSteps : List String := " + LeanStrList(actions(p, cl, func(k, t string) bool { return k != "return" })) + "\n\n"
	// the shutdown branch of the flush worker
	var final []string
	ast.Inspect(fw.Body, func(n ast.Node) bool {
		if cc, ok := n.(*ast.CommClause); ok && cc.Comm != nil && strings.Contains(p.Src(cc.Comm), "closeChan") {
			for _, st := range cc.Body {
				final = append(final, p.Src(st))
			}
		}
		return true
	})
	b += "/-- flushWorker: the body of the `<-s.closeChan` branch -/\n"
	b += "def flushWorkerShutdown : List String := " + LeanStrList(final) + "\n\n"
	b += "/-- flushWorker: deferred calls -/\n"
	b += "def flushWorkerDefers : List String := " + LeanStrList(actions(p, fw, func(k, t string) bool { return strings.HasPrefix(t, "defer ") })) + "\n\n"

	// 4. the closed guard of every exported method
	type m struct{ name, guard, fields string }
	var ms []m
	for _, f := range p.Files {
		for _, d := range f.Decls {
			fd, ok := d.(*ast.FuncDecl)
			if !ok || fd.Recv == nil || fd.Body == nil || !fd.Name.IsExported() {
				continue
			}
			t := fd.Recv.List[0].Type
			if s, ok := t.(*ast.StarExpr); ok {
				t = s.X
			}
			if id, ok := t.(*ast.Ident); !ok || id.Name != "PersistentHybridIndex" {
				continue
			}
			ms = append(ms, m{fd.Name.Name, guardOf(p, fd, "s.mu", "s.closed"), fieldsUsed(fd)})
		}
	}
	sort.Slice(ms, func(i, j int) bool { return ms[i].name < ms[j].name })
	var q []string
	for _, x := range ms {
		q = append(q, fmt.Sprintf("(%s, %s, %s)", LeanStr(x.name), LeanStr(x.guard), LeanStr(x.fields)))
	}
	b += "/-- every exported method of *PersistentHybridIndex: (name, guard at the start of the body, receiver fields used) -/\n"
	b += "def exportedMethods : List (String × String × String) := [" + strings.Join(q, ", ") + "]\n\n"
	b += "/-- the guard of persistentHybridSearch.Execute (reached through NewSearch) -/\n"
	b += "def executeGuard : String := " + LeanStr(guardOf(p, exe, "s.storage.mu", "s.storage.closed")) + "\n"
	return b, nil
}
