package main

import "fmt"

// Anchored sites of C01 (flat_index_search.go / flat_index.go / limiter.go).
func init() {
	registerExtractor(Extractor{Name: "Flat", Run: func(p *Pkg) (string, error) {
		ss := p.Func("flatIndexSearch", "searchSingleQuery")
		if ss == nil {
			return "", fmt.Errorf("flatIndexSearch.searchSingleQuery not found")
		}
		sk := p.Func("", "sanitizeK")
		if sk == nil {
			return "", fmt.Errorf("sanitizeK not found")
		}
		rm := p.Func("FlatIndex", "Remove")
		if rm == nil {
			return "", fmt.Errorf("FlatIndex.Remove not found")
		}
		b := ""
		b += "/-- conditions of the `if`s in flatIndexSearch.searchSingleQuery that mention the threshold -/\n"
		b += "def thresholdConds : List String := " + LeanStrList(p.IfConds(ss, "threshold")) + "\n\n"
		b += "/-- the sanitizeK calls of searchSingleQuery, in source order -/\n"
		b += "def sanitizeCalls : List String := " + LeanStrList(p.Calls(ss, "sanitizeK")) + "\n\n"
		b += "/-- the skip conditions (deleted / filtered) of the scan loop -/\n"
		b += "def skipConds : List String := " + LeanStrList(append(p.IfConds(ss, "deletedNodes"), p.IfConds(ss, "docFilter")...)) + "\n\n"
		b += "/-- the condition of sanitizeK -/\n"
		b += "def sanitizeKConds : List String := " + LeanStrList(p.IfConds(sk, "k")) + "\n\n"
		b += "/-- the sort comparator of searchSingleQuery -/\n"
		b += "def sortCalls : List String := " + LeanStrList(p.Calls(ss, "sort.Slice")) + "\n"
		return b, nil
	}})
}
