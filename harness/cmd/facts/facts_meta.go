package main

import (
	"fmt"
	"go/ast"
	"strings"
)

// Anchored sites of C04 (metadata_index.go): the operator table of Not, the prefix
// test of getExistenceBitmap, the *100 fixed-point conversions, the BSI constructor
// call, the value types Add accepts.
func init() {
	registerExtractor(Extractor{Name: "Meta", Run: func(p *Pkg) (string, error) {
		not := p.Func("", "Not")
		if not == nil {
			return "", fmt.Errorf("func Not not found")
		}
		ge := p.Func("RoaringMetadataIndex", "getExistenceBitmap")
		if ge == nil {
			return "", fmt.Errorf("RoaringMetadataIndex.getExistenceBitmap not found")
		}
		add := p.Func("RoaringMetadataIndex", "Add")
		if add == nil {
			return "", fmt.Errorf("RoaringMetadataIndex.Add not found")
		}
		an := p.Func("RoaringMetadataIndex", "addNumeric")
		if an == nil {
			return "", fmt.Errorf("RoaringMetadataIndex.addNumeric not found")
		}
		ti := p.Func("", "toInt64")
		if ti == nil {
			return "", fmt.Errorf("func toInt64 not found")
		}
		// operator constants: name -> string value
		consts := map[string]string{}
		for _, f := range p.Files {
			for _, d := range f.Decls {
				gd, ok := d.(*ast.GenDecl)
				if !ok {
					continue
				}
				for _, sp := range gd.Specs {
					vs, ok := sp.(*ast.ValueSpec)
					if !ok || vs.Type == nil || p.Src(vs.Type) != "Operator" {
						continue
					}
					for i, n := range vs.Names {
						if i < len(vs.Values) {
							consts[n.Name] = strings.Trim(p.Src(vs.Values[i]), `"`)
						}
					}
				}
			}
		}
		val := func(e ast.Expr) string {
			s := p.Src(e)
			if v, ok := consts[s]; ok {
				return v
			}
			return "?" + s
		}
		// the switch of Not: "from->to" per case, in source order
		var table []string
		ast.Inspect(not, func(n ast.Node) bool {
			cc, ok := n.(*ast.CaseClause)
			if !ok {
				return true
			}
			to := "?"
			for _, st := range cc.Body {
				if as, ok := st.(*ast.AssignStmt); ok && len(as.Lhs) == 1 && len(as.Rhs) == 1 &&
					p.Src(as.Lhs[0]) == "filter.Operator" {
					to = val(as.Rhs[0])
				}
			}
			if cc.List == nil {
				table = append(table, "default->"+to)
			}
			for _, e := range cc.List {
				table = append(table, val(e)+"->"+to)
			}
			return true
		})
		// int64(...) conversions
		convs := func(fn *ast.FuncDecl) []string {
			var out []string
			ast.Inspect(fn, func(n ast.Node) bool {
				if c, ok := n.(*ast.CallExpr); ok && p.Src(c.Fun) == "int64" {
					out = append(out, p.Src(c))
				}
				return true
			})
			return out
		}
		// the types accepted by the type switches of Add / validateMetadata
		types := func(fn *ast.FuncDecl) []string {
			var out []string
			if fn == nil {
				return out
			}
			ast.Inspect(fn, func(n ast.Node) bool {
				ts, ok := n.(*ast.TypeSwitchStmt)
				if !ok {
					return true
				}
				for _, st := range ts.Body.List {
					cc := st.(*ast.CaseClause)
					if cc.List == nil {
						out = append(out, "default")
					}
					for _, e := range cc.List {
						out = append(out, p.Src(e))
					}
				}
				return false
			})
			return out
		}
		b := ""
		b += "/-- the switch of `Not`: `from->to` operator strings per case, in source order -/\n"
		b += "def notTable : List String := " + LeanStrList(table) + "\n\n"
		b += "/-- conditions of the `if`s in getExistenceBitmap that mention the prefix -/\n"
		b += "def prefixConds : List String := " + LeanStrList(p.IfConds(ge, "prefix")) + "\n\n"
		b += "/-- the int64(…) conversions of Add, in source order -/\n"
		b += "def addConversions : List String := " + LeanStrList(convs(add)) + "\n\n"
		b += "/-- the int64(…) conversions of toInt64, in source order -/\n"
		b += "def operandConversions : List String := " + LeanStrList(convs(ti)) + "\n\n"
		b += "/-- the BSI constructor call of addNumeric -/\n"
		b += "def newBSICalls : List String := " + LeanStrList(p.Calls(an, "NewBSI")) + "\n\n"
		b += "/-- the case types of Add's type switch -/\n"
		b += "def addTypes : List String := " + LeanStrList(types(add)) + "\n\n"
		b += "/-- the case types of validateMetadata's type switch ([] when the function does not exist) -/\n"
		b += "def validateTypes : List String := " + LeanStrList(types(p.Func("", "validateMetadata"))) + "\n\n"
		b += "/-- statements of Add before the metadata loop that call validateMetadata -/\n"
		b += "def validateCalls : List String := " + LeanStrList(p.Calls(add, "validateMetadata")) + "\n"
		return b, nil
	}})
}
