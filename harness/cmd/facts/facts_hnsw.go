package main

import (
	"fmt"
	"go/ast"
	"strings"
)

// Anchored sites of C12 (hnsw_index.go / hnsw_index_search.go).
func init() {
	registerExtractor(Extractor{Name: "HNSW", Run: func(p *Pkg) (string, error) {
		add := p.Func("HNSWIndex", "Add")
		ins := p.Func("HNSWIndex", "insertNode")
		sl := p.Func("HNSWIndex", "searchLayer")
		pr := p.Func("HNSWIndex", "pruneConnections")
		minLess := p.Func("minHeap", "Less")
		maxLess := p.Func("maxHeap", "Less")
		for name, f := range map[string]*ast.FuncDecl{"HNSWIndex.Add": add, "HNSWIndex.insertNode": ins,
			"HNSWIndex.searchLayer": sl, "HNSWIndex.pruneConnections": pr, "minHeap.Less": minLess, "maxHeap.Less": maxLess} {
			if f == nil {
				return "", fmt.Errorf("%s not found", name)
			}
		}
		// statements of Add that register the node or link it, in source order
		var order []string
		ast.Inspect(add, func(n ast.Node) bool {
			switch s := n.(type) {
			case *ast.AssignStmt:
				if len(s.Lhs) == 1 && strings.HasPrefix(p.Src(s.Lhs[0]), "idx.nodes[") {
					order = append(order, p.Src(s))
				}
			case *ast.ExprStmt:
				if strings.Contains(p.Src(s), "insertNode(") {
					order = append(order, p.Src(s))
				}
			}
			return true
		})
		// the neighbour cap per layer in insertNode: statements that assign M, and the guard of the doubling
		var capStmts []string
		ast.Inspect(ins, func(n ast.Node) bool {
			switch s := n.(type) {
			case *ast.AssignStmt:
				if len(s.Lhs) == 1 && p.Src(s.Lhs[0]) == "M" {
					capStmts = append(capStmts, p.Src(s))
				}
			case *ast.IfStmt:
				if strings.Contains(p.Src(s.Cond), "lc == 0") || strings.Contains(p.Src(s.Cond), "> M") {
					capStmts = append(capStmts, "if "+p.Src(s.Cond))
				}
			}
			return true
		})
		retOf := func(f *ast.FuncDecl) []string {
			var out []string
			ast.Inspect(f, func(n ast.Node) bool {
				if r, ok := n.(*ast.ReturnStmt); ok {
					out = append(out, p.Src(r))
				}
				return true
			})
			return out
		}
		b := ""
		b += "/-- HNSWIndex.Add: the statements that register the node in idx.nodes or link it, in source order -/\n"
		b += "def addOrder : List String := " + LeanStrList(order) + "\n\n"
		b += "/-- HNSWIndex.Add: the conditions under which flushLocked runs first -/\n"
		b += "def addFlushConds : List String := " + LeanStrList(p.IfConds(add, "deletedNodes")) + "\n\n"
		b += "/-- HNSWIndex.insertNode: how the per-layer neighbour cap M is computed and used -/\n"
		b += "def capStmts : List String := " + LeanStrList(capStmts) + "\n\n"
		b += "/-- HNSWIndex.searchLayer: every `if` condition, in source order -/\n"
		b += "def searchLayerConds : List String := " + LeanStrList(p.IfConds(sl, "")) + "\n\n"
		b += "/-- HNSWIndex.pruneConnections: every `if` condition, in source order -/\n"
		b += "def pruneConds : List String := " + LeanStrList(p.IfConds(pr, "")) + "\n\n"
		b += "/-- the heap orders -/\n"
		b += "def minHeapLess : List String := " + LeanStrList(retOf(minLess)) + "\n"
		b += "def maxHeapLess : List String := " + LeanStrList(retOf(maxLess)) + "\n"
		return b, nil
	}})
}
