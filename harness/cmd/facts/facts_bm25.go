package main

import (
	"fmt"
	"go/ast"
	"go/token"
)

// constValue returns the printed value expression of a package-level constant.
func (p *Pkg) constValue(name string) (string, bool) {
	for _, f := range p.Files {
		for _, d := range f.Decls {
			gd, ok := d.(*ast.GenDecl)
			if !ok || gd.Tok != token.CONST {
				continue
			}
			for _, sp := range gd.Specs {
				vs := sp.(*ast.ValueSpec)
				for i, n := range vs.Names {
					if n.Name == name && i < len(vs.Values) {
						return p.Src(vs.Values[i]), true
					}
				}
			}
		}
	}
	return "", false
}

// assignRHS returns the printed right-hand sides of every `name := …` / `name = …` in fn.
func (p *Pkg) assignRHS(fn *ast.FuncDecl, name string) []string {
	var out []string
	ast.Inspect(fn, func(n ast.Node) bool {
		if a, ok := n.(*ast.AssignStmt); ok && len(a.Lhs) == 1 && len(a.Rhs) == 1 {
			if id, ok := a.Lhs[0].(*ast.Ident); ok && id.Name == name {
				out = append(out, p.Src(a.Rhs[0]))
			}
		}
		return true
	})
	return out
}

// returns lists the printed results of every return statement of fn.
func (p *Pkg) returns(fn *ast.FuncDecl) []string {
	var out []string
	ast.Inspect(fn, func(n ast.Node) bool {
		if r, ok := n.(*ast.ReturnStmt); ok && len(r.Results) == 1 {
			out = append(out, p.Src(r.Results[0]))
		}
		return true
	})
	return out
}

// Anchored sites of C03 (bm25_index.go / bm25_index_search.go).
func init() {
	registerExtractor(Extractor{Name: "BM25", Run: func(p *Pkg) (string, error) {
		ss := p.Func("bm25TextSearch", "searchSingleQuery")
		if ss == nil {
			return "", fmt.Errorf("bm25TextSearch.searchSingleQuery not found")
		}
		less := p.Func("resultHeap", "Less")
		if less == nil {
			return "", fmt.Errorf("resultHeap.Less not found")
		}
		add := p.Func("BM25SearchIndex", "Add")
		if add == nil {
			return "", fmt.Errorf("BM25SearchIndex.Add not found")
		}
		k1, ok1 := p.constValue("K1")
		bb, ok2 := p.constValue("B")
		if !ok1 || !ok2 {
			return "", fmt.Errorf("constants K1 / B not found")
		}
		b := ""
		b += "/-- `const K1`, `const B` -/\n"
		b += "def k1 : String := " + LeanStr(k1) + "\n"
		b += "def b : String := " + LeanStr(bb) + "\n\n"
		b += "/-- right-hand sides of `N :=`, `df :=`, `idf :=`, `score :=` in searchSingleQuery -/\n"
		b += "def nExpr : List String := " + LeanStrList(p.assignRHS(ss, "N")) + "\n"
		b += "def dfExpr : List String := " + LeanStrList(p.assignRHS(ss, "df")) + "\n"
		b += "def idfExpr : List String := " + LeanStrList(p.assignRHS(ss, "idf")) + "\n"
		b += "def scoreExpr : List String := " + LeanStrList(p.assignRHS(ss, "score")) + "\n\n"
		b += "/-- the skip conditions of the posting loop -/\n"
		b += "def skipConds : List String := " + LeanStrList(append(p.IfConds(ss, "deletedDocs"), p.IfConds(ss, "docFilter")...)) + "\n\n"
		b += "/-- full-sort vs heap branch, and the heap replacement test -/\n"
		b += "def branchConds : List String := " + LeanStrList(p.IfConds(ss, "len(scores)")) + "\n"
		b += "def replaceConds : List String := " + LeanStrList(p.IfConds(ss, "(*h)[0]")) + "\n"
		b += "def heapLess : List String := " + LeanStrList(p.returns(less)) + "\n\n"
		b += "/-- `Add` clears the tombstone of the id it (re-)adds -/\n"
		b += "def addTombCalls : List String := " + LeanStrList(p.Calls(add, "deletedDocs")) + "\n"
		return b, nil
	}})
}
