package main

// Anchored sites of C08 / C09 / C10 (storage.go, storage_memtable.go, storage_segment.go,
// storage_compaction.go, storage_provider.go): the orders and conditions the store model
// (lean/Comet/Storage/*.lean) transcribes and that random traces detect poorly or only
// indirectly (order of file operations, which file identifies a segment, which memtable
// Remove / listFrozen / maybeCompact pick, the counter's initialisation).

import (
	"fmt"
	"go/ast"
	"strings"
)

// callsMatching returns, in source order, the printed calls of fn whose printed callee
// contains one of the given substrings (verifPoint calls are never included).
func (p *Pkg) storeCalls(fn *ast.FuncDecl, subs ...string) []string {
	var out []string
	if fn == nil {
		return out
	}
	ast.Inspect(fn, func(n ast.Node) bool {
		if c, ok := n.(*ast.CallExpr); ok {
			f := p.Src(c.Fun)
			if f == "verifPoint" {
				return true
			}
			for _, s := range subs {
				if strings.Contains(f, s) {
					out = append(out, p.Src(c))
					break
				}
			}
		}
		return true
	})
	return out
}

// exprsMatching returns, in source order, printed composite literals, slice and index
// expressions of fn that contain `mention`.
func (p *Pkg) storeExprs(fn *ast.FuncDecl, mention string) []string {
	var out []string
	if fn == nil {
		return out
	}
	ast.Inspect(fn, func(n ast.Node) bool {
		switch e := n.(type) {
		case *ast.CompositeLit, *ast.SliceExpr, *ast.IndexExpr:
			s := p.Src(e.(ast.Expr))
			if strings.Contains(s, mention) {
				out = append(out, s)
			}
		}
		return true
	})
	return out
}

// returns lists the printed results of every return statement of fn.
func (p *Pkg) storeReturns(fn *ast.FuncDecl) []string {
	var out []string
	if fn == nil {
		return out
	}
	ast.Inspect(fn, func(n ast.Node) bool {
		if r, ok := n.(*ast.ReturnStmt); ok {
			parts := make([]string, len(r.Results))
			for i, e := range r.Results {
				parts[i] = p.Src(e)
			}
			out = append(out, strings.Join(parts, ", "))
		}
		return true
	})
	return out
}

// assignsTo lists printed assignments of fn whose left side contains `lhs`.
func (p *Pkg) storeAssigns(fn *ast.FuncDecl, lhs string) []string {
	var out []string
	if fn == nil {
		return out
	}
	ast.Inspect(fn, func(n ast.Node) bool {
		if a, ok := n.(*ast.AssignStmt); ok && len(a.Lhs) > 0 && strings.Contains(p.Src(a.Lhs[0]), lhs) {
			out = append(out, p.Src(a))
		}
		return true
	})
	return out
}

// storeReach: fn followed by the package-level functions it calls (transitively, each once, in
// first-call order) — so that a fact about WHAT is parsed / compared does not depend on whether the
// code sits in the function itself or in a helper it shares with others.
func (p *Pkg) storeReach(fn *ast.FuncDecl) []*ast.FuncDecl {
	out := []*ast.FuncDecl{}
	seen := map[*ast.FuncDecl]bool{}
	var visit func(f *ast.FuncDecl)
	visit = func(f *ast.FuncDecl) {
		if f == nil || seen[f] {
			return
		}
		seen[f] = true
		out = append(out, f)
		ast.Inspect(f, func(n ast.Node) bool {
			if c, ok := n.(*ast.CallExpr); ok {
				if id, ok := c.Fun.(*ast.Ident); ok {
					visit(p.Func("", id.Name))
				}
			}
			return true
		})
	}
	visit(fn)
	return out
}

// storeCallShapes: over storeReach(fn), the calls whose callee contains one of subs, printed as
// callee(args) with every non-literal argument replaced by "_" (names of variables do not matter).
func (p *Pkg) storeCallShapes(fn *ast.FuncDecl, subs ...string) []string {
	var out []string
	for _, f := range p.storeReach(fn) {
		ast.Inspect(f, func(n ast.Node) bool {
			c, ok := n.(*ast.CallExpr)
			if !ok {
				return true
			}
			callee := p.Src(c.Fun)
			for _, s := range subs {
				if strings.Contains(callee, s) {
					args := make([]string, len(c.Args))
					for i, a := range c.Args {
						if lit, ok := a.(*ast.BasicLit); ok {
							args[i] = lit.Value
						} else {
							args[i] = "_"
						}
					}
					out = append(out, callee+"("+strings.Join(args, ", ")+")")
					break
				}
			}
			return true
		})
	}
	return out
}

// storeCompares: over storeReach(fn), the comparisons (sub-expressions of any condition) that
// mention `ident`.
func (p *Pkg) storeCompares(fn *ast.FuncDecl, ident string) []string {
	var out []string
	for _, f := range p.storeReach(fn) {
		ast.Inspect(f, func(n ast.Node) bool {
			if b, ok := n.(*ast.BinaryExpr); ok {
				switch b.Op.String() {
				case "<", "<=", ">", ">=", "==", "!=":
					s := p.Src(b)
					if strings.Contains(s, ident) {
						out = append(out, s)
					}
				}
			}
			return true
		})
	}
	return out
}

// storeLitIndexes: over storeReach(fn), index expressions with a literal index, as "_[i]".
func (p *Pkg) storeLitIndexes(fn *ast.FuncDecl) []string {
	var out []string
	for _, f := range p.storeReach(fn) {
		ast.Inspect(f, func(n ast.Node) bool {
			if ix, ok := n.(*ast.IndexExpr); ok {
				if lit, ok := ix.Index.(*ast.BasicLit); ok {
					out = append(out, "_["+lit.Value+"]")
				}
			}
			return true
		})
	}
	return out
}

func init() {
	registerExtractor(Extractor{Name: "Store", Run: func(p *Pkg) (string, error) {
		need := func(recv, name string) (*ast.FuncDecl, error) {
			f := p.Func(recv, name)
			if f == nil {
				return nil, fmt.Errorf("%s.%s not found", recv, name)
			}
			return f, nil
		}
		type site struct{ recv, name string }
		fns := map[string]*ast.FuncDecl{}
		for _, s := range []site{
			{"PersistentHybridIndex", "flushMemtable"}, {"PersistentHybridIndex", "flushMemtables"},
			{"PersistentHybridIndex", "writeIndexToSegment"}, {"PersistentHybridIndex", "compactSegments"},
			{"PersistentHybridIndex", "maybeCompact"}, {"PersistentHybridIndex", "Remove"},
			{"PersistentHybridIndex", "Flush"}, {"PersistentHybridIndex", "Close"},
			{"PersistentHybridIndex", "flushWorker"},
			{"storageProvider", "listSegments"}, {"storageProvider", "deleteSegment"},
			{"storageProvider", "initSegmentCounter"}, {"storageProvider", "nextSegmentID"},
			{"memtable", "hasRoomFor"}, {"memtableQueue", "listFrozen"}, {"memtableQueue", "rotateNoLock"},
			{"memtableQueue", "remove"}, {"segmentMetadata", "getIndex"}, {"segmentManager", "remove"},
		} {
			f, err := need(s.recv, s.name)
			if err != nil {
				return "", err
			}
			fns[s.recv+"."+s.name] = f
		}
		b := ""
		def := func(doc, name string, v []string) {
			b += "/-- " + doc + " -/\ndef " + name + " : List String := " + LeanStrList(v) + "\n\n"
		}
		def("flushMemtable: os.Create / WriteTo / gzip Close / register, in source order", "flushFileOps",
			p.storeCalls(fns["PersistentHybridIndex.flushMemtable"], "os.Create", "idx.WriteTo", "Gz.Close", "segmentManager.add", "nextSegmentID"))
		def("writeIndexToSegment: os.Create / WriteTo / gzip Close, in source order", "segwriteFileOps",
			p.storeCalls(fns["PersistentHybridIndex.writeIndexToSegment"], "os.Create", "idx.WriteTo", "Gz.Close"))
		def("flushMemtables: which memtables, and flush before queue.remove", "flushLoopCalls",
			p.storeCalls(fns["PersistentHybridIndex.flushMemtables"], "listFrozen", "flushMemtable", "memtableQueue.remove"))
		def("Flush: what it flushes", "flushCalls", p.storeCalls(fns["PersistentHybridIndex.Flush"], "flushMemtables", "Rotate", "rotate"))
		def("flushWorker: calls of flushMemtables (signal round, final round)", "flushWorkerCalls",
			p.storeCalls(fns["PersistentHybridIndex.flushWorker"], "flushMemtables"))
		def("Close: order of close(closeChan) / wg.Wait / provider.close", "closeCalls",
			p.storeCalls(fns["PersistentHybridIndex.Close"], "close", "Wait", "flushMemtables", "Rotate"))
		def("compactSegments: load sources, new id, write, register, unregister, delete — in source order", "compactCalls",
			p.storeCalls(fns["PersistentHybridIndex.compactSegments"], "getIndex", "nextSegmentID", "writeIndexToSegment",
				"segmentManager.add", "segmentManager.remove", "deleteSegment", "mergedIndex.Add", "AddWithID"))
		def("maybeCompact: threshold test", "compactConds", p.IfConds(fns["PersistentHybridIndex.maybeCompact"], "CompactionThreshold"))
		def("maybeCompact: which segments", "compactSlice", p.storeExprs(fns["PersistentHybridIndex.maybeCompact"], "CompactionThreshold"))
		def("Remove: which memtable is consulted", "removeIndex", p.storeExprs(fns["PersistentHybridIndex.Remove"], "memtables["))
		def("listSegments: which file identifies a segment", "listPrefix", p.storeCalls(fns["storageProvider.listSegments"], "strings.HasPrefix"))
		def("deleteSegment: order of the removed files", "deleteOrder", p.storeExprs(fns["storageProvider.deleteSegment"], "[]string{"))
		def("initSegmentCounter (with the helpers it calls): how a file name is parsed — split at \"_\", second part, suffixes trimmed, decimal", "counterParse",
			append(p.storeCallShapes(fns["storageProvider.initSegmentCounter"], "strings.Split", "strings.TrimSuffix", "strconv.ParseUint"),
				p.storeLitIndexes(fns["storageProvider.initSegmentCounter"])...))
		def("initSegmentCounter (with helpers): no test restricts the KIND of file that counts", "counterKindFilter",
			p.storeCallShapes(fns["storageProvider.initSegmentCounter"], "strings.HasPrefix", "strings.HasSuffix"))
		def("initSegmentCounter (with helpers): the running maximum", "counterMax",
			p.storeCompares(fns["storageProvider.initSegmentCounter"], "maxSegmentID"))
		def("initSegmentCounter: the value stored", "counterStore", p.storeCalls(fns["storageProvider.initSegmentCounter"], "segmentCounter.Store"))
		def("nextSegmentID", "nextID", p.storeReturns(fns["storageProvider.nextSegmentID"]))
		def("memtable.hasRoomFor: results", "hasRoomReturns", p.storeReturns(fns["memtable.hasRoomFor"]))
		def("memtableQueue.listFrozen: the slice returned", "listFrozenSlice", p.storeExprs(fns["memtableQueue.listFrozen"], "mq.queue["))
		def("memtableQueue.rotateNoLock: freeze, then append a new mutable memtable", "rotateCalls",
			p.storeCalls(fns["memtableQueue.rotateNoLock"], "freeze", "newMemtable", "append"))
		def("memtableQueue.remove: the guard that keeps the last element", "queueRemoveConds", p.IfConds(fns["memtableQueue.remove"], "len(mq.queue)"))
		def("segmentManager.remove: swap with the last element, truncate", "segRemoveAssigns", p.storeAssigns(fns["segmentManager.remove"], "sm.segments"))
		def("segmentMetadata.getIndex: order of os.Open, the deserialisation, the drain that verifies the last gzip trailer, the caching", "getIndexOps",
			append(p.storeCalls(fns["segmentMetadata.getIndex"], "os.Open", "ReadFrom", "NewHybridSearchIndex", "io.Copy"), p.storeAssigns(fns["segmentMetadata.getIndex"], "s.cachedIndex")...))
		return b, nil
	}})
}
