package main

import (
	"fmt"
	"go/ast"
)

// rootIdent returns the identifier at the root of an lvalue (x, x[i], x.f, *x …).
func rootIdent(e ast.Expr) string {
	for {
		switch t := e.(type) {
		case *ast.Ident:
			return t.Name
		case *ast.IndexExpr:
			e = t.X
		case *ast.SelectorExpr:
			e = t.X
		case *ast.StarExpr:
			e = t.X
		case *ast.ParenExpr:
			e = t.X
		case *ast.SliceExpr:
			e = t.X
		default:
			return ""
		}
	}
}

// WritesTo returns the printed statements of fn that assign to (an element of) name:
// assignments, op-assignments, ++/--, and calls copy(name…, …) / append(name…).
func (p *Pkg) WritesTo(fn *ast.FuncDecl, name string) []string {
	out := []string{}
	if fn == nil {
		return out
	}
	ast.Inspect(fn, func(n ast.Node) bool {
		switch s := n.(type) {
		case *ast.AssignStmt:
			for _, l := range s.Lhs {
				if _, plain := l.(*ast.Ident); plain && s.Tok.String() == ":=" {
					continue
				}
				if rootIdent(l) == name {
					out = append(out, p.Src(s))
				}
			}
		case *ast.IncDecStmt:
			if rootIdent(s.X) == name {
				out = append(out, p.Src(s))
			}
		case *ast.CallExpr:
			if id, ok := s.Fun.(*ast.Ident); ok && (id.Name == "copy" || id.Name == "append") && len(s.Args) > 0 && rootIdent(s.Args[0]) == name {
				out = append(out, p.Src(s))
			}
		}
		return true
	})
	return out
}

// Returns lists the printed return statements of fn in source order.
func (p *Pkg) Returns(fn *ast.FuncDecl) []string {
	out := []string{}
	if fn == nil {
		return out
	}
	ast.Inspect(fn, func(n ast.Node) bool {
		if r, ok := n.(*ast.ReturnStmt); ok {
			out = append(out, p.Src(r))
		}
		return true
	})
	return out
}

// Anchored sites of C18 (distance.go).
func init() {
	registerExtractor(Extractor{Name: "Dist", Run: func(p *Pkg) (string, error) {
		need := func(recv, name string) (*ast.FuncDecl, error) {
			f := p.Func(recv, name)
			if f == nil {
				return nil, fmt.Errorf("%s.%s not found", recv, name)
			}
			return f, nil
		}
		b := ""
		for _, recv := range []string{"euclidean", "l2Squared", "cosine"} {
			calc, err := need(recv, "Calculate")
			if err != nil {
				return "", err
			}
			batch, err := need(recv, "CalculateBatch")
			if err != nil {
				return "", err
			}
			pre, err := need(recv, "Preprocess")
			if err != nil {
				return "", err
			}
			inpl, err := need(recv, "PreprocessInPlace")
			if err != nil {
				return "", err
			}
			b += fmt.Sprintf("/-- %s: return statements of Calculate -/\ndef %sCalcReturns : List String := %s\n", recv, recv, LeanStrList(p.Returns(calc)))
			b += fmt.Sprintf("/-- %s: if-conditions of Calculate / CalculateBatch -/\ndef %sCalcConds : List String := %s\ndef %sBatchConds : List String := %s\n",
				recv, recv, LeanStrList(p.IfConds(calc, "")), recv, LeanStrList(p.IfConds(batch, "")))
			b += fmt.Sprintf("/-- %s: statements of Calculate / CalculateBatch that write to an argument -/\ndef %sCalcArgWrites : List String := %s\n",
				recv, recv, LeanStrList(append(append(append(p.WritesTo(calc, "a"), p.WritesTo(calc, "b")...), p.WritesTo(batch, "queries")...), p.WritesTo(batch, "target")...)))
			b += fmt.Sprintf("/-- %s: Preprocess — writes to its argument, conditions, returns -/\ndef %sPreWrites : List String := %s\ndef %sPreConds : List String := %s\ndef %sPreReturns : List String := %s\n",
				recv, recv, LeanStrList(p.WritesTo(pre, "target")), recv, LeanStrList(p.IfConds(pre, "")), recv, LeanStrList(p.Returns(pre)))
			b += fmt.Sprintf("/-- %s: PreprocessInPlace — writes to its argument, conditions -/\ndef %sInPlaceWrites : List String := %s\ndef %sInPlaceConds : List String := %s\n\n",
				recv, recv, LeanStrList(p.WritesTo(inpl, "target")), recv, LeanStrList(p.IfConds(inpl, "")))
		}
		cos, _ := need("cosine", "Calculate")
		b += "/-- cosine.Calculate: assignments to dot (accumulation and clamp) -/\n"
		b += "def cosineDotWrites : List String := " + LeanStrList(p.WritesTo(cos, "dot")) + "\n"
		for _, h := range []string{"Norm", "Scale", "Normalize", "NormalizeInPlace"} {
			f, err := need("", h)
			if err != nil {
				return "", err
			}
			b += fmt.Sprintf("/-- %s: writes to its argument, conditions, returns -/\ndef %sWrites : List String := %s\ndef %sConds : List String := %s\ndef %sReturns : List String := %s\n",
				h, lowerFirst(h), LeanStrList(p.WritesTo(f, "v")), lowerFirst(h), LeanStrList(p.IfConds(f, "")), lowerFirst(h), LeanStrList(p.Returns(f)))
		}
		return b, nil
	}})
}

func lowerFirst(s string) string {
	if s == "" {
		return s
	}
	return string(s[0]|0x20) + s[1:]
}
