package main

// facts_layout.go — C07: the I/O layout of the 16 WriteTo / ReadFrom methods, re-derived
// from the Go source by purely syntactic go/ast analysis (no go/types).  Emits
// Facts_Layout.lean with, per kind k ∈ {flat hnsw ivf pq ivfpq bm25 meta hybrid}:
//
//	def k_WriteTo, k_ReadFrom               : List String             -- token list
//	def k_WriteTo_switch, k_ReadFrom_switch : List (String × String)  -- (case type, `counter +=` RHS)
//
// Token language (see lean/Comet/Codec/Layout.lean); the method body is walked in source
// order, the `write := func…` / `read := func…` closure definition itself is skipped:
//
//	"u8" "u16" "i16" "u32" "i32" "f32" "f64" "u64" "i64" "i8" "bool"
//	                   write(X) / read(&X): kind of the static type of X, resolved from
//	                   conversions, local declarations, range variables, receiver struct
//	                   fields, declared method results, index expressions, make(...)
//	"?<expr>"          static type of <expr> not resolved; "?type:<T>" resolved to a type
//	                   that is not a fixed-width scalar (nothing is ever guessed)
//	"raw"              W.Write(B) on an io.Writer parameter / io.ReadFull(r, B)
//	"sub:<field>"      X.WriteTo(W) / X.ReadFrom(r), X bound by
//	                   `if X, ok := recv.<field>.(io.WriterTo|io.ReaderFrom); ok {`
//	"blob"             X.UnmarshalBinary(B)
//	"loop{" … "}"      for / range whose body produced tokens
//	"if{" … "}"        if whose then-body produced tokens; followed by "else{" … "}" when the
//	                   else-body produced tokens (the Init of an if is emitted before "if{")
//	"guard:<cond>"     if without I/O in its body, whose cond is not an `err != nil` / `!ok`
//	                   test and whose body returns a non-nil last result
//
// Deviation suffixes, appended in this order:
//
//	"!unchecked"  the call is not the Init of `if [_,] err := CALL; err != nil { … return … }`
//	              (nor `… err := CALL` tested by such an if in the next statement (sub: next
//	              two), nor directly returned)
//	"!uncounted"  typed: the closure's type switch has no case for the type (read: pointer
//	              type) with body `counter += <width>`; raw: the statement after the checking
//	              if is not `counter += E` with E matching the buffer (write: int64(len(B)),
//	              or N for B = A[:] with A a [N]T; read: N or int64(N) for B := make([]byte, N));
//	              sub (ReadFrom): next statement is not `counter += n`.  Never emitted in a
//	              function that has neither an int64 counter nor a switch (hybrid WriteTo).
//	"!direct"     binary.Write / binary.Read / r.Read called outside the closure
//
// Other constructs carrying I/O become visible as "switch{" / "func{" … "}" groups.

import (
	"fmt"
	"go/ast"
	"go/token"
	"strconv"
	"strings"
)

var layoutKinds = [][2]string{
	{"flat", "FlatIndex"}, {"hnsw", "HNSWIndex"}, {"ivf", "IVFIndex"}, {"pq", "PQIndex"},
	{"ivfpq", "IVFPQIndex"}, {"bm25", "BM25SearchIndex"}, {"meta", "RoaringMetadataIndex"},
	{"hybrid", "hybridSearchIndex"},
}

type lyKind struct {
	tok   string
	width int
}

var lyKinds = map[string]lyKind{
	"uint8": {"u8", 1}, "int8": {"i8", 1}, "bool": {"bool", 1}, "uint16": {"u16", 2}, "int16": {"i16", 2},
	"uint32": {"u32", 4}, "int32": {"i32", 4}, "float32": {"f32", 4},
	"uint64": {"u64", 8}, "int64": {"i64", 8}, "float64": {"f64", 8},
}

var lyBasic = map[string]bool{"byte": true, "rune": true, "int": true, "uint": true, "uintptr": true, "string": true}

var lyAtomic = map[string]string{"atomic.Uint32": "uint32", "atomic.Int32": "int32", "atomic.Uint64": "uint64", "atomic.Int64": "int64"}

func init() {
	registerExtractor(Extractor{Name: "Layout", Run: func(p *Pkg) (string, error) {
		types := map[string]*ast.TypeSpec{}
		for _, file := range p.Files {
			for _, d := range file.Decls {
				if gd, ok := d.(*ast.GenDecl); ok && gd.Tok == token.TYPE {
					for _, s := range gd.Specs {
						types[s.(*ast.TypeSpec).Name.Name] = s.(*ast.TypeSpec)
					}
				}
			}
		}
		b := ""
		for _, k := range layoutKinds {
			for _, m := range []string{"WriteTo", "ReadFrom"} {
				fd := p.Func(k[1], m)
				if fd == nil || fd.Body == nil {
					return "", fmt.Errorf("%s.%s not found", k[1], m)
				}
				f, err := newLyFn(p, types, fd, m == "ReadFrom")
				if err != nil {
					return "", fmt.Errorf("%s.%s: %v", k[1], m, err)
				}
				pairs := make([]string, len(f.cases))
				for i, c := range f.cases {
					pairs[i] = "(" + LeanStr(c.typ) + ", " + LeanStr(c.rhs) + ")"
				}
				b += fmt.Sprintf("/-- %s.%s: I/O tokens in source order -/\n", k[1], m)
				b += fmt.Sprintf("def %s_%s : List String := %s\n", k[0], m, LeanStrList(f.block(fd.Body.List)))
				b += fmt.Sprintf("def %s_%s_switch : List (String × String) := [%s]\n\n", k[0], m, strings.Join(pairs, ", "))
			}
		}
		return strings.TrimRight(b, "\n") + "\n", nil
	}})
}

// lyDecl is a local declaration, visible for positions in (from, to).
type lyDecl struct {
	name     string
	from, to token.Pos
	typ      ast.Expr // declared type, or
	init     ast.Expr // initialiser (x := init), or
	rng      ast.Expr // ranged expression (key: key type, else element type)
	key      bool
}

type lyCase struct {
	typ, rhs string
	counts   bool // body is exactly `counter += rhs`
}

type lyFn struct {
	p       *Pkg
	types   map[string]*ast.TypeSpec
	fd      *ast.FuncDecl
	read    bool
	closure string       // name of the I/O closure ("write" / "read")
	lit     *ast.FuncLit // its definition
	counter string       // the `var X int64` byte counter, "" if none
	hasSw   bool
	cases   []lyCase
	decls   []lyDecl
	streams map[string]bool   // parameters of type io.Writer / io.Reader
	subs    map[string]string // X ↦ field for `if X, ok := recv.field.(io.WriterTo); ok`
}

func newLyFn(p *Pkg, types map[string]*ast.TypeSpec, fd *ast.FuncDecl, read bool) (*lyFn, error) {
	f := &lyFn{p: p, types: types, fd: fd, read: read, streams: map[string]bool{}, subs: map[string]string{}}
	prim := "binary.Write"
	if read {
		prim = "binary.Read"
	}
	for _, fld := range fd.Type.Params.List {
		for _, n := range fld.Names {
			if t := p.Src(fld.Type); t == "io.Writer" || t == "io.Reader" {
				f.streams[n.Name] = true
			}
		}
	}
	for _, s := range fd.Body.List {
		switch x := s.(type) {
		case *ast.DeclStmt:
			if gd := x.Decl.(*ast.GenDecl); gd.Tok == token.VAR && f.counter == "" {
				if vs := gd.Specs[0].(*ast.ValueSpec); vs.Type != nil && p.Src(vs.Type) == "int64" {
					f.counter = vs.Names[0].Name
				}
			}
		case *ast.AssignStmt:
			if lit, ok := x.Rhs[0].(*ast.FuncLit); ok && f.lit == nil && x.Tok == token.DEFINE && len(lit.Type.Params.List) == 1 && len(lit.Type.Params.List[0].Names) == 1 {
				calls := false // binary.Write(<stream parameter>, binary.LittleEndian, <closure parameter>)
				ast.Inspect(lit, func(n ast.Node) bool {
					if c, ok := n.(*ast.CallExpr); ok && p.Src(c.Fun) == prim && len(c.Args) == 3 {
						calls = calls || f.streams[p.Src(c.Args[0])] && p.Src(c.Args[1]) == "binary.LittleEndian" && p.Src(c.Args[2]) == lit.Type.Params.List[0].Names[0].Name
					}
					return true
				})
				if id, ok := x.Lhs[0].(*ast.Ident); ok && calls {
					f.closure, f.lit = id.Name, lit
				}
			}
		}
	}
	if f.lit == nil {
		return nil, fmt.Errorf("no top-level closure calling %s(<stream parameter>, binary.LittleEndian, <its parameter>)", prim)
	}
	ast.Inspect(f.lit, func(n ast.Node) bool { // the counting type switch
		ts, ok := n.(*ast.TypeSwitchStmt)
		if !ok || f.hasSw {
			return true
		}
		f.hasSw = true
		for _, cl := range ts.Body.List {
			cc := cl.(*ast.CaseClause)
			c := lyCase{rhs: "?" + p.Src(&ast.BlockStmt{List: cc.Body})}
			if len(cc.Body) == 1 {
				if a, ok := cc.Body[0].(*ast.AssignStmt); ok && a.Tok == token.ADD_ASSIGN && len(a.Lhs) == 1 && p.Src(a.Lhs[0]) == f.counter {
					c.rhs, c.counts = p.Src(a.Rhs[0]), true
				}
			}
			for _, t := range cc.List {
				c.typ = p.Src(t)
				f.cases = append(f.cases, c)
			}
		}
		return false
	})
	f.collectDecls()
	return f, nil
}

func (f *lyFn) collectDecls() {
	add := func(id ast.Expr, from, to token.Pos, d lyDecl) {
		if i, ok := id.(*ast.Ident); ok && i.Name != "_" {
			d.name, d.from, d.to = i.Name, from, to
			f.decls = append(f.decls, d)
		}
	}
	for _, fl := range []*ast.FieldList{f.fd.Recv, f.fd.Type.Params} {
		for _, fld := range fl.List {
			for _, n := range fld.Names {
				add(n, f.fd.Body.Pos(), f.fd.End(), lyDecl{typ: fld.Type})
			}
		}
	}
	var stack []ast.Node
	ast.Inspect(f.fd.Body, func(n ast.Node) bool {
		if n == nil {
			stack = stack[:len(stack)-1]
			return true
		}
		scopeEnd := f.fd.End() // end of the innermost enclosing scope
	up:
		for i := len(stack) - 1; i >= 0; i-- {
			switch stack[i].(type) {
			case *ast.BlockStmt, *ast.IfStmt, *ast.ForStmt, *ast.RangeStmt, *ast.CaseClause, *ast.SwitchStmt, *ast.TypeSwitchStmt:
				scopeEnd = stack[i].End()
				break up
			}
		}
		switch s := n.(type) {
		case *ast.AssignStmt:
			if s.Tok == token.DEFINE {
				for i, l := range s.Lhs {
					d := lyDecl{}
					if len(s.Lhs) == len(s.Rhs) {
						d.init = s.Rhs[i]
					}
					add(l, s.End(), scopeEnd, d)
				}
			}
		case *ast.GenDecl:
			for _, sp := range s.Specs {
				if vs, ok := sp.(*ast.ValueSpec); ok {
					for i, id := range vs.Names {
						d := lyDecl{typ: vs.Type}
						if vs.Type == nil && i < len(vs.Values) {
							d.init = vs.Values[i]
						}
						add(id, s.End(), scopeEnd, d)
					}
				}
			}
		case *ast.RangeStmt:
			if s.Tok == token.DEFINE {
				add(s.Key, s.Body.Pos(), s.End(), lyDecl{rng: s.X, key: true})
				add(s.Value, s.Body.Pos(), s.End(), lyDecl{rng: s.X})
			}
		}
		stack = append(stack, n)
		return true
	})
}

func (f *lyFn) lookup(name string, at token.Pos) *lyDecl {
	var best *lyDecl
	for i := range f.decls {
		d := &f.decls[i]
		if d.name == name && d.from <= at && at < d.to && (best == nil || d.from > best.from) {
			best = d
		}
	}
	return best
}

// ---- syntactic static types (types are represented by their ast.Expr) ----

func lyIdent(name string) ast.Expr { return &ast.Ident{Name: name} }

func lyDeref(t ast.Expr) ast.Expr {
	if s, ok := t.(*ast.StarExpr); ok {
		return s.X
	}
	return t
}

// spec returns the package-level declaration of a (possibly pointer to a) named type.
func (f *lyFn) spec(t ast.Expr) *ast.TypeSpec {
	if id, ok := lyDeref(t).(*ast.Ident); ok {
		return f.types[id.Name]
	}
	return nil
}

// elem is the key / element type of a slice, array or map type (through named types).
func (f *lyFn) elem(t ast.Expr, key bool) ast.Expr {
	for ts := f.spec(t); ts != nil && t != ts.Type; ts = f.spec(t) {
		t = ts.Type
	}
	switch x := t.(type) {
	case *ast.ArrayType:
		if key {
			return lyIdent("int")
		}
		return x.Elt
	case *ast.MapType:
		if key {
			return x.Key
		}
		return x.Value
	}
	return nil
}

// member is the type of field `name` (method: the single result type of method `name`) of the
// named type t, looking through pointers and embedded struct fields.
func (f *lyFn) member(t ast.Expr, name string, method bool) ast.Expr {
	ts := f.spec(t)
	if ts == nil {
		return nil
	}
	if method {
		if m := f.p.Func(ts.Name.Name, name); m != nil {
			if r := m.Type.Results; r != nil && len(r.List) == 1 && len(r.List[0].Names) <= 1 {
				return r.List[0].Type
			}
			return nil
		}
	}
	st, ok := ts.Type.(*ast.StructType)
	if !ok {
		return nil
	}
	for _, fld := range st.Fields.List {
		for _, n := range fld.Names {
			if n.Name == name && !method {
				return fld.Type
			}
		}
	}
	for _, fld := range st.Fields.List {
		if len(fld.Names) == 0 {
			if id, ok := lyDeref(fld.Type).(*ast.Ident); ok && id.Name == name && !method {
				return fld.Type
			}
			if r := f.member(fld.Type, name, method); r != nil {
				return r
			}
		}
	}
	return nil
}

func (f *lyFn) typeOf(e ast.Expr) ast.Expr {
	switch x := e.(type) {
	case *ast.ParenExpr:
		return f.typeOf(x.X)
	case *ast.BasicLit:
		return map[token.Token]ast.Expr{token.INT: lyIdent("int"), token.FLOAT: lyIdent("float64"), token.STRING: lyIdent("string")}[x.Kind]
	case *ast.Ident:
		if d := f.lookup(x.Name, x.Pos()); d != nil {
			switch {
			case d.typ != nil:
				return d.typ
			case d.init != nil:
				return f.typeOf(d.init)
			case d.rng != nil:
				return f.elem(f.typeOf(d.rng), d.key)
			}
		}
	case *ast.UnaryExpr:
		if t := f.typeOf(x.X); t != nil && x.Op == token.AND {
			return &ast.StarExpr{X: t}
		}
	case *ast.StarExpr:
		if t, ok := f.typeOf(x.X).(*ast.StarExpr); ok {
			return t.X
		}
	case *ast.CompositeLit:
		return x.Type
	case *ast.SliceExpr:
		return f.typeOf(x.X)
	case *ast.IndexExpr:
		return f.elem(f.typeOf(x.X), false)
	case *ast.SelectorExpr:
		return f.member(f.typeOf(x.X), x.Sel.Name, false)
	case *ast.CallExpr:
		switch fun := x.Fun.(type) {
		case *ast.ArrayType, *ast.MapType:
			return fun // conversion []byte(x)
		case *ast.Ident:
			_, scalar := lyKinds[fun.Name]
			switch {
			case f.lookup(fun.Name, fun.Pos()) != nil:
				return nil // a local function value
			case fun.Name == "make" && len(x.Args) > 0:
				return x.Args[0]
			case fun.Name == "len" || fun.Name == "cap":
				return lyIdent("int")
			case (scalar || lyBasic[fun.Name] || f.types[fun.Name] != nil) && len(x.Args) == 1:
				return fun // conversion T(x)
			}
			if fn := f.p.Func("", fun.Name); fn != nil && fn.Type.Results != nil && len(fn.Type.Results.List) == 1 && len(fn.Type.Results.List[0].Names) <= 1 {
				return fn.Type.Results.List[0].Type
			}
		case *ast.SelectorExpr:
			rt := f.typeOf(fun.X)
			if rt == nil {
				return nil
			}
			if a, ok := lyAtomic[f.p.Src(rt)]; ok && fun.Sel.Name == "Load" {
				return lyIdent(a)
			}
			return f.member(rt, fun.Sel.Name, true)
		}
	}
	return nil
}

// typed returns the kind token of write(arg) / read(arg) and the scalar Go type ("" if none).
func (f *lyFn) typed(arg ast.Expr) (string, string) {
	t := f.typeOf(arg)
	if f.read && t != nil {
		if s, ok := t.(*ast.StarExpr); ok {
			t = s.X
		} else {
			return "?type:" + f.p.Src(t), ""
		}
	}
	if t == nil {
		return "?" + f.p.Src(arg), ""
	}
	g := f.p.Src(t)
	if g == "byte" {
		g = "uint8"
	}
	if k, ok := lyKinds[g]; ok {
		return k.tok, g
	}
	return "?type:" + g, ""
}

// switchCounts: the closure's type switch has `case …, g, …: counter += width(g)`.
func (f *lyFn) switchCounts(g string) bool {
	if f.read {
		g = "*" + g
	}
	for _, c := range f.cases {
		if strings.Replace(c.typ, "byte", "uint8", 1) == g && c.counts && c.rhs == strconv.Itoa(lyKinds[strings.TrimPrefix(g, "*")].width) {
			return true
		}
	}
	return false
}

// counterAdd returns the printed E if the first statement of rest is `counter += E`, else "".
func (f *lyFn) counterAdd(rest []ast.Stmt) string {
	if len(rest) > 0 && f.counter != "" {
		if a, ok := rest[0].(*ast.AssignStmt); ok && a.Tok == token.ADD_ASSIGN && len(a.Lhs) == 1 && f.p.Src(a.Lhs[0]) == f.counter {
			return f.p.Src(a.Rhs[0])
		}
	}
	return ""
}

func (f *lyFn) rawCounted(buf ast.Expr, rest []ast.Stmt) bool {
	e := f.counterAdd(rest)
	if e == "" {
		return false
	}
	if !f.read {
		if e == "int64(len("+strings.TrimSuffix(f.p.Src(buf), "[:]")+"))" {
			return true
		}
		if sl, ok := buf.(*ast.SliceExpr); ok && sl.Low == nil && sl.High == nil {
			if at, ok := f.typeOf(sl.X).(*ast.ArrayType); ok && at.Len != nil {
				return e == f.p.Src(at.Len)
			}
		}
		return false
	}
	if id, ok := buf.(*ast.Ident); ok {
		if d := f.lookup(id.Name, id.Pos()); d != nil && d.init != nil {
			if mk, ok := d.init.(*ast.CallExpr); ok && f.p.Src(mk.Fun) == "make" && len(mk.Args) == 2 {
				if t := f.p.Src(mk.Args[0]); t == "[]byte" || t == "[]uint8" {
					n := f.p.Src(mk.Args[1])
					return e == n || e == "int64("+n+")"
				}
			}
		}
	}
	return false
}

// ---- error-check shapes ----

func lyErrTest(cond ast.Expr, errName string) bool { // `errName != nil`
	b, ok := cond.(*ast.BinaryExpr)
	if !ok || b.Op != token.NEQ {
		return false
	}
	x, ok1 := b.X.(*ast.Ident)
	y, ok2 := b.Y.(*ast.Ident)
	return ok1 && ok2 && x.Name == errName && y.Name == "nil"
}

func lyErrLike(cond ast.Expr) bool { // `…err… != nil` or `!ok`
	if b, ok := cond.(*ast.BinaryExpr); ok {
		x, ok := b.X.(*ast.Ident)
		return ok && strings.Contains(strings.ToLower(x.Name), "err") && lyErrTest(cond, x.Name)
	}
	if u, ok := cond.(*ast.UnaryExpr); ok && u.Op == token.NOT {
		_, ok = u.X.(*ast.Ident)
		return ok
	}
	return false
}

// lyReturns: body has a direct `return`; with nonNil, one whose last result is not `nil`.
func lyReturns(body *ast.BlockStmt, nonNil bool) bool {
	for _, s := range body.List {
		if r, ok := s.(*ast.ReturnStmt); ok {
			if !nonNil {
				return true
			}
			if n := len(r.Results); n > 0 {
				if id, ok := r.Results[n-1].(*ast.Ident); !ok || id.Name != "nil" {
					return true
				}
			}
		}
	}
	return false
}

// ---- the walk ----

func (f *lyFn) block(list []ast.Stmt) []string {
	var out []string
	for i, s := range list {
		out = append(out, f.stmt(s, list[i+1:])...)
	}
	return out
}

func lyGroup(open string, body []string) []string {
	if len(body) == 0 {
		return nil
	}
	return append(append([]string{open}, body...), "}")
}

func (f *lyFn) stmt(s ast.Stmt, rest []ast.Stmt) []string {
	switch x := s.(type) {
	case *ast.BlockStmt:
		return f.block(x.List)
	case *ast.LabeledStmt:
		return f.stmt(x.Stmt, rest)
	case *ast.ForStmt:
		body := append(f.simple(x.Cond, nil, nil), f.block(x.Body.List)...)
		return append(f.simple(x.Init, nil, nil), lyGroup("loop{", append(body, f.simple(x.Post, nil, nil)...))...)
	case *ast.RangeStmt:
		return append(f.simple(x.X, nil, nil), lyGroup("loop{", f.block(x.Body.List))...)
	case *ast.SwitchStmt:
		return append(append(f.simple(x.Init, nil, nil), f.simple(x.Tag, nil, nil)...), lyGroup("switch{", f.block(x.Body.List))...)
	case *ast.TypeSwitchStmt:
		return append(append(f.simple(x.Init, nil, nil), f.simple(x.Assign, nil, nil)...), lyGroup("switch{", f.block(x.Body.List))...)
	case *ast.CaseClause:
		return f.block(x.Body)
	case *ast.IfStmt:
		out := append(f.simple(x.Init, rest, x), f.simple(x.Cond, nil, nil)...)
		bound := ""
		if a, ok := x.Init.(*ast.AssignStmt); ok && len(a.Lhs) == 2 && len(a.Rhs) == 1 {
			if ta, ok := a.Rhs[0].(*ast.TypeAssertExpr); ok && ta.Type != nil {
				sel, ok1 := ta.X.(*ast.SelectorExpr)
				id, ok2 := a.Lhs[0].(*ast.Ident)
				if t := f.p.Src(ta.Type); ok1 && ok2 && (t == "io.WriterTo" || t == "io.ReaderFrom") && f.p.Src(sel.X) == f.fd.Recv.List[0].Names[0].Name {
					bound = id.Name
					f.subs[bound] = sel.Sel.Name
				}
			}
		}
		then := f.block(x.Body.List)
		delete(f.subs, bound)
		var els []string
		if x.Else != nil {
			els = f.stmt(x.Else, nil)
		}
		switch {
		case len(then) > 0 || len(els) > 0:
			out = append(out, append(append([]string{"if{"}, then...), "}")...)
			out = append(out, lyGroup("else{", els)...)
		case !lyErrLike(x.Cond) && lyReturns(x.Body, true):
			out = append(out, "guard:"+f.p.Src(x.Cond))
		}
		return out
	}
	return f.simple(s, rest, nil)
}

// simple emits the tokens of all I/O calls inside a non-structured statement or expression.
// chk is the IfStmt whose Init s is (else nil); rest are the statements that follow s
// (resp. chk) in its block.
func (f *lyFn) simple(s ast.Node, rest []ast.Stmt, chk *ast.IfStmt) []string {
	var out []string
	if s == nil {
		return nil
	}
	ast.Inspect(s, func(n ast.Node) bool {
		switch c := n.(type) {
		case *ast.FuncLit:
			if c != f.lit {
				out = append(out, lyGroup("func{", f.block(c.Body.List))...)
			}
			return false
		case *ast.CallExpr:
			if t := f.ioTok(c, s, rest, chk); t != "" {
				out = append(out, t)
			}
		}
		return true
	})
	return out
}

func (f *lyFn) ioTok(c *ast.CallExpr, s ast.Node, rest []ast.Stmt, chk *ast.IfStmt) string {
	fun, meth, onStream := f.p.Src(c.Fun), "", false
	var recv ast.Expr
	if sel, ok := c.Fun.(*ast.SelectorExpr); ok {
		meth, recv = sel.Sel.Name, sel.X
		if id, ok := sel.X.(*ast.Ident); ok {
			onStream = f.streams[id.Name] && f.lookup(id.Name, id.Pos()) != nil
		}
	}
	asg, _ := s.(*ast.AssignStmt)
	if asg != nil && (len(asg.Rhs) != 1 || asg.Rhs[0] != ast.Expr(c)) {
		asg = nil
	}
	tok, goType, look, direct := "", "", 1, false
	counted := true
	noCount := f.counter == "" && !f.hasSw
	switch {
	case fun == f.closure && len(c.Args) == 1:
		tok, goType = f.typed(c.Args[0])
		counted = goType == "" || f.switchCounts(goType)
	case (fun == "binary.Write" || fun == "binary.Read") && len(c.Args) == 3:
		tok, _ = f.typed(c.Args[2])
		direct = true
	case fun == "io.ReadFull" && len(c.Args) == 2:
		tok, counted = "raw", f.rawCounted(c.Args[1], rest)
	case onStream && meth == "Write" && len(c.Args) == 1:
		tok, counted = "raw", f.rawCounted(c.Args[0], rest)
	case onStream && meth == "Read" && len(c.Args) == 1:
		tok, direct, counted = "raw", true, f.rawCounted(c.Args[0], rest)
	case (meth == "WriteTo" && !f.read || meth == "ReadFrom" && f.read) && len(c.Args) >= 1:
		tok, look = "sub:?"+f.p.Src(recv), 2
		if id, ok := recv.(*ast.Ident); ok && f.subs[id.Name] != "" {
			tok = "sub:" + f.subs[id.Name]
		}
		if f.read { // n, err := X.ReadFrom(r); counter += n
			counted = false
			if asg != nil && len(asg.Lhs) == 2 {
				n := f.p.Src(asg.Lhs[0])
				counted = n != "_" && f.counterAdd(rest) == n
			}
		}
	case meth == "UnmarshalBinary":
		tok = "blob"
	default:
		return ""
	}
	checked := false
	if asg != nil {
		if e, ok := asg.Lhs[len(asg.Lhs)-1].(*ast.Ident); ok && e.Name != "_" {
			if chk != nil {
				checked = lyErrTest(chk.Cond, e.Name) && lyReturns(chk.Body, false)
			}
			for i := 0; chk == nil && i < look && i < len(rest); i++ {
				if t, ok := rest[i].(*ast.IfStmt); ok && t.Init == nil && lyErrTest(t.Cond, e.Name) && lyReturns(t.Body, false) {
					checked = true
				}
			}
		}
	} else if r, ok := s.(*ast.ReturnStmt); ok {
		for _, e := range r.Results {
			checked = checked || e == ast.Expr(c)
		}
	}
	if !checked {
		tok += "!unchecked"
	}
	if !counted && !noCount {
		tok += "!uncounted"
	}
	if direct {
		tok += "!direct"
	}
	return tok
}
