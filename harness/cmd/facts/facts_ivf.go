package main

import (
	"fmt"
	"go/ast"
	"strings"
)

// assignsMentioning returns the printed assignment statements of fn that mention s.
func assignsMentioning(p *Pkg, fn *ast.FuncDecl, s string) []string {
	var out []string
	ast.Inspect(fn, func(n ast.Node) bool {
		if a, ok := n.(*ast.AssignStmt); ok {
			if src := p.Src(a); strings.Contains(src, s) && len(src) < 200 {
				out = append(out, src)
			}
		}
		return true
	})
	return out
}

// forConds returns the printed conditions of the three-clause for loops of fn.
func forConds(p *Pkg, fn *ast.FuncDecl) []string {
	var out []string
	ast.Inspect(fn, func(n ast.Node) bool {
		if f, ok := n.(*ast.ForStmt); ok && f.Cond != nil {
			out = append(out, p.Src(f.Cond))
		}
		return true
	})
	return out
}

// fieldValues returns the printed values of `key: value` pairs (composite literals) in fn.
func fieldValues(p *Pkg, fn *ast.FuncDecl, key string) []string {
	var out []string
	ast.Inspect(fn, func(n ast.Node) bool {
		if kv, ok := n.(*ast.KeyValueExpr); ok {
			if id, ok := kv.Key.(*ast.Ident); ok && id.Name == key {
				out = append(out, p.Src(kv.Value))
			}
		}
		return true
	})
	return out
}

// Anchored sites of C13 (clustering.go: FindNearestCentroidIndex; ivf_index.go: Train,
// Add, NewSearch; ivf_index_search.go: searchSingleQuery).
func init() {
	registerExtractor(Extractor{Name: "IVF", Run: func(p *Pkg) (string, error) {
		fn := p.Func("", "FindNearestCentroidIndex")
		if fn == nil {
			return "", fmt.Errorf("FindNearestCentroidIndex not found")
		}
		ss := p.Func("ivfIndexSearch", "searchSingleQuery")
		if ss == nil {
			return "", fmt.Errorf("ivfIndexSearch.searchSingleQuery not found")
		}
		add := p.Func("IVFIndex", "Add")
		tr := p.Func("IVFIndex", "Train")
		ns := p.Func("IVFIndex", "NewSearch")
		if add == nil || tr == nil || ns == nil {
			return "", fmt.Errorf("IVFIndex.Add / Train / NewSearch not found")
		}
		b := ""
		b += "/-- the update condition of the arg-min loop of FindNearestCentroidIndex -/\n"
		b += "def argminConds : List String := " + LeanStrList(p.IfConds(fn, "dist")) + "\n\n"
		b += "/-- the assignments of FindNearestCentroidIndex that set minDist / minIdx -/\n"
		b += "def argminAssigns : List String := " + LeanStrList(assignsMentioning(p, fn, "min")) + "\n\n"
		b += "/-- the probe clamp of searchSingleQuery -/\n"
		b += "def clampConds : List String := " + LeanStrList(p.IfConds(ss, "nprobes")) + "\n\n"
		b += "def clampAssigns : List String := " + LeanStrList(assignsMentioning(p, ss, "nprobes")) + "\n\n"
		b += "/-- loop bounds of searchSingleQuery (probe loop, result copy) -/\n"
		b += "def loopConds : List String := " + LeanStrList(forConds(p, ss)) + "\n\n"
		b += "/-- the distance calls of searchSingleQuery: centroid ranking, then candidate scoring -/\n"
		b += "def distCalls : List String := " + LeanStrList(p.Calls(ss, "distance.Calculate")) + "\n\n"
		b += "def preprocessCalls : List String := " + LeanStrList(p.Calls(ss, "distance.Preprocess")) + "\n\n"
		b += "/-- scan-loop conditions -/\n"
		b += "def skipConds : List String := " + LeanStrList(append(p.IfConds(ss, "deletedNodes"), p.IfConds(ss, "docFilter")...)) + "\n\n"
		b += "def thresholdConds : List String := " + LeanStrList(p.IfConds(ss, "threshold")) + "\n\n"
		b += "def sanitizeCalls : List String := " + LeanStrList(p.Calls(ss, "sanitizeK")) + "\n\n"
		b += "def sortCalls : List String := " + LeanStrList(p.Calls(ss, "sort.Slice")) + "\n\n"
		b += "/-- gates: untrained search / add, re-add purge, too few training vectors -/\n"
		b += "def searchGateConds : List String := " + LeanStrList(p.IfConds(ss, "trained")) + "\n\n"
		b += "def addGateConds : List String := " + LeanStrList(append(p.IfConds(add, "trained"), p.IfConds(add, "deletedNodes")...)) + "\n\n"
		b += "def addAssignCalls : List String := " + LeanStrList(p.Calls(add, "FindNearestCentroidIndex")) + "\n\n"
		b += "def trainGateConds : List String := " + LeanStrList(p.IfConds(tr, "nlist")) + "\n\n"
		b += "/-- NewSearch defaults -/\n"
		b += "def defaultNprobes : List String := " + LeanStrList(fieldValues(p, ns, "nprobes")) + "\n\n"
		b += "def defaultK : List String := " + LeanStrList(fieldValues(p, ns, "k")) + "\n"
		return b, nil
	}})
}
