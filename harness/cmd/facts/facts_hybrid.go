package main

import (
	"fmt"
	"go/ast"
	"strings"
)

// Anchored sites of C05 / C06 in hybrid_search_index.go.
func init() {
	registerExtractor(Extractor{Name: "Hybrid", Run: func(p *Pkg) (string, error) {
		add := p.Func("hybridSearchIndex", "addInternal")
		rm := p.Func("hybridSearchIndex", "Remove")
		ex := p.Func("hybridSearch", "Execute")
		if add == nil || rm == nil || ex == nil {
			return "", fmt.Errorf("hybridSearchIndex.addInternal / Remove / hybridSearch.Execute not found")
		}
		// order of the mutating / validating calls of addInternal
		var order []string
		ast.Inspect(add, func(n ast.Node) bool {
			if c, ok := n.(*ast.CallExpr); ok {
				f := p.Src(c.Fun)
				switch {
				case f == "validateMetadata", strings.HasSuffix(f, "vectorIndex.Add"),
					strings.HasSuffix(f, "textIndex.Add"), strings.HasSuffix(f, "metadataIndex.Add"):
					order = append(order, f)
				}
			}
			if a, ok := n.(*ast.AssignStmt); ok && len(a.Lhs) == 1 && strings.HasPrefix(p.Src(a.Lhs[0]), "idx.docInfo[") {
				order = append(order, "docInfo[id]=")
			}
			return true
		})
		var rmOrder []string
		ast.Inspect(rm, func(n ast.Node) bool {
			if c, ok := n.(*ast.CallExpr); ok {
				f := p.Src(c.Fun)
				if strings.HasSuffix(f, "Index.Remove") || f == "delete" {
					rmOrder = append(rmOrder, f)
				}
			}
			return true
		})
		b := ""
		b += "/-- validation / sub-add / docInfo assignment order in addInternal -/\n"
		b += "def addOrder : List String := " + LeanStrList(order) + "\n\n"
		b += "/-- sub-remove / docInfo delete order in Remove -/\n"
		b += "def removeOrder : List String := " + LeanStrList(rmOrder) + "\n\n"
		b += "/-- the guard of the metadata-only fallback in Execute -/\n"
		b += "def fallbackConds : List String := " + LeanStrList(p.IfConds(ex, "len(candidateIDs) > 0 &&")) + "\n\n"
		b += "def fallbackConds2 : List String := " + LeanStrList(p.IfConds(ex, "&& len(candidateIDs) > 0")) + "\n\n"
		b += "/-- the fusion-selection and truncation conditions of Execute -/\n"
		b += "def combineConds : List String := " + LeanStrList(p.IfConds(ex, "len(vectorResults) > 0")) + "\n\n"
		b += "def truncateConds : List String := " + LeanStrList(p.IfConds(ex, "s.k")) + "\n\n"
		b += "/-- options Execute passes to the sub-searches -/\n"
		var opts []string
		ast.Inspect(ex, func(n ast.Node) bool {
			if c, ok := n.(*ast.CallExpr); ok {
				if sel, ok := c.Fun.(*ast.SelectorExpr); ok && strings.HasPrefix(sel.Sel.Name, "With") {
					args := make([]string, len(c.Args))
					for i, a := range c.Args {
						args[i] = p.Src(a)
					}
					opts = append(opts, sel.Sel.Name+"("+strings.Join(args, ", ")+")")
				}
			}
			return true
		})
		// inner calls are visited after outer ones in a call chain; sort for a stable set
		sortStrings(opts)
		b += "def subSearchOptions : List String := " + LeanStrList(opts) + "\n"
		return b, nil
	}})
}

func sortStrings(s []string) {
	for i := 1; i < len(s); i++ {
		for j := i; j > 0 && s[j] < s[j-1]; j-- {
			s[j], s[j-1] = s[j-1], s[j]
		}
	}
}
