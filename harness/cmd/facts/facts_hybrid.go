package main

import (
	"fmt"
	"go/ast"
	"strings"
)

// Anchored sites of C05 / C06 in hybrid_search_index.go.
func init() {
	registerExtractor(Extractor{Name: "Hybrid", Run: func(p *Pkg) (string, error) {
		add := p.Func("hybridSearchIndex", "addInternal")
		rm := p.Func("hybridSearchIndex", "Remove")
		ex := p.Func("hybridSearch", "Execute")
		if add == nil || rm == nil || ex == nil {
			return "", fmt.Errorf("hybridSearchIndex.addInternal / Remove / hybridSearch.Execute not found")
		}
		// order of the mutating / validating calls of addInternal
		var order []string
		ast.Inspect(add, func(n ast.Node) bool {
			if c, ok := n.(*ast.CallExpr); ok {
				f := p.Src(c.Fun)
				switch {
				case f == "validateMetadata", strings.HasSuffix(f, "vectorIndex.Add"),
					strings.HasSuffix(f, "textIndex.Add"), strings.HasSuffix(f, "metadataIndex.Add"):
					order = append(order, f)
				}
			}
			if a, ok := n.(*ast.AssignStmt); ok && len(a.Lhs) == 1 && strings.HasPrefix(p.Src(a.Lhs[0]), "idx.docInfo[") {
				order = append(order, "docInfo[id]=")
			}
			return true
		})
		var rmOrder []string
		ast.Inspect(rm, func(n ast.Node) bool {
			if c, ok := n.(*ast.CallExpr); ok {
				f := p.Src(c.Fun)
				if strings.HasSuffix(f, "Index.Remove") || f == "delete" {
					rmOrder = append(rmOrder, f)
				}
			}
			return true
		})
		// Execute together with the hybridSearch methods it calls on its own receiver (helpers a
		// maintainer may extract steps into), transitively: the facts are about what a search
		// does, not about which function body the text sits in
		exAll := []*ast.FuncDecl{ex}
		seen := map[string]bool{"Execute": true}
		for i := 0; i < len(exAll); i++ {
			fn := exAll[i]
			recv := ""
			if fn.Recv != nil && len(fn.Recv.List) == 1 && len(fn.Recv.List[0].Names) == 1 {
				recv = fn.Recv.List[0].Names[0].Name
			}
			ast.Inspect(fn, func(n ast.Node) bool {
				if c, ok := n.(*ast.CallExpr); ok {
					if sel, ok := c.Fun.(*ast.SelectorExpr); ok {
						if id, ok := sel.X.(*ast.Ident); ok && id.Name == recv && !seen[sel.Sel.Name] {
							if h := p.Func("hybridSearch", sel.Sel.Name); h != nil {
								seen[sel.Sel.Name] = true
								exAll = append(exAll, h)
							}
						}
					}
				}
				return true
			})
		}
		ifConds := func(sub string) []string {
			var out []string
			for _, fn := range exAll {
				out = append(out, p.IfConds(fn, sub)...)
			}
			return out
		}
		b := ""
		b += "/-- validation / sub-add / docInfo assignment order in addInternal -/\n"
		b += "def addOrder : List String := " + LeanStrList(order) + "\n\n"
		b += "/-- sub-remove / docInfo delete order in Remove -/\n"
		b += "def removeOrder : List String := " + LeanStrList(rmOrder) + "\n\n"
		b += "/-- the guard of the metadata-only fallback in Execute -/\n"
		b += "def fallbackConds : List String := " + LeanStrList(ifConds("len(candidateIDs) > 0 &&")) + "\n\n"
		b += "def fallbackConds2 : List String := " + LeanStrList(ifConds("&& len(candidateIDs) > 0")) + "\n\n"
		b += "/-- the fusion-selection and truncation conditions of Execute -/\n"
		b += "def combineConds : List String := " + LeanStrList(ifConds("len(vectorResults) > 0")) + "\n\n"
		b += "def truncateConds : List String := " + LeanStrList(ifConds("s.k")) + "\n\n"
		b += "/-- options Execute passes to the sub-searches -/\n"
		var opts []string
		for _, fn := range exAll {
			ast.Inspect(fn, func(n ast.Node) bool {
				if c, ok := n.(*ast.CallExpr); ok {
					if sel, ok := c.Fun.(*ast.SelectorExpr); ok && strings.HasPrefix(sel.Sel.Name, "With") {
						args := make([]string, len(c.Args))
						for i, a := range c.Args {
							args[i] = p.Src(a)
						}
						opts = append(opts, sel.Sel.Name+"("+strings.Join(args, ", ")+")")
					}
				}
				return true
			})
		}
		// inner calls are visited after outer ones in a call chain; sort for a stable set
		sortStrings(opts)
		b += "def subSearchOptions : List String := " + LeanStrList(opts) + "\n"
		return b, nil
	}})
}

func sortStrings(s []string) {
	for i := 1; i < len(s); i++ {
		for j := i; j > 0 && s[j] < s[j-1]; j-- {
			s[j], s[j-1] = s[j-1], s[j]
		}
	}
}
