package main

// Lock facts (C11): walks every function of package comet and emits, per function,
// the event sequences
//
//	acq(L, R|W) | rel(L, R|W) | acc(base.field, R|W) | call(f…)
//
// produced by a syntactic, flow-aware lock-state tracker (Lock/RLock/Unlock/RUnlock,
// defer, early-return branches), for the structs that own a sync.(RW)Mutex.
//
//   - A *base* is an instance slot named after its static type ("FlatIndex"; a second,
//     syntactically different instance of the same type inside one function would be
//     "FlatIndex#2"), so `s.index.mu` and `s.index.vectors` (flatIndexSearch) and
//     `idx.mu` / `idx.vectors` (FlatIndex) resolve to the same base.
//   - Objects constructed inside the function (`&T{…}`, `newT(…)`) are pre-publication:
//     accesses through them are not events.
//   - Locals derived from a guarded field holding owned data (maps, slices, bitmaps,
//     *hnswNode …) are aliases of that field: their uses are accesses of the field.
//   - A branch that contains lock operations forks the path; every function therefore
//     has a small list of event paths (usually one). Branches without lock operations
//     are concatenated (same lock state), loops are walked once.
//   - `req` of a function is a *certificate* (re-checked in Lean, not trusted): the locks
//     a caller must hold (helpers that take no lock themselves).
//
// Types are resolved with go/types over package comet only (imports are faked: what
// matters are comet's own struct fields and methods).

import (
	"fmt"
	"go/ast"
	"go/token"
	"go/types"
	"sort"
	"strings"
)

type lkEvent struct {
	Kind    string // acq | rel | acc | call
	Base    string
	Mode    string // R | W
	Field   string // "T.f"
	Callees []string
	Iface   bool              // resolved by dynamic dispatch through one of comet's interfaces
	RecvB   string            // base of the receiver / tracked argument of a call ("" if none)
	Held    map[string]string // lock state at the event (base → mode), for the req fixpoint
	HeldSeq []string          // held bases in acquisition order (for nesting)
	Pos     string
}

type lkFunc struct {
	Key   string
	Entry bool
	Paths [][]lkEvent
	Req   map[string]string
	Pos   string
	Errs  []string
}

type fakeImporter struct{ pkgs map[string]*types.Package }

func (f *fakeImporter) Import(path string) (*types.Package, error) {
	if p, ok := f.pkgs[path]; ok {
		return p, nil
	}
	name := path
	if i := strings.LastIndex(path, "/"); i >= 0 {
		name = path[i+1:]
	}
	if name == "v2" || name == "roaring" && strings.HasSuffix(path, "BitSliceIndexing") {
		name = "x"
	}
	p := types.NewPackage(path, name)
	p.MarkComplete()
	f.pkgs[path] = p
	return p, nil
}

var lockMethods = map[string]bool{"Lock": true, "RLock": true, "Unlock": true, "RUnlock": true}

// methods that mutate a roaring bitmap / BSI / similar owned container
var mutators = map[string]bool{"Add": true, "AddMany": true, "AddInt": true, "Remove": true, "Clear": true, "Or": true, "And": true,
	"AndNot": true, "Xor": true, "SetValue": true, "ClearValues": true, "RunOptimize": true, "UnmarshalBinary": true,
	"ReadFrom": true, "AddRange": true, "RemoveRange": true, "Flip": true, "CheckedAdd": true, "CheckedRemove": true,
	"SetBigValue": true, "ParOr": true, "ClearBits": true, "Push": true, "Pop": true, "Store": true}

type lkCtx struct {
	p       *Pkg
	info    *types.Info
	tracked map[string]*types.Struct // struct name → type (owns a mutex)
	fclass  map[string]string        // "T.f" → lock | atomic | sync | data
	ftype   map[string]string        // "T.f" → printed type
	ifaces  map[string][]string      // interface name → implementing struct names
	methods map[string]map[string]bool
	funcs   map[string]*lkFunc
	order   []string
	decls   map[string]*ast.FuncDecl
}

func typeName(t types.Type) string {
	for {
		switch u := t.(type) {
		case *types.Pointer:
			t = u.Elem()
			continue
		case *types.Named:
			return u.Obj().Name()
		}
		return ""
	}
}

func (c *lkCtx) funcKey(fd *ast.FuncDecl) string {
	if fd.Recv != nil && len(fd.Recv.List) == 1 {
		t := fd.Recv.List[0].Type
		if s, ok := t.(*ast.StarExpr); ok {
			t = s.X
		}
		if ix, ok := t.(*ast.IndexExpr); ok {
			t = ix.X
		}
		if id, ok := t.(*ast.Ident); ok {
			return id.Name + "." + fd.Name.Name
		}
	}
	return fd.Name.Name
}

type heldLock struct{ base, mode string }

type deferItem struct {
	rel  *heldLock
	body *ast.BlockStmt
}

type pathState struct {
	events []lkEvent
	held   []heldLock
	defers []deferItem
	skip   int // >0: jumped (break/continue) to the end of loop #skip
}

func (p *pathState) clone() *pathState {
	q := &pathState{skip: p.skip}
	q.events = append(q.events, p.events...)
	q.held = append(q.held, p.held...)
	q.defers = append(q.defers, p.defers...)
	return q
}

type walker struct {
	c           *lkCtx
	fn          *lkFunc
	paths       []*pathState
	finished    []*pathState
	slots       map[string][]string        // type → canonical roots, in order of appearance
	alias       map[types.Object][2]string // local → (base, field) it aliases
	canon       map[types.Object]string    // local of tracked type → canonical root path
	fresh       map[types.Object]bool
	ifaceOrigin map[types.Object]string // local obtained by x.(T) from a comet interface value → that interface
	lastIface   bool
	closure     int
	loopID      int
	loops       []int
	goN         int
}

func (w *walker) pos(n ast.Node) string {
	p := w.c.p.Fset.Position(n.Pos())
	f := p.Filename
	if i := strings.LastIndex(f, "/"); i >= 0 {
		f = f[i+1:]
	}
	return fmt.Sprintf("%s:%d", f, p.Line)
}

func (w *walker) live() []*pathState {
	var out []*pathState
	for _, p := range w.paths {
		if p.skip == 0 {
			out = append(out, p)
		}
	}
	return out
}

func (w *walker) emit(e lkEvent) {
	for _, p := range w.live() {
		ev := e
		ev.Held = map[string]string{}
		for _, h := range p.held {
			if ev.Held[h.base] != "W" {
				ev.Held[h.base] = h.mode
			}
			ev.HeldSeq = append(ev.HeldSeq, h.base)
		}
		p.events = append(p.events, ev)
	}
}

func (w *walker) errf(n ast.Node, format string, a ...any) {
	w.fn.Errs = append(w.fn.Errs, w.pos(n)+": "+fmt.Sprintf(format, a...))
}

// trackedOf: the tracked struct name of an expression's type ("" if none)
func (w *walker) trackedOf(e ast.Expr) string {
	tv, ok := w.c.info.Types[e]
	if !ok || tv.Type == nil {
		return ""
	}
	n := typeName(tv.Type)
	if _, ok := w.c.tracked[n]; ok {
		return n
	}
	return ""
}

func unparen(e ast.Expr) ast.Expr {
	for {
		if p, ok := e.(*ast.ParenExpr); ok {
			e = p.X
			continue
		}
		return e
	}
}

// baseOf names the instance slot an expression of tracked type denotes; "" when the
// object is fresh (constructed in this function).
func (w *walker) baseOf(e ast.Expr, tname string) (string, bool) {
	e = unparen(e)
	root := w.c.p.Src(e)
	if id, ok := e.(*ast.Ident); ok {
		obj := w.c.info.Uses[id]
		if obj == nil {
			obj = w.c.info.Defs[id]
		}
		if obj != nil {
			if w.fresh[obj] {
				return "", false
			}
			if cn, ok := w.canon[obj]; ok {
				root = cn
			}
		}
	}
	if u, ok := e.(*ast.UnaryExpr); ok && u.Op == token.AND {
		return w.baseOf(u.X, tname)
	}
	if _, ok := e.(*ast.CompositeLit); ok {
		return "", false
	}
	list := w.slots[tname]
	for i, r := range list {
		if r == root {
			return slotName(tname, i), true
		}
	}
	w.slots[tname] = append(list, root)
	return slotName(tname, len(list)), true
}

func slotName(t string, i int) string {
	if i == 0 {
		return t
	}
	return fmt.Sprintf("%s#%d", t, i+1)
}

// fieldSel: if sel selects a field of a tracked struct, returns (struct, "T.f").
func (w *walker) fieldSel(sel *ast.SelectorExpr) (string, string, bool) {
	s, ok := w.c.info.Selections[sel]
	if !ok || s.Kind() != types.FieldVal {
		return "", "", false
	}
	tn := typeName(s.Recv())
	if _, ok := w.c.tracked[tn]; !ok {
		return "", "", false
	}
	if len(s.Index()) != 1 {
		return "", "", false
	}
	return tn, tn + "." + sel.Sel.Name, true
}

// ownedData: a field whose value is data owned by the struct (maps, slices, bitmaps,
// local non-tracked structs) as opposed to a reference to another tracked object / interface.
func (c *lkCtx) ownedData(field string) bool {
	t := c.ftype[field]
	if c.fclass[field] != "data" {
		return false
	}
	for n := range c.tracked {
		if strings.Contains(t, n) {
			return false
		}
	}
	for n := range c.ifaces {
		if containsWord(t, n) {
			return false
		}
	}
	switch t {
	case "int", "int64", "uint32", "uint64", "bool", "float64", "float32", "string", "time.Time", "DistanceKind", "Distance":
		return false
	}
	return true
}

func containsWord(s, w string) bool {
	i := strings.Index(s, w)
	for i >= 0 {
		before := i == 0 || !isIdentChar(s[i-1])
		after := i+len(w) == len(s) || !isIdentChar(s[i+len(w)])
		if before && after {
			return true
		}
		j := strings.Index(s[i+1:], w)
		if j < 0 {
			break
		}
		i = i + 1 + j
	}
	return false
}

func isIdentChar(b byte) bool {
	return b == '_' || b >= '0' && b <= '9' || b >= 'a' && b <= 'z' || b >= 'A' && b <= 'Z'
}

func (c *lkCtx) roaringLike(field string) bool {
	t := c.ftype[field]
	return strings.Contains(t, "roaring.") || strings.Contains(t, "bsi.")
}

// rootTarget strips index / slice / deref / non-tracked selectors and returns the
// guarded field (base, field) or alias the expression is rooted in.
func (w *walker) rootTarget(e ast.Expr) (base, field string, ok bool) {
	for {
		e = unparen(e)
		switch x := e.(type) {
		case *ast.IndexExpr:
			e = x.X
		case *ast.SliceExpr:
			e = x.X
		case *ast.StarExpr:
			e = x.X
		case *ast.SelectorExpr:
			if tn, f, isf := w.fieldSel(x); isf {
				b, live := w.baseOf(x.X, tn)
				if !live {
					return "", "", false
				}
				return b, f, true
			}
			// field of a non-tracked struct value (node.Edges, info.hasVector): keep descending
			if s, ok2 := w.c.info.Selections[x]; ok2 && s.Kind() == types.FieldVal {
				e = x.X
				continue
			}
			return "", "", false
		case *ast.Ident:
			obj := w.c.info.Uses[x]
			if obj == nil {
				obj = w.c.info.Defs[x]
			}
			if a, ok2 := w.alias[obj]; ok2 {
				return a[0], a[1], true
			}
			return "", "", false
		default:
			return "", "", false
		}
	}
}

func (w *walker) access(n ast.Node, base, field, mode string) {
	cl := w.c.fclass[field]
	if cl == "lock" {
		return
	}
	if cl == "atomic" || cl == "sync" {
		mode = "R" // the only operations on these are their own (atomic / synchronising) methods
	}
	w.emit(lkEvent{Kind: "acc", Base: base, Field: field, Mode: mode, Pos: w.pos(n)})
}

// write: e is being assigned / mutated
func (w *walker) write(e ast.Expr) {
	if b, f, ok := w.rootTarget(e); ok {
		w.access(e, b, f, "W")
	}
	// sub-expressions (indexes, the path itself) are reads
	w.readSubs(e)
}

func (w *walker) readSubs(e ast.Expr) {
	e = unparen(e)
	switch x := e.(type) {
	case *ast.IndexExpr:
		w.readSubs(x.X)
		w.expr(x.Index)
	case *ast.SliceExpr:
		w.readSubs(x.X)
		for _, s := range []ast.Expr{x.Low, x.High, x.Max} {
			if s != nil {
				w.expr(s)
			}
		}
	case *ast.StarExpr:
		w.readSubs(x.X)
	case *ast.SelectorExpr:
		if _, _, isf := w.fieldSel(x); isf {
			w.expr(x.X)
			return
		}
		w.readSubs(x.X)
	}
}

func (w *walker) lockCall(call *ast.CallExpr) (base, op string, ok bool) {
	sel, isSel := call.Fun.(*ast.SelectorExpr)
	if !isSel || !lockMethods[sel.Sel.Name] {
		return
	}
	fs, isSel2 := unparen(sel.X).(*ast.SelectorExpr)
	if !isSel2 {
		return
	}
	tn, f, isf := w.fieldSel(fs)
	if !isf || w.c.fclass[f] != "lock" {
		return
	}
	b, live := w.baseOf(fs.X, tn)
	if !live {
		return "", "", false
	}
	return b, sel.Sel.Name, true
}

func (w *walker) doLock(n ast.Node, base, op string) {
	switch op {
	case "Lock", "RLock":
		m := "W"
		if op == "RLock" {
			m = "R"
		}
		w.emit(lkEvent{Kind: "acq", Base: base, Mode: m, Pos: w.pos(n)})
		for _, p := range w.live() {
			p.held = append(p.held, heldLock{base, m})
		}
	default:
		m := "W"
		if op == "RUnlock" {
			m = "R"
		}
		w.emit(lkEvent{Kind: "rel", Base: base, Mode: m, Pos: w.pos(n)})
		for _, p := range w.live() {
			for i := len(p.held) - 1; i >= 0; i-- {
				if p.held[i] == (heldLock{base, m}) {
					p.held = append(p.held[:i:i], p.held[i+1:]...)
					break
				}
			}
		}
	}
}

func (w *walker) hasLockOps(n ast.Node) bool {
	if n == nil {
		return false
	}
	found := false
	ast.Inspect(n, func(x ast.Node) bool {
		if found {
			return false
		}
		if _, ok := x.(*ast.FuncLit); ok {
			return false
		}
		if c, ok := x.(*ast.CallExpr); ok {
			if _, _, ok := w.lockCall(c); ok {
				found = true
			}
		}
		return true
	})
	return found
}

func (w *walker) calleeKeys(call *ast.CallExpr) (keys []string, recv ast.Expr) {
	w.lastIface = false
	switch f := unparen(call.Fun).(type) {
	case *ast.Ident:
		if fn, ok := w.c.info.Uses[f].(*types.Func); ok && fn.Pkg() != nil && fn.Pkg().Name() == "comet" {
			return []string{fn.Name()}, nil
		}
	case *ast.IndexExpr: // generic instantiation f[T](…)
		if id, ok := f.X.(*ast.Ident); ok {
			if fn, ok := w.c.info.Uses[id].(*types.Func); ok && fn.Pkg() != nil && fn.Pkg().Name() == "comet" {
				return []string{fn.Name()}, nil
			}
		}
	case *ast.SelectorExpr:
		fn, ok := w.c.info.Uses[f.Sel].(*types.Func)
		if !ok {
			// method of an external interface (io.ReaderFrom …) on a value obtained by a type
			// assertion from one of comet's interfaces: resolve by name over its implementations
			if id, isId := unparen(f.X).(*ast.Ident); isId {
				if in, ok := w.ifaceOrigin[w.c.info.Uses[id]]; ok {
					for _, impl := range w.c.ifaces[in] {
						if w.c.methods[impl][f.Sel.Name] {
							keys = append(keys, impl+"."+f.Sel.Name)
						}
					}
					w.lastIface = true
					return keys, f.X
				}
			}
			return nil, f.X
		}
		if fn.Pkg() == nil || fn.Pkg().Name() != "comet" {
			return nil, f.X
		}
		sig := fn.Type().(*types.Signature)
		if sig.Recv() == nil {
			return []string{fn.Name()}, nil
		}
		rt := sig.Recv().Type()
		if _, isIface := rt.Underlying().(*types.Interface); isIface {
			in := typeName(rt)
			if in == "" {
				// embedded / anonymous interface: find by receiver expression's static type
				if tv, ok := w.c.info.Types[f.X]; ok {
					in = typeName(tv.Type)
				}
			}
			for _, impl := range w.c.ifaces[in] {
				if w.c.methods[impl][fn.Name()] {
					keys = append(keys, impl+"."+fn.Name())
				}
			}
			w.lastIface = true
			return keys, f.X
		}
		return []string{typeName(rt) + "." + fn.Name()}, f.X
	}
	return nil, nil
}

func (w *walker) call(call *ast.CallExpr) {
	// lock operation
	if b, op, ok := w.lockCall(call); ok {
		w.doLock(call, b, op)
		return
	}
	fun := unparen(call.Fun)
	// builtins with a mutated first argument
	if id, ok := fun.(*ast.Ident); ok {
		if _, isB := w.c.info.Uses[id].(*types.Builtin); isB {
			switch id.Name {
			case "delete", "copy", "clear":
				if len(call.Args) > 0 {
					w.write(call.Args[0])
					for _, a := range call.Args[1:] {
						w.expr(a)
					}
					return
				}
			case "close":
				for _, a := range call.Args {
					w.expr(a)
				}
				return
			}
		}
		if id.Name == "panic" {
			for _, a := range call.Args {
				w.expr(a)
			}
			return
		}
	}
	// atomic.XxxT(&x.f, …): not a plain write
	atomicPkg := false
	if sel, ok := fun.(*ast.SelectorExpr); ok {
		if id, ok := sel.X.(*ast.Ident); ok && id.Name == "atomic" {
			if _, isPkg := w.c.info.Uses[id].(*types.PkgName); isPkg {
				atomicPkg = true
			}
		}
	}
	if sel, ok := fun.(*ast.SelectorExpr); ok && !atomicPkg {
		// method on a guarded field / alias: mutator ⇒ write
		if b, f, ok := w.rootTarget(sel.X); ok {
			cl := w.c.fclass[f]
			if cl == "data" && w.c.roaringLike(f) && mutators[sel.Sel.Name] {
				w.access(sel.X, b, f, "W")
				w.readSubs(sel.X)
			} else if cl == "data" && strings.Contains(w.c.ftype[f], "hnswNode") && mutators[sel.Sel.Name] {
				w.access(sel.X, b, f, "W")
				w.readSubs(sel.X)
			} else {
				w.expr(sel.X)
			}
		} else {
			w.expr(sel.X)
		}
	} else if !atomicPkg {
		if _, isLit := fun.(*ast.FuncLit); isLit {
			w.expr(fun)
		}
	}
	for _, a := range call.Args {
		if atomicPkg {
			if u, ok := unparen(a).(*ast.UnaryExpr); ok && u.Op == token.AND {
				w.readSubs(u.X)
				continue
			}
		}
		w.expr(a)
	}
	keys, recv := w.calleeKeys(call)
	if len(keys) > 0 {
		rb := ""
		if recv != nil {
			if tn := w.trackedOf(recv); tn != "" {
				if b, live := w.baseOf(recv, tn); live {
					rb = b
				} else {
					rb = "!fresh"
				}
			}
		}
		for _, a := range call.Args {
			if tn := w.trackedOf(a); tn != "" && rb == "" {
				if b, live := w.baseOf(a, tn); live {
					rb = b
				} else {
					rb = "!fresh"
				}
			}
		}
		w.emit(lkEvent{Kind: "call", Callees: keys, RecvB: rb, Iface: w.lastIface, Pos: w.pos(call)})
	}
}

func (w *walker) expr(e ast.Expr) {
	if e == nil {
		return
	}
	switch x := e.(type) {
	case *ast.ParenExpr:
		w.expr(x.X)
	case *ast.SelectorExpr:
		if tn, f, ok := w.fieldSel(x); ok {
			if b, live := w.baseOf(x.X, tn); live {
				w.access(x, b, f, "R")
			}
			w.expr(x.X)
			return
		}
		w.expr(x.X)
	case *ast.Ident:
		obj := w.c.info.Uses[x]
		if a, ok := w.alias[obj]; ok {
			w.access(x, a[0], a[1], "R")
		}
	case *ast.CallExpr:
		w.call(x)
	case *ast.UnaryExpr:
		if x.Op == token.AND {
			if b, f, ok := w.rootTarget(x.X); ok && w.c.fclass[f] == "data" {
				// address of guarded data escapes: treat as a write (conservative)
				if _, isLit := unparen(x.X).(*ast.CompositeLit); !isLit {
					w.access(x, b, f, "W")
					w.readSubs(x.X)
					return
				}
			}
		}
		w.expr(x.X)
	case *ast.BinaryExpr:
		w.expr(x.X)
		w.expr(x.Y)
	case *ast.IndexExpr:
		w.expr(x.X)
		w.expr(x.Index)
	case *ast.IndexListExpr:
		w.expr(x.X)
	case *ast.SliceExpr:
		w.expr(x.X)
		w.expr(x.Low)
		w.expr(x.High)
		w.expr(x.Max)
	case *ast.StarExpr:
		w.expr(x.X)
	case *ast.TypeAssertExpr:
		w.expr(x.X)
	case *ast.KeyValueExpr:
		w.expr(x.Value)
	case *ast.CompositeLit:
		for _, el := range x.Elts {
			w.expr(el)
		}
	case *ast.FuncLit:
		w.closure++
		w.block(x.Body)
		w.closure--
	}
}

// defineLocal records aliasing / canonical paths / freshness of `lhs := rhs`
func (w *walker) defineLocal(lhs ast.Expr, rhs ast.Expr) {
	id, ok := lhs.(*ast.Ident)
	if !ok || id.Name == "_" {
		return
	}
	obj := w.c.info.Defs[id]
	if obj == nil {
		obj = w.c.info.Uses[id]
	}
	if obj == nil {
		return
	}
	delete(w.alias, obj)
	delete(w.canon, obj)
	delete(w.fresh, obj)
	if rhs == nil {
		return
	}
	r := unparen(rhs)
	// tracked object: canonical path or fresh
	if tn := typeName(obj.Type()); w.c.tracked[tn] != nil {
		switch y := r.(type) {
		case *ast.UnaryExpr:
			if _, isLit := unparen(y.X).(*ast.CompositeLit); isLit && y.Op == token.AND {
				w.fresh[obj] = true
				return
			}
		case *ast.CompositeLit:
			w.fresh[obj] = true
			return
		case *ast.CallExpr:
			if fid, ok := unparen(y.Fun).(*ast.Ident); ok && (strings.HasPrefix(fid.Name, "new") || strings.HasPrefix(fid.Name, "New")) {
				w.fresh[obj] = true
				return
			}
		case *ast.Ident:
			o2 := w.c.info.Uses[y]
			if w.fresh[o2] {
				w.fresh[obj] = true
				return
			}
			if cn, ok := w.canon[o2]; ok {
				w.canon[obj] = cn
				return
			}
			w.canon[obj] = y.Name
			return
		case *ast.SelectorExpr:
			w.canon[obj] = w.c.p.Src(y)
			return
		}
		return
	}
	// alias of owned data of a guarded field (directly, or through its address)
	if u, ok := r.(*ast.UnaryExpr); ok && u.Op == token.AND {
		r = unparen(u.X)
	}
	if b, f, ok := w.rootTarget(r); ok && w.c.ownedData(f) {
		if bt, isBasic := obj.Type().Underlying().(*types.Basic); isBasic && bt.Kind() != types.Invalid {
			return // a copied scalar is not an alias
		}
		w.alias[obj] = [2]string{b, f}
	}
}

func (w *walker) finish(p *pathState) {
	// run deferred items LIFO
	saved := w.paths
	w.paths = []*pathState{p}
	for i := len(p.defers) - 1; i >= 0; i-- {
		d := p.defers[i]
		if d.rel != nil {
			op := "Unlock"
			if d.rel.mode == "R" {
				op = "RUnlock"
			}
			w.doLock(w.c.decls[w.fn.Key], d.rel.base, op)
		} else if d.body != nil {
			w.closure++
			w.block(d.body)
			w.closure--
		}
	}
	w.paths = saved
	w.finished = append(w.finished, p)
}

func (w *walker) terminateLive() {
	if w.closure > 0 {
		return
	}
	var rest []*pathState
	for _, p := range w.paths {
		if p.skip == 0 {
			w.finish(p)
		} else {
			rest = append(rest, p)
		}
	}
	w.paths = rest
}

func (w *walker) block(b *ast.BlockStmt) {
	if b == nil {
		return
	}
	for _, s := range b.List {
		w.stmt(s)
	}
}

// fork runs each alternative on a copy of the live paths.
func (w *walker) fork(alts []func()) {
	saved := w.paths
	var out []*pathState
	var skipping []*pathState
	for _, p := range saved {
		if p.skip != 0 {
			skipping = append(skipping, p)
		}
	}
	for _, alt := range alts {
		var cp []*pathState
		for _, p := range saved {
			if p.skip == 0 {
				cp = append(cp, p.clone())
			}
		}
		w.paths = cp
		alt()
		out = append(out, w.paths...)
	}
	w.paths = append(out, skipping...)
	if len(w.paths) > 64 {
		w.fn.Errs = append(w.fn.Errs, "too many lock paths")
		w.paths = w.paths[:64]
	}
}

func (w *walker) stmt(s ast.Stmt) {
	switch x := s.(type) {
	case nil:
	case *ast.BlockStmt:
		w.block(x)
	case *ast.LabeledStmt:
		w.stmt(x.Stmt)
	case *ast.ExprStmt:
		w.expr(x.X)
		if c, ok := x.X.(*ast.CallExpr); ok {
			if id, ok := unparen(c.Fun).(*ast.Ident); ok && id.Name == "panic" {
				w.terminateLive()
			}
		}
	case *ast.SendStmt:
		w.expr(x.Chan)
		w.expr(x.Value)
	case *ast.IncDecStmt:
		w.write(x.X)
	case *ast.AssignStmt:
		for i, r := range x.Rhs {
			// `p := &X.f[i]` bound to a local: the local becomes an alias of the field (its uses are
			// reads / writes of the field); taking the address is itself only a read
			if u, ok := unparen(r).(*ast.UnaryExpr); ok && u.Op == token.AND && len(x.Rhs) == len(x.Lhs) {
				if id, isId := x.Lhs[i].(*ast.Ident); isId && id.Name != "_" {
					if b, f, ok := w.rootTarget(u.X); ok && w.c.ownedData(f) {
						w.access(u, b, f, "R")
						w.readSubs(u.X)
						continue
					}
				}
			}
			w.expr(r)
		}
		for i, l := range x.Lhs {
			if x.Tok == token.DEFINE {
				var r ast.Expr
				if len(x.Rhs) == len(x.Lhs) {
					r = x.Rhs[i]
				} else if len(x.Rhs) == 1 && i == 0 {
					// v, ok := m[k] / x.(T) / call: first result may alias
					switch y := unparen(x.Rhs[0]).(type) {
					case *ast.IndexExpr:
						r = y
					case *ast.TypeAssertExpr:
						r = y.X
						if tv, ok := w.c.info.Types[y.X]; ok && tv.Type != nil {
							if _, isI := tv.Type.Underlying().(*types.Interface); isI {
								if id, ok := l.(*ast.Ident); ok && w.c.info.Defs[id] != nil {
									w.ifaceOrigin[w.c.info.Defs[id]] = typeName(tv.Type)
								}
							}
						}
					}
				}
				if id, ok := l.(*ast.Ident); ok && w.c.info.Defs[id] != nil {
					w.defineLocal(l, r)
					continue
				}
			}
			if id, ok := l.(*ast.Ident); ok {
				// assignment to a local variable: re-bind alias information, never an access
				if obj, isVar := w.c.info.Uses[id].(*types.Var); isVar && !obj.IsField() && obj.Parent() != obj.Pkg().Scope() {
					if x.Tok == token.ASSIGN && len(x.Rhs) == len(x.Lhs) {
						w.defineLocal(l, x.Rhs[i])
					}
					continue
				}
			}
			w.write(l)
		}
	case *ast.DeclStmt:
		if gd, ok := x.Decl.(*ast.GenDecl); ok {
			for _, sp := range gd.Specs {
				if vs, ok := sp.(*ast.ValueSpec); ok {
					for _, v := range vs.Values {
						w.expr(v)
					}
					for i, n := range vs.Names {
						var r ast.Expr
						if i < len(vs.Values) {
							r = vs.Values[i]
						}
						w.defineLocal(n, r)
					}
				}
			}
		}
	case *ast.GoStmt:
		w.goStmt(x)
	case *ast.DeferStmt:
		if b, op, ok := w.lockCall(x.Call); ok {
			m := "W"
			if op == "RUnlock" {
				m = "R"
			}
			if op == "Lock" || op == "RLock" {
				w.errf(x, "deferred lock acquisition")
			}
			for _, p := range w.live() {
				p.defers = append(p.defers, deferItem{rel: &heldLock{b, m}})
			}
			return
		}
		if fl, ok := unparen(x.Call.Fun).(*ast.FuncLit); ok {
			for _, a := range x.Call.Args {
				w.expr(a)
			}
			for _, p := range w.live() {
				p.defers = append(p.defers, deferItem{body: fl.Body})
			}
			return
		}
		// deferred ordinary call: arguments are evaluated now, the call runs at exit;
		// treat it as running now (it holds at least the same locks at exit or fewer only
		// through deferred unlocks registered *before* it, which run after it).
		w.expr(x.Call)
	case *ast.ReturnStmt:
		for _, r := range x.Results {
			w.expr(r)
		}
		w.terminateLive()
	case *ast.BranchStmt:
		if (x.Tok == token.BREAK || x.Tok == token.CONTINUE) && len(w.loops) > 0 && w.closure == 0 {
			id := w.loops[len(w.loops)-1]
			for _, p := range w.live() {
				p.skip = id
			}
		}
	case *ast.IfStmt:
		w.stmt(x.Init)
		w.expr(x.Cond)
		if w.hasLockOps(x.Body) || w.hasLockOps(x.Else) {
			w.fork([]func(){func() { w.block(x.Body) }, func() { w.stmt(x.Else) }})
		} else {
			w.noJump(func() { w.block(x.Body); w.stmt(x.Else) })
		}
	case *ast.ForStmt:
		w.stmt(x.Init)
		w.expr(x.Cond)
		w.loop(x.Body, x.Post)
	case *ast.RangeStmt:
		w.expr(x.X)
		if x.Tok == token.DEFINE {
			if x.Value != nil {
				w.defineLocal(x.Value, x.X)
			}
			if x.Key != nil {
				// map keys / indexes are scalars or copied keys: not aliases
				w.defineLocal(x.Key, nil)
			}
		}
		w.loop(x.Body, nil)
	case *ast.SwitchStmt:
		w.stmt(x.Init)
		w.expr(x.Tag)
		w.clauses(x.Body, false)
	case *ast.TypeSwitchStmt:
		w.stmt(x.Init)
		if as, ok := x.Assign.(*ast.AssignStmt); ok {
			for _, r := range as.Rhs {
				w.expr(r)
			}
		} else if es, ok := x.Assign.(*ast.ExprStmt); ok {
			w.expr(es.X)
		}
		w.clauses(x.Body, false)
	case *ast.SelectStmt:
		w.clauses(x.Body, true)
	}
}

// noJump runs a lock-free branch inline: returns / breaks inside it do not end the
// enclosing path (over-approximation: later events are checked under the same lock state).
func (w *walker) noJump(f func()) {
	w.closure++
	f()
	w.closure--
}

func (w *walker) loop(body *ast.BlockStmt, post ast.Stmt) {
	w.loopID++
	id := w.loopID
	w.loops = append(w.loops, id)
	before := map[*pathState]string{}
	for _, p := range w.live() {
		before[p] = fmt.Sprint(p.held)
	}
	if w.hasLockOps(body) {
		w.block(body)
	} else {
		w.noJump(func() { w.block(body) })
	}
	w.stmt(post)
	w.loops = w.loops[:len(w.loops)-1]
	for _, p := range w.paths {
		if p.skip == id {
			p.skip = 0
		}
	}
	if w.hasLockOps(body) {
		for _, p := range w.live() {
			if b, ok := before[p]; ok && b != fmt.Sprint(p.held) {
				w.errf(body, "loop body changes the lock state")
			}
		}
	}
}

func (w *walker) clauses(body *ast.BlockStmt, isSelect bool) {
	lockish := false
	hasDefault := false
	for _, cl := range body.List {
		if w.hasLockOps(cl) {
			lockish = true
		}
		switch c := cl.(type) {
		case *ast.CaseClause:
			if c.List == nil {
				hasDefault = true
			}
		case *ast.CommClause:
			if c.Comm == nil {
				hasDefault = true
			}
		}
	}
	run := func(cl ast.Stmt) {
		switch c := cl.(type) {
		case *ast.CaseClause:
			for _, e := range c.List {
				w.expr(e)
			}
			for _, s := range c.Body {
				w.stmt(s)
			}
		case *ast.CommClause:
			w.stmt(c.Comm)
			for _, s := range c.Body {
				w.stmt(s)
			}
		}
	}
	if !lockish {
		w.noJump(func() {
			for _, cl := range body.List {
				run(cl)
			}
		})
		return
	}
	var alts []func()
	for _, cl := range body.List {
		cl := cl
		alts = append(alts, func() { run(cl) })
	}
	if !hasDefault {
		alts = append(alts, func() {})
	}
	w.fork(alts)
}

func (w *walker) goStmt(g *ast.GoStmt) {
	for _, a := range g.Call.Args {
		w.expr(a)
	}
	if fl, ok := unparen(g.Call.Fun).(*ast.FuncLit); ok {
		w.goN++
		key := fmt.Sprintf("%s$go%d", w.fn.Key, w.goN)
		sub := &walker{c: w.c, fn: &lkFunc{Key: key, Entry: true, Pos: w.pos(g)},
			slots: w.slots, alias: map[types.Object][2]string{}, canon: w.canon, fresh: w.fresh, ifaceOrigin: w.ifaceOrigin}
		sub.paths = []*pathState{{}}
		sub.block(fl.Body)
		for _, p := range sub.paths {
			sub.finish(p)
		}
		for _, p := range sub.finished {
			sub.fn.Paths = append(sub.fn.Paths, p.events)
		}
		w.c.funcs[key] = sub.fn
		w.c.order = append(w.c.order, key)
		return
	}
	keys, _ := w.calleeKeys(g.Call)
	for _, k := range keys {
		w.c.markEntry(k)
	}
	if sel, ok := unparen(g.Call.Fun).(*ast.SelectorExpr); ok {
		w.expr(sel.X)
	}
}

var pendingEntries = map[string]bool{}

func (c *lkCtx) markEntry(k string) { pendingEntries[k] = true }

func isExported(key string) bool {
	n := key
	if i := strings.LastIndex(key, "."); i >= 0 {
		n = key[i+1:]
	}
	return n != "" && n[0] >= 'A' && n[0] <= 'Z'
}

func (c *lkCtx) walkFunc(fd *ast.FuncDecl) {
	key := c.funcKey(fd)
	fn := &lkFunc{Key: key, Entry: isExported(key)}
	c.decls[key] = fd
	w := &walker{c: c, fn: fn, slots: map[string][]string{}, alias: map[types.Object][2]string{},
		canon: map[types.Object]string{}, fresh: map[types.Object]bool{}, ifaceOrigin: map[types.Object]string{}}
	fn.Pos = w.pos(fd)
	// receiver / parameters of tracked type come first in the slot order
	seed := func(fl *ast.FieldList) {
		if fl == nil {
			return
		}
		for _, f := range fl.List {
			for _, n := range f.Names {
				obj := c.info.Defs[n]
				if obj == nil {
					continue
				}
				if tn := typeName(obj.Type()); c.tracked[tn] != nil {
					w.slots[tn] = append(w.slots[tn], n.Name)
				}
			}
		}
	}
	seed(fd.Recv)
	seed(fd.Type.Params)
	w.paths = []*pathState{{}}
	w.block(fd.Body)
	for _, p := range w.paths {
		p.skip = 0
		w.finish(p)
	}
	for _, p := range w.finished {
		if len(p.held) != 0 {
			fn.Errs = append(fn.Errs, fmt.Sprintf("%s: a path ends holding %v", fn.Pos, p.held))
		}
		fn.Paths = append(fn.Paths, p.events)
	}
	c.funcs[key] = fn
	c.order = append(c.order, key)
}

func modeMax(a, b string) string {
	if a == "W" || b == "W" {
		return "W"
	}
	if a == "R" || b == "R" {
		return "R"
	}
	return ""
}

func covers(held, need string) bool { return held == "W" || (held == "R" && need == "R") }

func baseType(b string) string {
	if i := strings.Index(b, "#"); i >= 0 {
		return b[:i]
	}
	return b
}

// lockWhitelist: accesses exempt from the lock discipline, (function, field) → reason.
// The list is emitted into the facts and PINNED by an obligation in
// lean/CometGen/Obligations_C11.lean (changing it here alone breaks the check).
var lockWhitelist = map[[2]string]string{
	{"PersistentHybridIndex.compactSegments", "segmentMetadata.numDocs"}: "written only by updateStats, which is only ever called on a segment that is not yet published (before segmentManager.add): facts updateStatsCallsOnPublished = [] and writers pinned",
	{"IVFIndex.Trained", "IVFIndex.trained"}:                             "out of C11's operation set: conflicts only with Train / ReadFrom (writers pinned), which the property does not run concurrently",
	{"PQIndex.Trained", "PQIndex.trained"}:                               "out of C11's operation set: conflicts only with Train / ReadFrom (writers pinned)",
	{"IVFPQIndex.Trained", "IVFPQIndex.trained"}:                         "out of C11's operation set: conflicts only with Train / ReadFrom (writers pinned)",
}

func init() {
	registerExtractor(Extractor{Name: "Locks", Run: extractLocks})
}

func extractLocks(p *Pkg) (string, error) {
	c := &lkCtx{p: p, tracked: map[string]*types.Struct{}, fclass: map[string]string{}, ftype: map[string]string{},
		ifaces: map[string][]string{}, methods: map[string]map[string]bool{}, funcs: map[string]*lkFunc{}, decls: map[string]*ast.FuncDecl{}}
	pendingEntries = map[string]bool{}
	var files []*ast.File
	var names []string
	for n := range p.Files {
		names = append(names, n)
	}
	sort.Strings(names)
	for _, n := range names {
		files = append(files, p.Files[n])
	}
	c.info = &types.Info{Types: map[ast.Expr]types.TypeAndValue{}, Defs: map[*ast.Ident]types.Object{},
		Uses: map[*ast.Ident]types.Object{}, Selections: map[*ast.SelectorExpr]*types.Selection{}}
	conf := types.Config{Importer: &fakeImporter{pkgs: map[string]*types.Package{}}, Error: func(error) {},
		DisableUnusedImportCheck: true, FakeImportC: true}
	pkg, _ := conf.Check("comet", p.Fset, files, c.info)
	if pkg == nil {
		return "", fmt.Errorf("type-checking package comet produced no package")
	}
	// --- structs owning a mutex; field classes
	ifaceMethods := map[string][]string{}
	for _, f := range files {
		for _, d := range f.Decls {
			gd, ok := d.(*ast.GenDecl)
			if !ok || gd.Tok != token.TYPE {
				continue
			}
			for _, sp := range gd.Specs {
				ts := sp.(*ast.TypeSpec)
				switch t := ts.Type.(type) {
				case *ast.InterfaceType:
					for _, m := range t.Methods.List {
						for _, n := range m.Names {
							ifaceMethods[ts.Name.Name] = append(ifaceMethods[ts.Name.Name], n.Name)
						}
					}
				case *ast.StructType:
					owns := false
					for _, fl := range t.Fields.List {
						ty := p.Src(fl.Type)
						if ty == "sync.RWMutex" || ty == "sync.Mutex" {
							owns = true
						}
					}
					if !owns {
						continue
					}
					obj := pkg.Scope().Lookup(ts.Name.Name)
					if obj == nil {
						continue
					}
					st, _ := obj.Type().Underlying().(*types.Struct)
					c.tracked[ts.Name.Name] = st
					for _, fl := range t.Fields.List {
						ty := p.Src(fl.Type)
						cl := "data"
						switch {
						case ty == "sync.RWMutex" || ty == "sync.Mutex":
							cl = "lock"
						case strings.HasPrefix(ty, "atomic."):
							cl = "atomic"
						case strings.HasPrefix(ty, "chan ") || ty == "sync.WaitGroup" || ty == "sync.Once" || ty == "sync.Pool":
							cl = "sync"
						}
						for _, n := range fl.Names {
							c.fclass[ts.Name.Name+"."+n.Name] = cl
							c.ftype[ts.Name.Name+"."+n.Name] = ty
						}
					}
				}
			}
		}
	}
	if len(c.tracked) == 0 {
		return "", fmt.Errorf("no struct owning a sync.RWMutex found")
	}
	// --- method sets (by name) and interface implementations (by name)
	var fdecls []*ast.FuncDecl
	for _, f := range files {
		for _, d := range f.Decls {
			if fd, ok := d.(*ast.FuncDecl); ok && fd.Body != nil {
				fdecls = append(fdecls, fd)
				k := c.funcKey(fd)
				if i := strings.Index(k, "."); i >= 0 {
					if c.methods[k[:i]] == nil {
						c.methods[k[:i]] = map[string]bool{}
					}
					c.methods[k[:i]][k[i+1:]] = true
				}
			}
		}
	}
	// declared implementations: `var _ I = (*T)(nil)`
	declared := map[string][]string{}
	for _, f := range files {
		for _, d := range f.Decls {
			gd, ok := d.(*ast.GenDecl)
			if !ok || gd.Tok != token.VAR {
				continue
			}
			for _, sp := range gd.Specs {
				vs := sp.(*ast.ValueSpec)
				if len(vs.Names) != 1 || vs.Names[0].Name != "_" || vs.Type == nil || len(vs.Values) != 1 {
					continue
				}
				in, ok := vs.Type.(*ast.Ident)
				if !ok {
					continue
				}
				src := p.Src(vs.Values[0]) // (*T)(nil)
				if strings.HasPrefix(src, "(*") && strings.HasSuffix(src, ")(nil)") {
					declared[in.Name] = append(declared[in.Name], src[2:len(src)-6])
				}
			}
		}
	}
	for in, ms := range ifaceMethods {
		var impls []string
		if len(declared[in]) > 0 {
			impls = append(impls, declared[in]...)
		} else {
			for tn, have := range c.methods {
				all := true
				for _, m := range ms {
					if !have[m] {
						all = false
						break
					}
				}
				if all && len(ms) > 0 {
					impls = append(impls, tn)
				}
			}
		}
		sort.Strings(impls)
		c.ifaces[in] = dedup(impls)
	}
	// --- walk
	for _, fd := range fdecls {
		c.walkFunc(fd)
	}
	for k := range pendingEntries {
		if f := c.funcs[k]; f != nil {
			f.Entry = true
		}
	}
	var errs []string
	for _, k := range c.order {
		errs = append(errs, c.funcs[k].Errs...)
	}
	// --- field classes: immutable = data field with no write event anywhere
	written := map[string]bool{}
	for _, f := range c.funcs {
		for _, path := range f.Paths {
			for _, e := range path {
				if e.Kind == "acc" && e.Mode == "W" {
					written[e.Field] = true
				}
			}
		}
	}
	class := func(field string) string {
		cl := c.fclass[field]
		if cl == "data" {
			if written[field] {
				return "guarded"
			}
			return "immutable"
		}
		return cl
	}
	// --- relevance: functions with events, transitively
	relevant := map[string]bool{}
	for changed := true; changed; {
		changed = false
		for k, f := range c.funcs {
			if relevant[k] {
				continue
			}
			for _, path := range f.Paths {
				for _, e := range path {
					if e.Kind != "call" {
						relevant[k] = true
					} else {
						for _, cal := range e.Callees {
							if relevant[cal] {
								relevant[k] = true
							}
						}
					}
				}
			}
			if relevant[k] {
				changed = true
			}
		}
	}
	// --- req certificate: fixpoint of "locks the caller must hold"
	for _, f := range c.funcs {
		f.Req = map[string]string{}
	}
	for changed := true; changed; {
		changed = false
		for _, k := range c.order {
			f := c.funcs[k]
			add := func(base, mode string) {
				if n := modeMax(f.Req[base], mode); n != f.Req[base] {
					f.Req[base] = n
					changed = true
				}
			}
			for _, path := range f.Paths {
				for _, e := range path {
					switch e.Kind {
					case "acc":
						if lockWhitelist[[2]string{k, e.Field}] != "" {
							continue
						}
						if class(e.Field) == "guarded" && !covers(e.Held[e.Base], e.Mode) {
							add(e.Base, e.Mode)
						}
					case "call":
						for _, cal := range e.Callees {
							g := c.funcs[cal]
							if g == nil {
								continue
							}
							for b, m := range g.Req {
								if !covers(e.Held[b], m) {
									add(b, m)
								}
								if e.RecvB != "" && e.RecvB != "!fresh" && baseType(e.RecvB) == baseType(b) && e.RecvB != b {
									errs = append(errs, fmt.Sprintf("%s: helper %s (needs %s) is called on instance slot %s: unsupported", e.Pos, cal, b, e.RecvB))
								}
							}
						}
					}
				}
			}
		}
	}
	if len(errs) > 0 {
		sort.Strings(errs)
		errs = dedup(errs)
		return "", fmt.Errorf("lock extractor: %s", strings.Join(errs, "; "))
	}
	// --- transitive lock sets, nesting edges.  Computed twice: `direct` ignores dynamic dispatch
	// to *PersistentHybridIndex methods (a HybridSearchIndex value inside the store is always a
	// *hybridSearchIndex, fact hybridIfaceProducers); the edges that exist only through that
	// dispatch are reported separately.
	type edge struct{ a, b string }
	computeEdges := func(skipStoreIface bool) map[edge]string {
		skip := func(e lkEvent, cal string) bool {
			return skipStoreIface && e.Iface && strings.HasPrefix(cal, "PersistentHybridIndex.")
		}
		acquires := map[string]map[string]bool{}
		for k := range c.funcs {
			acquires[k] = map[string]bool{}
		}
		for changed := true; changed; {
			changed = false
			for k, f := range c.funcs {
				for _, path := range f.Paths {
					for _, e := range path {
						if e.Kind == "acq" {
							if !acquires[k][baseType(e.Base)] {
								acquires[k][baseType(e.Base)] = true
								changed = true
							}
						}
						if e.Kind == "call" {
							for _, cal := range e.Callees {
								if skip(e, cal) {
									continue
								}
								for b := range acquires[cal] {
									if !acquires[k][b] {
										acquires[k][b] = true
										changed = true
									}
								}
							}
						}
					}
				}
			}
		}
		edges := map[edge]string{}
		for _, k := range c.order {
			f := c.funcs[k]
			for _, path := range f.Paths {
				for _, e := range path {
					var targets []string
					if e.Kind == "acq" {
						targets = []string{baseType(e.Base)}
					}
					if e.Kind == "call" {
						for _, cal := range e.Callees {
							if skip(e, cal) {
								continue
							}
							for b := range acquires[cal] {
								targets = append(targets, b)
							}
						}
					}
					for _, h := range e.HeldSeq {
						for _, t := range targets {
							ed := edge{baseType(h), t}
							if _, ok := edges[ed]; !ok {
								edges[ed] = k + " @ " + e.Pos
							}
						}
					}
				}
			}
		}
		return edges
	}
	edges := computeEdges(true)
	allEdges := computeEdges(false)
	// --- numbering
	var fnNames []string
	for _, k := range c.order {
		if relevant[k] {
			fnNames = append(fnNames, k)
		}
	}
	sort.Strings(fnNames)
	fnID := map[string]int{}
	for i, k := range fnNames {
		fnID[k] = i
	}
	baseSet := map[string]bool{}
	fieldSet := map[string]bool{}
	for _, k := range fnNames {
		for _, path := range c.funcs[k].Paths {
			for _, e := range path {
				if e.Base != "" {
					baseSet[e.Base] = true
				}
				if e.Field != "" {
					fieldSet[e.Field] = true
				}
			}
		}
		for b := range c.funcs[k].Req {
			baseSet[b] = true
		}
	}
	for e := range edges {
		baseSet[e.a] = true
		baseSet[e.b] = true
	}
	bases := sortedKeys(baseSet)
	fields := sortedKeys(fieldSet)
	baseID := map[string]int{}
	for i, b := range bases {
		baseID[b] = i
	}
	fieldID := map[string]int{}
	for i, f := range fields {
		fieldID[f] = i
	}
	mode := func(m string) string {
		if m == "W" {
			return "1"
		}
		return "0"
	}
	classCode := map[string]string{"guarded": "0", "immutable": "1", "atomic": "2", "sync": "3", "lock": "3"}
	var b strings.Builder
	b.WriteString("/-! Raw encoding (decoded and checked by CometGen/Obligations_C11.lean through Comet.Conc.Lockset.decodeTable):\n")
	b.WriteString("   function = (id, entry, req [(base, mode)], paths); mode 0 = R, 1 = W;\n")
	b.WriteString("   event = [0, base, mode] acquire | [1, base, mode] release | [2, base, field, mode, site-function] access | 3 :: callees  call.\n")
	b.WriteString("   field class: 0 guarded (written after construction), 1 immutable, 2 atomic type, 3 channel / WaitGroup. -/\n\n")
	b.WriteString("/-- instance slots (bases), by id -/\ndef baseNames : List String := " + LeanStrList(bases) + "\n\n")
	b.WriteString("/-- fields, by id -/\ndef fieldNames : List String := " + LeanStrList(fields) + "\n\n")
	b.WriteString("/-- functions, by id -/\ndef fnNames : List String := " + LeanStrList(fnNames) + "\n\n")
	b.WriteString("/-- field classes by field id -/\ndef fieldClasses : List Nat := [\n")
	for i, f := range fields {
		sep := ","
		if i == len(fields)-1 {
			sep = ""
		}
		fmt.Fprintf(&b, "  %s%s -- %d %s : %s (%s)\n", classCode[class(f)], sep, i, f, c.ftype[f], class(f))
	}
	b.WriteString("]\n\n")
	b.WriteString("def table : List (Nat × Bool × List (Nat × Nat) × List (List (List Nat))) := [\n")
	for i, k := range fnNames {
		f := c.funcs[k]
		var reqs []string
		for _, rb := range sortedKeysS(f.Req) {
			reqs = append(reqs, fmt.Sprintf("(%d, %s)", baseID[rb], mode(f.Req[rb])))
		}
		fmt.Fprintf(&b, "  -- %d %s (%s)\n  (%d, %v, [%s], [", i, k, f.Pos, i, f.Entry, strings.Join(reqs, ", "))
		seen := map[string]bool{}
		np := 0
		for _, path := range f.Paths {
			var evs []string
			for _, e := range path {
				switch e.Kind {
				case "acq":
					evs = append(evs, fmt.Sprintf("[0, %d, %s]", baseID[e.Base], mode(e.Mode)))
				case "rel":
					evs = append(evs, fmt.Sprintf("[1, %d, %s]", baseID[e.Base], mode(e.Mode)))
				case "acc":
					evs = append(evs, fmt.Sprintf("[2, %d, %d, %s, %d]", baseID[e.Base], fieldID[e.Field], mode(e.Mode), i))
				case "call":
					var ids []string
					for _, cal := range e.Callees {
						if relevant[cal] {
							ids = append(ids, fmt.Sprint(fnID[cal]))
						}
					}
					if len(ids) > 0 {
						evs = append(evs, fmt.Sprintf("[3, %s]", strings.Join(ids, ", ")))
					}
				}
			}
			// collapse immediate repetitions (same access repeated under the same lock state)
			var out []string
			for j, e := range evs {
				if j > 0 && evs[j-1] == e && strings.HasPrefix(e, "[2") {
					continue
				}
				out = append(out, e)
			}
			s := "[" + strings.Join(out, ", ") + "]"
			if seen[s] {
				continue
			}
			seen[s] = true
			if np > 0 {
				b.WriteString(",")
			}
			np++
			b.WriteString("\n    " + s)
		}
		sep := ","
		if i == len(fnNames)-1 {
			sep = ""
		}
		b.WriteString("])" + sep + "\n")
	}
	b.WriteString("]\n\n")
	// nesting
	var es []edge
	for e := range edges {
		es = append(es, e)
	}
	sort.Slice(es, func(i, j int) bool {
		if es[i].a != es[j].a {
			return es[i].a < es[j].a
		}
		return es[i].b < es[j].b
	})
	b.WriteString("/-- lock nesting: (held, acquired) by lock class, with transitive closure through calls -/\n")
	b.WriteString("def nesting : List (String × String) := [\n")
	for i, e := range es {
		sep := ","
		if i == len(es)-1 {
			sep = ""
		}
		fmt.Fprintf(&b, "  (%s, %s)%s -- %s\n", LeanStr(e.a), LeanStr(e.b), sep, edges[e])
	}
	b.WriteString("]\n\n")
	var via []edge
	for e := range allEdges {
		if _, ok := edges[e]; !ok {
			via = append(via, e)
		}
	}
	sort.Slice(via, func(i, j int) bool {
		if via[i].a != via[j].a {
			return via[i].a < via[j].a
		}
		return via[i].b < via[j].b
	})
	b.WriteString("/-- nesting edges that exist ONLY through dynamic dispatch of a HybridSearchIndex call to *PersistentHybridIndex -/\n")
	b.WriteString("def nestingViaStoreIface : List (String × String) := [")
	for i, e := range via {
		if i > 0 {
			b.WriteString(", ")
		}
		fmt.Fprintf(&b, "(%s, %s)", LeanStr(e.a), LeanStr(e.b))
	}
	b.WriteString("]\n\n")
	// (E): every mention of the global id counter
	var sites []string
	for _, fd := range fdecls {
		ast.Inspect(fd.Body, func(n ast.Node) bool {
			switch x := n.(type) {
			case *ast.CallExpr:
				src := p.Src(x)
				if strings.Contains(src, "nodeIDCounter") {
					sites = append(sites, c.funcKey(fd)+": "+src)
					return false
				}
			case *ast.AssignStmt, *ast.IncDecStmt:
				src := p.Src(x)
				if strings.Contains(src, "nodeIDCounter") && !strings.Contains(src, "atomic.") {
					sites = append(sites, c.funcKey(fd)+": "+src)
					return false
				}
			}
			return true
		})
	}
	sort.Strings(sites)
	b.WriteString("/-- every statement of package comet that touches the global id counter -/\n")
	b.WriteString("def idCounterSites : List String := " + LeanStrList(sites) + "\n\n")
	// shape of memtableQueue.add / addWithID: is the write (memtable.add / addWithID) called while
	// the queue lock is held for writing?
	b.WriteString("/-- memtableQueue.add / addWithID: the call of memtable.add / addWithID happens under the queue's write lock -/\n")
	b.WriteString("def queueAddWritesUnderLock : List (String × Bool) := [")
	firstQ := true
	for _, k := range []string{"memtableQueue.add", "memtableQueue.addWithID"} {
		f := c.funcs[k]
		if f == nil {
			continue
		}
		under, seenCall := true, false
		for _, path := range f.Paths {
			for _, e := range path {
				if e.Kind != "call" {
					continue
				}
				for _, cal := range e.Callees {
					if cal == "memtable.add" || cal == "memtable.addWithID" {
						seenCall = true
						if e.Held["memtableQueue"] != "W" {
							under = false
						}
					}
				}
			}
		}
		if !firstQ {
			b.WriteString(", ")
		}
		firstQ = false
		fmt.Fprintf(&b, "(%s, %v)", LeanStr(k), under && seenCall)
	}
	b.WriteString("]\n\n")
	// lock shape of every Remove: the modes of its lock acquisitions along each path
	b.WriteString("/-- lock regions of every `Remove` method, per path: modes acquired in order (0 = R, 1 = W) -/\n")
	b.WriteString("def removeShapes : List (String × List (List Nat)) := [")
	firstR := true
	for _, k := range fnNames {
		if !strings.HasSuffix(k, ".Remove") {
			continue
		}
		var shapes []string
		seenS := map[string]bool{}
		for _, path := range c.funcs[k].Paths {
			var ms []string
			for _, e := range path {
				if e.Kind == "acq" {
					ms = append(ms, mode(e.Mode))
				}
			}
			sh := "[" + strings.Join(ms, ", ") + "]"
			if !seenS[sh] {
				seenS[sh] = true
				shapes = append(shapes, sh)
			}
		}
		if !firstR {
			b.WriteString(", ")
		}
		firstR = false
		fmt.Fprintf(&b, "(%s, [%s])", LeanStr(k), strings.Join(shapes, ", "))
	}
	b.WriteString("]\n\n")
	// whitelist (pinned in Lean), with the facts that justify it
	var wl [][2]string
	for k := range lockWhitelist {
		wl = append(wl, k)
	}
	sort.Slice(wl, func(i, j int) bool { return wl[i][0]+wl[i][1] < wl[j][0]+wl[j][1] })
	b.WriteString("/-- accesses exempt from the lock discipline: (function id, field id) -/\ndef whitelist : List (Nat × Nat) := [")
	for i, k := range wl {
		if i > 0 {
			b.WriteString(", ")
		}
		fid, ok1 := fnID[k[0]]
		fl, ok2 := fieldID[k[1]]
		if !ok1 || !ok2 {
			fid, fl = 999999, 999999 // the function / field no longer exists: entry is void
		}
		fmt.Fprintf(&b, "(%d, %d)", fid, fl)
	}
	b.WriteString("]\n\n/-- the same, by name -/\ndef whitelistNames : List (String × String) := [")
	for i, k := range wl {
		if i > 0 {
			b.WriteString(", ")
		}
		fmt.Fprintf(&b, "(%s, %s)", LeanStr(k[0]), LeanStr(k[1]))
	}
	b.WriteString("]\n\n")
	b.WriteString("/-- functions containing a write access to a whitelisted field -/\ndef whitelistedFieldWriters : List (String × List String) := [")
	seenF := map[string]bool{}
	firstW := true
	for _, k := range wl {
		if seenF[k[1]] {
			continue
		}
		seenF[k[1]] = true
		ws := map[string]bool{}
		for _, fk := range c.order {
			for _, path := range c.funcs[fk].Paths {
				for _, e := range path {
					if e.Kind == "acc" && e.Mode == "W" && e.Field == k[1] {
						ws[fk] = true
					}
				}
			}
		}
		if !firstW {
			b.WriteString(", ")
		}
		firstW = false
		fmt.Fprintf(&b, "(%s, %s)", LeanStr(k[1]), LeanStrList(sortedKeys(ws)))
	}
	b.WriteString("]\n\n")
	// call sites of segmentMetadata.updateStats on a published (non-fresh) object
	var pub []string
	for _, fk := range c.order {
		for _, path := range c.funcs[fk].Paths {
			for _, e := range path {
				if e.Kind == "call" && e.RecvB != "!fresh" {
					for _, cal := range e.Callees {
						if cal == "segmentMetadata.updateStats" {
							pub = append(pub, fk+" @ "+e.Pos)
						}
					}
				}
			}
		}
	}
	sort.Strings(pub)
	b.WriteString("/-- call sites of segmentMetadata.updateStats whose receiver is not an object constructed in the calling function -/\n")
	b.WriteString("def updateStatsCallsOnPublished : List String := " + LeanStrList(dedup(pub)) + "\n\n")
	// what is stored into fields of interface type HybridSearchIndex
	b.WriteString("/-- functions of package comet whose declared result type is the interface HybridSearchIndex -/\n")
	var prod []string
	for _, fd := range fdecls {
		if fd.Type.Results != nil {
			for _, r := range fd.Type.Results.List {
				if p.Src(r.Type) == "HybridSearchIndex" {
					prod = append(prod, c.funcKey(fd))
				}
			}
		}
	}
	sort.Strings(prod)
	b.WriteString("def hybridIfaceProducers : List String := " + LeanStrList(dedup(prod)) + "\n\n")
	b.WriteString("/-- implementations of comet's interfaces used to resolve dynamic calls -/\ndef ifaceImpls : List (String × List String) := [")
	var ins []string
	for in := range c.ifaces {
		if len(c.ifaces[in]) > 0 {
			ins = append(ins, in)
		}
	}
	sort.Strings(ins)
	for i, in := range ins {
		if i > 0 {
			b.WriteString(", ")
		}
		fmt.Fprintf(&b, "(%s, %s)", LeanStr(in), LeanStrList(c.ifaces[in]))
	}
	b.WriteString("]\n\n")
	// constructors of values stored in fields of interface type HybridSearchIndex
	b.WriteString("/-- unguarded accesses, for the report: (function, field, mode) of every access to a guarded field made while its lock is not held by the function itself -/\n")
	b.WriteString("def reqSummary : List (String × String) := [")
	first := true
	for _, k := range fnNames {
		f := c.funcs[k]
		for _, rb := range sortedKeysS(f.Req) {
			if !first {
				b.WriteString(", ")
			}
			first = false
			fmt.Fprintf(&b, "(%s, %s)", LeanStr(k), LeanStr(rb+":"+f.Req[rb]))
		}
	}
	b.WriteString("]\n")
	return b.String(), nil
}

func dedup(ss []string) []string {
	var out []string
	for i, s := range ss {
		if i == 0 || ss[i-1] != s {
			out = append(out, s)
		}
	}
	return out
}

func sortedKeys(m map[string]bool) []string {
	var out []string
	for k := range m {
		out = append(out, k)
	}
	sort.Strings(out)
	return out
}

func sortedKeysS(m map[string]string) []string {
	var out []string
	for k := range m {
		out = append(out, k)
	}
	sort.Strings(out)
	return out
}
