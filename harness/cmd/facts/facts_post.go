package main

import (
	"fmt"
	"go/ast"
)

// Anchored sites of C19 (limiter.go / fusion.go / storage_merge.go / aggregation.go).
func init() {
	registerExtractor(Extractor{Name: "Post", Run: func(p *Pkg) (string, error) {
		need := func(recv, name string) (*ast.FuncDecl, error) {
			f := p.Func(recv, name)
			if f == nil {
				return nil, fmt.Errorf("%s.%s not found", recv, name)
			}
			return f, nil
		}
		ac, err := need("", "Autocut")
		if err != nil {
			return "", err
		}
		acr, err := need("", "AutocutResults")
		if err != nil {
			return "", err
		}
		lim, err := need("", "LimitResults")
		if err != nil {
			return "", err
		}
		mr, err := need("", "mergeResults")
		if err != nil {
			return "", err
		}
		srt, err := need("", "sortResultsByScore")
		if err != nil {
			return "", err
		}
		smr, err := need("", "scoreMapToRanks")
		if err != nil {
			return "", err
		}
		// every index expression of Autocut over diff / yValues, in source order
		var idxs []string
		ast.Inspect(ac, func(n ast.Node) bool {
			if ix, ok := n.(*ast.IndexExpr); ok {
				idxs = append(idxs, p.Src(ix))
			}
			return true
		})
		// slice expressions of the limiter functions
		var slices []string
		for _, fn := range []*ast.FuncDecl{lim, acr} {
			ast.Inspect(fn, func(n ast.Node) bool {
				if sx, ok := n.(*ast.SliceExpr); ok {
					slices = append(slices, p.Src(sx))
				}
				return true
			})
		}
		// assignments into the rank map
		var rankAssign []string
		ast.Inspect(smr, func(n ast.Node) bool {
			if as, ok := n.(*ast.AssignStmt); ok && len(as.Lhs) == 1 {
				if ix, ok := as.Lhs[0].(*ast.IndexExpr); ok {
					if id, ok := ix.X.(*ast.Ident); ok && id.Name == "ranks" {
						rankAssign = append(rankAssign, p.Src(as))
					}
				}
			}
			return true
		})
		// sort comparators of the six aggregations
		var aggSorts []string
		for _, recv := range []string{"vectorSumAggregation", "vectorMaxAggregation", "vectorMeanAggregation",
			"textSumAggregation", "textMaxAggregation", "textMeanAggregation"} {
			f, err := need(recv, "Aggregate")
			if err != nil {
				return "", err
			}
			aggSorts = append(aggSorts, p.Calls(f, "sort.Slice")...)
		}
		b := ""
		b += "/-- all `if` conditions of Autocut, in source order -/\n"
		b += "def autocutConds : List String := " + LeanStrList(p.IfConds(ac, "")) + "\n\n"
		b += "/-- all index expressions of Autocut, in source order -/\n"
		b += "def autocutIndexes : List String := " + LeanStrList(idxs) + "\n\n"
		b += "/-- the `if` conditions of AutocutResults -/\n"
		b += "def autocutResultsConds : List String := " + LeanStrList(p.IfConds(acr, "")) + "\n\n"
		b += "/-- slice expressions of LimitResults and AutocutResults -/\n"
		b += "def limiterSlices : List String := " + LeanStrList(slices) + "\n\n"
		b += "/-- the `if` conditions of mergeResults -/\n"
		b += "def mergeConds : List String := " + LeanStrList(p.IfConds(mr, "")) + "\n\n"
		b += "/-- the comparator of sortResultsByScore -/\n"
		b += "def mergeSortCalls : List String := " + LeanStrList(p.Calls(srt, "sort.Slice")) + "\n\n"
		b += "/-- assignments `ranks[…] = …` of scoreMapToRanks -/\n"
		b += "def rankAssigns : List String := " + LeanStrList(rankAssign) + "\n\n"
		b += "/-- the swap conditions of scoreMapToRanks -/\n"
		b += "def rankSwapAssigns : List String := " + LeanStrList(assignsTo(p, smr, "shouldSwap")) + "\n\n"
		b += "/-- sort comparators of the six Aggregate methods (vector sum, max, mean; text sum, max, mean) -/\n"
		b += "def aggSortCalls : List String := " + LeanStrList(aggSorts) + "\n"
		return b, nil
	}})
}

// assignsTo lists the assignment / define statements in fn whose single LHS is the identifier `name`.
func assignsTo(p *Pkg, fn *ast.FuncDecl, name string) []string {
	var out []string
	ast.Inspect(fn, func(n ast.Node) bool {
		if as, ok := n.(*ast.AssignStmt); ok && len(as.Lhs) == 1 {
			if id, ok := as.Lhs[0].(*ast.Ident); ok && id.Name == name {
				out = append(out, p.Src(as))
			}
		}
		return true
	})
	return out
}
