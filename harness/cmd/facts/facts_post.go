package main

import (
	"fmt"
	"go/ast"
	"go/scanner"
	"go/token"
	"strings"
)

// Anchored sites of C19 (limiter.go / fusion.go / storage_merge.go / aggregation.go).
func init() {
	registerExtractor(Extractor{Name: "Post", Run: func(p *Pkg) (string, error) {
		need := func(recv, name string) (*ast.FuncDecl, error) {
			f := p.Func(recv, name)
			if f == nil {
				return nil, fmt.Errorf("%s.%s not found", recv, name)
			}
			return f, nil
		}
		ac, err := need("", "Autocut")
		if err != nil {
			return "", err
		}
		acr, err := need("", "AutocutResults")
		if err != nil {
			return "", err
		}
		lim, err := need("", "LimitResults")
		if err != nil {
			return "", err
		}
		mr, err := need("", "mergeResults")
		if err != nil {
			return "", err
		}
		srt, err := need("", "sortResultsByScore")
		if err != nil {
			return "", err
		}
		// every index expression of Autocut over diff / yValues, in source order
		var idxs []string
		ast.Inspect(ac, func(n ast.Node) bool {
			if ix, ok := n.(*ast.IndexExpr); ok {
				idxs = append(idxs, p.Src(ix))
			}
			return true
		})
		// slice expressions of the limiter functions
		var slices []string
		for _, fn := range []*ast.FuncDecl{lim, acr} {
			ast.Inspect(fn, func(n ast.Node) bool {
				if sx, ok := n.(*ast.SliceExpr); ok {
					slices = append(slices, p.Src(sx))
				}
				return true
			})
		}
		// sort comparators of the six aggregations
		var aggSorts []string
		for _, recv := range []string{"vectorSumAggregation", "vectorMaxAggregation", "vectorMeanAggregation",
			"textSumAggregation", "textMaxAggregation", "textMeanAggregation"} {
			f, err := need(recv, "Aggregate")
			if err != nil {
				return "", err
			}
			aggSorts = append(aggSorts, p.Calls(f, "sort.Slice")...)
		}
		b := ""
		b += "/-- all `if` conditions of Autocut, in source order -/\n"
		b += "def autocutConds : List String := " + LeanStrList(canonAll(p.IfConds(ac, ""))) + "\n\n"
		b += "/-- all index expressions of Autocut, in source order -/\n"
		b += "def autocutIndexes : List String := " + LeanStrList(canonAll(idxs)) + "\n\n"
		b += "/-- the `if` conditions of AutocutResults -/\n"
		b += "def autocutResultsConds : List String := " + LeanStrList(canonAll(p.IfConds(acr, ""))) + "\n\n"
		b += "/-- slice expressions of LimitResults and AutocutResults -/\n"
		b += "def limiterSlices : List String := " + LeanStrList(canonAll(slices)) + "\n\n"
		b += "/-- the `if` conditions of mergeResults -/\n"
		b += "def mergeConds : List String := " + LeanStrList(canonAll(p.IfConds(mr, ""))) + "\n\n"
		b += "/-- the comparator of sortResultsByScore -/\n"
		b += "def mergeSortCalls : List String := " + LeanStrList(canonAll(p.Calls(srt, "sort.Slice"))) + "\n\n"
		b += "/-- sort comparators of the six Aggregate methods (vector sum, max, mean; text sum, max, mean) -/\n"
		b += "def aggSortCalls : List String := " + LeanStrList(canonAll(aggSorts)) + "\n"
		return b, nil
	}})
}

// canonIdents makes a printed Go expression independent of the names of local variables and
// parameters: every identifier that is not a field / method selector (preceded by '.'), a
// package qualifier, a builtin or a basic type becomes $1, $2, … in order of first occurrence
// within the expression. Renaming a variable leaves the fact unchanged; exchanging two of them
// (results[j] > results[i]), another constant, operator or field does not.
func canonIdents(src string) string {
	keep := map[string]bool{"len": true, "cap": true, "min": true, "max": true, "sort": true, "math": true,
		"int": true, "bool": true, "float32": true, "float64": true, "uint32": true, "true": true, "false": true, "nil": true}
	fset := token.NewFileSet()
	file := fset.AddFile("", fset.Base(), len(src))
	var sc scanner.Scanner
	sc.Init(file, []byte(src), nil, 0)
	names := map[string]string{}
	var out strings.Builder
	last, prev := 0, token.ILLEGAL
	for {
		pos, tok, lit := sc.Scan()
		if tok == token.EOF {
			break
		}
		off := file.Offset(pos)
		if tok == token.IDENT && prev != token.PERIOD && !keep[lit] {
			if _, ok := names[lit]; !ok {
				names[lit] = fmt.Sprintf("$%d", len(names)+1)
			}
			out.WriteString(src[last:off])
			out.WriteString(names[lit])
			last = off + len(lit)
		}
		if tok != token.SEMICOLON || lit != "\n" { // ignore automatically inserted semicolons
			prev = tok
		}
	}
	out.WriteString(src[last:])
	return out.String()
}

func canonAll(ss []string) []string {
	o := make([]string, len(ss))
	for i, s := range ss {
		o[i] = canonIdents(s)
	}
	return o
}
