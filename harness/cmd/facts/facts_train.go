package main

import (
	"fmt"
	"go/ast"
	"sort"
	"strings"
)

// Callees returns the sorted set of printed callee expressions of fn.
func (p *Pkg) Callees(fn *ast.FuncDecl) []string {
	set := map[string]bool{}
	ast.Inspect(fn, func(n ast.Node) bool {
		if c, ok := n.(*ast.CallExpr); ok {
			set[p.Src(c.Fun)] = true
		}
		return true
	})
	out := []string{}
	for k := range set {
		out = append(out, k)
	}
	sort.Strings(out)
	return out
}

// GoStmts counts `go` statements; MapTypes lists printed map types; Ranges the ranged expressions.
func (p *Pkg) GoStmts(fn *ast.FuncDecl) int {
	n := 0
	ast.Inspect(fn, func(x ast.Node) bool {
		if _, ok := x.(*ast.GoStmt); ok {
			n++
		}
		return true
	})
	return n
}

func (p *Pkg) MapTypes(fn *ast.FuncDecl) []string {
	out := []string{}
	ast.Inspect(fn, func(x ast.Node) bool {
		if m, ok := x.(*ast.MapType); ok {
			out = append(out, p.Src(m))
		}
		return true
	})
	return out
}

func (p *Pkg) Ranges(fn *ast.FuncDecl) []string {
	out := []string{}
	ast.Inspect(fn, func(x ast.Node) bool {
		if r, ok := x.(*ast.RangeStmt); ok {
			out = append(out, p.Src(r.X))
		}
		return true
	})
	return out
}

// FileOf returns the base name of the file declaring fn, and its import paths.
func (p *Pkg) FileOf(fn *ast.FuncDecl) (string, []string) {
	for name, f := range p.Files {
		for _, d := range f.Decls {
			if d == ast.Decl(fn) {
				imps := []string{}
				for _, i := range f.Imports {
					imps = append(imps, strings.Trim(i.Path.Value, `"`))
				}
				sort.Strings(imps)
				return name, imps
			}
		}
	}
	return "", nil
}

// Assigns returns the printed assignment statements of fn whose left side mentions `lhs`.
func (p *Pkg) Assigns(fn *ast.FuncDecl, lhs string) []string {
	out := []string{}
	ast.Inspect(fn, func(n ast.Node) bool {
		if s, ok := n.(*ast.AssignStmt); ok {
			for _, l := range s.Lhs {
				if strings.Contains(p.Src(l), lhs) {
					out = append(out, p.Src(s))
					break
				}
			}
		}
		return true
	})
	return out
}

// Anchored sites of C20 (clustering.go, quantizer.go, Train of ivf / pq / ivfpq).
func init() {
	registerExtractor(Extractor{Name: "Train", Run: func(p *Pkg) (string, error) {
		type site struct{ lean, recv, name, param string }
		sites := []site{
			{"kmeansInternal", "", "kmeansInternal", "vectors"},
			{"kMeans", "", "KMeans", "vectors"},
			{"kMeansSubspace", "", "KMeansSubspace", "vectors"},
			{"findNearest", "", "FindNearestCentroidIndex", "centroids"},
			{"ivfTrain", "IVFIndex", "Train", "vectors"},
			{"pqTrain", "PQIndex", "Train", "vectors"},
			{"ivfpqTrain", "IVFPQIndex", "Train", "vectors"},
		}
		b := ""
		for _, s := range sites {
			fn := p.Func(s.recv, s.name)
			if fn == nil {
				return "", fmt.Errorf("%s.%s not found", s.recv, s.name)
			}
			callees := p.Callees(fn)
			_, imps := p.FileOf(fn)
			nondet := []string{}
			for _, c := range callees {
				if strings.HasPrefix(c, "rand.") || strings.HasPrefix(c, "time.") || strings.HasPrefix(c, "runtime.") || strings.HasPrefix(c, "os.") {
					nondet = append(nondet, c)
				}
			}
			for _, i := range imps {
				if strings.Contains(i, "rand") {
					nondet = append(nondet, "import "+i)
				}
			}
			b += fmt.Sprintf("/-- %s.%s: every callee (sorted, printed) -/\ndef %sCallees : List String := %s\n", s.recv, s.name, s.lean, LeanStrList(callees))
			b += fmt.Sprintf("/-- … callees into rand / time / runtime / os, and rand imports of its file -/\ndef %sNondet : List String := %s\n", s.lean, LeanStrList(nondet))
			b += fmt.Sprintf("def %sGoStmts : Nat := %d\n", s.lean, p.GoStmts(fn))
			b += fmt.Sprintf("def %sMapTypes : List String := %s\n", s.lean, LeanStrList(p.MapTypes(fn)))
			b += fmt.Sprintf("/-- … statements that write to (an element of) the parameter `%s` -/\ndef %sArgWrites : List String := %s\n\n", s.param, s.lean, LeanStrList(p.WritesTo(fn, s.param)))
		}
		km := p.Func("", "kmeansInternal")
		fnn := p.Func("", "FindNearestCentroidIndex")
		b += "/-- kmeansInternal: every if-condition in source order, the ranged expressions, the writes to centroids -/\n"
		b += "def kmeansConds : List String := " + LeanStrList(p.IfConds(km, "")) + "\n"
		b += "def kmeansRanges : List String := " + LeanStrList(p.Ranges(km)) + "\n"
		b += "def kmeansCentroidWrites : List String := " + LeanStrList(p.Assigns(km, "centroids")) + "\n"
		b += "def kmeansSumWrites : List String := " + LeanStrList(p.Assigns(km, "clusterSums[")) + "\n"
		b += "def kmeansStepWrites : List String := " + LeanStrList(append(p.Assigns(km, "samplingStep"), p.Assigns(km, "vectorIdx")...)) + "\n"
		b += "def findNearestConds : List String := " + LeanStrList(p.IfConds(fnn, "")) + "\n"
		// DefaultMaxIter
		dmi := ""
		for _, f := range p.Files {
			ast.Inspect(f, func(n ast.Node) bool {
				if vs, ok := n.(*ast.ValueSpec); ok {
					for i, nm := range vs.Names {
						if nm.Name == "DefaultMaxIter" && i < len(vs.Values) {
							dmi = p.Src(vs.Values[i])
						}
					}
				}
				return true
			})
		}
		b += "def defaultMaxIter : String := " + LeanStr(dmi) + "\n"
		b += "/-- the maxIter arguments the three Train methods pass to k-means -/\n"
		var trainCalls []string
		for _, s := range sites[4:] {
			fn := p.Func(s.recv, s.name)
			trainCalls = append(trainCalls, p.Calls(fn, "KMeans")...)
		}
		b += "def trainKMeansCalls : List String := " + LeanStrList(trainCalls) + "\n\n"
		// quantisers
		type q struct{ lean, recv string }
		for _, s := range []q{{"full", "FullPrecisionQuantizer"}, {"half", "HalfPrecisionQuantizer"}, {"int8", "Int8Quantizer"}} {
			qf, df := p.Func(s.recv, "Quantize"), p.Func(s.recv, "Dequantize")
			if qf == nil || df == nil {
				return "", fmt.Errorf("%s.Quantize/Dequantize not found", s.recv)
			}
			b += fmt.Sprintf("/-- %s: conditions, element assignments, writes to the argument -/\n", s.recv)
			b += fmt.Sprintf("def %sQuantConds : List String := %s\ndef %sDeqConds : List String := %s\n", s.lean, LeanStrList(p.IfConds(qf, "")), s.lean, LeanStrList(p.IfConds(df, "")))
			b += fmt.Sprintf("def %sQuantAssigns : List String := %s\ndef %sDeqAssigns : List String := %s\n", s.lean, LeanStrList(p.Assigns(qf, "[i]")), s.lean, LeanStrList(p.Assigns(df, "[i]")))
			b += fmt.Sprintf("def %sQuantArgWrites : List String := %s\n", s.lean, LeanStrList(p.WritesTo(qf, "vector")))
		}
		i8q := p.Func("Int8Quantizer", "Quantize")
		b += "def int8ScaledAssign : List String := " + LeanStrList(p.Assigns(i8q, "scaled")) + "\n"
		it, tr := p.Func("Int8Quantizer", "IsTrained"), p.Func("Int8Quantizer", "Train")
		if it == nil || tr == nil {
			return "", fmt.Errorf("Int8Quantizer.IsTrained/Train not found")
		}
		b += "def int8IsTrainedReturns : List String := " + LeanStrList(p.Returns(it)) + "\n"
		b += "def int8TrainConds : List String := " + LeanStrList(p.IfConds(tr, "")) + "\n"
		b += "def int8TrainAssigns : List String := " + LeanStrList(append(p.Assigns(tr, "absVal"), p.Assigns(tr, "max")...)) + "\n"
		b += "def int8TrainArgWrites : List String := " + LeanStrList(p.WritesTo(tr, "vectors")) + "\n"
		return b, nil
	}})
}
