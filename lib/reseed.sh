#!/bin/bash
# usage: lib/reseed.sh <PROP>...  — re-runs every seeded change of the properties (seeded/<PROP>-*)
# against a scratch worktree of /repo HEAD and prints one line per change:
#   RESEED <id> <prop> rc=<exit> concrete=<violations with a failing input> tie_only=<violations
#   ending in no-failing-input-found> first=<first reason>
# compare with the "result" in each meta.json. VERIF_DIR (default /verif) selects the checkout whose
# ./check is run; TIER (default quick).
vd=${VERIF_DIR:-/verif}; tier=${TIER:-quick}
export GOFLAGS=-mod=mod GOPROXY=off
for p in "$@"; do
  for d in /verif/seeded/$p-*; do
    id=$(basename $d); wt=/tmp/rs_$$_$id
    # ONLY="<id> <id> …" restricts the run to those changes
    if [ -n "${ONLY:-}" ]; then case " $ONLY " in *" $id "*) ;; *) continue;; esac; fi
    git -C /repo worktree add -q --detach "$wt" HEAD || continue
    if ! git -C "$wt" apply "$d/patch.diff" 2>/dev/null; then echo "RESEED $id $p patch-does-not-apply"; git -C /repo worktree remove --force "$wt"; continue; fi
    if ! (cd "$wt" && go build ./... && go build -tags verif ./...) >/dev/null 2>&1; then echo "RESEED $id $p does-not-build"; git -C /repo worktree remove --force "$wt"; continue; fi
    out=$(cd $vd && VERIF_EVIDENCE_DIR=/tmp/rs_ev_$$ VERIF_REPO="$wt" ./check $p $tier 2>&1); rc=$?
    c=$(echo "$out" | grep -c "^VIOLATION" ); t=$(echo "$out" | grep "^VIOLATION" | grep -c "no-failing-input-found$")
    first=$(echo "$out" | grep -m1 "^# " | cut -c3-90 | tr ' ' '_')
    echo "RESEED $id $p rc=$rc concrete=$((c-t)) tie_only=$t first=$first"
    # HARVEST=<dir>: keep the first shrunk replay that carries a failing input, as a corpus candidate
    if [ -n "${HARVEST:-}" ]; then
      r=$(echo "$out" | grep "^VIOLATION" | grep -v "no-failing-input-found$" | head -1 | sed 's/.*replay=//; s/ .*//')
      if [ -n "$r" ] && [ -f "$r" ]; then
        st=$(python3 -c "import json,sys;print(json.load(open(sys.argv[1])).get('stream',''))" "$r" 2>/dev/null)
        [ -n "$st" ] && mkdir -p "$HARVEST/$p" && cp "$r" "$HARVEST/$p/${st}_seeded_${id}.json"
      fi
    fi
    rm -rf /tmp/rs_ev_$$; git -C /repo worktree remove --force "$wt" >/dev/null 2>&1
  done
done
