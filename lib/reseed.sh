#!/bin/bash
# usage: lib/reseed.sh <PROP>...  — re-runs every seeded change of the properties (seeded/<PROP>-*) through lib/seedtest.sh and prints CAUGHT / MISSED per change; compare with the "result" in each meta.json
for p in "$@"; do
  for d in /verif/seeded/$p-*; do
    /verif/lib/seedtest.sh $d $p 2>&1 | grep -E "^SEED .* (property|patch does|does not build)" | cut -c1-160
  done
done
