#!/bin/bash
# usage: lib/harmlesstest.sh <dir with patch.diff>  — applies a BEHAVIOUR-PRESERVING patch (harmless/<id>) to a scratch worktree of /repo HEAD and runs every quick check against it: every line should end in "ok"
d=$(readlink -f "$1"); name=$(basename $d)
wt=/tmp/hw_$name
export GOFLAGS=-mod=mod GOPROXY=off
git -C /repo worktree add -q --detach "$wt" HEAD || exit 3
trap 'git -C /repo worktree remove --force "$wt" >/dev/null 2>&1' EXIT
git -C "$wt" apply "$d/patch.diff" || { echo "HARMLESS $name: patch does not apply"; exit 4; }
(cd "$wt" && go build ./... && go build -tags verif ./...) || { echo "HARMLESS $name: does not build"; exit 5; }
for p in C01 C02 C03 C04 C05 C06 C07 C08 C09 C10 C11 C12 C13 C14 C16 C17 C18 C19 C20; do
  out=$(cd /verif && VERIF_EVIDENCE_DIR="/tmp/hw_ev_$name" VERIF_REPO="$wt" ./check $p quick 2>&1); rc=$?
  if [ $rc != 0 ]; then echo "HARMLESS $name $p rc=$rc"; echo "$out" | grep -E "^VIOLATION|MACHINERY|error" | head -4 | cut -c1-300; mkdir -p /tmp/hw_fail/$name; echo "$out" > /tmp/hw_fail/$name/$p.log; else echo "HARMLESS $name $p ok"; fi
done
rm -rf /tmp/hw_ev_$name
