#!/bin/bash
# Statement coverage of /repo's code achieved by the correspondence streams (quick tier, seed 1).
# Supporting measurement of what the tie between model and code actually exercises — not a check.
# usage: lib/coverage.sh [tier]   → writes coverage/summary.txt and coverage/functions_below_70.txt
set -u
tier=${1:-quick}
cd /verif/harness || exit 2
export GOFLAGS=-mod=mod GOPROXY=off
[ -f go.mod ] || { echo "run ./check setup first (harness/go.mod is generated)"; exit 2; }
cov=$(mktemp -d /tmp/covdata.XXXXXX)
go build -cover -coverpkg=./...,github.com/wizenheimer/comet -tags verif -o /verif/build/corr_cov ./cmd/corr || exit 2
for p in $(ls /verif/lib/props | sed 's/.json//'); do
  GOCOVERDIR=$cov /verif/build/corr_cov -prop $p -seed 1 -tier $tier -out /tmp/cov_$p.json -replays /tmp/cov_replays >/dev/null 2>&1
done
mkdir -p /verif/coverage
{ echo "statement coverage of github.com/wizenheimer/comet under the correspondence streams (tier=$tier, seed 1, $(git -C /repo rev-parse --short HEAD))"; go tool covdata percent -i=$cov 2>/dev/null | grep wizenheimer; } > /verif/coverage/summary.txt
go tool covdata func -i=$cov 2>/dev/null | grep "wizenheimer/comet" | awk '{gsub("%","",$3); if ($3+0 < 70) print $3, $1, $2}' | sort -n > /verif/coverage/functions_below_70.txt
cat /verif/coverage/summary.txt; wc -l < /verif/coverage/functions_below_70.txt
rm -rf "$cov" /verif/build/corr_cov /tmp/cov_*.json /tmp/cov_replays
