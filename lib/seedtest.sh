#!/bin/bash
# usage: lib/seedtest.sh <seed-dir with patch.diff [+ demo_test.go]> <property> [tier]
# Applies a seeded change to a scratch worktree of /repo's HEAD, confirms it builds (and, with
# DEMO=1, that the demonstration fails with it), runs the property's check against it, cleans up.
set -u
d=$(readlink -f "$1"); prop=$2; tier=${3:-quick}
wt=/tmp/st_$$_$(basename "$d")
export GOFLAGS=-mod=mod GOPROXY=off
git -C /repo worktree add -q --detach "$wt" HEAD || exit 3
trap 'git -C /repo worktree remove --force "$wt" >/dev/null 2>&1' EXIT
if ! git -C "$wt" apply "$d/patch.diff" 2>/dev/null; then
  if ! git -C "$wt" apply --3way "$d/patch.diff" >/dev/null 2>&1; then echo "SEED $(basename $d): patch does not apply"; exit 4; fi
fi
(cd "$wt" && go build ./... && go build -tags verif ./...) || { echo "SEED $(basename $d): does not build"; exit 5; }
if [ "${DEMO:-0}" = 1 ] && [ -f "$d/demo_test.go" ]; then
  cp "$d/demo_test.go" "$wt/zz_demo_test.go"
  name=$(grep -o 'func Test[A-Za-z0-9_]*' "$wt/zz_demo_test.go" | head -1 | sed 's/func //')
  if (cd "$wt" && go test -vet=off -count=1 -run "^${name}\$" . >/dev/null 2>&1); then echo "SEED $(basename $d): demo PASSES with the change (not a valid seed here)"; else echo "SEED $(basename $d): demo fails with the change (as intended)"; fi
  rm -f "$wt/zz_demo_test.go"
fi
out=$(cd /verif && VERIF_EVIDENCE_DIR="/tmp/st_evidence_$$" VERIF_REPO="$wt" ./check "$prop" "$tier" 2>&1); rc=$?; rm -rf "/tmp/st_evidence_$$"
echo "$out" | grep -E "^VIOLATION|^OK|^KNOWN|MACHINERY" | cut -c1-200 | head -5
echo "SEED $(basename $d) property=$prop check-exit=$rc $([ $rc = 1 ] && echo CAUGHT || echo MISSED)"
