#!/usr/bin/env python3
"""Regenerates MANIFEST.json from lib/manifest_data.py (kept in one place so the file is always valid)."""
import json, os, sys
sys.path.insert(0, os.path.dirname(os.path.abspath(__file__)))
import manifest_data as M
import props as P

def hook_commits():
    """every commit of /repo whose subject starts with "verif:" (hooks and instrumentation), oldest first;
    falls back to the hand-kept list when /repo is not a git checkout"""
    import subprocess
    try:
        out = subprocess.run(["git", "-C", "/repo", "log", "--reverse", "--format=%h %s"], capture_output=True, text=True, check=True).stdout
        got = [l.split()[0] for l in out.splitlines() if len(l.split()) > 1 and l.split()[1] == "verif:"]
        return got or M.HOOK_COMMITS
    except Exception:
        return M.HOOK_COMMITS


checks = []
for pid in sorted(P.PROPS):
    d = P.PROPS[pid]["manifest"]
    checks.append({
        "property_id": pid,
        "quick_cmd": f"./check {pid} quick",
        "thorough_cmd": f"./check {pid} thorough",
        "evidence_file": f"/verif/evidence/{pid}.json",
        "replay_cmd_template": "./check replay {path}",
        "engine": "lean4-proof+correspondence",
        "level_claimed": {"category": "proof", "text": d["text"], "design_ref": d["design_ref"]},
        "level_note": d["note"],
        "technique": d["technique"],
    })
man = {
    "version": 1,
    "setup_cmd": "./check setup",
    "hooks": {
        "guard": "verif",
        "enable": "go build -tags verif (the harness module /verif/harness replaces github.com/wizenheimer/comet by /repo)",
        "baseline_off_cmd": "cd /repo && go test -mod=mod -vet=off -count=1 -timeout 25m ./...",
        "source_commits": hook_commits(),
        "add_only": True,
    },
    "engines": [{
        "name": "lean4-proof+correspondence", "path": "/verif/check",
        "serves_properties": sorted(P.PROPS),
        "kind_free_text": "Lean 4 theorems about hand-written models (lean/Comet, lean/CometProofs) + per-run correspondence check (Go harness drives /repo's code and the compiled Lean model driver on the same generated operation sequences; verified checkers judge implementation answers) + source facts regenerated from /repo on every run (hard obligations for C08-C11 and C17; elsewhere a changed anchor boosts the correspondence run tenfold and only what that run finds is reported)",
    }],
    "checks": checks,
    "notes": M.NOTES,
    "not_applicable": [{"property_id": k, "reason": v} for k, v in sorted(M.NOT_APPLICABLE.items()) if k not in P.PROPS],
}
json.dump(man, open(os.path.join(os.path.dirname(os.path.abspath(__file__)), "..", "MANIFEST.json"), "w"), indent=1)
print("MANIFEST.json written:", len(checks), "checks,", len(man["not_applicable"]), "not applicable")
