#!/usr/bin/env python3
"""Regenerates MANIFEST.json from lib/manifest_data.py (kept in one place so the file is always valid)."""
import json, os, sys
sys.path.insert(0, os.path.dirname(os.path.abspath(__file__)))
import manifest_data as M
import props as P

checks = []
for pid in sorted(P.PROPS):
    d = P.PROPS[pid]["manifest"]
    checks.append({
        "property_id": pid,
        "quick_cmd": f"./check {pid} quick",
        "thorough_cmd": f"./check {pid} thorough",
        "evidence_file": f"/verif/evidence/{pid}.json",
        "replay_cmd_template": "./check replay {path}",
        "engine": "lean4-proof+correspondence",
        "level_claimed": {"category": "proof", "text": d["text"], "design_ref": d["design_ref"]},
        "level_note": d["note"],
        "technique": d["technique"],
    })
man = {
    "version": 1,
    "setup_cmd": "./check setup",
    "hooks": {
        "guard": "verif",
        "enable": "go build -tags verif (the harness module /verif/harness replaces github.com/wizenheimer/comet by /repo)",
        "baseline_off_cmd": "cd /repo && go test -mod=mod -vet=off -count=1 -timeout 25m ./...",
        "source_commits": M.HOOK_COMMITS,
        "add_only": True,
    },
    "engines": [{
        "name": "lean4-proof+correspondence", "path": "/verif/check",
        "serves_properties": sorted(P.PROPS),
        "kind_free_text": "Lean 4 theorems about hand-written models (lean/Comet, lean/CometProofs) + per-run correspondence check (Go harness drives /repo's code and the compiled Lean model driver on the same generated operation sequences; verified checkers judge implementation answers) + regenerated source facts",
    }],
    "checks": checks,
    "notes": M.NOTES,
    "not_applicable": [{"property_id": k, "reason": v} for k, v in sorted(M.NOT_APPLICABLE.items()) if k not in P.PROPS],
}
json.dump(man, open(os.path.join(os.path.dirname(os.path.abspath(__file__)), "..", "MANIFEST.json"), "w"), indent=1)
print("MANIFEST.json written:", len(checks), "checks,", len(man["not_applicable"]), "not applicable")
