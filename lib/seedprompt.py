#!/usr/bin/env python3
"""prints the prompt for an independent seeding sub-agent (property text only, nothing from /verif)"""
import json, sys
pid, n = sys.argv[1], int(sys.argv[2]) if len(sys.argv) > 2 else 4
round_ = sys.argv[3] if len(sys.argv) > 3 else ""        # e.g. "r2": second round, told what was tried before
import glob, os
tried = []
if round_:
    for f in sorted(glob.glob(f'/verif/seeded/{pid}-*/meta.json')):
        try:
            tried.append("- " + json.load(open(f)).get("summary", "")[:260].replace("\n", " "))
        except Exception:
            pass
p = next(json.loads(l) for l in open('/verif/properties.jsonl') if json.loads(l)['id'] == pid)
low = pid.lower() + (("_" + round_) if round_ else "")
print(f"""You are testing how well a verification effort can detect subtle regressions in a Go library. You have your own scratch git worktree of the library at /tmp/seed_{low} (a checkout of wizenheimer/comet, an in-process hybrid vector / text / metadata store; module github.com/wizenheimer/comet). Work ONLY inside /tmp/seed_{low} and /tmp/seed_{low}_out (create it). Do not look at or touch /verif or /repo. Go commands need this environment: `GOFLAGS=-mod=mod GOPROXY=off` (leave GOSUMDB and GOTOOLCHAIN unset; there is no network). The existing test suite runs with `cd /tmp/seed_{low} && GOFLAGS=-mod=mod GOPROXY=off go test -vet=off -count=1 ./...` (about 10 s). Two existing tests are flaky on the unchanged tree (TestRerankerWithFlatIndex, TestPersistentHybridIndex_CompactionThreshold): ignore failures of those two only. Files named verif_*.go and calls to verifPoint / verifCapture are inert test hooks (build tag `verif`): leave them alone.

Here is a semantic property the library should satisfy:

"{pid} — {p['title']}. {p['statement']}" (Quantified over: {p['quantifier']['text']} Relevant files: {', '.join(p['anchors']['files'])}.)

Produce {n} different, independent changes to the library's non-test source, each of which BREAKS this property while the library still compiles and the existing test suite still passes (apart from the two flaky tests). I want realistic, subtle regressions of the kind a maintainer could introduce in a refactor, a "clean-up" or an "optimisation" — each needing something specific to manifest: a particular multi-step sequence of operations, an unusual but legal input (a boundary value, a tie, an empty or extreme case, a particular parameter combination or configuration), state left over from an earlier call (pooled or cached objects), or two cooperating sites that each look fine alone. NOT changes that ordinary use would expose at once. Vary the mechanism and the location across the {n} changes (different files / functions / clauses of the property).

For each change i = 1..{n} write to /tmp/seed_{low}_out/m<i>/:
 - patch.diff : `git diff` of the change against the worktree's HEAD (reset the worktree with `git checkout -- .` between changes so each diff applies to the clean tree on its own);
 - demo_test.go : a Go test file (package comet, droppable into the repository root as zz_demo_test.go) with ONE test that FAILS with the change applied and PASSES on the clean tree, demonstrating the property violation through the public API;
 - meta.json : {{"property":"{pid}","summary":"…what the change does…","needs":"…what specific input / sequence / configuration it needs in order to manifest…","files":[…]}}.
Verify each yourself: with the patch applied, (a) `go build ./...` and `go build -tags verif ./...` ok, (b) the existing suite passes (without your demo test; the two flaky tests excepted), (c) the demo test fails; on the clean tree the demo test passes. Never use `git stash` (the stash is shared with other worktrees of the same repository that other people are using right now): keep your changes as diff files and use `git apply` / `git checkout -- .`. Leave the worktree clean at the end. Final answer: {n} lines, one per change.""")
if tried:
    print("\nEarlier changes of this kind have already been made by other people; do NOT repeat these ideas or close variants of them — look for different mechanisms, different functions, different clauses of the property:\n" + "\n".join(tried))
