HOOK_COMMITS = ["e643c2f", "ac5abb7", "f73553e", "1ca5c04", "578d2b5", "4b8c6d3", "8345a96", "29bd9cf", "8d78881", "fd8fa68", "ad320e4", "6ffad87", "fa99d9d", "4219f8b", "2fdb29c", "7141782", "f4267f3"]

NOTES = ("Technique: machine-checked proof in Lean 4 of properties of hand-written models, tied to /repo on every run by a "
         "correspondence check (and regenerated source facts). See DESIGN.md. A property moves from not_applicable to checks "
         "when its check is built and green on the unchanged tree. Hook commits in /repo all carry the subject prefix 'verif:' "
         "(source_commits is read from git); two of them (29bd9cf, f4267f3) delete yield-point lines that earlier hook commits had "
         "added inside code windows which the following fix: commits removed — relative to the pinned snapshot the hooks only add code. "
         "fix: commits (genuine defects repaired) are listed in known_findings.jsonl as fixed entries.")

NOT_BUILT = "check not built yet (planned, see DESIGN.md section for this property); will be claimed when its proof and correspondence run exist"

NOT_APPLICABLE = {
    "C15": "recall floors on random data are an empirical statement about a heuristic on a distribution; no invariant, refinement or algebraic law implies them, so no theorem can carry them (DESIGN.md 6.15). The logical parts (exact at full probe, reachability of new vertices) are claimed under C13/C14/C12.",
}
for _p in ["C%02d" % i for i in range(1, 21)]:
    NOT_APPLICABLE.setdefault(_p, NOT_BUILT)

