HOOK_COMMITS = ["e643c2f"]

NOTES = ("Technique: machine-checked proof in Lean 4 of properties of hand-written models, tied to /repo on every run by a "
         "correspondence check (and regenerated source facts). See DESIGN.md. A property moves from not_applicable to checks "
         "when its check is built and green on the unchanged tree.")

NOT_BUILT = "check not built yet (planned, see DESIGN.md section for this property); will be claimed when its proof and correspondence run exist"

NOT_APPLICABLE = {
    "C15": "recall floors on random data are an empirical statement about a heuristic on a distribution; no invariant, refinement or algebraic law implies them, so no theorem can carry them (DESIGN.md 6.15). The logical parts (exact at full probe, reachability of new vertices) are claimed under C13/C14/C12.",
}
for _p in ["C%02d" % i for i in range(1, 21)]:
    NOT_APPLICABLE.setdefault(_p, NOT_BUILT)

CHECKS = {
    "C01": {
        "text": "Full-strength Lean theorems (flat_search_exact, flat_score_is_distance, flat_removed_never_returned, live_remove_drops, "
                "flat_k_nonpos_returns_all, flat_filter_threshold_only_remove, flat_flush_noop_on_search, error cases) about a line-by-line model of "
                "flat_index.go / flat_index_search.go, for every history with distinct ids, every query, k in Z, threshold and id restriction, "
                "generic in the metric and the score order. The model is tied to /repo on every run: a Go harness drives the real FlatIndex with "
                "generated histories and the compiled Lean driver replays them on model and specification, compares outcomes and stored vectors "
                "bit for bit, and judges every answer with the verified checker checkTopK (checkTopK_iff).",
        "design_ref": "6.1",
        "note": "Trusted: Lean kernel; Float32 primitives of Lean = Go float32 on amd64 (validated bit-exactly each run); <= on non-NaN floats is a total preorder; "
                "sort.Slice yields a sorted permutation; roaring implements finite sets; harness and driver are differential testers bounded by the printed input distribution.",
        "technique": "Lean 4 proof (refinement to live-list spec + verified top-k checker) with differential correspondence",
    },
}
