"""Per-property configuration of ./check (which Lean modules hold the property theorems,
what is assumed).  The manifest's level texts repeat the essentials."""

TRUSTED_BASE = [
    "Lean 4.33.0 kernel (thorough tier: leanchecker re-check of the compiled .olean files)",
    "axioms allowed in any property theorem: propext, Classical.choice, Quot.sound (audited per run by #audit_module)",
    "the correspondence harness (Go, /verif/harness) and the model driver (Lean, compiled, core-only): differential testing bounded by the printed input distribution",
    "modelled rather than verified: all of comet's Go code (the theorems are about the Lean model; the correspondence run ties it to /repo's working tree on every run)",
]

F32 = "IEEE-754 binary32: Lean's Float32 primitives equal Go's float32 operations on this platform (validated by every bit-exact comparison in every run, not proved); <= on non-NaN floats is a total preorder (hypothesis `Scalar.Ordered` of the theorems)"
SORT = "Go's sort.Slice returns a sorted permutation (any tie order); implementation answers are judged by the verified checker checkTopK (checkTopK_iff), never by equality with the model's order"
ROARING = "roaring bitmaps implement finite sets of uint32"

PROPS = {
    "C01": {
        "modules": ["CometProofs.Properties.C01"],
        "assumptions": [F32, SORT, ROARING,
                        "quantifier as in the property: distinct add ids (FreshAdds), finite non-NaN vectors"],
        "explanation": "full-strength theorems about the model of flat_index.go/flat_index_search.go (flat_search_exact and corollaries) + per-run correspondence of the real FlatIndex against model and specification, scores compared bit for bit",
    },
}
