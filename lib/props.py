"""Per-property configuration of ./check, one JSON file per claimed property in lib/props/Cxx.json:
  modules      : Lean modules holding ONLY the property theorems (audited, counted as obligations)
  gen_modules  : Lean modules with per-run obligations over regenerated facts (may break when /repo changes)
  streams      : false when the property has no correspondence stream (default true)
  assumptions  : list of strings, copied into the evidence
  trusted_base : extra trusted-base items for this property
  explanation  : what is proved / partial, copied into the evidence
  timeout      : {"quick": seconds, "thorough": seconds} for the correspondence run
  manifest     : {"text", "design_ref", "note", "technique"} for MANIFEST.json
"""
import glob, json, os

TRUSTED_BASE = [
    "Lean 4.33.0 kernel (thorough tier: leanchecker re-check of the compiled .olean files)",
    "axioms allowed in any property theorem: propext, Classical.choice, Quot.sound (audited per run by #audit_module)",
    "the correspondence harness (Go, /verif/harness) and the model driver (Lean, compiled, core-only): differential testing bounded by the printed input distribution",
    "modelled rather than verified: all of comet's Go code (the theorems are about the Lean model; the correspondence run ties it to /repo's working tree on every run)",
]

PROPS = {}
for _f in sorted(glob.glob(os.path.join(os.path.dirname(os.path.abspath(__file__)), "props", "C*.json"))):
    PROPS[os.path.basename(_f)[:-5]] = json.load(open(_f))
