/-
  Comet.MetaSpec — the specification C04 is judged against (no bitmaps, no BSI):

  * `Docs` : the live documents, `Id ⇀ (Field ⇀ Value)`;
  * `sat`  : denotational meaning of one filter on one document, ordinary signed
    comparison (`BitVec.toInt`), floats already at two-decimal fixed point;
  * `satLeaf` : `Not(f)` = complement of `f` within `f`'s universe;
  * `satQuery` : AND inside a simple list / an AND group, OR inside an OR group,
    OR across groups, empty list / empty group = every live document;
  * the decidable side conditions of the `…_partial` theorem (`WellTyped`, `Conform`,
    `NoColon`, `NoMixedSign`, `NoNotRange`) and the per-leaf triggers of the known
    findings D8 / D9.

  A field is *numeric* when some `Add` has ever carried a number under its name
  (`numSeen`; this is what "a BSI exists for the name" means on the model side, BSIs
  are never deleted), otherwise it is categorical — which includes every field the
  index has never seen ("absent from the index").
-/
import Comet.Meta
namespace Comet.Meta

abbrev Doc := List (String × Value)
abbrev Docs := List (Nat × Doc)

/-- specification state: live documents and the numeric field names seen so far -/
structure Spec where
  docs : Docs := []
  numSeen : List String := []
deriving Repr

def Docs.get (D : Docs) (d : Nat) (f : String) : Option Value := (D.lookup d).bind (·.lookup f)

/-- the document, when every value has a supported type -/
def docOf : List (String × Option Value) → Option Doc
  | [] => some []
  | (k, some v) :: r => (docOf r).map ((k, v) :: ·)
  | (_, none) :: _ => none

def intFields : Doc → List String
  | [] => []
  | (k, .int _) :: r => k :: intFields r
  | (_, .str _) :: r => intFields r

def Spec.step (sp : Spec) : HOp → Spec
  | .add id kvs =>
    match docOf kvs with
    | some doc => { docs := (id, doc) :: sp.docs, numSeen := intFields doc ++ sp.numSeen }
    | none => sp      -- rejected: no effect
  | .remove id => { sp with docs := sp.docs.filter (·.1 != id) }

def Spec.run (ops : List HOp) : Spec := ops.foldl Spec.step {}

/-- signed comparison of a stored value with an operand; false unless both are numbers -/
def numRel (rel : Int → Int → Bool) (g : String → Option Value) (f : String) (o : Operand) : Bool :=
  match g f, o.val with
  | some (.int y), .int x => rel y.toInt x.toInt
  | _, _ => false

/-- meaning of one filter on one document `g : Field ⇀ Value`; `N` = numeric field names -/
def sat (N : List String) (g : String → Option Value) : Filter → Bool
  | .cmp .eq f o => g f == some o.val
  | .cmp .ne f o =>
    if N.contains f then
      -- numeric: the documents that HAVE the field with another value
      match g f with
      | some v => v != o.val
      | none => false
    else
      -- string / bool: every document that does not match eq, incl. those lacking the field
      !(g f == some o.val)
  | .cmp .gt f o => numRel (fun y x => decide (y > x)) g f o
  | .cmp .gte f o => numRel (fun y x => decide (y ≥ x)) g f o
  | .cmp .lt f o => numRel (fun y x => decide (y < x)) g f o
  | .cmp .lte f o => numRel (fun y x => decide (y ≤ x)) g f o
  | .range f lo hi => numRel (fun y x => decide (y ≥ x)) g f lo && numRel (fun y x => decide (y ≤ x)) g f hi
  | .isIn false f (some vs) => vs.any fun o => g f == some o.val
  | .isIn true f (some vs) => !(vs.any fun o => g f == some o.val)
  | .isIn _ _ none => false
  | .ex false f => (g f).isSome
  | .ex true f => (g f).isNone

/-- the universe `Not(f)` complements in: the documents carrying the field for numeric
    comparisons, every live document otherwise -/
def univ (N : List String) (g : String → Option Value) : Filter → Bool
  | .cmp _ f _ | .range f _ _ => if N.contains f then (g f).isSome else true
  | _ => true

/-- a filter as the caller wrote it: `f` or `Not(f)` -/
structure Leaf where
  neg : Bool
  f : Filter
deriving Repr

def satLeaf (N : List String) (g : String → Option Value) (l : Leaf) : Bool :=
  if l.neg then univ N g l.f && !sat N g l.f else sat N g l.f

/-- what the caller hands to the implementation -/
def Leaf.toFilter (l : Leaf) : Filter := if l.neg then notF l.f else l.f

structure LGroup where
  logic : Logic
  leaves : List Leaf
deriving Repr

def LGroup.toGroup (g : LGroup) : Group := ⟨g.logic, g.leaves.map Leaf.toFilter⟩

def satGroup (N : List String) (g : String → Option Value) (gr : LGroup) : Bool :=
  if gr.leaves.isEmpty then true
  else if gr.logic == .and then gr.leaves.all (satLeaf N g) else gr.leaves.any (satLeaf N g)

/-- simple filters are ANDed; groups are ORed; no filter at all = every live document -/
def satQuery (N : List String) (g : String → Option Value) (fs : List Leaf) (gs : List LGroup) : Bool :=
  if !gs.isEmpty then gs.any (satGroup N g) else fs.all (satLeaf N g)

/-- the answer the property demands: ids of the live documents satisfying the query -/
def specAnswer (sp : Spec) (fs : List Leaf) (gs : List LGroup) : List Nat :=
  (sp.docs.filter fun p => satQuery sp.numSeen (fun f => p.2.lookup f) fs gs).map (·.1)

/-! ### side conditions (all decidable) -/

def Value.isInt : Value → Bool | .int _ => true | .str _ => false
def Operand.isInt : Operand → Bool | .int _ _ => true | .str _ => false

/-- no live document carries the field -/
def fieldAbsent (D : Docs) (f : String) : Bool := D.all fun p => (p.2.lookup f).isNone

/-- operator and operand types fit the field's type -/
def wellTypedF (N : List String) (D : Docs) : Filter → Bool
  | .cmp op f o =>
    if N.contains f then o.isInt
    else (op == .eq || op == .ne) && (!o.isInt || fieldAbsent D f)
  | .range f lo hi => N.contains f && lo.isInt && hi.isInt
  | .isIn _ f (some vs) => !N.contains f && vs.all fun o => !o.isInt || fieldAbsent D f
  | .isIn _ _ none => false
  | .ex _ _ => true

def noColon (s : String) : Bool := !s.toList.contains ':'

/-- per-field fixed type: numbers exactly under the numeric names; unique keys per
    document (a Go map); unique live ids; no ':' in field names -/
def conform (sp : Spec) : Bool :=
  (sp.docs.all fun p => (p.2.all fun kv => (kv.2.isInt == sp.numSeen.contains kv.1) && noColon kv.1)
      && decide (p.2.map (·.1)).Nodup) &&
  decide (sp.docs.map (·.1)).Nodup

def leavesOf (fs : List Leaf) (gs : List LGroup) : List Leaf :=
  if !gs.isEmpty then gs.flatMap (·.leaves) else fs

/-- the query is inside the property's domain: well-typed leaves, colon-free field names,
    `AND`/`OR` groups, simple filters and groups not mixed -/
def wellTypedQ (sp : Spec) (fs : List Leaf) (gs : List LGroup) : Bool :=
  (fs.isEmpty || gs.isEmpty) &&
  gs.all (fun g => g.logic != .other) &&
  (leavesOf fs gs).all fun l => wellTypedF sp.numSeen sp.docs l.f && noColon l.f.field

/-- D8 trigger of one leaf: a numeric comparison whose operand and some stored value of
    the field differ in sign -/
def mixedSignF (N : List String) (D : Docs) : Filter → Bool
  | .cmp _ f o => N.contains f && mixed f [o]
  | .range f lo hi => N.contains f && mixed f [lo, hi]
  | _ => false
where
  mixed (f : String) (os : List Operand) : Bool :=
    D.any fun p => match p.2.lookup f with
      | some (.int y) => os.any fun o => match o with
        | .int x _ => x.msb != y.msb
        | .str _ => false
      | _ => false

def Filter.isRange : Filter → Bool
  | .range _ _ _ => true
  | _ => false

/-- D9 trigger of one leaf: `Not` applied to `range` -/
def notRangeL (l : Leaf) : Bool := l.neg && l.f.isRange

def noMixedSign (sp : Spec) (fs : List Leaf) (gs : List LGroup) : Bool :=
  (leavesOf fs gs).all fun l => !mixedSignF sp.numSeen sp.docs l.f

def noNotRange (fs : List Leaf) (gs : List LGroup) : Bool :=
  (leavesOf fs gs).all fun l => !notRangeL l

/-- set of live documents satisfying one leaf (specification side) -/
def specLeaf (sp : Spec) (l : Leaf) : List Nat :=
  (sp.docs.filter fun p => satLeaf sp.numSeen (fun f => p.2.lookup f) l).map (·.1)

end Comet.Meta
