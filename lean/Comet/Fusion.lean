/-
  Comet.Fusion — fusion.go: weighted-sum, reciprocal-rank, max and min fusion and
  `scoreMapToRanks`.

  A Go `map[uint32]T` is an association list with duplicate-free keys
  (`NodupKeys`); `m[k] = v` is `aset`, `v, ok := m[k]` is `List.lookup`.  A `range`
  over a map visits the entries in an unspecified order: the input lists ARE that
  order, and every theorem is stated through `lookup`, for all lists with
  duplicate-free keys (hence for every iteration order).  Intermediate maps that
  the Go code ranges over again (`vectorRanks`, `textRanks`) are re-ordered by an
  arbitrary permutation in the theorems (`rrfFrom`).

  Core Lean only (linked into the driver).
-/
import Comet.TopK
namespace Comet

/-- `m[k] = v` : overwrite in place, else append -/
def aset (k : Id) (v : α) : List (Id × α) → List (Id × α)
  | [] => [(k, v)]
  | (k', v') :: t => if k' == k then (k', v) :: t else (k', v') :: aset k v t

/-- keys of a Go map are distinct -/
def NodupKeys (m : List (Id × α)) : Prop := (m.map (·.1)).Nodup

instance (m : List (Id × α)) : Decidable (NodupKeys m) :=
  inferInstanceAs (Decidable (m.map (·.1)).Nodup)

/-- the float64 operations used by fusion.go / storage_merge.go -/
structure DOps (S : Type) where
  one : S
  ofNat : Nat → S           -- `float64(rank)`
  add : S → S → S
  mul : S → S → S
  div : S → S → S
  /-- Go `a < b`; `a > b` is `lt b a` -/
  lt : S → S → Bool

/-! ### weighted sum -/

/-- `weightedSumFusion.Combine` -/
def wsumFusion (o : DOps S) (wv wt : S) (v t : List (Id × S)) : List (Id × S) :=
  let c := v.foldl (fun c p => aset p.1 (o.mul p.2 wv) c) []
  t.foldl (fun c p =>
    match c.lookup p.1 with
    | some e => aset p.1 (o.add e (o.mul p.2 wt)) c
    | none => aset p.1 (o.mul p.2 wt) c) c

/-! ### max / min -/

/-- `maxFusion.Combine` -/
def maxFusion (o : DOps S) (v t : List (Id × S)) : List (Id × S) :=
  let c := v.foldl (fun c p => aset p.1 p.2 c) []
  t.foldl (fun c p =>
    match c.lookup p.1 with
    | some e => if o.lt e p.2 then aset p.1 p.2 c else c
    | none => aset p.1 p.2 c) c

/-- `minFusion.Combine` -/
def minFusion (o : DOps S) (v t : List (Id × S)) : List (Id × S) :=
  v.foldl (fun c p =>
    match t.lookup p.1 with
    | some ts => if o.lt p.2 ts then aset p.1 p.2 c else aset p.1 ts c
    | none => c) []

/-! ### scoreMapToRanks: exchange sort over the map's iteration order -/

/-- inner loop `for j := i+1 …` for fixed `i`: `cur = sorted[i]`, the list is
    `sorted[i+1:]`; returns the final `sorted[i]` and the rewritten tail -/
def exPass (swap : α → α → Bool) (cur : α) : List α → α × List α
  | [] => (cur, [])
  | y :: ys =>
    if swap cur y then
      let r := exPass swap y ys
      (r.1, cur :: r.2)
    else
      let r := exPass swap cur ys
      (r.1, y :: r.2)

/-- outer loop with explicit fuel (structural, so that `decide` can run it) -/
def exSortAux (swap : α → α → Bool) : Nat → List α → List α
  | 0, l => l
  | _, [] => []
  | f + 1, x :: xs =>
    let r := exPass swap x xs
    r.1 :: exSortAux swap f r.2

def exSort (swap : α → α → Bool) (l : List α) : List α := exSortAux swap l.length l

/-- `shouldSwap`: ascending `sorted[i].score > sorted[j].score`, descending `<` -/
def shouldSwap (o : DOps S) (ascending : Bool) (a b : Id × S) : Bool :=
  if ascending then o.lt b.2 a.2 else o.lt a.2 b.2

/-- the sorted slice of `scoreMapToRanks` -/
def rankOrder (o : DOps S) (scores : List (Id × S)) (ascending : Bool) : List (Id × S) :=
  exSort (shouldSwap o ascending) scores

/-- `for i, ds := range sorted` as `(docID, i)` pairs -/
def rankPairs (σ : List (Id × S)) : List (Id × Nat) := σ.zipIdx.map fun p => (p.1.1, p.2)

/-- `scoreMapToRanks`: `ranks[ds.docID] = i` over the sorted slice -/
def scoreMapToRanks (o : DOps S) (scores : List (Id × S)) (ascending : Bool) : List (Id × Nat) :=
  if scores.length == 0 then [] else
  (rankPairs (rankOrder o scores ascending)).foldl (fun m p => aset p.1 p.2 m) []

/-- `1.0 / (k + float64(rank))` -/
def rrfTerm (o : DOps S) (K : S) (rank : Nat) : S := o.div o.one (o.add K (o.ofNat rank))

/-- the two accumulation loops of `reciprocalRankFusion.Combine` over the rank maps
    (in whatever order Go iterates them) -/
def rrfFrom (o : DOps S) (K : S) (rv rt : List (Id × Nat)) : List (Id × S) :=
  let c := rv.foldl (fun c p => aset p.1 (rrfTerm o K p.2) c) []
  rt.foldl (fun c p =>
    match c.lookup p.1 with
    | some e => aset p.1 (o.add e (rrfTerm o K p.2)) c
    | none => aset p.1 (rrfTerm o K p.2) c) c

/-- `reciprocalRankFusion.Combine` -/
def rrfFusion (o : DOps S) (K : S) (v t : List (Id × S)) : List (Id × S) :=
  rrfFrom o K (scoreMapToRanks o v true) (scoreMapToRanks o t false)

/-! ### specification-level definitions (also used by the driver's checkers) -/

/-- position of `id` in a ranking -/
def rankIn (id : Id) : List (Id × α) → Option Nat
  | [] => none
  | p :: t => if p.1 == id then some 0 else (rankIn id t).map (· + 1)

/-- best-first, in the form that stays meaningful for incomparable scores (NaN):
    no later entry is strictly better than an earlier one.
    ascending (distances): never `b < a` for `a` before `b`; descending: never `a < b`. -/
def BestFirst (o : DOps S) (ascending : Bool) (σ : List (Id × S)) : Prop :=
  σ.Pairwise fun a b => shouldSwap o ascending a b = false

def bestFirstB (o : DOps S) (ascending : Bool) : List (Id × S) → Bool
  | [] => true
  | a :: as => as.all (fun b => !shouldSwap o ascending a b) && bestFirstB o ascending as

theorem bestFirstB_iff (o : DOps S) (asc : Bool) (σ : List (Id × S)) :
    bestFirstB o asc σ = true ↔ BestFirst o asc σ := by
  induction σ with
  | nil => simp [bestFirstB, BestFirst]
  | cons a as ih =>
    simp only [bestFirstB, BestFirst, List.pairwise_cons, Bool.and_eq_true, List.all_eq_true,
      Bool.not_eq_true']
    rw [ih]; rfl

/-- `σ` is a best-first ordering of the entries of the score map `m` -/
def IsRanking (o : DOps S) (ascending : Bool) (m σ : List (Id × S)) : Prop :=
  σ.Perm m ∧ BestFirst o ascending σ

/-- what reciprocal-rank fusion must return for the rankings `σv`, `σt` -/
def rrfValue (o : DOps S) (K : S) (σv σt : List (Id × S)) (id : Id) : Option S :=
  match rankIn id σv, rankIn id σt with
  | some a, some b => some (o.add (rrfTerm o K a) (rrfTerm o K b))
  | some a, none => some (rrfTerm o K a)
  | none, some b => some (rrfTerm o K b)
  | none, none => none

/-- Reciprocal-rank fusion specification: ranks (0-based) are positions in SOME
    best-first ordering of each modality consistent with its scores. -/
def RRFSpec (o : DOps S) (K : S) (v t out : List (Id × S)) : Prop :=
  ∃ σv σt, IsRanking o true v σv ∧ IsRanking o false t σt ∧
    ∀ id, out.lookup id = rrfValue o K σv σt id

/-- executable check of `RRFSpec` for given witnesses (found by an untrusted search) -/
def verifyRRF [BEq S] (o : DOps S) (K : S) (v t out σv σt : List (Id × S)) : Bool :=
  σv.isPerm v && bestFirstB o true σv && σt.isPerm t && bestFirstB o false σt &&
  (out.map (·.1) ++ v.map (·.1) ++ t.map (·.1)).all fun id =>
    out.lookup id == rrfValue o K σv σt id

theorem verifyRRF_sound [BEq S] [LawfulBEq S] (o : DOps S) (K : S)
    (v t out σv σt : List (Id × S)) (h : verifyRRF o K v t out σv σt = true) :
    RRFSpec o K v t out := by
  simp only [verifyRRF, Bool.and_eq_true, List.all_eq_true, List.isPerm_iff, bestFirstB_iff,
    beq_iff_eq] at h
  obtain ⟨⟨⟨⟨h1, h2⟩, h3⟩, h4⟩, h5⟩ := h
  refine ⟨σv, σt, ⟨h1, h2⟩, ⟨h3, h4⟩, ?_⟩
  intro id
  by_cases hm : id ∈ out.map (·.1) ++ v.map (·.1) ++ t.map (·.1)
  · exact h5 id hm
  · -- an id that occurs nowhere: both sides are `none`
    simp only [List.mem_append, not_or] at hm
    obtain ⟨⟨ho, hv⟩, ht⟩ := hm
    have hl : ∀ {β : Type} (m : List (Id × β)), id ∉ m.map (·.1) → m.lookup id = none := by
      intro β m
      induction m with
      | nil => intro _; rfl
      | cons p m ih =>
        intro hn
        simp only [List.map_cons, List.mem_cons, not_or] at hn
        obtain ⟨k, x⟩ := p
        have hne : (id == k) = false := by simpa using hn.1
        simp only [List.lookup, hne]
        exact ih hn.2
    have hr : ∀ (σ m : List (Id × S)), σ.Perm m → id ∉ m.map (·.1) → rankIn id σ = none := by
      intro σ m hp hn
      have hn' : id ∉ σ.map (·.1) := fun hx => hn ((hp.map (·.1)).subset hx)
      clear hp hn
      induction σ with
      | nil => rfl
      | cons p σ ih =>
        simp only [List.map_cons, List.mem_cons, not_or] at hn'
        have hne : (p.1 == id) = false := by
          have := hn'.1
          simp only [beq_eq_false_iff_ne, ne_eq]
          exact fun h => this h.symm
        simp only [rankIn, hne, ih hn'.2]
        rfl
    rw [hl out ho]
    simp [rrfValue, hr σv v h1 hv, hr σt t h3 ht]

/-- the ranks returned by `scoreMapToRanks` describe a best-first ordering:
    `σ` = the entries listed by rank -/
def ranksToOrder (m : List (Id × S)) (ranks : List (Id × Nat)) : List (Id × S) :=
  (List.range ranks.length).filterMap fun r =>
    match ranks.find? (·.2 == r) with
    | some p => (m.find? (·.1 == p.1))
    | none => none

/-- verified checker for an answer of `scoreMapToRanks` -/
def checkRanks [BEq S] (o : DOps S) (ascending : Bool) (m : List (Id × S))
    (ranks : List (Id × Nat)) : Bool :=
  let σ := ranksToOrder m ranks
  σ.isPerm m && bestFirstB o ascending σ && ranks.length == m.length &&
  ranks.all fun p => rankIn p.1 σ == some p.2

/-- what `checkRanks` establishes -/
def RanksSpec (o : DOps S) (ascending : Bool) (m : List (Id × S)) (ranks : List (Id × Nat)) : Prop :=
  ∃ σ, IsRanking o ascending m σ ∧ ranks.length = m.length ∧ ∀ p ∈ ranks, rankIn p.1 σ = some p.2

theorem checkRanks_sound [BEq S] [LawfulBEq S] (o : DOps S) (asc : Bool) (m : List (Id × S))
    (ranks : List (Id × Nat)) (h : checkRanks o asc m ranks = true) : RanksSpec o asc m ranks := by
  simp only [checkRanks, Bool.and_eq_true, List.all_eq_true, List.isPerm_iff, bestFirstB_iff,
    beq_iff_eq] at h
  obtain ⟨⟨⟨h1, h2⟩, h3⟩, h4⟩ := h
  exact ⟨_, ⟨h1, h2⟩, h3, h4⟩


/-! ### rankings when "best-first" is not defined

  With an unordered score (NaN) among the scores of a modality the comparison is not a
  strict weak order on them: "best-first" has no meaning, and a comparison sort may
  place every entry — also the ordered ones — anywhere.  The property then only
  promises a rank map without panic.  `strict = true` (no unordered score in the map)
  is the full specification above; `strict = false` demands a bijection onto
  `0 … n−1` only. -/

/-- `σ` lists the entries of `m` exactly once; best-first where that is defined -/
def IsRankingW (o : DOps S) (ascending strict : Bool) (m σ : List (Id × S)) : Prop :=
  σ.Perm m ∧ (strict = true → BestFirst o ascending σ)

theorem isRankingW_true (o : DOps S) (asc : Bool) (m σ : List (Id × S)) :
    IsRankingW o asc true m σ ↔ IsRanking o asc m σ := by
  simp [IsRankingW, IsRanking]

/-- reciprocal-rank fusion specification, per modality strict or not -/
def RRFSpecW (o : DOps S) (K : S) (v t out : List (Id × S)) (strictV strictT : Bool) : Prop :=
  ∃ σv σt, IsRankingW o true strictV v σv ∧ IsRankingW o false strictT t σt ∧
    ∀ id, out.lookup id = rrfValue o K σv σt id

theorem rrfSpecW_true (o : DOps S) (K : S) (v t out : List (Id × S)) :
    RRFSpecW o K v t out true true ↔ RRFSpec o K v t out := by
  simp [RRFSpecW, RRFSpec, isRankingW_true]

theorem lookup_none_of_not_key {β : Type} (id : Id) :
    ∀ (m : List (Id × β)), id ∉ m.map (·.1) → m.lookup id = none
  | [], _ => rfl
  | (k, x) :: m, hn => by
    simp only [List.map_cons, List.mem_cons, not_or] at hn
    have hne : (id == k) = false := by simpa using hn.1
    simp only [List.lookup, hne]
    exact lookup_none_of_not_key id m hn.2

theorem rankIn_none_of_not_key (id : Id) :
    ∀ (σ : List (Id × S)), id ∉ σ.map (·.1) → rankIn id σ = none
  | [], _ => rfl
  | p :: σ, hn => by
    simp only [List.map_cons, List.mem_cons, not_or] at hn
    have hne : (p.1 == id) = false := by
      simp only [beq_eq_false_iff_ne, ne_eq]
      exact fun h => hn.1 h.symm
    simp only [rankIn, hne, rankIn_none_of_not_key id σ hn.2]
    rfl

/-- executable check of `RRFSpecW` for given witnesses (found by an untrusted search) -/
def verifyRRFW [BEq S] (o : DOps S) (K : S) (v t out σv σt : List (Id × S))
    (strictV strictT : Bool) : Bool :=
  σv.isPerm v && (!strictV || bestFirstB o true σv) &&
  σt.isPerm t && (!strictT || bestFirstB o false σt) &&
  (out.map (·.1) ++ v.map (·.1) ++ t.map (·.1)).all fun id =>
    out.lookup id == rrfValue o K σv σt id

theorem verifyRRFW_sound [BEq S] [LawfulBEq S] (o : DOps S) (K : S)
    (v t out σv σt : List (Id × S)) (strictV strictT : Bool)
    (h : verifyRRFW o K v t out σv σt strictV strictT = true) :
    RRFSpecW o K v t out strictV strictT := by
  simp only [verifyRRFW, Bool.and_eq_true, Bool.or_eq_true, Bool.not_eq_true', List.all_eq_true,
    List.isPerm_iff, bestFirstB_iff, beq_iff_eq] at h
  obtain ⟨⟨⟨⟨h1, h2⟩, h3⟩, h4⟩, h5⟩ := h
  refine ⟨σv, σt, ⟨h1, fun hs => ?_⟩, ⟨h3, fun hs => ?_⟩, ?_⟩
  · rcases h2 with h2 | h2
    · rw [hs] at h2; cases h2
    · exact h2
  · rcases h4 with h4 | h4
    · rw [hs] at h4; cases h4
    · exact h4
  · intro id
    by_cases hm : id ∈ out.map (·.1) ++ v.map (·.1) ++ t.map (·.1)
    · exact h5 id hm
    · simp only [List.mem_append, not_or] at hm
      obtain ⟨⟨ho, hv⟩, ht⟩ := hm
      have hv' : id ∉ σv.map (·.1) := fun hx => hv ((h1.map (·.1)).subset hx)
      have ht' : id ∉ σt.map (·.1) := fun hx => ht ((h3.map (·.1)).subset hx)
      rw [lookup_none_of_not_key id out ho]
      simp [rrfValue, rankIn_none_of_not_key id σv hv', rankIn_none_of_not_key id σt ht']

/-- checker for an answer of `scoreMapToRanks`: always a bijection onto `0 … n−1`
    (every id once, every rank once), best-first when `strict` -/
def checkRanksW [BEq S] (o : DOps S) (ascending strict : Bool) (m : List (Id × S))
    (ranks : List (Id × Nat)) : Bool :=
  let σ := ranksToOrder m ranks
  σ.isPerm m && (!strict || bestFirstB o ascending σ) && ranks.length == m.length &&
  ranks.all fun p => rankIn p.1 σ == some p.2

def RanksSpecW (o : DOps S) (ascending strict : Bool) (m : List (Id × S))
    (ranks : List (Id × Nat)) : Prop :=
  ∃ σ, IsRankingW o ascending strict m σ ∧ ranks.length = m.length ∧
    ∀ p ∈ ranks, rankIn p.1 σ = some p.2

theorem checkRanksW_sound [BEq S] [LawfulBEq S] (o : DOps S) (asc strict : Bool)
    (m : List (Id × S)) (ranks : List (Id × Nat)) (h : checkRanksW o asc strict m ranks = true) :
    RanksSpecW o asc strict m ranks := by
  simp only [checkRanksW, Bool.and_eq_true, Bool.or_eq_true, Bool.not_eq_true', List.all_eq_true,
    List.isPerm_iff, bestFirstB_iff, beq_iff_eq] at h
  obtain ⟨⟨⟨h1, h2⟩, h3⟩, h4⟩ := h
  refine ⟨_, ⟨h1, fun hs => ?_⟩, h3, h4⟩
  rcases h2 with h2 | h2
  · rw [hs] at h2; cases h2
  · exact h2

end Comet
