/-
  Comet.TopK — order-generic core shared by every ranking property.

  `S` is the score type, `le : S → S → Bool` the "at least as good" order
  (ascending distance for vector search; the callers pass `fun a b => le b a`
  for descending relevance).  Nothing here mentions arithmetic.

  Core Lean only (this file is linked into the driver executable).
-/
namespace Comet

abbrev Id := Nat

structure Hit (S : Type) where
  id : Id
  score : S
deriving Repr, DecidableEq

/-- `limiter.go: sanitizeK`. `k ≤ 0` or `k > n` mean "everything". -/
def sanitizeK (k : Int) (n : Nat) : Nat :=
  if k ≤ 0 ∨ (n : Int) < k then n else k.toNat

theorem sanitizeK_le (k : Int) (n : Nat) : sanitizeK k n ≤ n := by
  unfold sanitizeK; split <;> omega

theorem sanitizeK_nonpos {k : Int} (h : k ≤ 0) (n : Nat) : sanitizeK k n = n := by
  unfold sanitizeK; simp [h]

theorem sanitizeK_of_pos_le {k : Int} {n : Nat} (h0 : 0 < k) (h : k ≤ n) :
    sanitizeK k n = k.toNat := by
  unfold sanitizeK; split <;> omega

/-- flat search calls `sanitizeK` twice (first against the number of stored
    vectors `m`, then against the number of surviving candidates `n ≤ m`);
    the composition equals a single call against `n`. -/
theorem sanitizeK_twice (k : Int) (m n : Nat) (h : n ≤ m) :
    sanitizeK (sanitizeK k m : Nat) n = sanitizeK k n := by
  unfold sanitizeK
  repeat' split
  all_goals omega

/-- Lifts a score order to hits. -/
@[inline] def hitLe (le : S → S → Bool) (a b : Hit S) : Bool := le a.score b.score

/-- The model's ranking: stable merge sort, then the first `sanitizeK k n`. -/
def selectK (le : S → S → Bool) (k : Int) (xs : List (Hit S)) : List (Hit S) :=
  (xs.mergeSort (hitLe le)).take (sanitizeK k xs.length)

/-- What "the exact top-k of `cands`" means, independent of how ties are broken. -/
structure IsTopK (le : S → S → Bool) (k : Int) (cands res : List (Hit S)) : Prop where
  sorted : res.Pairwise fun a b => le a.score b.score = true
  split  : ∃ rest, (res ++ rest).Perm cands ∧
             ∀ a ∈ res, ∀ b ∈ rest, le a.score b.score = true
  len    : res.length = sanitizeK k cands.length

/-! ### multiset subtraction used by the executable checker -/

/-- Remove every element of `rs` (with multiplicity) from `cs`; `none` when some
    element of `rs` is not available any more. -/
def subtractAll [DecidableEq α] : (cs rs : List α) → Option (List α)
  | cs, [] => some cs
  | cs, r :: rs => if r ∈ cs then subtractAll (cs.erase r) rs else none

theorem subtractAll_sound [DecidableEq α] :
    ∀ (cs rs rest : List α), subtractAll cs rs = some rest → (rs ++ rest).Perm cs
  | cs, [], rest, h => by
      simp [subtractAll] at h; subst h; simp
  | cs, r :: rs, rest, h => by
      simp only [subtractAll] at h
      split at h
      · next hm =>
        have ih := subtractAll_sound (cs.erase r) rs rest h
        have : (r :: (rs ++ rest)).Perm (r :: cs.erase r) := List.Perm.cons r ih
        exact this.trans (List.perm_cons_erase hm).symm
      · cases h

theorem subtractAll_complete [DecidableEq α] :
    ∀ (cs rs rest : List α), (rs ++ rest).Perm cs →
      ∃ rest', subtractAll cs rs = some rest' ∧ rest'.Perm rest
  | cs, [], rest, h => ⟨cs, by simp [subtractAll], by simpa using h.symm⟩
  | cs, r :: rs, rest, h => by
      have hm : r ∈ cs := h.subset (by simp)
      have h' : (rs ++ rest).Perm (cs.erase r) := by
        have := h.erase r
        simpa using this
      obtain ⟨rest', h1, h2⟩ := subtractAll_complete (cs.erase r) rs rest h'
      exact ⟨rest', by simp [subtractAll, hm, h1], h2⟩

/-! ### executable checker for implementation answers -/

def sortedB (le : S → S → Bool) : List (Hit S) → Bool
  | [] => true
  | a :: as => as.all (fun b => le a.score b.score) && sortedB le as

theorem sortedB_iff (le : S → S → Bool) (xs : List (Hit S)) :
    sortedB le xs = true ↔ xs.Pairwise fun a b => le a.score b.score = true := by
  induction xs with
  | nil => simp [sortedB]
  | cons a as ih => simp [sortedB, ih, List.pairwise_cons]

/-- Decides `IsTopK le k cands res` for an answer `res` produced by the
    implementation (any valid tie-break passes). -/
def checkTopK [DecidableEq S] (le : S → S → Bool) (k : Int)
    (cands res : List (Hit S)) : Bool :=
  sortedB le res &&
  res.length == sanitizeK k cands.length &&
  match subtractAll cands res with
  | none => false
  | some rest => res.all fun a => rest.all fun b => le a.score b.score

theorem checkTopK_sound [DecidableEq S] (le : S → S → Bool) (k : Int)
    (cands res : List (Hit S)) (h : checkTopK le k cands res = true) :
    IsTopK le k cands res := by
  unfold checkTopK at h
  simp only [Bool.and_eq_true, beq_iff_eq] at h
  obtain ⟨⟨hs, hl⟩, hr⟩ := h
  split at hr
  · cases hr
  · next rest hsub =>
    refine ⟨(sortedB_iff le res).1 hs, ⟨rest, subtractAll_sound _ _ _ hsub, ?_⟩, hl⟩
    intro a ha b hb
    simp only [List.all_eq_true] at hr
    exact hr a ha b hb

theorem checkTopK_complete [DecidableEq S] (le : S → S → Bool) (k : Int)
    (cands res : List (Hit S)) (h : IsTopK le k cands res) :
    checkTopK le k cands res = true := by
  obtain ⟨hs, ⟨rest, hp, hle⟩, hl⟩ := h
  obtain ⟨rest', h1, h2⟩ := subtractAll_complete cands res rest hp
  unfold checkTopK
  simp only [Bool.and_eq_true, beq_iff_eq]
  refine ⟨⟨(sortedB_iff le res).2 hs, hl⟩, ?_⟩
  rw [h1]
  simp only [List.all_eq_true]
  intro a ha b hb
  exact hle a ha b (h2.subset hb)

theorem checkTopK_iff [DecidableEq S] (le : S → S → Bool) (k : Int)
    (cands res : List (Hit S)) :
    checkTopK le k cands res = true ↔ IsTopK le k cands res :=
  ⟨checkTopK_sound le k cands res, checkTopK_complete le k cands res⟩

/-! ### the model's own ranking meets the spec -/

theorem selectK_isTopK (le : S → S → Bool)
    (tot : ∀ a b : S, le a b || le b a)
    (tr : ∀ a b c : S, le a b → le b c → le a c)
    (k : Int) (xs : List (Hit S)) : IsTopK le k xs (selectK le k xs) := by
  have hsorted : (xs.mergeSort (hitLe le)).Pairwise (fun a b => hitLe le a b = true) :=
    List.pairwise_mergeSort (le := hitLe le)
      (fun a b c => tr a.score b.score c.score)
      (fun a b => tot a.score b.score) xs
  have hperm := List.mergeSort_perm xs (hitLe le)
  have hsplit := List.take_append_drop (sanitizeK k xs.length) (xs.mergeSort (hitLe le))
  refine ⟨?_, ⟨(xs.mergeSort (hitLe le)).drop (sanitizeK k xs.length), ?_, ?_⟩, ?_⟩
  · exact hsorted.sublist (List.take_sublist _ _)
  · unfold selectK; rw [hsplit]; exact hperm
  · intro a ha b hb
    rw [← hsplit, List.pairwise_append] at hsorted
    exact hsorted.2.2 a ha b hb
  · unfold selectK
    simp [List.length_take, sanitizeK_le]

/-! ### uniqueness of the score list (property text: "equality is on the
    multiset of scores") -/

theorem isTopK_scores_eq (le : S → S → Bool)
    (tot : ∀ a b : S, le a b || le b a)
    (tr : ∀ a b c : S, le a b → le b c → le a c)
    (antisymm : ∀ a b : S, le a b → le b a → a = b)
    (k : Int) (cands r₁ r₂ : List (Hit S))
    (h₁ : IsTopK le k cands r₁) (h₂ : IsTopK le k cands r₂) :
    r₁.map (·.score) = r₂.map (·.score) := by
  obtain ⟨s1, ⟨rest1, p1, le1⟩, l1⟩ := h₁
  obtain ⟨s2, ⟨rest2, p2, le2⟩, l2⟩ := h₂
  -- complete each answer to a fully sorted score list of `cands`
  let leB : S → S → Bool := le
  have full : ∀ (r rest : List (Hit S)),
      r.Pairwise (fun a b => le a.score b.score = true) →
      (∀ a ∈ r, ∀ b ∈ rest, le a.score b.score = true) →
      ((r.map (·.score)) ++ (rest.map (·.score)).mergeSort leB).Pairwise
        (fun a b => le a b = true) := by
    intro r rest hs hle
    rw [List.pairwise_append]
    refine ⟨?_, ?_, ?_⟩
    · exact List.pairwise_map.2 hs
    · exact List.pairwise_mergeSort (le := leB) tr tot _
    · intro a ha b hb
      rw [List.mem_mergeSort] at hb
      obtain ⟨a', ha', rfl⟩ := List.mem_map.1 ha
      obtain ⟨b', hb', rfl⟩ := List.mem_map.1 hb
      exact hle a' ha' b' hb'
  have f1 := full r₁ rest1 s1 le1
  have f2 := full r₂ rest2 s2 le2
  have perm : ((r₁.map (·.score)) ++ (rest1.map (·.score)).mergeSort leB).Perm
      ((r₂.map (·.score)) ++ (rest2.map (·.score)).mergeSort leB) := by
    have a1 : ((r₁.map (·.score)) ++ (rest1.map (·.score)).mergeSort leB).Perm
        (cands.map (·.score)) := by
      have := (p1.map (·.score))
      rw [List.map_append] at this
      exact (List.Perm.append_left _ (List.mergeSort_perm _ _)).trans this
    have a2 : ((r₂.map (·.score)) ++ (rest2.map (·.score)).mergeSort leB).Perm
        (cands.map (·.score)) := by
      have := (p2.map (·.score))
      rw [List.map_append] at this
      exact (List.Perm.append_left _ (List.mergeSort_perm _ _)).trans this
    exact a1.trans a2.symm
  have eq := List.Perm.eq_of_pairwise (le := fun a b => le a b = true)
    (fun a b _ _ hab hba => antisymm a b hab hba) f1 f2 perm
  have hlen : (r₁.map (·.score)).length = (r₂.map (·.score)).length := by
    simp [l1, l2]
  exact List.append_inj_left eq hlen

end Comet
