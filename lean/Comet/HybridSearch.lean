/-
  Comet.HybridSearch — hybridSearch.Execute (hybrid_search_index.go) as a composition of
  its three sub-searches and the fusion, written after the Go branch by branch
  (with the repaired metadata-only fallback, comet commit "fix: hybrid search returns
  nothing, not every filtered document, when the query matches nothing").

  The sub-searches are parameters (oracles): what the metadata index returns for the
  filters, what the vector / text index return for the query restricted to a candidate id
  list.  Their own correctness is C01–C04 / C12–C14; C05 is about the composition.
-/
import Comet.TopK
import Comet.Vector.Flat
namespace Comet.HybridSearch

variable {F : Type}

/-- a score map as an association list with distinct ids -/
abbrev ScoreMap (F : Type) := List (Id × F)

structure Query (F : Type) where
  /-- filters or filter groups were given -/
  hasFilters : Bool
  /-- a vector query was given (`len(vectorQuery) > 0`) -/
  hasVector : Bool
  hasText : Bool
  k : Nat

/-- the index as the search sees it -/
structure Env (F : Type) where
  /-- `none` = no metadata index configured; the function is the metadata search of the query's filters -/
  metaSearch : Option (Except Err (List Id))
  /-- `none` = no vector index; argument: candidate restriction (`[]` = none, as `WithDocumentIDs` is only called for a non-empty list) -/
  vecSearch : Option (List Id → Except Err (ScoreMap F))
  txtSearch : Option (List Id → Except Err (ScoreMap F))
  combine : ScoreMap F → ScoreMap F → ScoreMap F
  one : F
  /-- `a ≥ b` on scores (descending sort) -/
  ge : F → F → Bool

def toHits (m : ScoreMap F) : List (Hit F) := m.map fun p => ⟨p.1, p.2⟩

/-- Step 1: the metadata pre-filter. `ok none` = no filters given. -/
def candsOf (e : Env F) (q : Query F) : Except Err (Option (List Id)) :=
  if q.hasFilters then
    match e.metaSearch with
    | none => .error .other                       -- filters but no metadata index
    | some (.error err) => .error err
    | some (.ok ids) => .ok (some ids)
  else .ok none

/-- Steps 2 / 3: one modality's search (empty map when the modality is not queried) -/
def subSearch (asked : Bool) (f : Option (List Id → Except Err (ScoreMap F))) (restrict : List Id) :
    Except Err (ScoreMap F) :=
  if asked then
    match f with
    | none => .error .other                       -- queried but not configured
    | some f => f restrict
  else .ok []

/-- Step 4: which scores are ranked -/
def combineStage (e : Env F) (q : Query F) (restrict : List Id) (vres tres : ScoreMap F) : ScoreMap F :=
  -- metadata-only query: every candidate with score 1 (repaired guard)
  if !q.hasVector && !q.hasText && !restrict.isEmpty then restrict.map fun id => (id, e.one)
  else if !vres.isEmpty && !tres.isEmpty then e.combine vres tres
  else if !vres.isEmpty then vres
  else if !tres.isEmpty then tres
  else []

/-- the unrepaired guard: `len(combinedScores) == 0 && len(candidateIDs) > 0` -/
def combineStageOld (e : Env F) (restrict : List Id) (vres tres : ScoreMap F) : ScoreMap F :=
  let c : ScoreMap F :=
    if !vres.isEmpty && !tres.isEmpty then e.combine vres tres
    else if !vres.isEmpty then vres
    else if !tres.isEmpty then tres
    else []
  if c.isEmpty && !restrict.isEmpty then restrict.map fun id => (id, e.one) else c

/-- Step 5: sort descending, truncate to k (`if len(results) > s.k { results = results[:s.k] }`) -/
def rank (e : Env F) (k : Nat) (combined : ScoreMap F) : List (Hit F) :=
  let sorted := (toHits combined).mergeSort (hitLe e.ge)
  if sorted.length > k then sorted.take k else sorted

/-- `hybridSearch.Execute` -/
def execute (e : Env F) (q : Query F) : Except Err (List (Hit F)) :=
  match candsOf e q with
  | .error err => .error err
  | .ok (some []) => .ok []                       -- the filter matches nothing
  | .ok cands =>
    let restrict : List Id := cands.getD []
    match subSearch q.hasVector e.vecSearch restrict with
    | .error err => .error err
    | .ok vres =>
      match subSearch q.hasText e.txtSearch restrict with
      | .error err => .error err
      | .ok tres => .ok (rank e q.k (combineStage e q restrict vres tres))

end Comet.HybridSearch
