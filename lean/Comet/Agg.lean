/-
  Comet.Agg — aggregation.go (vector and text score aggregation) and
  limiter.go (LimitResults; Autocut lives in Comet.Limiter).

  Go groups scores per id in a map (iteration order unspecified) and then sorts;
  the model groups in first-occurrence order and sorts with a stable merge sort.
  Implementation answers are therefore judged through `IsTopK`/set equality,
  never by list equality with the model's particular order.
-/
import Comet.TopK
import Comet.Scalar
namespace Comet

inductive AggKind | sum | max | mean
deriving Repr, DecidableEq

/-- first occurrences, in order -/
def firstIds : List Id → List Id
  | [] => []
  | a :: t => a :: (firstIds t).filter (· != a)

def scoresOf (i : Id) (xs : List (Hit S)) : List S :=
  (xs.filter (·.id == i)).map (·.score)

/-- `nodeScores[nodeID] = append(nodeScores[nodeID], result.Score)` for all results -/
def groupScores (xs : List (Hit S)) : List (Id × List S) :=
  (firstIds (xs.map (·.id))).map fun i => (i, scoresOf i xs)

def sumScores (sc : Scalar S) (ss : List S) : S := ss.foldl sc.add sc.zero

/-- `max := scores[0]; for _, s := range scores[1:] { if s > max { max = s } }` -/
def maxScores (sc : Scalar S) : List S → S
  | [] => sc.zero            -- unreachable: every group has at least one score
  | s :: ss => ss.foldl (fun m x => if sc.lt m x then x else m) s

def reduceVec (sc : Scalar S) : AggKind → List S → S
  | .sum, ss => sumScores sc ss
  | .max, ss => maxScores sc ss
  | .mean, ss => sc.divNat (sumScores sc ss) ss.length

/-- `VectorAggregation.Aggregate` : ascending. -/
def vecAggregate (sc : Scalar S) (kind : AggKind) (xs : List (Hit S)) : List (Hit S) :=
  ((groupScores xs).map fun p => (⟨p.1, reduceVec sc kind p.2⟩ : Hit S)).mergeSort (hitLe sc.le)

/-- text max: `if !exists || score > existing` — same fold as the vector one.
    text sum: `docScores[id] += score` starting from the zero value.
    text mean: sum / count. -/
def textAggregate (sc : Scalar S) (kind : AggKind) (xs : List (Hit S)) : List (Hit S) :=
  ((groupScores xs).map fun p => (⟨p.1, reduceVec sc kind p.2⟩ : Hit S)).mergeSort
    (hitLe fun a b => sc.le b a)

/-- `LimitResults` -/
def limitResults (k : Int) (xs : List α) : List α := xs.take (sanitizeK k xs.length)

end Comet
