/-
  Comet.KMeans — model of clustering.go (`kmeansInternal`, `KMeans`, `KMeansSubspace`,
  `FindNearestCentroidIndex`), written over the scalar operations `Dist.Ops S` and an
  arbitrary distance function, so that the SAME definitions are
    * executed at `Float32` by the driver (the loops are deterministic: centroids and
      assignments are reproduced bit for bit), and
    * reasoned about at any scalar (structural theorems) and at exact ordered fields
      (bounding box, first-minimiser).

  The Go code, loop for loop:
    len(vectors) == 0 or k <= 0          → (nil, nil)
    k > len(vectors)                     → k = len(vectors)
    maxIter <= 0                         → maxIter = DefaultMaxIter (20)
    centroids[i] = copy of vectors[min(i·step, n−1)],  step = n/k (1 when 0)
    mapping[i]   = −1
    repeat maxIter times:
      mapping'[i] = first index with strictly smallest distance (start: +Inf, index 0)
      if nothing changed: break
      for every cluster with ≥ 1 member: centroid = (Σ members, in vector order, from 0) / float32(size);
      empty clusters keep their centroid
  Input vectors are assumed rectangular (all of length `len(vectors[0])`), as everywhere
  in comet; the model, like the code, never writes to them.
-/
import Comet.Distance
namespace Comet.KMeans
open Comet.Dist

section
variable {S : Type} (o : Ops S) (dist : List S → List S → S)

/-- `dist < nearestDistance`, where `none` is the initial `float32(math.Inf(1))` -/
def isBetter (d : S) : Option S → Bool
  | none => o.ltInf d
  | some b => o.lt d b

/-- the arg-min loop shared by the assignment step and `FindNearestCentroidIndex`:
    `best = none` is the initial `+Inf`; strict `<`, so the FIRST minimiser wins;
    index 0 when no distance is `< +Inf`. -/
def nearestLoop (v : List S) : List (List S) → Nat → Option S → Nat → Nat
  | [], _, _, bi => bi
  | c :: cs, i, best, bi =>
    if isBetter o (dist v c) best then nearestLoop v cs (i + 1) (some (dist v c)) i
    else nearestLoop v cs (i + 1) best bi

/-- `FindNearestCentroidIndex` -/
def nearest (v : List S) (cs : List (List S)) : Nat := nearestLoop o dist v cs 0 none 0

/-- the assignment step -/
def assign (vs cs : List (List S)) : List Int := vs.map fun v => (nearest o dist v cs : Int)

/-- `clusterSums[c][d] += v[d]` for every coordinate -/
def addVec (s v : List S) : List S := List.zipWith o.add s v

/-- sum (from zeros, in vector order) and size of cluster `j` -/
def clusterSum (dim : Nat) (vs : List (List S)) (mp : List Int) (j : Nat) : List S × Nat :=
  (List.zip vs mp).foldl
    (fun acc p => if p.2 = (j : Int) then (addVec o acc.1 p.1, acc.2 + 1) else acc)
    (List.replicate dim o.zero, 0)

/-- `if clusterSizes[c] > 0 { centroid[d] = sum[d] / float32(size) }` — else unchanged -/
def updateCentroid (c sum : List S) (size : Nat) : List S :=
  if size > 0 then sum.map fun s => o.div s (o.ofNat size) else c

/-- the update step, cluster by cluster (`j` = index of the first centroid of the list) -/
def updateFrom (dim : Nat) (vs : List (List S)) (mp : List Int) : Nat → List (List S) → List (List S)
  | _, [] => []
  | j, c :: cs =>
    let p := clusterSum o dim vs mp j
    updateCentroid o c p.1 p.2 :: updateFrom dim vs mp (j + 1) cs

def update (dim : Nat) (vs cs : List (List S)) (mp : List Int) : List (List S) :=
  updateFrom o dim vs mp 0 cs

structure Result (S : Type) where
  centroids : List (List S)
  mapping   : List Int
  /-- ghost: the loop was left through `break` (no assignment changed) -/
  converged : Bool
  /-- ghost: number of assignment steps executed -/
  iters     : Nat

/-- the main loop; `fuel` = remaining iterations -/
def iterate (dim : Nat) (vs : List (List S)) : Nat → Nat → List (List S) → List Int → Result S
  | 0, it, cs, mp => ⟨cs, mp, false, it⟩
  | fuel + 1, it, cs, mp =>
    let mp' := assign o dist vs cs
    if mp' = mp then ⟨cs, mp', true, it + 1⟩
    else iterate dim vs fuel (it + 1) (update o dim vs cs mp') mp'

/-- initial centroids: `vectors[min(i·step, n−1)]` for `i < k` -/
def initCentroids (v0 : List S) (rest : List (List S)) (k : Nat) : List (List S) :=
  let n := rest.length + 1
  let step := if n / k = 0 then 1 else n / k
  (List.range k).map fun i =>
    (v0 :: rest)[min (i * step) rest.length]'(by
      simp only [List.length_cons]; exact Nat.lt_succ_of_le (Nat.min_le_right _ _))

def effK (k : Int) (n : Nat) : Nat := if k.toNat > n then n else k.toNat
def effIter (maxIter : Int) : Nat := if maxIter ≤ 0 then 20 else maxIter.toNat

/-- `kmeansInternal`; `none` = `(nil, nil)` -/
def kmeans (vs : List (List S)) (k maxIter : Int) : Option (Result S) :=
  match vs with
  | [] => none
  | v0 :: rest =>
    if k ≤ 0 then none else
    let n := rest.length + 1
    let k' := effK k n
    let cs := initCentroids v0 rest k'
    some (iterate o dist v0.length (v0 :: rest) (effIter maxIter) 0 cs (List.replicate n (-1)))

end

/-- `KMeans(vectors, k, distance, maxIter)` -/
def kmeansKind {S : Type} (o : Ops S) (kind : Kind) (vs : List (List S)) (k maxIter : Int) :=
  kmeans o (calculate o kind) vs k maxIter

/-- `KMeansSubspace(vectors, k, maxIter)`: squared L2 -/
def kmeansSubspace {S : Type} (o : Ops S) (vs : List (List S)) (k maxIter : Int) :=
  kmeans o (l2sq o) vs k maxIter

/-! ## the training glue of the three trained indexes (what they keep of k-means) -/

/-- `v[start:end]` for every vector -/
def subspace {S : Type} (vs : List (List S)) (m dsub : Nat) : List (List S) :=
  vs.map fun v => (v.drop (m * dsub)).take dsub

/-- `IVFIndex.Train`: `none` = error (fewer vectors than lists, or k-means returned nil) -/
def ivfTrain {S : Type} (o : Ops S) (kind : Kind) (nlist : Nat) (vs : List (List S)) :
    Option (List (List S)) :=
  if vs.length < nlist then none else
  (kmeansKind o kind vs nlist 20).map (·.centroids)

/-- `PQIndex.Train`: one flattened codebook per subspace -/
def pqCodebooks {S : Type} (o : Ops S) (M ksub dsub : Nat) (vs : List (List S)) :
    Option (List (List S)) :=
  (List.range M).mapM fun m =>
    (kmeansSubspace o (subspace vs m dsub) ksub 20).map fun r => r.centroids.flatten

/-- `IVFPQIndex.Train`: coarse centroids, then PQ codebooks on the residuals
    `v − centroids[FindNearestCentroidIndex v]`; `none` = error -/
def ivfpqTrain {S : Type} (o : Ops S) (kind : Kind) (nlist M ksub dsub : Nat) (vs : List (List S)) :
    Option (List (List S) × List (List S)) :=
  if vs.length < nlist * 10 then none else
  if vs.length < ksub then none else
  match kmeansKind o kind vs nlist 20 with
  | none => none
  | some r =>
    let cs := r.centroids
    let residuals? := vs.mapM fun v =>
      match cs[nearest o (calculate o kind) v cs]? with
      | some c => some (List.zipWith o.sub v c)
      | none => none
    match residuals? with
    | none => none
    | some residuals => (pqCodebooks o M ksub dsub residuals).map fun cb => (cs, cb)

/-- `CalculatePQParams` (pq_index.go): 8 when it divides `dim`; else the first divisor in
    9..32; else — the loop variable having run on to 33 — 33 when THAT divides `dim`, and the
    fallback 4 otherwise (which need not divide `dim`: the "recommended" parameters of such
    a dimension are rejected by `NewPQIndex`).  Second component: Nbits = 8. -/
def calcPQParams (dim : Int) : Nat × Nat :=
  if dim % 8 = 0 then (8, 8) else
  match ((List.range 25).map fun (i : Nat) => i + 8).find? (fun (m : Nat) => decide (dim % (Int.ofNat m) = 0)) with
  | some m => (m, 8)
  | none => if dim % 33 = 0 then (33, 8) else (4, 8)

end Comet.KMeans
