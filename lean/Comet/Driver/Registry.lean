/- One line per stream handler. -/
import Comet.Driver.Flat
import Comet.Driver.IVF
import Comet.Driver.PQ
import Comet.Driver.Meta
import Comet.Driver.HNSW
import Comet.Driver.Dist
import Comet.Driver.Train
import Comet.Driver.Atomic
import Comet.Driver.BM25
import Comet.Driver.HSearch
import Comet.Driver.Vec5
import Comet.Driver.Conc
import Comet.Driver.Conc2
import Comet.Driver.Store
import Comet.Driver.Post
import Comet.Driver.Codec
import Comet.Driver.Lock
namespace Comet.Driver

def handlers : List Handler := [
  PQStream.handler,
  MetaStream.handler,
  ConcStream.handler,
  SchedStream.handler,
  MaggStream.handler,
  ImageStream.handler,
  CloseRaceStream.handler,
  Vec5Stream.handler,
  HNSWStream.handler,
  HSearchStream.handler,
  BM25Stream.handler,
  AtomicStream.handler,
  FlatStream.handler,
  IVFStream.handler,
  PostStream.handler,
  DistStream.handler,
  TrainStream.handler,
  StoreStream.handlerRestart, StoreStream.handlerStore, StoreStream.handlerCrash,
  CodecStream.handler, CodecStream.truncHandler,
  LockStream.handler
]

end Comet.Driver
