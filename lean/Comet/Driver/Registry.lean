/- One line per stream handler. -/
import Comet.Driver.Flat
namespace Comet.Driver

def handlers : List Handler := [
  FlatStream.handler
]

end Comet.Driver
