/- One line per stream handler. -/
import Comet.Driver.Flat
import Comet.Driver.Dist
import Comet.Driver.Atomic
namespace Comet.Driver

def handlers : List Handler := [
  AtomicStream.handler,
  FlatStream.handler,
  DistStream.handler
]

end Comet.Driver
