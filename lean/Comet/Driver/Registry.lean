/- One line per stream handler. -/
import Comet.Driver.Flat
import Comet.Driver.Dist
import Comet.Driver.Atomic
import Comet.Driver.BM25
import Comet.Driver.HSearch
namespace Comet.Driver

def handlers : List Handler := [
  HSearchStream.handler,
  BM25Stream.handler,
  AtomicStream.handler,
  FlatStream.handler,
  DistStream.handler
]

end Comet.Driver
