/- One line per stream handler. -/
import Comet.Driver.Flat
import Comet.Driver.Dist
import Comet.Driver.Atomic
import Comet.Driver.BM25
namespace Comet.Driver

def handlers : List Handler := [
  BM25Stream.handler,
  AtomicStream.handler,
  FlatStream.handler,
  DistStream.handler
]

end Comet.Driver
