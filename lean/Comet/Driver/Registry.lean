/- One line per stream handler. -/
import Comet.Driver.Flat
import Comet.Driver.Dist
namespace Comet.Driver

def handlers : List Handler := [
  FlatStream.handler,
  DistStream.handler
]

end Comet.Driver
