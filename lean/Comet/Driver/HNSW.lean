/-
  Stream `hnsw` (C12).

  State of one case:
    * `model`  — the faithful model (Comet.Vector.HNSW), replayed op by op with the level
                 the implementation drew and the entry point it elected in `Flush`;
    * `mirror` — the implementation's exported graph, kept up to date through the
                 per-op change lists the harness sends (and checked against full exports
                 by `op graph`);
    * `live`   — the flat specification's live list (Comet.Flat.specStep) = "exact k-NN".

  After every op the model's graph must equal the mirror on everything either side
  touched (levels, ORDERED neighbour lists per layer, entry point, maxLevel).  Where
  two distances that the code compares are bit-equal, Go's heap / sort.Slice order is
  free: such an op is flagged `tie=1`, the model is re-synchronised from the mirror and
  the comparison goes on.  A mismatch without a tie is a DIFF.

  Property-level predicates (judged on the IMPLEMENTATION's answers / exported graph by
  verified checkers):
    N  live ≠ ∅ and the search is unrestricted            ⇒ answer non-empty
    E  residents ≤ 2M+1 since the last empty/flush, efC, ef ≥ that peak
                                                          ⇒ checkTopK against Flat.cands (exact k-NN)
    R  `op reach`: every live id ∈ reachSet of the exported layer-0 graph from the entry
  A failing predicate is a known finding only if its trigger holds AND the model
  reproduces what the implementation did:
    D3-hnsw-prune-disconnects  trigger: the index held more than 2M+1 vertices at some
                               time since it was last empty (nearest-M pruning happened)
    D21-hnsw-removal-disconnects trigger: a Flush dropped a vertex and the index held more
                               than efConstruction vertices at some time since it was last
                               empty (the layer-0 graph is not complete and Flush drops the
                               edges of removed cut vertices without reconnecting)
  (precedence D3, D21: the first trigger that holds names the finding).
  D2 (soft-deleted entry point never seeded / new vertices isolated) is fixed by f6a780e +
  f98dc7f: an empty answer while a live vertex exists is a SPECFAIL again unless one of the
  triggers above explains it.
-/
import Comet.Driver.Proto
import Comet.Driver.Flat
import Comet.Vector.HNSW
namespace Comet.Driver.HNSWStream
open Comet Comet.Driver Comet.F32 Comet.HNSW

structure St where
  kind : MetricKind
  model : State Vec
  mirror : State Vec
  live : List (Id × Vec)
  added : IdMap Unit
  peak : Nat := 0           -- residents: maximum since the last flush / empty index
  everPeak : Nat := 0       -- residents: maximum since the index was last empty
  over : Bool := false      -- everPeak > 2M+1
  removed : Bool := false   -- a removal succeeded since the index was last empty
  flushDropped : Bool := false -- a Flush dropped a vertex since the index was last empty
  entryDead : Bool := false -- statistics only: the entry point was soft-deleted at some add / search

def init (ps : List String) : Option St :=
  match ps with
  | [dim, metric, M, efC, efS] => do
    let d ← dim.toNat?
    let mk ← MetricKind.parse metric
    let M ← M.toNat?
    let efC ← efC.toNat?
    let efS ← efS.toNat?
    let s : State Vec := HNSW.init d M efC efS
    pure { kind := mk, model := s, mirror := s, live := [], added := .empty }
  | _ => none

/-! ### graph comparison -/

def nodeSame (a b : Option (Node Vec)) : Bool :=
  match a, b with
  | none, none => true
  | some x, some y => x.level == y.level && x.edges == y.edges
  | _, _ => false

def sameAt (a b : State Vec) (ids : List Id) : Bool :=
  a.entry == b.entry && a.maxLevel == b.maxLevel &&
  ids.all fun i => nodeSame (a.nodes.get? i) (b.nodes.get? i) && (isDeleted a i == isDeleted b i)

def allIds (a b : State Vec) : List Id := List.range (Nat.max a.nodes.bound b.nodes.bound)

def sameGraph (a b : State Vec) : Bool :=
  sameAt a b (allIds a b) && a.deleted.keys == b.deleted.keys

def firstDiff (a b : State Vec) (ids : List Id) : String :=
  if a.entry != b.entry then s!"entry model={a.entry} impl={b.entry}"
  else if a.maxLevel != b.maxLevel then s!"maxLevel model={a.maxLevel} impl={b.maxLevel}"
  else match ids.find? fun i => !(nodeSame (a.nodes.get? i) (b.nodes.get? i) && (isDeleted a i == isDeleted b i)) with
    | none => "deleted-set"
    | some i =>
      let sh (o : Option (Node Vec)) : String := match o with
        | none => "absent" | some n => s!"L{n.level}:{n.edges}"
      s!"node {i} model={sh (a.nodes.get? i)}/{isDeleted a i} impl={sh (b.nodes.get? i)}/{isDeleted b i}"

/-- ids in all neighbour lists of a node -/
def nbrIds (s : State Vec) (i : Id) : List Id :=
  match s.nodes.get? i with | some n => n.edges.flatten | none => []

/-! ### tie detection (driver only; conservative: it may flag a tie that did not matter,
    never misses one that did) -/

def hasDup (xs : Array UInt32) : Bool :=
  let ys := xs.qsort (· < ·)
  (List.range (ys.size - 1)).any fun i => ys[i]! == ys[i+1]!

/-- two residents at bit-equal distance from `q` -/
def tieFrom (m : Metric Vec UInt32) (s : State Vec) (q : Vec) : Bool :=
  hasDup (s.nodes.keys.toArray.filterMap fun i =>
    match s.nodes.get? i with | some n => some (m.dist q n.vec) | none => none)

/-- some vertex in `us` sees two of `its neighbours (in `s`) ∪ {x}` at bit-equal distance
    (pruning order); vectors are looked up in `vs` (the post-state, which knows `x`) -/
def tieAround (m : Metric Vec UInt32) (s vs : State Vec) (us : List Id) (x : Id) : Bool :=
  us.any fun u =>
    match s.nodes.get? u, vs.nodes.get? u with
    | some n, some nv =>
      n.edges.any fun el =>
        hasDup ((x :: el).eraseDups.toArray.filterMap fun w =>
          match vs.nodes.get? w with | some o => some (m.dist nv.vec o.vec) | none => none)
    | _, _ => false

/-! ### parsing -/

/-- `<id>/<lc>=<ids>` sets one neighbour list, `x<id>` drops a vertex -/
def applyChange (s : State Vec) (t : String) : Option (State Vec × Id) :=
  if t.startsWith "x" then do
    let i ← (t.drop 1).toString.toNat?
    pure ({ s with nodes := s.nodes.erase i }, i)
  else
    match t.splitOn "=" with
    | [lhs, l] =>
      match lhs.splitOn "/" with
      | [i, lc] => do
        let i ← i.toNat?
        let lc ← lc.toNat?
        let l ← parseIds l
        let n ← s.nodes.get? i
        if lc < n.edges.length then pure ({ s with nodes := s.nodes.set i (n.setEdges lc l) }, i) else none
      | _ => none
    | _ => none

def applyChanges (s : State Vec) : List String → Option (State Vec × List Id)
  | [] => some (s, [])
  | t :: ts => do
    let (s', i) ← applyChange s t
    let (s'', is) ← applyChanges s' ts
    pure (s'', i :: is)

/-- `… ; <entry> <maxLevel> <changes…>` -/
def splitTail (post : List String) : Option (List String × Id × Int × List String) :=
  let res := post.takeWhile (· != ";")
  match (post.dropWhile (· != ";")).drop 1 with
  | e :: ml :: ch => do pure (res, ← e.toNat?, ← ml.toInt?, ch)
  | _ => none

/-- `<id>:<level>:<0|1>:<l0>|<l1>|…` -/
def parseNode (t : String) : Option (Id × Nat × Bool × List (List Id)) :=
  match t.splitOn ":" with
  | [i, lv, d, es] => do
    let i ← i.toNat?
    let lv ← lv.toNat?
    let ls ← (es.splitOn "|").mapM parseIds
    pure (i, lv, d == "1", ls)
  | _ => none

/-! ### reachability on the exported graph (verified checker `HNSW.reachSet`) -/

abbrev succ0 (s : State Vec) (i : Id) : List Id := nbrsAt s 0 i

def edgeCount0 (s : State Vec) : Nat :=
  s.nodes.keys.foldl (fun c i => c + (succ0 s i).length) 0

/-- the live ids that are NOT reachable from the entry point through non-deleted
    vertices of layer 0; `none` = fuel exhausted (never happens: fuel = |V|+|E|+2) -/
def unreachable (s : State Vec) (liveIds : List Id) : Option (List Id) :=
  if s.nodes.count == 0 then some liveIds else
  match reachSet (succ0 s) (s.nodes.count + edgeCount0 s + 2) s.entry with
  | none => none
  | some r =>
    let mark : IdMap Unit := r.foldl (fun m i => m.set i ()) .empty
    some (liveIds.filter fun i => !mark.contains i)

/-! ### the op handler -/

def metricOf (st : St) : Metric Vec UInt32 := metric st.kind

def residents (s : State Vec) : Nat := s.nodes.count

/-- bookkeeping shared by all ops: the sticky triggers and the resident peak -/
def track (st : St) : St :=
  let n := residents st.mirror
  if n == 0 then { st with peak := 0, everPeak := 0, over := false, entryDead := false, removed := false, flushDropped := false }
  else { st with peak := Nat.max st.peak n, everPeak := Nat.max st.everPeak n,
                 over := st.over || decide (n > 2 * st.mirror.M + 1) }

/-- the construction-time candidate list was too short to see every vertex at some insertion -/
def lowEf (st : St) : Bool := st.everPeak > st.mirror.efC

def noteEntry (st : St) : St :=
  { st with entryDead := residents st.mirror > 0 && isDeleted st.mirror st.mirror.entry }

def knownOr (st : St) (agree : Bool) (what : String) : String :=
  if st.over && agree then s!"KNOWN D3-hnsw-prune-disconnects {what}"
  else if st.flushDropped && lowEf st && agree then s!"KNOWN D21-hnsw-removal-disconnects {what}"
  else s!"SPECFAIL {what} over={st.over} flushDropped={st.flushDropped} lowEf={lowEf st} modelAgrees={agree}"

def flag (b : Bool) : Nat := if b then 1 else 0

def op (st : St) (toks : List String) : St × String :=
  let m := metricOf st
  let (pre, post) := splitOutcome toks
  match pre with
  | ["add", id, v] =>
    match id.toNat?, parseVec v, splitTail post with
    | some id, some v, some (res, ent, ml, ch) =>
      -- id 0 is a legal id: the index stores the FIRST vector whose own id is 0 under key 0; a
      -- later one would be stored under another key while its edges say 0 (not modelled, never generated)
      if id == 0 && st.model.nextID != 0 then (st, "UNSUPPORTED second-vector-with-own-id-0") else
      let tomb := isDeleted st.mirror id && st.mirror.nodes.contains id
      if st.added.contains id && !tomb then (st, "UNSUPPORTED readd-live") else
      let st := noteEntry st
      let level : Nat := match res with | ["ok", l] => l.toNat?.getD 0 | _ => 0
      -- a tombstoned id is purged by an internal flush first (fix e29df80): the entry
      -- that flush elected is the reported one (0 when nothing was live)
      let pick : Id := if (liveIds st.model).isEmpty then 0 else ent
      let accepted := match res with | "ok" :: _ => true | _ => false
      -- … and so is a soft-deleted entry point (fix f98dc7f)
      let flushes := tomb || (residents st.mirror > 0 && isDeleted st.mirror st.mirror.entry)
      let tomb := flushes
      if tomb && accepted && !(flushChoices st.model).contains pick then
        (st, s!"DIFF readd-flush-entry impl={pick} allowed={flushChoices st.model}") else
      match HNSW.add m st.model id v level pick with
      | .error f => (st, s!"DIFF add model-fault={reprStr f} impl={res}")
      | .ok (model', e) =>
        let implErr := match res with | "ok" :: _ => "ok" | [x] => x | _ => "?"
        -- accepted vs rejected; which error a rejected Add reports is free (Proto.sameOutcome)
        if implErr == "?" || !sameOutcome implErr (FlatStream.errName e) then
          (st, s!"DIFF add model={FlatStream.errName e} impl={implErr}") else
        let live' := Flat.specStep m st.model.dim st.live (.add id v)
        let st := { st with added := st.added.set id (), live := live' }
        match e, m.pre v with
        | none, some v' =>
          let mirBase := if tomb then { st.mirror with deleted := .empty } else st.mirror
          let mir0 := { mirBase with nodes := mirBase.nodes.set id (Node.new v' level),
                                     entry := ent, maxLevel := ml }
          match applyChanges mir0 ch with
          | none => (st, "BADOP add changes")
          | some (mirror', changed) =>
            let touched := (id :: nbrIds model' id ++ changed).eraseDups
            let same := if tomb then sameGraph model' mirror' else sameAt model' mirror' touched
            let fin (st : St) : St :=
              let st := track st
              if tomb then { st with peak := residents st.mirror, flushDropped := true } else st
            if same then
              (fin { st with model := model', mirror := mirror' },
                s!"ok add level={level} n={residents mirror'} sync=1 ent={flag st.entryDead} flushed={flag tomb}")
            else
              -- is there a tie that frees Go's order?  (after the internal flush of a
              -- re-add the pre-state lists are the flushed ones: use the post-state)
              let base := if tomb then mirror' else st.model
              let tie := tieFrom m base v' || tieAround m base mirror' touched id
              let st' := fin { st with model := mirror', mirror := mirror' }
              if tie then (st', s!"ok add level={level} n={residents mirror'} tie=1 flushed={flag tomb}")
              else (st', s!"DIFF add-graph {firstDiff model' mirror' (if tomb then allIds model' mirror' else touched)}")
        | _, _ =>
          -- rejected add: nothing may change
          if ch.isEmpty && ent == st.mirror.entry && ml == st.mirror.maxLevel then
            ({ st with model := model' }, s!"ok add err {classFlag implErr}")
          else (st, "DIFF add rejected but graph changed")
    | _, _, _ => (st, "BADOP add")
  | ["remove", id] =>
    match id.toNat?, splitTail post with
    | some id, some (res, ent, ml, ch) =>
      let (model', e) := HNSW.remove st.model id
      let (mirror', _) := HNSW.remove st.mirror id
      let live' := Flat.specStep m st.model.dim st.live (.remove id)
      let st' := { st with model := model', mirror := mirror', live := live', removed := st.removed || e.isNone }
      if !outcomeAgrees res (FlatStream.errName e) then (st', s!"DIFF remove model={FlatStream.errName e} impl={res}")
      else if !(ch.isEmpty && ent == st.mirror.entry && ml == st.mirror.maxLevel) then
        (st', "DIFF remove changed the graph")
      else (st', s!"ok remove entry={flag (e.isNone && id == st.mirror.entry)}{if e.isNone then "" else " failed=1 " ++ classFlag (res.headD "?")}")
    | _, _ => (st, "BADOP remove")
  | ["flush"] =>
    match splitTail post with
    | some (res, ent, ml, ch) =>
      if res != ["ok"] then (st, s!"DIFF flush impl={res}") else
      let nothing := st.mirror.deleted.count == 0
      let mir0 := if nothing then st.mirror else
        { st.mirror with deleted := .empty, entry := ent, maxLevel := ml }
      match applyChanges mir0 ch with
      | none => (st, "BADOP flush changes")
      | some (mirror', _) =>
        let choices := flushChoices st.model
        if !choices.contains ent then
          (track { st with model := mirror', mirror := mirror' },
            s!"DIFF flush-entry impl={ent} allowed={choices}")
        else
          let model' := flushTo st.model ent
          let reelected := ent != st.model.entry
          let st' := track { st with model := model', mirror := mirror' }
          let st' := { st' with peak := residents mirror', flushDropped := st'.flushDropped || !nothing }
          if sameGraph model' mirror' then
            (st', s!"ok flush n={residents mirror'} reelect={flag reelected} choices={choices.length} dropped={flag (!nothing)}")
          else
            ({ st' with model := mirror' }, s!"DIFF flush-graph {firstDiff model' mirror' (allIds model' mirror')}")
    | none => (st, "BADOP flush")
  | ["graph"] =>
    match post with
    | ent :: ml :: nodes =>
      match ent.toNat?, ml.toInt?, nodes.mapM parseNode with
      | some ent, some ml, some ns =>
        let mir := st.mirror
        let okMeta := ent == mir.entry && ml == mir.maxLevel && ns.length == mir.nodes.count
        let okNodes := ns.all fun (i, lv, d, es) =>
          match mir.nodes.get? i with
          | none => false
          | some n => n.level == lv && n.edges == es && isDeleted mir i == d
        let inSync := sameGraph st.model mir
        if okMeta && okNodes then
          if inSync then (st, s!"ok graph n={ns.length}")
          else (st, s!"DIFF graph model-vs-mirror {firstDiff st.model mir (allIds st.model mir)}")
        else (st, s!"DIFF graph export differs from the change lists (entry={ent} maxLevel={ml} n={ns.length} mirror: entry={mir.entry} maxLevel={mir.maxLevel} n={mir.nodes.count})")
      | _, _, _ => (st, "BADOP graph parse")
    | _ => (st, "BADOP graph")
  | ["reach"] =>
    let st := noteEntry st
    let liveIds := st.live.map (·.1)
    match unreachable st.mirror liveIds with
    | none => (st, "UNSUPPORTED reach fuel")
    | some [] =>
      -- the invariant behind the partial theorems: in the complete regime (entry never
      -- soft-deleted, never more than 2M+1 vertices, efConstruction never below the size)
      -- layer 0 of the EXPORTED graph is the complete digraph on the live vertices
      let regime := !st.over && !lowEf st
      if regime && !complete0B st.mirror then
        (st, s!"SPECFAIL small-complete layer 0 of the exported graph is not complete on the live vertices (live={liveIds.length})")
      else
        (st, s!"ok reach live={liveIds.length} all=1 small={flag (!st.over)} complete={flag regime}")
    | some (u :: us) =>
      let agree := sameGraph st.model st.mirror
      (st, knownOr st agree s!"reach unreachable={us.length + 1} first={u} live={liveIds.length} entry={st.mirror.entry}")
  | ["search", k, thr, filt, ef, q] =>
    match parseInt k, parseU32 thr, parseIds filt, parseInt ef, parseVec q, splitTail post with
    | some k, some thr, some filt, some ef, some q, some (res, ent, ml, ch) =>
      if !(ch.isEmpty && ent == st.mirror.entry && ml == st.mirror.maxLevel) then
        (st, "DIFF search changed the graph") else
      let st := noteEntry st
      let agg := AggKind.sum
      match HNSW.searchCands m st.model q thr filt ef, HNSW.execute m st.model q k thr filt ef agg with
      | .error f, _ => (st, s!"DIFF search model-fault={reprStr f}")
      | _, .error f => (st, s!"DIFF search model-fault={reprStr f}")
      | .ok mc, .ok mres =>
        match res, mc, mres with
        | ["err", e], .error _, _ => (st, s!"ok search err {classFlag e}")   -- which error: free
        | ["err", e], .ok _, _ => (st, s!"DIFF search model=ok impl=err:{e}")
        | "ok" :: _, .error me, _ => (st, s!"DIFF search model=err:{FlatStream.errName (some me)} impl=ok")
        | "ok" :: hits, .ok mcands, .ok mhits =>
          match hits.mapM parseHit32, (match m.pre q with | some q' => some q' | none => if mcands.isEmpty then some q else none) with
          | some ires, some q' =>
            let sumOne (h : Hit UInt32) : Hit UInt32 := ⟨h.id, reduceVec m.sc agg [h.score]⟩
            -- does the model reproduce the implementation's answer (up to tie order)?
            let agree := checkTopK m.sc.le k (mcands.map sumOne) ires
            let identical := mhits == ires
            let efUsed : Nat := if ef ≤ 0 then st.model.efS else ef.toNat
            let nlive := st.live.length
            let unrestricted := filt.isEmpty && !m.sc.lt m.sc.zero thr
            -- N
            let nFail := unrestricted && nlive > 0 && ires.isEmpty
            -- E
            let small := !st.over && st.peak ≤ 2 * st.model.M + 1 &&
              st.peak ≤ st.model.efC && st.peak ≤ efUsed
            let spec := (Flat.cands m st.live q' thr filt).map sumOne
            let exact := checkTopK m.sc.le k spec ires
            let inRegime := st.peak ≤ 2 * st.model.M + 1 && st.peak ≤ st.model.efC && st.peak ≤ efUsed
            if nFail then (st, knownOr st agree s!"nonempty live={nlive} answer=[]")
            else if inRegime && !exact then
              (st, knownOr st agree s!"small-exact {FlatStream.diagnose m.sc k spec ires}")
            else if agree then
              (st, s!"ok search n={ires.length} live={nlive} small={flag small} exact={flag exact} approx={flag (!exact)} identical={flag identical} unrestricted={flag unrestricted} ent={flag st.entryDead} over={flag st.over}")
            else if tieFrom m st.model q' then
              (st, s!"ok search n={ires.length} live={nlive} tie=1 exact={flag exact}")
            else (st, s!"DIFF search model={showHits32 mhits} impl={showHits32 ires}")
          | _, _ => (st, "BADOP search hits")
        | _, _, _ => (st, "BADOP search outcome")
    | _, _, _, _, _, _ => (st, "BADOP search args")
  | _ => (st, "BADOP unknown")

def handler : Handler := { name := "hnsw", σ := St, init := init, op := op }

end Comet.Driver.HNSWStream
