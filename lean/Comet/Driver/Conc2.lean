/-
  More streams of C11.

  `magg`  — read-only phase: 2..16 goroutines run multi-query searches (2..4 queries, score
            aggregation sum / max / mean) concurrently, on one shared index or on separate,
            unrelated instances.  Without writers a search has exactly one correct answer: the
            one the same search gave sequentially before the race.  Every concurrent answer must
            equal it (ids and scores, as canonical `id:scorebits` lists) — state shared between
            searches (package-level scratch buffers, pooled objects handed back too early)
            shows up as foreign ids, duplicates, missing documents or foreign scores.
  `image` — serialisation under writers: goroutines hammer a hybrid index with AddWithID / Remove
            of vector-only, text-only, metadata-only and all-modality documents while others call
            WriteTo in a loop; every image is reloaded into fresh templates and probed.  WriteTo
            holds the hybrid read lock from the document table to the last sub-index, so an image
            is ONE atomic read: (1) it is judged like a search by the verified checker
            `checkVisibility` (lin_visibility: a document whose add completed before WriteTo began
            and whose removal had not begun is in it; none whose removal completed before, or that
            was never added), and (2) its four parts agree about every id (document table flags
            = what was added = membership in the vector / text / metadata images).
-/
import Comet.Driver.Conc
namespace Comet.Driver.MaggStream
open Comet Comet.Driver

structure St where
  /-- sequential answers: (goroutine, search number) ↦ canonical hit list -/
  seqs : List ((Nat × Nat) × String) := []
  /-- id restriction of a search (WithDocumentIDs / metadata pre-filter): `none` = unrestricted -/
  filts : List ((Nat × Nat) × List Nat) := []
  filtered : Nat := 0
  pars : Nat := 0
  multi : Nat := 0
  nonempty : Nat := 0
  bad : Option String := none

def init (_ : List String) : Option St := some {}

/-- first difference of two comma separated lists (diagnostics only) -/
def firstDiff (a b : String) : String :=
  let xs := a.splitOn ","
  let ys := b.splitOn ","
  let extra := ys.filter fun y => !xs.contains y
  let missing := xs.filter fun x => !ys.contains x
  s!"sequential n={xs.length} concurrent n={ys.length} not-in-sequential={extra.take 4} missing={missing.take 4}"

/-- an answer must lie inside its own search's id restriction -/
def outside (filt : Option (List Nat)) (hits : String) : Option Nat :=
  match filt with
  | none => none
  | some allowed =>
    if hits == "-" then none else
    (hits.splitOn ",").findSome? fun t =>
      match ((t.splitOn ":").headD "").toNat? with
      | some id => if allowed.contains id then none else some id
      | none => none

def op (st : St) (toks : List String) : St × String :=
  let (pre, post) := splitOutcome toks
  match pre with
  | ["seq", g, i, _kind, _agg, nq, filt] =>
    match g.toNat?, i.toNat?, nq.toNat?, post with
    | some g, some i, some nq, ["ok", hits] =>
      let f : Option (List Nat) := if filt == "all" then none else parseIds filt
      match outside f hits with
      | some id => (st, s!"SPECFAIL inside_restriction search {i} of goroutine {g} (sequential run) returned id {id}, which is outside the id restriction it was given")
      | none =>
      ({ st with seqs := ((g, i), hits) :: st.seqs, multi := st.multi + (if nq ≥ 2 then 1 else 0),
                 filts := match f with | some l => ((g, i), l) :: st.filts | none => st.filts,
                 filtered := st.filtered + (if f.isSome then 1 else 0),
                 nonempty := st.nonempty + (if hits != "-" then 1 else 0) }, "ok")
    | some _, some _, some _, _ => (st, s!"SPECFAIL sequential search failed: {post}")
    | _, _, _, _ => ({ st with bad := some "seq" }, "BADOP seq")
  | ["par", g, i, _rep] =>
    match g.toNat?, i.toNat? with
    | some g, some i =>
      match st.seqs.find? (·.1 == (g, i)), post with
      | some (_, want), ["ok", hits] =>
        match outside ((st.filts.find? (·.1 == (g, i))).map (·.2)) hits with
        | some id => (st, s!"SPECFAIL inside_restriction search {i} of goroutine {g} returned id {id}, which is outside the id restriction it was given (another search's restriction was applied)")
        | none =>
        if hits == want then ({ st with pars := st.pars + 1 }, "ok")
        else (st, s!"SPECFAIL concurrent_equals_sequential with no writer running, search {i} of goroutine {g} answered differently from its sequential run: {firstDiff want hits}")
      | some _, _ => (st, s!"SPECFAIL no_spurious_error concurrent search failed: {post}")
      | none, _ => ({ st with bad := some "par without seq" }, "BADOP par without seq")
    | _, _ => ({ st with bad := some "par" }, "BADOP par")
  | "panic" :: _ => (st, "ok")
  | ["judge"] =>
    match st.bad with
    | some b => (st, s!"BADOP {b}")
    | none => (st, s!"ok pars={st.pars} seqs={st.seqs.length} filtered={if st.filtered > 0 then 1 else 0} multi={if st.multi > 0 then 1 else 0} nonempty={if st.nonempty > 0 then 1 else 0}")
  | _ => ({ st with bad := some "unknown" }, "BADOP unknown")

def handler : Handler := { name := "magg", σ := St, init := init, op := op }

end Comet.Driver.MaggStream

namespace Comet.Driver.ImageStream
open Comet Comet.Driver Comet.Conc.Proto Comet.Driver.ConcStream

structure Image where
  g : Nat
  inv : Nat
  resp : Nat
  /-- document table: (id, flags) with flags ⊆ "vtm" -/
  info : List (Nat × String)
  vec : List Nat
  txt : List Nat
  md : List Nat

structure St where
  recs : List Rec := []
  /-- modality each id was added with -/
  mods : List (Nat × String) := []
  images : List Image := []
  bad : Option String := none

def init (_ : List String) : Option St := some {}

def parseInfo (s : String) : Option (List (Nat × String)) :=
  if s == "-" then some [] else
  (s.splitOn ",").mapM fun t => match t.splitOn ":" with
    | [i, f] => i.toNat?.map fun i => (i, if f == "0" then "" else f)
    | _ => none

def field (pfx : String) (t : String) : Option String :=
  if t.startsWith pfx then some (t.drop pfx.length).toString else none

/-- the four parts of one image must tell the same story about every id -/
def agreeFail (mods : List (Nat × String)) (im : Image) : Option String :=
  let has (f : Char) (fl : String) : Bool := fl.toList.contains f
  let bad1 := im.info.findSome? fun (id, fl) =>
    if has 'v' fl != im.vec.contains id then some s!"document table says vector={has 'v' fl} for id {id}, the vector image says {im.vec.contains id}"
    else if has 't' fl != im.txt.contains id then some s!"document table says text={has 't' fl} for id {id}, the text image says {im.txt.contains id}"
    else if has 'm' fl != im.md.contains id then some s!"document table says metadata={has 'm' fl} for id {id}, the metadata image says {im.md.contains id}"
    else
      -- an id may have been added several times (re-added after / while being removed): the table
      -- must show one of the modality sets it was added with
      let ms := (mods.filter (·.1 == id)).map (·.2)
      if ms.isEmpty || ms.any (fun m => m.toList.all (has · fl) && fl.toList.all (has · m)) then none
      else some s!"id {id} was added with modalities {ms}, the document table says '{fl}'"
  match bad1 with
  | some w => some w
  | none =>
    let known (id : Nat) : Bool := im.info.any (·.1 == id)
    match im.vec.find? (!known ·), im.txt.find? (!known ·), im.md.find? (!known ·) with
    | some id, _, _ => some s!"the vector image holds id {id}, which the document table does not know (it can be found but never removed)"
    | _, some id, _ => some s!"the text image holds id {id}, which the document table does not know (it can be found but never removed)"
    | _, _, some id => some s!"the metadata image holds id {id}, which the document table does not know"
    | none, none, none => none

def judge (st : St) : String :=
  match st.bad with
  | some b => s!"BADOP {b}"
  | none =>
    let rs := st.recs.reverse
    let ims := st.images.reverse
    let (errs, _) := judgeErrors "hybrid" rs
    match errs with
    | e :: _ => s!"SPECFAIL no_spurious_error {e}"
    | [] =>
      match ims.findSome? fun im => (agreeFail st.mods im).map fun w =>
          if im.g == 998 then s!"the LIVE index at quiescence @[{im.inv},{im.resp}]: {w}"
          else s!"image written by g={im.g} @[{im.inv},{im.resp}]: {w}" with
      | some w => s!"SPECFAIL image_consistent document table and sub-indexes disagree — {w}"
      | none =>
        -- an image is one atomic read of the document set: judged like a search
        let h := rs.filterMap toHOp ++ ims.map fun im =>
          ({ kind := .search, inv := im.inv, resp := im.resp, res := im.info.map (·.1) } : HOp)
        match visFail "hybrid" h with
        | some w => s!"SPECFAIL lin_visibility (image as a read of the document set) {w}"
        | none =>
          let writes := rs.filter fun r => r.op == "add" || r.op == "remove"
          let ov := ims.any fun im => writes.any fun w => decide (w.inv < im.resp) && decide (im.inv < w.resp)
          s!"ok images={ims.length} ops={rs.length} overlap={if ov then 1 else 0} nonempty={if ims.any (!·.info.isEmpty) then 1 else 0}"

def op (st : St) (toks : List String) : St × String :=
  let (pre, post) := splitOutcome toks
  let outc := post.headD "other"
  match pre with
  | ["judge"] => (st, judge st)
  | "panic" :: _ => (st, "ok")
  | ["add", g, id, inv, resp, m] =>
    match g.toNat?, id.toNat?, inv.toNat?, resp.toNat? with
    | some g, some id, some inv, some resp =>
      ({ st with recs := { g := g, op := "add", id := id, inv := inv, resp := resp, out := outc } :: st.recs,
                 mods := (id, m) :: st.mods }, "ok")
    | _, _, _, _ => ({ st with bad := some "add" }, "BADOP add")
  | ["remove", g, id, inv, resp] =>
    match g.toNat?, id.toNat?, inv.toNat?, resp.toNat? with
    | some g, some id, some inv, some resp =>
      ({ st with recs := { g := g, op := "remove", id := id, inv := inv, resp := resp, out := outc } :: st.recs }, "ok")
    | _, _, _, _ => ({ st with bad := some "remove" }, "BADOP remove")
  | ["image", g, inv, resp] =>
    match g.toNat?, inv.toNat?, resp.toNat?, post with
    | some g, some inv, some resp, ["ok", i, v, t, m] =>
      match (field "info=" i).bind parseInfo, (field "vec=" v).bind parseIds, (field "txt=" t).bind parseIds,
            (field "meta=" m).bind parseIds with
      | some info, some vec, some txt, some md =>
        ({ st with images := { g := g, inv := inv, resp := resp, info := info, vec := vec, txt := txt, md := md } :: st.images }, "ok")
      | _, _, _, _ => ({ st with bad := some "image fields" }, "BADOP image fields")
    | some _, some _, some _, _ => (st, s!"SPECFAIL no_spurious_error WriteTo / reload failed: {post}")
    | _, _, _, _ => ({ st with bad := some "image" }, "BADOP image")
  | _ => ({ st with bad := some "unknown" }, "BADOP unknown")

def handler : Handler := { name := "image", σ := St, init := init, op := op }

end Comet.Driver.ImageStream

namespace Comet.Driver.CloseRaceStream
open Comet Comet.Driver

/-! `closerace` — Close() against a compaction in flight (directed: the compaction worker is
    parked at a yield point outside the store mutex, Close is started, the worker is released
    once Close has set the closed flag).  Close waits for the workers on a WaitGroup — the part
    of shutdown the lock-order theorem does not model — so the only oracle is: everybody
    returns.  `hang` = Close (or the compaction it waits for) never returned. -/

def op (st : Nat) (toks : List String) : Nat × String :=
  let (pre, post) := splitOutcome toks
  match pre, post with
  | ["closerace", _], ["ok"] => (st + 1, "ok raced=1")
  | ["closerace", _], ["nocompaction"] => (st, "ok raced=0")
  | ["closerace", pt], ["hang"] =>
    (st, s!"SPECFAIL no_deadlock Close() did not return while a compaction was in flight (worker parked at {pt}, released after Close had set the closed flag): Close and the compaction wait for each other")
  | ["closerace", _], _ => (st, s!"SPECFAIL no_spurious_error close race: {post}")
  | "panic" :: _, _ => (st, "ok")
  | _, _ => (st, "BADOP unknown")

def handler : Handler := { name := "closerace", σ := Nat, init := fun _ => some 0, op := op }

end Comet.Driver.CloseRaceStream
