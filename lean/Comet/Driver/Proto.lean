/-
  Line protocol helpers (parsing of tokens; floats travel as hex bit patterns).
-/
import Comet.TopK
import Comet.F32
namespace Comet.Driver

def hexVal (c : Char) : Option Nat :=
  if '0' ≤ c ∧ c ≤ '9' then some (c.toNat - '0'.toNat)
  else if 'a' ≤ c ∧ c ≤ 'f' then some (c.toNat - 'a'.toNat + 10)
  else if 'A' ≤ c ∧ c ≤ 'F' then some (c.toNat - 'A'.toNat + 10)
  else none

def parseHex (s : String) : Option Nat :=
  if s.isEmpty then none else
  s.foldl (fun acc c => do let a ← acc; let v ← hexVal c; pure (a * 16 + v)) (some 0)

def hexDigit (n : Nat) : Char :=
  if n < 10 then Char.ofNat ('0'.toNat + n) else Char.ofNat ('a'.toNat + n - 10)

def toHex (width : Nat) (n : Nat) : String :=
  let rec go (w : Nat) (n : Nat) (acc : List Char) : List Char :=
    match w with
    | 0 => acc
    | w + 1 => go w (n / 16) (hexDigit (n % 16) :: acc)
  String.ofList (go width n [])

def hex32 (u : UInt32) : String := toHex 8 u.toNat

def parseU32 (s : String) : Option UInt32 := do
  let n ← parseHex s
  if n < 4294967296 then some (UInt32.ofNat n) else none

/-- "-" is the empty vector; otherwise 8 hex digits per component -/
def parseVec (s : String) : Option F32.Vec :=
  if s == "-" then some #[] else
  if s.length % 8 != 0 then none else
  let cs := s.toList
  let rec go (fuel : Nat) (cs : List Char) (acc : Array Float32) : Option (Array Float32) :=
    match fuel with
    | 0 => if cs.isEmpty then some acc else none
    | fuel + 1 =>
      if cs.isEmpty then some acc else do
        let w := String.ofList (cs.take 8)
        let u ← parseU32 w
        go fuel (cs.drop 8) (acc.push (Float32.ofBits u))
  go (cs.length / 8 + 1) cs #[]

def vecHex (v : F32.Vec) : String :=
  if v.isEmpty then "-" else String.join (v.toList.map fun x => hex32 x.toBits)

/-- "-" is the empty list; otherwise comma separated decimals -/
def parseIds (s : String) : Option (List Nat) :=
  if s == "-" then some [] else (s.splitOn ",").mapM String.toNat?

def parseInt (s : String) : Option Int := s.toInt?

/-- `<id>:<scorehex32>` -/
def parseHit32 (s : String) : Option (Hit UInt32) :=
  match s.splitOn ":" with
  | [i, sc] => do pure ⟨← i.toNat?, ← parseU32 sc⟩
  | _ => none

def showHit32 (h : Hit UInt32) : String := s!"{h.id}:{hex32 h.score}"
def showHits32 (hs : List (Hit UInt32)) : String := " ".intercalate (hs.map showHit32)

/-- split a request line into the op part and the recorded implementation outcome -/
def splitOutcome (toks : List String) : List String × List String :=
  let pre := toks.takeWhile (· != "=>")
  let post := (toks.dropWhile (· != "=>")).drop 1
  (pre, post)

/-! ### outcomes of failing calls

No property says WHICH error a failing call reports, only THAT it fails ("… is an error",
"fails without any effect", "is rejected").  The harness still attaches a class to every error
(derived from `errors.Is` on exported sentinels where they exist, otherwise from the message
text); that class is *informational*: a patch which merely rewords error messages moves every
class to `other`, and a check that compared classes would raise an alarm on code for which the
property still holds.  Hence every driver compares outcomes through `sameOutcome` — "ok" against
"not ok" — and reports the implementation's class only as a histogrammed flag (`classFlag`).
Model state never depends on the implementation's class. -/

/-- `implTok`, `modelTok`: outcome tokens, `"ok"` = the call succeeded, anything else = the
    class of the error it returned.  Agreement = both succeed or both fail (for whatever reason,
    in whatever words). -/
def sameOutcome (implTok modelTok : String) : Bool := (implTok == "ok") == (modelTok == "ok")

/-- the recorded outcome is a single token that agrees with the model's (ok vs failure) -/
def outcomeAgrees (post : List String) (modelTok : String) : Bool :=
  match post with
  | [t] => sameOutcome t modelTok
  | _ => false

/-- informational flag for an `ok` reply: the class the harness attached to the implementation's
    error (`g1:cat` becomes `errclass-g1-cat=1`) -/
def classFlag (implTok : String) : String :=
  s!"errclass-{implTok.replace ":" "-"}=1"

/-- reply for a write operation on which model and implementation agree: `ok …flags` when it
    succeeded, `ok failed=1 errclass-…=1 …flags` when both failed -/
def agreedReply (implTok : String) (flags : String := "") : String :=
  let tail := if flags.isEmpty then "" else " " ++ flags
  if implTok == "ok" then "ok" ++ tail else s!"ok failed=1 {classFlag implTok}" ++ tail

/-- reply for a query that failed on both sides -/
def agreedErr (implTok : String) : String := s!"ok err {classFlag implTok}"

/-- A stream handler: one per property family. `σ` is the model state of one case. -/
structure Handler where
  name : String
  σ : Type
  /-- `begin <stream> params…` ; `none` = malformed parameters -/
  init : List String → Option σ
  /-- one op line (tokens without the leading "op"); the reply must be one line:
      `ok …` | `DIFF …` | `SPECFAIL …` | `KNOWN <finding> …` | `UNSUPPORTED …` | `BADOP …` -/
  op : σ → List String → σ × String

end Comet.Driver
