/-
  Stream `atomic` (C06): replays Add / AddWithID / Remove / Flush histories of a hybrid
  index on the model Comet.Hybrid and compares, after every op, what the implementation's
  searches reveal (per modality, through the hybrid search AND through each sub-index
  directly) with the model's `observe`.

    begin atomic <hasV> <hasT> <hasM> <dim> <metric> <kind>
    op add    <vec|-> <text|-> <meta|->        => ok <id> | err <id>
    op addid  <id> <vec|-> <text|-> <meta|->   => ok | err
    op remove <id>                             => ok | err
    op flush                                   => ok
    op probevec  <h|s> <qvec>                  => ok id:score32 … | err
    op probetxt  <h|s> <word>                  => ok id …          | err
    op probemeta <h|s> <key> <val>             => ok id …          | err
    op probeex   <h|s> <key>                   => ok id …          | err   (Exists(key))

  text: words joined by '+'; meta: k=v pairs joined by ',', value "!" = unsupported type.
  Outcome mismatches and wrong observations are SPECFAIL: they are exactly what C06 states
  (a failed add that becomes visible, a removed id that is still found, stale content after
  a re-add, an auto id that is not fresh).
-/
import Comet.Driver.Proto
import Comet.Hybrid
namespace Comet.Driver.AtomicStream
open Comet Comet.Driver Comet.F32 Comet.Hybrid

abbrev Meta := List (String × String)

structure St where
  kind : MetricKind
  exact : Bool                 -- vector kind is flat: scores are compared bit for bit
  dim : Nat
  s : Hybrid.State Vec String Meta
  seen : List Id
  lastAuto : Nat
  broken : Bool := false     -- model and implementation disagreed on an outcome the model cannot follow

def params (dim : Nat) (mk : MetricKind) : Params Vec Meta :=
  { vpre := fun v =>
      if v.size ≠ dim then .error .dim else
      match (metric mk).pre v with
      | none => .error .zero
      | some v' => .ok v',
    mok := fun m => m.all fun kv => kv.2 != "!" }

def parseBool : String → Option Bool
  | "1" => some true | "0" => some false | _ => none

def init (ps : List String) : Option St :=
  match ps with
  | [hv, ht, hm, dim, metric, vkind] => do
    let hv ← parseBool hv; let ht ← parseBool ht; let hm ← parseBool hm
    let d ← dim.toNat?
    let mk ← MetricKind.parse metric
    pure { kind := mk, exact := vkind == "flat" || vkind == "ivf" || vkind == "hnsw", dim := d, s := Hybrid.init hv ht hm 0, seen := [], lastAuto := 0 }
  | _ => none

def parseText (s : String) : Option String := if s == "-" then none else some s
def parseMeta (s : String) : Option Meta :=
  if s == "-" then none else
  some ((s.splitOn ",").filterMap fun kv => match kv.splitOn "=" with
    | [k, v] => some (k, v) | _ => none)
def parseVecOpt (s : String) : Option (Option Vec) :=
  if s == "-" then some none else (parseVec s).map some

def words (t : String) : List String := t.splitOn "+"

def sortIds (l : List Nat) : List Nat := l.mergeSort (fun a b => decide (a ≤ b))

def doAdd (st : St) (id : Id) (d : Doc Vec String Meta) (implOk : Bool) (what : String) : St × String :=
  if (st.s.info id).isSome then (st, "UNSUPPORTED add-of-live-id") else
  let r := addInternal (params st.dim st.kind) st.s id d
  let seen := if st.seen.contains id then st.seen else id :: st.seen
  let st' := { st with s := r.1, seen }
  if r.2.isNone == implOk then (st', if implOk then "ok" else "ok rejected=1")
  else if !implOk then
    -- the implementation refused a write the model accepts (a validation the model does not
    -- know): the correspondence is broken (DIFF), but what C06 says about a FAILED write still
    -- applies and is judged — it must have left no trace, so the state stays as it was
    ({ st with seen }, s!"DIFF {what} model=ok impl=err (judged from here on as a failed write: no trace allowed)")
  else
    -- the implementation accepted a write the model refuses: nothing C06 states is violated by
    -- that alone, and the model cannot say what was stored — stop judging this history
    ({ st with broken := true }, s!"DIFF {what} model=err impl=ok (rest of the history not judged)")

def op (st : St) (toks : List String) : St × String :=
  if st.broken then (st, "ok skipped=1") else
  let (pre, post) := splitOutcome toks
  match pre with
  | ["add", v, t, m] =>
    match parseVecOpt v, post with
    | some v, [res, ids] =>
      match ids.toNat? with
      | some id =>
        if id ≤ st.lastAuto then (st, s!"SPECFAIL add returned id {id} not greater than earlier auto id {st.lastAuto}")
        else if st.seen.contains id then (st, s!"SPECFAIL add returned id {id} that was used before")
        else
          let (st', r) := doAdd st id ⟨v, parseText t, parseMeta m⟩ (res == "ok") "add"
          ({ st' with lastAuto := id }, r)
      | none => (st, "BADOP add id")
    | _, _ => (st, "BADOP add")
  | ["addid", ids, v, t, m] =>
    match ids.toNat?, parseVecOpt v, post with
    | some id, some v, [res] => doAdd st id ⟨v, parseText t, parseMeta m⟩ (res == "ok") "addid"
    | _, _, _ => (st, "BADOP addid")
  | ["remove", ids] =>
    match ids.toNat?, post with
    | some id, [res] =>
      let r := Hybrid.remove st.s id
      let st' := { st with s := r.1 }
      if r.2.isNone == (res == "ok") then (st', if res == "ok" then "ok" else "ok rejected=1")
      else (st', s!"SPECFAIL remove model={if r.2.isNone then "ok" else "err"} impl={res}")
    | _, _ => (st, "BADOP remove")
  | ["flush"] => ({ st with s := Hybrid.flush st.s }, if post == ["ok"] then "ok" else "DIFF flush")
  | ["probevec", via, q] =>
    match parseVec q with
    | none => (st, "BADOP probevec")
    | some q =>
      if st.s.vec.isNone then
        (st, if post.head? == some "err" then "ok err" else "SPECFAIL vector query without vector index must fail")
      else
      match post with
      | "ok" :: hits =>
        match hits.mapM parseHit32, (metric st.kind).pre q with
        | some res, some q' =>
          let expect : List (Hit UInt32) := st.seen.flatMap fun id =>
            (vecVisible st.s id).map fun v => ⟨id, (metric st.kind).dist q' v⟩
          let got := sortIds (res.map (·.id))
          let want := sortIds (expect.map (·.id))
          if got != want then (st, s!"SPECFAIL probevec[{via}] ids want={want} got={got}")
          else if st.exact && !(res.all fun h => expect.contains h) then
            (st, s!"SPECFAIL probevec[{via}] content (score) differs: want={showHits32 expect} got={showHits32 res}")
          else (st, s!"ok n={res.length}")
        | _, _ => (st, "BADOP probevec hits")
      | _ => (st, s!"SPECFAIL probevec[{via}] failed: {post}")
  | "probedup" :: rest =>
    -- "<sum hits…> | <max hits…>": equal unless some id is stored more than once
    let a := (rest.takeWhile (· != "|")).filterMap parseHit32
    let b := ((rest.dropWhile (· != "|")).drop 1).filterMap parseHit32
    let same := a.length == b.length && a.all fun h => b.contains h
    if same then (st, "ok") else
      (st, s!"SPECFAIL an id is stored more than once (sum vs max aggregation differ): sum={showHits32 a} max={showHits32 b}")
  | ["probetxt", via, w] =>
    if st.s.txt.isNone then
      (st, if post.head? == some "err" then "ok err" else "SPECFAIL text query without text index must fail")
    else
    match post with
    | "ok" :: ids =>
      match ids.mapM String.toNat? with
      | some got =>
        let want := st.seen.filter fun id => match txtVisible st.s id with
          | some t => (words t).contains w | none => false
        if sortIds got == sortIds want then (st, s!"ok n={got.length}")
        else (st, s!"SPECFAIL probetxt[{via}] word={w} want={sortIds want} got={sortIds got}")
      | none => (st, "BADOP probetxt ids")
    | _ => (st, s!"SPECFAIL probetxt[{via}] failed: {post}")
  | ["probemeta", via, k, v] =>
    if st.s.mdx.isNone then
      (st, if post.head? == some "err" then "ok err" else "SPECFAIL metadata filter without metadata index must fail")
    else
    match post with
    | "ok" :: ids =>
      match ids.mapM String.toNat? with
      | some got =>
        let want := st.seen.filter fun id => (metaVisible st.s id).any fun m => m.contains (k, v)
        if sortIds got == sortIds want then (st, s!"ok n={got.length}")
        else (st, s!"SPECFAIL probemeta[{via}] {k}={v} want={sortIds want} got={sortIds got}")
      | none => (st, "BADOP probemeta ids")
    | _ => (st, s!"SPECFAIL probemeta[{via}] failed: {post}")
  | ["probeex", via, k] =>
    if st.s.mdx.isNone then
      (st, if post.head? == some "err" then "ok err" else "SPECFAIL metadata filter without metadata index must fail")
    else
    match post with
    | "ok" :: ids =>
      match ids.mapM String.toNat? with
      | some got =>
        let want := st.seen.filter fun id => (metaVisible st.s id).any fun m => m.any fun kv => kv.1 == k
        if sortIds got == sortIds want then (st, s!"ok n={got.length}")
        else (st, s!"SPECFAIL probeex[{via}] exists({k}) want={sortIds want} got={sortIds got}")
      | none => (st, "BADOP probeex ids")
    | _ => (st, s!"SPECFAIL probeex[{via}] failed: {post}")
  | _ => (st, "BADOP unknown")

def handler : Handler := { name := "atomic", σ := St, init := init, op := op }

end Comet.Driver.AtomicStream
