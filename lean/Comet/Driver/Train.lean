/-
  Stream `train` (C20): k-means training, the training glue of IVF / PQ / IVFPQ, and the
  three scalar quantisers, executed by the Go code and re-executed here on the
  `Float32` instance of the scalar-generic models (Comet/KMeans.lean, Comet/Quant.lean)
  — centroids, assignments, codebooks, quantised and dequantised values compared BIT FOR
  BIT — and the property's clauses evaluated exactly on the IMPLEMENTATION's outputs:

    count            #centroids = min(k, n); (nil, nil) iff n = 0 or k ≤ 0
    finite           every centroid coordinate is finite
    bbox             (Euclidean-family metrics) every centroid coordinate lies in the
                     coordinate's [min, max] over the training vectors, widened by the
                     float32 slack (n+2)·2⁻²⁴·max(|min|,|max|): the rounded mean of n
                     numbers can leave their hull by that much; the exact statement is
                     theorem `kmeans_bbox` over ordered fields
    assign_valid     one assignment per vector, each in [0, #centroids)
    converged_nearest  when the run converged (the model's ghost flag; model and
                     implementation centroids agree bit for bit) no centroid is nearer
                     to a vector than its assigned one
    deterministic    running twice gives identical bits; input_unchanged
    twice_trained    two indexes trained on the same data — also when one of them had been
                     trained on other data before (`iretrain`) — hold identical centroids /
                     codebooks and answer every query identically (score sequences equal;
                     id sets equal within every score group that `k` did not cut — Go's
                     aggregation iterates over a map, so the order inside a tie is free)
    quantisers       length preserved, input unchanged; float32 exact; float16 = the
                     model's round-to-nearest-even of the exact value, |x'−x| ≤ 2⁻¹¹|x| on
                     the normal range; int8 = round-half-away(x/absMax·127) in float32,
                     |x'−x| ≤ absMax/254 for |x| ≤ absMax (cases that need the float32
                     slack absMax·2⁻²¹ on top are counted as `f32slack`), untrained → error
                     both ways.
    instances        quantizers come from `NewQuantizer` (all kinds; unknown kinds are
                     refused) or from the struct literals; several int8 quantizers in one
                     process are independent: training / SetAbsMax on one leaves the others
                     untrained and refusing, a second one trained with another range does
                     not rescale the first, each reconstructs within its OWN absMax/254;
                     Type / IsTrained / the no-op Train of the stateless kinds; wrong stored
                     types are refused
    pqparams         `CalculatePQParams` = the model's value; whether `NewPQIndex` accepts it
                     is compared with the model and histogrammed (`divides`)
-/
import Comet.Driver.Dist
import Comet.KMeans
import Comet.Quant
namespace Comet.Driver.TrainStream
open Comet Comet.Driver Comet.Dist Comet.KMeans Comet.Quant Comet.Driver.DistStream

structure St where
  dummy : Unit := ()

def init (_ : List String) : Option St := some {}

def pints (s : String) : Option (List Int) :=
  if s == "-" then some [] else (s.splitOn ",").mapM String.toInt?
def hints (l : List Int) : String := if l.isEmpty then "-" else ",".intercalate (l.map toString)
def hvs (l : List V) : String := if l.isEmpty then "-" else ",".intercalate (l.map hv)

/-- exact |x| in units of 2⁻¹⁴⁹ -/
def mag (x : Float32) : Int := iabs (toInt x)

/-- coordinate-wise bounding box check with the float32 slack -/
def bboxOk (vs cs : List V) (n : Nat) : Bool :=
  match vs with
  | [] => true
  | v0 :: _ =>
    (List.range v0.length).all fun d =>
      let col := vs.map fun v => toInt (v.getD d 0)
      let lo := col.foldl (fun m x => if x < m then x else m) (col.headD 0)
      let hi := col.foldl (fun m x => if x > m then x else m) (col.headD 0)
      let mx := if iabs lo > iabs hi then iabs lo else iabs hi
      -- slack = (n+2)·2⁻²⁴·mx, compared after scaling by 2²⁴
      cs.all fun c =>
        let x := toInt (c.getD d 0)
        decide (lo * two24 - ((n : Int) + 2) * mx ≤ x * two24) && decide (x * two24 ≤ hi * two24 + ((n : Int) + 2) * mx)

/-- no centroid strictly nearer than the assigned one (float32 distances of the model) -/
def isMinimiser (kind : Kind) (v : V) (cs : List V) (a : Int) : Bool :=
  match cs[a.toNat]? with
  | none => false
  | some c =>
    let da := calculate f32 kind v c
    cs.all fun c' => !(f32.lt (calculate f32 kind v c') da)

def f32round (s : Float32) : Int := roundHalfAway (toRat s)

/-- value·2²⁴ of a binary16 bit pattern; `none` = Inf/NaN -/
def halfScaled (u : Nat) : Option Int :=
  let neg := u / 32768 == 1
  let e := (u / 1024) % 32
  let m := u % 1024
  if e == 31 then none else
  let mag : Nat := if e == 0 then m else (1024 + m) * 2 ^ (e - 1)
  some (if neg then -(mag : Int) else (mag : Int))

def signBit32 (x : Float32) : Bool := x.toBits.toNat / 2147483648 == 1

/-- what the model says the binary16 bits of `x` (finite) are, as (negative, scaled value or overflow) -/
def halfModel (x : Float32) : Bool × Option Int :=
  let r := halfRound (toRat x)
  (signBit32 x, if decide ((2 : Int) ^ 40 ≤ iabs r) then none else some (iabs r))

def halfImpl (u : Nat) : Bool × Option Int :=
  (u / 32768 == 1, (halfScaled u).map iabs)

def showHalf (p : Bool × Option Int) : String :=
  (if p.1 then "-" else "+") ++ (match p.2 with | none => "inf" | some v => toString v)

def tieGroupsEqual (k : Int) (total : Nat) (a b : List (Hit UInt32)) : Bool :=
  -- equal score sequences; equal id sets within every score group that k did not cut
  (a.map (·.score)) == (b.map (·.score)) &&
  (let cut : Bool := decide (k > 0) && decide (a.length < total)
   let lastScore := (a.getLast?.map (·.score))
   let grp (l : List (Hit UInt32)) (s : UInt32) : List Nat := ((l.filter (·.score == s)).map (·.id)).mergeSort (· ≤ ·)
   (a.map (·.score)).eraseDups.all fun s =>
     (cut && lastScore == some s) || grp a s == grp b s)


/-- `|x'−x| ≤ A/254` for every `|x| ≤ A` (exact), or within the float32 slack `A·2⁻²¹` on top -/
def int8Within (A : Int) (v d : V) (slack : Bool) : Bool :=
  (List.zipWith (fun (x y : Float32) =>
    !(decide (mag x ≤ A)) ||
      decide (iabs (toInt y - toInt x) * 254 * 2097152 ≤ A * 2097152 + (if slack then A * 254 else 0))) v d).all id

/-- `<ints>;<vec>` or `untrained` -/
def showUse (q : Option (List Int)) (d : Option V) : String :=
  match q, d with
  | some q, some d => hints q ++ ";" ++ hv d
  | _, _ => "untrained"

def probeTok (trained : Bool) : String := if trained then "100" else "011"

def splitBar (l : List String) : List (List String) :=
  let rec go (fuel : Nat) (l : List String) (acc : List (List String)) : List (List String) :=
    match fuel with
    | 0 => acc.reverse
    | fuel + 1 =>
      let a := l.takeWhile (· != "|")
      let rest := l.dropWhile (· != "|")
      match rest with
      | [] => (a :: acc).reverse
      | _ :: t => go fuel t (a :: acc)
  go (l.length + 1) l []

def op (st : St) (toks : List String) : St × String :=
  let (pre, post) := splitOutcome toks
  -- `iretrain`: the first copy was trained before on other data, the second is fresh; same clauses
  let retrain := pre.head? == some "iretrain"
  let pre := if retrain then "itrain" :: pre.drop 1 else pre
  match pre with
  | ["kmeans", fn, metric, k, mi, vs] =>
    match Kind.parse metric, k.toInt?, mi.toInt?, pvs vs with
    | some kind, some k, some mi, some vs =>
      let kind := if fn == "sub" then Kind.l2sq else kind
      let model := kmeansKind f32 kind vs k mi
      let n := vs.length
      match post, model with
      | ["nil", det, unch], none =>
        (st, verdict [("deterministic", det == "1"), ("input_unchanged", unch == "1"),
          ("nil_cases", n == 0 || decide (k ≤ 0))] none s!"nil=1 n={n}")
      | ["nil", _, _], some _ => (st, s!"SPECFAIL count nil-but-n={n}-k={k}")
      | [cs, asg, nidx, det, unch], m =>
        match pvs cs, pints asg, pints nidx with
        | some ics, some iasg, some inidx =>
          let kk : Nat := if k.toNat > n then n else k.toNat
          let (diff, conv, iters) : Option String × Bool × Nat := match m with
            | none => (some "model=nil impl=centroids", false, 0)
            | some r =>
              (firstDiff [cmpTok "centroids" (hvs r.centroids) (hvs ics), cmpTok "assignments" (hints r.mapping) (hints iasg),
                cmpTok "FindNearestCentroidIndex" (hints (vs.map fun v => (nearest f32 (calculate f32 kind) v ics : Int))) (hints inidx)],
               r.converged && hvs r.centroids == hvs ics, r.iters)
          let fin := vs.all allFinite
          let rect := match vs with | [] => true | v0 :: _ => vs.all (·.length == v0.length)
          let euclidFamily := kind != .cos
          let checks : List (String × Bool) := [
            ("nil_cases", decide (k > 0) && n > 0),
            ("count", ics.length == kk),
            ("centroid_dim", !rect || ics.all fun c => c.length == (vs.headD []).length),
            ("finite", !fin || ics.all allFinite),
            ("assign_valid", iasg.length == n && iasg.all fun a => decide (0 ≤ a) && decide (a < (ics.length : Int))),
            ("bbox", !(fin && rect && euclidFamily) || bboxOk vs ics n),
            ("converged_nearest", !conv || (List.zipWith (fun v a => isMinimiser kind v ics a) vs iasg).all id),
            ("deterministic", det == "1"),
            ("input_unchanged", unch == "1")]
          let used := (List.range ics.length).filter fun (j : Nat) => iasg.contains (Int.ofNat j)
          let empty := used.length < ics.length
          let dup := decide ((vs.map hv).eraseDups.length < n)
          (st, verdict checks diff s!"n={n} k={ics.length} conv={b01 conv} iters={iters} empty={b01 empty} kgtn={b01 (decide (k > n))} keqn={b01 (decide (k = n))} dup={b01 dup} cos={b01 (kind == .cos)} sub={b01 (fn == "sub")} maxiter_nonpos={b01 (decide (mi ≤ 0))}")
        | _, _, _ => (st, "BADOP kmeans outcome parse")
      | _, _ => (st, "BADOP kmeans outcome")
    | _, _, _, _ => (st, "BADOP kmeans")
  | ["itrain", typ, metric, p1, p2, p3, vs] =>
    match Kind.parse metric, p1.toNat?, p2.toNat?, p3.toNat?, pvs vs with
    | some kind, some p1, some p2, some p3, some vs =>
      let dim := (vs.headD []).length
      -- model: (centroids, codebooks)
      let model : Option (List V × List V) :=
        if typ == "ivf" then (ivfTrain f32 kind p1 vs).map fun c => (c, [])
        else if typ == "pq" then
          (if vs.length < 2 ^ p3 then none else (pqCodebooks f32 p2 (2 ^ p3) (dim / p2) vs).map fun cb => ([], cb))
        else ivfpqTrain f32 kind p1 p2 (2 ^ p3) (dim / p2) vs
      match post, model with
      | ["err", detst, unch], none =>
        (st, verdict [("twice_trained_same_state", detst == "1"), ("input_unchanged", unch == "1")] none s!"trainerr=1 retrain={b01 retrain}")
      | ["err", _, _], some _ => (st, "DIFF itrain model=ok impl=err")
      | ["ok", cs, cb, detst, unch], m =>
        match pvs cs, pvs cb with
        | some ics, some icb =>
          let diff := match m with
            | none => some "itrain model=err impl=ok"
            | some (mc, mcb) => firstDiff [cmpTok "centroids" (hvs mc) (hvs ics), cmpTok "codebooks" (hvs mcb) (hvs icb)]
          (st, verdict [("twice_trained_same_state", detst == "1"), ("input_unchanged", unch == "1")] diff
            s!"n={vs.length} ivf={b01 (typ == "ivf")} pq={b01 (typ == "pq")} ivfpq={b01 (typ == "ivfpq")} retrain={b01 retrain}")
        | _, _ => (st, "BADOP itrain outcome parse")
      | _, _ => (st, "BADOP itrain outcome")
    | _, _, _, _, _ => (st, "BADOP itrain")
  | ["iadd", _, _] =>
    match post with
    -- same outcome = both accept or both refuse (the class of the error is informational: Proto.sameOutcome)
    | [ea, eb] => (st, verdict [("twice_trained_same_add", sameOutcome ea eb)] none s!"adderr={b01 (ea != "ok")}")
    | _ => (st, "BADOP iadd outcome")
  | ["isearch", k, _np, total, _q] =>
    match k.toInt?, total.toNat? with
    | some k, some total =>
      let a := post.takeWhile (· != "|")
      let b := (post.dropWhile (· != "|")).drop 1
      match a, b with
      | ["err", _], ["err", _] => (st, verdict [("twice_trained_search_identical", true)] none "searcherr=1")
      | "ok" :: ha, "ok" :: hb =>
        match ha.mapM parseHit32, hb.mapM parseHit32 with
        | some ha, some hb =>
          let lits := ha == hb
          (st, verdict [("twice_trained_search_identical", tieGroupsEqual k total ha hb)] none
            s!"hits={ha.length} literal={b01 lits} nonempty={b01 (!ha.isEmpty)}")
        | _, _ => (st, "BADOP isearch hits")
      | _, _ => (st, "SPECFAIL twice_trained_search_identical one-errs-other-not")
    | _, _ => (st, "BADOP isearch")
  | ["qfull", via, v] =>
    match pv v, post with
    | some v, [q, d, unch, fresh, typ, trained, wrongRefused] =>
      match pv q, pv d with
      | some iq, some idq =>
        (st, verdict [("q_full_exact", hv idq == hv v && hv iq == hv v), ("q_len_preserved", iq.length == v.length && idq.length == v.length),
          ("input_unchanged", unch == "1"), ("fresh_copy", fresh == "1"),
          ("q_full_type_trained", typ == "float32" && trained == "1"), ("q_wrong_stored_type_refused", wrongRefused == "1")] none
          s!"n={v.length} factory={b01 (via == "factory")}")
      | _, _ => (st, "BADOP qfull outcome parse")
    | _, _ => (st, "BADOP qfull")
  | ["qhalf", via, v] =>
    match pv v, post with
    | some v, [q, d, unch, typ, trained, wrongRefused] =>
      match (if q == "-" then some [] else (q.splitOn ",").mapM parseHex), pv d with
      | some iq, some idq =>
        if !(allFinite v) then (st, "UNSUPPORTED qhalf non-finite input") else
        let mq := v.map halfModel
        let diffq := cmpTok "float16" (" ".intercalate (mq.map showHalf)) (" ".intercalate ((iq.map halfImpl).map showHalf))
        -- dequantised: exactly the binary16 value (the widening conversion is exact)
        let deqOk := (List.zipWith (fun (u : Nat) (y : Float32) =>
            match halfScaled u with
            | none => !(finite32 y) && (signBit32 y == (u / 32768 == 1))
            | some s => finite32 y && decide (toInt y = s * (2 : Int) ^ 125) && (signBit32 y == (u / 32768 == 1))) iq idq).all id
        let diff := firstDiff [diffq, if deqOk then none else some "dequantised ≠ value of the stored binary16"]
        let normal (x : Float32) : Bool := decide ((2 : Int) ^ 135 ≤ mag x) && decide (mag x ≤ 65504 * (2 : Int) ^ 149)
        let errOk := (List.zipWith (fun (x y : Float32) =>
            !(normal x) || (finite32 y && decide (iabs (toInt y - toInt x) * 2048 ≤ mag x))) v idq).all id
        let nNormal := (v.filter normal).length
        (st, verdict [("q_len_preserved", iq.length == v.length && idq.length == v.length), ("input_unchanged", unch == "1"),
          ("q_half_error", errOk), ("q_half_type_trained", typ == "float16" && trained == "1"),
          ("q_wrong_stored_type_refused", wrongRefused == "1")] diff
          s!"n={v.length} factory={b01 (via == "factory")} normal={nNormal} subnormal={b01 (v.any fun x => !(normal x) && decide (mag x < (2 : Int) ^ 135) && !(x == 0))} overflow={b01 (mq.any fun p => p.2.isNone)}")
      | _, _ => (st, "BADOP qhalf outcome parse")
    | _, _ => (st, "BADOP qhalf")
  | ["qint8", via, tv, v] =>
    match pvs tv, pv v with
    | some tv, some v =>
      let mA := trainAbsMax f32 tv
      match post with
      | ["untrained", amax, deqerr, unch, typ] =>
        let diff := firstDiff [cmpTok "absMax" (hx mA) amax,
          cmpTok "trained" (b01 (isTrained f32 mA)) "0"]
        (st, verdict [("q_int8_untrained_err", deqerr == "1"), ("input_unchanged", unch == "1"), ("q_int8_type", typ == "int8")] diff
          s!"untrained=1 factory={b01 (via == "factory")}")
      | [amax, q, d, unch, typ] =>
        match pf amax, pints q, pv d with
        | some iA, some iq, some idq =>
          let mq := quantInt8 f32 f32round mA v
          let md := deqInt8 f32 mA iq
          let diff := firstDiff [cmpTok "absMax" (hx mA) (hx iA),
            cmpTok "quantized" (match mq with | none => "untrained" | some l => hints l) (hints iq),
            cmpTok "dequantized" (match md with | none => "untrained" | some l => hv l) (hv idq)]
          let A := mag iA
          -- |x'−x| ≤ A/254 exactly, or within the float32 slack A·2⁻²¹ on top
          let within (x y : Float32) (slack : Bool) : Bool :=
            !(decide (mag x ≤ A)) ||
              decide (iabs (toInt y - toInt x) * 254 * 2097152 ≤ A * 2097152 + (if slack then A * 254 else 0))
          let exactOk := (List.zipWith (fun x y => within x y false) v idq).all id
          let slackOk := (List.zipWith (fun x y => within x y true) v idq).all id
          let inside := (v.filter fun x => decide (mag x ≤ A)).length
          (st, verdict [("q_int8_trained_iff_absmax_pos", decide (toInt iA > 0)),
            ("q_len_preserved", iq.length == v.length && idq.length == v.length), ("input_unchanged", unch == "1"),
            ("q_int8_type", typ == "int8"), ("q_int8_error", slackOk)] diff
            s!"n={v.length} factory={b01 (via == "factory")} inside={inside} f32slack={b01 (!exactOk)} outside={b01 (inside < v.length)}")
        | _, _, _ => (st, "BADOP qint8 outcome parse")
      | _ => (st, "BADOP qint8 outcome")
    | _, _ => (st, "BADOP qint8")
  | ["qmulti", via, cnt, mode, arg, tvB, v] =>
    match cnt.toNat?, pvs tvB, pv v with
    | some n, some tvB, some v =>
      -- absMax the first quantizer gets: trained on `arg`, or set to it
      let mA? : Option Float32 := if mode == "set" then pf arg else (pvs arg).map (trainAbsMax f32)
      match mA?, splitBar post with
      | some mA, [[distinct, types, pre], [amax1, mid], [amax2], [r0], [r1], [last, unch], [amax3], [amaxR, r0b]] =>
        match pfs amax1, pfs amax2, pfs amax3, pfs amaxR with
        | some ia1, some ia2, some ia3, some iaR =>
          let mB := trainAbsMax f32 tvB
          let zero : Float32 := 0
          let others := List.replicate (n - 2) zero
          let exp1 := mA :: zero :: others
          let exp2 := mA :: mB :: others
          let use (A : Float32) : String :=
            showUse (quantInt8 f32 f32round A v) ((quantInt8 f32 f32round A v).bind fun q => deqInt8 f32 A q)
          let diff := firstDiff [cmpTok "absMax-after-first" (hfs exp1) (hfs ia1), cmpTok "absMax-after-second" (hfs exp2) (hfs ia2),
            cmpTok "first-quantizer" (use mA) r0, cmpTok "second-quantizer" (use mB) r1,
            cmpTok "absMax-after-retraining-first" (hfs (mB :: mB :: others)) (hfs iaR), cmpTok "first-quantizer-retrained" (use mB) r0b]
          -- property level, on the implementation's outputs
          let ownOk (r : String) (A : Float32) : Bool :=
            match r.splitOn ";" with
            | [_, d] => (match pv d with | some d => int8Within (mag A) v d true | none => false)
            | _ => r == "untrained" && !(isTrained f32 A)
          let a1 (i : Nat) : Float32 := ia1.getD i zero
          let a2 (i : Nat) : Float32 := ia2.getD i zero
          let allUntrained (s : String) (k : Nat) : Bool := s == ",".intercalate (List.replicate k "011")
          let checks : List (String × Bool) := [
            ("q_int8_type", types == ",".intercalate (List.replicate n "int8")),
            ("q_int8_fresh_untrained_refuses", allUntrained pre n),
            ("q_int8_instances_independent_after_first",
              ia1.length == n && ((ia1.drop 1).all fun x => x.toBits == 0) && allUntrained mid (n - 1)),
            ("q_int8_instances_independent_after_second",
              ia2.length == n && hx (a2 0) == hx (a1 0) && ((ia2.drop 2).all fun x => x.toBits == 0) && (last == "-" || last == "011")),
            ("q_int8_instances_independent_setabsmax",
              ia3.length == n && hfs (ia3.drop 1) == hfs (ia2.drop 1) && hfs (ia3.take 1) == "40500000"),
            ("q_int8_train_determined_by_its_argument (re-trained on the second's data: same range, same output)",
              iaR.length == n && hx (iaR.getD 0 zero) == hx (a2 1) && r0b == r1 && hfs (iaR.drop 1) == hfs (ia2.drop 1)),
            ("q_int8_error_own_range_retrained", ownOk r0b (a2 1)),
            ("q_int8_error_own_range_first", ownOk r0 (a1 0)),
            ("q_int8_error_own_range_second", ownOk r1 (a2 1)),
            ("input_unchanged", unch == "1")]
          (st, verdict checks diff s!"multi={n} distinct={distinct} factory={b01 (via == "factory")} setabsmax={b01 (mode == "set")} firsttrained={b01 (isTrained f32 mA)} secondtrained={b01 (isTrained f32 mB)}")
        | _, _, _, _ => (st, "BADOP qmulti outcome parse")
      | _, _ => (st, "BADOP qmulti outcome")
    | _, _, _ => (st, "BADOP qmulti")
  | ["qnew", kind] =>
    let valid := kind == "float32" || kind == "float16" || kind == "int8"
    match post with
    | ["ok", typ] => (st, verdict [("q_new_known_kind", valid && typ == kind)] none s!"known=1")
    | ["err", isnil] => (st, verdict [("q_new_unknown_kind_refused", !valid && isnil == "1")] none s!"unknownkind=1")
    | _ => (st, "BADOP qnew outcome")
  | ["pqparams", dim] =>
    match dim.toInt?, post with
    | some dim, [m, nb, ctor] =>
      let (mm, mnb) := calcPQParams dim
      let divides := decide (dim % (mm : Int) = 0)
      let mctor := if decide (dim > 0) && divides then "ok" else "err"
      let diff := firstDiff [cmpTok "M" (toString mm) m, cmpTok "Nbits" (toString mnb) nb, cmpTok "NewPQIndex" mctor ctor]
      (st, verdict [] diff s!"divides={b01 divides} usable={b01 (ctor == "ok")} positive={b01 (decide (dim > 0))}")
    | _, _ => (st, "BADOP pqparams")
  | _ => (st, "BADOP unknown")

def handler : Handler := { name := "train", σ := St, init := init, op := op }

end Comet.Driver.TrainStream
