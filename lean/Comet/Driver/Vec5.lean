/-
  Stream `vec5` (C02): one history applied to the five vector index kinds side by side.
  The driver keeps only the SPECIFICATION (the live (id, preprocessed vector) list and the
  tombstones) and judges every implementation answer with the verified checker
  `Pipeline.checkSound` (`checkSound_iff`): live, eligible, within threshold, at most once,
  ascending, at most k, and — for flat / IVF / HNSW — carrying exactly the metric distance
  (bit for bit).  Node-id queries, multi-query aggregation and flush invariance are judged
  on the implementation's own answers.

    begin vec5 <dim> <metric>
    op add <id> <vec>     => flat:<o> hnsw:<o> ivf:<o> pq:<o> ivfpq:<o>
    op remove <id>        => …same…
    op flush              => …same…
    op search <kind> <k> <thr> <filter> q <vec> => ok hits… | err <e>
    op node <kind> <k> <thr> <filter> <id> ; <N outcome…> ; <V outcome…> => ok
    op multi <kind> <k> <agg> ; <hits q1…> ; <hits q2…> … => ok hits…
    op flushinv <kind> ; <hits before…> ; <hits after…> => ok
-/
import Comet.Driver.Proto
import Comet.Driver.Flat
import Comet.Vector.Pipeline
namespace Comet.Driver.Vec5Stream
open Comet Comet.Driver Comet.F32 Comet.Pipeline

structure St where
  kind : MetricKind
  dim : Nat
  live : List (Id × Vec)
  tomb : List Id            -- removed and not yet purged

def init (ps : List String) : Option St :=
  match ps with
  | [dim, metric] => do pure { kind := ← MetricKind.parse metric, dim := ← dim.toNat?, live := [], tomb := [] }
  | _ => none

def exactKind (k : String) : Bool := k == "flat" || k == "ivf" || k == "hnsw"

/-- all five kinds agree with `want` on success / failure.  Which error a kind reports (and in
    which words) is not part of the property: `sameOutcome` in Proto.lean. -/
def allOutcomes (post : List String) (want : String) : Bool :=
  post.length == 5 && post.all fun t => match t.splitOn ":" with
    | [_, o] => sameOutcome o want | _ => false

/-- informational: the distinct error classes the harness attached to the five outcomes -/
def classFlags (post : List String) : String :=
  let cs := (post.filterMap fun t => match t.splitOn ":" with
    | [_, o] => if o == "ok" then none else some o | _ => none).eraseDups
  String.join (cs.map fun c => " " ++ classFlag c)

/-- split a token list at ";" -/
def splitSemi (toks : List String) : List (List String) :=
  let rec go (fuel : Nat) (ts : List String) (cur : List String) (acc : List (List String)) : List (List String) :=
    match fuel, ts with
    | 0, _ => (cur.reverse :: acc).reverse
    | _, [] => (cur.reverse :: acc).reverse
    | f + 1, t :: rest => if t == ";" then go f rest [] (cur.reverse :: acc) else go f rest (t :: cur) acc
  go (toks.length + 1) toks [] []

def sameSet (a b : List (Hit UInt32)) : Bool :=
  a.length == b.length && a.all (fun h => b.contains h)

def scoreList (sc : Scalar UInt32) (a : List (Hit UInt32)) : List UInt32 :=
  (a.map (·.score)).mergeSort sc.le

def op (st : St) (toks : List String) : St × String :=
  let m := metric st.kind
  let (pre, post) := splitOutcome toks
  match pre with
  | ["add", id, v] =>
    match id.toNat?, parseVec v with
    | some id, some v =>
      if st.live.any (·.1 == id) then (st, "UNSUPPORTED add-of-live-id") else
      let want := if v.size ≠ st.dim then "dim" else match m.pre v with | none => "zero" | some _ => "ok"
      let st' := match (if v.size ≠ st.dim then none else m.pre v) with
        | some v' => { st with live := st.live ++ [(id, v')],
                               tomb := if st.tomb.contains id then [] else st.tomb }
        | none => st
      if allOutcomes post want then (st', if want == "ok" then "ok" else "ok rejected=1" ++ classFlags post)
      else (st', s!"SPECFAIL add: expected {want} from every kind, got {post}")
    | _, _ => (st, "BADOP add")
  | ["remove", id] =>
    match id.toNat? with
    | some id =>
      let isLive := st.live.any (·.1 == id)
      let want := if isLive then "ok" else if st.tomb.contains id then "deleted" else "notfound"
      let st' := if isLive then { st with live := st.live.filter (·.1 != id), tomb := id :: st.tomb } else st
      -- a rejected Remove must be an error in every kind; which error (it depends on when the kind
      -- purged its tombstones: HNSW also purges when a new vertex meets a soft-deleted entry
      -- point) and in which words is not part of the property
      if allOutcomes post want then
        (st', if want == "ok" then "ok removed=1" else "ok rejected=1" ++ classFlags post)
      else (st', s!"SPECFAIL remove: expected {want} from every kind, got {post}")
    | none => (st, "BADOP remove")
  | ["flush"] =>
    let st' := { st with tomb := [] }
    if allOutcomes post "ok" then (st', "ok") else (st', s!"SPECFAIL flush: {post}")
  | ["search", kind, k, thr, filt, "q", q] =>
    match parseInt k, parseU32 thr, parseIds filt, parseVec q with
    | some k, some thr, some filt, some q =>
      let wantErr : Option String := if q.size ≠ st.dim then some "dim" else
        match m.pre q with | none => some "zero" | some _ => none
      match post, wantErr, m.pre q with
      | ["err", e], some _, _ => (st, agreedErr e)   -- an invalid query must fail; with which error is free
      | ["err", e], none, _ => (st, s!"SPECFAIL search[{kind}] failed ({e}) on a valid query")
      | "ok" :: hits, some w, _ =>
        -- an empty answer to an invalid query is vacuously sound (HNSW / PQ return early on an empty index)
        if hits.isEmpty then (st, "ok err") else (st, s!"SPECFAIL search[{kind}] answered an invalid query (expected {w}) with hits")
      | "ok" :: hits, none, some q' =>
        match hits.mapM parseHit32 with
        | some res =>
          let scoreOK : Vec → UInt32 → Bool :=
            if exactKind kind then fun v s => s == m.dist q' v else fun _ _ => true
          if checkSound m.sc scoreOK st.live filt thr k res then
            (st, s!"ok n={res.length} live={st.live.length} thr={if m.sc.lt m.sc.zero thr then 1 else 0} filt={if filt.isEmpty then 0 else 1}")
          else
            -- say which clause failed
            let why :=
              if !(res.all fun h => st.live.any fun p => p.1 == h.id) then "a hit is not a live vector"
              else if !(res.all fun h => st.live.any fun p => p.1 == h.id && scoreOK p.2 h.score) then "a hit does not carry the metric distance to its stored vector"
              else if !(res.all fun h => Flat.eligible filt h.id) then "a hit is outside the id restriction"
              else if !(res.all fun h => !Flat.thrSkip m.sc thr h.score) then "a hit is beyond the threshold"
              else if !nodupB (res.map (·.id)) then "an id appears twice"
              else if !sortedB m.sc.le res then "not in ascending score order"
              else "more than k hits"
            (st, s!"SPECFAIL search[{kind}]: {why}")
        | none => (st, "BADOP search hits")
      | _, _, _ => (st, "BADOP search outcome")
    | _, _, _, _ => (st, "BADOP search args")
  | "node" :: kind :: _k :: _thr :: _filt :: id :: ";" :: rest =>
    match parseIds id, splitSemi rest with
    | some idl, [n, v] =>
      -- one or several node ids: all must be live for the search to succeed
      let isLive := idl.all fun id => st.live.any (·.1 == id)
      match n, v with
      | "err" :: _, "err" :: _ => (st, "ok err")   -- e.g. an invalid extra query vector: both forms fail alike
      | "err" :: e :: _, _ =>
        if isLive then (st, s!"SPECFAIL node[{kind}] query of live id {id} failed ({e})")
        else (st, "ok err")   -- the property demands an error, not a particular wording
      | "ok" :: nh, "ok" :: vh =>
        if !isLive then (st, s!"SPECFAIL node[{kind}] query of unknown/removed id {id} succeeded")
        else match nh.mapM parseHit32, vh.mapM parseHit32 with
          | some a, some b =>
            -- both are valid answers of the same search: equal score lists (ids may differ
            -- inside a tie at the k-th place, Go map order)
            if sameSet a b || scoreList m.sc a == scoreList m.sc b then (st, s!"ok n={a.length} node=1")
            else (st, s!"SPECFAIL node[{kind}] id {id}: node query and stored-vector query differ: node={showHits32 a} vector={showHits32 b}")
          | _, _ => (st, "BADOP node hits")
      | "ok" :: _, "err" :: _ => (st, s!"DIFF node[{kind}]: stored-vector query failed")
      | _, _ => (st, "BADOP node outcome")
    | _, _ => (st, "BADOP node")
  | "multi" :: kind :: k :: agg :: ";" :: rest =>
    match parseInt k, FlatStream.parseAgg agg, post with
    | some k, some agg, "ok" :: hits =>
      match (splitSemi rest).mapM (fun seg => (seg.drop 1).mapM parseHit32), hits.mapM parseHit32 with
      | some per, some res =>
        let all := per.flatten
        let c := if all.isEmpty then all else vecAggregate m.sc agg all
        if checkTopK m.sc.le k c res then (st, s!"ok n={res.length} multi=1 nq={per.length}")
        else (st, s!"SPECFAIL multi[{kind}] {per.length} queries: answer is not the first k of the {repr agg} aggregation of the per-query answers: {FlatStream.diagnose m.sc k c res}")
      | _, _ => (st, "BADOP multi hits")
    | _, _, _ => (st, "BADOP multi")
  | "flushinv" :: kind :: ";" :: rest =>
    match (splitSemi rest).mapM (fun seg => (seg.drop 1).mapM parseHit32) with
    | some [a, b] =>
      if scoreList m.sc a == scoreList m.sc b then (st, s!"ok n={a.length} flushinv=1")
      else (st, s!"SPECFAIL flushinv[{kind}]: flushing changed a search answer: before={showHits32 a} after={showHits32 b}")
    | _ => (st, "BADOP flushinv")
  | _ => (st, "BADOP unknown")

def handler : Handler := { name := "vec5", σ := St, init := init, op := op }

end Comet.Driver.Vec5Stream
