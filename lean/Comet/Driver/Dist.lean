/-
  Stream `dist` (C18): every function of distance.go, executed by the Go code on
  generated pairs / triples and re-executed here on the `Float32` instance of the
  scalar-generic model (Comet/Distance.lean) — compared BIT FOR BIT — and the laws of
  the property themselves evaluated on the IMPLEMENTATION's outputs, exactly (integer
  arithmetic on the exact values of the float32 bit patterns), with the stated
  float32 forward-error envelopes.  The second part is numerical validation (a test):
  it is what makes a failing pair / triple a concrete replay.

  Envelopes (u = 2⁻²⁴, n = dimension), standard forward-error analysis, NOT proved in Lean:
    triangle        d(a,c) ≤ (d(a,b)+d(b,c))·(1+(n+8)u) + 2⁻⁶⁸
    square          |euclid² − l2sq| ≤ 4u·l2sq
    norm            |Norm(v)² − Σvᵢ²| ≤ (n+8)u·Σvᵢ² + n·2⁻¹⁴⁹
    unit            |Σ pᵢ² − 1| ≤ (n+12)u          for p = Preprocess / Normalize output
    cosine formula  |d − (1 − ⟪a,b⟫/(‖a‖‖b‖))| ≤ (2n+14)u    (exact, no square root taken)
    scale invar.    |d(pre(s·a),pre b) − d(pre a,pre b)| ≤ (4n+32)u
    self (cosine)   0 ≤ d(pre a, pre a) ≤ (2n+14)u
  exact (no envelope): non-negativity, symmetry (bits), d(x,x) = +0 for the L2 kinds,
  range [0,2] of cosine on arbitrary finite input, batch = element-wise (bits),
  argument buffers unchanged, L2 Preprocess returns its argument, zero ⇔ rejected.
  The envelope laws are evaluated when every vector involved is "in range": finite and
  zero or with largest magnitude in [2⁻⁴⁰, 2⁴⁰] (the property's 1e-6..1e6 lies inside);
  other cases (overflow / underflow of the squares) are compared bit for bit only.
-/
import Comet.Driver.Proto
import Comet.DistanceF32
namespace Comet.Driver.DistStream
open Comet Comet.Driver Comet.Dist

abbrev V := List Float32

def pv (s : String) : Option V := (parseVec s).map Array.toList
def hv (v : V) : String := if v.isEmpty then "-" else String.join (v.map fun x => hex32 x.toBits)
def hx (x : Float32) : String := hex32 x.toBits
def pf (s : String) : Option Float32 := (parseU32 s).map Float32.ofBits

/-- `a,b,c` list of vectors; "-" = empty list -/
def pvs (s : String) : Option (List V) :=
  if s == "-" then some [] else (s.splitOn ",").mapM pv
def pfs (s : String) : Option (List Float32) :=
  if s == "-" then some [] else (s.splitOn ",").mapM pf
def hfs (l : List Float32) : String := if l.isEmpty then "-" else ",".intercalate (l.map hx)

def Q : Int := unitQ
def two24 : Int := 16777216

def iabs (x : Int) : Int := if x < 0 then -x else x

def allFinite (v : V) : Bool := v.all finite32
def allZero (v : V) : Bool := v.all fun x => x == 0
def maxMag (v : V) : Int := v.foldl (fun m x => let a := iabs (toInt x); if a > m then a else m) 0

/-- finite and (zero or largest magnitude within [2⁻⁴⁰, 2⁴⁰]) -/
def inRange (v : V) : Bool :=
  allFinite v && (allZero v || (let m := maxMag v; decide ((2:Int) ^ 109 ≤ m) && decide (m ≤ (2:Int) ^ 189)))

/-- exact Σ xᵢ² in units of 2⁻²⁹⁸ -/
def sumSqI (v : V) : Int := v.foldl (fun s x => let a := toInt x; s + a * a) 0
/-- exact Σ xᵢyᵢ in units of 2⁻²⁹⁸ -/
def dotI (a b : V) : Int := (List.zipWith (fun x y => toInt x * toInt y) a b).foldl (· + ·) 0

/-- `x·√P ≤ y` decided exactly (P ≥ 0) -/
def mulSqrtLe (x P y : Int) : Bool :=
  if x ≤ 0 then (if y ≥ 0 then true else decide (x * x * P ≥ y * y))
  else (if y < 0 then false else decide (x * x * P ≤ y * y))

/-- `|impl − (1 − D/√(Na·Nb))| ≤ env/2²⁴` with `t = 1 − impl` -/
def cosFormulaOk (d : Float32) (a b : V) (env : Int) : Bool :=
  let T := Q - toInt d
  let W := Q * two24
  let lo := T * two24 - env * Q
  let hi := T * two24 + env * Q
  let P := sumSqI a * sumSqI b
  let D := dotI a b * W
  -- lo/W ≤ Dot/√P ≤ hi/W
  mulSqrtLe lo P D && mulSqrtLe (-hi) P (-D)

def unitOk (p : V) (n : Nat) : Bool :=
  decide (iabs (sumSqI p - Q * Q) * two24 ≤ ((n : Int) + 12) * Q * Q)

def normOk (nrm : Float32) (v : V) (n : Nat) : Bool :=
  let N := toInt nrm
  let S := sumSqI v
  decide (iabs (N * N - S) * two24 ≤ ((n : Int) + 8) * S + (n : Int) * two24 * Q)

def sqOk (e s : Float32) : Bool :=
  let E := toInt e
  let S := toInt s
  decide (iabs (E * E - S * Q) * two24 ≤ 4 * S * Q)

def triOk (ab bc ac : Float32) (n : Nat) : Bool :=
  decide (toInt ac * two24 ≤ (toInt ab + toInt bc) * (two24 + (n : Int) + 8) + (2 : Int) ^ 105)

def nonneg (x : Float32) : Bool := finite32 x && decide (toInt x ≥ 0)
def in02 (x : Float32) : Bool := finite32 x && decide (toInt x ≥ 0) && decide (toInt x ≤ 2 * Q)

def kinds : List Kind := [.l2, .l2sq, .cos]

structure St where
  dim : Nat

def init (ps : List String) : Option St :=
  match ps with
  | dim :: _ => do pure ⟨← dim.toNat?⟩
  | _ => none

def b01 (b : Bool) : String := if b then "1" else "0"

/-- first failing law, if any -/
def firstFail (checks : List (String × Bool)) : Option String :=
  (checks.find? fun c => !c.2).map (·.1)

def verdict (fails : List (String × Bool)) (diff : Option String) (okmsg : String) : String :=
  match firstFail fails with
  | some law => s!"SPECFAIL {law}"
  | none =>
    match diff with
    | some d => s!"DIFF {d}"
    | none => s!"ok {okmsg}"

def optV (o : Option V) : String := match o with | none => "zero" | some v => hv v
def parseOptV (s : String) : Option (Option V) := if s == "zero" then some none else (pv s).map some
def optF (o : Option Float32) : String := match o with | none => "-" | some x => hx x
def parseOptF (s : String) : Option (Option Float32) := if s == "-" then some none else (pf s).map some

def cmpTok (name : String) (model impl : String) : Option String :=
  if model == impl then none else some s!"{name} model={model.take 64} impl={impl.take 64}"

def firstDiff (l : List (Option String)) : Option String := l.findSome? id

def op (st : St) (toks : List String) : St × String :=
  let (pre, post) := splitOutcome toks
  match pre with
  | ["calc", a, b] =>
    match pv a, pv b, (post.take 9).mapM pf with
    | some a, some b, some outs =>
      if outs.length != 9 || post.length != 10 then (st, "BADOP calc outcome") else
      let unch := post.getD 9 "0"
      let n := a.length
      let model : List Float32 := kinds.flatMap fun k =>
        [calculate f32 k a b, calculate f32 k b a, calculate f32 k a a]
      let diff := if (model.map hx) == (outs.map hx) then none
        else some s!"calc model={hfs model} impl={hfs outs}"
      -- the frozen transcription used by the index models (Comet/F32.lean) agrees with the generic instance
      let aa := a.toArray; let ba := b.toArray
      let frozen : List Float32 := [F32.euclid aa ba, F32.l2sq aa ba, F32.cosine aa ba]
      let generic : List Float32 := [calculate f32 .l2 a b, calculate f32 .l2sq a b, calculate f32 .cos a b]
      let diff := if frozen.map hx == generic.map hx then diff else some "F32.lean-vs-generic-instance"
      let o (i : Nat) : Float32 := outs.getD i 0
      let fin := allFinite a && allFinite b && outs.all finite32
      let rng := inRange a && inRange b
      let checks : List (String × Bool) := [
        ("calculate_never_modifies_arguments", unch == "1"),
        ("symm_l2", hx (o 0) == hx (o 1)), ("symm_l2sq", hx (o 3) == hx (o 4)), ("symm_cos", hx (o 6) == hx (o 7)),
        ("finite_in_range", !rng || outs.all finite32),
        ("nonneg_l2", !fin || (nonneg (o 0) && nonneg (o 2))),
        ("nonneg_l2sq", !fin || (nonneg (o 3) && nonneg (o 5))),
        ("self_l2", !fin || (o 2).toBits == 0), ("self_l2sq", !fin || (o 5).toBits == 0),
        ("cos_range", !fin || (in02 (o 6) && in02 (o 7) && in02 (o 8))),
        ("l2sq_eq_euclid_sq", !(fin && rng) || (sqOk (o 0) (o 3) && sqOk (o 1) (o 4)))]
      (st, verdict checks diff s!"n={n} oor={b01 (!rng)} fin={b01 fin}")
    | _, _, _ => (st, "BADOP calc")
  | ["calcp", k, a, b] =>
    match Kind.parse k, pv a, pv b with
    | some k, some a, some b =>
      let model := match calculate? f32 k a b with | none => "panic" | some x => hx x
      -- NaN payload/sign is not compared: `Float32.toBits` canonicalises NaN (out-of-quantifier inputs only)
      let impl := match post with
        | [t] => (match pf t with | some x => hx x | none => t)
        | _ => " ".intercalate post
      (st, verdict [] (cmpTok "calcp" model impl) s!"panic={b01 (model == "panic")}")
    | _, _, _ => (st, "BADOP calcp")
  | ["tri", a, b, c] =>
    match pv a, pv b, pv c, post.mapM pf with
    | some a, some b, some c, some outs =>
      if outs.length != 3 then (st, "BADOP tri outcome") else
      let model := [euclid f32 a b, euclid f32 b c, euclid f32 a c]
      let diff := if model.map hx == outs.map hx then none else some s!"tri model={hfs model} impl={hfs outs}"
      let fin := allFinite a && allFinite b && allFinite c && outs.all finite32
      let o (i : Nat) : Float32 := outs.getD i 0
      let checks := [("euclid_triangle", !fin || triOk (o 0) (o 1) (o 2) a.length)]
      let tight := fin && decide (toInt (o 2) * 1000 ≥ (toInt (o 0) + toInt (o 1)) * 999) && decide (toInt (o 2) > 0)
      (st, verdict checks diff s!"n={a.length} fin={b01 fin} tight={b01 tight}")
    | _, _, _, _ => (st, "BADOP tri")
  | ["cos", a, b, s, t] =>
    match pv a, pv b, pf s, pf t with
    | some a, some b, some s, some t =>
      match post with
      | [sa, tb, pa, pb, psa, ptb, dab, dsab, datb, daa, unch] =>
        match pv sa, pv tb, parseOptV pa, parseOptV pb, parseOptV psa, parseOptV ptb,
              parseOptF dab, parseOptF dsab, parseOptF datb, parseOptF daa with
        | some isa, some itb, some ipa, some ipb, some ipsa, some iptb,
          some idab, some idsab, some idatb, some idaa =>
          let n := a.length
          let msa := scale f32 a s
          let mtb := scale f32 b t
          let mpa := cosPre f32 a; let mpb := cosPre f32 b
          let mpsa := cosPre f32 msa; let mptb := cosPre f32 mtb
          let d2 (x y : Option V) : Option Float32 := do let x ← x; let y ← y; pure (cosine f32 x y)
          let diff := firstDiff [
            cmpTok "scale_a" (hv msa) (hv isa), cmpTok "scale_b" (hv mtb) (hv itb),
            cmpTok "pre_a" (optV mpa) (optV ipa), cmpTok "pre_b" (optV mpb) (optV ipb),
            cmpTok "pre_sa" (optV mpsa) (optV ipsa), cmpTok "pre_tb" (optV mptb) (optV iptb),
            cmpTok "d_ab" (optF (d2 mpa mpb)) (optF idab), cmpTok "d_sab" (optF (d2 mpsa mpb)) (optF idsab),
            cmpTok "d_atb" (optF (d2 mpa mptb)) (optF idatb), cmpTok "d_aa" (optF (d2 mpa mpa)) (optF idaa)]
          let rng := inRange a && inRange b && inRange isa && inRange itb &&
                     decide (s > 0) && decide (t > 0)
          let env : Int := 2 * n + 14
          let unitO (p : Option V) : Bool := match p with | none => true | some p => unitOk p n
          let lenO (p : Option V) : Bool := match p with | none => true | some p => p.length == n
          let formula : Bool := match ipa, ipb, idab with
            | some _, some _, some d => cosFormulaOk d a b env
            | _, _, _ => true
          let inv (d1 d2 : Option Float32) : Bool := match d1, d2 with
            | some x, some y => decide (iabs (toInt x - toInt y) * two24 ≤ (4 * (n : Int) + 32) * Q)
            | _, _ => true
          let selfO : Bool := match idaa with
            | some d => nonneg d && decide (toInt d * two24 ≤ env * Q)
            | none => true
          let rangeO (d : Option Float32) : Bool := match d with | some d => in02 d | none => true
          let checks : List (String × Bool) := [
            ("pre_never_modifies_argument", unch == "1"),
            ("pre_len", lenO ipa && lenO ipb && lenO ipsa && lenO iptb),
            ("pre_zero_rejected", !(allZero a) || ipa.isNone),
            ("pre_zero_rejected_b", !(allZero b) || ipb.isNone),
            ("pre_nonzero_accepted", !rng || allZero a || ipa.isSome),
            ("pre_nonzero_accepted_b", !rng || allZero b || ipb.isSome),
            ("cos_range", rangeO idab && rangeO idsab && rangeO idatb && rangeO idaa),
            ("pre_unit", !rng || (unitO ipa && unitO ipb && unitO ipsa && unitO iptb)),
            ("cosine_eq_one_sub_cos", !rng || formula),
            ("cosine_scale_invariant_a", !rng || inv idab idsab),
            ("cosine_scale_invariant_b", !rng || inv idab idatb),
            ("cosine_self_zero", !rng || selfO)]
          let near : Bool := match idab with
            | some d => decide (toInt d * 1000000 ≤ Q) | none => false
          let opp : Bool := match idab with
            | some d => decide (toInt d * 1000 ≥ 1999 * Q) | none => false
          (st, verdict checks diff s!"n={n} oor={b01 (!rng)} zero={b01 (ipa.isNone || ipb.isNone)} nearpar={b01 near} opposite={b01 opp}")
        | _, _, _, _, _, _, _, _, _, _ => (st, "BADOP cos outcome parse")
      | _ => (st, "BADOP cos outcome")
    | _, _, _, _ => (st, "BADOP cos")
  | ["batch", k, t, qs] =>
    match Kind.parse k, pv t, pvs qs with
    | some k, some t, some qs =>
      match post with
      | [ds, es, unch] =>
        match pfs ds, pfs es with
        | some ds, some es =>
          let mb := calculateBatch f32 k qs t
          let diff := firstDiff [cmpTok "batch" (hfs mb) (hfs ds),
            cmpTok "elementwise" (hfs (qs.map fun q => calculate f32 k q t)) (hfs es)]
          let checks := [("batch_eq_elementwise", hfs ds == hfs es), ("batch_len", ds.length == qs.length),
            ("batch_never_modifies_arguments", unch == "1")]
          (st, verdict checks diff s!"m={qs.length} n={t.length} empty={b01 qs.isEmpty}")
        | _, _ => (st, "BADOP batch outcome parse")
      | _ => (st, "BADOP batch outcome")
    | _, _, _ => (st, "BADOP batch")
  | ["pre", k, a] =>
    match Kind.parse k, pv a with
    | some k, some a =>
      match post with
      | [out, alias, unch, ist, ibuf] =>
        match parseOptV out, pv ibuf with
        | some iout, some ibuf =>
          let m := preprocess f32 k a
          -- in place: the new buffer content; on error the buffer is untouched
          let mbuf := match m with | none => a | some v => v
          let mst := if m.isNone then "zero" else "ok"
          let malias := if k == .cos then "0" else "1"
          let diff := firstDiff [cmpTok "preprocess" (optV m) (optV iout), cmpTok "alias" malias alias,
            cmpTok "inplace_status" mst ist, cmpTok "inplace_buf" (hv mbuf) (hv ibuf)]
          let rng := inRange a
          let n := a.length
          let checks : List (String × Bool) := [
            ("pre_never_modifies_argument", unch == "1"),
            ("pre_l2_identity", k == .cos || (optV iout == hv a || (a.isEmpty && optV iout == "-")) && hv ibuf == hv a),
            ("pre_zero_rejected", k != .cos || !(allZero a) || (iout.isNone && ist == "zero" && hv ibuf == hv a)),
            ("pre_nonzero_accepted", k != .cos || !rng || allZero a || (iout.isSome && ist == "ok")),
            ("pre_unit", k != .cos || !rng || iout.isNone || unitOk ibuf n)]
          (st, verdict checks diff s!"n={n} oor={b01 (!rng)} zero={b01 m.isNone} cos={b01 (k == .cos)}")
        | _, _ => (st, "BADOP pre outcome parse")
      | _ => (st, "BADOP pre outcome")
    | _, _ => (st, "BADOP pre")
  | ["helpers", a, s] =>
    match pv a, pf s with
    | some a, some s =>
      match post with
      | [nrm, sc, nz, nzbuf, unch] =>
        match pf nrm, pv sc, pv nz, pv nzbuf with
        | some inrm, some isc, some inz, some inzbuf =>
          let n := a.length
          let diff := firstDiff [cmpTok "Norm" (hx (norm f32 a)) (hx inrm), cmpTok "Scale" (hv (scale f32 a s)) (hv isc),
            cmpTok "Normalize" (hv (normalize f32 a)) (hv inz), cmpTok "NormalizeInPlace" (hv (normalize f32 a)) (hv inzbuf)]
          let rng := inRange a
          let z := allZero a
          let checks : List (String × Bool) := [
            ("helpers_fresh_result_argument_unchanged", unch == "1"),
            ("norm_def", !rng || (nonneg inrm && normOk inrm a n)),
            ("scale_def", isc.length == n && (List.zipWith (fun x y => hx (x * s) == hx y) a isc).all id),
            ("normalize_len", inz.length == n && inzbuf.length == n),
            ("normalize_zero", !z || (hv inz == hv a && hv inzbuf == hv a)),
            ("normalize_unit", !rng || z || (unitOk inz n && unitOk inzbuf n))]
          (st, verdict checks diff s!"n={n} oor={b01 (!rng)} zero={b01 z}")
        | _, _, _, _ => (st, "BADOP helpers outcome parse")
      | _ => (st, "BADOP helpers outcome")
    | _, _ => (st, "BADOP helpers")
  | ["reuse", w, vs] =>
    match pv w, pvs vs with
    | some w, some vs =>
      let k := vs.length
      if post.length != 2 * k then (st, "BADOP reuse outcome count") else
      let n := w.length
      let pw := cosPre f32 w
      let env : Int := 2 * n + 14
      let judge (v : V) (tok : String) : List (String × Bool) × Option String :=
        match tok.splitOn ";" with
        | [p, d, nz, nr, l2, bl, cc, cb, unch] =>
          match parseOptV p, parseOptF d, pv nz, pf nr, pf l2, pfs bl, pf cc, pfs cb with
          | some ip, some idd, some inz, some inr, some il2, some ibl, some icc, some icb =>
            let mp := cosPre f32 v
            let md : Option Float32 := do let a ← mp; let b ← pw; pure (cosine f32 a b)
            let diff := firstDiff [cmpTok "Preprocess" (optV mp) (optV ip), cmpTok "d" (optF md) (optF idd),
              cmpTok "Normalize" (hv (normalize f32 v)) (hv inz), cmpTok "Norm" (hx (norm f32 v)) (hx inr),
              cmpTok "l2" (hx (euclid f32 v w)) (hx il2), cmpTok "cosine" (hx (cosine f32 v w)) (hx icc)]
            let rng := inRange v && inRange w
            let z := allZero v
            ([("depends_only_on_current_contents:pre_zero_rejected", !z || ip.isNone),
              ("depends_only_on_current_contents:pre_nonzero_accepted", !rng || z || ip.isSome),
              ("depends_only_on_current_contents:pre_unit", !rng || (match ip with | some p => unitOk p n && p.length == n | none => true)),
              ("depends_only_on_current_contents:cosine_eq_one_sub_cos",
                !rng || (match ip, pw, idd with | some _, some _, some d => cosFormulaOk d v w env | _, _, _ => true)),
              ("depends_only_on_current_contents:normalize", inz.length == n && (!rng || (if z then hv inz == hv v else unitOk inz n))),
              ("depends_only_on_current_contents:norm_def", !rng || (nonneg inr && normOk inr v n)),
              ("batch_eq_elementwise", hfs ibl == hx il2 && hfs icb == hx icc),
              ("calls_never_modify_arguments", unch == "1")], diff)
          | _, _, _, _, _, _, _, _ => ([("parse", false)], none)
        | _ => ([("parse", false)], none)
      let judgeIn (v : V) (tok : String) : List (String × Bool) × Option String :=
        match tok.splitOn ";" with
        | ["inplace", stt, buf] =>
          match pv buf with
          | some ibuf =>
            let m := cosPre f32 v
            let mbuf := match m with | none => v | some x => x
            let diff := firstDiff [cmpTok "inplace_status" (if m.isNone then "zero" else "ok") stt, cmpTok "inplace_buf" (hv mbuf) (hv ibuf)]
            let rng := inRange v
            let z := allZero v
            ([("depends_only_on_current_contents:inplace_zero_rejected", !z || (stt == "zero" && hv ibuf == hv v)),
              ("depends_only_on_current_contents:inplace_unit", !rng || z || (stt == "ok" && unitOk ibuf n))], diff)
          | none => ([("parse", false)], none)
        | _ => ([("parse", false)], none)
      let r1 := List.zipWith judge vs (post.take k)
      let r2 := List.zipWith judgeIn vs (post.drop k)
      let all := r1 ++ r2
      (st, verdict (all.flatMap (·.1)) (firstDiff (all.map (·.2))) s!"n={n} steps={k} reuse=1 haszero={b01 (vs.any allZero)}")
    | _, _ => (st, "BADOP reuse")
  | ["rows", vs, s] =>
    match pvs vs, pf s with
    | some vs, some s =>
      match post with
      | [pres, nzs, scs, bs, stt, after, after2, intact, fresh, onlyRow] =>
        match (pres.splitOn ",").mapM parseOptV, pvs nzs, pvs scs, (bs.splitOn ";").mapM pfs, pv after, pv after2 with
        | some ipres, some inzs, some iscs, some ibs, some iafter, some iafter2 =>
          let n := (vs.headD []).length
          let mid := vs.getD (vs.length / 2) []
          let t := vs.headD []
          let mpre := cosPre f32 mid
          let diff := firstDiff [
            cmpTok "Preprocess" (",".intercalate (vs.map fun v => optV (cosPre f32 v))) (",".intercalate (ipres.map optV)),
            cmpTok "Normalize" (",".intercalate (vs.map fun v => hv (normalize f32 v))) (",".intercalate (inzs.map hv)),
            cmpTok "Scale" (",".intercalate (vs.map fun v => hv (scale f32 v s))) (",".intercalate (iscs.map hv)),
            cmpTok "CalculateBatch" (";".intercalate (kinds.map fun k => hfs (calculateBatch f32 k vs t))) (";".intercalate (ibs.map hfs)),
            cmpTok "inplace_status" (if mpre.isNone then "zero" else "ok") stt,
            cmpTok "PreprocessInPlace" (hv (match mpre with | none => mid | some x => x)) (hv iafter),
            cmpTok "NormalizeInPlace" (hv (normalize f32 mid)) (hv iafter2)]
          let checks : List (String × Bool) := [
            ("nothing_but_the_result_is_written (argument, memory before / behind it up to its capacity)", intact == "1"),
            ("result_is_fresh_memory", fresh == "1"),
            ("inplace_writes_only_its_argument", onlyRow == "1"),
            ("pre_unit", (List.zipWith (fun v (p : Option V) => !(inRange v) || (match p with | some p => unitOk p n | none => allZero v)) vs ipres).all id)]
          (st, verdict checks diff s!"n={n} rows={vs.length} rowviews=1")
        | _, _, _, _, _, _ => (st, "BADOP rows outcome parse")
      | _ => (st, "BADOP rows outcome")
    | _, _ => (st, "BADOP rows")
  | _ => (st, "BADOP unknown")

def handler : Handler := { name := "dist", σ := St, init := init, op := op }

end Comet.Driver.DistStream
