/-
  Stream `meta` (C04): replays an Add/Remove history of the real RoaringMetadataIndex on
  the faithful model (Comet.Meta, Comet.BSI) and on the specification (Comet.MetaSpec)
  and judges every search answer of the implementation

    * against the specification (`specAnswer`: ids of the live documents whose metadata
      satisfies the filter expression under ordinary comparison)      → SPECFAIL,
    * against the faithful model (answer vs error, and the id set)    → DIFF,

  KNOWN <id> is replied only when the implementation's answer differs from the
  specification, the faithful model predicts the implementation's answer exactly, and
  every leaf on which model and specification differ satisfies the trigger of a listed
  finding (D9: `Not(range)`; D8: operand and a stored value of the field differ in sign).

  Protocol (strings are hex of their UTF-8 bytes behind a one-letter tag):
    op add <id> <kvs> => ok | err [<class>]         kvs: h<field>=i<int>|s<str>|x , … | -
    op remove <id> => ok
    op search S <leaf>* (G:<AND|OR|NONE> <leaf>*)* => ok <ids> | err [g<i>:]<class>
        leaf: [!]<op>;h<field>;<operands>;<operator string the implementation received>
        operand: i<int>~<hex of %v text> | s<str>;  operands: o,o,… | - (none) | * (not a list)
    op state => A=<ids> C:h<key>=<ids> … N:h<field>=<id>:<slice mask hex>:<0|1>,… …
-/
import Comet.Driver.Proto
import Comet.MetaSpec
namespace Comet.Driver.MetaStream
open Comet Comet.Driver Comet.Meta

structure St where
  s : State := Meta.init
  sp : Spec := {}
  /-- the history left the property's quantifier (re-add of a live id, type clash, …):
      answers are then compared with the faithful model only -/
  tainted : Bool := false

def init (ps : List String) : Option St :=
  match ps with
  | [] => some {}
  | _ => none

def hexBytes (s : String) : Option ByteArray :=
  let cs := s.toList
  if cs.length % 2 != 0 then none else
  let rec go : Nat → List Char → ByteArray → Option ByteArray
    | 0, _, acc => some acc
    | _ + 1, [], acc => some acc
    | _ + 1, [_], _ => none
    | n + 1, a :: b :: r, acc => do
      let x ← hexVal a
      let y ← hexVal b
      go n r (acc.push (UInt8.ofNat (x * 16 + y)))
  go (cs.length + 1) cs ByteArray.empty

def hexStr (s : String) : Option String := do
  let b ← hexBytes s
  String.fromUTF8? b

/-- `h<hex>` -/
def tagged (tag : Char) (t : String) : Option String :=
  match t.toList with
  | c :: r => if c == tag then hexStr (String.ofList r) else none
  | [] => none

def parseI64 (s : String) : Option I64 := do
  let i ← s.toInt?
  if -(2 : Int) ^ 63 ≤ i ∧ i < (2 : Int) ^ 63 then some (BitVec.ofInt 64 i) else none

def parseKV (t : String) : Option (String × Option Value) :=
  match t.splitOn "=" with
  | [k, v] => do
    let k ← tagged 'h' k
    match v.toList with
    | ['x'] => some (k, none)
    | 'i' :: r => do some (k, some (.int (← parseI64 (String.ofList r))))
    | 's' :: r => do some (k, some (.str (← hexStr (String.ofList r))))
    | _ => none
  | _ => none

def parseKVs (t : String) : Option (List (String × Option Value)) :=
  if t == "-" then some [] else (t.splitOn ",").mapM parseKV

def parseOperand (t : String) : Option Operand :=
  match t.toList with
  | 'i' :: r =>
    match (String.ofList r).splitOn "~" with
    | [n, txt] => do some (.int (← parseI64 n) (← hexStr txt))
    | _ => none
  | 's' :: r => do some (.str (← hexStr (String.ofList r)))
  | _ => none

def parseOperands (t : String) : Option (List Operand) :=
  if t == "-" then some [] else (t.splitOn ",").mapM parseOperand

/-- a leaf and the operator string the implementation's `Filter` carried -/
def parseLeaf (t : String) : Option (Leaf × String) :=
  let (neg, t) := match t.toList with
    | '!' :: r => (true, String.ofList r)
    | _ => (false, t)
  match t.splitOn ";" with
  | [op, f, os, implop] => do
    let f ← tagged 'h' f
    let cmp (c : CmpOp) : Option Filter := do
      match ← parseOperands os with
      | [o] => some (.cmp c f o)
      | _ => none
    let flt : Filter ← match op with
      | "eq" => cmp .eq | "ne" => cmp .ne | "gt" => cmp .gt | "gte" => cmp .gte
      | "lt" => cmp .lt | "lte" => cmp .lte
      | "range" => do
        match ← parseOperands os with
        | [lo, hi] => some (.range f lo hi)
        | _ => none
      | "in" => if os == "*" then some (.isIn false f none) else do some (.isIn false f (some (← parseOperands os)))
      | "not_in" => if os == "*" then some (.isIn true f none) else do some (.isIn true f (some (← parseOperands os)))
      | "exists" => some (.ex false f)
      | "not_exists" => some (.ex true f)
      | _ => none
    some (⟨neg, flt⟩, implop)
  | _ => none

structure PQuery where
  fs : List (Leaf × String) := []
  gs : List (Logic × List (Leaf × String)) := []

/-- `S leaf* (G:<logic> leaf*)*` -/
def parseQuery : List String → Option PQuery
  | "S" :: rest => go rest {} false
  | _ => none
where
  go : List String → PQuery → Bool → Option PQuery
    | [], q, _ => some { fs := q.fs.reverse, gs := (q.gs.map fun g => (g.1, g.2.reverse)).reverse }
    | t :: r, q, inG =>
      if t.startsWith "G:" then
        match t with
        | "G:AND" => go r { q with gs := (.and, []) :: q.gs } true
        | "G:OR" => go r { q with gs := (.or, []) :: q.gs } true
        | "G:NONE" => go r { q with gs := (.other, []) :: q.gs } true
        | _ => none
      else
        match parseLeaf t with
        | none => none
        | some l =>
          if inG then
            match q.gs with
            | g :: gs' => go r { q with gs := (g.1, l :: g.2) :: gs' } true
            | [] => none
          else go r { q with fs := l :: q.fs } false

def errClass (e : Meta.Err) : String :=
  let k := match e.kind with
    | .unsupportedCat => "cat" | .unsupportedNum => "num" | .convert => "convert" | .inList => "inlist"
  match e.group with
  | some i => s!"g{i}:{k}"
  | none => k

def showIds (l : List Nat) : String :=
  if l.isEmpty then "-" else ",".intercalate ((l.mergeSort (· ≤ ·)).map toString)

def sameSet (a b : List Nat) : Bool := RB.same a b

/-- the finding that explains a leaf on which model and specification differ -/
def explain (st : St) (l : Leaf) : Option String :=
  if notRangeL l then some "D9-not-range-identity"
  else if mixedSignF st.sp.numSeen st.sp.docs l.toFilter then some "D8-bsi-mixed-sign"
  else none

/-- leaves whose model evaluation differs from their specification:
    (explained findings, number of unexplained leaves) -/
def deviations (st : St) (ls : List Leaf) : List String × Nat :=
  ls.foldl (fun (acc : List String × Nat) l =>
    let specSet := specLeaf st.sp l
    let dev := match evaluateFilter st.s l.toFilter with
      | .ok bm => !sameSet bm specSet
      | .error _ => true
    if !dev then acc else
    match explain st l with
    | some id => (if acc.1.contains id then acc.1 else acc.1 ++ [id], acc.2)
    | none => (acc.1, acc.2 + 1)) ([], 0)

def b2s (b : Bool) : String := if b then "1" else "0"

def search (st : St) (q : PQuery) (post : List String) : String :=
  let fs := q.fs.map (·.1)
  let gs : List LGroup := q.gs.map fun g => ⟨g.1, g.2.map (·.1)⟩
  let allLeaves := q.fs ++ q.gs.flatMap (·.2)
  -- the operator table of `Not`: what comet.Not produced vs what the model's notF produces
  -- (a mismatch alone is a DIFF; the answer is still judged against the specification first)
  let tableDiff : Option String := (allLeaves.find? (fun p => p.1.toFilter.opName != p.2)).map
    fun p => s!"DIFF not-table model={p.1.toFilter.opName} impl={p.2}"
  let fin (r : String) : String :=
    match tableDiff with
    | some t => if r.startsWith "ok" || r.startsWith "KNOWN" then t else r
    | none => r
  fin <|
  let model := execute st.s (fs.map Leaf.toFilter) (gs.map LGroup.toGroup)
  let inside := !st.tainted && conform st.sp && wellTypedQ st.sp fs gs
  let nleaves := allLeaves.length
  let flags := s!"leaves:{nleaves} simple={b2s (!fs.isEmpty)} groups={b2s (!gs.isEmpty)} " ++
    s!"neg={b2s (allLeaves.any (·.1.neg))} " ++
    s!"absent={b2s (allLeaves.any fun p => fieldAbsent st.sp.docs p.1.f.field && !st.sp.numSeen.contains p.1.f.field)}"
  match post with
  | ["err", e] =>
    match model with
    | .error me =>
      -- both fail.  Which operator error is reported, for which OR-group (`g<i>:`) and in which
      -- words is not part of the property — it only separates "an answer" from "an error"
      -- (Proto.sameOutcome); the classes are kept as information
      if inside then s!"SPECFAIL well-typed-query-errs {e}"
      else s!"ok err outside=1 {classFlag e} sameclass={b2s (errClass me == e)} {flags}"
    | .ok r => s!"DIFF search model=ok:{showIds r} impl=err:{e}"
  | ["ok", ids] =>
    match parseIds ids with
    | none => "BADOP search ids"
    | some impl =>
      if !decide impl.Nodup then s!"SPECFAIL duplicate-id impl={showIds impl}" else
      let live := st.sp.docs.length
      match model with
      | .error me =>
        s!"DIFF search model=err:{errClass me} impl=ok:{showIds impl}"
      | .ok mres =>
        let agree := sameSet mres impl
        if !inside then
          if agree then s!"ok outside=1 n:{impl.length} live:{live} {flags}"
          else s!"DIFF search(outside) model={showIds mres} impl={showIds impl}"
        else
          let spec := specAnswer st.sp fs gs
          if sameSet spec impl then
            if agree then
              s!"ok judged=1 n:{impl.length} live:{live} proper={b2s (decide (0 < impl.length ∧ impl.length < live))} {flags}"
            else s!"DIFF search model={showIds mres} impl={showIds impl} spec={showIds spec}"
          else if !agree then
            s!"SPECFAIL answer impl={showIds impl} spec={showIds spec} model={showIds mres}"
          else
            let (found, unexplained) := deviations st (leavesOf fs gs)
            match found, unexplained with
            | id :: more, 0 => s!"KNOWN {id} {" ".intercalate more} impl:{showIds impl} spec:{showIds spec}"
            | _, _ => s!"SPECFAIL answer impl={showIds impl} spec={showIds spec} model=same-as-impl unexplained-leaves={unexplained}"
  | _ => "BADOP search outcome"

/-! ### state comparison -/

def parseIdsEq (t : String) : Option (List Nat) := parseIds t

/-- model side of one BSI: (id, slice mask, in eBM) for every id occurring anywhere -/
def bsiDump (b : BSI.T) : List (Nat × Nat × Bool) :=
  let ids := b.bA.foldl (fun acc s => RB.or acc s) b.eBM
  (ids.mergeSort (· ≤ ·)).map fun c =>
    let mask := (List.range b.bitCount).foldl (fun acc i => if b.bit i c then acc + 2 ^ i else acc) 0
    (c, mask, b.eBM.contains c)

def parseBsiEntry (t : String) : Option (Nat × Nat × Bool) :=
  match t.splitOn ":" with
  | [c, m, e] => do some (← c.toNat?, ← parseHex m, e == "1")
  | _ => none

def stateCmp (st : St) (post : List String) : String :=
  let res : Option (Option (List Nat) × List (String × List Nat) × List (String × List (Nat × Nat × Bool))) :=
    post.foldlM (fun acc t =>
      if t.startsWith "A=" then do
        some (some (← parseIds (t.drop 2).toString), acc.2.1, acc.2.2)
      else if t.startsWith "C:" then
        match ((t.drop 2).toString).splitOn "=" with
        | [k, ids] => do some (acc.1, (← tagged 'h' k, ← parseIds ids) :: acc.2.1, acc.2.2)
        | _ => none
      else if t.startsWith "N:" then
        match ((t.drop 2).toString).splitOn "=" with
        | [k, es] => do
          let es ← if es == "-" then some [] else (es.splitOn ",").mapM parseBsiEntry
          some (acc.1, acc.2.1, (← tagged 'h' k, es) :: acc.2.2)
        | _ => none
      else none) (none, [], [])
  match res with
  | some (some a, cs, ns) =>
    if !sameSet a st.s.allDocs then s!"DIFF state allDocs model={showIds st.s.allDocs} impl={showIds a}"
    else if cs.length != st.s.categorical.length then
      s!"DIFF state categorical-keys model={st.s.categorical.length} impl={cs.length}"
    else if ns.length != st.s.numeric.length then
      s!"DIFF state numeric-fields model={st.s.numeric.length} impl={ns.length}"
    else
      match st.s.categorical.find? (fun kb => match cs.lookup kb.1 with
        | some ids => !sameSet ids kb.2 | none => true) with
      | some kb => s!"DIFF state categorical key={kb.1} model={showIds kb.2}"
      | none =>
        match st.s.numeric.find? (fun kb => match ns.lookup kb.1 with
          | some es => es.mergeSort (fun a b => a.1 ≤ b.1) != bsiDump kb.2 | none => true) with
        | some kb => s!"DIFF state numeric field={kb.1}"
        | none => s!"ok state keys:{cs.length} bsis:{ns.length}"
  | _ => "BADOP state"

def op (st : St) (toks : List String) : St × String :=
  let (pre, post) := splitOutcome toks
  match pre with
  | ["add", id, kvs] =>
    match id.toNat?, parseKVs kvs with
    | some id, some kvs =>
      let readd := (st.sp.docs.lookup id).isSome
      let dupKeys := !decide (kvs.map (·.1)).Nodup
      match post with
      | ["ok"] =>
        let (s', err) := add st.s id kvs
        let st' : St := { s := s', sp := st.sp.step (.add id kvs), tainted := st.tainted || readd || dupKeys }
        if err then (st', "DIFF add model=err impl=ok")
        else (st', s!"ok add fields:{kvs.length} readd={b2s readd}")
      | "err" :: cls =>
        -- any error is a rejection (the optional class token is informational)
        let (s', err) := add st.s id kvs
        let st' : St := { st with s := s', sp := st.sp.step (.add id kvs) }
        if err then (st', s!"ok add err {classFlag (cls.headD "unclassified")}") else (st', "DIFF add model=ok impl=err")
      | _ => (st, "BADOP add outcome")
    | _, _ => (st, "BADOP add")
  | ["remove", id] =>
    match id.toNat? with
    | some id =>
      let wasLive := (st.sp.docs.lookup id).isSome
      let st' : St := { st with s := remove st.s id, sp := st.sp.step (.remove id) }
      if post == ["ok"] then (st', s!"ok remove live={b2s wasLive}") else (st', s!"DIFF remove model=ok impl={post}")
    | none => (st, "BADOP remove")
  | "search" :: q =>
    match parseQuery q with
    | some q => (st, search st q post)
    | none => (st, "BADOP search query")
  | ["state"] => (st, stateCmp st post)
  | _ => (st, "BADOP unknown")

def handler : Handler := { name := "meta", σ := St, init := init, op := op }

end Comet.Driver.MetaStream
