/-
  The driver's main loop: one reply line per request line.
    begin <stream> <params…>   → "ok" | "ERR …"
    op <tokens…>               → the handler's reply
    end                        → "ok"
    # comment                  → "ok"
-/
import Comet.Driver.Registry
namespace Comet.Driver

structure Active where
  h : Handler
  st : h.σ

def tokens (line : String) : List String :=
  (line.splitOn " ").map (fun t => (t.trimAscii).toString) |>.filter (· != "")

partial def loop (inp out : IO.FS.Stream) (cur : Option Active) : IO Unit := do
  let line ← inp.getLine
  if line.isEmpty then return ()
  let toks := tokens line
  let (cur', reply) : Option Active × String :=
    match toks with
    | [] => (cur, "ok")
    | "begin" :: name :: ps =>
      match handlers.find? (·.name == name) with
      | none => (none, s!"ERR unknown stream {name}")
      | some h =>
        match h.init ps with
        | none => (none, s!"ERR bad params for {name}")
        | some st => (some ⟨h, st⟩, "ok")
    | "end" :: _ => (none, "ok")
    | "op" :: rest =>
      match cur with
      | none => (none, "ERR no active case")
      | some a =>
        let (st', r) := a.h.op a.st rest
        (some ⟨a.h, st'⟩, r)
    | t :: _ => if t.startsWith "#" then (cur, "ok") else (cur, s!"ERR bad line {t}")
  out.putStrLn reply
  out.flush
  loop inp out cur'

def main : IO Unit := do
  loop (← IO.getStdin) (← IO.getStdout) none

end Comet.Driver
