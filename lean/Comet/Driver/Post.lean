/-
  Stream `post` (C19): result post-processing — aggregation, limiting, autocut,
  fusion, rank conversion, merging.  Every op line is self-contained:

    op agg <vec|text> <sum|max|mean> A… / B… => mut=<0|1> / outA… / outB…
        A: input hits `id:hex32`; B: a permutation of A; outX: what Aggregate returned
    op limit <vec|text> <k> A… => mut=. / out…
    op sanitize <k> <n> => <r>
    op autocut <cutoff> s… => mut=. <index>            (s: hex32 scores)
    op autocutres <vec|text> <cutoff> A… => mut=. / out…
    op fuse <wsum|max|min|rrf> <wv> <wt> <K> V… / T… => mut=. / out…   (`id:hex64`)
    op ranks <asc|desc> V… => mut=. / id:rank…
    op merge <0|1> H… => mut=. <nil|ok> / out…          (1 = followed by sortResultsByScore)
    op glue => <err|ok>×3 <default weights, K>          (constructor error paths, defaults)
    op defaults <before|after> => <wv> <wt> <K>        (DefaultFusionConfig() around a customisation)
    op panic …                                          (the implementation panicked)

  Verdicts.  `SPECFAIL` = the property-level predicate is false on the
  implementation's answer (wrong id set, score off by more than rounding, not
  best-first, not a prefix, not the first k, RRF not explained by any best-first
  ranking, input mutated, panic).  `DIFF` = the answer differs from the faithful
  model although the property-level predicate is not shown false (e.g. a sum that is
  within rounding but not bit-identical to the arrival-order sum).
  Answers that came out of Go maps / unstable sorts are compared as sets (sorted by
  id), never by position; NaNs are canonicalised (Comet.PostFloat).

  NaN and order.  No judgement depends on where a sort puts a NaN, nor on where it puts
  the other entries once a NaN is among the sorted scores (the comparison is then not a
  strict weak order and any comparison sort may answer differently): aggregation and
  merge order is judged only when no returned score is NaN; `ranks` must then only be a
  bijection onto 0 … n−1 and `fuse rrf` be explained by SOME such bijection per NaN
  modality (`checkRanksW`, `verifyRRFW` with `strict = false`).  Without NaN everything
  is judged at full strength.  Limiting / autocut are prefixes of the input as given
  (no sort involved).
-/
import Comet.Driver.Proto
import Comet.Agg
import Comet.Limiter
import Comet.Fusion
import Comet.Merge
import Comet.PostFloat
namespace Comet.Driver.PostStream
open Comet Comet.Driver Comet.PostFloat

/-! ### parsing -/

def parseU64 (s : String) : Option UInt64 := do
  let n ← parseHex s
  if n < 18446744073709551616 then some (UInt64.ofNat n) else none

def hex64 (u : UInt64) : String := toHex 16 u.toNat

/-- `id:hex32`, NaN canonicalised -/
def parseHitC (s : String) : Option (Hit UInt32) :=
  match s.splitOn ":" with
  | [i, sc] => do pure ⟨← i.toNat?, canon32 (← parseU32 sc)⟩
  | _ => none

/-- `id:hex64`, NaN canonicalised -/
def parseEnt (s : String) : Option (Id × UInt64) :=
  match s.splitOn ":" with
  | [i, sc] => do pure (← i.toNat?, canon64 (← parseU64 sc))
  | _ => none

def parseRank (s : String) : Option (Id × Nat) :=
  match s.splitOn ":" with
  | [i, r] => do pure (← i.toNat?, ← r.toNat?)
  | _ => none

/-- split a token list on "/" -/
def splitSlash (toks : List String) : List (List String) :=
  let rec go (ts : List String) (cur : List String) (acc : List (List String)) : List (List String) :=
    match ts with
    | [] => (cur.reverse :: acc).reverse
    | t :: ts => if t == "/" then go ts [] (cur.reverse :: acc) else go ts (t :: cur) acc
  go toks [] []

def showHits (hs : List (Hit UInt32)) : String := showHits32 (hs.take 6)
def showEnts (es : List (Id × UInt64)) : String :=
  " ".intercalate ((es.take 6).map fun e => s!"{e.1}:{hex64 e.2}")

/-! ### verdicts -/

inductive Verdict
  | ok (flags : String)
  | diff (msg : String)
  | spec (msg : String)

def Verdict.render : Verdict → String
  | .ok f => if f.isEmpty then "ok" else "ok " ++ f
  | .diff m => "DIFF " ++ m
  | .spec m => "SPECFAIL " ++ m

/-- the more severe of two verdicts (flags are concatenated) -/
def Verdict.and : Verdict → Verdict → Verdict
  | .spec m, _ => .spec m
  | _, .spec m => .spec m
  | .diff m, _ => .diff m
  | _, .diff m => .diff m
  | .ok a, .ok b => .ok (if a.isEmpty then b else if b.isEmpty then a else a ++ " " ++ b)

def flag (name : String) (b : Bool) : String := if b then s!"{name}=1" else ""
def flags (fs : List String) : String := " ".intercalate (fs.filter (· != ""))

def nodupB (l : List Nat) : Bool :=
  let s := l.mergeSort (fun a b => decide (a ≤ b))
  (s.zip (s.drop 1)).all fun (a, b) => a != b

def sortById (hs : List (Hit UInt32)) : List (Hit UInt32) :=
  hs.mergeSort fun a b => decide (a.id ≤ b.id)

def sortEnts (es : List (Id × α)) : List (Id × α) :=
  es.mergeSort fun a b => decide (a.1 ≤ b.1)

/-! ### aggregation -/

def toD (b : UInt32) : Float := (f32 b).toFloat

/-- 2⁻²³ -/
def eps32 : Float := 1.1920928955078125e-7

/-- exact-arithmetic quantities of a score group: (Σ, Σ|·|, any NaN) in binary64 -/
def groupStats (ss : List UInt32) : Float × Float × Bool :=
  let fs := ss.map toD
  (fs.foldl (· + ·) 0, fs.foldl (fun a y => a + y.abs) 0, fs.any Float.isNaN)

/-- rounding allowance for a float32 sum / mean of `n` scores in any order -/
def tolOf (kind : AggKind) (n : Nat) (a : Float) : Float :=
  let nf := Float.ofNat n
  (nf + 2) * eps32 * (if kind == .mean then a / nf else a) + 1e-44

/-- the property-level predicate on one aggregated score: the sum / mean of the id's
    input scores up to float rounding (`(n+2)·2⁻²³·Σ|x|`), the maximum exactly.
    Unordered groups (NaN, or +Inf and −Inf together for the sum) have no defined
    maximum / sum: only NaN-ness of the sum is required; sums that overflow float32
    (`Σ|x| ≥ 1e37`) are not judged here (the faithful model still is compared). -/
def scoreOK (kind : AggKind) (ss : List UInt32) (impl : UInt32) : Bool :=
  let (s, a, anyNaN) := groupStats ss
  let x := toD impl
  match kind with
  | .max =>
    if anyNaN then true
    else (ss.map toD).any (· == x) && (ss.map toD).all (· ≤ x)
  | _ =>
    if s.isNaN then x.isNaN
    else if a.isInf then x == s
    else if a ≥ 1e37 then true
    else
      let target := if kind == .mean then s / Float.ofNat ss.length else s
      (x - target).abs ≤ tolOf kind ss.length a

/-- two answers for the same id under two input orders agree up to rounding -/
def closeEnough (kind : AggKind) (ss : List UInt32) (x y : UInt32) : Bool :=
  let (s, a, anyNaN) := groupStats ss
  match kind with
  | .max => if anyNaN then true else toD x == toD y
  | _ =>
    if s.isNaN then isNaN32 x && isNaN32 y
    else if a.isInf then toD x == toD y
    else if a ≥ 1e37 then true
    else (toD x - toD y).abs ≤ 2 * tolOf kind ss.length a

def judgeAgg (text : Bool) (kind : AggKind) (xs out : List (Hit UInt32)) : Verdict :=
  let sc := scalar32
  let ids := out.map (·.id)
  let inIds := (xs.map (·.id)).mergeSort (fun a b => decide (a ≤ b)) |>.eraseDups
  if !nodupB ids then .spec s!"agg dup-id out={showHits out}"
  else if ids.mergeSort (fun a b => decide (a ≤ b)) != inIds then
    .spec s!"agg id-set want={inIds.length} got={ids.length}"
  else
    match out.find? (fun h => !scoreOK kind (scoresOf h.id xs) h.score) with
    | some h =>
      .spec s!"agg score id={h.id} impl={hex32 h.score} model={hex32 (reduceVec sc kind (scoresOf h.id xs))}"
    | none =>
      let anyNaN := out.any (isNaN32 ·.score)
      let le : UInt32 → UInt32 → Bool := if text then (fun a b => sc.le b a) else sc.le
      if !anyNaN && !sortedB le out then .spec s!"agg unsorted out={showHits out}"
      else
        let model := if text then textAggregate sc kind xs else vecAggregate sc kind xs
        if sortById model != sortById out then
          match out.find? (fun h => !model.contains h) with
          | some h => .diff s!"agg id={h.id} impl={hex32 h.score} model={hex32 (reduceVec sc kind (scoresOf h.id xs))}"
          | none => .diff "agg set"
        else
          let s := out.map (·.score)
          .ok (flags [flag "dups" (decide (ids.length < xs.length)),
                      flag "ties" (decide ((s.eraseDups).length < s.length)),
                      flag "nanout" anyNaN, flag "many" (decide (ids.length ≥ 2))])

def parseAgg : String → Option AggKind
  | "sum" => some .sum | "max" => some .max | "mean" => some .mean | _ => none

def opAgg (modality kind : String) (pre post : List String) : String :=
  match parseAgg kind, splitSlash pre, splitSlash post with
  | some kind, [a, b], [[mu], oa, ob] =>
    match a.mapM parseHitC, b.mapM parseHitC, oa.mapM parseHitC, ob.mapM parseHitC with
    | some a, some b, some oa, some ob =>
      if mu != "mut=0" then "SPECFAIL agg mutated-input" else
      if !(a.isPerm b) then "BADOP agg: B is not a permutation of A" else
      let text := modality == "text"
      let va := judgeAgg text kind a oa
      let vb := judgeAgg text kind b ob
      -- independence of the input order, on the implementation's two answers
      let perm : Verdict :=
        match oa.find? (fun h => match ob.find? (·.id == h.id) with
            | none => true
            | some g => !closeEnough kind (scoresOf h.id a) h.score g.score) with
        | some h => .spec s!"agg order-dependent id={h.id}"
        | none => .ok (flag "perm" (a != b))
      let special := a.any fun h => isNaN32 h.score || (f32 h.score).isInf
      -- evidence that the real code shows the NaN order dependence of the running max
      let nanOrder := kind == .max && oa.any fun h => match ob.find? (·.id == h.id) with
        | some g => g.score != h.score && (scoresOf h.id a).any isNaN32
        | none => false
      -- D22 (known finding): with a NaN among an id's scores the running maximum depends on the
      -- arrival order. KNOWN only when that is exactly what happened (max kind, a NaN among that
      -- id's scores, the two input orders disagree) and the faithful model agrees with the code.
      match (va.and vb).and perm with
      | .ok f =>
        if nanOrder then "KNOWN D22-nan-max-order-dependent " ++ f
        else (Verdict.ok f).and (.ok (flags [flag "special" special])) |>.render
      | v => v.render
    | _, _, _, _ => "BADOP agg hits"
  | _, _, _ => "BADOP agg shape"

/-! ### limiting and autocut (answers are position-exact: compared as token lists) -/

def opLimit (k : String) (pre post : List String) : String :=
  match parseInt k, splitSlash post with
  | some k, [[mu], out] =>
    if mu != "mut=0" then "SPECFAIL limit mutated-input" else
    let want := limitResults k pre
    if out == want then
      flags ["ok", flag "trunc" (decide (want.length < pre.length)), flag "all" (decide (k ≤ 0 || (pre.length : Int) < k)),
             flag "nonempty" (!pre.isEmpty)]
    else s!"SPECFAIL limit k={k} len={pre.length} want={want.length} got={out.length}"
  | _, _ => "BADOP limit"

def opSanitize (k n : String) (post : List String) : String :=
  match parseInt k, n.toNat?, post with
  | some k, some n, [r] =>
    if r.toNat? == some (sanitizeK k n) then "ok" else s!"SPECFAIL sanitizeK k={k} n={n} want={sanitizeK k n} got={r}"
  | _, _, _ => "BADOP sanitize"

def showPanic : Panic → String
  | .index i n => s!"index[{i}]len={n}"
  | .slice h n => s!"slice[:{h}]cap={n}"

def opAutocut (cut : String) (pre post : List String) : String :=
  match parseInt cut, pre.mapM parseU32, post with
  | some c, some ys, [mu, r] =>
    if mu != "mut=0" then "SPECFAIL autocut mutated-input" else
    match r.toNat? with
    | none => "BADOP autocut result"
    | some r =>
      let ys := ys.map canon32
      if r > ys.length then s!"SPECFAIL autocut index {r} > len {ys.length}" else
      match autocut fops ys c with
      | .error p => s!"DIFF autocut model-panics {showPanic p} impl={r}"
      | .ok m =>
        if m != r then s!"DIFF autocut model={m} impl={r} len={ys.length}" else
        flags ["ok", flag "cut" (decide (r < ys.length)), flag "len2" (ys.length == 2),
               flag "special" (ys.any fun y => isNaN32 y || (f32 y).isInf),
               flag "lastcut" (decide (r + 1 == ys.length))]
  | _, _, _ => "BADOP autocut"

def opAutocutRes (cut : String) (pre post : List String) : String :=
  match parseInt cut, splitSlash post with
  | some c, [[mu], out] =>
    if mu != "mut=0" then "SPECFAIL autocutres mutated-input" else
    if out != pre.take out.length then s!"SPECFAIL autocutres not-a-prefix len={pre.length} got={out.length}" else
    if c == -1 && out.length != pre.length then s!"SPECFAIL autocutres disabled-but-cut got={out.length} len={pre.length}" else
    match pre.mapM parseHitC with
    | none => "BADOP autocutres hits"
    | some xs =>
      match autocutResults fops (·.score) xs c with
      | .error p => s!"DIFF autocutres model-panics {showPanic p}"
      | .ok m =>
        if m.length != out.length then s!"DIFF autocutres model={m.length} impl={out.length} len={pre.length}" else
        flags ["ok", flag "cut" (decide (out.length < pre.length)), flag "disabled" (c == -1)]
  | _, _ => "BADOP autocutres"

/-! ### fusion -/

def toD64 (b : UInt64) : Float := f64 b

/-- ids of a map list, sorted, without duplicates -/
def keyUnion (ms : List (List Id)) : List Id :=
  (ms.foldl (· ++ ·) []).mergeSort (fun a b => decide (a ≤ b)) |>.eraseDups

/-- candidate 0-based ranks of every entry of a score map in a best-first ordering:
    between the number of strictly better entries and the number of not-worse ones.
    When the map contains a NaN no placement is demanded (see `modalityStrict`). -/
def rankCands (asc : Bool) (m : List (Id × UInt64)) : List (Id × Nat × Nat) :=
  -- a NaN among the scores: "best-first" is undefined, every entry may sit anywhere
  if m.any (isNaN64 ·.2) then m.map fun e => (e.1, 0, m.length - 1) else
  m.map fun e =>
    let better := (m.filter fun e' => if asc then lt64 e'.2 e.2 else lt64 e.2 e'.2).length
    let notWorse := (m.filter fun e' => if asc then le64 e'.2 e.2 else le64 e.2 e'.2).length
    (e.1, better, notWorse - 1)

structure RRFProblem where
  K : UInt64
  out : List (Id × UInt64)
  cv : List (Id × Nat × Nat)
  ct : List (Id × Nat × Nat)

def rangeIncl (lo hi : Nat) : List Nat := (List.range (hi + 1 - lo)).map (· + lo)

/-- candidate (vector rank, text rank) pairs of one id that explain its fused score -/
def idCands (p : RRFProblem) (id : Id) : List (Option Nat × Option Nat) :=
  let want := p.out.lookup id
  match p.cv.lookup id, p.ct.lookup id with
  | some (lo, hi), none =>
    (rangeIncl lo hi).filterMap fun a =>
      if some (rrfTerm dops p.K a) == want then some (some a, none) else none
  | none, some (lo, hi) =>
    (rangeIncl lo hi).filterMap fun b =>
      if some (rrfTerm dops p.K b) == want then some (none, some b) else none
  | some (lo, hi), some (lo', hi') =>
    (rangeIncl lo hi).flatMap fun a =>
      (rangeIncl lo' hi').filterMap fun b =>
        if some (dops.add (rrfTerm dops p.K a) (rrfTerm dops p.K b)) == want
        then some (some a, some b) else none
  | none, none => []

/-- depth-first assignment of distinct ranks; `leaf` is the verified check of a
    complete assignment.  Returns the remaining fuel and whether a witness was found. -/
def dfs (leaf : List (Id × Option Nat × Option Nat) → Bool) :
    Nat → List (Id × List (Option Nat × Option Nat)) → List Nat → List Nat →
    List (Id × Option Nat × Option Nat) → Nat × Bool
  | 0, _, _, _, _ => (0, false)
  | fuel + 1, [], _, _, acc => (fuel, leaf acc)
  | fuel + 1, (id, cands) :: rest, usedV, usedT, acc =>
    let rec tryAll (fuel : Nat) : List (Option Nat × Option Nat) → Nat × Bool
      | [] => (fuel, false)
      | (a, b) :: cs =>
        let freeA := match a with | some a => !usedV.contains a | none => true
        let freeB := match b with | some b => !usedT.contains b | none => true
        if freeA && freeB then
          let usedV' := match a with | some a => a :: usedV | none => usedV
          let usedT' := match b with | some b => b :: usedT | none => usedT
          let (fuel', found) := dfs leaf fuel rest usedV' usedT' ((id, a, b) :: acc)
          if found then (fuel', true)
          else if fuel' == 0 then (0, false)
          else tryAll fuel' cs
        else tryAll fuel cs
    tryAll fuel cands

/-- entries listed by assigned rank -/
def orderBy (m : List (Id × UInt64)) (ranks : List (Id × Nat)) : List (Id × UInt64) :=
  let keyed := m.filterMap fun e => (ranks.lookup e.1).map fun r => (r, e)
  (keyed.mergeSort fun a b => decide (a.1 ≤ b.1)).map (·.2)

inductive RRFResult | found | notFound | outOfFuel

/-- "Best-first" is demanded of a modality's ranking only when it is defined: no NaN
    among its scores.  With a NaN the comparison is not a strict weak order on them and a
    comparison sort may place every entry anywhere; the property then only promises a rank
    map (a bijection onto 0 … n−1) without panic. -/
def modalityStrict (m : List (Id × UInt64)) : Bool := !m.any (isNaN64 ·.2)

/-- untrusted search for rankings explaining `out`; every success is certified by
    `verifyRRFW` (soundness: `Comet.verifyRRFW_sound`; for NaN-free modalities this is
    `RRFSpec`, `Comet.rrfSpecW_true`) -/
def searchRRF (K : UInt64) (v t out : List (Id × UInt64)) : RRFResult :=
  let p : RRFProblem := { K := K, out := out, cv := rankCands true v, ct := rankCands false t }
  let ids := keyUnion [v.map (·.1), t.map (·.1)]
  let cands := ids.map fun id => (id, idCands p id)
  if cands.any (·.2.isEmpty) then .notFound else
  let cands := cands.mergeSort fun a b => decide (a.2.length ≤ b.2.length)
  let leaf (acc : List (Id × Option Nat × Option Nat)) : Bool :=
    let σv := orderBy v (acc.filterMap fun (id, a, _) => a.map (id, ·))
    let σt := orderBy t (acc.filterMap fun (id, _, b) => b.map (id, ·))
    verifyRRFW dops K v t out σv σt (modalityStrict v) (modalityStrict t)
  let (fuel, found) := dfs leaf 300000 cands [] [] []
  if found then .found else if fuel == 0 then .outOfFuel else .notFound

def relClose (x y : UInt64) : Bool :=
  x == y || (toD64 x - toD64 y).abs ≤ 1e-12 * ((toD64 x).abs + (toD64 y).abs)

def keyShape (v t : List (Id × UInt64)) : String :=
  let kv := v.map (·.1)
  let kt := t.map (·.1)
  let inter := kv.filter kt.contains
  flags [flag "overlap" (!inter.isEmpty), flag "disjoint" (inter.isEmpty && !kv.isEmpty && !kt.isEmpty),
         flag "equalkeys" (inter.length == kv.length && inter.length == kt.length && !kv.isEmpty),
         flag "nested" ((inter.length == kv.length || inter.length == kt.length) && kv.length != kt.length && !inter.isEmpty),
         flag "onlyone" (decide (inter.length < kv.length || inter.length < kt.length))]

def opFuse (kind wv wt K : String) (pre post : List String) : String :=
  match parseU64 wv, parseU64 wt, parseU64 K, splitSlash pre, splitSlash post with
  | some wv, some wt, some K, [v, t], [[mu], out] =>
    match v.mapM parseEnt, t.mapM parseEnt, out.mapM parseEnt with
    | some v, some t, some out =>
      if mu != "mut=0" then "SPECFAIL fuse mutated-input" else
      if !(nodupB (v.map (·.1)) && nodupB (t.map (·.1))) then "BADOP fuse: duplicate keys in input map" else
      if !nodupB (out.map (·.1)) then "SPECFAIL fuse duplicate key in output" else
      let special := (v ++ t).any fun e => isNaN64 e.2 || (f64 e.2).isInf
      let shape := flags [keyShape v t, flag "special" special]
      if kind == "rrf" then
        let wantKeys := keyUnion [v.map (·.1), t.map (·.1)]
        if keyUnion [out.map (·.1)] != wantKeys then
          s!"SPECFAIL fuse rrf key-set want={wantKeys.length} got={out.length}"
        else match searchRRF K v t out with
          | .found =>
            let tie (m : List (Id × UInt64)) := decide (((m.map (·.2)).eraseDups).length < m.length)
            flags ["ok", shape, flag "ranktie" (tie v || tie t), flag "nanrank" (!(modalityStrict v && modalityStrict t))]
          | .notFound =>
            let what := if modalityStrict v && modalityStrict t then "best-first" else "bijective (NaN modality) / best-first"
            s!"SPECFAIL fuse rrf: no {what} ranking explains the scores out={showEnts out}"
          | .outOfFuel => "UNSUPPORTED fuse rrf: witness search ran out of fuel"
      else
        let model? : Option (List (Id × UInt64)) :=
          if kind == "wsum" then some (wsumFusion dops wv wt v t)
          else if kind == "max" then some (maxFusion dops v t)
          else if kind == "min" then some (minFusion dops v t)
          else none
        match model? with
        | none => "BADOP fuse kind"
        | some model =>
          if keyUnion [out.map (·.1)] != keyUnion [model.map (·.1)] then
            s!"SPECFAIL fuse {kind} key-set want={model.length} got={out.length}"
          else if sortEnts out == sortEnts model then flags ["ok", shape]
          else
            match out.find? (fun e => model.lookup e.1 != some e.2) with
            | none => "DIFF fuse set"
            | some e =>
              let m := (model.lookup e.1).getD 0
              let nanIn := match v.lookup e.1, t.lookup e.1 with
                | some a, some b => isNaN64 a || isNaN64 b
                | _, _ => false
              if (kind == "wsum" && relClose e.2 m) || (kind != "wsum" && nanIn) then
                s!"DIFF fuse {kind} id={e.1} impl={hex64 e.2} model={hex64 m}"
              else s!"SPECFAIL fuse {kind} id={e.1} impl={hex64 e.2} want={hex64 m}"
    | _, _, _ => "BADOP fuse entries"
  | _, _, _, _, _ => "BADOP fuse shape"

def opRanks (dir : String) (pre post : List String) : String :=
  match splitSlash post with
  | [[mu], rk] =>
    match pre.mapM parseEnt, rk.mapM parseRank with
    | some m, some ranks =>
      if mu != "mut=0" then "SPECFAIL ranks mutated-input" else
      if !nodupB (m.map (·.1)) then "BADOP ranks: duplicate keys" else
      if !nodupB (ranks.map (·.1)) then "SPECFAIL ranks duplicate id" else
      let asc := dir == "asc"
      let strict := modalityStrict m
      if checkRanksW dops asc strict m ranks then
        flags ["ok", flag "ranktie" (decide (((m.map (·.2)).eraseDups).length < m.length)),
               flag "special" (m.any fun e => isNaN64 e.2 || (f64 e.2).isInf),
               flag "many" (decide (m.length ≥ 2)), flag "nanrank" (!strict)]
      else if strict then s!"SPECFAIL ranks not a 0-based best-first ranking n={m.length} ranks={ranks.take 6}"
      else s!"SPECFAIL ranks not a bijection onto 0..n-1 (NaN among the scores: no placement demanded) n={m.length} ranks={ranks.take 6}"
    | _, _ => "BADOP ranks entries"
  | _ => "BADOP ranks shape"

/-! ### merge -/

def opMerge (sorted : String) (pre post : List String) : String :=
  match splitSlash post with
  | [[mu, nil], out] =>
    match pre.mapM parseEnt, out.mapM parseEnt with
    | some xs, some out =>
      if mu != "mut=0" then "SPECFAIL merge mutated-input" else
      let hits : List (Hit UInt64) := xs.map fun e => ⟨e.1, e.2⟩
      let model := (mergeResults lt64 hits).map fun h => (h.id, h.score)
      let ids := out.map (·.1)
      if !nodupB ids then s!"SPECFAIL merge duplicate id out={showEnts out}" else
      if keyUnion [ids] != keyUnion [xs.map (·.1)] then
        s!"SPECFAIL merge id-set want={(keyUnion [xs.map (·.1)]).length} got={ids.length}" else
      let anyNaNOut := out.any (isNaN64 ·.2)
      if sorted == "1" && !anyNaNOut &&
          !((out.zip (out.drop 1)).all fun (a, b) => le64 b.2 a.2) then
        s!"SPECFAIL merge not sorted descending out={showEnts out}" else
      match out.find? (fun e => model.lookup e.1 != some e.2) with
      | some e =>
        let m := (model.lookup e.1).getD 0
        let nanIn := xs.any fun x => x.1 == e.1 && isNaN64 x.2
        if nanIn then s!"DIFF merge id={e.1} impl={hex64 e.2} model={hex64 m}"
        else s!"SPECFAIL merge id={e.1} kept={hex64 e.2} highest={hex64 m}"
      | none =>
        if (nil == "nil") != xs.isEmpty then s!"DIFF merge nil-ness impl={nil} empty={xs.isEmpty}" else
        flags ["ok", flag "dups" (decide (ids.length < xs.length)), flag "many" (decide (ids.length ≥ 2)),
               flag "special" (xs.any fun e => isNaN64 e.2 || (f64 e.2).isInf)]
    | _, _ => "BADOP merge entries"
  | _ => "BADOP merge shape"

/-! ### handler -/

def op (st : Unit) (toks : List String) : Unit × String :=
  let (pre, post) := splitOutcome toks
  let r : String :=
    match pre with
    | "panic" :: _ => "SPECFAIL panic"
    | ["glue", "reuse"] => if post == ["ok"] then "ok reuse=1" else s!"SPECFAIL glue reuse {post}"
    | ["glue"] =>
      -- unknown kinds are rejected; the default fusion configuration is (1, 1, 60)
      if post == ["err", "err", "err", "3ff0000000000000", "3ff0000000000000", "404e000000000000"]
      then "ok" else s!"SPECFAIL glue {post}"
    | ["defaults", when] =>
      -- DefaultFusionConfig() is (1, 1, 60) before and AFTER a config obtained from it was customised
      if post == ["3ff0000000000000", "3ff0000000000000", "404e000000000000"]
      then (if when == "after" then "ok defaultsafter=1" else "ok")
      else s!"SPECFAIL defaults {when}: DefaultFusionConfig() = {post}, want weights 1, 1 and K = 60"
    | "agg" :: modality :: kind :: rest => opAgg modality kind rest post
    | "limit" :: _ :: k :: rest => opLimit k rest post
    | ["sanitize", k, n] => opSanitize k n post
    | "autocut" :: cut :: rest => opAutocut cut rest post
    | "autocutres" :: _ :: cut :: rest => opAutocutRes cut rest post
    | "fuse" :: kind :: wv :: wt :: K :: rest => opFuse kind wv wt K rest post
    | "ranks" :: dir :: rest => opRanks dir rest post
    | "merge" :: sorted :: rest => opMerge sorted rest post
    | _ => "BADOP unknown"
  (st, r)

def handler : Handler := { name := "post", σ := Unit, init := fun _ => some (), op := op }

end Comet.Driver.PostStream
