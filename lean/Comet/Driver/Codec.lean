/-
  Streams `codec` (C07) and `trunc` (C16): the Go harness sends the bytes the real
  `WriteTo` produced, what the real `ReadFrom` answered on streams / prefixes /
  mismatched receivers, the content of the real indexes (through accessors) and their
  query answers; the driver decodes / re-encodes with the model codecs
  (Comet/Codec/*, roaring blobs through the executable model Comet/Codec/Roaring) and
  judges.

  begin codec|trunc <kind> <key=value params…>
  codec ops
    write <hex> <count>            stream and reported count of WriteTo (hybrid: count = -)
    content <tokens…>              content of the source index after WriteTo (accessors)
    canonbytes                     reply carries the model's canonical re-encoding
    canonload <hex> <count> <tokens…>   ReadFrom(model bytes) into a fresh real index: count, content
    junk <junklen> [reader] => <count> <unread>|err   ReadFrom(stream ++ junk) through the named reader
    rewrite <hex> => identical=<0|1>  a second WriteTo with no change in between
    removed <ids>                  ids removed during the history
    q <label> => <hits…>|err       a query answer; the first answer of a label is the reference
    eq <label> => <tokens…>        any outcome that must repeat identically per label
    state <label> <phase> => <tokens…>   exported state of source / reloaded / model-loaded index:
                                   the first of a label is the reference, the others must equal it
  trunc ops
    stream <hex>                   the valid stream of this case
    prefixes <from> <to> => <e|o…> ReadFrom of every prefix length in [from,to)
    cross <kind> <hex> => e|o      this receiver reading a stream of another kind
    mismatch <what> <params…> => e|o   a receiver with other parameters reading this stream
    version <v> => e|o             version field patched
    patched <hex> => e|o           any other byte string the model also judges
    segment <i> <hdr> <delivered> <l0> <l1> <l2> <l3> => vec=<ids> txt=<ids> md=<ids> all=<v>/<t>/<m> cached=<0|1> | hang
-/
import Comet.Driver.Proto
import Comet.Codec.Any
import Comet.Codec.Roaring
namespace Comet.Driver.CodecStream
open Comet.Driver Comet.Codec

def bm : BlobCodec := Codec.Roaring.codec

/-! ### tokens -/

def hexByte (b : UInt8) : String := toHex 2 b.toNat
def hexB (b : Bytes) : String := if b.isEmpty then "-" else String.join (b.map hexByte)

def parseHexBytes (s : String) : Option Bytes :=
  if s == "-" then some [] else
  if s.length % 2 != 0 then none else
  let rec go (fuel : Nat) (cs : List Char) (acc : Array UInt8) : Option (Array UInt8) :=
    match fuel, cs with
    | _, [] => some acc
    | 0, _ => none
    | fuel + 1, a :: b :: rest => do
      let x ← hexVal a
      let y ← hexVal b
      go fuel rest (acc.push (UInt8.ofNat (x * 16 + y)))
    | _, _ => none
  (go (s.length / 2 + 1) s.toList #[]).map (·.toList)

def kvGet (ps : List String) (k : String) : Option String :=
  ps.findSome? fun t =>
    match t.splitOn "=" with
    | [a, b] => if a == k then some b else none
    | _ => none

def kvNat (ps : List String) (k : String) : Option Nat := (kvGet ps k).bind String.toNat?
def kvBytes (ps : List String) (k : String) : Option Bytes := (kvGet ps k).bind parseHexBytes

def parseVecRecv (pre : String) (kind : Kind) (ps : List String) : Option Codec.Hybrid.VecParams := do
  let dim ← kvNat ps (pre ++ "dim")
  let metric ← kvBytes ps (pre ++ "metric")
  match kind with
  | .flat => pure (.flat ⟨dim, metric⟩)
  | .hnsw => pure (.hnsw ⟨dim, metric, ← kvNat ps (pre ++ "m"), ← kvNat ps (pre ++ "efc"), ← kvNat ps (pre ++ "efs")⟩)
  | .ivf => pure (.ivf ⟨dim, metric, ← kvNat ps (pre ++ "nlist")⟩)
  | .pq => pure (.pq ⟨dim, metric, ← kvNat ps (pre ++ "m"), ← kvNat ps (pre ++ "nbits"),
      ← kvNat ps (pre ++ "ksub"), ← kvNat ps (pre ++ "dsub")⟩)
  | .ivfpq => pure (.ivfpq ⟨dim, metric, ← kvNat ps (pre ++ "nlist"), ← kvNat ps (pre ++ "m"),
      ← kvNat ps (pre ++ "nbits"), ← kvNat ps (pre ++ "ksub"), ← kvNat ps (pre ++ "dsub")⟩)
  | _ => none

def parseRecv (kind : Kind) (ps : List String) : Option Recv :=
  match kind with
  | .bm25 => some .bm25
  | .md => some .md
  | .hybrid => do
    let vk ← kvGet ps "vkind"
    let vec ← if vk == "none" then pure none else do
      let k ← Kind.parse vk
      pure (some (← parseVecRecv "v" k ps))
    pure (.hybrid ⟨vec, (← kvNat ps "txt") == 1, (← kvNat ps "md") == 1⟩)
  | k => do
    match ← parseVecRecv "" k ps with
    | .flat p => pure (.flat p) | .hnsw p => pure (.hnsw p) | .ivf p => pure (.ivf p)
    | .pq p => pure (.pq p) | .ivfpq p => pure (.ivfpq p)

/-! ### canonical rendering of content (maps sorted by key) -/

def idsS (l : List Nat) : String := if l.isEmpty then "-" else ",".intercalate (l.map toString)
def vecS (v : List Nat) : String := if v.isEmpty then "-" else String.join (v.map (toHex 8))
def sortNat {α : Type} (l : List (Nat × α)) : List (Nat × α) := l.mergeSort fun a b => a.1 ≤ b.1
def sortStr {α : Type} (l : List (String × α)) : List (String × α) :=
  l.mergeSort fun a b => decide (a.1 ≤ b.1)
def b01 (b : Bool) : String := if b then "1" else "0"

def renderFlat (s : Codec.Flat.State) : List String :=
  ["flat", s!"dim={s.dim}", s!"metric={hexB s.metric}", s!"n={s.vecs.length}"] ++
  s.vecs.map (fun p => s!"v:{p.1}:{vecS p.2}") ++ [s!"deleted={idsS s.deleted}"]

def renderHNSW (s : Codec.HNSW.State) : List String :=
  ["hnsw", s!"dim={s.dim}", s!"metric={hexB s.metric}", s!"m={s.m}", s!"efc={s.efC}",
   s!"efs={s.efS}", s!"lm={toHex 16 s.levelMult}", s!"maxlevel={s.maxLevel}", s!"entry={s.entry}",
   s!"n={s.nodes.length}"] ++
  (sortNat s.nodes).map (fun p =>
    s!"node:{p.1}:{p.2.level}:{vecS p.2.vec}:{"|".intercalate (p.2.edges.map idsS)}") ++
  [s!"deleted={idsS s.deleted}"]

def renderIVF (s : Codec.IVF.State) : List String :=
  ["ivf", s!"dim={s.dim}", s!"metric={hexB s.metric}", s!"nlist={s.nlist}",
   s!"trained={b01 s.trained}", s!"nc={s.centroids.length}"] ++
  s.centroids.map (fun c => s!"c:{vecS c}") ++ [s!"nl={s.lists.length}"] ++
  s.lists.flatMap (fun l => s!"list:{l.length}" :: l.map fun p => s!"e:{p.1}:{vecS p.2}") ++
  [s!"deleted={idsS s.deleted}"]

def renderPQ (s : Codec.PQ.State) : List String :=
  ["pq", s!"dim={s.dim}", s!"metric={hexB s.metric}", s!"m={s.m}", s!"nbits={s.nbits}",
   s!"ksub={s.ksub}", s!"dsub={s.dsub}", s!"trained={b01 s.trained}", s!"nc={s.codebooks.length}"] ++
  s.codebooks.map (fun c => s!"c:{vecS c}") ++ [s!"n={s.entries.length}"] ++
  s.entries.map (fun e => s!"e:{e.id}:{hexB e.code}") ++ [s!"deleted={idsS s.deleted}"]

def renderIVFPQ (s : Codec.IVFPQ.State) : List String :=
  ["ivfpq", s!"dim={s.dim}", s!"metric={hexB s.metric}", s!"nlist={s.nlist}", s!"m={s.m}",
   s!"nbits={s.nbits}", s!"ksub={s.ksub}", s!"dsub={s.dsub}", s!"trained={b01 s.trained}",
   s!"nc={s.centroids.length}"] ++
  s.centroids.map (fun c => s!"c:{vecS c}") ++ [s!"ncb={s.codebooks.length}"] ++
  s.codebooks.map (fun c => s!"cb:{vecS c}") ++ [s!"nl={s.lists.length}"] ++
  s.lists.flatMap (fun l => s!"list:{l.length}" :: l.map fun e => s!"e:{e.id}:{hexB e.code}") ++
  [s!"deleted={idsS s.deleted}"]

def renderBM25 (s : Codec.BM25.State) : List String :=
  ["bm25", s!"numdocs={s.numDocs}", s!"total={s.totalTokens}", s!"avg={toHex 16 s.avgDocLen}",
   s!"ndl={s.docLengths.length}"] ++
  (sortNat s.docLengths).map (fun p => s!"dl:{p.1}:{p.2}") ++ [s!"ndt={s.docTokens.length}"] ++
  (sortNat s.docTokens).map (fun p => s!"dt:{p.1}:{".".intercalate (p.2.map hexB)}") ++
  [s!"np={s.postings.length}"] ++
  (sortStr (s.postings.map fun p => (hexB p.1, p.2))).map (fun p => s!"p:{p.1}:{idsS p.2}") ++
  [s!"ntf={s.tf.length}"] ++
  (sortStr (s.tf.map fun p => (hexB p.1, p.2))).map (fun p =>
    s!"tf:{p.1}:{",".intercalate ((sortNat p.2).map fun q => s!"{q.1}={q.2}")}") ++
  [s!"deleted={idsS s.deleted}"]

def renderMeta (s : Codec.Meta.State) : List String :=
  ["meta", s!"alldocs={idsS s.allDocs}", s!"nc={s.categorical.length}"] ++
  (sortStr (s.categorical.map fun p => (hexB p.1, p.2))).map (fun p => s!"cat:{p.1}:{idsS p.2}") ++
  [s!"nn={s.numeric.length}"] ++
  (sortStr (s.numeric.map fun p => (hexB p.1, p.2))).map (fun p =>
    s!"num:{p.1}:{"|".intercalate (p.2.map idsS)}")

def renderVec : Codec.Hybrid.VecState → List String
  | .flat s => renderFlat s | .hnsw s => renderHNSW s | .ivf s => renderIVF s
  | .pq s => renderPQ s | .ivfpq s => renderIVFPQ s

def renderHybrid (s : Codec.Hybrid.State) : List String :=
  ["hybrid", s!"ndi={s.docInfo.length}"] ++
  (sortNat s.docInfo).map (fun p =>
    s!"di:{p.1}:{b01 p.2.hasVector}{b01 p.2.hasText}{b01 p.2.hasMetadata}") ++
  ["vec{"] ++ (match s.vec with | some v => renderVec v | none => ["none"]) ++ ["}", "txt{"] ++
  (match s.txt with | some t => renderBM25 t | none => ["none"]) ++ ["}", "md{"] ++
  (match s.md with | some m => renderMeta m | none => ["none"]) ++ ["}"]

def render : AnyState → List String
  | .flat s => renderFlat s | .hnsw s => renderHNSW s | .ivf s => renderIVF s | .pq s => renderPQ s
  | .ivfpq s => renderIVFPQ s | .bm25 s => renderBM25 s | .md s => renderMeta s
  | .hybrid s => renderHybrid s

/-! ### canonical (sorted map order) form, whose encoding is fed back to the real ReadFrom -/

def canonBM25 (s : Codec.BM25.State) : Codec.BM25.State :=
  { s with docLengths := sortNat s.docLengths, docTokens := sortNat s.docTokens,
           postings := (sortStr (s.postings.map fun p => (hexB p.1, p))).map (·.2),
           tf := (sortStr (s.tf.map fun p => (hexB p.1, (p.1, sortNat p.2)))).map (·.2) }

def canonMeta (s : Codec.Meta.State) : Codec.Meta.State :=
  { s with categorical := (sortStr (s.categorical.map fun p => (hexB p.1, p))).map (·.2),
           numeric := (sortStr (s.numeric.map fun p => (hexB p.1, p))).map (·.2) }

def canon : AnyState → AnyState
  | .hnsw s => .hnsw { s with nodes := sortNat s.nodes }
  | .bm25 s => .bm25 (canonBM25 s)
  | .md s => .md (canonMeta s)
  | .hybrid s => .hybrid { s with
      docInfo := sortNat s.docInfo,
      vec := s.vec.map fun v => match v with
        | .hnsw h => .hnsw { h with nodes := sortNat h.nodes }
        | v => v,
      txt := s.txt.map canonBM25, md := s.md.map canonMeta }
  | s => s

/-- ids that occur anywhere in a state's serialisable content -/
def streamIds : AnyState → List Nat
  | .flat s => Codec.Flat.streamIds s | .hnsw s => Codec.HNSW.streamIds s | .ivf s => Codec.IVF.streamIds s
  | .pq s => Codec.PQ.streamIds s | .ivfpq s => Codec.IVFPQ.streamIds s | .bm25 s => Codec.BM25.streamIds s
  | .md s => Codec.Meta.streamIds s
  | .hybrid s => s.docInfo.map (·.1) ++
      (match s.vec with | some v => v.streamIds | none => []) ++
      (match s.txt with | some t => Codec.BM25.streamIds t | none => []) ++
      (match s.md with | some m => Codec.Meta.streamIds m | none => [])

def errS : Codec.Err → String
  | .eof => "eof" | .magic => "magic" | .version => "version" | .param n => s!"param:{n}"
  | .vecDim => "vecdim" | .blob => "blob" | .panic w => s!"panic:{w}" | .unsupported w => s!"unsupported:{w}"

def isUnsupported : Codec.Err → Bool
  | .unsupported _ => true
  | _ => false

/-! ### stream `codec` -/

structure St where
  recv : Recv
  stream : Bytes := []
  decoded : Option AnyState := none
  removed : List Nat := []
  refs : List (String × List String) := []
  entryDel : Bool := false     -- HNSW vertices soft-deleted (tombstones pending) when WriteTo was called
  textPending : Bool := false  -- BM25 documents soft-deleted when WriteTo was called

def init (ps : List String) : Option St :=
  match ps with
  | kind :: rest => do
    let k ← Kind.parse kind
    pure { recv := ← parseRecv k rest }
  | _ => none

/-- compare two hit lists `id:scorehex` as sets; `some reason` when they differ -/
def hitsDiffer (a b : List String) : Option String :=
  let sa := a.mergeSort (fun x y => decide (x ≤ y))
  let sb := b.mergeSort (fun x y => decide (x ≤ y))
  if sa == sb then none else
  let ida := (a.map fun t => (t.splitOn ":").headD "").mergeSort (fun x y => decide (x ≤ y))
  let idb := (b.map fun t => (t.splitOn ":").headD "").mergeSort (fun x y => decide (x ≤ y))
  if ida != idb then some s!"ids ref={ida} got={idb}" else some "scores"

def decodeFull (r : Recv) (stream : Bytes) : Except String (AnyState × Nat) :=
  match r.decodeC bm stream with
  | .error e => .error (errS e)
  | .ok ((s, n), rest) => if rest.isEmpty then .ok (s, n) else .error s!"unread={rest.length}"

def opCodec (st : St) (toks : List String) : St × String :=
  let (pre, post) := splitOutcome toks
  match pre with
  | ["write", hex, count] =>
    match parseHexBytes hex with
    | none => (st, "BADOP write hex")
    | some stream =>
      let st := { st with stream := stream }
      -- spec level, model-free: the count WriteTo reports is the stream length
      if count != "-" && count != toString stream.length then
        (st, s!"SPECFAIL write-count reported={count} len={stream.length}") else
      match st.recv.decodeC bm stream with
      | .error e =>
        if isUnsupported e then (st, s!"UNSUPPORTED {errS e}")
        else (st, s!"DIFF write model-decode={errS e} impl=wrote-it")
      | .ok ((s, n), rest) =>
        let st' := { st with decoded := some s }
        if !rest.isEmpty then (st', s!"DIFF write model-leaves-unread={rest.length}") else
        if n != stream.length then (st', s!"DIFF write model-count={n} len={stream.length}") else
        let re := s.encodeRaw bm
        if re != stream then (st', s!"DIFF write reencode differs modellen={re.length} len={stream.length}")
        else (st', s!"ok len={stream.length} big={b01 (decide (stream.length > 4096))}")
  | "content" :: content =>
    match st.decoded with
    | none => (st, "BADOP content before write")
    | some s =>
      let want := render s
      if want == content then (st, "ok")
      else
        let i := ((want.zip content).takeWhile fun (a, b) => a == b).length
        (st, s!"DIFF content at={i} model={want.getD i "<end>"} impl={content.getD i "<end>"}")
  | ["canonbytes"] =>
    match st.decoded with
    | none => (st, "BADOP canonbytes before write")
    | some s => (st, s!"ok {hexB ((canon s).encodeRaw bm)}")
  | "canonload" :: hex :: count :: content =>
    match st.decoded, parseHexBytes hex with
    | some s, some bytes =>
      let cs := canon s
      if cs.encodeRaw bm != bytes then (st, "DIFF canonload bytes are not the model's canonical encoding") else
      if post == ["err"] then (st, "SPECFAIL canonload real ReadFrom rejected the model's encoding") else
      if count != toString bytes.length then (st, s!"SPECFAIL read-count reported={count} len={bytes.length}") else
      let want := render s
      if want == content then (st, s!"ok permuted={b01 (bytes != st.stream)}")
      else
        let i := ((want.zip content).takeWhile fun (a, b) => a == b).length
        (st, s!"SPECFAIL canonload content at={i} model={want.getD i "<end>"} impl={content.getD i "<end>"}")
    | _, _ => (st, "BADOP canonload")
  | "junk" :: junklen :: reader =>
    -- `reader` names the reader the bytes were delivered through (plain, one byte at a time,
    -- random chunks, half reads, field-aligned pieces, gzip blocks, MultiReader, data+EOF)
    let rflag := match reader with | [r] => s!" reader-{r}=1" | _ => ""
    match junklen.toNat?, post with
    | some jl, [count, unread] =>
      if count != toString st.stream.length then
        (st, s!"SPECFAIL read-count reported={count} len={st.stream.length}{rflag}")
      else if unread != toString jl then
        (st, s!"SPECFAIL junk unread={unread} want={jl}{rflag}")
      else (st, s!"ok{rflag}")
    | some _, ["err"] => (st, s!"SPECFAIL junk real ReadFrom rejected its own stream{rflag}")
    | some _, ["hang"] => (st, "SPECFAIL ReadFrom did not return on a valid stream (hang)")
    | _, _ => (st, "BADOP junk")
  | ["rewrite", hex] =>
    -- a second WriteTo with no change in between: the same stream up to Go map order, and
    -- byte-identical when the kind holds no map
    match parseHexBytes hex, st.decoded with
    | some bytes, some s =>
      let mapFree := match st.recv.kind with
        | .flat | .ivf | .pq | .ivfpq => true
        | _ => false
      if mapFree && bytes != st.stream then
        (st, s!"SPECFAIL second WriteTo in a row wrote other bytes (len {bytes.length} vs {st.stream.length})") else
      if bytes == st.stream then (st, "ok identical=1") else
      match st.recv.decodeC bm bytes with
      | .ok ((s2, _), []) =>
        if (canon s2).encodeRaw bm == (canon s).encodeRaw bm then (st, "ok permuted=1")
        else (st, "SPECFAIL second WriteTo in a row wrote another content")
      | _ => (st, "SPECFAIL second WriteTo in a row wrote a stream the model cannot decode")
    | some bytes, none =>
      -- the first stream was not decodable by the model (reported there): compare lengths only
      if bytes.length == st.stream.length then (st, "ok") else
      (st, s!"SPECFAIL second WriteTo in a row wrote {bytes.length} bytes, the first {st.stream.length}")
    | _, _ => (st, "BADOP rewrite")
  | ["removed", ids] =>
    match parseIds ids, st.decoded with
    | some ids, some s =>
      let present := ids.filter fun id => (streamIds s).contains id
      if present.isEmpty then ({ st with removed := ids }, s!"ok removed={b01 (!ids.isEmpty)}")
      else
        -- hybrid only: a re-add of a LIVE id with fewer modalities overwrites docInfo, so a
        -- later Remove skips the sub-index that still holds the earlier entry.  The harness
        -- derives from the history alone which (id, modality) pairs are stale that way.
        match s, (kvGet post "stalev").bind parseIds, (kvGet post "stalet").bind parseIds,
              (kvGet post "stalem").bind parseIds with
        | .hybrid h, some sv, some stt, some sm =>
          let inDi := ids.filter fun id => (h.docInfo.map (·.1)).contains id
          let inV := ids.filter fun id => (match h.vec with | some v => v.streamIds | none => []).contains id
          let inT := ids.filter fun id => (match h.txt with | some t => Codec.BM25.streamIds t | none => []).contains id
          let inM := ids.filter fun id => (match h.md with | some m => Codec.Meta.streamIds m | none => []).contains id
          if inDi.isEmpty && inV.all sv.contains && inT.all stt.contains && inM.all sm.contains then
            (st, s!"KNOWN D26-hybrid-readd-live-id-stale-modality ids={present}")
          else (st, s!"SPECFAIL removed ids in stream: {present} (docinfo={inDi} vec={inV} txt={inT} md={inM})")
        | _, _, _, _ => (st, s!"SPECFAIL removed ids in stream: {present}")
    | _, _ => (st, "BADOP removed")
  | ["flags"] =>
    ({ st with entryDel := kvGet post "hnswpending" == some "1",
               textPending := kvGet post "textpending" == some "1" },
     s!"ok pending={(kvGet post "pending").getD "0"} hnswpending={(kvGet post "hnswpending").getD "0"} textpending={(kvGet post "textpending").getD "0"}")
  | ["q", label, phase] =>
    let setRef (st : St) : St := { st with refs := (label, post) :: st.refs.filter (·.1 != label) }
    match st.refs.find? (·.1 == label) with
    | none => (setRef st, s!"ok nonempty={b01 (post.length > 1)}")
    | some (_, ref) =>
      -- the answer after writing becomes the reference for the reloaded indexes
      let st' := if phase == "after" then setRef st else st
      if ref == post then (st', "ok same=1") else
      match ref, post with
      | "ok" :: a, "ok" :: b =>
        match hitsDiffer a b with
        | none => (st', "ok same=1 reordered=1")
        | some why =>
          if phase == "after" && st.entryDel then
            -- D21 (C12): since fix f6a780e searches walk through tombstoned HNSW vertices; the
            -- Flush inside WriteTo drops them and their edges without reconnecting the
            -- neighbours, so a live vertex that was reachable only through tombstones is found
            -- before writing and not after.  (D2 — tombstoned entry point never seeded — is
            -- fixed; the exact HNSW answers are predicted and checked by C12's model; here only
            -- the trigger and reload == after are checked.)
            (st', s!"KNOWN D21-hnsw-write-flush-changes-answers {label}")
          else if phase == "after" && st.textPending && why == "scores" then
            -- BM25 statistics (N, df, average length) count soft-deleted documents until the
            -- Flush inside WriteTo: same ids, other scores
            (st', s!"KNOWN D25-bm25-write-rescoring {label}")
          else (st', s!"SPECFAIL answers-differ {label} {phase} {why}")
      | _, _ => (st', s!"SPECFAIL answers-differ {label} {phase} ref={ref.take 3} got={post.take 3}")
  | ["state", label, phase] =>
    -- the complete exported state of two real indexes (source / reloaded / model-loaded),
    -- token by token: implementation against implementation, exact
    let key := "state:" ++ label
    match st.refs.find? (·.1 == key) with
    | none => ({ st with refs := (key, post) :: st.refs }, "ok")
    | some (_, ref) =>
      if ref == post then (st, "ok samestate=1") else
      let i := ((ref.zip post).takeWhile fun (a, b) => a == b).length
      (st, s!"SPECFAIL state-differs {label} {phase} at={i} ref={ref.getD i "<end>"} got={post.getD i "<end>"}")
  | ["eq", label] =>
    match st.refs.find? (·.1 == label) with
    | none => ({ st with refs := (label, post) :: st.refs }, "ok")
    | some (_, ref) =>
      if ref == post then (st, "ok same=1")
      else (st, s!"SPECFAIL outcomes-differ {label} ref={ref.take 4} got={post.take 4}")
  | _ => (st, "BADOP unknown")

def handler : Handler := { name := "codec", σ := St, init := init, op := opCodec }

/-! ### stream `trunc` -/

def expectRejected (what : String) (modelAccepts : Bool) (post : List String) : String :=
  match post with
  | ["e"] => if modelAccepts then s!"DIFF {what} model=accepts impl=error" else "ok rejected=1"
  | ["o"] =>
    if modelAccepts then s!"SPECFAIL {what} accepted by implementation and model"
    else s!"SPECFAIL {what} accepted by the implementation (model rejects)"
  | ["h"] => s!"SPECFAIL {what}: ReadFrom did not return (hang)"
  | _ => s!"BADOP {what} outcome"

def opTrunc (st : St) (toks : List String) : St × String :=
  let (pre, post) := splitOutcome toks
  match pre with
  | ["stream", hex] =>
    match parseHexBytes hex with
    | none => (st, "BADOP stream hex")
    | some stream =>
      match decodeFull st.recv stream with
      | .error e =>
        if e.startsWith "unsupported" then (st, s!"UNSUPPORTED {e}")
        else (st, s!"DIFF stream model-decode={e}")
      | .ok (s, _) =>
        ({ st with stream := stream, decoded := some s }, s!"ok len={stream.length} big={b01 (decide (stream.length > 4096))}")
  | ["prefixes", from_, to_] =>
    match from_.toNat?, to_.toNat?, post with
    | some lo, some hi, [outcomes] =>
      let os := outcomes.toList
      if os.length != hi - lo then (st, "BADOP prefixes length") else
      -- the implementation is judged on EVERY length; the model decoder (whose verdict on
      -- strict prefixes is a theorem) is run as a cross-check on all of them up to 4 KB and on a sample beyond
      let sampled (n : Nat) : Bool :=
        st.stream.length ≤ 4096 || n % 16 == 0 || n + 8 ≥ st.stream.length
      let bad := (List.range (hi - lo)).filterMap fun i =>
        let n := lo + i
        let impl := os.getD i '?'
        if n < st.stream.length then
          if impl == 'o' then some s!"SPECFAIL prefix-accepted n={n} of {st.stream.length}"
          else if impl == 'h' then
            some s!"SPECFAIL prefix-hang: ReadFrom did not return on a truncated stream (first {n} of {st.stream.length} bytes)"
          else if impl != 'e' then some s!"BADOP prefix outcome {impl}"
          else if sampled n && st.recv.accepts bm (st.stream.take n) then
            some s!"DIFF prefix n={n} model=accepts impl=error"
          else none
        else
          let modelAcc := st.recv.accepts bm (st.stream.take n)
          if impl == 'o' && modelAcc then none
          else some s!"DIFF full-stream n={n} model={modelAcc} impl={impl}"
      match bad.find? (·.startsWith "SPECFAIL"), bad.head? with
      | some b, _ => (st, b)
      | none, some b => (st, b)
      | none, none => (st, s!"ok prefixes={hi - lo}")
    | _, _, _ => (st, "BADOP prefixes")
  | ["cross", kind, hex] =>
    match Kind.parse kind, parseHexBytes hex with
    | some k, some bytes =>
      if k == st.recv.kind then (st, "BADOP cross same kind") else
      (st, expectRejected s!"cross-kind writer={kind}" (st.recv.accepts bm bytes) post)
    | _, _ => (st, "BADOP cross")
  | "mismatch" :: what :: params =>
    match parseRecv st.recv.kind params with
    | none => (st, "BADOP mismatch params")
    | some r =>
      if r == st.recv then (st, "BADOP mismatch receiver equals writer") else
      let acc := r.accepts bm st.stream
      match post with
      | ["e"] => if acc then (st, s!"DIFF mismatch {what} model=accepts impl=error") else (st, "ok rejected=1")
      | ["o"] =>
        (st, s!"SPECFAIL mismatch {what} accepted by the implementation (model accepts={acc})")
      | ["h"] => (st, s!"SPECFAIL mismatch {what}: ReadFrom did not return (hang)")
      | _ => (st, "BADOP mismatch outcome")
  | ["version", _v, hex] =>
    match parseHexBytes hex with
    | some bytes => (st, expectRejected "version" (st.recv.accepts bm bytes) post)
    | none => (st, "BADOP version")
  | ["patched", hex] =>
    match parseHexBytes hex with
    | some bytes =>
      let acc := st.recv.accepts bm bytes
      (match post with
       | ["e"] => if acc then (st, "DIFF patched model=accepts impl=error") else (st, "ok rejected=1")
       | ["o"] => if acc then (st, "ok accepted=1") else (st, "DIFF patched model=rejects impl=accepts")
       | ["h"] => (st, "SPECFAIL patched: ReadFrom did not return (hang)")
       | _ => (st, "BADOP patched outcome"))
    | none => (st, "BADOP patched")
  | ["segment", i, hdr, delivered, l0, l1, l2, l3] =>
    match st.recv, i.toNat?, delivered.toNat?, [l0, l1, l2, l3].mapM String.toNat? with
    | .hybrid p, some i, some d, some [n0, n1, n2, n3] =>
      -- what the reader delivers: the components before i, then `d` bytes of component i
      let before := ([n0, n1, n2, n3].take i).sum
      -- hdr = 0: gzip.NewReader failed (empty / missing file, cut inside the gzip header):
      -- getIndex gives up before ReadFrom is called at all
      let inp := if hdr == "1" then st.stream.take (before + d) else []
      let total := n0 + n1 + n2 + n3
      if total != st.stream.length then (st, "BADOP segment lengths") else
      let prog := Codec.Hybrid.loadProgress bm p inp
      let acc := st.recv.accepts bm inp
      -- impl: ids answered by a vector-only, text-only, metadata-only probe after a warm-up
      -- search, the ids an intact segment answers to the same probes, and whether the store
      -- accepted (loaded and cached) the damaged segment
      if post.head? == some "hang" then
        (st, s!"SPECFAIL segment-hang: searching the store with a damaged segment did not return (i={i} d={d})") else
      match kvGet post "vec", kvGet post "txt", kvGet post "md", kvGet post "all" with
      | some v, some t, some m, some all =>
        let allParts := all.splitOn "/"
        let fullV := allParts.getD 0 "-"
        let fullT := allParts.getD 1 "-"
        let fullM := allParts.getD 2 "-"
        -- every `segment` line is about a DAMAGED component (cut short, emptied or deleted):
        -- the segment must not be accepted, whatever the reader still delivered (since fix
        -- ae56580 getIndex reads the component files to their end, so a cut inside the gzip
        -- trailer is an error like any other)
        if kvGet post "cached" == some "1" then
          (st, s!"SPECFAIL segment with a damaged component file was loaded and contributes (i={i} d={d} model-accepts-delivered-bytes={acc})") else
        -- faithful prediction with index instances shared between memtable and loads (D13):
        -- the sub-indexes ReadFrom had loaded in place before the error answer through the
        -- memtable; when all bytes were delivered (damage in the gzip tail only) that is all
        let pv := if (acc || prog ≥ 1) && p.vec.isSome then fullV else "-"
        let pt := if (acc || prog ≥ 2) && p.txt then fullT else "-"
        let pm := if acc && p.md then fullM else "-"
        if v == "-" && t == "-" && m == "-" then
          if pv == "-" && pt == "-" && pm == "-" then (st, "ok nothing=1")
          else (st, s!"DIFF segment model-predicts vec={pv} txt={pt} md={pm} impl=nothing i={i} d={d}")
        else if v == pv && t == pt && m == pm then
          (st, s!"KNOWN D13-shared-templates i={i} d={d} progress={if acc then 3 else prog}")
        else (st, s!"SPECFAIL segment contributes vec={v} txt={t} md={m} model-predicts vec={pv} txt={pt} md={pm} (i={i} d={d} progress={prog} delivered-all={acc})")
      | _, _, _, _ => (st, "BADOP segment outcome")
    | _, _, _, _ => (st, "BADOP segment")
  | _ => (st, "BADOP unknown")

def truncHandler : Handler := { name := "trunc", σ := St, init := init, op := opTrunc }

end Comet.Driver.CodecStream
